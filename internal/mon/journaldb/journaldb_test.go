package journaldb

import (
	"bytes"
	"testing"

	"gitlab.com/aquachain/aquachain/aquadb"
)

func TestJournalPrefixesAndFailure(t *testing.T) {
	mem := aquadb.NewMemDatabase()
	mem.Put([]byte("base"), []byte("0"))
	j := New(mem, SnapshotMem(mem))
	j.MarkStep("0:a")
	j.Put([]byte("k1"), []byte("v1")) // event 0
	b := j.NewBatch()
	b.Put([]byte("k2"), []byte("v2"))
	b.Delete([]byte("k1"))
	if b.ValueSize() != 3 {
		t.Fatalf("value size %d", b.ValueSize())
	}
	if j.Len() != 1 {
		t.Fatal("batch ops must not be events before Write")
	}
	b.Write() // event 1
	b.Reset()
	if err := b.Write(); err != nil || j.Len() != 2 {
		t.Fatal("empty batch write must not be an event")
	}
	j.MarkStep("1:b")
	j.Delete([]byte("k2")) // event 2
	j.FailOn(&FailSpec{Index: 3})
	var seen *Failure
	j.OnFail = func(f *Failure) { seen = f; _ = j.Events() /* no lock held */ }
	if err := j.Put([]byte("k3"), []byte("v3")); err != ErrInjected {
		t.Fatalf("want injected failure, got %v", err)
	}
	if seen == nil || seen.Index != 3 || j.Len() != 3 {
		t.Fatalf("failure record %+v len %d", seen, j.Len())
	}
	if ok, _ := mem.Has([]byte("k3")); ok {
		t.Fatal("failed write was applied")
	}
	if err := j.Put([]byte("k4"), []byte("v4")); err != nil || j.Len() != 4 { // only one write fails
		t.Fatal(err)
	}
	want := []map[string]string{
		{"base": "0"},
		{"base": "0", "k1": "v1"},
		{"base": "0", "k2": "v2"},
		{"base": "0"},
		{"base": "0", "k4": "v4"},
	}
	for k, w := range want {
		m := j.Materialise(k)
		if m.Len() != len(w) {
			t.Fatalf("prefix %d: %d keys, want %d", k, m.Len(), len(w))
		}
		for key, val := range w {
			if got, err := m.Get([]byte(key)); err != nil || !bytes.Equal(got, []byte(val)) {
				t.Fatalf("prefix %d key %s: %q %v", k, key, got, err)
			}
		}
	}
	evs := j.Events()
	if evs[0].Step != 0 || evs[2].Step != 1 || evs[1].Kind != KindBatch || len(evs[1].Ops) != 2 {
		t.Fatalf("events %+v", evs)
	}
	// match-based injection: second batch that carries a delete
	j2 := New(aquadb.NewMemDatabase(), nil)
	j2.FailOn(&FailSpec{Match: func(ev *Event) bool { return ev.Kind == KindBatch }, Nth: 1})
	for i := 0; i < 3; i++ {
		b := j2.NewBatch()
		b.Put([]byte{byte(i)}, []byte{1})
		err := b.Write()
		if (i == 1) != (err == ErrInjected) {
			t.Fatalf("batch %d: %v", i, err)
		}
	}
}
