// Package journaldb is a write recorder and fault injector for any
// aquadb.Database. Every write that reaches the store - a single Put, a single
// Delete, or the flush of a batch (one atomic event carrying all its ops) - is
// numbered and kept. The journal can make one chosen write fail with an error,
// and can rebuild "the database after the first k events" as a fresh
// MemDatabase, which is the crash model of property C04: a crash cuts the
// logical write sequence between two events, batches are atomic.
package journaldb

import (
	"errors"
	"sync"

	"gitlab.com/aquachain/aquachain/aquadb"
)

// ErrInjected is what a write chosen for failure returns.
var ErrInjected = errors.New("journaldb: injected write failure")

type Kind uint8

const (
	KindPut Kind = iota
	KindDelete
	KindBatch
)

func (k Kind) String() string {
	switch k {
	case KindPut:
		return "put"
	case KindDelete:
		return "delete"
	default:
		return "batch"
	}
}

// Op is one key mutation.
type Op struct {
	Del bool
	Key []byte
	Val []byte
}

// Event is one write as the store sees it.
type Event struct {
	Kind Kind
	Ops  []Op
	Step int // index of the latest Mark set before the event (-1 if none)
}

// Mark labels a position of the journal (set by the workload driver).
type Mark struct {
	At    int // number of events recorded before the mark
	Label string
}

// FailSpec selects the write that fails. Exactly one write fails per journal.
type FailSpec struct {
	// Index >= 0: the write that would become event number Index fails.
	Index int
	// Match != nil: the Nth (0-based) write for which Match returns true fails
	// (Index is ignored).
	Match func(ev *Event) bool
	Nth   int
}

// Failure describes the injected failure once it happened.
type Failure struct {
	Index int   // number of events recorded before the failing write
	Event Event // the write that was refused (not applied, not in the journal)
}

// DB wraps a database.
type DB struct {
	mu     sync.Mutex
	inner  aquadb.Database
	base   map[string][]byte
	events []Event
	marks  []Mark

	fail    *FailSpec
	matched int
	failed  *Failure
	// OnFail runs (no journal lock held) just before the failing write returns
	// its error; a process that is killed by the caller's error handling can
	// leave a record here.
	OnFail func(f *Failure)
	// AfterWrite runs (no journal lock held) after every write that was applied
	// and recorded, with the number of events recorded so far; a process can end
	// itself here to die exactly between two writes.
	AfterWrite func(n int)
}

// New wraps inner. base is the content of inner at this moment (may be nil if
// Materialise is not used); it is not copied.
func New(inner aquadb.Database, base map[string][]byte) *DB {
	return &DB{inner: inner, base: base}
}

// SnapshotMem copies the content of a MemDatabase.
func SnapshotMem(m *aquadb.MemDatabase) map[string][]byte {
	out := map[string][]byte{}
	for _, k := range m.Keys() {
		v, err := m.Get(k)
		if err == nil {
			out[string(k)] = v
		}
	}
	return out
}

// FailOn arms the injector (nil disarms).
func (d *DB) FailOn(f *FailSpec) {
	d.mu.Lock()
	d.fail, d.matched = f, 0
	d.mu.Unlock()
}

// Failed returns the injected failure, or nil if none happened (yet).
func (d *DB) Failed() *Failure {
	d.mu.Lock()
	defer d.mu.Unlock()
	return d.failed
}

// MarkStep labels the current position.
func (d *DB) MarkStep(label string) {
	d.mu.Lock()
	d.marks = append(d.marks, Mark{At: len(d.events), Label: label})
	d.mu.Unlock()
}

// Len is the number of events recorded.
func (d *DB) Len() int {
	d.mu.Lock()
	defer d.mu.Unlock()
	return len(d.events)
}

// Events returns the journal (shared slice; do not modify).
func (d *DB) Events() []Event {
	d.mu.Lock()
	defer d.mu.Unlock()
	return d.events[:len(d.events):len(d.events)]
}

// Marks returns the marks.
func (d *DB) Marks() []Mark {
	d.mu.Lock()
	defer d.mu.Unlock()
	return d.marks[:len(d.marks):len(d.marks)]
}

// Base returns the content the wrapped database had when it was wrapped.
func (d *DB) Base() map[string][]byte { return d.base }

// record decides about one write: refuse it (injected failure) or apply it to
// the inner store and append it to the journal.
func (d *DB) record(ev Event, apply func() error) error {
	d.mu.Lock()
	ev.Step = len(d.marks) - 1
	if f := d.decide(&ev); f != nil {
		cb := d.OnFail
		d.mu.Unlock()
		if cb != nil {
			cb(f)
		}
		return ErrInjected
	}
	if err := apply(); err != nil {
		d.mu.Unlock()
		return err
	}
	d.events = append(d.events, ev)
	n, aw := len(d.events), d.AfterWrite
	d.mu.Unlock()
	if aw != nil {
		aw(n)
	}
	return nil
}

// decide (lock held) returns the failure record if this write is the one to fail.
func (d *DB) decide(evp *Event) *Failure {
	ev := *evp
	if d.fail != nil && d.failed == nil {
		hit := false
		if d.fail.Match != nil {
			if d.fail.Match(&ev) {
				hit = d.matched == d.fail.Nth
				d.matched++
			}
		} else {
			hit = d.fail.Index == len(d.events)
		}
		if hit {
			d.failed = &Failure{Index: len(d.events), Event: ev}
			return d.failed
		}
	}
	return nil
}

func cp(b []byte) []byte { return append([]byte{}, b...) }

func (d *DB) Put(key, value []byte) error {
	ev := Event{Kind: KindPut, Ops: []Op{{Key: cp(key), Val: cp(value)}}}
	return d.record(ev, func() error { return d.inner.Put(key, value) })
}

func (d *DB) Delete(key []byte) error {
	ev := Event{Kind: KindDelete, Ops: []Op{{Del: true, Key: cp(key)}}}
	return d.record(ev, func() error { return d.inner.Delete(key) })
}

func (d *DB) Get(key []byte) ([]byte, error) { return d.inner.Get(key) }
func (d *DB) Has(key []byte) (bool, error)   { return d.inner.Has(key) }
func (d *DB) Close()                         {}

func (d *DB) NewBatch() aquadb.Batch { return &batch{d: d} }

// batch buffers ops; Write is one event. ValueSize follows the convention of
// both stores of the repository (value length for a put, 1 for a delete), so
// the callers' flush thresholds behave as on LevelDB.
type batch struct {
	d    *DB
	ops  []Op
	size int
}

func (b *batch) Put(key, value []byte) error {
	b.ops = append(b.ops, Op{Key: cp(key), Val: cp(value)})
	b.size += len(value)
	return nil
}

func (b *batch) Delete(key []byte) error {
	b.ops = append(b.ops, Op{Del: true, Key: cp(key)})
	b.size++
	return nil
}

func (b *batch) ValueSize() int { return b.size }

func (b *batch) Reset() {
	b.ops = nil
	b.size = 0
}

func (b *batch) Write() error {
	if len(b.ops) == 0 {
		return nil // nothing reaches the store: not an event
	}
	ev := Event{Kind: KindBatch, Ops: b.ops[:len(b.ops):len(b.ops)]}
	return b.d.record(ev, func() error {
		ib := b.d.inner.NewBatch()
		for _, o := range b.ops {
			if o.Del {
				ib.Delete(o.Key)
			} else {
				ib.Put(o.Key, o.Val)
			}
		}
		return ib.Write()
	})
}

// ---------------------------------------------------------------------------
// Replay.

// Apply applies one event to a plain map view.
func Apply(view map[string][]byte, ev *Event) {
	for i := range ev.Ops {
		o := &ev.Ops[i]
		if o.Del {
			delete(view, string(o.Key))
		} else {
			view[string(o.Key)] = o.Val
		}
	}
}

// ToMem builds a fresh MemDatabase from a map view.
func ToMem(view map[string][]byte) *aquadb.MemDatabase {
	m := aquadb.NewMemDatabaseWithCap(len(view))
	for k, v := range view {
		m.Put([]byte(k), v)
	}
	return m
}

// View returns base + the first k events as a map (values shared, read-only).
func (d *DB) View(k int) map[string][]byte {
	evs := d.Events()
	if k > len(evs) {
		k = len(evs)
	}
	view := make(map[string][]byte, len(d.base)+k)
	for key, v := range d.base {
		view[key] = v
	}
	for i := 0; i < k; i++ {
		Apply(view, &evs[i])
	}
	return view
}

// Materialise returns the database after the first k events as a fresh
// MemDatabase.
func (d *DB) Materialise(k int) *aquadb.MemDatabase { return ToMem(d.View(k)) }
