// Package reftrie computes the Merkle-Patricia root of a key/value set by the
// yellow paper's recursive definition (appendix D): no incremental structure,
// no caches, no code shared with /repo/trie. It also collects the node set so
// tests can know which encodings exist.
package reftrie

import (
	"bytes"
	"sort"

	"verif/internal/ref/refhash"
	"verif/internal/ref/refrlp"
)

type kv struct {
	nib []byte
	val []byte
}

// EmptyRoot is keccak256(rlp("")).
var EmptyRoot = refhash.Keccak256([]byte{0x80})

func nibbles(k []byte) []byte {
	n := make([]byte, 0, 2*len(k))
	for _, b := range k {
		n = append(n, b>>4, b&15)
	}
	return n
}

// hexPrefix encodes a nibble path with the leaf flag (yellow paper HP).
func hexPrefix(nib []byte, leaf bool) []byte {
	f := byte(0)
	if leaf {
		f = 2
	}
	var out []byte
	if len(nib)%2 == 1 {
		out = append(out, (f+1)<<4|nib[0])
		nib = nib[1:]
	} else {
		out = append(out, f<<4)
	}
	for i := 0; i < len(nib); i += 2 {
		out = append(out, nib[i]<<4|nib[i+1])
	}
	return out
}

// Root returns the MPT root of the content (entries with empty values are
// treated as absent). Keys are raw (not hashed) byte strings.
func Root(content map[string][]byte) []byte {
	r, _ := RootAndNodes(content)
	return r
}

// RootAndNodes additionally returns every node encoding of >= 32 bytes keyed by
// hash (what a database would hold), plus the root node even if short.
func RootAndNodes(content map[string][]byte) ([]byte, map[string][]byte) {
	var kvs []kv
	for k, v := range content {
		if len(v) == 0 {
			continue
		}
		kvs = append(kvs, kv{nibbles([]byte(k)), v})
	}
	nodes := map[string][]byte{}
	if len(kvs) == 0 {
		return EmptyRoot, nodes
	}
	sort.Slice(kvs, func(i, j int) bool { return bytes.Compare(kvs[i].nib, kvs[j].nib) < 0 })
	it := build(kvs, 0, nodes)
	enc := refrlp.Encode(it)
	h := refhash.Keccak256(enc)
	nodes[string(h)] = enc
	return h, nodes
}

// build returns the structural node c(J, i) for the sorted set, all sharing the
// first `depth` nibbles.
func build(kvs []kv, depth int, nodes map[string][]byte) *refrlp.Item {
	if len(kvs) == 1 {
		return refrlp.L(refrlp.S(hexPrefix(kvs[0].nib[depth:], true)), refrlp.S(kvs[0].val))
	}
	// longest common prefix beyond depth
	first, last := kvs[0].nib, kvs[len(kvs)-1].nib
	l := depth
	for l < len(first) && l < len(last) && first[l] == last[l] {
		l++
	}
	if l > depth {
		child := build(kvs, l, nodes)
		return refrlp.L(refrlp.S(hexPrefix(first[depth:l], false)), ref(child, nodes))
	}
	// branch
	items := make([]*refrlp.Item, 17)
	for i := range items {
		items[i] = refrlp.S(nil)
	}
	rest := kvs
	if len(rest[0].nib) == depth {
		items[16] = refrlp.S(rest[0].val)
		rest = rest[1:]
	}
	for len(rest) > 0 {
		nb := rest[0].nib[depth]
		j := 0
		for j < len(rest) && rest[j].nib[depth] == nb {
			j++
		}
		items[nb] = ref(build(rest[:j], depth+1, nodes), nodes)
		rest = rest[j:]
	}
	return refrlp.L(items...)
}

// ref is n(J,i): the node itself when its encoding is shorter than 32 bytes,
// else its hash.
func ref(n *refrlp.Item, nodes map[string][]byte) *refrlp.Item {
	enc := refrlp.Encode(n)
	if len(enc) < 32 {
		return n
	}
	h := refhash.Keccak256(enc)
	nodes[string(h)] = enc
	return refrlp.S(h)
}

// Shape describes the structure of the reference trie for a content: used by
// the checks' observation gates (e.g. "a delete collapsed a branch").
type Shape struct {
	Branches, Extensions, Leaves int
	Embedded                     int // nodes whose encoding is < 32 bytes (stored inline in the parent)
	BranchValues                 int // branch nodes carrying a value in the 17th slot
}

func ShapeOf(content map[string][]byte) Shape {
	var kvs []kv
	for k, v := range content {
		if len(v) == 0 {
			continue
		}
		kvs = append(kvs, kv{nibbles([]byte(k)), v})
	}
	var s Shape
	if len(kvs) == 0 {
		return s
	}
	sort.Slice(kvs, func(i, j int) bool { return bytes.Compare(kvs[i].nib, kvs[j].nib) < 0 })
	shape(kvs, 0, &s, true)
	return s
}

func shape(kvs []kv, depth int, s *Shape, root bool) *refrlp.Item {
	var it *refrlp.Item
	if len(kvs) == 1 {
		s.Leaves++
		it = refrlp.L(refrlp.S(hexPrefix(kvs[0].nib[depth:], true)), refrlp.S(kvs[0].val))
	} else {
		first, last := kvs[0].nib, kvs[len(kvs)-1].nib
		l := depth
		for l < len(first) && l < len(last) && first[l] == last[l] {
			l++
		}
		if l > depth {
			s.Extensions++
			child := shape(kvs, l, s, false)
			it = refrlp.L(refrlp.S(hexPrefix(first[depth:l], false)), ref(child, map[string][]byte{}))
		} else {
			s.Branches++
			items := make([]*refrlp.Item, 17)
			for i := range items {
				items[i] = refrlp.S(nil)
			}
			rest := kvs
			if len(rest[0].nib) == depth {
				s.BranchValues++
				items[16] = refrlp.S(rest[0].val)
				rest = rest[1:]
			}
			for len(rest) > 0 {
				nb := rest[0].nib[depth]
				j := 0
				for j < len(rest) && rest[j].nib[depth] == nb {
					j++
				}
				items[nb] = ref(shape(rest[:j], depth+1, s, false), map[string][]byte{})
				rest = rest[j:]
			}
			it = refrlp.L(items...)
		}
	}
	if !root && len(refrlp.Encode(it)) < 32 {
		s.Embedded++
	}
	return it
}
