package reftrie

import (
	"encoding/hex"
	"testing"

	"gitlab.com/aquachain/aquachain/aquadb"
	"gitlab.com/aquachain/aquachain/common"
	"gitlab.com/aquachain/aquachain/trie"
	"verif/internal/fw"
)

// Cross-check against the vectors in /repo/trie/trie_test.go and against the
// real trie on random content (the latter is only a sanity test of the model:
// the checks themselves treat a disagreement as something to triage).
func TestVectors(t *testing.T) {
	m := map[string][]byte{"doe": []byte("reindeer"), "dog": []byte("puppy"), "dogglesworth": []byte("cat")}
	if got := hex.EncodeToString(Root(m)); got != "8aad789dff2f538bca5d8ea56e8abe10f4c7ba3a5dea95fea4cd6e7c3a1168d3" {
		t.Fatal(got)
	}
	m = map[string][]byte{"A": []byte("aaaaaaaaaaaaaaaaaaaaaaaaaaaaaaaaaaaaaaaaaaaaaaaaaa")}
	if got := hex.EncodeToString(Root(m)); got != "d23786fb4a010da3ce639d66d5e904a11dbc02746d1ce25029e53290cabf28ab" {
		t.Fatal(got)
	}
	if hex.EncodeToString(EmptyRoot) != "56e81f171bcc55a6ff8345e692c0f86e5b48e01b996cadc001622fb5e363b421" {
		t.Fatal("empty")
	}
}

func TestAgainstReal(t *testing.T) {
	r := fw.NewRand(1, "reftrie")
	for i := 0; i < 300; i++ {
		m := map[string][]byte{}
		db := trie.NewDatabase(aquadb.NewMemDatabase())
		tr, _ := trie.New(common.Hash{}, db)
		n := r.Range(0, 30)
		for j := 0; j < n; j++ {
			k := r.Bytes(r.Range(0, 4))
			for x := range k {
				k[x] &= 0x33
			}
			v := r.Bytes(r.Range(1, 40))
			m[string(k)] = v
			tr.Update(k, v)
		}
		if got, want := hex.EncodeToString(Root(m)), hex.EncodeToString(tr.Hash().Bytes()); got != want {
			t.Fatalf("iter %d: ref %s real %s (%d keys)", i, got, want, len(m))
		}
	}
}
