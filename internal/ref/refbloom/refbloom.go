// Package refbloom: the 2048-bit log bloom of the yellow paper (M3:2048),
// written from the specification with x/crypto Keccak (internal/ref/refhash),
// plain byte arrays and no big integers. Independent of core/types/bloom9.go
// and of core/bloombits.
//
// Specification (yellow paper, section 4.3.1): for a byte sequence x, take
// Keccak-256(x); for each of the first three pairs of bytes (0,1), (2,3), (4,5)
// take the low-order 11 bits of the pair read as a big-endian 16-bit number;
// that number m indexes a bit of the 2048-bit filter, bit 0 being the least
// significant bit of the 256-byte big-endian string (i.e. of its last byte).
// The bloom of a log is the OR over its address and each of its topics; of a
// receipt the OR over its logs; of a header the OR over its receipts.
package refbloom

import (
	"fmt"

	"verif/internal/ref/refhash"
)

const (
	Bytes = 256
	Bits  = 2048
)

type Bloom [Bytes]byte

// Indexes returns the three bit numbers (0..2047) selected by item.
func Indexes(item []byte) [3]uint {
	h := refhash.Keccak256(item)
	var out [3]uint
	for k := 0; k < 3; k++ {
		pair := uint(h[2*k])*256 + uint(h[2*k+1])
		out[k] = pair % 2048
	}
	return out
}

// SetBit sets bit number m (0 = least significant bit of the last byte).
func (b *Bloom) SetBit(m uint) { b[Bytes-1-m/8] |= 1 << (m % 8) }

// Bit reports bit number m.
func (b *Bloom) Bit(m uint) bool { return b[Bytes-1-m/8]&(1<<(m%8)) != 0 }

// Add ORs the three bits of item into the filter.
func (b *Bloom) Add(item []byte) {
	for _, m := range Indexes(item) {
		b.SetBit(m)
	}
}

// Has reports whether all three bits of item are set (the plain bloom test).
func (b *Bloom) Has(item []byte) bool {
	for _, m := range Indexes(item) {
		if !b.Bit(m) {
			return false
		}
	}
	return true
}

// Or merges o into b.
func (b *Bloom) Or(o *Bloom) {
	for i := range b {
		b[i] |= o[i]
	}
}

// Log is the consensus content of a log as the bloom sees it.
type Log struct {
	Address []byte   // 20 bytes
	Topics  [][]byte // 32 bytes each
}

// OfLogs is the bloom of a list of logs.
func OfLogs(logs []Log) Bloom {
	var b Bloom
	for _, l := range logs {
		b.Add(l.Address)
		for _, t := range l.Topics {
			b.Add(t)
		}
	}
	return b
}

// SelfTest checks the model against vectors that do not come from the code
// under test: the membership vectors of core/types/bloom9_test.go (items added
// as raw strings) and the bit positions of the empty item, derived by hand from
// the specification text and the published Keccak-256("") value. (An upstream
// 100-item known-answer digest was considered and dropped: it could not be
// confirmed offline, and a digest printed by this code would test nothing.)
func SelfTest() error {
	var b Bloom
	for _, s := range []string{"testtest", "test", "hallo", "other"} {
		b.Add([]byte(s))
	}
	for _, s := range []string{"testtest", "test", "hallo", "other"} {
		if !b.Has([]byte(s)) {
			return fmt.Errorf("refbloom self-test: %q not contained", s)
		}
	}
	for _, s := range []string{"tes", "lo"} {
		if b.Has([]byte(s)) {
			return fmt.Errorf("refbloom self-test: %q contained", s)
		}
	}
	// the empty-string item: Keccak-256("") = c5d24601 86f7 233c... -> pairs c5d2, 4601, 86f7
	if ix := Indexes(nil); ix != [3]uint{0xc5d2 % 2048, 0x4601 % 2048, 0x86f7 % 2048} {
		return fmt.Errorf("refbloom self-test: indexes of empty item %v", ix)
	}
	// placement: bit m lives in byte 255-m/8 under mask 1<<(m%8);
	// 0x5d2 = 1490 -> byte 69, mask 0x04; 0x601 = 1537 -> byte 63, mask 0x02;
	// 0x6f7 = 1783 -> byte 33, mask 0x80
	var z Bloom
	z.Add(nil)
	want := map[int]byte{69: 0x04, 63: 0x02, 33: 0x80}
	for i, v := range z {
		if v != want[i] {
			return fmt.Errorf("refbloom self-test: empty item sets byte %d to %#x, want %#x", i, v, want[i])
		}
	}
	return nil
}
