// Package refrlp is an independent reference for canonical RLP: an item tree,
// its unique encoding, and a strict decoder. Written from the RLP definition
// (yellow paper appendix B); shares no code with /repo/rlp.
package refrlp

import (
	"errors"
	"math/big"
)

// Item is either a byte string (List == false) or a list of items.
type Item struct {
	IsList bool
	Str    []byte
	List   []*Item
}

func S(b []byte) *Item      { return &Item{Str: append([]byte{}, b...)} }
func L(items ...*Item) *Item { return &Item{IsList: true, List: items} }

// U encodes an unsigned integer as the minimal big-endian byte string.
func U(v uint64) *Item {
	var b []byte
	for v > 0 {
		b = append([]byte{byte(v)}, b...)
		v >>= 8
	}
	return &Item{Str: b}
}

// B encodes a non-negative big integer minimally.
func B(v *big.Int) *Item {
	if v == nil {
		return &Item{Str: nil}
	}
	return &Item{Str: v.Bytes()}
}

func lenPrefix(n int, base byte) []byte {
	if n < 56 {
		return []byte{base + byte(n)}
	}
	var lb []byte
	for m := n; m > 0; m >>= 8 {
		lb = append([]byte{byte(m)}, lb...)
	}
	return append([]byte{base + 55 + byte(len(lb))}, lb...)
}

// Encode returns the unique canonical encoding of the item.
func Encode(it *Item) []byte {
	if !it.IsList {
		if len(it.Str) == 1 && it.Str[0] < 0x80 {
			return []byte{it.Str[0]}
		}
		return append(lenPrefix(len(it.Str), 0x80), it.Str...)
	}
	var payload []byte
	for _, c := range it.List {
		payload = append(payload, Encode(c)...)
	}
	return append(lenPrefix(len(payload), 0xc0), payload...)
}

var (
	ErrEmpty        = errors.New("refrlp: empty input")
	ErrTruncated    = errors.New("refrlp: value larger than input")
	ErrNonCanonSize = errors.New("refrlp: non-canonical size")
	ErrNonCanonByte = errors.New("refrlp: single byte below 0x80 must not be wrapped")
	ErrTrailing     = errors.New("refrlp: trailing bytes")
)

// DecodeOne strictly decodes one item from the front of b and returns the rest.
// maxDepth bounds recursion (0 = 1<<20).
func DecodeOne(b []byte) (*Item, []byte, error) {
	if len(b) == 0 {
		return nil, nil, ErrEmpty
	}
	t := b[0]
	switch {
	case t < 0x80:
		return &Item{Str: []byte{t}}, b[1:], nil
	case t < 0xb8:
		n := int(t - 0x80)
		if len(b)-1 < n {
			return nil, nil, ErrTruncated
		}
		if n == 1 && b[1] < 0x80 {
			return nil, nil, ErrNonCanonByte
		}
		return &Item{Str: append([]byte{}, b[1:1+n]...)}, b[1+n:], nil
	case t < 0xc0:
		ll := int(t - 0xb7)
		n, err := readLen(b[1:], ll)
		if err != nil {
			return nil, nil, err
		}
		if uint64(len(b)-1-ll) < n {
			return nil, nil, ErrTruncated
		}
		return &Item{Str: append([]byte{}, b[1+ll:1+ll+int(n)]...)}, b[1+ll+int(n):], nil
	case t < 0xf8:
		n := int(t - 0xc0)
		if len(b)-1 < n {
			return nil, nil, ErrTruncated
		}
		items, err := decodeList(b[1 : 1+n])
		if err != nil {
			return nil, nil, err
		}
		return &Item{IsList: true, List: items}, b[1+n:], nil
	default:
		ll := int(t - 0xf7)
		n, err := readLen(b[1:], ll)
		if err != nil {
			return nil, nil, err
		}
		if uint64(len(b)-1-ll) < n {
			return nil, nil, ErrTruncated
		}
		items, err := decodeList(b[1+ll : 1+ll+int(n)])
		if err != nil {
			return nil, nil, err
		}
		return &Item{IsList: true, List: items}, b[1+ll+int(n):], nil
	}
}

func readLen(b []byte, ll int) (uint64, error) {
	if len(b) < ll {
		return 0, ErrTruncated
	}
	if b[0] == 0 {
		return 0, ErrNonCanonSize
	}
	if ll > 8 {
		return 0, ErrTruncated // cannot be satisfied by any real input
	}
	var n uint64
	for i := 0; i < ll; i++ {
		n = n<<8 | uint64(b[i])
	}
	if n < 56 {
		return 0, ErrNonCanonSize
	}
	return n, nil
}

func decodeList(payload []byte) ([]*Item, error) {
	items := []*Item{}
	for len(payload) > 0 {
		it, rest, err := DecodeOne(payload)
		if err != nil {
			return nil, err
		}
		items = append(items, it)
		payload = rest
	}
	return items, nil
}

// Decode strictly decodes exactly one item covering all of b.
func Decode(b []byte) (*Item, error) {
	it, rest, err := DecodeOne(b)
	if err != nil {
		return nil, err
	}
	if len(rest) != 0 {
		return nil, ErrTrailing
	}
	return it, nil
}

// IsCanonicalUint reports whether the string item is a canonical unsigned
// integer of at most maxBytes bytes (no leading zero byte).
func (it *Item) IsCanonicalUint(maxBytes int) bool {
	if it.IsList {
		return false
	}
	if len(it.Str) > maxBytes && maxBytes > 0 {
		return false
	}
	return len(it.Str) == 0 || it.Str[0] != 0
}
