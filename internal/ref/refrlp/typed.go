package refrlp

// Typed rules of the RLP <-> Go mapping, written from the documentation of the
// mapping (rlp/doc.go, the doc comments of Encode and Decode) and the RLP
// definition. Everything here works on the Item tree of refrlp; nothing calls
// into /repo/rlp (the package cannot even name rlp.RawValue: callers pass the
// types that are to be treated as raw values / custom codecs in Opts).
//
//   ToItem   Go value  -> abstract item   (what Encode must produce, canonically)
//   Accepts  item x Go type -> error      (which canonical items a typed Decode must take)
//   Header   shallow header parse of one value (what Split/CountValues must see)

import (
	"errors"
	"fmt"
	"math/big"
	"reflect"
	"strings"
)

// Opts names the types with non-structural rules.
type Opts struct {
	// Raw: types holding one pre-encoded value (rlp.RawValue).
	Raw map[reflect.Type]bool
	// Wire: a type with a hand-written codec -> the plain Go type that describes
	// its documented wire shape. Used by Accepts only.
	Wire map[reflect.Type]reflect.Type
	// Extra: additional acceptance predicate for a Wire *source* type, applied to
	// the item after the shape matched (e.g. the status-or-root rule of receipts).
	Extra map[reflect.Type]func(*Item) error
	// Conv: value of a Wire source type -> value of its wire type (ToItem only).
	Conv map[reflect.Type]func(reflect.Value) (reflect.Value, error)

	// Diagnosis switches. They never decide a verdict: after the strict rules
	// rejected an input the real code accepted, the harness asks again with one
	// rule relaxed; if the input then passes, the disagreement is attributed to
	// exactly that rule (and gets its own violation signature).
	//
	// LenientRawByte: a raw-value position may hold a wrapped single byte (81 xx, xx < 0x80).
	LenientRawByte bool
	// LenientNilKind: under rlp:"nil" an empty value of either kind stands for nil.
	LenientNilKind bool
}

var (
	bigT    = reflect.TypeOf(big.Int{})
	bigPtrT = reflect.TypeOf((*big.Int)(nil))
)

// Typed rejection classes (stable strings; used in violation signatures).
var (
	ErrWantString  = errors.New("expected_string")
	ErrWantList    = errors.New("expected_list")
	ErrLeadingZero = errors.New("leading_zero_int")
	ErrIntTooLong  = errors.New("int_too_long")
	ErrBadBool     = errors.New("bad_bool")
	ErrArrayLen    = errors.New("byte_array_length")
	ErrTooFew      = errors.New("too_few_elements")
	ErrTooMany     = errors.New("too_many_elements")
	ErrExtra       = errors.New("type_specific_rule")
	ErrUnsupported = errors.New("unsupported_type")
)

type fieldTags struct{ nilOK, tail, ignored bool }

func parseTags(f reflect.StructField) fieldTags {
	var t fieldTags
	for _, s := range strings.Split(f.Tag.Get("rlp"), ",") {
		switch strings.TrimSpace(s) {
		case "-":
			t.ignored = true
		case "nil":
			t.nilOK = true
		case "tail":
			t.tail = true
		}
	}
	return t
}

func isUintKind(k reflect.Kind) bool { return k >= reflect.Uint && k <= reflect.Uintptr }

func (it *Item) isEmpty() bool {
	if it.IsList {
		return len(it.List) == 0
	}
	return len(it.Str) == 0
}

// emptyKind: which empty value a nil pointer to t encodes as ('s' string,
// 'l' list, 0 unknown/any).
func emptyKind(t reflect.Type, o *Opts) byte {
	if o != nil {
		if o.Raw[t] {
			return 0
		}
		if w, ok := o.Wire[t]; ok {
			return emptyKind(w, o)
		}
	}
	switch {
	case t == bigT || t == bigPtrT:
		return 's'
	case isUintKind(t.Kind()), t.Kind() == reflect.Bool, t.Kind() == reflect.String:
		return 's'
	case t.Kind() == reflect.Slice || t.Kind() == reflect.Array:
		if t.Elem().Kind() == reflect.Uint8 {
			return 's'
		}
		return 'l'
	case t.Kind() == reflect.Struct:
		return 'l'
	case t.Kind() == reflect.Ptr:
		return emptyKind(t.Elem(), o)
	case t.Kind() == reflect.Interface:
		return 'l'
	}
	return 0
}

// node is one encoded value seen shallowly: its header and its full encoding.
type node struct {
	h       Hdr
	enc     []byte
	wrapped bool // 81 xx with xx < 0x80: a header-level canonicity fault, judged where the type is known
}

// mkNode parses the header of the first value of b; the single-byte rule is
// recorded, not enforced (accepts enforces it once it knows the position type).
func mkNode(b []byte) (node, error) {
	h, err := headerLoose(b)
	if err != nil {
		return node{}, err
	}
	n := node{h: h, enc: b[:h.Tag+h.Size]}
	n.wrapped = h.Kind == 's' && h.Size == 1 && b[h.Tag] < 0x80
	return n, nil
}

func (n node) isList() bool    { return n.h.Kind == 'l' }
func (n node) content() []byte { return n.enc[n.h.Tag:] }
func (n node) isEmpty() bool   { return n.h.Kind != 'b' && n.h.Size == 0 }

// str returns the byte string a string-kind node denotes.
func (n node) str() []byte {
	if n.h.Kind == 'b' {
		return n.enc[:1]
	}
	return n.content()
}

// split cuts b into consecutive values by their headers (shallow).
func split(b []byte) ([]node, error) {
	var out []node
	for len(b) > 0 {
		n, err := mkNode(b)
		if err != nil {
			return nil, err
		}
		out = append(out, n)
		b = b[len(n.enc):]
	}
	return out, nil
}

// Count returns the number of consecutive values b consists of, judged by their
// headers only.
func Count(b []byte) (int, error) {
	n, err := split(b)
	for _, x := range n {
		if x.wrapped {
			return 0, ErrNonCanonByte
		}
	}
	return len(n), err
}

// AcceptsEnc reports whether enc is exactly the canonical encoding of some
// value of Go type t under the documented decoding rules (nil = yes). The
// walk is directed by the type: positions of raw-value type are opaque beyond
// their own header (the mapping documents that their content is not examined),
// positions of interface type must be canonical all the way down.
func AcceptsEnc(enc []byte, t reflect.Type, o *Opts) error {
	n, err := mkNode(enc)
	if err != nil {
		return err
	}
	if len(n.enc) != len(enc) {
		if n.wrapped {
			return ErrNonCanonByte
		}
		return ErrTrailing
	}
	return accepts(n, t, fieldTags{}, o)
}

// AcceptsPrefix is AcceptsEnc for the first value of b; it returns the length
// of that value.
func AcceptsPrefix(b []byte, t reflect.Type, o *Opts) (int, error) {
	n, err := mkNode(b)
	if err != nil {
		return 0, err
	}
	return len(n.enc), accepts(n, t, fieldTags{}, o)
}

func accepts(it node, t reflect.Type, tg fieldTags, o *Opts) error {
	if it.wrapped && !(o != nil && o.LenientRawByte && o.Raw[t]) {
		return ErrNonCanonByte
	}
	if o != nil {
		if o.Raw[t] {
			return nil
		}
		if w, ok := o.Wire[t]; ok {
			if err := accepts(it, w, fieldTags{}, o); err != nil {
				return err
			}
			if x := o.Extra[t]; x != nil {
				full, err := Decode(it.enc)
				if err != nil {
					return err
				}
				return x(full)
			}
			return nil
		}
	}
	k := t.Kind()
	switch {
	case t == bigPtrT || t == bigT:
		if it.isList() {
			return ErrWantString
		}
		if s := it.str(); len(s) > 0 && s[0] == 0 {
			return ErrLeadingZero
		}
		return nil
	case isUintKind(k):
		if it.isList() {
			return ErrWantString
		}
		s := it.str()
		if len(s) > t.Bits()/8 {
			return ErrIntTooLong
		}
		if len(s) > 0 && s[0] == 0 {
			return ErrLeadingZero
		}
		return nil
	case k == reflect.Bool:
		if it.isList() {
			return ErrWantString
		}
		s := it.str()
		if len(s) > 1 {
			return ErrIntTooLong
		}
		if len(s) == 1 && s[0] == 0 {
			return ErrLeadingZero
		}
		if len(s) == 1 && s[0] != 1 {
			return ErrBadBool
		}
		return nil
	case k == reflect.String:
		if it.isList() {
			return ErrWantString
		}
		return nil
	case (k == reflect.Slice || k == reflect.Array) && t.Elem().Kind() == reflect.Uint8 && !isWire(t.Elem(), o):
		if it.isList() {
			return ErrWantString
		}
		if k == reflect.Array && len(it.str()) != t.Len() {
			return ErrArrayLen
		}
		return nil
	case k == reflect.Slice:
		if !it.isList() {
			return ErrWantList
		}
		kids, err := split(it.content())
		if err != nil {
			return err
		}
		for _, c := range kids {
			if err := accepts(c, t.Elem(), fieldTags{}, o); err != nil {
				return err
			}
		}
		return nil
	case k == reflect.Array:
		if !it.isList() {
			return ErrWantList
		}
		kids, err := split(it.content())
		if err != nil {
			return err
		}
		for i, c := range kids {
			if i >= t.Len() {
				return ErrTooMany
			}
			if err := accepts(c, t.Elem(), fieldTags{}, o); err != nil {
				return err
			}
		}
		if len(kids) < t.Len() {
			return ErrTooFew
		}
		return nil
	case k == reflect.Struct:
		if !it.isList() {
			return ErrWantList
		}
		rest, err := split(it.content())
		if err != nil {
			return err
		}
		for i := 0; i < t.NumField(); i++ {
			f := t.Field(i)
			if f.PkgPath != "" {
				continue
			}
			ft := parseTags(f)
			if ft.ignored {
				continue
			}
			if ft.tail {
				for _, c := range rest {
					if err := accepts(c, f.Type.Elem(), fieldTags{}, o); err != nil {
						return err
					}
				}
				rest = nil
				continue
			}
			if len(rest) == 0 {
				return ErrTooFew
			}
			if err := accepts(rest[0], f.Type, ft, o); err != nil {
				return err
			}
			rest = rest[1:]
		}
		if len(rest) > 0 {
			return ErrTooMany
		}
		return nil
	case k == reflect.Ptr:
		if tg.nilOK && it.isEmpty() {
			// nil is written as the empty value of the element's kind; only that
			// empty value stands for nil
			if o != nil && o.LenientNilKind {
				return nil
			}
			switch emptyKind(t.Elem(), o) {
			case 's':
				if it.isList() {
					return ErrWantString
				}
			case 'l':
				if !it.isList() {
					return ErrWantList
				}
			}
			return nil
		}
		return accepts(it, t.Elem(), fieldTags{}, o)
	case k == reflect.Interface:
		if t.NumMethod() != 0 {
			return ErrUnsupported
		}
		_, err := Decode(it.enc)
		return err
	}
	return ErrUnsupported
}

func isWire(t reflect.Type, o *Opts) bool {
	if o == nil {
		return false
	}
	_, ok := o.Wire[t]
	return ok
}

// ToItem maps a Go value to the abstract item its encoding must denote.
func ToItem(v interface{}, o *Opts) (*Item, error) {
	items, err := toItems(reflect.ValueOf(v), fieldTags{}, o)
	if err != nil {
		return nil, err
	}
	if len(items) != 1 {
		return nil, fmt.Errorf("refrlp: value maps to %d items", len(items))
	}
	return items[0], nil
}

func one(it *Item) ([]*Item, error) { return []*Item{it}, nil }

// toItems returns a slice because a tail field contributes its elements inline.
func toItems(v reflect.Value, tg fieldTags, o *Opts) ([]*Item, error) {
	if !v.IsValid() {
		return one(L())
	}
	t := v.Type()
	if o != nil {
		if o.Raw[t] {
			it, err := Decode(v.Bytes())
			if err != nil {
				return nil, fmt.Errorf("refrlp: raw value is not canonical RLP: %v", err)
			}
			return one(it)
		}
		if cv, ok := o.Conv[t]; ok {
			w, err := cv(v)
			if err != nil {
				return nil, err
			}
			return toItems(w, fieldTags{}, o)
		}
	}
	k := t.Kind()
	switch {
	case t == bigPtrT:
		if v.IsNil() {
			return one(S(nil))
		}
		b := v.Interface().(*big.Int)
		if b.Sign() < 0 {
			return nil, errors.New("refrlp: negative big.Int")
		}
		return one(B(b))
	case t == bigT:
		b := v.Interface().(big.Int)
		if b.Sign() < 0 {
			return nil, errors.New("refrlp: negative big.Int")
		}
		return one(B(&b))
	case isUintKind(k):
		return one(U(v.Uint()))
	case k == reflect.Bool:
		if v.Bool() {
			return one(S([]byte{1}))
		}
		return one(S(nil))
	case k == reflect.String:
		return one(S([]byte(v.String())))
	case (k == reflect.Slice || k == reflect.Array) && t.Elem().Kind() == reflect.Uint8 && !isConv(t.Elem(), o):
		b := make([]byte, v.Len())
		for i := range b {
			b[i] = byte(v.Index(i).Uint())
		}
		return one(S(b))
	case k == reflect.Slice || k == reflect.Array:
		var kids []*Item
		for i := 0; i < v.Len(); i++ {
			c, err := toItems(v.Index(i), fieldTags{}, o)
			if err != nil {
				return nil, err
			}
			kids = append(kids, c...)
		}
		if tg.tail {
			return kids, nil
		}
		return one(&Item{IsList: true, List: kids})
	case k == reflect.Struct:
		var kids []*Item
		for i := 0; i < t.NumField(); i++ {
			f := t.Field(i)
			if f.PkgPath != "" {
				continue
			}
			ft := parseTags(f)
			if ft.ignored {
				continue
			}
			c, err := toItems(v.Field(i), ft, o)
			if err != nil {
				return nil, err
			}
			kids = append(kids, c...)
		}
		return one(&Item{IsList: true, List: kids})
	case k == reflect.Ptr:
		if v.IsNil() {
			switch emptyKind(t.Elem(), o) {
			case 's':
				return one(S(nil))
			case 'l':
				return one(L())
			}
			return nil, errors.New("refrlp: nil pointer to a type without a defined empty value")
		}
		return toItems(v.Elem(), fieldTags{}, o)
	case k == reflect.Interface:
		if v.IsNil() {
			return one(L())
		}
		return toItems(v.Elem(), fieldTags{}, o)
	}
	return nil, ErrUnsupported
}

func isConv(t reflect.Type, o *Opts) bool {
	if o == nil {
		return false
	}
	_, ok := o.Conv[t]
	return ok
}

// ---------------------------------------------------------------------------
// Shallow view: the header of the first value of b.

// Hdr is the header of one encoded value: Kind 'b' (single byte, no header),
// 's' (string), 'l' (list); Tag = header length, Size = content length.
type Hdr struct {
	Kind byte
	Tag  uint64
	Size uint64
}

// Header parses the header of the first value in b by the canonical rules and
// checks that the declared content fits into b. It does not look into list
// content.
func Header(b []byte) (Hdr, error) {
	h, err := headerLoose(b)
	if err != nil {
		return Hdr{}, err
	}
	if h.Kind == 's' && h.Size == 1 && b[h.Tag] < 0x80 {
		return Hdr{}, ErrNonCanonByte
	}
	return h, nil
}

func headerLoose(b []byte) (Hdr, error) {
	if len(b) == 0 {
		return Hdr{}, ErrEmpty
	}
	t := b[0]
	var h Hdr
	long := func(base byte, kind byte) error {
		ll := int(t - base)
		n, err := readLen(b[1:], ll)
		if err != nil {
			return err
		}
		h = Hdr{Kind: kind, Tag: uint64(1 + ll), Size: n}
		return nil
	}
	switch {
	case t < 0x80:
		return Hdr{Kind: 'b', Tag: 0, Size: 1}, nil
	case t < 0xb8:
		h = Hdr{Kind: 's', Tag: 1, Size: uint64(t - 0x80)}
	case t < 0xc0:
		if err := long(0xb7, 's'); err != nil {
			return Hdr{}, err
		}
	case t < 0xf8:
		h = Hdr{Kind: 'l', Tag: 1, Size: uint64(t - 0xc0)}
	default:
		if err := long(0xf7, 'l'); err != nil {
			return Hdr{}, err
		}
	}
	if h.Size > uint64(len(b))-h.Tag {
		return Hdr{}, ErrTruncated
	}
	return h, nil
}

// DeclaredSize returns the content size the first header of b announces,
// without any canonicity or bounds check (0 if there is no complete header).
// Harnesses use it to recognise inputs that announce huge values.
func DeclaredSize(b []byte) uint64 {
	if len(b) == 0 {
		return 0
	}
	t := b[0]
	var ll int
	switch {
	case t < 0x80:
		return 1
	case t < 0xb8:
		return uint64(t - 0x80)
	case t < 0xc0:
		ll = int(t - 0xb7)
	case t < 0xf8:
		return uint64(t - 0xc0)
	default:
		ll = int(t - 0xf7)
	}
	if len(b)-1 < ll {
		return 0
	}
	var n uint64
	for i := 0; i < ll; i++ {
		n = n<<8 | uint64(b[1+i])
	}
	return n
}

// Class maps a strict-decoder error to a stable class name.
func Class(err error) string {
	switch err {
	case nil:
		return "ok"
	case ErrEmpty:
		return "empty_input"
	case ErrTruncated:
		return "truncated"
	case ErrNonCanonSize:
		return "nonminimal_size"
	case ErrNonCanonByte:
		return "wrapped_single_byte"
	case ErrTrailing:
		return "trailing_bytes"
	}
	return err.Error()
}

// MaxDepth returns the nesting depth of an item (a string is 0).
func (it *Item) MaxDepth() int {
	// iterative: trees in the deep-nesting workload are 100k+ levels deep
	type fr struct {
		it *Item
		d  int
	}
	max := 0
	st := []fr{{it, 0}}
	for len(st) > 0 {
		f := st[len(st)-1]
		st = st[:len(st)-1]
		if f.d > max {
			max = f.d
		}
		if f.it.IsList {
			for _, c := range f.it.List {
				st = append(st, fr{c, f.d + 1})
			}
		}
	}
	return max
}

// EncodeLinear returns the same bytes as Encode in time linear in the output
// (Encode copies every payload once per nesting level, which is quadratic on
// the 10k+ deep nestings of the allocation workload).
func EncodeLinear(it *Item) []byte {
	sizes := map[*Item]int{}
	var size func(*Item) int
	size = func(x *Item) int {
		if !x.IsList {
			if len(x.Str) == 1 && x.Str[0] < 0x80 {
				return 1
			}
			return len(lenPrefix(len(x.Str), 0x80)) + len(x.Str)
		}
		p := 0
		for _, c := range x.List {
			p += size(c)
		}
		sizes[x] = p
		return len(lenPrefix(p, 0xc0)) + p
	}
	out := make([]byte, 0, size(it))
	var emit func(*Item)
	emit = func(x *Item) {
		if !x.IsList {
			if len(x.Str) == 1 && x.Str[0] < 0x80 {
				out = append(out, x.Str[0])
				return
			}
			out = append(out, lenPrefix(len(x.Str), 0x80)...)
			out = append(out, x.Str...)
			return
		}
		out = append(out, lenPrefix(sizes[x], 0xc0)...)
		for _, c := range x.List {
			emit(c)
		}
	}
	emit(it)
	return out
}
