package refdiff

import (
	"math/big"
	"testing"
)

// The vectors of /repo/consensus/aquahash/consensus_test.go (all forks 1..7 at
// height 0, not the main network) plus hand-computed ones.
func TestVectors(t *testing.T) {
	if err := SelfTest(); err != nil {
		t.Fatal(err)
	}
}

func TestMainnetEpochs(t *testing.T) {
	h := func(n, tm, d int64) *Header {
		return &Header{Number: big.NewInt(n), Time: big.NewInt(tm), Difficulty: big.NewInt(d), GasLimit: 4712388}
	}
	cases := []struct {
		parent *Header
		time   int64
		want   int64
	}{
		// homestead epoch, fast block: +parent/2048
		{h(10, 1000, 204800000), 1005, 204800000 + 100000},
		// 10..19 s: unchanged
		{h(10, 1000, 204800000), 1010, 204800000},
		// 20 s: -1 step
		{h(10, 1000, 204800000), 1020, 204800000 - 100000},
		// clamp at -99
		{h(10, 1000, 204800000), 1000 + 5000, 204800000 - 99*100000},
		// genesis minimum
		{h(10, 1000, 99999999), 1100, 99999999},
		// HF1 fork block: reset
		{h(3599, 1000, 5e9), 1001, 100001792},
		// HF1 epoch minimum
		{h(3600, 1000, 100001792), 1100, 100001792},
		// HF2 fork block is computed, not reset: 240 s limit, /2048
		{h(7199, 1000, 204800000), 1239, 204800000 + 100000},
		{h(7199, 1000, 204800000), 1240, 204800000 - 100000},
		// HF3 fork block: reset
		{h(13025, 1000, 204800000), 1100, 30959185800},
		// HF3 epoch: minimum 30959185800
		{h(13026, 1000, 30959185800), 2000, 30959185800},
		// HF5 fork block: reset
		{h(22799, 1000, 40959185800), 1100, 46039386},
		// HF5 epoch: /16, limit 240
		{h(22800, 1000, 160000000), 1239, 170000000},
		{h(22800, 1000, 160000000), 1240, 150000000},
		// HF6 fork block is computed with the new parameters: /128, limit 180
		{h(35999, 1000, 128000000), 1179, 129000000},
		{h(35999, 1000, 128000000), 1180, 127000000},
		{h(36049, 1000, 128000000), 1180, 127000000},
	}
	for i, c := range cases {
		got := Mainnet.Expected(big.NewInt(c.time), c.parent)
		if got.Cmp(big.NewInt(c.want)) != 0 {
			t.Errorf("case %d: got %v want %v", i, got, c.want)
		}
	}
}

func TestCheckBounds(t *testing.T) {
	p := &Header{Number: big.NewInt(100000), Time: big.NewInt(1000), Difficulty: big.NewInt(128000000), GasLimit: 1024 * 5000}
	ok := &Header{Number: big.NewInt(100001), Time: big.NewInt(1001), Difficulty: big.NewInt(129000000), GasLimit: 1024*5000 + 4999, GasUsed: 0, ExtraLen: 32}
	if r := Mainnet.Check(p, ok, 5000); len(r) != 0 {
		t.Fatalf("valid header rejected: %v", r)
	}
	bad := *ok
	bad.GasLimit = 1024*5000 + 5000
	if r := Mainnet.Check(p, &bad, 5000); len(r) != 1 || r[0] != RGasDelta {
		t.Fatalf("gas delta: %v", r)
	}
	bad = *ok
	bad.ExtraLen = 33
	if r := Mainnet.Check(p, &bad, 5000); len(r) != 1 || r[0] != RExtra {
		t.Fatalf("extra: %v", r)
	}
	bad = *ok
	bad.Time = big.NewInt(5016)
	bad.Difficulty = big.NewInt(127000000)
	if r := Mainnet.Check(p, &bad, 5000); len(r) != 1 || r[0] != RTimeFuture {
		t.Fatalf("future: %v", r)
	}
	bad.Time = big.NewInt(5015)
	if r := Mainnet.Check(p, &bad, 5000); len(r) != 0 {
		t.Fatalf("future edge: %v", r)
	}
}
