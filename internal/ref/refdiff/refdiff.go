// Package refdiff is the reference model of the aquachain header and uncle
// rules (property C13): fork schedules, the per-fork difficulty parameters, the
// difficulty adjustment, the header validity predicate and the uncle-set
// predicate over an abstract block tree.
//
// It is written from the property text, the yellow paper (header validity
// 4.3.4, ommer validation 11.1), EIP-2 (the homestead adjustment) and the
// parameter documentation of the node (the comments of params/config.go and
// params/protocol_params.go: which fork changes which parameter). It uses only
// math/big; it imports nothing from the node and never looks at a hash:
// headers are identified by tree nodes, so "same header", "ancestor" and
// "parent" are structural facts of the generated tree, not hash lookups.
//
// The shape of the post-HF2 adjustment ("simple difficulty algo (240
// seconds)") is documented nowhere but in the code; it is encoded here as the
// two-line rule parent +/- parent/divisor around the duration limit, with all
// numbers taken from the parameter table below (see Assumptions of C13).
package refdiff

import (
	"math/big"
	"sort"
)

// ---------------------------------------------------------------------------
// Fork schedules (params/config.go: AquachainHF, TestnetHF, Testnet2HF, TestHF).

// Schedule is the fork map of one network: HF number -> activation height.
type Schedule struct {
	Name string
	// Mainnet: the chain id is the main network's. The pre-HF2 (homestead-style)
	// adjustment clamps to its minimum only there ("testnet no minimum").
	Mainnet bool
	HF      map[int]uint64
}

var (
	Mainnet = &Schedule{Name: "mainnet", Mainnet: true, HF: map[int]uint64{
		1: 3600, 2: 7200, 3: 13026, 4: 21800, 5: 22800, 6: 36000, 7: 36050}}
	Testnet = &Schedule{Name: "testnet", HF: map[int]uint64{
		1: 1, 2: 2, 3: 3, 4: 4, 5: 5, 6: 6, 7: 25, 8: 650}}
	Testnet2 = &Schedule{Name: "testnet2", HF: map[int]uint64{
		5: 0, 6: 0, 7: 0, 8: 8, 9: 19}}
	Test = &Schedule{Name: "test", HF: map[int]uint64{
		1: 1, 2: 2, 3: 3, 4: 4, 5: 5, 6: 6, 7: 7}}
)

// Active reports whether fork hf is active at the given height.
func (s *Schedule) Active(hf int, height *big.Int) bool {
	h, ok := s.HF[hf]
	return ok && new(big.Int).SetUint64(h).Cmp(height) <= 0
}

// At reports whether fork hf activates exactly at the given height.
func (s *Schedule) At(hf int, height *big.Int) bool {
	h, ok := s.HF[hf]
	return ok && new(big.Int).SetUint64(h).Cmp(height) == 0
}

// ForkHeights returns the sorted distinct activation heights.
func (s *Schedule) ForkHeights() []uint64 {
	seen := map[uint64]bool{}
	var out []uint64
	for _, h := range s.HF {
		if !seen[h] {
			seen[h] = true
			out = append(out, h)
		}
	}
	sort.Slice(out, func(i, j int) bool { return out[i] < out[j] })
	return out
}

// HeaderVersion is the hash-algorithm version of a header at a height
// (1 ethash/keccak, 2 from HF5, 3 from HF8, 4 from HF9).
func (s *Schedule) HeaderVersion(height *big.Int) byte {
	switch {
	case s.Active(9, height):
		return 4
	case s.Active(8, height):
		return 3
	case s.Active(5, height):
		return 2
	}
	return 1
}

// MaxUncles is the fork's maximum number of uncles of a block at a height:
// 2, then 1 from HF5.
func (s *Schedule) MaxUncles(height *big.Int) int {
	if s.Active(5, height) {
		return 1
	}
	return 2
}

// ---------------------------------------------------------------------------
// Difficulty parameters per fork (params/protocol_params.go, params/config.go).

func bi(v int64) *big.Int { return big.NewInt(v) }

// Protocol constants.
var (
	MinGasLimit   = uint64(5000)
	GasBoundDiv   = uint64(1024)
	MaxGasLimit   = uint64(1<<63 - 1)
	MaxExtra      = 32
	FutureSeconds = int64(15)
)

// Algorithms.
const (
	AlgoHomestead = "homestead" // EIP-2 shape, 10 s steps, no bomb term
	AlgoSimple    = "simple"    // from HF2: +/- parent/divisor around the duration limit
)

// tweak is what one fork changes. Nil / "" = unchanged.
type tweak struct {
	HF      int
	Algo    string
	Divisor *big.Int // bound divisor of the simple algorithm
	Minimum *big.Int // active minimum difficulty
	Limit   *big.Int // duration limit (seconds) of the simple algorithm
	Reset   *big.Int // difficulty of the fork block itself
}

// Base parameters (genesis) and the documented changes, in fork order.
var (
	baseDivisor = bi(2048)     // DifficultyBoundDivisor
	baseMinimum = bi(99999999) // MinimumDifficultyGenesis
	baseLimit   = bi(240)      // DurationLimit
	tweaks      = []tweak{
		// HF1 "increase min difficulty to the next multiple of 2048"; fork block restarts at it
		{HF: 1, Minimum: bi(100001792), Reset: bi(100001792)},
		// HF2 "use simple difficulty algo (240 seconds)"
		{HF: 2, Algo: AlgoSimple},
		// HF3 "increase min difficulty for anticipation of gpu mining"; fork block jumps to it
		{HF: 3, Minimum: bi(3095918580 * 10), Reset: bi(3095918580 * 10)},
		// HF5 argon2id: new minimum, divisor 16, fork block restarts at the minimum
		{HF: 5, Minimum: bi(46039386), Divisor: bi(16), Reset: bi(46039386)},
		// HF6 "divisor increase" (128), duration limit 180 "keeping 240 second target"
		{HF: 6, Divisor: bi(128), Limit: bi(180)},
		// HF8 "diff algo, jump diff": divisor 1024, fork block restarts at the HF5 minimum
		{HF: 8, Divisor: bi(1024), Reset: bi(46039386)},
	}
	// homestead formula constants (EIP-2)
	hsDivisor = bi(2048)
	hsStep    = bi(10)
	hsFloor   = bi(-99)
)

// Params are the difficulty parameters in force for a block at some height.
type Params struct {
	Algo    string
	Divisor *big.Int
	Minimum *big.Int
	Limit   *big.Int
	Reset   *big.Int // non-nil: the block is a fork block whose difficulty is fixed
	// MinimumApplies is false where the adjustment does not clamp to Minimum: the
	// homestead-style epochs off the main network (behaviour pinned from the
	// code's comment "testnet no minimum"; not reachable on the mainnet, testnet
	// and test schedules, whose HF1/HF2 heights leave no such block).
	MinimumApplies bool
}

// ParamsAt returns the parameters for the block at height next.
func (s *Schedule) ParamsAt(next *big.Int) Params {
	p := Params{Algo: AlgoHomestead, Divisor: baseDivisor, Minimum: baseMinimum, Limit: baseLimit}
	for _, t := range tweaks {
		if !s.Active(t.HF, next) {
			continue
		}
		if t.Algo != "" {
			p.Algo = t.Algo
		}
		if t.Divisor != nil {
			p.Divisor = t.Divisor
		}
		if t.Minimum != nil {
			p.Minimum = t.Minimum
		}
		if t.Limit != nil {
			p.Limit = t.Limit
		}
		// the highest fork with a reset value that activates exactly here fixes
		// the block's difficulty
		if t.Reset != nil && s.At(t.HF, next) {
			p.Reset = t.Reset
		}
	}
	p.MinimumApplies = p.Algo == AlgoSimple || s.Mainnet
	return p
}

// Header is the reference's view of a header: the fields the rules speak of.
type Header struct {
	Number     *big.Int
	Time       *big.Int
	Difficulty *big.Int
	GasLimit   uint64
	GasUsed    uint64
	ExtraLen   int
}

// floorDiv is division rounding toward minus infinity (python's //, as in
// EIP-2), for a positive divisor.
func floorDiv(a, b *big.Int) *big.Int {
	q, m := new(big.Int).QuoRem(a, b, new(big.Int))
	if m.Sign() < 0 {
		q.Sub(q, big.NewInt(1))
	}
	return q
}

// Expected is the difficulty a block with timestamp time on top of parent
// must have.
func (s *Schedule) Expected(time *big.Int, parent *Header) *big.Int {
	next := new(big.Int).Add(parent.Number, big.NewInt(1))
	p := s.ParamsAt(next)
	if p.Reset != nil {
		return new(big.Int).Set(p.Reset)
	}
	dt := new(big.Int).Sub(time, parent.Time)
	d := new(big.Int)
	switch p.Algo {
	case AlgoSimple:
		adj := new(big.Int).Quo(parent.Difficulty, p.Divisor)
		if dt.Cmp(p.Limit) < 0 {
			d.Add(parent.Difficulty, adj)
		} else {
			d.Sub(parent.Difficulty, adj)
		}
	default:
		// parent_diff + parent_diff // 2048 * max(1 - (time - parent_time) // 10, -99)
		f := new(big.Int).Sub(big.NewInt(1), floorDiv(dt, hsStep))
		if f.Cmp(hsFloor) < 0 {
			f.Set(hsFloor)
		}
		d.Mul(new(big.Int).Quo(parent.Difficulty, hsDivisor), f)
		d.Add(d, parent.Difficulty)
	}
	if p.MinimumApplies && d.Cmp(p.Minimum) < 0 {
		d.Set(p.Minimum)
	}
	return d
}

// Rule names returned by Check.
const (
	RNumber       = "number"
	RTimeNotLater = "time_not_later"
	RTimeFuture   = "time_future"
	RExtra        = "extra"
	RGasCap       = "gas_cap"
	RGasUsed      = "gas_used"
	RGasMin       = "gas_min"
	RGasDelta     = "gas_delta"
	RDifficulty   = "difficulty"
)

// Check returns the rules the header breaks relative to its parent (sorted;
// empty = the header must be accepted). now < 0 disables the clock rule.
func (s *Schedule) Check(parent, h *Header, now int64) []string {
	var bad []string
	if new(big.Int).Add(parent.Number, big.NewInt(1)).Cmp(h.Number) != 0 {
		bad = append(bad, RNumber)
	}
	later := h.Time.Cmp(parent.Time) > 0
	if !later {
		bad = append(bad, RTimeNotLater)
	}
	if now >= 0 && h.Time.Cmp(big.NewInt(now+FutureSeconds)) > 0 {
		bad = append(bad, RTimeFuture)
	} else if !h.Time.IsUint64() {
		// a timestamp that does not fit 64 bits is more than 15 s ahead of any
		// clock: invalid even where the clock itself is not consulted (uncles)
		bad = append(bad, RTimeFuture)
	}
	if h.ExtraLen > MaxExtra {
		bad = append(bad, RExtra)
	}
	if h.GasLimit > MaxGasLimit {
		bad = append(bad, RGasCap)
	}
	if h.GasUsed > h.GasLimit {
		bad = append(bad, RGasUsed)
	}
	if h.GasLimit < MinGasLimit {
		bad = append(bad, RGasMin)
	}
	pl, hl := new(big.Int).SetUint64(parent.GasLimit), new(big.Int).SetUint64(h.GasLimit)
	delta := new(big.Int).Abs(new(big.Int).Sub(pl, hl))
	bound := new(big.Int).Quo(pl, new(big.Int).SetUint64(GasBoundDiv))
	if delta.Cmp(bound) >= 0 {
		bad = append(bad, RGasDelta)
	}
	// the adjustment is a function of a later timestamp; a header that is not
	// later is invalid already and the formula is not consulted
	if later && s.Expected(h.Time, parent).Cmp(h.Difficulty) != 0 {
		bad = append(bad, RDifficulty)
	}
	sort.Strings(bad)
	return bad
}

// ---------------------------------------------------------------------------
// Uncle sets over an abstract block tree.

// Node is a block of the generated tree. Identity is the pointer: the harness
// uses one Node per distinct header content.
type Node struct {
	Parent *Node // nil: the parent is not part of the known tree
	Hdr    *Header
	Uncles []*Node
	// SealBad: the header's proof-of-work seal is invalid (decided elsewhere; an
	// uncle must be individually valid including its seal).
	SealBad bool
}

// Uncle rule names.
const (
	UCount     = "uncle_count"
	UDuplicate = "uncle_duplicate"
	UAncestor  = "uncle_is_ancestor"
	UNotRecent = "uncle_not_recent"
	UInvalid   = "uncle_invalid_header"
	USeal      = "uncle_bad_seal"
)

// UncleWindow: an uncle's parent must be an ancestor of the including block
// at distance 2..UncleWindow (yellow paper: a sibling of one of the last six
// ancestors' ... i.e. generation at most 6; the block's own sibling is not an
// uncle).
const UncleWindow = 7

// CheckUncles returns the rules block's uncle list breaks (sorted, deduplicated;
// empty = must be accepted).
func (s *Schedule) CheckUncles(block *Node) []string {
	bad := map[string]bool{}
	if len(block.Uncles) > s.MaxUncles(block.Hdr.Number) {
		bad[UCount] = true
	}
	// ancestors by distance 1..UncleWindow
	dist := map[*Node]int{}
	included := map[*Node]bool{}
	a := block.Parent
	for d := 1; d <= UncleWindow && a != nil; d++ {
		dist[a] = d
		for _, u := range a.Uncles {
			included[u] = true
		}
		a = a.Parent
	}
	for i, u := range block.Uncles {
		for j := 0; j < i; j++ {
			if block.Uncles[j] == u {
				bad[UDuplicate] = true
			}
		}
		if included[u] || u == block {
			bad[UDuplicate] = true
		}
		if _, isAnc := dist[u]; isAnc {
			bad[UAncestor] = true
		}
		d, ok := dist[u.Parent]
		if u.Parent == nil || !ok || d < 2 {
			bad[UNotRecent] = true
			continue
		}
		if len(s.Check(u.Parent.Hdr, u.Hdr, -1)) > 0 {
			bad[UInvalid] = true
		}
		if u.SealBad {
			bad[USeal] = true
		}
	}
	var out []string
	for k := range bad {
		out = append(out, k)
	}
	sort.Strings(out)
	return out
}
