package refdiff

import (
	"fmt"
	"math/big"
)

// SelfTest reproduces the difficulty vectors of the node's own test
// (consensus/aquahash/consensus_test.go: every fork 1..7 active from height 0,
// chain id 1337) with the reference. A check whose reference cannot reproduce
// them must not run.
func SelfTest() error {
	all := &Schedule{Name: "all", HF: map[int]uint64{1: 0, 2: 0, 3: 0, 4: 0, 5: 0, 6: 0, 7: 0}}
	vec := []struct {
		name               string
		ptime, pdiff, time int64
		number, want       int64
	}{
		{"below-min", 0, 131072, 240, 1, 46039386},
		{"below-min-2", 0, 131072, 240, 2, 46039386},
		{"go up 90", 0, 46039386, 90, 1, 46399068},
		{"go up 120", 0, 46039386, 120, 1, 46399068},
		{"go up 140", 0, 46039386, 140, 1, 46399068},
		{"go up 179", 0, 46039386, 179, 1, 46399068},
		{"go up again", 0, 46399068, 179, 1, 46761560},
		{"stay same", 0, 46039386, 181, 1, 46039386},
		{"go down ok", 0, 46761560, 181, 1, 46396236},
	}
	for _, v := range vec {
		p := &Header{Number: big.NewInt(v.number - 1), Time: big.NewInt(v.ptime), Difficulty: big.NewInt(v.pdiff)}
		got := all.Expected(big.NewInt(v.time), p)
		if got.Cmp(big.NewInt(v.want)) != 0 {
			return fmt.Errorf("refdiff self-test %q: got %v want %v", v.name, got, v.want)
		}
	}
	return nil
}
