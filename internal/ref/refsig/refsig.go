// Package refsig is an independent reference for transaction signatures:
// secp256k1 over math/big (affine formulas, no shared code with btcec/decred or
// /repo/crypto), Keccak-256 from x/crypto, signing hashes through refrlp.
// Written from SEC 1 (ECDSA, public key recovery), the yellow paper appendix F
// and EIP-2 / EIP-155. Speed is irrelevant; obviousness is the point.
package refsig

import (
	"errors"
	"math/big"

	"verif/internal/ref/refhash"
	"verif/internal/ref/refrlp"
)

var (
	P, _  = new(big.Int).SetString("fffffffffffffffffffffffffffffffffffffffffffffffffffffffefffffc2f", 16)
	N, _  = new(big.Int).SetString("fffffffffffffffffffffffffffffffebaaedce6af48a03bbfd25e8cd0364141", 16)
	Gx, _ = new(big.Int).SetString("79be667ef9dcbbac55a06295ce870b07029bfcdb2dce28d959f2815b16f81798", 16)
	Gy, _ = new(big.Int).SetString("483ada7726a3c4655da4fbfc0e1108a8fd17b448a68554199c47d08ffb10d4b8", 16)
	// HalfN = floor(N/2): s is "low" iff s <= HalfN (EIP-2).
	HalfN = new(big.Int).Rsh(N, 1)

	one   = big.NewInt(1)
	two   = big.NewInt(2)
	three = big.NewInt(3)
	seven = big.NewInt(7)
)

// Point is an affine point; Inf marks the point at infinity.
type Point struct {
	X, Y *big.Int
	Inf  bool
}

func G() Point { return Point{X: new(big.Int).Set(Gx), Y: new(big.Int).Set(Gy)} }

func mod(x *big.Int) *big.Int { return x.Mod(x, P) }

// OnCurve: y^2 = x^3 + 7 (mod p).
func OnCurve(p Point) bool {
	if p.Inf {
		return false
	}
	l := new(big.Int).Mul(p.Y, p.Y)
	mod(l)
	r := new(big.Int).Mul(p.X, p.X)
	r.Mul(r, p.X)
	r.Add(r, seven)
	mod(r)
	return l.Cmp(r) == 0
}

func Neg(p Point) Point {
	if p.Inf {
		return p
	}
	y := new(big.Int).Sub(P, p.Y)
	mod(y)
	return Point{X: new(big.Int).Set(p.X), Y: y}
}

// Add: the group law in affine coordinates.
func Add(a, b Point) Point {
	if a.Inf {
		return b
	}
	if b.Inf {
		return a
	}
	var lam *big.Int
	if a.X.Cmp(b.X) == 0 {
		ysum := new(big.Int).Add(a.Y, b.Y)
		mod(ysum)
		if ysum.Sign() == 0 {
			return Point{Inf: true} // a = -b (covers y = 0, which does not occur on this curve)
		}
		// doubling: lambda = 3x^2 / 2y
		num := new(big.Int).Mul(a.X, a.X)
		num.Mul(num, three)
		den := new(big.Int).Mul(a.Y, two)
		den.ModInverse(mod(den), P)
		lam = num.Mul(num, den)
	} else {
		num := new(big.Int).Sub(b.Y, a.Y)
		den := new(big.Int).Sub(b.X, a.X)
		den.ModInverse(mod(den), P)
		lam = num.Mul(num, den)
	}
	mod(lam)
	x := new(big.Int).Mul(lam, lam)
	x.Sub(x, a.X)
	x.Sub(x, b.X)
	mod(x)
	y := new(big.Int).Sub(a.X, x)
	y.Mul(y, lam)
	y.Sub(y, a.Y)
	mod(y)
	return Point{X: x, Y: y}
}

// Mul: k*p by double-and-add, k taken as a non-negative integer.
func Mul(k *big.Int, p Point) Point {
	acc := Point{Inf: true}
	for i := k.BitLen() - 1; i >= 0; i-- {
		acc = Add(acc, acc)
		if k.Bit(i) == 1 {
			acc = Add(acc, p)
		}
	}
	return acc
}

func pad32(x *big.Int) []byte {
	b := x.Bytes()
	out := make([]byte, 32)
	copy(out[32-len(b):], b)
	return out
}

// AddressOfPoint = last 20 bytes of Keccak-256(X || Y).
func AddressOfPoint(q Point) [20]byte {
	var a [20]byte
	h := refhash.Keccak256(pad32(q.X), pad32(q.Y))
	copy(a[:], h[12:])
	return a
}

// AddressOfKey: address of the public key d*G. d must be in [1, N-1].
func AddressOfKey(d *big.Int) ([20]byte, error) {
	if d.Sign() <= 0 || d.Cmp(N) >= 0 {
		return [20]byte{}, errors.New("refsig: private key out of range")
	}
	return AddressOfPoint(Mul(d, G())), nil
}

// Sign computes an ECDSA signature over the 32-byte hash with the given nonce k
// and returns it in low-S form with the matching recovery id (0 or 1).
// ok is false when this k is unusable (r = 0, s = 0, or R.x >= N).
func Sign(hash []byte, d, k *big.Int) (r, s *big.Int, recid byte, ok bool) {
	if k.Sign() <= 0 || k.Cmp(N) >= 0 {
		return nil, nil, 0, false
	}
	R := Mul(k, G())
	if R.X.Cmp(N) >= 0 {
		return nil, nil, 0, false
	}
	r = new(big.Int).Set(R.X)
	if r.Sign() == 0 {
		return nil, nil, 0, false
	}
	z := new(big.Int).SetBytes(hash)
	s = new(big.Int).Mul(r, d)
	s.Add(s, z)
	kinv := new(big.Int).ModInverse(k, N)
	s.Mul(s, kinv)
	s.Mod(s, N)
	if s.Sign() == 0 {
		return nil, nil, 0, false
	}
	recid = byte(R.Y.Bit(0))
	if s.Cmp(HalfN) > 0 {
		s.Sub(N, s)
		recid ^= 1
	}
	return r, s, recid, true
}

// InRange: 1 <= r,s <= N-1 and recid in {0,1} (yellow paper appendix F; the
// recovery ids 2 and 3 are not representable in a transaction's V).
func InRange(r, s *big.Int, recid int) bool {
	if recid != 0 && recid != 1 {
		return false
	}
	return r.Sign() > 0 && s.Sign() > 0 && r.Cmp(N) < 0 && s.Cmp(N) < 0
}

// LowS: EIP-2 condition.
func LowS(s *big.Int) bool { return s.Cmp(HalfN) <= 0 }

// Recover returns the address of the public key recovered from (hash, r, s,
// recid) by SEC 1 section 4.1.6: Q = r^-1 (s*R - z*G).
func Recover(hash []byte, r, s *big.Int, recid byte) ([20]byte, error) {
	if !InRange(r, s, int(recid)) {
		return [20]byte{}, errors.New("refsig: signature values out of range")
	}
	x := new(big.Int).Set(r)
	rhs := new(big.Int).Mul(x, x)
	rhs.Mul(rhs, x)
	rhs.Add(rhs, seven)
	mod(rhs)
	// p = 3 (mod 4): sqrt = rhs^((p+1)/4)
	e := new(big.Int).Add(P, one)
	e.Rsh(e, 2)
	y := new(big.Int).Exp(rhs, e, P)
	chk := new(big.Int).Mul(y, y)
	mod(chk)
	if chk.Cmp(rhs) != 0 {
		return [20]byte{}, errors.New("refsig: r is not the x coordinate of a curve point")
	}
	if byte(y.Bit(0)) != recid {
		y.Sub(P, y)
	}
	R := Point{X: x, Y: y}
	z := new(big.Int).SetBytes(hash)
	sR := Mul(s, R)
	zG := Mul(new(big.Int).Mod(z, N), G())
	q := Add(sR, Neg(zG))
	rinv := new(big.Int).ModInverse(r, N)
	q = Mul(rinv, q)
	if q.Inf {
		return [20]byte{}, errors.New("refsig: recovered the point at infinity")
	}
	return AddressOfPoint(q), nil
}

// Tx is the content of a transaction as the specification sees it.
type Tx struct {
	Nonce    uint64
	GasPrice *big.Int
	Gas      uint64
	To       []byte // nil or empty = contract creation, else 20 bytes
	Value    *big.Int
	Data     []byte
	V, R, S  *big.Int
}

func (t *Tx) baseItems() []*refrlp.Item {
	return []*refrlp.Item{
		refrlp.U(t.Nonce), refrlp.B(t.GasPrice), refrlp.U(t.Gas), refrlp.S(t.To), refrlp.B(t.Value), refrlp.S(t.Data),
	}
}

// SigHash is the hash that is signed. chainID == nil: yellow-paper (Frontier /
// Homestead) form over six fields; otherwise the EIP-155 form over
// (six fields, chain id, 0, 0).
func (t *Tx) SigHash(chainID *big.Int) []byte {
	items := t.baseItems()
	if chainID != nil {
		items = append(items, refrlp.B(chainID), refrlp.U(0), refrlp.U(0))
	}
	return refhash.Keccak256(refrlp.Encode(refrlp.L(items...)))
}

// Encode is the canonical RLP of the signed transaction (nine fields).
func (t *Tx) Encode() []byte {
	items := append(t.baseItems(), refrlp.B(t.V), refrlp.B(t.R), refrlp.B(t.S))
	return refrlp.Encode(refrlp.L(items...))
}

// Hash of the signed transaction: Keccak-256 of its RLP.
func (t *Tx) Hash() []byte { return refhash.Keccak256(t.Encode()) }

// Copy returns a deep copy.
func (t *Tx) Copy() *Tx {
	c := &Tx{Nonce: t.Nonce, Gas: t.Gas}
	c.GasPrice = new(big.Int).Set(t.GasPrice)
	c.Value = new(big.Int).Set(t.Value)
	if t.To != nil {
		c.To = append([]byte{}, t.To...)
	}
	c.Data = append([]byte{}, t.Data...)
	if t.V != nil {
		c.V, c.R, c.S = new(big.Int).Set(t.V), new(big.Int).Set(t.R), new(big.Int).Set(t.S)
	}
	return c
}

// VFor gives V for a recovery id: 27+recid without replay protection,
// 35 + 2*chainID + recid with it (EIP-155).
func VFor(chainID *big.Int, recid byte) *big.Int {
	if chainID == nil {
		return big.NewInt(27 + int64(recid))
	}
	v := new(big.Int).Lsh(chainID, 1)
	return v.Add(v, big.NewInt(35+int64(recid)))
}

// Classify splits V into (protected, chain id, recovery id) by the
// specification: 27/28 unprotected; V >= 35 protected with chain id
// (V-35)/2 and recid (V-35) mod 2; everything else is no valid V.
func Classify(v *big.Int) (valid, protected bool, chainID *big.Int, recid byte) {
	if v.Sign() < 0 {
		return false, false, nil, 0
	}
	if v.IsUint64() && (v.Uint64() == 27 || v.Uint64() == 28) {
		return true, false, nil, byte(v.Uint64() - 27)
	}
	if v.Cmp(big.NewInt(35)) < 0 {
		return false, false, nil, 0
	}
	w := new(big.Int).Sub(v, big.NewInt(35))
	recid = byte(w.Bit(0))
	return true, true, w.Rsh(w, 1), recid
}

// DecodeTx parses a canonical nine-field transaction encoding.
func DecodeTx(enc []byte) (*Tx, error) {
	it, err := refrlp.Decode(enc)
	if err != nil {
		return nil, err
	}
	if !it.IsList || len(it.List) != 9 {
		return nil, errors.New("refsig: not a nine-item list")
	}
	for _, f := range it.List {
		if f.IsList {
			return nil, errors.New("refsig: nested list")
		}
	}
	l := it.List
	for _, i := range []int{0, 1, 2, 4, 6, 7, 8} {
		if !l[i].IsCanonicalUint(0) {
			return nil, errors.New("refsig: integer with leading zero")
		}
	}
	if len(l[0].Str) > 8 || len(l[2].Str) > 8 {
		return nil, errors.New("refsig: nonce/gas wider than 64 bits")
	}
	if len(l[3].Str) != 0 && len(l[3].Str) != 20 {
		return nil, errors.New("refsig: recipient is neither empty nor 20 bytes")
	}
	b := func(i int) *big.Int { return new(big.Int).SetBytes(l[i].Str) }
	t := &Tx{Nonce: b(0).Uint64(), GasPrice: b(1), Gas: b(2).Uint64(), Value: b(4), Data: l[5].Str, V: b(6), R: b(7), S: b(8)}
	if len(l[3].Str) == 20 {
		t.To = l[3].Str
	}
	return t, nil
}
