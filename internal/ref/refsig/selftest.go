package refsig

import (
	"encoding/hex"
	"fmt"
	"math/big"
)

// vectors of http://vitalik.ca/files/eip155_testvec.txt (chain id 1), as also
// used by core/types/transaction_signing_test.go: signed tx RLP -> sender.
var eip155Vectors = [][2]string{
	{"f864808504a817c800825208943535353535353535353535353535353535353535808025a0044852b2a670ade5407e78fb2863c51de9fcb96542a07186fe3aeda6bb8a116da0044852b2a670ade5407e78fb2863c51de9fcb96542a07186fe3aeda6bb8a116d", "f0f6f18bca1b28cd68e4357452947e021241e9ce"},
	{"f864018504a817c80182a410943535353535353535353535353535353535353535018025a0489efdaa54c0f20c7adf612882df0950f5a951637e0307cdcb4c672f298b8bcaa0489efdaa54c0f20c7adf612882df0950f5a951637e0307cdcb4c672f298b8bc6", "23ef145a395ea3fa3deb533b8a9e1b4c6c25d112"},
	{"f864028504a817c80282f618943535353535353535353535353535353535353535088025a02d7c5bef027816a800da1736444fb58a807ef4c9603b7848673f7e3a68eb14a5a02d7c5bef027816a800da1736444fb58a807ef4c9603b7848673f7e3a68eb14a5", "2e485e0c23b4c3c542628a5f672eeab0ad4888be"},
	{"f865038504a817c803830148209435353535353535353535353535353535353535351b8025a02a80e1ef1d7842f27f2e6be0972bb708b9a135c38860dbe73c27c3486c34f4e0a02a80e1ef1d7842f27f2e6be0972bb708b9a135c38860dbe73c27c3486c34f4de", "82a88539669a3fd524d669e858935de5e5410cf0"},
	{"f867098504a817c809830334509435353535353535353535353535353535353535358202d98025a052f8f61201b2b11a78d6e866abc9c3db2ae8631fa656bfe5cb53668255367afba052f8f61201b2b11a78d6e866abc9c3db2ae8631fa656bfe5cb53668255367afb", "3c24d7329e92f84f08556ceb6df1cdb0104ca49f"},
}

// SelfTest cross-checks the reference against published vectors. A failing
// self-test means the reference is wrong: the check must not run.
func SelfTest() error {
	if !OnCurve(G()) {
		return fmt.Errorf("generator not on curve")
	}
	if !Mul(N, G()).Inf {
		return fmt.Errorf("N*G is not the point at infinity")
	}
	a, err := AddressOfKey(big.NewInt(1))
	if err != nil || hex.EncodeToString(a[:]) != "7e5f4552091a69125d5dfcb7b8c2659029395bdf" {
		return fmt.Errorf("address of key 1: %x %v", a, err)
	}
	// EIP-155 worked example
	to, _ := hex.DecodeString("3535353535353535353535353535353535353535")
	ex := &Tx{Nonce: 9, GasPrice: big.NewInt(20000000000), Gas: 21000, To: to, Value: new(big.Int).Exp(big.NewInt(10), big.NewInt(18), nil)}
	if h := hex.EncodeToString(ex.SigHash(big.NewInt(1))); h != "daf5a779ae972f972197303d7b574746c7ef83eadac0f2791ad23db92e4c8e53" {
		return fmt.Errorf("EIP-155 example signing hash: %s", h)
	}
	for i, v := range eip155Vectors {
		enc, _ := hex.DecodeString(v[0])
		tx, err := DecodeTx(enc)
		if err != nil {
			return fmt.Errorf("vector %d: %v", i, err)
		}
		if hex.EncodeToString(tx.Encode()) != v[0] {
			return fmt.Errorf("vector %d: re-encoding differs", i)
		}
		valid, prot, cid, recid := Classify(tx.V)
		if !valid || !prot || cid.Cmp(big.NewInt(1)) != 0 {
			return fmt.Errorf("vector %d: V classified as %v %v %v", i, valid, prot, cid)
		}
		got, err := Recover(tx.SigHash(cid), tx.R, tx.S, recid)
		if err != nil || hex.EncodeToString(got[:]) != v[1] {
			return fmt.Errorf("vector %d: recovered %x (%v), want %s", i, got, err, v[1])
		}
	}
	return nil
}
