package refsig

import (
	"encoding/hex"
	"math/big"
	"testing"
)

func TestSelf(t *testing.T) {
	if err := SelfTest(); err != nil {
		t.Fatal(err)
	}
}

func TestSignRecover(t *testing.T) {
	d, _ := new(big.Int).SetString("4646464646464646464646464646464646464646464646464646464646464646", 16)
	want, _ := AddressOfKey(d)
	if hex.EncodeToString(want[:]) != "9d8a62f656a8d1615c1294fd71e9cfb3e4855a4f" {
		t.Fatalf("address of the EIP-155 example key: %x", want)
	}
	h, _ := hex.DecodeString("daf5a779ae972f972197303d7b574746c7ef83eadac0f2791ad23db92e4c8e53")
	for k := int64(1); k < 40; k++ {
		r, s, recid, ok := Sign(h, d, big.NewInt(k*7919))
		if !ok {
			t.Fatal("unusable k")
		}
		if !LowS(s) {
			t.Fatal("high s")
		}
		got, err := Recover(h, r, s, recid)
		if err != nil || got != want {
			t.Fatalf("recover: %x %v", got, err)
		}
		// the twin recovers to the same key, other parity does not
		tw := new(big.Int).Sub(N, s)
		got, err = Recover(h, r, tw, recid^1)
		if err != nil || got != want {
			t.Fatalf("twin: %x %v", got, err)
		}
		got, err = Recover(h, r, s, recid^1)
		if err == nil && got == want {
			t.Fatal("wrong parity recovered the signer")
		}
	}
}
