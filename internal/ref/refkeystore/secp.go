package refkeystore

import (
	"errors"
	"math/big"

	"verif/internal/ref/refhash"
)

// Plain affine secp256k1 over math/big, written from SEC 2 (curve constants) and
// SEC 1 §4.1.6 (public key recovery). Deliberately shares nothing with btcec /
// decred, which the code under test is built on. Slow (~2 ms per scalar
// multiplication) and not constant time: it only ever sees test keys.

var (
	curveP, _  = new(big.Int).SetString("fffffffffffffffffffffffffffffffffffffffffffffffffffffffefffffc2f", 16)
	curveN, _  = new(big.Int).SetString("fffffffffffffffffffffffffffffffebaaedce6af48a03bbfd25e8cd0364141", 16)
	curveGx, _ = new(big.Int).SetString("79be667ef9dcbbac55a06295ce870b07029bfcdb2dce28d959f2815b16f81798", 16)
	curveGy, _ = new(big.Int).SetString("483ada7726a3c4655da4fbfc0e1108a8fd17b448a68554199c47d08ffb10d4b8", 16)
)

// N returns a copy of the group order.
func N() *big.Int { return new(big.Int).Set(curveN) }

type point struct{ x, y *big.Int } // nil x = infinity

func (a point) inf() bool { return a.x == nil }

func add(a, b point) point {
	if a.inf() {
		return b
	}
	if b.inf() {
		return a
	}
	var lam *big.Int
	if a.x.Cmp(b.x) == 0 {
		if a.y.Cmp(b.y) != 0 || a.y.Sign() == 0 {
			return point{}
		}
		// doubling: lam = 3x^2 / 2y
		num := new(big.Int).Mul(a.x, a.x)
		num.Mul(num, big.NewInt(3))
		den := new(big.Int).Lsh(a.y, 1)
		den.ModInverse(den.Mod(den, curveP), curveP)
		lam = num.Mul(num, den)
	} else {
		num := new(big.Int).Sub(b.y, a.y)
		den := new(big.Int).Sub(b.x, a.x)
		den.Mod(den, curveP)
		den.ModInverse(den, curveP)
		lam = num.Mul(num, den)
	}
	lam.Mod(lam, curveP)
	x := new(big.Int).Mul(lam, lam)
	x.Sub(x, a.x).Sub(x, b.x).Mod(x, curveP)
	y := new(big.Int).Sub(a.x, x)
	y.Mul(y, lam).Sub(y, a.y).Mod(y, curveP)
	return point{x, y}
}

func mul(k *big.Int, p point) point {
	r := point{}
	for i := k.BitLen() - 1; i >= 0; i-- {
		r = add(r, r)
		if k.Bit(i) == 1 {
			r = add(r, p)
		}
	}
	return r
}

func onCurve(p point) bool {
	if p.inf() {
		return false
	}
	l := new(big.Int).Mul(p.y, p.y)
	l.Mod(l, curveP)
	r := new(big.Int).Mul(p.x, p.x)
	r.Mul(r, p.x).Add(r, big.NewInt(7)).Mod(r, curveP)
	return l.Cmp(r) == 0
}

func pad32(v *big.Int) []byte {
	b := v.Bytes()
	out := make([]byte, 32)
	copy(out[32-len(b):], b)
	return out
}

func addrOf(p point) [20]byte {
	var a [20]byte
	h := refhash.Keccak256(pad32(p.x), pad32(p.y))
	copy(a[:], h[12:])
	return a
}

// ValidD reports 1 <= d < N for a big-endian scalar.
func ValidD(d []byte) bool {
	v := new(big.Int).SetBytes(d)
	return v.Sign() > 0 && v.Cmp(curveN) < 0
}

// AddressOfD is the account address of the private scalar d (big-endian, any
// length, 1 <= d < N): last 20 bytes of Keccak-256(X || Y).
func AddressOfD(d []byte) ([20]byte, error) {
	if !ValidD(d) {
		return [20]byte{}, errors.New("scalar out of range")
	}
	return addrOf(mul(new(big.Int).SetBytes(d), point{curveGx, curveGy})), nil
}

// RecoverAddress returns the address of the key that made the 65-byte
// [R || S || V] signature (V in 0..3) over the 32-byte hash.
func RecoverAddress(hash, sig []byte) ([20]byte, error) {
	var zero [20]byte
	if len(hash) != 32 || len(sig) != 65 {
		return zero, errors.New("bad length")
	}
	r := new(big.Int).SetBytes(sig[:32])
	s := new(big.Int).SetBytes(sig[32:64])
	v := sig[64]
	if v > 3 || r.Sign() == 0 || s.Sign() == 0 || r.Cmp(curveN) >= 0 || s.Cmp(curveN) >= 0 {
		return zero, errors.New("bad signature values")
	}
	x := new(big.Int).Set(r)
	if v&2 != 0 {
		x.Add(x, curveN)
	}
	if x.Cmp(curveP) >= 0 {
		return zero, errors.New("x out of field")
	}
	// y = sqrt(x^3+7), p = 3 mod 4
	rhs := new(big.Int).Mul(x, x)
	rhs.Mul(rhs, x).Add(rhs, big.NewInt(7)).Mod(rhs, curveP)
	e := new(big.Int).Add(curveP, big.NewInt(1))
	e.Rsh(e, 2)
	y := new(big.Int).Exp(rhs, e, curveP)
	if new(big.Int).Exp(y, big.NewInt(2), curveP).Cmp(rhs) != 0 {
		return zero, errors.New("x not on curve")
	}
	if y.Bit(0) != uint(v&1) {
		y.Sub(curveP, y)
	}
	R := point{x, y}
	// Q = r^-1 (s R - z G)
	z := new(big.Int).SetBytes(hash)
	rinv := new(big.Int).ModInverse(r, curveN)
	u1 := new(big.Int).Mul(z, rinv)
	u1.Neg(u1).Mod(u1, curveN)
	u2 := new(big.Int).Mul(s, rinv)
	u2.Mod(u2, curveN)
	Q := add(mul(u1, point{curveGx, curveGy}), mul(u2, R))
	if !onCurve(Q) {
		return zero, errors.New("recovered point invalid")
	}
	return addrOf(Q), nil
}
