// Package refkeystore is an independent writer and reader of Web3 Secret Storage
// key files, written from the public definition
// (https://ethereum.org/developers/docs/data-structures-and-encoding/web3-secret-storage):
//
//	v3: DK = scrypt(pass, salt, n, r, p, dklen) | pbkdf2-hmac-sha256(pass, salt, c, dklen)
//	    ciphertext = AES-128-CTR(key = DK[0:16], iv)(secret)
//	    mac = Keccak-256(DK[16:32] || ciphertext)
//	v1: same DK and mac; ciphertext = AES-128-CBC(key = Keccak-256(DK[0:16])[0:16], iv)(PKCS#7(secret))
//
// It uses x/crypto scrypt/pbkdf2, the standard library AES and x/crypto Keccak
// directly; nothing from the repository under test. SelfTest reproduces the
// published vectors (the same ones the repository's unit tests use).
package refkeystore

import (
	"bytes"
	"crypto/aes"
	"crypto/cipher"
	"crypto/sha256"
	"encoding/hex"
	"encoding/json"
	"errors"
	"fmt"

	"golang.org/x/crypto/pbkdf2"
	"golang.org/x/crypto/scrypt"
	"verif/internal/ref/refhash"
)

// Params describes one key file to write.
type Params struct {
	Version int    `json:"version"` // 3 or 1
	KDF     string `json:"kdf"`     // "scrypt" | "pbkdf2"
	N       int    `json:"n,omitempty"`
	R       int    `json:"r,omitempty"`
	P       int    `json:"p,omitempty"`
	C       int    `json:"c,omitempty"`
	Salt    string `json:"salt"` // hex
	IV      string `json:"iv"`   // hex, 16 bytes
	ID      string `json:"id"`
	// Strip: store the secret without its leading zero bytes, as some early
	// writers did (the "31_byte_key"/"30_byte_key" vectors); v3 only.
	Strip bool `json:"strip,omitempty"`
}

var ErrMAC = errors.New("refkeystore: MAC mismatch")

func derive(kdf string, pass, salt []byte, n, r, p, c, dklen int) ([]byte, error) {
	if dklen < 32 {
		return nil, fmt.Errorf("refkeystore: dklen %d < 32", dklen)
	}
	switch kdf {
	case "scrypt":
		if r <= 0 || p <= 0 {
			return nil, errors.New("refkeystore: scrypt r and p must be positive")
		}
		return scrypt.Key(pass, salt, n, r, p, dklen)
	case "pbkdf2":
		if c <= 0 {
			return nil, errors.New("refkeystore: pbkdf2 c must be positive")
		}
		return pbkdf2.Key(pass, salt, c, dklen, sha256.New), nil
	}
	return nil, fmt.Errorf("refkeystore: unknown kdf %q", kdf)
}

// Encrypt writes a key file for the secret (normally the 32-byte big-endian
// private scalar) under the passphrase. addrHex is stored as the "address" field.
func Encrypt(secret []byte, pass string, pr Params, addrHex string) ([]byte, error) {
	salt, err := hex.DecodeString(pr.Salt)
	if err != nil {
		return nil, err
	}
	iv, err := hex.DecodeString(pr.IV)
	if err != nil || len(iv) != 16 {
		return nil, errors.New("refkeystore: iv must be 16 bytes")
	}
	dk, err := derive(pr.KDF, []byte(pass), salt, pr.N, pr.R, pr.P, pr.C, 32)
	if err != nil {
		return nil, err
	}
	var kdfparams string
	if pr.KDF == "scrypt" {
		kdfparams = fmt.Sprintf(`{"dklen":32,"n":%d,"p":%d,"r":%d,"salt":"%s"}`, pr.N, pr.P, pr.R, pr.Salt)
	} else {
		kdfparams = fmt.Sprintf(`{"c":%d,"dklen":32,"prf":"hmac-sha256","salt":"%s"}`, pr.C, pr.Salt)
	}
	switch pr.Version {
	case 3:
		pt := secret
		if pr.Strip {
			pt = bytes.TrimLeft(secret, "\x00")
		}
		blk, err := aes.NewCipher(dk[:16])
		if err != nil {
			return nil, err
		}
		ct := make([]byte, len(pt))
		cipher.NewCTR(blk, iv).XORKeyStream(ct, pt)
		mac := refhash.Keccak256(dk[16:32], ct)
		return []byte(fmt.Sprintf(`{"address":"%s","crypto":{"cipher":"aes-128-ctr","ciphertext":"%x","cipherparams":{"iv":"%s"},"kdf":"%s","kdfparams":%s,"mac":"%x"},"id":"%s","version":3}`,
			addrHex, ct, pr.IV, pr.KDF, kdfparams, mac, pr.ID)), nil
	case 1:
		blk, err := aes.NewCipher(refhash.Keccak256(dk[:16])[:16])
		if err != nil {
			return nil, err
		}
		padn := 16 - len(secret)%16
		pt := append(append([]byte{}, secret...), bytes.Repeat([]byte{byte(padn)}, padn)...)
		ct := make([]byte, len(pt))
		cipher.NewCBCEncrypter(blk, iv).CryptBlocks(ct, pt)
		mac := refhash.Keccak256(dk[16:32], ct)
		return []byte(fmt.Sprintf(`{"address":"%s","Crypto":{"cipher":"aes-128-cbc","ciphertext":"%x","cipherparams":{"iv":"%s"},"kdf":"%s","kdfparams":%s,"mac":"%x","version":"1"},"id":"%s","version":"1"}`,
			addrHex, ct, pr.IV, pr.KDF, kdfparams, mac, pr.ID)), nil
	}
	return nil, fmt.Errorf("refkeystore: unknown version %d", pr.Version)
}

// File is what Decrypt learned about a key file.
type File struct {
	Version int
	Address string
	Cipher  string
	KDF     string
	Secret  []byte // decrypted bytes exactly as stored (no re-padding)
}

type fileJSON struct {
	Address string `json:"address"`
	Crypto  struct {
		Cipher       string `json:"cipher"`
		CipherText   string `json:"ciphertext"`
		CipherParams struct {
			IV string `json:"iv"`
		} `json:"cipherparams"`
		KDF       string `json:"kdf"`
		KDFParams struct {
			N     *int   `json:"n"`
			R     *int   `json:"r"`
			P     *int   `json:"p"`
			C     *int   `json:"c"`
			DKLen *int   `json:"dklen"`
			PRF   string `json:"prf"`
			Salt  string `json:"salt"`
		} `json:"kdfparams"`
		MAC string `json:"mac"`
	} `json:"crypto"`
	Version json.RawMessage `json:"version"`
}

func deref(p *int) int {
	if p == nil {
		return 0
	}
	return *p
}

// Decrypt reads a key file with the passphrase. It returns ErrMAC for a wrong
// passphrase / altered MAC-covered data.
func Decrypt(js []byte, pass string) (*File, error) {
	var f fileJSON
	if err := json.Unmarshal(js, &f); err != nil {
		return nil, err
	}
	out := &File{Address: f.Address, Cipher: f.Crypto.Cipher, KDF: f.Crypto.KDF}
	switch string(bytes.TrimSpace(f.Version)) {
	case "3":
		out.Version = 3
	case `"1"`:
		out.Version = 1
	default:
		return nil, fmt.Errorf("refkeystore: unsupported version %s", f.Version)
	}
	ct, err := hex.DecodeString(f.Crypto.CipherText)
	if err != nil {
		return nil, err
	}
	iv, err := hex.DecodeString(f.Crypto.CipherParams.IV)
	if err != nil {
		return nil, err
	}
	mac, err := hex.DecodeString(f.Crypto.MAC)
	if err != nil {
		return nil, err
	}
	salt, err := hex.DecodeString(f.Crypto.KDFParams.Salt)
	if err != nil {
		return nil, err
	}
	if len(iv) != 16 {
		return nil, errors.New("refkeystore: iv must be 16 bytes")
	}
	kp := f.Crypto.KDFParams
	if kp.DKLen == nil {
		return nil, errors.New("refkeystore: no dklen")
	}
	if f.Crypto.KDF == "pbkdf2" && kp.PRF != "hmac-sha256" {
		return nil, fmt.Errorf("refkeystore: unsupported prf %q", kp.PRF)
	}
	dk, err := derive(f.Crypto.KDF, []byte(pass), salt, deref(kp.N), deref(kp.R), deref(kp.P), deref(kp.C), *kp.DKLen)
	if err != nil {
		return nil, err
	}
	if !bytes.Equal(refhash.Keccak256(dk[16:32], ct), mac) {
		return nil, ErrMAC
	}
	switch out.Version {
	case 3:
		if f.Crypto.Cipher != "aes-128-ctr" {
			return nil, fmt.Errorf("refkeystore: unsupported cipher %q", f.Crypto.Cipher)
		}
		blk, err := aes.NewCipher(dk[:16])
		if err != nil {
			return nil, err
		}
		out.Secret = make([]byte, len(ct))
		cipher.NewCTR(blk, iv).XORKeyStream(out.Secret, ct)
	case 1:
		if len(ct) == 0 || len(ct)%16 != 0 {
			return nil, errors.New("refkeystore: cbc ciphertext not a multiple of the block size")
		}
		blk, err := aes.NewCipher(refhash.Keccak256(dk[:16])[:16])
		if err != nil {
			return nil, err
		}
		pt := make([]byte, len(ct))
		cipher.NewCBCDecrypter(blk, iv).CryptBlocks(pt, ct)
		n := int(pt[len(pt)-1])
		if n == 0 || n > 16 || n > len(pt) {
			return nil, errors.New("refkeystore: bad padding")
		}
		for _, b := range pt[len(pt)-n:] {
			if int(b) != n {
				return nil, errors.New("refkeystore: bad padding")
			}
		}
		out.Secret = pt[:len(pt)-n]
	}
	return out, nil
}

// ---------------------------------------------------------------------------
// Published vectors.

type vector struct {
	name, js, pass, priv string
	heavy                bool // needs 256 MiB scrypt
}

var vectors = []vector{
	{"wikipage_test_vector_scrypt", `{"crypto":{"cipher":"aes-128-ctr","cipherparams":{"iv":"83dbcc02d8ccb40e466191a123791e0e"},"ciphertext":"d172bf743a674da9cdad04534d56926ef8358534d458fffccd4e6ad2fbde479c","kdf":"scrypt","kdfparams":{"dklen":32,"n":262144,"r":1,"p":8,"salt":"ab0c7876052600dd703518d6fc3fe8984592145b591fc8fb5c6d43190334ba19"},"mac":"2103ac29920d71da29f15d75b4a16dbe95cfd7ff8faea1056c33131d846e3097"},"id":"3198bc9c-6672-5ab3-d995-4942343ae5b6","version":3}`,
		"testpassword", "7a28b5ba57c53603b0b07b56bba752f7784bf506fa95edc395f5cf6c7514fe9d", true},
	{"wikipage_test_vector_pbkdf2", `{"crypto":{"cipher":"aes-128-ctr","cipherparams":{"iv":"6087dab2f9fdbbfaddc31a909735c1e6"},"ciphertext":"5318b4d5bcd28de64ee5559e671353e16f075ecae9f99c7a79a38af5f869aa46","kdf":"pbkdf2","kdfparams":{"c":262144,"dklen":32,"prf":"hmac-sha256","salt":"ae3cd4e7013836a3df6bd7241b12db061dbe2c6785853cce422d148a624ce0bd"},"mac":"517ead924a9d0dc3124507e3393d175ce3ff7c1e96529c6c555ce9e51205e9b2"},"id":"3198bc9c-6672-5ab3-d995-4942343ae5b6","version":3}`,
		"testpassword", "7a28b5ba57c53603b0b07b56bba752f7784bf506fa95edc395f5cf6c7514fe9d", false},
	{"31_byte_key", `{"crypto":{"cipher":"aes-128-ctr","cipherparams":{"iv":"e0c41130a323adc1446fc82f724bca2f"},"ciphertext":"9517cd5bdbe69076f9bf5057248c6c050141e970efa36ce53692d5d59a3984","kdf":"scrypt","kdfparams":{"dklen":32,"n":2,"r":8,"p":1,"salt":"711f816911c92d649fb4c84b047915679933555030b3552c1212609b38208c63"},"mac":"d5e116151c6aa71470e67a7d42c9620c75c4d23229847dcc127794f0732b0db5"},"id":"fecfc4ce-e956-48fd-953b-30f8b52ed66c","version":3}`,
		"foo", "fa7b3db73dc7dfdf8c5fbdb796d741e4488628c41fc4febd9160a866ba0f35", false},
	{"30_byte_key", `{"crypto":{"cipher":"aes-128-ctr","cipherparams":{"iv":"3ca92af36ad7c2cd92454c59cea5ef00"},"ciphertext":"108b7d34f3442fc26ab1ab90ca91476ba6bfa8c00975a49ef9051dc675aa","kdf":"scrypt","kdfparams":{"dklen":32,"n":2,"r":8,"p":1,"salt":"d0769e608fb86cda848065642a9c6fa046845c928175662b8e356c77f914cd3b"},"mac":"75d0e6759f7b3cefa319c3be41680ab6beea7d8328653474bd06706d4cc67420"},"id":"a37e1559-5955-450d-8075-7b8931b392b2","version":3}`,
		"foo", "81c29e8142bb6a81bef5a92bda7a8328a5c85bb2f9542e76f9b0f94fc018", false},
	{"v1_test1", `{"address":"cb61d5a9c4896fb9658090b597ef0e7be6f7b67e","Crypto":{"cipher":"aes-128-cbc","ciphertext":"6143d3192db8b66eabd693d9c4e414dcfaee52abda451af79ccf474dafb35f1bfc7ea013aa9d2ee35969a1a2e8d752d0","cipherparams":{"iv":"35337770fc2117994ecdcad026bccff4"},"kdf":"scrypt","kdfparams":{"n":262144,"r":8,"p":1,"dklen":32,"salt":"9afcddebca541253a2f4053391c673ff9fe23097cd8555d149d929e4ccf1257f"},"mac":"3f3d5af884b17a100b0b3232c0636c230a54dc2ac8d986227219b0dd89197644","version":"1"},"id":"e25f7c1f-d318-4f29-b62c-687190d4d299","version":"1"}`,
		"g", "d1b1178d3529626a1a93e073f65028370d14c7eb0936eb42abef05db6f37ad7d", true},
}

// SelfTest checks the reader against the published vectors, the writer against
// the reader, and the curve code against two known key/address pairs. heavy
// includes the two vectors that need a 256 MiB scrypt.
func SelfTest(heavy bool) error {
	for _, v := range vectors {
		if v.heavy && !heavy {
			continue
		}
		f, err := Decrypt([]byte(v.js), v.pass)
		if err != nil {
			return fmt.Errorf("vector %s: %v", v.name, err)
		}
		if hex.EncodeToString(f.Secret) != v.priv {
			return fmt.Errorf("vector %s: secret %x, want %s", v.name, f.Secret, v.priv)
		}
		if v.heavy {
			continue
		}
		if _, err := Decrypt([]byte(v.js), v.pass+"x"); err != ErrMAC {
			return fmt.Errorf("vector %s: wrong passphrase gave %v", v.name, err)
		}
	}
	// well-known pairs: d=1, and the v1 vector's key with the address in its file
	for _, kv := range [][2]string{
		{"0000000000000000000000000000000000000000000000000000000000000001", "7e5f4552091a69125d5dfcb7b8c2659029395bdf"},
		{"d1b1178d3529626a1a93e073f65028370d14c7eb0936eb42abef05db6f37ad7d", "cb61d5a9c4896fb9658090b597ef0e7be6f7b67e"},
	} {
		d, _ := hex.DecodeString(kv[0])
		a, err := AddressOfD(d)
		if err != nil || hex.EncodeToString(a[:]) != kv[1] {
			return fmt.Errorf("address of %s = %x (%v), want %s", kv[0], a, err, kv[1])
		}
	}
	// writer/reader agreement for each format
	secret, _ := hex.DecodeString("00007a28b5ba57c53603b0b07b56bba752f7784bf506fa95edc395f5cf6c7514")
	for _, pr := range []Params{
		{Version: 3, KDF: "scrypt", N: 4, R: 8, P: 1},
		{Version: 3, KDF: "pbkdf2", C: 3},
		{Version: 1, KDF: "scrypt", N: 2, R: 8, P: 1},
		{Version: 3, KDF: "scrypt", N: 2, R: 1, P: 2, Strip: true},
	} {
		pr.Salt = "ab0c7876052600dd703518d6fc3fe8984592145b591fc8fb5c6d43190334ba19"
		pr.IV = "83dbcc02d8ccb40e466191a123791e0e"
		js, err := Encrypt(secret, "pässword", pr, "00")
		if err != nil {
			return err
		}
		f, err := Decrypt(js, "pässword")
		if err != nil {
			return fmt.Errorf("writer/reader %+v: %v", pr, err)
		}
		want := secret
		if pr.Strip {
			want = secret[2:]
		}
		if !bytes.Equal(f.Secret, want) {
			return fmt.Errorf("writer/reader %+v: secret %x", pr, f.Secret)
		}
	}
	return nil
}
