package refkeystore

import (
	"bytes"
	"crypto/rand"
	"testing"

	"gitlab.com/aquachain/aquachain/crypto"
)

func TestSelf(t *testing.T) {
	if err := SelfTest(true); err != nil {
		t.Fatal(err)
	}
}

// Cross-check of the math/big curve code against the repository's (btcec based)
// signing: only a sanity test of the reference, never part of a verdict.
func TestCurveAgainstRepo(t *testing.T) {
	for i := 0; i < 40; i++ {
		d := make([]byte, 32)
		rand.Read(d)
		if i%4 == 1 {
			d[0], d[1] = 0, 0
		}
		if !ValidD(d) {
			continue
		}
		k := crypto.ToECDSAUnsafe(d)
		want := crypto.PubkeyToAddress(k.PubKey())
		got, err := AddressOfD(d)
		if err != nil || !bytes.Equal(got[:], want[:]) {
			t.Fatalf("AddressOfD(%x) = %x, %v; repo %x", d, got, err, want)
		}
		h := make([]byte, 32)
		rand.Read(h)
		sig, err := crypto.Sign(h, k)
		if err != nil {
			t.Fatal(err)
		}
		rec, err := RecoverAddress(h, sig)
		if err != nil || !bytes.Equal(rec[:], want[:]) {
			t.Fatalf("RecoverAddress = %x, %v; want %x", rec, err, want)
		}
	}
}
