package refevm

import (
	"encoding/hex"
	"fmt"
	"math/big"
)

// The published vectors the repository's own table tests use (EIP-145 shift
// tables, the SLT/SGT and BYTE tables of core/vm/instructions_test.go, the
// memory-fee value of core/vm/gas_table_test.go). The model must reproduce
// every one of them before it is allowed to judge anything.

type vec2 struct{ next, top, want string } // "next" is pushed first, "top" second

const (
	w0   = "0000000000000000000000000000000000000000000000000000000000000000"
	w1   = "0000000000000000000000000000000000000000000000000000000000000001"
	wmax = "ffffffffffffffffffffffffffffffffffffffffffffffffffffffffffffffff"
	w7f  = "7fffffffffffffffffffffffffffffffffffffffffffffffffffffffffffffff"
	w80  = "8000000000000000000000000000000000000000000000000000000000000000"
	w801 = "8000000000000000000000000000000000000000000000000000000000000001"
)

var shlVec = []vec2{
	{w1, "00", w1}, {w1, "01", "0000000000000000000000000000000000000000000000000000000000000002"},
	{w1, "ff", w80}, {w1, "0100", w0}, {w1, "0101", w0},
	{wmax, "00", wmax}, {wmax, "01", "fffffffffffffffffffffffffffffffffffffffffffffffffffffffffffffffe"},
	{wmax, "ff", w80}, {wmax, "0100", w0}, {w0, "01", w0},
	{w7f, "01", "fffffffffffffffffffffffffffffffffffffffffffffffffffffffffffffffe"},
}

var shrVec = []vec2{
	{w1, "00", w1}, {w1, "01", w0},
	{w80, "01", "4000000000000000000000000000000000000000000000000000000000000000"},
	{w80, "ff", w1}, {w80, "0100", w0}, {w80, "0101", w0},
	{wmax, "00", wmax}, {wmax, "01", w7f}, {wmax, "ff", w1}, {wmax, "0100", w0}, {w0, "01", w0},
}

var sarVec = []vec2{
	{w1, "00", w1}, {w1, "01", w0},
	{w80, "01", "c000000000000000000000000000000000000000000000000000000000000000"},
	{w80, "ff", wmax}, {w80, "0100", wmax}, {w80, "0101", wmax},
	{wmax, "00", wmax}, {wmax, "01", wmax}, {wmax, "ff", wmax}, {wmax, "0100", wmax}, {w0, "01", w0},
	{"4000000000000000000000000000000000000000000000000000000000000000", "fe", w1},
	{w7f, "f8", "000000000000000000000000000000000000000000000000000000000000007f"},
	{w7f, "fe", w1}, {w7f, "ff", w0}, {w7f, "0100", w0},
}

var sgtVec = []vec2{
	{w1, w1, w0}, {wmax, wmax, w0}, {w7f, w7f, w0}, {w1, w7f, w1}, {w7f, w1, w0},
	{wmax, w1, w1}, {w1, wmax, w0}, {w801, w801, w0}, {w801, w7f, w1}, {w7f, w801, w0},
}

var sltVec = []vec2{
	{w1, w1, w0}, {wmax, wmax, w0}, {w7f, w7f, w0}, {w1, w7f, w0}, {w7f, w1, w1},
	{wmax, w1, w0}, {w1, wmax, w1}, {w801, w801, w0}, {w801, w7f, w0}, {w7f, w801, w1},
}

var byteVec = []vec2{
	{"ABCDEF0908070605040302010000000000000000000000000000000000000000", "00", "ab"},
	{"ABCDEF0908070605040302010000000000000000000000000000000000000000", "01", "cd"},
	{"00CDEF090807060504030201ffffffffffffffffffffffffffffffffffffffff", "00", "00"},
	{"00CDEF090807060504030201ffffffffffffffffffffffffffffffffffffffff", "01", "cd"},
	{"0000000000000000000000000000000000000000000000000000000000102030", "1f", "30"},
	{"0000000000000000000000000000000000000000000000000000000000102030", "1e", "20"},
	{wmax, "20", "00"},
	{wmax, "ffffffffffffffff", "00"},
}

func hexWord(s string) *big.Int {
	b, err := hex.DecodeString(s)
	if err != nil {
		panic(err)
	}
	return new(big.Int).SetBytes(b)
}

func push32(x *big.Int) []byte {
	out := make([]byte, 33)
	out[0] = 0x7f
	x.FillBytes(out[1:])
	return out
}

// SelfTest returns an error if the model does not reproduce a published vector.
func SelfTest() error {
	full := Config{Feat: Features{DelegateCall: true, Byzantium: true, Shifts: true}, ExpByte: 50}
	run2 := func(op byte, name string, vs []vec2) error {
		for i, v := range vs {
			code := append(push32(hexWord(v.next)), push32(hexWord(v.top))...)
			code = append(code, op)
			m := New(full, code, nil, 1000)
			m.Run(10)
			if m.State != Stop || len(m.Stack) != 1 {
				return fmt.Errorf("%s vector %d: state %v, stack %d", name, i, m.State, len(m.Stack))
			}
			if m.Stack[0].Cmp(hexWord(v.want)) != 0 {
				return fmt.Errorf("%s vector %d: got %x want %s", name, i, m.Stack[0], v.want)
			}
			if m.Gas != 1000-9 {
				return fmt.Errorf("%s vector %d: gas used %d, want 9", name, i, 1000-m.Gas)
			}
		}
		return nil
	}
	for _, t := range []struct {
		op   byte
		name string
		vs   []vec2
	}{{0x1b, "SHL", shlVec}, {0x1c, "SHR", shrVec}, {0x1d, "SAR", sarVec}, {0x13, "SGT", sgtVec}, {0x12, "SLT", sltVec}, {0x1a, "BYTE", byteVec}} {
		if err := run2(t.op, t.name, t.vs); err != nil {
			return err
		}
	}
	// gas_table_test.go expects 36028899963961341 for 0xffffffffe0 bytes of fresh
	// memory. That number is NOT the yellow-paper fee (3w + w^2/512 with
	// w = 2^35-1 is 2305843112158691325): it is what uint64 arithmetic yields when
	// w*w wraps around 2^64. The model keeps the exact fee; the vector is
	// reproduced by applying the same wrap-around, which pins down the formula
	// and documents that the two only differ for w > 2^32 words (128 GiB, more
	// than 1.28e10 gas - outside every run of this check).
	words := ceil32(new(big.Int).SetUint64(0xffffffffe0))
	if memFee(words).String() != "2305843112158691325" {
		return fmt.Errorf("memory fee of 0xffffffffe0 bytes: got %v", memFee(words))
	}
	sq := new(big.Int).Mul(words, words)
	sq.Mod(sq, new(big.Int).Lsh(one, 64))
	sq.Div(sq, b512)
	sq.Add(sq, new(big.Int).Mul(words, b3))
	if sq.Cmp(big.NewInt(36028899963961341)) != 0 {
		return fmt.Errorf("memory fee vector of gas_table_test.go not reproduced: %v", sq)
	}
	// yellow-paper spot values: Cmem(1)=3, Cmem(32)=98, Cmem(724)=3195
	for _, t := range [][2]int64{{1, 3}, {32, 98}, {724, 3195}, {1024, 5120}} {
		if memFee(big.NewInt(t[0])).Int64() != t[1] {
			return fmt.Errorf("memory fee of %d words: got %v want %d", t[0], memFee(big.NewInt(t[0])), t[1])
		}
	}
	// a few identities every EVM reference lists
	type prog struct {
		code string
		top  string
		gas  uint64 // gas used
	}
	for i, p := range []prog{
		{"600160000b", "01", 3 + 3 + 5},                     // SIGNEXTEND(0, 1)
		{"60ff60000b", wmax, 11},                            // SIGNEXTEND(0, 0xff) = -1
		{"7f" + wmax + "7f" + w80 + "05", w80, 3 + 3 + 5},    // SDIV(-2^255, -1) = -2^255
		{"600260030a", "09", 3 + 3 + 10 + 50},               // EXP(3, 2) = 9, one exponent byte
		{"6000600020", "c5d2460186f7233c927e7db2dcc703c0e500b653ca82273b7bfad8045d85a470", 3 + 3 + 30}, // SHA3 of empty
		{"6000600052595a", "", 0},                           // placeholder, checked below
	} {
		if p.top == "" {
			continue
		}
		code, _ := hex.DecodeString(p.code)
		m := New(full, code, nil, 100000)
		m.Run(20)
		if m.State != Stop || len(m.Stack) == 0 || m.back(0).Cmp(hexWord(pad64(p.top))) != 0 {
			return fmt.Errorf("identity %d (%s): state %v top %x", i, p.code, m.State, m.Stack)
		}
		if 100000-m.Gas != p.gas {
			return fmt.Errorf("identity %d (%s): gas used %d want %d", i, p.code, 100000-m.Gas, p.gas)
		}
	}
	// MSTORE then MSIZE then GAS: memory 32 bytes, gas = 100 - (3+3+3+3) - 2 - 2
	code, _ := hex.DecodeString("6000600052595a")
	m := New(full, code, nil, 100)
	m.Run(20)
	if len(m.Stack) != 2 || m.Stack[0].Int64() != 32 || m.Stack[1].Int64() != 100-12-2-2 {
		return fmt.Errorf("MSIZE/GAS identity: stack %v", m.Stack)
	}
	// validity table: pre-Byzantium has no REVERT, pre-HF5 no SHL
	if Valid(0xfd, Features{DelegateCall: true}) || !Valid(0xfd, Features{Byzantium: true}) ||
		Valid(0x1b, Features{Byzantium: true}) || !Valid(0x1b, Features{Shifts: true}) ||
		Valid(0xf4, Features{}) || !Valid(0xf4, Features{DelegateCall: true}) || Valid(0xfe, full.Feat) || Valid(0x0c, full.Feat) {
		return fmt.Errorf("validity table self-check failed")
	}
	n := 0
	for op := 0; op < 256; op++ {
		if Valid(byte(op), full.Feat) {
			n++
		}
	}
	// 134 Byzantium instructions + 3 shifts (yellow paper appendix H, EIP-145)
	if n != 137 {
		return fmt.Errorf("full instruction set has %d opcodes, want 137", n)
	}
	return nil
}

func pad64(s string) string {
	for len(s) < 64 {
		s = "0" + s
	}
	return s
}
