// Package refevm is an independent evaluator for the computational EVM
// instructions, written from the yellow paper (appendix H) and EIP-140/145/160/211:
// arithmetic, comparison, bitwise, shifts, SHA3, stack, memory, control flow,
// call-data / code access, RETURN / REVERT, with gas, memory growth and
// exceptional halts, plus the opcode validity / stack-arity table of every
// instruction-set epoch.
//
// It shares no code with the implementation under test: plain math/big with
// explicit mod-2^256 arithmetic, x/crypto Keccak (refhash), its own jump
// destination scan. It is driven in lock-step: Begin() describes the next
// instruction as the specification sees it (pc, opcode, gas before, gas cost,
// memory after expansion, operand stack before execution, or the set of
// exceptional-halt conditions that hold), Finish() executes it.
package refevm

import (
	"math/big"

	"verif/internal/ref/refhash"
)

// Features selects the instruction set of an epoch.
type Features struct {
	DelegateCall bool // Homestead: DELEGATECALL
	Byzantium    bool // REVERT, RETURNDATASIZE, RETURNDATACOPY, STATICCALL
	Shifts       bool // SHL, SHR, SAR
}

// Config is what the fork schedule selects at a height.
type Config struct {
	Feat    Features
	ExpByte uint64 // gas per byte of the EXP exponent (10, or 50 after the repricing)
}

// Cond is a set of exceptional-halt conditions.
type Cond uint

const (
	CondInvalid   Cond = 1 << iota // opcode not in the epoch's set
	CondUnderflow                  // fewer stack items than the instruction removes
	CondOverflow                   // stack would exceed 1024 items
	CondOOG                        // gas cost exceeds remaining gas
	CondBadJump                    // jump target is not a JUMPDEST outside PUSH data
	CondReturnData                 // RETURNDATACOPY beyond the return data buffer
)

func (c Cond) String() string {
	s := ""
	for _, n := range []struct {
		c Cond
		n string
	}{{CondInvalid, "invalid_opcode"}, {CondUnderflow, "stack_underflow"}, {CondOverflow, "stack_overflow"},
		{CondOOG, "out_of_gas"}, {CondBadJump, "bad_jump"}, {CondReturnData, "return_data_out_of_bounds"}} {
		if c&n.c != 0 {
			if s != "" {
				s += "+"
			}
			s += n.n
		}
	}
	if s == "" {
		return "none"
	}
	return s
}

// Halt is the state of the machine.
type Halt int

const (
	Running Halt = iota
	Stop         // STOP, or running off the end of the code
	Return
	Revert
	Exceptional
	OutOfModel // reached a valid instruction this model does not evaluate
)

func (h Halt) String() string {
	return [...]string{"running", "stop", "return", "revert", "exceptional", "out_of_model"}[h]
}

// OpInfo is the static description of one opcode.
type OpInfo struct {
	Name    string
	Pops    int // delta
	Pushes  int // alpha
	Defined bool
	Need    func(Features) bool // nil = in every set
	Covered bool                // evaluated by this model
	Base    uint64              // constant part of the gas cost (covered ops only)
}

// Table is the opcode table (all 256 byte values).
var Table [256]OpInfo

func def(op int, name string, pops, pushes int, covered bool, base uint64) {
	Table[op] = OpInfo{Name: name, Pops: pops, Pushes: pushes, Defined: true, Covered: covered, Base: base}
}

const (
	gZero    = 0
	gBase    = 2
	gVeryLow = 3
	gLow     = 5
	gMid     = 8
	gHigh    = 10
)

func init() {
	def(0x00, "STOP", 0, 0, true, gZero)
	def(0x01, "ADD", 2, 1, true, gVeryLow)
	def(0x02, "MUL", 2, 1, true, gLow)
	def(0x03, "SUB", 2, 1, true, gVeryLow)
	def(0x04, "DIV", 2, 1, true, gLow)
	def(0x05, "SDIV", 2, 1, true, gLow)
	def(0x06, "MOD", 2, 1, true, gLow)
	def(0x07, "SMOD", 2, 1, true, gLow)
	def(0x08, "ADDMOD", 3, 1, true, gMid)
	def(0x09, "MULMOD", 3, 1, true, gMid)
	def(0x0a, "EXP", 2, 1, true, 10)
	def(0x0b, "SIGNEXTEND", 2, 1, true, gLow)
	def(0x10, "LT", 2, 1, true, gVeryLow)
	def(0x11, "GT", 2, 1, true, gVeryLow)
	def(0x12, "SLT", 2, 1, true, gVeryLow)
	def(0x13, "SGT", 2, 1, true, gVeryLow)
	def(0x14, "EQ", 2, 1, true, gVeryLow)
	def(0x15, "ISZERO", 1, 1, true, gVeryLow)
	def(0x16, "AND", 2, 1, true, gVeryLow)
	def(0x17, "OR", 2, 1, true, gVeryLow)
	def(0x18, "XOR", 2, 1, true, gVeryLow)
	def(0x19, "NOT", 1, 1, true, gVeryLow)
	def(0x1a, "BYTE", 2, 1, true, gVeryLow)
	def(0x1b, "SHL", 2, 1, true, gVeryLow)
	def(0x1c, "SHR", 2, 1, true, gVeryLow)
	def(0x1d, "SAR", 2, 1, true, gVeryLow)
	shifts := func(f Features) bool { return f.Shifts }
	for op := 0x1b; op <= 0x1d; op++ {
		Table[op].Need = shifts
	}
	def(0x20, "SHA3", 2, 1, true, 30)
	def(0x30, "ADDRESS", 0, 1, false, 0)
	def(0x31, "BALANCE", 1, 1, false, 0)
	def(0x32, "ORIGIN", 0, 1, false, 0)
	def(0x33, "CALLER", 0, 1, false, 0)
	def(0x34, "CALLVALUE", 0, 1, false, 0)
	def(0x35, "CALLDATALOAD", 1, 1, true, gVeryLow)
	def(0x36, "CALLDATASIZE", 0, 1, true, gBase)
	def(0x37, "CALLDATACOPY", 3, 0, true, gVeryLow)
	def(0x38, "CODESIZE", 0, 1, true, gBase)
	def(0x39, "CODECOPY", 3, 0, true, gVeryLow)
	def(0x3a, "GASPRICE", 0, 1, false, 0)
	def(0x3b, "EXTCODESIZE", 1, 1, false, 0)
	def(0x3c, "EXTCODECOPY", 4, 0, false, 0)
	byz := func(f Features) bool { return f.Byzantium }
	def(0x3d, "RETURNDATASIZE", 0, 1, true, gBase)
	def(0x3e, "RETURNDATACOPY", 3, 0, true, gVeryLow)
	Table[0x3d].Need, Table[0x3e].Need = byz, byz
	def(0x40, "BLOCKHASH", 1, 1, false, 0)
	def(0x41, "COINBASE", 0, 1, false, 0)
	def(0x42, "TIMESTAMP", 0, 1, false, 0)
	def(0x43, "NUMBER", 0, 1, false, 0)
	def(0x44, "DIFFICULTY", 0, 1, false, 0)
	def(0x45, "GASLIMIT", 0, 1, false, 0)
	def(0x50, "POP", 1, 0, true, gBase)
	def(0x51, "MLOAD", 1, 1, true, gVeryLow)
	def(0x52, "MSTORE", 2, 0, true, gVeryLow)
	def(0x53, "MSTORE8", 2, 0, true, gVeryLow)
	def(0x54, "SLOAD", 1, 1, false, 0)
	def(0x55, "SSTORE", 2, 0, false, 0)
	def(0x56, "JUMP", 1, 0, true, gMid)
	def(0x57, "JUMPI", 2, 0, true, gHigh)
	def(0x58, "PC", 0, 1, true, gBase)
	def(0x59, "MSIZE", 0, 1, true, gBase)
	def(0x5a, "GAS", 0, 1, true, gBase)
	def(0x5b, "JUMPDEST", 0, 0, true, 1)
	for n := 1; n <= 32; n++ {
		def(0x5f+n, "PUSH"+itoa(n), 0, 1, true, gVeryLow)
	}
	for n := 1; n <= 16; n++ {
		def(0x7f+n, "DUP"+itoa(n), n, n+1, true, gVeryLow)
		def(0x8f+n, "SWAP"+itoa(n), n+1, n+1, true, gVeryLow)
	}
	for n := 0; n <= 4; n++ {
		def(0xa0+n, "LOG"+itoa(n), n+2, 0, false, 0)
	}
	def(0xf0, "CREATE", 3, 1, false, 0)
	def(0xf1, "CALL", 7, 1, false, 0)
	def(0xf2, "CALLCODE", 7, 1, false, 0)
	def(0xf3, "RETURN", 2, 0, true, gZero)
	def(0xf4, "DELEGATECALL", 6, 1, false, 0)
	Table[0xf4].Need = func(f Features) bool { return f.DelegateCall }
	def(0xfa, "STATICCALL", 6, 1, false, 0)
	Table[0xfa].Need = byz
	def(0xfd, "REVERT", 2, 0, true, gZero)
	Table[0xfd].Need = byz
	def(0xff, "SELFDESTRUCT", 1, 0, false, 0)
}

func itoa(n int) string {
	if n >= 10 {
		return string(rune('0'+n/10)) + string(rune('0'+n%10))
	}
	return string(rune('0' + n))
}

// Valid reports whether the byte value is an instruction of the epoch's set.
func Valid(op byte, f Features) bool {
	i := &Table[op]
	return i.Defined && (i.Need == nil || i.Need(f))
}

// Name of an opcode for reports.
func Name(op byte) string {
	if Table[op].Defined {
		return Table[op].Name
	}
	return "INVALID_0x" + string("0123456789abcdef"[op>>4]) + string("0123456789abcdef"[op&15])
}

var (
	one    = big.NewInt(1)
	two256 = new(big.Int).Lsh(one, 256)
	two255 = new(big.Int).Lsh(one, 255)
	maxU   = new(big.Int).Sub(two256, one)
	b32    = big.NewInt(32)
	b31    = big.NewInt(31)
	b256   = big.NewInt(256)
	b512   = big.NewInt(512)
	b3     = big.NewInt(3)
)

// wrap reduces into [0, 2^256) (Euclidean modulus: also right for negatives).
func wrap(x *big.Int) *big.Int { return x.Mod(x, two256) }

// signed interprets a word as two's complement; always a fresh value.
func signed(x *big.Int) *big.Int {
	if x.Cmp(two255) >= 0 {
		return new(big.Int).Sub(x, two256)
	}
	return new(big.Int).Set(x)
}

// Expect is what the specification says about the next instruction.
type Expect struct {
	Halted    bool // the machine is not running any more
	PC        uint64
	Op        byte
	GasBefore uint64
	Pre       Cond   // exceptional conditions that hold before execution (0 = it executes)
	Cost      uint64 // gas charged (when Pre == 0)
	MemBytes  uint64 // memory size after expansion (when Pre == 0), a multiple of 32
	Uncovered bool   // valid instruction outside this model: only Pre's stack part is meaningful
}

// Machine is one execution.
type Machine struct {
	Cfg   Config
	Code  []byte
	Input []byte
	Gas   uint64
	PC    uint64
	Stack []*big.Int // bottom .. top
	Mem   []byte
	State Halt
	Ret   []byte
	// ExecCond is the exceptional condition raised while executing the last
	// instruction (bad jump target, return data bounds).
	ExecCond Cond
	// statistics of the run, for observation counters
	MemGrew, JumpTaken, JumpiNotTaken, ZeroSizeHugeOffset, TruncatedPush bool
	Steps                                                              int

	jumpdest map[uint64]bool
	cur      Expect
	newWords uint64
}

// New prepares an execution of code with the given call data and gas.
func New(cfg Config, code, input []byte, gas uint64) *Machine {
	m := &Machine{Cfg: cfg, Code: code, Input: input, Gas: gas}
	// valid jump destinations: JUMPDEST bytes reached by a linear scan that
	// skips PUSH immediates
	m.jumpdest = map[uint64]bool{}
	for i := 0; i < len(code); i++ {
		b := code[i]
		if b == 0x5b {
			m.jumpdest[uint64(i)] = true
		} else if b >= 0x60 && b <= 0x7f {
			i += int(b) - 0x5f
		}
	}
	return m
}

func (m *Machine) opAt(pc uint64) byte {
	if pc < uint64(len(m.Code)) {
		return m.Code[pc]
	}
	return 0 // STOP
}

// back returns the n-th item from the top (0 = top).
func (m *Machine) back(n int) *big.Int { return m.Stack[len(m.Stack)-1-n] }

func ceil32(x *big.Int) *big.Int {
	r := new(big.Int).Add(x, b31)
	return r.Div(r, b32)
}

func memFee(words *big.Int) *big.Int {
	sq := new(big.Int).Mul(words, words)
	sq.Div(sq, b512)
	return sq.Add(sq, new(big.Int).Mul(words, b3))
}

// memRange returns the (offset,size) operand positions of a memory-touching op,
// or fixed sizes; ok=false if the op touches no memory.
func (m *Machine) memNeed(op byte) (need *big.Int) {
	rng := func(off, size *big.Int) *big.Int {
		if size.Sign() == 0 {
			return new(big.Int)
		}
		return new(big.Int).Add(off, size)
	}
	switch op {
	case 0x20, 0xf3, 0xfd: // SHA3, RETURN, REVERT: offset, size
		return rng(m.back(0), m.back(1))
	case 0x37, 0x39, 0x3e: // *COPY: memOffset, dataOffset, size
		return rng(m.back(0), m.back(2))
	case 0x51, 0x52: // MLOAD, MSTORE
		return rng(m.back(0), b32)
	case 0x53:
		return rng(m.back(0), one)
	}
	return nil
}

// Begin evaluates the next instruction up to (not including) its execution:
// validity, stack arity, gas cost, memory expansion. When it executes
// (Pre == 0) the gas is charged and the memory is expanded, exactly as the
// specification orders it.
func (m *Machine) Begin() Expect {
	if m.State != Running {
		return Expect{Halted: true}
	}
	op := m.opAt(m.PC)
	e := Expect{PC: m.PC, Op: op, GasBefore: m.Gas}
	info := &Table[op]
	if !Valid(op, m.Cfg.Feat) {
		e.Pre = CondInvalid
		m.cur = e
		return e
	}
	if len(m.Stack) < info.Pops {
		e.Pre |= CondUnderflow
	} else if len(m.Stack)-info.Pops+info.Pushes > 1024 {
		e.Pre |= CondOverflow
	}
	if !info.Covered {
		e.Uncovered = true
		m.cur = e
		return e
	}
	if e.Pre&CondUnderflow != 0 {
		// operands are missing: the cost function is not defined; any further
		// condition is moot (the halt is exceptional already)
		m.cur = e
		return e
	}
	// gas
	cost := new(big.Int).SetUint64(info.Base)
	switch op {
	case 0x0a: // EXP: 10 + ExpByte * bytes(exponent)
		nbytes := (m.back(1).BitLen() + 7) / 8
		cost.Add(cost, new(big.Int).Mul(big.NewInt(int64(nbytes)), new(big.Int).SetUint64(m.Cfg.ExpByte)))
	case 0x20: // SHA3: 30 + 6 per word
		cost.Add(cost, new(big.Int).Mul(ceil32(m.back(1)), big.NewInt(6)))
	case 0x37, 0x39, 0x3e: // copies: 3 + 3 per word
		cost.Add(cost, new(big.Int).Mul(ceil32(m.back(2)), b3))
	}
	curWords := uint64(len(m.Mem) / 32)
	newWords := curWords
	if need := m.memNeed(op); need != nil && need.Sign() > 0 {
		w := ceil32(need)
		if w.Cmp(new(big.Int).SetUint64(curWords)) > 0 {
			cost.Add(cost, new(big.Int).Sub(memFee(w), memFee(new(big.Int).SetUint64(curWords))))
			if w.IsUint64() {
				newWords = w.Uint64()
			} else {
				newWords = ^uint64(0) // never reached: the cost cannot be paid
			}
		}
	} else if need != nil && need.Sign() == 0 {
		// zero-size access: no expansion however large the offset
		off := m.back(0)
		if off.BitLen() > 64 {
			m.ZeroSizeHugeOffset = true
		}
	}
	if cost.Cmp(new(big.Int).SetUint64(m.Gas)) > 0 {
		e.Pre |= CondOOG
	}
	if e.Pre != 0 {
		m.cur = e
		return e
	}
	e.Cost = cost.Uint64()
	m.Gas -= e.Cost
	if newWords > curWords {
		m.Mem = append(m.Mem, make([]byte, (newWords-curWords)*32)...)
		m.MemGrew = true
	}
	e.MemBytes = uint64(len(m.Mem))
	m.cur = e
	return e
}

func boolWord(b bool) *big.Int {
	if b {
		return big.NewInt(1)
	}
	return new(big.Int)
}

// slicePad returns data[off:off+size] with zero padding beyond the end.
func slicePad(data []byte, off *big.Int, size uint64) []byte {
	out := make([]byte, size)
	if off.IsUint64() {
		o := off.Uint64()
		if o < uint64(len(data)) {
			copy(out, data[o:])
		}
	}
	return out
}

// Finish executes the instruction described by the last Begin.
func (m *Machine) Finish() {
	e := m.cur
	m.ExecCond = 0
	if m.State != Running {
		return
	}
	if e.Pre != 0 {
		m.State = Exceptional
		m.Gas = 0
		return
	}
	if e.Uncovered {
		m.State = OutOfModel
		return
	}
	m.Steps++
	op := e.Op
	info := &Table[op]
	// pop operands: a[0] is the top
	a := make([]*big.Int, info.Pops)
	for i := range a {
		a[i] = m.back(i)
	}
	keep := m.Stack[:len(m.Stack)-info.Pops]
	push := func(x *big.Int) { m.Stack = append(keep, x) }
	next := m.PC + 1
	switch {
	case op == 0x00:
		m.State = Stop
		return
	case op == 0x01:
		push(wrap(new(big.Int).Add(a[0], a[1])))
	case op == 0x02:
		push(wrap(new(big.Int).Mul(a[0], a[1])))
	case op == 0x03:
		push(wrap(new(big.Int).Sub(a[0], a[1])))
	case op == 0x04:
		if a[1].Sign() == 0 {
			push(new(big.Int))
		} else {
			push(new(big.Int).Quo(a[0], a[1]))
		}
	case op == 0x05: // SDIV: truncated signed division; x/0 = 0
		x, y := signed(a[0]), signed(a[1])
		if y.Sign() == 0 {
			push(new(big.Int))
		} else {
			push(wrap(new(big.Int).Quo(x, y))) // Quo truncates toward zero
		}
	case op == 0x06:
		if a[1].Sign() == 0 {
			push(new(big.Int))
		} else {
			push(new(big.Int).Rem(a[0], a[1]))
		}
	case op == 0x07: // SMOD: sign of the dividend
		x, y := signed(a[0]), signed(a[1])
		if y.Sign() == 0 {
			push(new(big.Int))
		} else {
			push(wrap(new(big.Int).Rem(x, y))) // Rem has the sign of x
		}
	case op == 0x08:
		if a[2].Sign() == 0 {
			push(new(big.Int))
		} else {
			s := new(big.Int).Add(a[0], a[1])
			push(s.Rem(s, a[2]))
		}
	case op == 0x09:
		if a[2].Sign() == 0 {
			push(new(big.Int))
		} else {
			s := new(big.Int).Mul(a[0], a[1])
			push(s.Rem(s, a[2]))
		}
	case op == 0x0a:
		push(new(big.Int).Exp(a[0], a[1], two256))
	case op == 0x0b: // SIGNEXTEND
		if a[0].Cmp(b31) < 0 {
			t := uint(a[0].Uint64()*8 + 7)
			lowMod := new(big.Int).Lsh(one, t+1)
			low := new(big.Int).Rem(a[1], lowMod)
			if a[1].Bit(int(t)) == 1 {
				low.Add(low, new(big.Int).Sub(two256, lowMod))
			}
			push(low)
		} else {
			push(new(big.Int).Set(a[1]))
		}
	case op == 0x10:
		push(boolWord(a[0].Cmp(a[1]) < 0))
	case op == 0x11:
		push(boolWord(a[0].Cmp(a[1]) > 0))
	case op == 0x12:
		push(boolWord(signed(a[0]).Cmp(signed(a[1])) < 0))
	case op == 0x13:
		push(boolWord(signed(a[0]).Cmp(signed(a[1])) > 0))
	case op == 0x14:
		push(boolWord(a[0].Cmp(a[1]) == 0))
	case op == 0x15:
		push(boolWord(a[0].Sign() == 0))
	case op == 0x16:
		push(new(big.Int).And(a[0], a[1]))
	case op == 0x17:
		push(new(big.Int).Or(a[0], a[1]))
	case op == 0x18:
		push(new(big.Int).Xor(a[0], a[1]))
	case op == 0x19:
		push(new(big.Int).Sub(maxU, a[0]))
	case op == 0x1a: // BYTE: index 0 is the most significant byte
		if a[0].Cmp(b32) < 0 {
			sh := uint(8 * (31 - a[0].Uint64()))
			v := new(big.Int).Rsh(a[1], sh)
			push(v.Rem(v, b256))
		} else {
			push(new(big.Int))
		}
	case op == 0x1b: // SHL(shift, value)
		if a[0].Cmp(b256) >= 0 {
			push(new(big.Int))
		} else {
			push(wrap(new(big.Int).Mul(a[1], new(big.Int).Lsh(one, uint(a[0].Uint64())))))
		}
	case op == 0x1c: // SHR
		if a[0].Cmp(b256) >= 0 {
			push(new(big.Int))
		} else {
			push(new(big.Int).Quo(a[1], new(big.Int).Lsh(one, uint(a[0].Uint64()))))
		}
	case op == 0x1d: // SAR: floor(signed value / 2^shift)
		v := signed(a[1])
		if a[0].Cmp(b256) >= 0 {
			if v.Sign() < 0 {
				push(new(big.Int).Set(maxU))
			} else {
				push(new(big.Int))
			}
		} else {
			// Div is Euclidean: for a positive divisor it rounds toward -inf
			push(wrap(new(big.Int).Div(v, new(big.Int).Lsh(one, uint(a[0].Uint64())))))
		}
	case op == 0x20:
		var data []byte
		if a[1].Sign() > 0 {
			o, n := a[0].Uint64(), a[1].Uint64()
			data = m.Mem[o : o+n]
		}
		push(new(big.Int).SetBytes(refhash.Keccak256(data)))
	case op == 0x35:
		push(new(big.Int).SetBytes(slicePad(m.Input, a[0], 32)))
	case op == 0x36:
		push(big.NewInt(int64(len(m.Input))))
	case op == 0x37, op == 0x39:
		src := m.Input
		if op == 0x39 {
			src = m.Code
		}
		if a[2].Sign() > 0 {
			o, n := a[0].Uint64(), a[2].Uint64()
			copy(m.Mem[o:o+n], slicePad(src, a[1], n))
		}
		m.Stack = keep
	case op == 0x38:
		push(big.NewInt(int64(len(m.Code))))
	case op == 0x3d:
		push(new(big.Int)) // no call was made: the return data buffer is empty
	case op == 0x3e:
		// EIP-211: start+length beyond the buffer (empty here) is an exceptional halt
		if new(big.Int).Add(a[1], a[2]).Sign() > 0 {
			m.ExecCond = CondReturnData
			m.State = Exceptional
			m.Gas = 0
			m.Stack = keep
			return
		}
		m.Stack = keep
	case op == 0x50:
		m.Stack = keep
	case op == 0x51:
		o := a[0].Uint64()
		push(new(big.Int).SetBytes(m.Mem[o : o+32]))
	case op == 0x52:
		o := a[0].Uint64()
		a[1].FillBytes(m.Mem[o : o+32])
		m.Stack = keep
	case op == 0x53:
		o := a[0].Uint64()
		m.Mem[o] = byte(new(big.Int).Rem(a[1], b256).Uint64())
		m.Stack = keep
	case op == 0x56, op == 0x57:
		m.Stack = keep
		taken := op == 0x56 || a[1].Sign() != 0
		if taken {
			if !a[0].IsUint64() || !m.jumpdest[a[0].Uint64()] {
				m.ExecCond = CondBadJump
				m.State = Exceptional
				m.Gas = 0
				return
			}
			next = a[0].Uint64()
			m.JumpTaken = true
		} else {
			m.JumpiNotTaken = true
		}
	case op == 0x58:
		push(new(big.Int).SetUint64(m.PC))
	case op == 0x59:
		push(big.NewInt(int64(len(m.Mem))))
	case op == 0x5a:
		push(new(big.Int).SetUint64(m.Gas)) // gas after this instruction's own charge
	case op == 0x5b:
	case op >= 0x60 && op <= 0x7f:
		n := uint64(op) - 0x5f
		imm := make([]byte, n)
		if m.PC+1 < uint64(len(m.Code)) {
			copy(imm, m.Code[m.PC+1:])
		}
		if m.PC+1+n > uint64(len(m.Code)) {
			m.TruncatedPush = true
		}
		push(new(big.Int).SetBytes(imm))
		next = m.PC + 1 + n
	case op >= 0x80 && op <= 0x8f:
		n := int(op) - 0x7f
		m.Stack = append(m.Stack, new(big.Int).Set(m.back(n-1)))
	case op >= 0x90 && op <= 0x9f:
		n := int(op) - 0x8f
		top, other := len(m.Stack)-1, len(m.Stack)-1-n
		m.Stack[top], m.Stack[other] = m.Stack[other], m.Stack[top]
	case op == 0xf3, op == 0xfd:
		if a[1].Sign() > 0 {
			o, n := a[0].Uint64(), a[1].Uint64()
			m.Ret = append([]byte{}, m.Mem[o:o+n]...)
		}
		m.Stack = keep
		if op == 0xf3 {
			m.State = Return
		} else {
			m.State = Revert
		}
		return
	default:
		panic("refevm: covered opcode without semantics: " + Name(op))
	}
	m.PC = next
}

// Operands returns copies of the operands (top first) the next instruction
// would consume; nil if there are too few.
func (m *Machine) Operands() []*big.Int {
	if m.State != Running {
		return nil
	}
	info := &Table[m.opAt(m.PC)]
	if !info.Defined || len(m.Stack) < info.Pops {
		return nil
	}
	out := make([]*big.Int, info.Pops)
	for i := range out {
		out[i] = new(big.Int).Set(m.back(i))
	}
	return out
}

// GasLeft is the gas the frame hands back: what remains after a normal halt or
// a REVERT, nothing after an exceptional halt.
func (m *Machine) GasLeft() uint64 {
	if m.State == Exceptional {
		return 0
	}
	return m.Gas
}

// Run executes to the end without an observer (used by generators to learn the
// exact gas a program needs, and by the self-test).
func (m *Machine) Run(maxSteps int) {
	for i := 0; i < maxSteps && m.State == Running; i++ {
		m.Begin()
		m.Finish()
	}
}
