package refpow

import (
	"encoding/hex"
	"testing"
)

// Vector of go-ethereum's TestHashimoto (1 KiB cache, 32 KiB dataset, zero seed).
func TestHashimotoVector(t *testing.T) {
	e := NewEthash(1024, 32*1024, make([]byte, 32))
	mix, res := e.Hashimoto(unhex("c9149cc0386e689d789a1c2f3d5d169a61a6218ed30e74414dc736e442ef3d1f"), 0)
	if hex.EncodeToString(mix) != "e4073cffaef931d37117cefd9afd27ea0f1cad6a981dd2605c4a1ac97c519800" {
		t.Fatalf("mix %x", mix)
	}
	if hex.EncodeToString(res) != "d3539235ee2e6f8db665c0a72169f55b7f6c605712330b778ec3944f0eb5a557" {
		t.Fatalf("result %x", res)
	}
}

func TestSizes(t *testing.T) {
	// first entries of the published size tables
	if EthCacheSize(0) != 16776896 || EthCacheSize(1) != 16907456 {
		t.Fatalf("cache sizes %d %d", EthCacheSize(0), EthCacheSize(1))
	}
	if EthFullSize(0) != 1073739904 || EthFullSize(1) != 1082130304 || EthFullSize(4) != 1107293056 {
		t.Fatalf("full sizes %d %d", EthFullSize(0), EthFullSize(1))
	}
}

func TestMainnetBlock(t *testing.T) {
	if testing.Short() {
		t.Skip()
	}
	h := MainnetHeader()
	e := NewEthashEpoch(3311058 / EthEpochLength)
	ok, pow, mix := Accept(h, 1, e)
	if !ok {
		t.Fatalf("real main-network block rejected: pow %x mix %x", pow, mix)
	}
	h.Nonce[7] ^= 1
	if ok, _, _ := Accept(h, 1, e); ok {
		t.Fatal("altered nonce accepted")
	}
}
