package refpow

import (
	"encoding/hex"
	"math/big"
)

func unhex(s string) []byte {
	b, err := hex.DecodeString(s)
	if err != nil {
		panic(err)
	}
	return b
}

// MainnetHeader is block 3311058, a real Ethereum main-network block (epoch 110).
func MainnetHeader() *Header {
	h := &Header{
		Difficulty: big.NewInt(167925187834220), Number: big.NewInt(3311058),
		GasLimit: 4015682, GasUsed: 0, Time: big.NewInt(1488928920), Extra: unhex("7777772e62772e636f6d"),
	}
	copy(h.ParentHash[:], unhex("d783efa4d392943503f28438ad5830b2d5964696ffc285f338585e9fe0a37a05"))
	copy(h.UncleHash[:], unhex("1dcc4de8dec75d7aab85b567b6ccd41ad312451b948a7413f0a142fd40d49347"))
	copy(h.Coinbase[:], unhex("c0ea08a2d404d3172d2add29a45be56da40e2949"))
	copy(h.Root[:], unhex("77d14e10470b5850332524f8cd6f69ad21f070ce92dca33ab2858300242ef2f1"))
	copy(h.TxHash[:], unhex("56e81f171bcc55a6ff8345e692c0f86e5b48e01b996cadc001622fb5e363b421"))
	copy(h.ReceiptHash[:], unhex("56e81f171bcc55a6ff8345e692c0f86e5b48e01b996cadc001622fb5e363b421"))
	copy(h.MixDigest[:], unhex("3e140b0784516af5e5ec6730f2fb20cca22f32be399b9e4ad77d32541f798cd0"))
	copy(h.Nonce[:], unhex("f400cd0006070c49"))
	return h
}
