// Package refpow is an independent evaluation of the proof-of-work seal
// predicate of aquachain: fork-schedule → header version, header / seal-free
// hashes (own RLP + x/crypto Keccak / argon2id), the argon2id seal hash for
// versions 2..4, an ethash (version 1) light evaluator written from the public
// ethash specification, and the acceptance predicate
//
//	mix == expected  ∧  difficulty > 0  ∧  int(hash) ≤ ⌊2^256 / difficulty⌋.
//
// Nothing here imports the repository under test.
package refpow

import (
	"encoding/binary"
	"math/big"

	"golang.org/x/crypto/argon2"
	"golang.org/x/crypto/sha3"
	"verif/internal/ref/refrlp"
)

// ---------------------------------------------------------------------------
// fork schedule → version

// Schedule holds the heights of the three version-changing forks (nil = never).
type Schedule struct{ HF5, HF8, HF9 *big.Int }

// Version is the header version at a height: the highest activated of
// HF9 → 4, HF8 → 3, HF5 → 2, else 1.
func Version(s Schedule, height *big.Int) int {
	on := func(f *big.Int) bool { return f != nil && height.Cmp(f) >= 0 }
	switch {
	case on(s.HF9):
		return 4
	case on(s.HF8):
		return 3
	case on(s.HF5):
		return 2
	}
	return 1
}

// ---------------------------------------------------------------------------
// hashes

// ArgonMemKiB is the argon2id memory parameter of a header version (2..4).
func ArgonMemKiB(version int) uint32 {
	switch version {
	case 2:
		return 1
	case 3:
		return 16
	case 4:
		return 32
	}
	panic("refpow: no argon2id parameters for this version")
}

func Keccak256(data ...[]byte) []byte {
	h := sha3.NewLegacyKeccak256()
	for _, d := range data {
		h.Write(d)
	}
	return h.Sum(nil)
}

// Keccak512 is the legacy (pre-NIST padding) Keccak-512 used by ethash.
func Keccak512(data []byte) []byte { return keccak512(data) }

func keccak512(data []byte) []byte {
	h := sha3.NewLegacyKeccak512()
	h.Write(data)
	return h.Sum(nil)
}

// VersionHash is the fork-selected 32-byte hash: Keccak-256 for version 1,
// argon2id(time=1, lanes=1, salt empty, 32 bytes out) with 1/16/32 KiB otherwise.
func VersionHash(version int, data []byte) []byte {
	if version == 1 {
		return Keccak256(data)
	}
	return argon2.IDKey(data, nil, 1, ArgonMemKiB(version), 1, 32)
}

// Header is the content of a block header (without the version, which is never
// serialised).
type Header struct {
	ParentHash  [32]byte
	UncleHash   [32]byte
	Coinbase    [20]byte
	Root        [32]byte
	TxHash      [32]byte
	ReceiptHash [32]byte
	Bloom       [256]byte
	Difficulty  *big.Int
	Number      *big.Int
	GasLimit    uint64
	GasUsed     uint64
	Time        *big.Int
	Extra       []byte
	MixDigest   [32]byte
	Nonce       [8]byte // big-endian nonce as stored in the header
}

func (h *Header) items(sealed bool) *refrlp.Item {
	its := []*refrlp.Item{
		refrlp.S(h.ParentHash[:]), refrlp.S(h.UncleHash[:]), refrlp.S(h.Coinbase[:]), refrlp.S(h.Root[:]),
		refrlp.S(h.TxHash[:]), refrlp.S(h.ReceiptHash[:]), refrlp.S(h.Bloom[:]),
		refrlp.B(h.Difficulty), refrlp.B(h.Number), refrlp.U(h.GasLimit), refrlp.U(h.GasUsed), refrlp.B(h.Time),
		refrlp.S(h.Extra),
	}
	if sealed {
		its = append(its, refrlp.S(h.MixDigest[:]), refrlp.S(h.Nonce[:]))
	}
	return refrlp.L(its...)
}

// Hashable is false when the header has a field RLP cannot carry (a negative
// integer); such a header has no hash.
func (h *Header) Hashable() bool {
	return h.Difficulty != nil && h.Number != nil && h.Time != nil &&
		h.Difficulty.Sign() >= 0 && h.Number.Sign() >= 0 && h.Time.Sign() >= 0
}

// HeaderHash is the block/header hash: the fork-selected hash of the RLP of all
// 15 serialised fields.
func (h *Header) HeaderHash(version int) []byte {
	return VersionHash(version, refrlp.Encode(h.items(true)))
}

// SealHash is the seal-free header hash (first 13 fields). Keccak-256 for every
// version except 3, where the node hashes with argon2id-16KiB (pinned
// behaviour of the implementation, recorded as an assumption of the check).
func (h *Header) SealHash(version int) []byte {
	enc := refrlp.Encode(h.items(false))
	if version == 3 {
		return VersionHash(3, enc)
	}
	return Keccak256(enc)
}

// SealInput is sealHash ‖ nonce (little endian).
func SealInput(sealHash []byte, nonce uint64) []byte {
	in := make([]byte, 40)
	copy(in, sealHash)
	binary.LittleEndian.PutUint64(in[32:], nonce)
	return in
}

// ArgonPow is the proof-of-work value of versions 2..4.
func ArgonPow(version int, sealHash []byte, nonce uint64) []byte {
	return VersionHash(version, SealInput(sealHash, nonce))
}

// ---------------------------------------------------------------------------
// predicate

var two256 = new(big.Int).Lsh(big.NewInt(1), 256)

// Target is ⌊2^256 / difficulty⌋ (difficulty > 0).
func Target(difficulty *big.Int) *big.Int { return new(big.Int).Div(two256, difficulty) }

// Meets reports int(hash) ≤ ⌊2^256/difficulty⌋ with difficulty > 0.
func Meets(hash []byte, difficulty *big.Int) bool {
	if difficulty == nil || difficulty.Sign() <= 0 {
		return false
	}
	return new(big.Int).SetBytes(hash).Cmp(Target(difficulty)) <= 0
}

// MaxDifficulty is the largest difficulty a hash value satisfies: ⌊2^256/h⌋
// (nil for h = 0, which satisfies every difficulty up to 2^256).
func MaxDifficulty(hash []byte) *big.Int {
	h := new(big.Int).SetBytes(hash)
	if h.Sign() == 0 {
		return nil
	}
	return new(big.Int).Div(two256, h)
}

// Accept is the whole predicate for a sealed header of the given version.
// For version 1 the caller supplies the ethash evaluator's parameters through
// an *Ethash value; for 2..4 eth may be nil.
func Accept(h *Header, version int, eth *Ethash) (ok bool, pow []byte, wantMix []byte) {
	if h.Difficulty == nil || h.Difficulty.Sign() <= 0 {
		return false, nil, nil
	}
	nonce := binary.BigEndian.Uint64(h.Nonce[:])
	sh := h.SealHash(version)
	if version == 1 {
		wantMix, pow = eth.Hashimoto(sh, nonce)
	} else {
		wantMix, pow = make([]byte, 32), ArgonPow(version, sh, nonce)
	}
	if string(wantMix) != string(h.MixDigest[:]) {
		return false, pow, wantMix
	}
	return Meets(pow, h.Difficulty), pow, wantMix
}

// ---------------------------------------------------------------------------
// ethash (version 1), light evaluation, from the ethash specification
// (https://ethereum.org/en/developers/docs/consensus-mechanisms/pow/mining-algorithms/ethash/):
// mkcache, calc_dataset_item, hashimoto_light. Rows are [16]uint32 little endian.

const (
	ethWordBytes      = 4
	ethDatasetInit    = 1 << 30
	ethDatasetGrowth  = 1 << 23
	ethCacheInit      = 1 << 24
	ethCacheGrowth    = 1 << 17
	EthEpochLength    = 30000
	ethMixBytes       = 128
	ethHashBytes      = 64
	ethDatasetParents = 256
	ethCacheRounds    = 3
	ethAccesses       = 64
	fnvPrime          = 0x01000193
)

func fnv(a, b uint32) uint32 { return a*fnvPrime ^ b }

func isPrime(n uint64) bool {
	return new(big.Int).SetUint64(n).ProbablyPrime(20)
}

// EthCacheSize / EthFullSize are the spec's get_cache_size / get_full_size.
func EthCacheSize(epoch uint64) uint64 {
	sz := uint64(ethCacheInit) + ethCacheGrowth*epoch - ethHashBytes
	for !isPrime(sz / ethHashBytes) {
		sz -= 2 * ethHashBytes
	}
	return sz
}

func EthFullSize(epoch uint64) uint64 {
	sz := uint64(ethDatasetInit) + ethDatasetGrowth*epoch - ethMixBytes
	for !isPrime(sz / ethMixBytes) {
		sz -= 2 * ethMixBytes
	}
	return sz
}

// EthSeed is the epoch seed: Keccak-256 iterated epoch times over 32 zero bytes.
func EthSeed(epoch uint64) []byte {
	s := make([]byte, 32)
	for i := uint64(0); i < epoch; i++ {
		s = Keccak256(s)
	}
	return s
}

type row [16]uint32

func rowFrom(b []byte) (r row) {
	for i := range r {
		r[i] = binary.LittleEndian.Uint32(b[4*i:])
	}
	return
}

func (r row) bytes() []byte {
	b := make([]byte, 64)
	for i, v := range r {
		binary.LittleEndian.PutUint32(b[4*i:], v)
	}
	return b
}

// Ethash is a light evaluator for one epoch.
type Ethash struct {
	cache    []row
	fullSize uint64
}

// NewEthash builds the verification cache of cacheBytes bytes from seed.
func NewEthash(cacheBytes, fullSize uint64, seed []byte) *Ethash {
	n := int(cacheBytes / ethHashBytes)
	o := make([][]byte, n)
	o[0] = keccak512(seed)
	for i := 1; i < n; i++ {
		o[i] = keccak512(o[i-1])
	}
	x := make([]byte, 64)
	for r := 0; r < ethCacheRounds; r++ {
		for i := 0; i < n; i++ {
			v := int(binary.LittleEndian.Uint32(o[i]) % uint32(n))
			a, b := o[(i-1+n)%n], o[v]
			for k := range x {
				x[k] = a[k] ^ b[k]
			}
			o[i] = keccak512(x)
		}
	}
	e := &Ethash{cache: make([]row, n), fullSize: fullSize}
	for i := range o {
		e.cache[i] = rowFrom(o[i])
	}
	return e
}

// NewEthashEpoch uses the specification's sizes for the epoch.
func NewEthashEpoch(epoch uint64) *Ethash {
	return NewEthash(EthCacheSize(epoch), EthFullSize(epoch), EthSeed(epoch))
}

// DatasetItem is the spec's calc_dataset_item(cache, i) as 64 bytes: item i of
// the full (mining) dataset of this evaluator's epoch.
func (e *Ethash) DatasetItem(i uint32) []byte { return e.datasetItem(i).bytes() }

// Items is the number of 64-byte items of the full dataset.
func (e *Ethash) Items() uint32 { return uint32(e.fullSize / ethHashBytes) }

func (e *Ethash) datasetItem(i uint32) row {
	n := uint32(len(e.cache))
	mix := e.cache[i%n]
	mix[0] ^= i
	mix = rowFrom(keccak512(mix.bytes()))
	for j := uint32(0); j < ethDatasetParents; j++ {
		ci := fnv(i^j, mix[j%16])
		p := e.cache[ci%n]
		for k := range mix {
			mix[k] = fnv(mix[k], p[k])
		}
	}
	return rowFrom(keccak512(mix.bytes()))
}

// Hashimoto returns (mix digest, result) for a seal-free hash and nonce.
func (e *Ethash) Hashimoto(sealHash []byte, nonce uint64) (mixDigest, result []byte) {
	const w = ethMixBytes / ethWordBytes         // 32
	const mixHashes = ethMixBytes / ethHashBytes // 2
	n := uint32(e.fullSize / ethHashBytes)
	s := keccak512(SealInput(sealHash, nonce))
	sw := rowFrom(s)
	var mix [w]uint32
	for i := range mix {
		mix[i] = sw[i%16]
	}
	for i := uint32(0); i < ethAccesses; i++ {
		p := fnv(i^sw[0], mix[i%w]) % (n / mixHashes) * mixHashes
		var nd [w]uint32
		for j := uint32(0); j < mixHashes; j++ {
			it := e.datasetItem(p + j)
			copy(nd[16*j:], it[:])
		}
		for k := range mix {
			mix[k] = fnv(mix[k], nd[k])
		}
	}
	mixDigest = make([]byte, 32)
	for i := 0; i < w; i += 4 {
		c := fnv(fnv(fnv(mix[i], mix[i+1]), mix[i+2]), mix[i+3])
		binary.LittleEndian.PutUint32(mixDigest[i:], c) // i/4 words → byte offset i
	}
	return mixDigest, Keccak256(s, mixDigest)
}
