// Package refhash: Keccak-256 straight from x/crypto (not the repo's crypto package).
package refhash

import "golang.org/x/crypto/sha3"

func Keccak256(data ...[]byte) []byte {
	h := sha3.NewLegacyKeccak256()
	for _, d := range data {
		h.Write(d)
	}
	return h.Sum(nil)
}
