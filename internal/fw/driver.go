package fw

import (
	"encoding/binary"
	"encoding/json"
	"fmt"
	"os"
	"os/exec"
	"path/filepath"
	"regexp"
	"sort"
	"strings"
	"sync"
	"syscall"
	"time"
)

// VerifDir is the root of the verification tree (where MANIFEST.json lives).
func VerifDir() string {
	if d := os.Getenv("VERIF_DIR"); d != "" {
		return d
	}
	return "/verif"
}

// OutDir is where evidence and replays are written: VERIF_OUT if set (runs against
// scratch worktrees with seeded changes must not overwrite the real evidence),
// else the verification tree itself.
func OutDir() string {
	if d := os.Getenv("VERIF_OUT"); d != "" {
		return d
	}
	return VerifDir()
}

// BinDir is where the vcheck-<variant> binaries live.
func BinDir() string {
	if d := os.Getenv("VERIF_BIN"); d != "" {
		if filepath.IsAbs(d) {
			return d
		}
		return filepath.Join(VerifDir(), d)
	}
	return filepath.Join(VerifDir(), ".bin")
}

type knownFinding struct {
	Property string `json:"property"`
	ID       string `json:"id"`
	Match    struct {
		Clause string `json:"clause"`
		Op     string `json:"op"`
		Cause  string `json:"cause"` // regexp, anchored
	} `json:"match"`
	Text string `json:"text"`
}

type knownFile struct {
	Findings []knownFinding `json:"findings"`
	Fixed    []string       `json:"fixed"`
}

func loadKnown() knownFile {
	var k knownFile
	b, err := os.ReadFile(filepath.Join(VerifDir(), "known_findings.json"))
	if err != nil {
		return k
	}
	if err := json.Unmarshal(b, &k); err != nil {
		fmt.Fprintln(os.Stderr, "known_findings.json:", err)
		os.Exit(2)
	}
	return k
}

func (k *knownFinding) matches(v *Violation) bool {
	if k.Property != v.Property {
		return false
	}
	if k.Match.Clause != "" && k.Match.Clause != v.Clause {
		return false
	}
	if k.Match.Op != "" && k.Match.Op != v.Op {
		return false
	}
	if k.Match.Cause != "" {
		re, err := regexp.Compile("^(?:" + k.Match.Cause + ")$")
		if err != nil || !re.MatchString(v.Cause) {
			return false
		}
	}
	return true
}

type legSummary struct {
	Name         string `json:"name"`
	Variant      string `json:"variant"`
	Batches      int    `json:"batches"`
	Evaluations  int    `json:"evaluations"`
	Died         int    `json:"children_died"`
	TimedOut     int    `json:"children_timed_out"`
	RaceReports  int    `json:"race_reports"`
	RaceDistinct int    `json:"race_reports_distinct"`
}

// RunDriver runs every leg of a property, merges the child results, applies the
// known-findings filter, writes the evidence file and returns the exit code.
func RunDriver(propID, tier string, seed uint64, only *Violation) int {
	p := Lookup(propID)
	if p == nil {
		fmt.Fprintln(os.Stderr, "unknown property", propID)
		return 2
	}
	start := time.Now()
	vdir := OutDir()
	scratch, err := os.MkdirTemp("", "verif-"+propID+"-")
	if err != nil {
		fmt.Fprintln(os.Stderr, err)
		return 2
	}
	defer os.RemoveAll(scratch)

	legs := p.Legs(tier)
	merged := map[string]int{}
	nontrivial := map[uint64]struct{}{}
	var samples []interface{}
	var violations []Violation
	vioCounts := map[string]int{}
	extra := map[string]interface{}{}
	evals, inconcl := 0, 0
	var legSums []legSummary
	broken := []string{}

	for _, leg := range legs {
		if only != nil && only.Leg != leg.Name {
			continue
		}
		ls := legSummary{Name: leg.Name, Variant: leg.Variant, Batches: leg.Batches}
		bin := filepath.Join(BinDir(), "vcheck-"+leg.Variant)
		if _, err := os.Stat(bin); err != nil {
			fmt.Fprintf(os.Stderr, "missing binary %s (run tools/build.sh)\n", bin)
			return 2
		}
		par := leg.Parallel
		if par <= 0 {
			par = 16
		}
		timeout := leg.Timeout
		if timeout == 0 {
			timeout = 20 * time.Minute
		}
		type outcome struct {
			batch    int
			err      error
			timedOut bool
		}
		outs := make([]outcome, leg.Batches)
		sem := make(chan struct{}, par)
		var wg sync.WaitGroup
		for b := 0; b < leg.Batches; b++ {
			if only != nil && only.Batch != b {
				continue
			}
			wg.Add(1)
			sem <- struct{}{}
			go func(b int) {
				defer wg.Done()
				defer func() { <-sem }()
				args := []string{"child", propID, leg.Name, fmt.Sprint(b), fmt.Sprint(leg.Batches), tier, fmt.Sprint(seed), scratch}
				if only != nil {
					args = append(args, only.Case)
				}
				cmd := exec.Command(bin, args...)
				outf, _ := os.Create(filepath.Join(scratch, fmt.Sprintf("%s-%03d.out", leg.Name, b)))
				cmd.Stdout, cmd.Stderr = outf, outf
				// children are mostly sequential case loops: 16 of them with 16 Ps
				// each only thrash the scheduler and the GC; legs that explore
				// schedules set GOMAXPROCS themselves through Env/EnvFor
				cmd.Env = append(os.Environ(), "GOMAXPROCS=4")
				cmd.Env = append(cmd.Env, leg.Env...)
				if leg.EnvFor != nil {
					cmd.Env = append(cmd.Env, leg.EnvFor(b)...)
				}
				if leg.Variant == "race" {
					cmd.Env = append(cmd.Env, "GORACE=halt_on_error=0 log_path="+filepath.Join(scratch, fmt.Sprintf("race-%s-%03d", leg.Name, b)))
				}
				cmd.SysProcAttr = &syscall.SysProcAttr{Setpgid: true}
				err := cmd.Start()
				if err == nil {
					done := make(chan error, 1)
					go func() { done <- cmd.Wait() }()
					select {
					case err = <-done:
					case <-time.After(timeout):
						// watchdog: ask for a goroutine dump, then kill the group
						syscall.Kill(-cmd.Process.Pid, syscall.SIGQUIT)
						select {
						case <-done:
						case <-time.After(10 * time.Second):
							syscall.Kill(-cmd.Process.Pid, syscall.SIGKILL)
							<-done
						}
						outs[b].timedOut = true
					}
				}
				outf.Close()
				outs[b].batch, outs[b].err = b, err
			}(b)
		}
		wg.Wait()

		for b := 0; b < leg.Batches; b++ {
			if only != nil && only.Batch != b {
				continue
			}
			resPath, ntPath, logPath := childPaths(scratch, leg.Name, b)
			outPath := filepath.Join(scratch, fmt.Sprintf("%s-%03d.out", leg.Name, b))
			var cr ChildResult
			rb, rerr := os.ReadFile(resPath)
			if rerr == nil {
				rerr = json.Unmarshal(rb, &cr)
			}
			if rerr != nil || !cr.Done {
				// the child died (panic in another goroutine, log.Crit -> os.Exit,
				// fatal error, OOM) or was stopped by the watchdog
				id, input, notes := lastOpenCase(logPath)
				tail := tailFile(outPath, 12000)
				if outs[b].timedOut {
					ls.TimedOut++
					inconcl++
					merged["inconclusive:watchdog"]++
					// keep the dump for inspection
					keep := filepath.Join(vdir, "replays", fmt.Sprintf("%s-%s-b%d-watchdog.txt", propID, leg.Name, b))
					os.MkdirAll(filepath.Dir(keep), 0o755)
					os.WriteFile(keep, []byte(fmt.Sprintf("case=%s\ninput=%s\nnotes=%v\n\n%s", id, input, notes, tail)), 0o644)
					broken = append(broken, fmt.Sprintf("leg %s batch %d stopped by watchdog in case %q (inconclusive; dump: %s)", leg.Name, b, id, keep))
					continue
				}
				ls.Died++
				if id == "" {
					broken = append(broken, fmt.Sprintf("leg %s batch %d died outside any case: %v\n%s", leg.Name, b, outs[b].err, tailFile(outPath, 3000)))
					continue
				}
				var in interface{}
				if json.Unmarshal([]byte(input), &in) != nil {
					in = input
				}
				v := Violation{Property: propID, Clause: "process_died", Op: "case", Cause: classifyDeath(tail),
					Detail: fmt.Sprintf("child process died while executing the case (exit: %v)\nlast notes: %v\n%s", outs[b].err, notes, tail),
					Case:   id, Leg: leg.Name, Batch: b, NBatch: leg.Batches, Tier: tier, Seed: seed, Input: in}
				violations = append(violations, v)
				vioCounts[v.Sig()]++
				// still merge what the log tells us
				continue
			}
			evals += cr.Evaluations
			ls.Evaluations += cr.Evaluations
			inconcl += cr.Inconclusive
			for k, n := range cr.Counters {
				merged[k] += n
			}
			for _, s := range cr.Samples {
				if len(samples) < 5 {
					samples = append(samples, s)
				}
			}
			violations = append(violations, cr.Violations...)
			for k, n := range cr.VioCounts {
				vioCounts[k] += n
			}
			for k, v := range cr.Extra {
				if f, ok := v.(float64); ok {
					if old, ok2 := extra[k].(float64); ok2 {
						extra[k] = old + f
						continue
					}
				}
				extra[k] = v
			}
			if nb, err := os.ReadFile(ntPath); err == nil {
				for i := 0; i+8 <= len(nb); i += 8 {
					nontrivial[binary.LittleEndian.Uint64(nb[i:])] = struct{}{}
				}
			}
			if leg.Variant == "race" {
				reports := collectRaceReports(scratch, fmt.Sprintf("race-%s-%03d", leg.Name, b))
				ls.RaceReports += len(reports)
				seen := map[string]bool{}
				for _, rep := range reports {
					key := raceKey(rep)
					if seen[key] {
						continue
					}
					seen[key] = true
					ls.RaceDistinct++
					inAnchor := false
					for _, a := range p.AnchorFiles {
						if strings.Contains(rep, a) {
							inAnchor = true
							break
						}
					}
					if !inAnchor {
						merged["race_outside_anchor_files"]++
						keep := filepath.Join(vdir, "replays", fmt.Sprintf("%s-race-observation-%s.txt", propID, shortHash(key)))
						os.MkdirAll(filepath.Dir(keep), 0o755)
						os.WriteFile(keep, []byte(rep), 0o644)
						continue
					}
					v := Violation{Property: propID, Clause: "data_race", Op: "race_detector", Cause: raceCause(rep),
						Detail: rep, Leg: leg.Name, Batch: b, NBatch: leg.Batches, Tier: tier, Seed: seed}
					violations = append(violations, v)
					vioCounts[v.Sig()]++
				}
			}
		}
		legSums = append(legSums, ls)
	}

	if only != nil {
		// replay mode: print what the oracle said
		for _, v := range violations {
			fmt.Printf("REPLAY-VIOLATION property=%s clause=%s op=%s cause=%s\n%s\n", v.Property, v.Clause, v.Op, v.Cause, v.Detail)
		}
		if len(violations) == 0 {
			fmt.Println("REPLAY: no violation reproduced")
			return 0
		}
		return 1
	}

	// known-findings filter
	known := loadKnown()
	knownMatched := map[string]int{}
	var fresh []Violation
	freshSig := map[string]bool{}
	for i := range violations {
		v := &violations[i]
		matched := false
		for j := range known.Findings {
			if known.Findings[j].matches(v) {
				knownMatched[known.Findings[j].ID]++
				matched = true
				break
			}
		}
		if !matched {
			if !freshSig[v.Sig()] {
				freshSig[v.Sig()] = true
				fresh = append(fresh, *v)
			}
		}
	}

	// gates
	if p.Gate != nil && len(fresh) == 0 {
		g := p.Gate(tier)
		var keys []string
		for k := range g {
			keys = append(keys, k)
		}
		sort.Strings(keys)
		for _, k := range keys {
			if merged[k] < g[k] {
				broken = append(broken, fmt.Sprintf("observation gate: class %q observed %d times, need >= %d", k, merged[k], g[k]))
			}
		}
	}
	if evals == 0 {
		broken = append(broken, "no case was executed")
	}

	// evidence
	if len(samples) == 0 {
		samples = append(samples, "no sample recorded")
	}
	cov := map[string]interface{}{
		"evaluations":         evals,
		"distinct_nontrivial": len(nontrivial),
		"rule":                p.Rule,
		"samples":             samples,
		"counters":            merged,
		"legs":                legSums,
		"inconclusive":        inconcl,
	}
	if p.Exhaustive != nil {
		cov["exhaustive"] = p.Exhaustive(tier, merged)
	}
	for k, v := range extra {
		if _, exists := cov[k]; !exists {
			cov[k] = v
		}
	}
	if len(knownMatched) > 0 {
		cov["known_findings_matched"] = knownMatched
	}
	if len(broken) > 0 {
		cov["harness_problems"] = broken
	}
	level := p.Level
	if level == "" {
		level = "exploration"
	}
	ev := map[string]interface{}{
		"property_id": propID,
		"tier":        tier,
		"seed":        seed,
		"level":       level,
		"coverage":    cov,
		"assumptions": p.Assumptions,
		"wall_s":      time.Since(start).Seconds(),
		"violations":  len(fresh),
	}
	eb, _ := json.MarshalIndent(ev, "", " ")
	os.MkdirAll(filepath.Join(vdir, "evidence"), 0o755)
	if err := os.WriteFile(filepath.Join(vdir, "evidence", propID+".json"), append(eb, '\n'), 0o644); err != nil {
		fmt.Fprintln(os.Stderr, err)
		return 2
	}

	// report
	fmt.Printf("%s tier=%s seed=%d: %d cases, %d distinct non-trivial, %d inconclusive, %.1fs\n", propID, tier, seed, evals, len(nontrivial), inconcl, time.Since(start).Seconds())
	var ckeys []string
	for k := range merged {
		ckeys = append(ckeys, k)
	}
	sort.Strings(ckeys)
	for _, k := range ckeys {
		fmt.Printf("  observed %-46s %d\n", k, merged[k])
	}
	for _, ls := range legSums {
		if ls.Variant == "race" {
			fmt.Printf("  leg %s: race reports %d (distinct %d)\n", ls.Name, ls.RaceReports, ls.RaceDistinct)
		}
	}
	for j := range known.Findings {
		k := &known.Findings[j]
		if k.Property == propID && knownMatched[k.ID] > 0 {
			fmt.Printf("KNOWN-FINDING: property=%s %s [%s, matched %d]\n", propID, k.Text, k.ID, knownMatched[k.ID])
		}
	}
	if len(fresh) > 0 {
		os.MkdirAll(filepath.Join(vdir, "replays"), 0o755)
		for i, v := range fresh {
			if i >= 20 {
				fmt.Printf("... %d further distinct violation signatures not written out\n", len(fresh)-i)
				break
			}
			name := fmt.Sprintf("%s-s%d-%s-b%d-%s.json", propID, seed, v.Leg, v.Batch, shortHash(v.Sig()+v.Case))
			path := filepath.Join(vdir, "replays", name)
			vb, err := json.MarshalIndent(v, "", " ")
			if err != nil {
				v.Input = fmt.Sprint(v.Input)
				vb, _ = json.MarshalIndent(v, "", " ")
			}
			os.WriteFile(path, vb, 0o644)
			fmt.Printf("VIOLATION property=%s replay=%s\n", propID, path)
			fmt.Printf("  clause=%s op=%s cause=%s count=%d case=%s\n  %s\n", v.Clause, v.Op, v.Cause, vioCounts[v.Sig()], v.Case, indent(truncate(v.Detail, 1500)))
		}
		return 1
	}
	if len(broken) > 0 {
		for _, b := range broken {
			fmt.Printf("HARNESS-PROBLEM: %s\n", b)
		}
		return 2
	}
	fmt.Printf("%s: held on everything explored\n", propID)
	return 0
}

func indent(s string) string { return strings.ReplaceAll(s, "\n", "\n  ") }

func truncate(s string, n int) string {
	if len(s) > n {
		return s[:n] + "...[truncated]"
	}
	return s
}

func tailFile(path string, n int) string {
	b, err := os.ReadFile(path)
	if err != nil {
		return ""
	}
	// prefer the start of the panic/fatal message if present
	for _, marker := range []string{"panic: ", "fatal error: ", "CRIT", "Crit"} {
		if i := strings.Index(string(b), marker); i >= 0 {
			e := i + n
			if e > len(b) {
				e = len(b)
			}
			return string(b[i:e])
		}
	}
	if len(b) > n {
		b = b[len(b)-n:]
	}
	return string(b)
}

func classifyDeath(tail string) string {
	for _, ln := range strings.Split(tail, "\n") {
		if strings.HasPrefix(ln, "panic: ") || strings.HasPrefix(ln, "fatal error: ") {
			s := ln
			// strip addresses so the signature is stable
			s = regexp.MustCompile(`0x[0-9a-f]+`).ReplaceAllString(s, "0x?")
			s = regexp.MustCompile(`\[[0-9:]+\]`).ReplaceAllString(s, "[?]")
			s = regexp.MustCompile(`[0-9]+`).ReplaceAllString(s, "N")
			if len(s) > 120 {
				s = s[:120]
			}
			return s
		}
	}
	return "exit"
}

func shortHash(s string) string {
	var h uint64 = 1469598103934665603
	for i := 0; i < len(s); i++ {
		h ^= uint64(s[i])
		h *= 1099511628211
	}
	return fmt.Sprintf("%010x", h&0xffffffffff)
}

func collectRaceReports(dir, prefix string) []string {
	matches, _ := filepath.Glob(filepath.Join(dir, prefix+".*"))
	var out []string
	for _, m := range matches {
		b, err := os.ReadFile(m)
		if err != nil {
			continue
		}
		parts := strings.Split(string(b), "==================")
		for _, p := range parts {
			if strings.Contains(p, "WARNING: DATA RACE") {
				out = append(out, strings.TrimSpace(p))
			}
		}
	}
	return out
}

var reLine = regexp.MustCompile(`:[0-9]+( \+0x[0-9a-f]+)?`)
var reAddr = regexp.MustCompile(`0x[0-9a-f]+`)
var reGor = regexp.MustCompile(`goroutine [0-9]+`)

// raceKey: the report with line numbers, addresses and goroutine ids stripped.
func raceKey(rep string) string {
	var fns []string
	for _, ln := range strings.Split(rep, "\n") {
		t := strings.TrimSpace(ln)
		if strings.HasSuffix(t, ")") && strings.Contains(t, "(") && !strings.HasPrefix(t, "/") {
			fns = append(fns, reAddr.ReplaceAllString(t[:strings.LastIndex(t, "(")], ""))
		}
	}
	return strings.Join(fns, ";")
}

func raceCause(rep string) string {
	// first function frame of each of the two accesses
	var firsts []string
	lines := strings.Split(rep, "\n")
	for i, ln := range lines {
		t := strings.TrimSpace(ln)
		if (strings.HasPrefix(t, "Write at") || strings.HasPrefix(t, "Read at") || strings.HasPrefix(t, "Previous write at") || strings.HasPrefix(t, "Previous read at")) && i+1 < len(lines) {
			f := strings.TrimSpace(lines[i+1])
			if j := strings.LastIndex(f, "("); j > 0 {
				f = f[:j]
			}
			firsts = append(firsts, f)
		}
	}
	_ = reLine
	_ = reGor
	return strings.Join(firsts, " vs ")
}
