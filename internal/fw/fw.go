// Package fw is the shared driver/child framework of the runtime-monitoring
// checks: deterministic case streams, per-case logging before execution,
// violation records, counters for the minimum-observation gates, evidence
// writing and the known-findings protocol.
package fw

import (
	"bufio"
	"bytes"
	"encoding/binary"
	"encoding/json"
	"fmt"
	"hash/fnv"
	"os"
	"path/filepath"
	"runtime/debug"
	"sort"
	"strings"
	"sync"
	"time"
)

// ---------------------------------------------------------------------------
// PRNG: splitmix64, seeded from (seed, property, leg, batch, case).

type Rand struct{ s uint64 }

func NewRand(seed uint64, parts ...string) *Rand {
	h := fnv.New64a()
	var b [8]byte
	binary.LittleEndian.PutUint64(b[:], seed)
	h.Write(b[:])
	for _, p := range parts {
		h.Write([]byte{0})
		h.Write([]byte(p))
	}
	r := &Rand{s: h.Sum64()}
	r.Uint64()
	return r
}

func (r *Rand) Uint64() uint64 {
	r.s += 0x9e3779b97f4a7c15
	z := r.s
	z = (z ^ (z >> 30)) * 0xbf58476d1ce4e5b9
	z = (z ^ (z >> 27)) * 0x94d049bb133111eb
	return z ^ (z >> 31)
}

// Intn returns a value in [0,n). n<=0 returns 0.
func (r *Rand) Intn(n int) int {
	if n <= 0 {
		return 0
	}
	return int(r.Uint64() % uint64(n))
}

// Range returns a value in [lo,hi] inclusive.
func (r *Rand) Range(lo, hi int) int {
	if hi <= lo {
		return lo
	}
	return lo + r.Intn(hi-lo+1)
}

func (r *Rand) Bool() bool { return r.Uint64()&1 == 1 }

// Chance is true with probability num/den.
func (r *Rand) Chance(num, den int) bool { return r.Intn(den) < num }

func (r *Rand) Bytes(n int) []byte {
	b := make([]byte, n)
	for i := 0; i < n; i += 8 {
		v := r.Uint64()
		for j := 0; j < 8 && i+j < n; j++ {
			b[i+j] = byte(v >> (8 * uint(j)))
		}
	}
	return b
}

// Fork derives an independent stream.
func (r *Rand) Fork(label string) *Rand { return NewRand(r.Uint64(), label) }

// Perm returns a permutation of 0..n-1.
func (r *Rand) Perm(n int) []int {
	p := make([]int, n)
	for i := range p {
		p[i] = i
	}
	for i := n - 1; i > 0; i-- {
		j := r.Intn(i + 1)
		p[i], p[j] = p[j], p[i]
	}
	return p
}

// ---------------------------------------------------------------------------
// Property registry.

// Leg is one workload of a property, run as Batches child processes of the
// named build variant ("plain", "race", "intpool").
type Leg struct {
	Name     string
	Variant  string
	Batches  int
	Parallel int           // max children at once (0 = 16)
	Timeout  time.Duration // watchdog per child (0 = 20 min); firing is inconclusive
	Env      []string      // extra environment for the children of this leg
	// EnvFor, if set, gives extra per-batch environment (e.g. one opt-in
	// combination per child).
	EnvFor func(batch int) []string
}

type Prop struct {
	ID    string
	Title string
	Level string // evidence level: exploration | fault_enumeration
	Rule  string // how cases are generated and what makes one non-trivial
	// Legs returns the workloads for a tier.
	Legs func(tier string) []Leg
	// Run executes one batch inside a child process.
	Run func(c *Ctx)
	// Gate: counters that must reach the given minimum (per tier) or the run is
	// reported as a broken harness (exit 2), never as "held".
	Gate func(tier string) map[string]int
	// AnchorFiles: path fragments; a race report counts as a violation of this
	// property when one of its frames is in one of these files.
	AnchorFiles []string
	Assumptions []string
	Exhaustive  func(tier string, counters map[string]int) bool
}

var registry = map[string]*Prop{}

func Register(p *Prop) {
	if _, dup := registry[p.ID]; dup {
		panic("duplicate property " + p.ID)
	}
	registry[p.ID] = p
}

func Lookup(id string) *Prop { return registry[id] }

func IDs() []string {
	var ids []string
	for id := range registry {
		ids = append(ids, id)
	}
	sort.Strings(ids)
	return ids
}

// ---------------------------------------------------------------------------
// Violations.

type Violation struct {
	Property string      `json:"property"`
	Clause   string      `json:"clause"`
	Op       string      `json:"op"`
	Cause    string      `json:"cause"`
	Detail   string      `json:"detail"`
	Case     string      `json:"case"`
	Leg      string      `json:"leg"`
	Batch    int         `json:"batch"`
	NBatch   int         `json:"nbatch"`
	Tier     string      `json:"tier"`
	Seed     uint64      `json:"seed"`
	Input    interface{} `json:"input,omitempty"`
}

func (v *Violation) Sig() string { return v.Clause + "|" + v.Op + "|" + v.Cause }

// ---------------------------------------------------------------------------
// Ctx: what a child batch sees.

type Ctx struct {
	Prop   string
	Tier   string
	Seed   uint64
	Leg    string
	Batch  int
	NBatch int
	Dir    string // scratch directory for this run (removed by the parent)

	OnlyCase string // replay filter

	mu         sync.Mutex
	log        *bufio.Writer
	logf       *os.File
	evals      int
	counters   map[string]int
	nontrivial map[uint64]struct{}
	samples    []interface{}
	violations []Violation
	vioSeen    map[string]int
	inconcl    int
	curCase    string
	curInput   interface{}
	extra      map[string]interface{}
}

func (c *Ctx) Quick() bool    { return c.Tier != "thorough" }
func (c *Ctx) Thorough() bool { return c.Tier == "thorough" }

// Rand returns the deterministic stream for a labelled case of this batch.
func (c *Ctx) Rand(labels ...string) *Rand {
	parts := append([]string{c.Prop, c.Leg, fmt.Sprint(c.Batch)}, labels...)
	return NewRand(c.Seed, parts...)
}

// Pick: tier-dependent size.
func (c *Ctx) Pick(quick, thorough int) int {
	if c.Thorough() {
		return thorough
	}
	return quick
}

// Case runs fn as one logged case. The id and input are appended to the child
// log before fn runs, so a process death leaves the offending input as the last
// unmatched line. A panic inside fn is recovered and reported as a violation
// with clause "panic" (every property forbids crashing on its inputs).
// Returns false if the case was skipped by the replay filter.
func (c *Ctx) Case(id string, input interface{}, fn func()) bool {
	if c.OnlyCase != "" && c.OnlyCase != id {
		return false
	}
	c.mu.Lock()
	c.curCase, c.curInput = id, input
	c.evals++
	if c.log != nil {
		b, _ := json.Marshal(input)
		if len(b) > 1<<20 {
			b = append(b[:1<<20], []byte(`..."`)...)
		}
		fmt.Fprintf(c.log, "BEGIN %s %s\n", id, b)
		c.log.Flush()
	}
	c.mu.Unlock()
	func() {
		defer func() {
			if r := recover(); r != nil {
				st := string(debug.Stack())
				c.Violate("panic", "case", firstLine(fmt.Sprint(r)), fmt.Sprintf("panic: %v\n%s", r, trimStack(st)))
			}
		}()
		fn()
	}()
	c.mu.Lock()
	if c.log != nil {
		fmt.Fprintf(c.log, "END %s\n", id)
		c.log.Flush()
	}
	c.curCase, c.curInput = "", nil
	c.mu.Unlock()
	return true
}

// Note appends a free-form line to the child log (flushed at once): use it to
// record each command before sending it to something that may die.
func (c *Ctx) Note(format string, args ...interface{}) {
	c.mu.Lock()
	defer c.mu.Unlock()
	if c.log != nil {
		fmt.Fprintf(c.log, "NOTE "+format+"\n", args...)
		c.log.Flush()
	}
}

func firstLine(s string) string {
	if i := strings.IndexByte(s, '\n'); i >= 0 {
		s = s[:i]
	}
	if len(s) > 160 {
		s = s[:160]
	}
	return s
}

func trimStack(s string) string {
	if len(s) > 6000 {
		s = s[:6000] + "\n...[truncated]"
	}
	return s
}

// Count increments an observation-class counter.
func (c *Ctx) Count(class string) { c.CountN(class, 1) }

func (c *Ctx) CountN(class string, n int) {
	c.mu.Lock()
	c.counters[class] += n
	c.mu.Unlock()
}

// Nontrivial records that a distinct non-trivial case (identified by key) was
// observed.
func (c *Ctx) Nontrivial(key string) {
	h := fnv.New64a()
	h.Write([]byte(key))
	c.mu.Lock()
	c.nontrivial[h.Sum64()] = struct{}{}
	c.mu.Unlock()
}

func (c *Ctx) NontrivialBytes(key []byte) {
	h := fnv.New64a()
	h.Write(key)
	c.mu.Lock()
	c.nontrivial[h.Sum64()] = struct{}{}
	c.mu.Unlock()
}

// Sample keeps up to 3 written-out cases per batch for the evidence file.
func (c *Ctx) Sample(s interface{}) {
	c.mu.Lock()
	if len(c.samples) < 3 {
		c.samples = append(c.samples, s)
	}
	c.mu.Unlock()
}

func (c *Ctx) WantSample() bool {
	c.mu.Lock()
	defer c.mu.Unlock()
	return len(c.samples) < 3
}

// Extra stores an extra key for the evidence coverage object (last write wins
// across batches unless numeric, in which case values are summed).
func (c *Ctx) Extra(key string, v interface{}) {
	c.mu.Lock()
	c.extra[key] = v
	c.mu.Unlock()
}

func (c *Ctx) Inconclusive(why string) {
	c.mu.Lock()
	c.inconcl++
	c.counters["inconclusive:"+why]++
	c.mu.Unlock()
}

// Violate records a violation of the property for the current case. At most 3
// full records are kept per distinct signature per batch; the rest are counted.
func (c *Ctx) Violate(clause, op, cause, detail string) {
	c.ViolateInput(clause, op, cause, detail, nil)
}

func (c *Ctx) ViolateInput(clause, op, cause, detail string, input interface{}) {
	c.mu.Lock()
	defer c.mu.Unlock()
	v := Violation{Property: c.Prop, Clause: clause, Op: op, Cause: cause, Detail: detail,
		Case: c.curCase, Leg: c.Leg, Batch: c.Batch, NBatch: c.NBatch, Tier: c.Tier, Seed: c.Seed}
	if input != nil {
		v.Input = input
	} else {
		v.Input = c.curInput
	}
	sig := v.Sig()
	c.vioSeen[sig]++
	if c.vioSeen[sig] <= 3 {
		c.violations = append(c.violations, v)
	}
	if c.log != nil {
		fmt.Fprintf(c.log, "VIOLATION %s %s\n", sig, firstLine(detail))
		c.log.Flush()
	}
}

func (c *Ctx) NumViolations() int {
	c.mu.Lock()
	defer c.mu.Unlock()
	n := 0
	for _, k := range c.vioSeen {
		n += k
	}
	return n
}

// ---------------------------------------------------------------------------
// Child result file.

type ChildResult struct {
	Leg          string                 `json:"leg"`
	Batch        int                    `json:"batch"`
	Evaluations  int                    `json:"evaluations"`
	Counters     map[string]int         `json:"counters"`
	Samples      []interface{}          `json:"samples"`
	Violations   []Violation            `json:"violations"`
	VioCounts    map[string]int         `json:"vio_counts"`
	Inconclusive int                    `json:"inconclusive"`
	Extra        map[string]interface{} `json:"extra"`
	Done         bool                   `json:"done"`
}

func childPaths(dir, leg string, batch int) (res, nt, lg string) {
	base := filepath.Join(dir, fmt.Sprintf("%s-%03d", leg, batch))
	return base + ".result.json", base + ".nt.bin", base + ".log"
}

// RunChild is the entry point of a child process.
func RunChild(propID, leg string, batch, nbatch int, tier string, seed uint64, dir, only string) int {
	p := Lookup(propID)
	if p == nil {
		fmt.Fprintln(os.Stderr, "unknown property", propID)
		return 2
	}
	resPath, ntPath, logPath := childPaths(dir, leg, batch)
	lf, err := os.Create(logPath)
	if err != nil {
		fmt.Fprintln(os.Stderr, err)
		return 2
	}
	sub := filepath.Join(dir, fmt.Sprintf("scratch-%s-%03d", leg, batch))
	os.MkdirAll(sub, 0o755)
	c := &Ctx{Prop: propID, Tier: tier, Seed: seed, Leg: leg, Batch: batch, NBatch: nbatch, Dir: sub,
		OnlyCase: only, log: bufio.NewWriter(lf), logf: lf, counters: map[string]int{},
		nontrivial: map[uint64]struct{}{}, vioSeen: map[string]int{}, extra: map[string]interface{}{}}
	p.Run(c)
	c.mu.Lock()
	defer c.mu.Unlock()
	c.log.Flush()
	lf.Close()
	os.RemoveAll(sub)
	// nontrivial hashes
	buf := make([]byte, 0, 8*len(c.nontrivial))
	for h := range c.nontrivial {
		buf = binary.LittleEndian.AppendUint64(buf, h)
	}
	if err := os.WriteFile(ntPath, buf, 0o644); err != nil {
		fmt.Fprintln(os.Stderr, err)
		return 2
	}
	r := ChildResult{Leg: leg, Batch: batch, Evaluations: c.evals, Counters: c.counters, Samples: c.samples,
		Violations: c.violations, VioCounts: c.vioSeen, Inconclusive: c.inconcl, Extra: c.extra, Done: true}
	b, err := json.Marshal(r)
	if err != nil {
		// a sample or input that cannot be marshalled must not lose the verdict
		r.Samples = nil
		for i := range r.Violations {
			r.Violations[i].Input = fmt.Sprint(r.Violations[i].Input)
		}
		r.Extra = nil
		b, err = json.Marshal(r)
		if err != nil {
			fmt.Fprintln(os.Stderr, err)
			return 2
		}
	}
	if err := os.WriteFile(resPath, b, 0o644); err != nil {
		fmt.Fprintln(os.Stderr, err)
		return 2
	}
	return 0
}

// lastOpenCase returns the last BEGIN line of a child log that has no END.
func lastOpenCase(logPath string) (id string, input string, notes []string) {
	b, err := os.ReadFile(logPath)
	if err != nil {
		return "", "", nil
	}
	lines := bytes.Split(b, []byte("\n"))
	open := ""
	openInput := ""
	for _, ln := range lines {
		s := string(ln)
		switch {
		case strings.HasPrefix(s, "BEGIN "):
			rest := s[6:]
			sp := strings.IndexByte(rest, ' ')
			if sp < 0 {
				open, openInput = rest, ""
			} else {
				open, openInput = rest[:sp], rest[sp+1:]
			}
			notes = nil
		case strings.HasPrefix(s, "END "):
			if s[4:] == open {
				open, openInput = "", ""
				notes = nil
			}
		case strings.HasPrefix(s, "NOTE "):
			notes = append(notes, s[5:])
			if len(notes) > 40 {
				notes = notes[len(notes)-40:]
			}
		}
	}
	return open, openInput, notes
}
