package gen

import (
	"math/big"

	"gitlab.com/aquachain/aquachain/common"
)

// Library contract runtime codes. Every one is deliberately tiny and its
// behaviour documented so oracles can predict effects.

// StoreCode: calldata = slot(32) value(32): SSTORE(slot, value).
func StoreCode() []byte {
	return NewAsm().Push(0x20).Op(CALLDATALOAD).Push(0).Op(CALLDATALOAD).Op(SSTORE, STOP).Bytes()
}

// LoggerCode: calldata = n(32) t1 t2 t3 t4 (32 each) data...: emits LOGn(t1..tn, data).
// calldata must be >= 160 bytes.
func LoggerCode() []byte {
	a := NewAsm()
	a.Push(160).Op(CALLDATASIZE, SUB)            // [len]
	a.Op(DUP1).Push(160).Push(0).Op(CALLDATACOPY) // [len]
	a.Push(0).Op(CALLDATALOAD)                   // [len, n]
	for n := 1; n <= 4; n++ {
		a.Op(DUP1).Push(uint64(n)).Op(EQ).Jumpi("L" + string(rune('0'+n)))
	}
	a.Op(POP).Push(0).Op(LOG0, STOP)
	for n := 1; n <= 4; n++ {
		a.Label("L" + string(rune('0'+n))).Op(POP) // [len]
		for k := n; k >= 1; k-- {
			a.Push(uint64(32 * k)).Op(CALLDATALOAD, SWAP1)
		}
		a.Push(0).Op(byte(LOG0+n), STOP)
	}
	return a.Bytes()
}

// ForwarderCode: calldata = to(32): CALL(to, callvalue, all gas); slot0 = success.
func ForwarderCode() []byte {
	a := NewAsm()
	a.Push(0).Push(0).Push(0).Push(0).Op(CALLVALUE).Push(0).Op(CALLDATALOAD).Op(GAS, CALL)
	a.Push(0).Op(SSTORE, STOP)
	return a.Bytes()
}

// ReverterCode: SSTORE(1,1) then REVERT (Byzantium+).
func ReverterCode() []byte {
	return NewAsm().Push(1).Push(1).Op(SSTORE).Push(0).Push(0).Op(REVERT).Bytes()
}

// InvalidCode: SSTORE(1,1) then INVALID (consumes all gas, every epoch).
func InvalidCode() []byte { return NewAsm().Push(1).Push(1).Op(SSTORE, INVALID).Bytes() }

// SpinnerCode: infinite loop (out of gas).
func SpinnerCode() []byte { return NewAsm().Label("l").Jump("l").Bytes() }

// Nested call kinds.
const (
	KindCall = iota
	KindCallCode
	KindDelegateCall
	KindStaticCall
)

// NestedCode: calldata = kind(32) target(32) value(32) inner...:
// slot2++ (prior effect), then CALL/CALLCODE/DELEGATECALL/STATICCALL target with
// inner as calldata and all gas; slot0 = success flag; slot1++.
func NestedCode() []byte {
	a := NewAsm()
	a.Push(2).Op(SLOAD).Push(1).Op(ADD).Push(2).Op(SSTORE)
	a.Push(96).Op(CALLDATASIZE, SUB)            // [len]
	a.Op(DUP1).Push(96).Push(0).Op(CALLDATACOPY) // [len]
	a.Push(0).Op(CALLDATALOAD)                  // [len, kind]
	a.Op(DUP1).Push(1).Op(EQ).Jumpi("callcode")
	a.Op(DUP1).Push(2).Op(EQ).Jumpi("delegate")
	a.Op(DUP1).Push(3).Op(EQ).Jumpi("static")
	withValue := func(op byte) {
		a.Op(POP).Push(0).Push(0).Op(DUP3).Push(0).Push(64).Op(CALLDATALOAD).Push(32).Op(CALLDATALOAD).Op(GAS, op)
		a.Jump("done")
	}
	noValue := func(op byte) {
		a.Op(POP).Push(0).Push(0).Op(DUP3).Push(0).Push(32).Op(CALLDATALOAD).Op(GAS, op)
		a.Jump("done")
	}
	withValue(CALL)
	a.Label("callcode")
	withValue(CALLCODE)
	a.Label("delegate")
	noValue(DELEGATECALL)
	a.Label("static")
	noValue(STATICCALL)
	a.Label("done") // [len, success]
	a.Push(0).Op(SSTORE)
	a.Push(1).Op(SLOAD).Push(1).Op(ADD).Push(1).Op(SSTORE, STOP)
	return a.Bytes()
}

// FactoryCode: calldata = init code: CREATE(callvalue, init); slot0 = new address (0 on failure).
func FactoryCode() []byte {
	a := NewAsm()
	a.Op(CALLDATASIZE).Push(0).Push(0).Op(CALLDATACOPY)
	a.Op(CALLDATASIZE).Push(0).Op(CALLVALUE, CREATE)
	a.Push(0).Op(SSTORE, STOP)
	return a.Bytes()
}

// SuicideCode: calldata = beneficiary(32): SELFDESTRUCT(beneficiary).
func SuicideCode() []byte { return NewAsm().Push(0).Op(CALLDATALOAD, SELFDESTRUCT).Bytes() }

// SinkCode: accepts value, does nothing.
func SinkCode() []byte { return []byte{STOP} }

// Init codes for creation transactions.
func InitOK() []byte       { return InitCodeFor(StoreCode()) }
func InitSuicide() []byte  { return InitCodeFor(SuicideCode()) }
func InitRevert() []byte   { return NewAsm().Push(0).Push(0).Op(REVERT).Bytes() }
func InitOOG() []byte      { return SpinnerCode() }
func InitTooLarge() []byte { return NewAsm().PushBytes([]byte{0x60, 0x01}).Push(0).Op(RETURN).Bytes() }
func InitEmpty() []byte    { return []byte{STOP} } // creates an account with empty code

// Word left-pads to 32 bytes.
func Word(b []byte) []byte { return common.LeftPadBytes(b, 32) }

func WordU(v uint64) []byte { return Word(new(big.Int).SetUint64(v).Bytes()) }

func WordBig(v *big.Int) []byte { return Word(v.Bytes()) }

func WordAddr(a common.Address) []byte { return Word(a.Bytes()) }

func Cat(parts ...[]byte) []byte {
	var out []byte
	for _, p := range parts {
		out = append(out, p...)
	}
	return out
}
