// Package gen: deterministic generators shared by the chain-level checks —
// a tiny EVM assembler, a library of pre-deployed contracts, funded worlds,
// and block/tree builders that use the node's own builder (core.GenerateChain).
package gen

import (
	"encoding/binary"
	"math/big"
)

// EVM opcodes used by the library (values from the yellow paper).
const (
	STOP         = 0x00
	ADD          = 0x01
	MUL          = 0x02
	SUB          = 0x03
	LT           = 0x10
	GT           = 0x11
	EQ           = 0x14
	ISZERO       = 0x15
	AND          = 0x16
	SHA3         = 0x20
	ADDRESS      = 0x30
	BALANCE      = 0x31
	ORIGIN       = 0x32
	CALLER       = 0x33
	CALLVALUE    = 0x34
	CALLDATALOAD = 0x35
	CALLDATASIZE = 0x36
	CALLDATACOPY = 0x37
	CODESIZE     = 0x38
	CODECOPY     = 0x39
	RETURNDATASZ = 0x3d
	POP          = 0x50
	MLOAD        = 0x51
	MSTORE       = 0x52
	MSTORE8      = 0x53
	SLOAD        = 0x54
	SSTORE       = 0x55
	JUMP         = 0x56
	JUMPI        = 0x57
	PC           = 0x58
	GAS          = 0x5a
	JUMPDEST     = 0x5b
	PUSH1        = 0x60
	DUP1         = 0x80
	DUP2         = 0x81
	DUP3         = 0x82
	DUP4         = 0x83
	SWAP1        = 0x90
	SWAP2        = 0x91
	LOG0         = 0xa0
	CREATE       = 0xf0
	CALL         = 0xf1
	CALLCODE     = 0xf2
	RETURN       = 0xf3
	DELEGATECALL = 0xf4
	STATICCALL   = 0xfa
	REVERT       = 0xfd
	INVALID      = 0xfe
	SELFDESTRUCT = 0xff
)

// Asm is a minimal assembler with labels (PUSH2 label; JUMP).
type Asm struct {
	code   []byte
	labels map[string]int
	fix    map[int]string
}

func NewAsm() *Asm { return &Asm{labels: map[string]int{}, fix: map[int]string{}} }

func (a *Asm) Op(ops ...byte) *Asm { a.code = append(a.code, ops...); return a }

// Push pushes the minimal big-endian encoding of v (PUSH1 0 for zero).
func (a *Asm) Push(v uint64) *Asm {
	var b [8]byte
	binary.BigEndian.PutUint64(b[:], v)
	i := 0
	for i < 7 && b[i] == 0 {
		i++
	}
	return a.PushBytes(b[i:])
}

func (a *Asm) PushBig(v *big.Int) *Asm {
	b := v.Bytes()
	if len(b) == 0 {
		b = []byte{0}
	}
	return a.PushBytes(b)
}

func (a *Asm) PushBytes(b []byte) *Asm {
	if len(b) == 0 || len(b) > 32 {
		panic("push size")
	}
	a.code = append(a.code, byte(PUSH1+len(b)-1))
	a.code = append(a.code, b...)
	return a
}

func (a *Asm) Label(name string) *Asm {
	a.labels[name] = len(a.code)
	a.code = append(a.code, JUMPDEST)
	return a
}

// PushLabel pushes the (2-byte) address of a label.
func (a *Asm) PushLabel(name string) *Asm {
	a.code = append(a.code, PUSH1+1, 0, 0)
	a.fix[len(a.code)-2] = name
	return a
}

func (a *Asm) Jump(name string) *Asm  { return a.PushLabel(name).Op(JUMP) }
func (a *Asm) Jumpi(name string) *Asm { return a.PushLabel(name).Op(JUMPI) }

func (a *Asm) Bytes() []byte {
	out := append([]byte{}, a.code...)
	for pos, name := range a.fix {
		addr, ok := a.labels[name]
		if !ok {
			panic("undefined label " + name)
		}
		out[pos] = byte(addr >> 8)
		out[pos+1] = byte(addr)
	}
	return out
}

// InitCodeFor wraps runtime code in init code that returns it:
// PUSH2 len DUP1 PUSH2 off PUSH1 0 CODECOPY PUSH1 0 RETURN <runtime>
func InitCodeFor(runtime []byte) []byte {
	a := NewAsm()
	// header is 13 bytes: PUSH2 len(3) DUP1(1) PUSH2 off(3) PUSH1 0(2) CODECOPY(1) PUSH1 0(2) RETURN(1)
	const hdr = 13
	a.PushBytes([]byte{byte(len(runtime) >> 8), byte(len(runtime))}).Op(DUP1)
	a.PushBytes([]byte{0, hdr}).Push(0).Op(CODECOPY).Push(0).Op(RETURN)
	b := a.Bytes()
	if len(b) != hdr {
		panic("init header size")
	}
	return append(b, runtime...)
}
