package gen

import (
	"testing"

	"gitlab.com/aquachain/aquachain/common/log"
	"gitlab.com/aquachain/aquachain/core"
	"gitlab.com/aquachain/aquachain/core/types"
	"gitlab.com/aquachain/aquachain/params"
	"verif/internal/fw"
)

func TestBuildAndImport(t *testing.T) {
	log.Root().SetHandler(log.DiscardHandler())
	for ci, cfg := range []*params.ChainConfig{ConfigTest(), ConfigVersions(), ConfigPreByzantium()} {
		r := fw.NewRand(uint64(7+ci), "gentest")
		w := NewWorld(r, cfg, 6)
		tr := NewTree(w)
		parent := tr.Genesis
		kinds := map[TxKind]int{}
		status := map[string]int{}
		for i := 0; i < 40; i++ {
			plan := BlockPlan{Kinds: RandomKinds(r, r.Intn(8)), Coinbase: w.Coinbases[r.Intn(3)]}
			if r.Chance(1, 3) {
				plan.TimeOffset = -200
			}
			if i%5 == 4 {
				// side block for a future uncle
				tr.Add(r, tr.Parent(parent), BlockPlan{Coinbase: w.Coinbases[0], Extra: []byte{byte(i)}})
			}
			if c := tr.UncleCandidates(parent); len(c) > 0 && r.Bool() {
				plan.Uncles = c[:1]
			}
			b := tr.Add(r, parent, plan)
			for j, m := range b.Txs {
				kinds[m.Kind]++
				if b.Receipts[j].Status == types.ReceiptStatusSuccessful {
					status[string(m.Kind)+":ok"]++
				} else {
					status[string(m.Kind)+":fail"]++
				}
			}
			parent = b.Block
		}
		db, _ := w.NewDB()
		bc, err := w.NewChain(db, &core.CacheConfig{Disabled: true})
		if err != nil {
			t.Fatal(err)
		}
		path := tr.Path(parent)
		if n, err := bc.InsertChain(path); err != nil {
			t.Fatalf("cfg %d: insert failed at %d: %v", ci, n, err)
		}
		if bc.CurrentBlock().Hash() != parent.Hash() {
			t.Fatalf("head mismatch")
		}
		nu := 0
		for _, b := range path {
			nu += len(b.Uncles())
		}
		t.Logf("cfg %d: %d blocks, %d uncles, kinds %d, status %v", ci, len(path), nu, len(kinds), status)
		bc.Stop()
	}
}

func TestGrowTree(t *testing.T) {
	log.Root().SetHandler(log.DiscardHandler())
	r := fw.NewRand(3, "grow")
	w := NewWorld(r, ConfigTest(), 6)
	tr := GrowTree(r, w, TreeSpec{MainLen: 30, Forks: 3, MaxForkLen: 6, MaxTx: 5, Uncles: true, ShorterHeavier: true, Tie: true, ReuseTx: true})
	db, _ := w.NewDB()
	bc, _ := w.NewChain(db, nil)
	for _, b := range tr.Blocks() {
		if _, err := bc.InsertChain(types.Blocks{b}); err != nil {
			t.Fatalf("block %d: %v", b.NumberU64(), err)
		}
	}
	head := bc.CurrentBlock()
	if bc.GetTd(head.Hash(), head.NumberU64()).Cmp(tr.MaxTD()) != 0 {
		t.Fatalf("head td %v, max %v", bc.GetTd(head.Hash(), head.NumberU64()), tr.MaxTD())
	}
	t.Logf("blocks %d tips %d head %d", len(tr.Order), len(tr.Tips()), head.NumberU64())
	bc.Stop()
}
