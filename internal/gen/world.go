package gen

import (
	"context"
	"fmt"
	"math/big"

	"github.com/btcsuite/btcd/btcec/v2"
	"gitlab.com/aquachain/aquachain/aquadb"
	"gitlab.com/aquachain/aquachain/common"
	"gitlab.com/aquachain/aquachain/consensus"
	"gitlab.com/aquachain/aquachain/consensus/aquahash"
	"gitlab.com/aquachain/aquachain/consensus/misc"
	"gitlab.com/aquachain/aquachain/core"
	"gitlab.com/aquachain/aquachain/core/types"
	"gitlab.com/aquachain/aquachain/crypto"
	"gitlab.com/aquachain/aquachain/params"
	"verif/internal/fw"
)

// Fixed library addresses.
var (
	AddrStore     = common.HexToAddress("0x00000000000000000000000000000000000c0001")
	AddrLogger    = common.HexToAddress("0x00000000000000000000000000000000000c0002")
	AddrForwarder = common.HexToAddress("0x00000000000000000000000000000000000c0003")
	AddrReverter  = common.HexToAddress("0x00000000000000000000000000000000000c0004")
	AddrInvalid   = common.HexToAddress("0x00000000000000000000000000000000000c0005")
	AddrSpinner   = common.HexToAddress("0x00000000000000000000000000000000000c0006")
	AddrNested    = common.HexToAddress("0x00000000000000000000000000000000000c0007")
	AddrFactory   = common.HexToAddress("0x00000000000000000000000000000000000c0008")
	AddrSuicide   = common.HexToAddress("0x00000000000000000000000000000000000c0009")
	AddrSuicide2  = common.HexToAddress("0x00000000000000000000000000000000000c000a")
	AddrSink      = common.HexToAddress("0x00000000000000000000000000000000000c000b")
	AddrNested2   = common.HexToAddress("0x00000000000000000000000000000000000c000c")
	AddrBlob0     = common.HexToAddress("0x00000000000000000000000000000000000b0000") // + i
)

// Configs used by the chain-level checks.

// ConfigTest is params.TestChainConfig: HF1..7 at heights 1..7 (so every chain of
// >= 8 blocks crosses the HF4 de-allocation and the HF5 keccak->argon2id switch).
func ConfigTest() *params.ChainConfig { return params.TestChainConfig }

// ConfigVersions: HF5,6,7 at 0, HF8 at 8, HF9 at 19: header versions 2 -> 3 -> 4.
func ConfigVersions() *params.ChainConfig {
	return &params.ChainConfig{
		ChainId: big.NewInt(617175699), HomesteadBlock: big.NewInt(0), EIP150Block: big.NewInt(0),
		EIP155Block: big.NewInt(0), EIP158Block: big.NewInt(0), ByzantiumBlock: big.NewInt(0),
		Aquahash: new(params.AquahashConfig),
		HF: params.ForkMap{1: big.NewInt(0), 2: big.NewInt(0), 3: big.NewInt(0), 4: big.NewInt(0), 5: big.NewInt(0),
			6: big.NewInt(0), 7: big.NewInt(0), 8: big.NewInt(8), 9: big.NewInt(19)},
	}
}

// ConfigPreByzantium: like the main network before HF7 — HF1..6 early, EIP155/158/Byzantium
// (tied to HF7 on the real networks) at height 12, so chains cross the receipt-format change
// and have a window in which empty accounts exist.
func ConfigPreByzantium() *params.ChainConfig {
	return &params.ChainConfig{
		ChainId: big.NewInt(617175698), HomesteadBlock: big.NewInt(0), EIP150Block: big.NewInt(0),
		EIP155Block: big.NewInt(12), EIP158Block: big.NewInt(12), ByzantiumBlock: big.NewInt(12),
		Aquahash: new(params.AquahashConfig),
		HF: params.ForkMap{1: big.NewInt(1), 2: big.NewInt(2), 3: big.NewInt(3), 4: big.NewInt(4), 5: big.NewInt(5),
			6: big.NewInt(6), 7: big.NewInt(12)},
	}
}

type World struct {
	Config    *params.ChainConfig
	Keys      []*btcec.PrivateKey
	Addrs     []common.Address
	Dealloc   []common.Address // funded addresses from the HF4 de-allocation list
	Blobs     []common.Address
	Coinbases []common.Address
	Spec      *core.Genesis
	Created   []common.Address // self-destructors deployed by generated creation transactions
}

var initialBalance = new(big.Int).Mul(big.NewInt(1e18), big.NewInt(1e6))

// NewWorld builds a genesis with nEOA funded keys, the contract library, a few
// hostile blobs and two funded de-allocation-list accounts.
func NewWorld(r *fw.Rand, cfg *params.ChainConfig, nEOA int) *World {
	w := &World{Config: cfg}
	alloc := core.GenesisAlloc{}
	for i := 0; i < nEOA; i++ {
		kb := r.Bytes(32)
		kb[0] &= 0x7f
		kb[31] |= 1
		k, err := crypto.HexToBtcec(common.Bytes2Hex(kb))
		if err != nil {
			panic(err)
		}
		w.Keys = append(w.Keys, k)
		a := crypto.PubkeyToAddress(k.PubKey())
		w.Addrs = append(w.Addrs, a)
		alloc[a] = core.GenesisAccount{Balance: new(big.Int).Set(initialBalance)}
	}
	lib := map[common.Address][]byte{
		AddrStore: StoreCode(), AddrLogger: LoggerCode(), AddrForwarder: ForwarderCode(), AddrReverter: ReverterCode(),
		AddrInvalid: InvalidCode(), AddrSpinner: SpinnerCode(), AddrNested: NestedCode(), AddrNested2: NestedCode(), AddrFactory: FactoryCode(),
		AddrSuicide: SuicideCode(), AddrSuicide2: SuicideCode(), AddrSink: SinkCode(),
	}
	for a, c := range lib {
		bal := big.NewInt(0)
		if a == AddrSuicide || a == AddrSuicide2 || a == AddrNested || a == AddrForwarder {
			bal = big.NewInt(1e15) // something to move / destroy
		}
		alloc[a] = core.GenesisAccount{Code: c, Balance: bal}
	}
	for i := 0; i < 3; i++ {
		a := AddrBlob0
		a[19] = byte(i)
		code := r.Bytes(r.Range(1, 200))
		alloc[a] = core.GenesisAccount{Code: code, Balance: big.NewInt(int64(r.Intn(1000)))}
		w.Blobs = append(w.Blobs, a)
	}
	for i := 0; i < 2; i++ {
		a := common.HexToAddress(misc.DeallocListHF4[r.Intn(len(misc.DeallocListHF4))])
		alloc[a] = core.GenesisAccount{Balance: big.NewInt(int64(1e9 + r.Intn(1e9)))}
		w.Dealloc = append(w.Dealloc, a)
	}
	for i := 0; i < 3; i++ {
		var a common.Address
		copy(a[:], r.Bytes(20))
		w.Coinbases = append(w.Coinbases, a)
	}
	w.Spec = &core.Genesis{Config: cfg, Alloc: alloc, Difficulty: big.NewInt(int64(params.MinimumDifficultyHF5.Int64())), GasLimit: params.GenesisGasLimit}
	return w
}

// NewDB returns a fresh in-memory database holding the genesis block and state.
func (w *World) NewDB() (*aquadb.MemDatabase, *types.Block) {
	db := aquadb.NewMemDatabase()
	g := w.Spec.MustCommit(db)
	return db, g
}

// CommitGenesis writes the genesis into any database.
func (w *World) CommitGenesis(db aquadb.Database) *types.Block { return w.Spec.MustCommit(db) }

// Signer for a height.
func (w *World) Signer(num *big.Int) types.Signer { return types.MakeSigner(w.Config, num) }

func (w *World) Faker() consensus.Engine { return aquahash.NewFaker() }

// NewChain opens a BlockChain over db (fake PoW: seals are not checked, all
// header rules are).
func (w *World) NewChain(db aquadb.Database, cache *core.CacheConfig) (*core.BlockChain, error) {
	return core.NewBlockChain(context.Background(), db, cache, w.Config, aquahash.NewFaker(), vmCfg())
}

func (w *World) String() string {
	return fmt.Sprintf("world{chain %v, %d EOAs}", w.Config.ChainId, len(w.Addrs))
}
