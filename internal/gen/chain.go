package gen

import (
	"context"
	"math/big"

	"gitlab.com/aquachain/aquachain/aquadb"
	"gitlab.com/aquachain/aquachain/common"
	"gitlab.com/aquachain/aquachain/core"
	"gitlab.com/aquachain/aquachain/core/types"
	"gitlab.com/aquachain/aquachain/core/vm"
	"gitlab.com/aquachain/aquachain/crypto"
	"verif/internal/fw"
)

func vmCfg() vm.Config { return vm.Config{} }

// TxKind names the template a generated transaction was made from; oracles use
// it for their observation gates.
type TxKind string

const (
	TxTransfer       TxKind = "transfer"          // EOA -> EOA / fresh address
	TxTransferSelf   TxKind = "transfer_self"     // sender == recipient
	TxToSink         TxKind = "to_sink"           // value to a contract that accepts
	TxToPrecompile   TxKind = "to_precompile"     // value/data to precompile 1..8
	TxStoreSet       TxKind = "store_set"         // SSTORE non-zero
	TxStoreClear     TxKind = "store_clear"       // SSTORE zero (refund)
	TxLog            TxKind = "log"               // LOG0..4
	TxForward        TxKind = "forward"           // contract forwards the value
	TxForwardFail    TxKind = "forward_to_revert" // inner call fails, outer succeeds (value stays in forwarder)
	TxRevert         TxKind = "revert"            // top-level REVERT after SSTORE
	TxInvalid        TxKind = "invalid_op"        // top-level INVALID after SSTORE
	TxOOG            TxKind = "oog"               // infinite loop
	TxNested         TxKind = "nested"            // CALL/CALLCODE/DELEGATECALL/STATICCALL into the library
	TxNestedValueTop TxKind = "nested_value_over" // inner call with more value than the balance
	TxCreateOK       TxKind = "create_ok"
	TxCreateRevert   TxKind = "create_revert"
	TxCreateOOG      TxKind = "create_oog"
	TxCreateLarge    TxKind = "create_too_large"
	TxCreateValue    TxKind = "create_with_value"
	TxFactory        TxKind = "factory_create"
	TxFactoryFail    TxKind = "factory_create_fail"
	TxSuicide        TxKind = "selfdestruct"
	TxSuicideSelf    TxKind = "selfdestruct_to_self"
	TxSuicideNested  TxKind = "selfdestruct_nested_then_send"
	TxBlob           TxKind = "call_blob"
	TxZeroTouch      TxKind = "zero_value_touch"
	TxSuicideCreated TxKind = "selfdestruct_created" // calls a self-destructor deployed by an earlier create_with_value
)

var AllTxKinds = []TxKind{TxTransfer, TxTransferSelf, TxToSink, TxToPrecompile, TxStoreSet, TxStoreClear, TxLog, TxForward,
	TxForwardFail, TxRevert, TxInvalid, TxOOG, TxNested, TxNestedValueTop, TxCreateOK, TxCreateRevert, TxCreateOOG,
	TxCreateLarge, TxCreateValue, TxFactory, TxFactoryFail, TxSuicide, TxSuicideSelf, TxSuicideNested, TxBlob, TxZeroTouch, TxSuicideCreated}

// TxMeta is the ledger entry of a generated transaction.
type TxMeta struct {
	Kind   TxKind
	Sender int // index into World.Keys
	Tx     *types.Transaction
}

// LogTopicsPool is a small pool so filter criteria collide.
func LogTopic(i int) common.Hash {
	var h common.Hash
	h[0] = 0xaa
	h[31] = byte(i)
	return h
}

// MakeTx builds (unsigned fields of) a transaction of the given kind. The gas
// limit returned is what the transaction asks for.
func (w *World) MakeTx(r *fw.Rand, kind TxKind, sender int, nonce uint64, num *big.Int) *types.Transaction {
	price := big.NewInt(int64(r.Range(1, 40)) * 1e9)
	val := func() *big.Int {
		switch r.Intn(4) {
		case 0:
			return big.NewInt(0)
		case 1:
			return big.NewInt(1)
		default:
			return new(big.Int).Mul(big.NewInt(int64(r.Range(1, 1e6))), big.NewInt(1e9))
		}
	}
	fresh := func() common.Address {
		var a common.Address
		copy(a[:], r.Bytes(20))
		a[0] = 0xee
		return a
	}
	var tx *types.Transaction
	call := func(to common.Address, v *big.Int, gas uint64, data []byte) {
		tx = types.NewTransaction(nonce, to, v, gas, price, data)
	}
	create := func(v *big.Int, gas uint64, data []byte) {
		tx = types.NewContractCreation(nonce, v, gas, price, data)
	}
	switch kind {
	case TxTransfer:
		to := fresh()
		if r.Bool() {
			to = w.Addrs[r.Intn(len(w.Addrs))]
			if to == w.Addrs[sender] {
				to = fresh()
			}
		}
		call(to, val(), 21000, nil)
	case TxTransferSelf:
		call(w.Addrs[sender], val(), 21000, nil)
	case TxZeroTouch:
		call(fresh(), big.NewInt(0), 21000, nil)
	case TxToSink:
		call(AddrSink, val(), 30000, r.Bytes(r.Intn(40)))
	case TxToPrecompile:
		var a common.Address
		a[19] = byte(r.Range(1, 8))
		call(a, val(), 200000, r.Bytes(r.Intn(200)))
	case TxStoreSet:
		call(AddrStore, big.NewInt(0), 60000, Cat(WordU(uint64(r.Intn(6))), WordU(uint64(r.Range(1, 1<<30)))))
	case TxStoreClear:
		call(AddrStore, big.NewInt(0), 60000, Cat(WordU(uint64(r.Intn(6))), WordU(0)))
	case TxLog:
		n := r.Intn(5)
		data := Cat(WordU(uint64(n)), LogTopic(r.Intn(4)).Bytes(), LogTopic(r.Intn(4)).Bytes(), LogTopic(r.Intn(4)).Bytes(), LogTopic(r.Intn(4)).Bytes(), r.Bytes(r.Intn(70)))
		call(AddrLogger, big.NewInt(0), 80000, data)
	case TxForward:
		to := fresh()
		if r.Bool() {
			to = AddrSink
		}
		call(AddrForwarder, val(), 120000, WordAddr(to))
	case TxForwardFail:
		to := AddrReverter
		if r.Bool() {
			to = AddrInvalid
		}
		call(AddrForwarder, val(), 150000, WordAddr(to))
	case TxRevert:
		call(AddrReverter, val(), 80000, nil)
	case TxInvalid:
		call(AddrInvalid, val(), 60000, nil)
	case TxOOG:
		call(AddrSpinner, val(), uint64(r.Range(22000, 60000)), nil)
	case TxNested:
		kind := r.Intn(4)
		targets := []common.Address{AddrStore, AddrReverter, AddrInvalid, AddrSink, AddrLogger, AddrSuicide2, AddrNested2, fresh()}
		target := targets[r.Intn(len(targets))]
		var inner []byte
		switch target {
		case AddrStore:
			inner = Cat(WordU(uint64(r.Intn(6))), WordU(uint64(r.Intn(3))))
		case AddrLogger:
			inner = Cat(WordU(uint64(r.Intn(5))), LogTopic(r.Intn(4)).Bytes(), LogTopic(r.Intn(4)).Bytes(), LogTopic(r.Intn(4)).Bytes(), LogTopic(r.Intn(4)).Bytes(), r.Bytes(r.Intn(20)))
		case AddrSuicide2:
			inner = WordAddr(w.Addrs[r.Intn(len(w.Addrs))])
		case AddrNested2:
			inner = Cat(WordU(uint64(r.Intn(4))), WordAddr(AddrStore), WordU(0), WordU(uint64(r.Intn(6))), WordU(uint64(r.Intn(3))))
		}
		innerVal := big.NewInt(int64(r.Intn(1000)))
		call(AddrNested, val(), 300000, Cat(WordU(uint64(kind)), WordAddr(target), WordBig(innerVal), inner))
	case TxNestedValueTop:
		// inner value far above the contract's balance: the inner call must fail
		// without moving anything
		huge := new(big.Int).Lsh(big.NewInt(1), 200)
		call(AddrNested, big.NewInt(0), 200000, Cat(WordU(uint64(r.Intn(2))), WordAddr(AddrSink), WordBig(huge)))
	case TxCreateOK:
		create(big.NewInt(0), 200000, InitOK())
	case TxCreateValue:
		create(val(), 200000, InitSuicide())
		w.Created = append(w.Created, CreatedAddress(w.Addrs[sender], nonce))
	case TxSuicideCreated:
		// exists only on the branch that created it; elsewhere this is a plain transfer
		to := AddrSuicide2
		if len(w.Created) > 0 {
			to = w.Created[r.Intn(len(w.Created))]
		}
		call(to, val(), 100000, WordAddr(w.Addrs[r.Intn(len(w.Addrs))]))
	case TxCreateRevert:
		create(val(), 100000, InitRevert())
	case TxCreateOOG:
		create(val(), uint64(r.Range(54000, 90000)), InitOOG())
	case TxCreateLarge:
		create(val(), 400000, InitTooLarge())
	case TxFactory:
		call(AddrFactory, val(), 300000, InitOK())
	case TxFactoryFail:
		init := InitRevert()
		if r.Bool() {
			init = InitOOG()
		}
		call(AddrFactory, val(), 200000, init)
	case TxSuicide:
		ben := fresh()
		switch r.Intn(4) {
		case 0:
			ben = w.Addrs[r.Intn(len(w.Addrs))]
		case 1:
			ben = common.Address{19: byte(r.Range(1, 8))}
		}
		call(AddrSuicide, val(), 100000, WordAddr(ben))
	case TxSuicideSelf:
		call(AddrSuicide, val(), 100000, WordAddr(AddrSuicide))
	case TxSuicideNested:
		// nested: call the self-destructor, then (via Nested2 in a later tx of the
		// same block, generator's choice) send to it again
		call(AddrNested, val(), 300000, Cat(WordU(KindCall), WordAddr(AddrSuicide2), WordU(uint64(r.Intn(100))), WordAddr(AddrSink)))
	case TxBlob:
		call(w.Blobs[r.Intn(len(w.Blobs))], val(), uint64(r.Range(30000, 150000)), r.Bytes(r.Intn(64)))
	default:
		panic("unknown tx kind " + string(kind))
	}
	signed, err := types.SignTx(tx, w.Signer(num), w.Keys[sender])
	if err != nil {
		panic(err)
	}
	return signed
}

// BlockPlan says how one block is to be built.
type BlockPlan struct {
	TimeOffset int64 // added to the builder's default parent+240 s; must keep time > parent
	Coinbase   common.Address
	Extra      []byte
	Kinds      []TxKind        // transactions to generate, in order
	Reuse      []*TxMeta       // transactions from another branch to include first when their nonce fits
	Uncles     []*types.Header // uncle headers to include (caller guarantees validity)
}

// Built is a generated block with its ledger data.
type Built struct {
	Block    *types.Block
	Receipts types.Receipts
	Txs      []*TxMeta
}

// BuildBlock produces one block on parent using the node's own builder
// (core.GenerateChain -> ApplyTransaction + Engine.Finalize). gendb must hold
// parent's state (an archive database the generator owns).
func (w *World) BuildBlock(r *fw.Rand, gendb aquadb.Database, parent *types.Block, plan BlockPlan) *Built {
	out := &Built{}
	blocks, receipts := core.GenerateChain(context.Background(), w.Config, parent, w.Faker(), gendb, 1, func(i int, b *core.BlockGen) {
		if plan.Coinbase != (common.Address{}) {
			b.SetCoinbase(plan.Coinbase)
		}
		if len(plan.Extra) > 0 {
			b.SetExtra(plan.Extra)
		}
		if plan.TimeOffset != 0 {
			b.OffsetTime(plan.TimeOffset)
		}
		gasLimit := core.CalcGasLimit(parent)
		used := uint64(0)
		num := b.Number()
		signer := w.Signer(num)
		for _, m := range plan.Reuse {
			from, err := types.Sender(signer, m.Tx)
			if err != nil || from != w.Addrs[m.Sender] {
				continue
			}
			if b.TxNonce(from) != m.Tx.Nonce() || used+m.Tx.Gas() > gasLimit {
				continue
			}
			b.AddTx(m.Tx)
			used += m.Tx.Gas()
			out.Txs = append(out.Txs, m)
		}
		for _, k := range plan.Kinds {
			s := r.Intn(len(w.Keys))
			tx := w.MakeTx(r, k, s, b.TxNonce(w.Addrs[s]), num)
			if used+tx.Gas() > gasLimit {
				continue
			}
			b.AddTx(tx)
			used += tx.Gas()
			out.Txs = append(out.Txs, &TxMeta{Kind: k, Sender: s, Tx: tx})
		}
		for _, u := range plan.Uncles {
			b.AddUncle(types.CopyHeader(u))
		}
	})
	out.Block, out.Receipts = blocks[0], receipts[0]
	return out
}

// ---------------------------------------------------------------------------
// Tree: a generated block tree with its ledger.

type Tree struct {
	W       *World
	GenDB   *aquadb.MemDatabase
	Genesis *types.Block
	ByHash  map[common.Hash]*Built
	TD      map[common.Hash]*big.Int
	Order   []*Built // generation order (parents before children)
}

func NewTree(w *World) *Tree {
	db, g := w.NewDB()
	t := &Tree{W: w, GenDB: db, Genesis: g, ByHash: map[common.Hash]*Built{}, TD: map[common.Hash]*big.Int{}}
	t.TD[g.Hash()] = new(big.Int).Set(g.Difficulty())
	return t
}

// Add builds one block on parent and records it.
func (t *Tree) Add(r *fw.Rand, parent *types.Block, plan BlockPlan) *Built {
	b := t.W.BuildBlock(r, t.GenDB, parent, plan)
	t.ByHash[b.Block.Hash()] = b
	t.TD[b.Block.Hash()] = new(big.Int).Add(t.TD[parent.Hash()], b.Block.Difficulty())
	t.Order = append(t.Order, b)
	return b
}

// Parent returns the parent block (genesis included).
func (t *Tree) Parent(b *types.Block) *types.Block {
	if b.ParentHash() == t.Genesis.Hash() {
		return t.Genesis
	}
	if p, ok := t.ByHash[b.ParentHash()]; ok {
		return p.Block
	}
	return nil
}

// Path returns the blocks from genesis (exclusive) to tip (inclusive).
func (t *Tree) Path(tip *types.Block) []*types.Block {
	var rev []*types.Block
	for b := tip; b != nil && b.Hash() != t.Genesis.Hash(); b = t.Parent(b) {
		rev = append(rev, b)
	}
	out := make([]*types.Block, len(rev))
	for i := range rev {
		out[len(rev)-1-i] = rev[i]
	}
	return out
}

// IsAncestor reports whether a is an ancestor of (or equal to) b.
func (t *Tree) IsAncestor(a, b *types.Block) bool {
	for x := b; x != nil; x = t.Parent(x) {
		if x.Hash() == a.Hash() {
			return true
		}
		if x.NumberU64() <= a.NumberU64() {
			return false
		}
	}
	return false
}

// UncleCandidates returns headers that may be included as uncles by a child of
// parent: siblings of parent's ancestors (<= 6 generations back from the new
// block), not themselves ancestors, not already included by an ancestor.
func (t *Tree) UncleCandidates(parent *types.Block) []*types.Header {
	anc := map[common.Hash]bool{}
	included := map[common.Hash]bool{}
	var line []*types.Block
	for x, n := parent, 0; x != nil && n < 7; x, n = t.Parent(x), n+1 {
		anc[x.Hash()] = true
		line = append(line, x)
		for _, u := range x.Uncles() {
			// the node identifies an uncle by its hash under the version of the
			// uncle's own height (VerifyUncles), whatever version the including
			// block stamped on it
			cu := types.CopyHeader(u)
			included[cu.SetVersion(byte(t.W.Config.GetBlockVersion(cu.Number)))] = true
		}
	}
	var out []*types.Header
	newNum := parent.NumberU64() + 1
	for _, b := range t.Order {
		h := b.Block
		if anc[h.Hash()] || included[h.Hash()] {
			continue
		}
		if h.NumberU64()+6 < newNum || h.NumberU64() >= newNum {
			continue
		}
		// its parent must be an ancestor in the 7-generation window
		if !anc[h.ParentHash()] {
			continue
		}
		out = append(out, h.Header())
	}
	_ = line
	return out
}

// CreatedAddress of a creation transaction.
func CreatedAddress(from common.Address, nonce uint64) common.Address {
	return crypto.CreateAddress(from, nonce)
}

// RandomKinds draws n transaction kinds.
func RandomKinds(r *fw.Rand, n int) []TxKind {
	out := make([]TxKind, n)
	for i := range out {
		out[i] = AllTxKinds[r.Intn(len(AllTxKinds))]
	}
	return out
}
