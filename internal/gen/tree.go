package gen

import (
	"math/big"

	"gitlab.com/aquachain/aquachain/core/types"
	"verif/internal/fw"
)

// TreeSpec drives GrowTree.
type TreeSpec struct {
	MainLen    int  // blocks on the first branch
	Forks      int  // side branches
	MaxForkLen int  // maximum length of a side branch
	MaxTx      int  // transactions per block: 0..MaxTx
	Uncles     bool // include uncles when a valid candidate exists
	// ShorterHeavier forces one side branch that ends one block below the main
	// tip but carries more total difficulty (fast blocks), forked deep enough.
	ShorterHeavier bool
	// Tie forces one pair of sibling tips with exactly equal total difficulty.
	Tie bool
	// ReuseTx makes side branches re-mine transactions of the branch they left
	// (same transaction on two branches, usually at another position).
	ReuseTx bool
}

// GrowTree generates a block tree. All blocks are valid under the world's
// config with a fake-PoW engine (every header rule except the seal).
func GrowTree(r *fw.Rand, w *World, s TreeSpec) *Tree {
	t := NewTree(w)
	plan := func(parent *types.Block, fast bool, reuse []*TxMeta) BlockPlan {
		p := BlockPlan{Kinds: RandomKinds(r, r.Intn(s.MaxTx+1)), Coinbase: w.Coinbases[r.Intn(len(w.Coinbases))], Reuse: reuse}
		if fast {
			p.TimeOffset = -200
		} else if r.Chance(1, 4) {
			p.TimeOffset = int64(-r.Range(1, 230))
		} else if r.Chance(1, 8) {
			p.TimeOffset = int64(r.Range(1, 500))
		}
		if r.Chance(1, 5) {
			p.Extra = r.Bytes(r.Range(1, 32))
		}
		if s.Uncles && r.Chance(1, 2) {
			if c := t.UncleCandidates(parent); len(c) > 0 {
				p.Uncles = c[:1]
				if len(c) > 1 && !w.Config.IsHF(5, new(big.Int).Add(parent.Number(), big.NewInt(1))) && r.Bool() {
					p.Uncles = c[:2]
				}
			}
		}
		return p
	}
	parent := t.Genesis
	var main []*Built
	for i := 0; i < s.MainLen; i++ {
		// occasional single-block sibling so uncles exist
		if s.Uncles && i > 0 && r.Chance(1, 4) {
			t.Add(r, t.Parent(parent), BlockPlan{Coinbase: w.Coinbases[0], Extra: []byte{0x55, byte(i)}})
		}
		b := t.Add(r, parent, plan(parent, false, nil))
		main = append(main, b)
		parent = b.Block
	}
	forkFrom := func(h int) *types.Block {
		if h <= 0 {
			return t.Genesis
		}
		return main[h-1].Block
	}
	reuseFrom := func(h int) []*TxMeta {
		if !s.ReuseTx {
			return nil
		}
		var out []*TxMeta
		for i := h; i < len(main) && len(out) < 12; i++ {
			out = append(out, main[i].Txs...)
		}
		return out
	}
	for f := 0; f < s.Forks; f++ {
		h := r.Intn(s.MainLen)
		n := r.Range(1, s.MaxForkLen)
		p := forkFrom(h)
		fast := r.Chance(1, 3)
		pool := reuseFrom(h)
		for i := 0; i < n; i++ {
			var reuse []*TxMeta
			if len(pool) > 0 {
				k := r.Range(0, len(pool))
				reuse, pool = pool[:k], pool[k:]
			}
			b := t.Add(r, p, plan(p, fast, reuse))
			p = b.Block
		}
	}
	if s.ShorterHeavier && s.MainLen >= 26 {
		// fork 24 blocks below the tip, 23 fast blocks: one shorter, heavier
		h := s.MainLen - 24
		p := forkFrom(h)
		pool := reuseFrom(h)
		for i := 0; i < 23; i++ {
			var reuse []*TxMeta
			if len(pool) > 0 {
				k := r.Range(0, len(pool))
				reuse, pool = pool[:k], pool[k:]
			}
			pl := plan(p, true, reuse)
			pl.TimeOffset = -200
			b := t.Add(r, p, pl)
			p = b.Block
		}
	}
	if s.Tie {
		// two children of the main tip differing only in extra data: equal
		// difficulty, equal height, equal total difficulty
		tip := main[len(main)-1].Block
		t.Add(r, tip, BlockPlan{Coinbase: w.Coinbases[0], Extra: []byte{1}})
		t.Add(r, tip, BlockPlan{Coinbase: w.Coinbases[0], Extra: []byte{2}})
	}
	return t
}

// Tips returns the blocks without children, in generation order.
func (t *Tree) Tips() []*types.Block {
	hasChild := map[[32]byte]bool{}
	for _, b := range t.Order {
		hasChild[b.Block.ParentHash()] = true
	}
	var out []*types.Block
	for _, b := range t.Order {
		if !hasChild[b.Block.Hash()] {
			out = append(out, b.Block)
		}
	}
	return out
}

// MaxTD returns the greatest total difficulty in the tree (ledger arithmetic:
// parent TD + own difficulty).
func (t *Tree) MaxTD() *big.Int {
	m := new(big.Int).Set(t.TD[t.Genesis.Hash()])
	for _, b := range t.Order {
		if td := t.TD[b.Block.Hash()]; td.Cmp(m) > 0 {
			m = td
		}
	}
	return m
}

// Blocks returns every generated block in generation (parent-closed) order.
func (t *Tree) Blocks() []*types.Block {
	out := make([]*types.Block, len(t.Order))
	for i, b := range t.Order {
		out[i] = b.Block
	}
	return out
}
