package c01

// Miner leg: blocks assembled by the node's real block-building path
// (opt/miner worker: commitNewWork -> commitTransactions -> Engine.Finalize ->
// Seal -> WriteBlockWithState) must be accepted by the import path of an
// independent node with identical receipts, logs, gas used and state.
//
// The worker stamps wall-clock seconds on its blocks, so the content of this
// leg is not a function of the seed alone; every mined block is written to the
// child log before it is imported. The clock never enters a verdict: the only
// timer is a generous watchdog whose firing is "inconclusive".

import (
	"encoding/hex"
	"fmt"
	"math/big"
	mrand "math/rand"
	"time"

	"gitlab.com/aquachain/aquachain/aqua/accounts"
	aevent "gitlab.com/aquachain/aquachain/aqua/event"
	"gitlab.com/aquachain/aquachain/aquadb"
	"gitlab.com/aquachain/aquachain/common"
	"gitlab.com/aquachain/aquachain/core"
	"gitlab.com/aquachain/aquachain/core/types"
	"gitlab.com/aquachain/aquachain/opt/miner"
	"gitlab.com/aquachain/aquachain/rlp"
	"verif/internal/fw"
	"verif/internal/gen"
)

type minerBackend struct {
	bc   *core.BlockChain
	pool *core.TxPool
	db   aquadb.Database
	am   *accounts.Manager
}

func (b *minerBackend) AccountManager() *accounts.Manager { return b.am }
func (b *minerBackend) BlockChain() *core.BlockChain      { return b.bc }
func (b *minerBackend) TxPool() *core.TxPool              { return b.pool }
func (b *minerBackend) ChainDb() aquadb.Database          { return b.db }

var addrBlockhash = common.HexToAddress("0x00000000000000000000000000000000000c00bb")

// blockhashCode stores BLOCKHASH(number-1), BLOCKHASH(number-2) and
// BLOCKHASH(number-300) (out of window: zero) in slots 0..2.
func blockhashCode() []byte {
	const NUMBER, BLOCKHASH = 0x43, 0x40
	a := gen.NewAsm()
	a.Push(1).Op(NUMBER, gen.SUB, BLOCKHASH).Push(0).Op(gen.SSTORE)
	a.Push(2).Op(NUMBER, gen.SUB, BLOCKHASH).Push(1).Op(gen.SSTORE)
	a.Push(300).Op(NUMBER, gen.SUB, BLOCKHASH).Push(2).Op(gen.SSTORE)
	a.Op(gen.STOP)
	return a.Bytes()
}

func runMiner(c *fw.Ctx) {
	nBlocks := c.Pick(8, 40)
	cfgName := []string{"versions-2-3-4", "test-hf1to7"}[c.Batch%2]
	id := "mined-chain"
	c.Case(id, map[string]interface{}{"config": cfgName, "blocks_wanted": nBlocks, "note": "mined blocks are written to the child log (NOTE mined ...) before they are re-imported"}, func() {
		mrand.Seed(int64(c.Seed) + 77)
		w, r := newWorld(c, cfgName, "miner")
		w.Spec.Alloc[addrBlockhash] = core.GenesisAccount{Code: blockhashCode(), Balance: big.NewInt(0)}
		db, _ := w.NewDB()
		bc, err := w.NewChain(db, nil)
		if err != nil {
			panic(err)
		}
		poolCfg := core.DefaultTxPoolConfig
		poolCfg.Journal = ""
		pool := core.NewTxPool(poolCfg, w.Config, bc)
		mux := new(aevent.TypeMux)
		be := &minerBackend{bc: bc, pool: pool, db: db, am: accounts.NewManager()}
		m := miner.New(be, w.Config, mux, w.Faker())
		sub := mux.Subscribe(core.NewMinedBlockEvent{})
		coinbase := w.Coinbases[0]
		m.SetExtra([]byte("c01-miner"))

		feed := func(n int) {
			var txs []*types.Transaction
			next := map[int]uint64{}
			for i := 0; i < n; i++ {
				s := r.Intn(len(w.Keys))
				nonce, ok := next[s]
				if !ok {
					nonce = pool.State().GetNonce(w.Addrs[s])
				}
				kind := gen.AllTxKinds[r.Intn(len(gen.AllTxKinds))]
				num := new(big.Int).Add(bc.CurrentBlock().Number(), big.NewInt(1))
				var tx *types.Transaction
				if r.Chance(1, 4) {
					// BLOCKHASH user: only the real builder can execute it
					price := big.NewInt(int64(r.Range(1, 40)) * 1e9)
					raw := types.NewTransaction(nonce, addrBlockhash, big.NewInt(0), 120000, price, nil)
					tx, err = types.SignTx(raw, w.Signer(num), w.Keys[s])
					if err != nil {
						panic(err)
					}
					c.Count("miner_blockhash_tx_offered")
				} else {
					tx = w.MakeTx(r, kind, s, nonce, num)
				}
				next[s] = nonce + 1
				txs = append(txs, tx)
			}
			for _, e := range pool.AddRemotes(txs) {
				if e != nil {
					c.Count("miner_pool_refused_tx")
				}
			}
		}

		feed(12)
		m.Start(coinbase)
		var mined []*types.Block
		watchdog := time.After(25 * time.Minute) // generous: firing is inconclusive, never a verdict
		sidesOffered := 0
	loop:
		for len(mined) < nBlocks {
			select {
			case ev := <-sub.Chan():
				if ev == nil {
					break loop
				}
				b := ev.Data.(core.NewMinedBlockEvent).Block
				enc, _ := rlp.EncodeToBytes(b)
				c.Note("mined %d %s", b.NumberU64(), hex.EncodeToString(enc))
				mined = append(mined, b)
				c.Count("miner_blocks_mined")
				// now and then offer a sibling of the fresh block to the mining node so
				// the worker has an uncle candidate
				if len(mined)%3 == 1 && b.NumberU64() > 1 {
					s := sibling(b)
					if _, err := bc.InsertChain(types.Blocks{s}); err == nil {
						sidesOffered++
					}
				}
				feed(r.Range(3, 10))
			case <-watchdog:
				c.Inconclusive("miner_watchdog")
				break loop
			}
		}
		m.Stop()
		sub.Unsubscribe()
		pool.Stop()
		if len(mined) == 0 {
			bc.Stop()
			return
		}
		// the chain the mining node ended on (mined blocks and, after a lost coin
		// flip, a sibling it was offered)
		head := bc.CurrentBlock()
		var canon []*types.Block
		for n := uint64(1); n <= head.NumberU64(); n++ {
			b := bc.GetBlockByNumber(n)
			if b == nil {
				break
			}
			canon = append(canon, b)
		}
		minedSet := map[common.Hash]bool{}
		for _, b := range mined {
			minedSet[b.Hash()] = true
		}
		nTx, nUncle, nBH := 0, 0, 0
		for _, b := range canon {
			nTx += len(b.Transactions())
			nUncle += len(b.Uncles())
			for _, tx := range b.Transactions() {
				if tx.To() != nil && *tx.To() == addrBlockhash {
					nBH++
				}
			}
		}
		c.CountN("miner_txs_in_blocks", nTx)
		c.CountN("miner_uncles_in_blocks", nUncle)
		c.CountN("miner_blockhash_txs_in_blocks", nBH)

		minerNode := &replica{c: c, name: "mining-node", w: w, db: db, bc: bc, digestEvery: 1}
		agree := newAgreement(c)
		for _, b := range canon {
			o := minerNode.observe(b, 0, true, "miner.WriteBlockWithState")
			agree.add(&o)
		}
		// independent nodes import what the miner produced
		for _, spec := range []struct {
			name   string
			cache  *core.CacheConfig
			single bool
		}{{"import-batch-pruning", nil, false}, {"import-single-archive", &core.CacheConfig{Disabled: true}, true}} {
			rep := newReplica(c, spec.name, w, spec.cache)
			var calls [][]*types.Block
			if spec.single {
				for _, b := range canon {
					calls = append(calls, []*types.Block{rlpCopy(w, b)})
				}
			} else {
				var all []*types.Block
				for _, b := range canon {
					all = append(all, rlpCopy(w, b))
				}
				calls = append(calls, all)
			}
			for _, blocks := range calls {
				idx, err := rep.insert(types.Blocks(blocks), "InsertChain")
				if err != nil {
					bad := blocks[min(idx, len(blocks)-1)]
					who := "mined by the worker"
					if !minedSet[bad.Hash()] {
						who = "sibling offered to the mining node"
					}
					c.Violate("valid_block_rejected", "InsertChain", "miner_block:"+errClass(err), fmt.Sprintf("%s: InsertChain(%d blocks from the mining node's canonical chain) = (%d, %v); failing block %d %x (%s)",
						spec.name, len(blocks), idx, err, bad.NumberU64(), bad.Hash(), who))
					break
				}
			}
			for i := range rep.log {
				for j := range rep.log[i].Obs {
					agree.add(&rep.log[i].Obs[j])
				}
			}
			if rep.bc.CurrentBlock().Hash() == head.Hash() {
				c.CountN("mined_blocks_reimported", len(canon))
			}
			rep.stop()
		}
		if c.Batch == 0 {
			c.Sample(map[string]interface{}{"case": id, "config": cfgName, "mined": len(mined), "canonical": len(canon), "txs": nTx, "uncles": nUncle,
				"blockhash_txs": nBH, "siblings_offered_to_miner": sidesOffered})
		}
		if nTx > 0 {
			c.Nontrivial(fmt.Sprintf("mined-%x", head.Hash()))
		}
		bc.Stop()
	})
}
