package c01

// Miner leg: blocks assembled by the node's real block-building path
// (opt/miner worker: commitNewWork -> commitTransactions -> Engine.Finalize ->
// Seal -> WriteBlockWithState) must be accepted by the import path of an
// independent node with identical receipts, logs, gas used and state.
//
// The worker stamps wall-clock seconds on its blocks, so the content of this
// leg is not a function of the seed alone; every mined block is written to the
// child log before it is imported. The clock never enters a verdict: the only
// timer is a generous watchdog whose firing is "inconclusive".

import (
	"encoding/hex"
	"fmt"
	"math/big"
	mrand "math/rand"
	"runtime"
	"strings"
	"time"

	"gitlab.com/aquachain/aquachain/aqua/accounts"
	aevent "gitlab.com/aquachain/aquachain/aqua/event"
	"gitlab.com/aquachain/aquachain/aquadb"
	"gitlab.com/aquachain/aquachain/common"
	"gitlab.com/aquachain/aquachain/core"
	"gitlab.com/aquachain/aquachain/core/types"
	"gitlab.com/aquachain/aquachain/opt/miner"
	"gitlab.com/aquachain/aquachain/rlp"
	"verif/internal/fw"
	"verif/internal/gen"
)

type minerBackend struct {
	bc   *core.BlockChain
	pool *core.TxPool
	db   aquadb.Database
	am   *accounts.Manager
}

func (b *minerBackend) AccountManager() *accounts.Manager { return b.am }
func (b *minerBackend) BlockChain() *core.BlockChain      { return b.bc }
func (b *minerBackend) TxPool() *core.TxPool              { return b.pool }
func (b *minerBackend) ChainDb() aquadb.Database          { return b.db }

var addrBlockhash = common.HexToAddress("0x00000000000000000000000000000000000c00bb")

// blockhashCode stores BLOCKHASH(number-1), BLOCKHASH(number-2) and
// BLOCKHASH(number-300) (out of window: zero) in slots 0..2.
func blockhashCode() []byte {
	const NUMBER, BLOCKHASH = 0x43, 0x40
	a := gen.NewAsm()
	a.Push(1).Op(NUMBER, gen.SUB, BLOCKHASH).Push(0).Op(gen.SSTORE)
	a.Push(2).Op(NUMBER, gen.SUB, BLOCKHASH).Push(1).Op(gen.SSTORE)
	a.Push(300).Op(NUMBER, gen.SUB, BLOCKHASH).Push(2).Op(gen.SSTORE)
	a.Op(gen.STOP)
	return a.Bytes()
}

func runMiner(c *fw.Ctx) {
	runLateStart(c)
	nBlocks := c.Pick(11, 40)
	cfgName := []string{"versions-2-3-4", "test-hf1to7"}[c.Batch%2]
	id := "mined-chain"
	c.Case(id, map[string]interface{}{"config": cfgName, "blocks_wanted": nBlocks, "note": "mined blocks are written to the child log (NOTE mined ...) before they are re-imported"}, func() {
		mrand.Seed(int64(c.Seed) + 77)
		w, r := newWorld(c, cfgName, "miner")
		w.Spec.Alloc[addrBlockhash] = core.GenesisAccount{Code: blockhashCode(), Balance: big.NewInt(0)}
		db, _ := w.NewDB()
		bc, err := w.NewChain(db, nil)
		if err != nil {
			panic(err)
		}
		poolCfg := core.DefaultTxPoolConfig
		poolCfg.Journal = ""
		pool := core.NewTxPool(poolCfg, w.Config, bc)
		mux := new(aevent.TypeMux)
		be := &minerBackend{bc: bc, pool: pool, db: db, am: accounts.NewManager()}
		m := miner.New(be, w.Config, mux, w.Faker())
		sub := mux.Subscribe(core.NewMinedBlockEvent{})
		coinbase := w.Coinbases[0]
		m.SetExtra([]byte("c01-miner"))

		var storagelessAddr common.Address
		feed := func(n int) {
			var txs []*types.Transaction
			next := map[int]uint64{}
			for i := 0; i < n; i++ {
				s := r.Intn(len(w.Keys))
				nonce, ok := next[s]
				if !ok {
					nonce = pool.State().GetNonce(w.Addrs[s])
				}
				kind := gen.AllTxKinds[r.Intn(len(gen.AllTxKinds))]
				num := new(big.Int).Add(bc.CurrentBlock().Number(), big.NewInt(1))
				var tx *types.Transaction
				if r.Chance(1, 4) {
					// BLOCKHASH user: only the real builder can execute it
					price := big.NewInt(int64(r.Range(1, 40)) * 1e9)
					raw := types.NewTransaction(nonce, addrBlockhash, big.NewInt(0), 120000, price, nil)
					tx, err = types.SignTx(raw, w.Signer(num), w.Keys[s])
					if err != nil {
						panic(err)
					}
					c.Count("miner_blockhash_tx_offered")
				} else {
					tx = w.MakeTx(r, kind, s, nonce, num)
				}
				next[s] = nonce + 1
				txs = append(txs, tx)
			}
			// the storage-less contract deployed by the first feed is called and probed
			// in every later feed (importers restart in between: its code must survive)
			for k, mk := range []func(nonce uint64, price *big.Int) *types.Transaction{
				func(nonce uint64, price *big.Int) *types.Transaction {
					return types.NewTransaction(nonce, storagelessAddr, big.NewInt(0), 150000, price, loggerCallData())
				},
				func(nonce uint64, price *big.Int) *types.Transaction {
					return types.NewTransaction(nonce, addrProbe, big.NewInt(0), 150000, price, gen.WordAddr(storagelessAddr))
				},
			} {
				if storagelessAddr == (common.Address{}) {
					break
				}
				s := (k + r.Intn(len(w.Keys)-1)) % len(w.Keys)
				nonce, ok := next[s]
				if !ok {
					nonce = pool.State().GetNonce(w.Addrs[s])
				}
				num := new(big.Int).Add(bc.CurrentBlock().Number(), big.NewInt(1))
				tx, err := types.SignTx(mk(nonce, big.NewInt(int64(r.Range(1, 40))*1e9)), w.Signer(num), w.Keys[s])
				if err != nil {
					panic(err)
				}
				next[s] = nonce + 1
				txs = append(txs, tx)
				c.Count("miner_storageless_contract_tx_offered")
			}
			for _, e := range pool.AddRemotes(txs) {
				if e != nil {
					c.Count("miner_pool_refused_tx")
				}
			}
		}

		{
			// deploy a contract that never writes storage
			n0 := pool.State().GetNonce(w.Addrs[0])
			raw := types.NewContractCreation(n0, big.NewInt(0), 300000, big.NewInt(50e9), gen.InitCodeFor(gen.LoggerCode()))
			tx, err := types.SignTx(raw, w.Signer(big.NewInt(1)), w.Keys[0])
			if err != nil {
				panic(err)
			}
			if e := pool.AddRemotes([]*types.Transaction{tx}); e[0] != nil {
				panic(e[0])
			}
		}
		feed(12)
		storagelessAddr = gen.CreatedAddress(w.Addrs[0], 0)
		m.Start(coinbase)
		var mined []*types.Block
		watchdog := time.After(25 * time.Minute) // generous: firing is inconclusive, never a verdict
		sidesOffered := 0
	loop:
		for len(mined) < nBlocks {
			select {
			case ev := <-sub.Chan():
				if ev == nil {
					break loop
				}
				b := ev.Data.(core.NewMinedBlockEvent).Block
				enc, _ := rlp.EncodeToBytes(b)
				c.Note("mined %d %s", b.NumberU64(), hex.EncodeToString(enc))
				mined = append(mined, b)
				c.Count("miner_blocks_mined")
				// now and then offer a sibling of the fresh block to the mining node so
				// the worker has an uncle candidate
				if len(mined) == 1 {
					// a burst of distinct siblings of the first mined block: the worker
					// takes one uncle per block, so the burst is consumed at depths
					// 1,2,..,6 and the next candidate reaches the edge of the uncle
					// window (depth 7: its parent is the 8th ancestor) where the worker
					// must drop it
					for k := 1; k <= 9; k++ {
						if _, err := bc.InsertChain(types.Blocks{siblingN(b, k)}); err == nil {
							sidesOffered++
							c.Count("miner_sibling_burst_offered")
						}
					}
				} else if len(mined)%3 == 1 && b.NumberU64() > 1 {
					s := sibling(b)
					if _, err := bc.InsertChain(types.Blocks{s}); err == nil {
						sidesOffered++
					}
				}
				feed(r.Range(3, 10))
			case <-watchdog:
				c.Inconclusive("miner_watchdog")
				break loop
			}
		}
		// Stop order matters to the harness, not to the property: Miner.Stop clears
		// the worker's mining flag, after which its update loop applies every still
		// buffered TxPreEvent to the current work's state while wait() may be
		// committing that same state for a late seal result (unsynchronised in
		// opt/miner/worker.go: "concurrent map writes" kills the process; seen once
		// in a fresh-sandbox run, 3 of ~500 runs of this leg). The pool goes first -
		// its closing subscription ends the update loop while the flag still makes
		// it ignore transactions - and the miner is stopped once that loop is gone.
		updLoops := strings.Count(allStacks(), "opt/miner.(*worker).update(")
		pool.Stop()
		for i := 0; updLoops > 0 && i < 20000; i++ {
			if strings.Count(allStacks(), "opt/miner.(*worker).update(") < updLoops {
				c.Count("miner_update_loop_seen_exiting_before_stop")
				break
			}
			time.Sleep(time.Millisecond)
		}
		m.Stop()
		sub.Unsubscribe()
		if len(mined) == 0 {
			bc.Stop()
			return
		}
		// the chain the mining node ended on (mined blocks and, after a lost coin
		// flip, a sibling it was offered)
		head := bc.CurrentBlock()
		var canon []*types.Block
		for n := uint64(1); n <= head.NumberU64(); n++ {
			b := bc.GetBlockByNumber(n)
			if b == nil {
				break
			}
			canon = append(canon, b)
		}
		minedSet := map[common.Hash]bool{}
		for _, b := range mined {
			minedSet[b.Hash()] = true
		}
		nTx, nUncle, nBH := 0, 0, 0
		for _, b := range canon {
			nTx += len(b.Transactions())
			nUncle += len(b.Uncles())
			for _, u := range b.Uncles() {
				c.Count(fmt.Sprintf("miner_uncle_included_at_depth:%d", b.NumberU64()-u.Number.Uint64()))
			}
			for _, tx := range b.Transactions() {
				if tx.To() != nil && *tx.To() == addrBlockhash {
					nBH++
				}
			}
		}
		c.CountN("miner_txs_in_blocks", nTx)
		c.CountN("miner_uncles_in_blocks", nUncle)
		c.CountN("miner_blockhash_txs_in_blocks", nBH)

		minerNode := &replica{c: c, name: "mining-node", w: w, db: db, bc: bc, digestEvery: 1}
		agree := newAgreement(c)
		for _, b := range canon {
			o := minerNode.observe(b, 0, true, "miner.WriteBlockWithState")
			agree.add(&o)
		}
		// independent nodes import what the miner produced
		for _, spec := range []struct {
			name    string
			cache   *core.CacheConfig
			single  bool
			restart bool
		}{{"import-batch-pruning", nil, false, false}, {"import-single-archive", &core.CacheConfig{Disabled: true}, true, false},
			{"import-single-restarts-pruning", nil, true, true}, {"import-single-restarts-archive", &core.CacheConfig{Disabled: true}, true, true}} {
			rep := newReplica(c, spec.name, w, spec.cache)
			var calls [][]*types.Block
			if spec.single {
				for _, b := range canon {
					calls = append(calls, []*types.Block{rlpCopy(w, b)})
				}
			} else {
				var all []*types.Block
				for _, b := range canon {
					all = append(all, rlpCopy(w, b))
				}
				calls = append(calls, all)
			}
			for ci, blocks := range calls {
				if spec.restart && ci > 0 {
					rep.restart()
					c.Count("miner_importer_restarts")
				}
				idx, err := rep.insert(types.Blocks(blocks), "InsertChain")
				if err != nil {
					bad := blocks[min(idx, len(blocks)-1)]
					who := "mined by the worker"
					if !minedSet[bad.Hash()] {
						who = "sibling offered to the mining node"
					}
					c.Violate("valid_block_rejected", "InsertChain", "miner_block:"+errClass(err), fmt.Sprintf("%s: InsertChain(%d blocks from the mining node's canonical chain) = (%d, %v); failing block %d %x (%s)",
						spec.name, len(blocks), idx, err, bad.NumberU64(), bad.Hash(), who))
					break
				}
			}
			for i := range rep.log {
				for j := range rep.log[i].Obs {
					agree.add(&rep.log[i].Obs[j])
				}
			}
			if rep.bc.CurrentBlock().Hash() == head.Hash() {
				c.CountN("mined_blocks_reimported", len(canon))
			}
			rep.stop()
		}
		if c.Batch == 0 {
			c.Sample(map[string]interface{}{"case": id, "config": cfgName, "mined": len(mined), "canonical": len(canon), "txs": nTx, "uncles": nUncle,
				"blockhash_txs": nBH, "siblings_offered_to_miner": sidesOffered})
		}
		if nTx > 0 {
			c.Nontrivial(fmt.Sprintf("mined-%x", head.Hash()))
		}
		bc.Stop()
	})
}

// siblingN: the k-th distinct valid sibling of b (extra-data differs).
func siblingN(b *types.Block, k int) *types.Block {
	h := b.Header()
	e := append([]byte{}, h.Extra...)
	if len(e) >= 32 {
		e[31] ^= byte(k)
		e[30] ^= 0xa5
	} else {
		e = append(e, byte(0x80+k))
	}
	h.Extra = e
	return rebuild(h, b.Transactions(), b.Uncles())
}

type miningNode struct {
	db   *aquadb.MemDatabase
	bc   *core.BlockChain
	pool *core.TxPool
	mux  *aevent.TypeMux
	m    *miner.Miner
}

func newMiningNode(w *gen.World) *miningNode {
	db, _ := w.NewDB()
	bc, err := w.NewChain(db, nil)
	if err != nil {
		panic(err)
	}
	poolCfg := core.DefaultTxPoolConfig
	poolCfg.Journal = ""
	pool := core.NewTxPool(poolCfg, w.Config, bc)
	mux := new(aevent.TypeMux)
	m := miner.New(&minerBackend{bc: bc, pool: pool, db: db, am: accounts.NewManager()}, w.Config, mux, w.Faker())
	return &miningNode{db: db, bc: bc, pool: pool, mux: mux, m: m}
}

func (n *miningNode) stop() {
	n.m.Stop()
	n.pool.Stop()
	n.bc.Stop()
}

// lateStartDepths: uncle depth (height of the block to be mined minus height of
// the remembered side block). 2 and 6 are inside the window the import path
// accepts (the uncle's parent is the 2nd / 7th ancestor), 7 and 8 are outside
// (parent = 8th / 9th ancestor): whatever the worker does with such a candidate,
// the block it seals must pass its own import path.
var lateStartDepths = []int{2, 6, 7, 8}

// runLateStart: a node follows k builder-made blocks it did not mine and sees one
// competing block at a chosen height while its miner is idle (the side block
// reaches worker.possibleUncles through ChainSideEvent); then the miner is
// started. The first block it seals is given to an independent node that knows
// the same blocks.
func runLateStart(c *fw.Ctx) {
	cfgName := []string{"versions-2-3-4", "test-hf1to7"}[c.Batch%2]
	reps := c.Pick(1, 4)
	for rep := 0; rep < reps; rep++ {
		for _, depth := range lateStartDepths {
			w, r := newWorld(c, cfgName, "latestart", fmt.Sprint(rep), fmt.Sprint(depth))
			k := depth + r.Intn(3) // blocks followed while idle
			h := k + 1 - depth     // height of the competing block
			id := fmt.Sprintf("late-start-%d-depth-%d", rep, depth)
			c.Case(id, map[string]interface{}{"config": cfgName, "followed_blocks": k, "side_block_height": h, "uncle_depth_for_next_block": depth,
				"note": "the sealed block is written to the child log (NOTE mined ...) before it is re-imported"}, func() {
				mrand.Seed(int64(c.Seed)*31 + int64(rep*10+depth))
				var main []*types.Block
				var side *types.Block
				built := func() (ok bool) {
					defer func() {
						if p := recover(); p != nil {
							c.Violate("builder_failed", "GenerateChain", builderErrClass(fmt.Sprint(p)), fmt.Sprintf("core.GenerateChain failed while assembling the followed chain: %v", p))
						}
					}()
					t := gen.NewTree(w)
					parent := t.Genesis
					for i := 0; i < k; i++ {
						b := t.Add(r, parent, gen.BlockPlan{Coinbase: w.Coinbases[1], Kinds: gen.RandomKinds(r, r.Intn(4))})
						main = append(main, b.Block)
						parent = b.Block
					}
					sideParent := t.Genesis
					if h > 1 {
						sideParent = main[h-2]
					}
					side = t.Add(r, sideParent, gen.BlockPlan{Coinbase: w.Coinbases[2], Extra: []byte("competitor"), Kinds: gen.RandomKinds(r, r.Intn(2))}).Block
					return true
				}()
				if !built {
					return
				}

				n := newMiningNode(w)
				defer n.stop()
				if _, err := n.bc.InsertChain(types.Blocks(main)); err != nil {
					c.Violate("valid_block_rejected", "InsertChain", errClass(err), fmt.Sprintf("mining node (idle): import of %d builder blocks: %v", k, err))
					return
				}
				// the idle worker has prepared work on top of block k
				deadline := time.Now().Add(20 * time.Minute)
				for n.m.PendingBlock().NumberU64() != uint64(k+1) {
					if time.Now().After(deadline) {
						c.Inconclusive("late_start_pending_work_watchdog")
						return
					}
					time.Sleep(5 * time.Millisecond)
				}
				// the competitor arrives after the chain has passed it: a side block
				if _, err := n.bc.InsertChain(types.Blocks{side}); err != nil {
					c.Violate("valid_block_rejected", "InsertChain", errClass(err), fmt.Sprintf("mining node (idle): import of the side block at height %d: %v", h, err))
					return
				}
				if n.bc.CurrentBlock().Hash() != main[k-1].Hash() {
					c.Count("late_start_side_block_became_head")
					return
				}
				c.Count(fmt.Sprintf("miner_uncle_candidate_at_depth:%d", depth))
				// the event is in the worker's channel; let its loop take it (no verdict
				// depends on this pause: a missed candidate only shows in the gate counters)
				time.Sleep(1500 * time.Millisecond)
				sub := n.mux.Subscribe(core.NewMinedBlockEvent{})
				defer sub.Unsubscribe()
				n.m.SetExtra([]byte("c01-late"))
				n.m.Start(w.Coinbases[0])
				var mined *types.Block
				select {
				case ev := <-sub.Chan():
					if ev != nil {
						mined = ev.Data.(core.NewMinedBlockEvent).Block
					}
				case <-time.After(20 * time.Minute):
				}
				n.m.Stop()
				if mined == nil {
					c.Inconclusive("late_start_mining_watchdog")
					return
				}
				enc, _ := rlp.EncodeToBytes(mined)
				c.Note("mined %d %s", mined.NumberU64(), hex.EncodeToString(enc))
				c.Count("miner_late_start_blocks_mined")
				included := false
				for _, u := range mined.Uncles() {
					c.Count(fmt.Sprintf("miner_uncle_included_at_depth:%d", mined.NumberU64()-u.Number.Uint64()))
					if u.Number.Uint64() == uint64(h) {
						included = true
					}
				}
				if included {
					c.Count(fmt.Sprintf("miner_late_start_uncle_included_at_depth:%d", depth))
				}
				// an independent node with the same view imports the sealed block
				imp := newReplica(c, "late-start-importer", w, nil)
				defer imp.stop()
				if !mustImport(c, imp, main, "late-start importer") || !mustImport(c, imp, []*types.Block{side}, "late-start importer (side block)") {
					return
				}
				idx, err := imp.insert(types.Blocks{rlpCopy(w, mined)}, "InsertChain")
				if err != nil {
					c.Violate("valid_block_rejected", "InsertChain", "miner_block:"+errClass(err), fmt.Sprintf("late start: node followed %d blocks, saw a competitor at height %d, then sealed block %d with %d uncle(s) (competitor included: %v); InsertChain on an independent node = (%d, %v)",
						k, h, mined.NumberU64(), len(mined.Uncles()), included, idx, err))
					return
				}
				c.Count("mined_blocks_reimported")
				// what the mining node stored for its own block equals what the importer computed
				agree := newAgreement(c)
				mn := &replica{c: c, name: "mining-node", w: w, db: n.db, bc: n.bc, digestEvery: 1}
				o := mn.observe(mined, 0, true, "miner.WriteBlockWithState")
				agree.add(&o)
				for i := range imp.log {
					for j := range imp.log[i].Obs {
						agree.add(&imp.log[i].Obs[j])
					}
				}
				c.Nontrivial(fmt.Sprintf("late-%x", mined.Hash()))
			})
		}
	}
}

func loggerCallData() []byte {
	return gen.Cat(gen.WordU(2), gen.LogTopic(1).Bytes(), gen.LogTopic(2).Bytes(), gen.LogTopic(3).Bytes(), gen.LogTopic(0).Bytes(), []byte("c01"))
}

func allStacks() string {
	buf := make([]byte, 1<<20)
	for {
		n := runtime.Stack(buf, true)
		if n < len(buf) {
			return string(buf[:n])
		}
		buf = make([]byte, 2*len(buf))
	}
}
