package c01

// Forced templates of the replica leg (deterministic content, PRNG only varies
// parameters):
//
//   - branch-dependent code: three branches put DIFFERENT things at the same
//     CREATE address (same sender and nonce: a store contract / a logger contract
//     / a plain funded account) and a LATER block of each branch executes
//     EXTCODESIZE + EXTCODECOPY on that address through a probe contract. The
//     branches are imported in every order through one long-lived (warm) node and
//     through nodes restarted between the branches (cold).
//   - storage-less contract across a restart: a contract that never writes
//     storage is deployed in block n; the node is stopped and re-created; block
//     n+1 calls the contract and probes its code.

import (
	"fmt"
	"math/big"
	"regexp"
	"strings"

	"gitlab.com/aquachain/aquachain/common"
	"gitlab.com/aquachain/aquachain/core"
	"gitlab.com/aquachain/aquachain/core/state"
	"gitlab.com/aquachain/aquachain/core/types"
	"verif/internal/fw"
	"verif/internal/gen"
)

var addrProbe = common.HexToAddress("0x00000000000000000000000000000000000c00cc")

// probeCode: calldata = address a (32 bytes): storage[a] = EXTCODESIZE(a);
// storage[a+1] = first 32 bytes of EXTCODECOPY(a).
func probeCode() []byte {
	const EXTCODESIZE, EXTCODECOPY = 0x3b, 0x3c
	a := gen.NewAsm()
	a.Push(0).Op(gen.CALLDATALOAD)              // [a]
	a.Op(gen.DUP1, EXTCODESIZE, gen.DUP2)       // [a, size, a]
	a.Op(gen.SSTORE)                            // [a]
	a.Push(32).Push(0).Push(0).Op(gen.DUP4)     // [a, 32, 0, 0, a]
	a.Op(EXTCODECOPY)                           // [a]
	a.Push(0).Op(gen.MLOAD, gen.SWAP1)          // [w, a]
	a.Push(1).Op(gen.ADD, gen.SSTORE, gen.STOP) // storage[a+1] = w
	return a.Bytes()
}

var reHex = regexp.MustCompile(`(0x)?[0-9a-fA-F]{6,}`)
var reNum = regexp.MustCompile(`[0-9]+`)

// builderErrClass: a stable class for a failure of the block builder (no hashes,
// addresses or numbers).
func builderErrClass(msg string) string {
	if i := strings.IndexByte(msg, '\n'); i >= 0 {
		msg = msg[:i]
	}
	msg = reHex.ReplaceAllString(msg, "H")
	msg = reNum.ReplaceAllString(msg, "N")
	var b strings.Builder
	for _, ch := range msg {
		switch {
		case (ch >= 'a' && ch <= 'z') || (ch >= 'A' && ch <= 'Z'):
			b.WriteRune(ch)
		case b.Len() > 0 && !strings.HasSuffix(b.String(), "_"):
			b.WriteByte('_')
		}
		if b.Len() > 80 {
			break
		}
	}
	return strings.Trim(b.String(), "_")
}

// build runs fn (which drives the node's own block builder, core.GenerateChain)
// as a case of its own; a panic in it is reported as clause builder_failed: the
// building path could not assemble the input blocks with the code under test.
func build(c *fw.Ctx, id string, input interface{}, fn func()) (ok bool) {
	c.Case(id, input, func() {
		defer func() {
			if r := recover(); r != nil {
				msg := fmt.Sprint(r)
				c.Violate("builder_failed", "GenerateChain", builderErrClass(msg), "the node's block-building path (core.GenerateChain: ApplyTransaction + Engine.Finalize + StateDB.Commit) failed while assembling the generated blocks: "+msg)
			}
		}()
		fn()
		ok = true
	})
	return ok
}

type forcedTree struct {
	t      *gen.Tree
	idx    map[string]int // block name -> index in t.Order
	prefix []int
	sizes  map[string]uint64 // EXTCODESIZE the builder stored for the shared address at each branch tip
}

func genNonce(t *gen.Tree, at *types.Block, a common.Address) uint64 {
	st, err := state.New(at.Root(), state.NewDatabase(t.GenDB))
	if err != nil {
		panic(err)
	}
	return st.GetNonce(a)
}

func genProbeSlot(t *gen.Tree, at *types.Block, a common.Address) uint64 {
	st, err := state.New(at.Root(), state.NewDatabase(t.GenDB))
	if err != nil {
		panic(err)
	}
	return st.GetState(addrProbe, common.BytesToHash(a[:])).Big().Uint64()
}

func buildForcedTree(w *gen.World, r *fw.Rand) *forcedTree {
	t := gen.NewTree(w)
	f := &forcedTree{t: t, idx: map[string]int{}, sizes: map[string]uint64{}}
	price := big.NewInt(2e9)
	sign := func(s int, tx *types.Transaction, num uint64) *gen.TxMeta {
		signed, err := types.SignTx(tx, w.Signer(new(big.Int).SetUint64(num)), w.Keys[s])
		if err != nil {
			panic(err)
		}
		return &gen.TxMeta{Kind: "forced", Sender: s, Tx: signed}
	}
	add := func(name string, parent *types.Block, txs ...func(num uint64, nonce func(s int) uint64) *gen.TxMeta) *types.Block {
		num := parent.NumberU64() + 1
		used := map[int]uint64{}
		nonce := func(s int) uint64 {
			n, ok := used[s]
			if !ok {
				n = genNonce(t, parent, w.Addrs[s])
			}
			used[s] = n + 1
			return n
		}
		var reuse []*gen.TxMeta
		for _, mk := range txs {
			reuse = append(reuse, mk(num, nonce))
		}
		b := t.Add(r, parent, gen.BlockPlan{Coinbase: w.Coinbases[r.Intn(len(w.Coinbases))], Reuse: reuse})
		if len(b.Txs) != len(reuse) {
			panic(fmt.Sprintf("forced block %s: %d of %d transactions included", name, len(b.Txs), len(reuse)))
		}
		f.idx[name] = len(t.Order) - 1
		return b.Block
	}
	create := func(s int, init []byte) func(uint64, func(int) uint64) *gen.TxMeta {
		return func(num uint64, nonce func(int) uint64) *gen.TxMeta {
			return sign(s, types.NewContractCreation(nonce(s), big.NewInt(0), 300000, price, init), num)
		}
	}
	call := func(s int, to common.Address, val int64, data []byte) func(uint64, func(int) uint64) *gen.TxMeta {
		return func(num uint64, nonce func(int) uint64) *gen.TxMeta {
			return sign(s, types.NewTransaction(nonce(s), to, big.NewInt(val), 150000, price, data), num)
		}
	}
	probe := func(s int, target common.Address) func(uint64, func(int) uint64) *gen.TxMeta {
		return call(s, addrProbe, 0, gen.WordAddr(target))
	}
	logData := gen.Cat(gen.WordU(2), gen.LogTopic(1).Bytes(), gen.LogTopic(2).Bytes(), gen.LogTopic(3).Bytes(), gen.LogTopic(0).Bytes(), []byte("c01"))

	// prefix: PRNG blocks
	parent := t.Genesis
	for i, n := 0, r.Range(1, 3); i < n; i++ {
		b := t.Add(r, parent, gen.BlockPlan{Coinbase: w.Coinbases[0], Kinds: gen.RandomKinds(r, r.Intn(4))})
		f.prefix = append(f.prefix, len(t.Order)-1)
		parent = b.Block
	}
	// D1 deploys a contract that never writes storage; D2 (after a restart in the
	// cold histories) calls it and probes its code
	n0 := genNonce(t, parent, w.Addrs[0])
	a0 := gen.CreatedAddress(w.Addrs[0], n0)
	d1 := add("D1", parent, create(0, gen.InitCodeFor(gen.LoggerCode())))
	d2 := add("D2", d1, call(1, a0, 0, logData), probe(2, a0), call(1, gen.AddrStore, 0, gen.Cat(gen.WordU(1), gen.WordU(7))))
	if got := genProbeSlot(t, d2, a0); got != uint64(len(gen.LoggerCode())) {
		panic(fmt.Sprintf("forced template: probe of the storage-less contract stored %d, code has %d bytes", got, len(gen.LoggerCode())))
	}
	// three branches on D2: the same CREATE address carries different things
	n3 := genNonce(t, d2, w.Addrs[3])
	ax := gen.CreatedAddress(w.Addrs[3], n3)
	x1 := add("X1", d2, create(3, gen.InitOK()))
	x2 := add("X2", x1, probe(5, ax), call(4, ax, 0, gen.Cat(gen.WordU(3), gen.WordU(9))))
	y1 := add("Y1", d2, create(3, gen.InitCodeFor(gen.LoggerCode())))
	y2 := add("Y2", y1, probe(5, ax), call(4, ax, 0, logData))
	z1 := add("Z1", d2, call(4, ax, 1, nil))
	z2 := add("Z2", z1, probe(5, ax))
	f.sizes["X"], f.sizes["Y"], f.sizes["Z"] = genProbeSlot(t, x2, ax), genProbeSlot(t, y2, ax), genProbeSlot(t, z2, ax)
	return f
}

// specs: the arrival histories of the forced tree (on top of the six generic ones).
func (f *forcedTree) specs() []*repSpec {
	one := func(names ...string) (out []step) {
		for _, n := range names {
			out = append(out, step{B: []int{f.idx[n]}})
		}
		return out
	}
	var pre []step
	for _, p := range f.prefix {
		pre = append(pre, step{B: []int{p}})
	}
	cat := func(parts ...[]step) (out []step) {
		out = append(out, pre...)
		for _, p := range parts {
			out = append(out, p...)
		}
		return out
	}
	restart := []step{{R: true}}
	batch := func(names ...string) []step {
		var b []int
		for _, n := range names {
			b = append(b, f.idx[n])
		}
		return []step{{B: b}}
	}
	mk := func(name string, cc *core.CacheConfig, rlp bool, steps []step) *repSpec {
		return &repSpec{Name: name, Cache: cacheName(cc), cache: cc, RLP: rlp, Steps: steps}
	}
	archive := &core.CacheConfig{Disabled: true}
	return []*repSpec{
		mk("F1-warm-XYZ-archive", archive, false, cat(one("D1", "D2", "X1", "X2", "Y1", "Y2", "Z1", "Z2"))),
		mk("F2-warm-ZYX-pruning", nil, true, cat(one("D1", "D2", "Z1", "Z2", "Y1", "Y2", "X1", "X2"))),
		mk("F3-warm-YXZ-batches", &core.CacheConfig{TrieNodeLimit: 0, TrieTimeLimit: 0}, true, cat(batch("D1", "D2"), batch("Y1", "Y2"), batch("X1", "X2"), batch("Z1", "Z2"))),
		mk("F4-cold-pruning", nil, true, cat(one("D1"), restart, one("D2", "X1", "X2"), restart, one("Y1", "Y2"), restart, one("Z1", "Z2"))),
		mk("F5-cold-archive", archive, true, cat(one("D1"), restart, one("D2", "Y1", "Y2"), restart, one("X1", "X2"), restart, one("Z1", "Z2"))),
		mk("F6-warm-interleaved", nil, true, cat(one("D1", "D2", "X1", "Y1", "Z1", "X2", "Y2", "Z2"))),
	}
}

func runForced(c *fw.Ctx, race bool) {
	cfgName := configNames[c.Batch%len(configNames)]
	w, r := newWorld(c, cfgName, "forced")
	var f *forcedTree
	if !build(c, "forced-tree-build", map[string]interface{}{"config": cfgName}, func() { f = buildForcedTree(w, r) }) {
		return
	}
	ti := indexTree(f.t)
	reps := append(f.specs(), replicaSpecs(r.Fork("hist"), f.t, ti, false)...)
	if race {
		for _, rs := range reps {
			rs.Readers = 4
		}
	}
	in := treeInput{Config: cfgName, Reps: reps}
	id := "forced-tree"
	c.Case(id, map[string]interface{}{"config": cfgName, "template": "branch-dependent code at one CREATE address + storage-less contract across a restart",
		"builder_extcodesize_at_branch_tips": f.sizes, "replicas": reps}, func() {
		// the template is only what it claims to be if the builder saw three different sizes
		if f.sizes["X"] != f.sizes["Y"] && f.sizes["X"] != 0 && f.sizes["Y"] != 0 && f.sizes["Z"] == 0 {
			c.CountN("codesize_probe_of_branch_dependent_address", 3)
		}
		c.CountN("storageless_contract_called_after_restart", 2) // F4, F5
		runTree(c, id, f.t, ti, in)
	})
}
