package c01

import (
	"bytes"
	"encoding/hex"
	"fmt"
	mrand "math/rand"
	"sort"

	"gitlab.com/aquachain/aquachain/aquadb"
	"gitlab.com/aquachain/aquachain/common"
	"gitlab.com/aquachain/aquachain/core"
	"gitlab.com/aquachain/aquachain/core/types"
	"verif/internal/fw"
	"verif/internal/gen"
	"verif/internal/ref/refhash"
)

// corruptCtx is what a corruption may draw on.
type corruptCtx struct {
	r      *fw.Rand
	t      *gen.Tree
	parent *types.Block    // parent of the block being corrupted
	other  *types.Block    // another held-out block (source of foreign transactions)
	spare  []*types.Header // valid uncle candidates for a child of parent, not used by the block
}

type corruptKind struct {
	name string
	// apply returns the corrupted block, or nil if the block does not meet the
	// precondition (no transactions, no uncles, ...).
	apply func(x *corruptCtx, b *types.Block) *types.Block
}

func rebuild(h *types.Header, txs []*types.Transaction, uncles []*types.Header) *types.Block {
	return types.NewBlockWithHeader(h).WithBody(txs, uncles)
}

func flip(h common.Hash, r *fw.Rand) common.Hash {
	h[r.Intn(32)] ^= 1 << uint(r.Intn(8))
	return h
}

func hdr(kind string, f func(x *corruptCtx, b *types.Block, h *types.Header) bool) corruptKind {
	return corruptKind{name: kind, apply: func(x *corruptCtx, b *types.Block) *types.Block {
		h := b.Header()
		if !f(x, b, h) {
			return nil
		}
		return rebuild(h, b.Transactions(), b.Uncles())
	}}
}

// body edits; fix selects whether the matching header commitment is re-computed
// (so the edit survives ValidateBody and must be caught by execution).
func body(kind string, f func(x *corruptCtx, b *types.Block) (txs []*types.Transaction, uncles []*types.Header, ok bool), fix bool) corruptKind {
	return corruptKind{name: kind, apply: func(x *corruptCtx, b *types.Block) *types.Block {
		txs, uncles, ok := f(x, b)
		if !ok {
			return nil
		}
		h := b.Header()
		if fix {
			h.TxHash = types.DeriveSha(types.Transactions(txs))
			h.UncleHash = types.CalcUncleHash(uncles)
		}
		return rebuild(h, txs, uncles)
	}}
}

func cpTxs(b *types.Block) []*types.Transaction {
	return append([]*types.Transaction{}, b.Transactions()...)
}

func fabricatedUncle(x *corruptCtx) *types.Header {
	// a sibling of the parent: the parent's own header with other extra-data is
	// valid against the grandparent and is neither an ancestor nor dangling
	if x.parent.NumberU64() == 0 {
		return nil
	}
	u := x.parent.Header()
	u.Extra = []byte("c01-fabricated-uncle")
	u.Coinbase = common.Address{0xc0, 0x01}
	return u
}

func pickUncle(x *corruptCtx) *types.Header {
	if len(x.spare) > 0 {
		return types.CopyHeader(x.spare[x.r.Intn(len(x.spare))])
	}
	return fabricatedUncle(x)
}

var corruptKinds = []corruptKind{
	// --- header commitments -------------------------------------------------
	hdr("tx_root_bit", func(x *corruptCtx, b *types.Block, h *types.Header) bool { h.TxHash = flip(h.TxHash, x.r); return true }),
	hdr("uncle_hash_bit", func(x *corruptCtx, b *types.Block, h *types.Header) bool {
		h.UncleHash = flip(h.UncleHash, x.r)
		return true
	}),
	hdr("state_root_bit", func(x *corruptCtx, b *types.Block, h *types.Header) bool { h.Root = flip(h.Root, x.r); return true }),
	hdr("state_root_of_parent", func(x *corruptCtx, b *types.Block, h *types.Header) bool {
		h.Root = x.parent.Root()
		return h.Root != b.Root()
	}),
	hdr("receipt_root_bit", func(x *corruptCtx, b *types.Block, h *types.Header) bool {
		h.ReceiptHash = flip(h.ReceiptHash, x.r)
		return true
	}),
	hdr("receipt_root_empty", func(x *corruptCtx, b *types.Block, h *types.Header) bool {
		h.ReceiptHash = types.EmptyRootHash
		return len(b.Transactions()) > 0
	}),
	hdr("bloom_bit_set", func(x *corruptCtx, b *types.Block, h *types.Header) bool {
		for tries := 0; tries < 64; tries++ {
			i, m := x.r.Intn(256), byte(1)<<uint(x.r.Intn(8))
			if h.Bloom[i]&m == 0 {
				h.Bloom[i] |= m
				return true
			}
		}
		return false
	}),
	hdr("bloom_bit_clear", func(x *corruptCtx, b *types.Block, h *types.Header) bool {
		var set [][2]int
		for i := range h.Bloom {
			for k := 0; k < 8; k++ {
				if h.Bloom[i]&(1<<uint(k)) != 0 {
					set = append(set, [2]int{i, k})
				}
			}
		}
		if len(set) == 0 {
			return false
		}
		s := set[x.r.Intn(len(set))]
		h.Bloom[s[0]] &^= 1 << uint(s[1])
		return true
	}),
	hdr("gas_used_plus_one", func(x *corruptCtx, b *types.Block, h *types.Header) bool { h.GasUsed++; return true }),
	hdr("gas_used_minus_one", func(x *corruptCtx, b *types.Block, h *types.Header) bool {
		if h.GasUsed == 0 {
			return false
		}
		h.GasUsed--
		return true
	}),
	// --- body edits, header untouched --------------------------------------
	body("drop_tx", func(x *corruptCtx, b *types.Block) ([]*types.Transaction, []*types.Header, bool) {
		txs := cpTxs(b)
		if len(txs) == 0 {
			return nil, nil, false
		}
		i := x.r.Intn(len(txs))
		return append(txs[:i], txs[i+1:]...), b.Uncles(), true
	}, false),
	body("dup_tx", func(x *corruptCtx, b *types.Block) ([]*types.Transaction, []*types.Header, bool) {
		txs := cpTxs(b)
		if len(txs) == 0 {
			return nil, nil, false
		}
		return append(txs, txs[x.r.Intn(len(txs))]), b.Uncles(), true
	}, false),
	body("swap_tx", func(x *corruptCtx, b *types.Block) ([]*types.Transaction, []*types.Header, bool) {
		txs := cpTxs(b)
		for tries := 0; tries < 16 && len(txs) >= 2; tries++ {
			i := x.r.Intn(len(txs) - 1)
			if txs[i].Hash() != txs[i+1].Hash() {
				txs[i], txs[i+1] = txs[i+1], txs[i]
				return txs, b.Uncles(), true
			}
		}
		return nil, nil, false
	}, false),
	body("replace_tx", func(x *corruptCtx, b *types.Block) ([]*types.Transaction, []*types.Header, bool) {
		txs := cpTxs(b)
		if len(txs) == 0 || x.other == nil || len(x.other.Transactions()) == 0 {
			return nil, nil, false
		}
		f := x.other.Transactions()[x.r.Intn(len(x.other.Transactions()))]
		i := x.r.Intn(len(txs))
		if txs[i].Hash() == f.Hash() {
			return nil, nil, false
		}
		txs[i] = f
		return txs, b.Uncles(), true
	}, false),
	body("drop_uncle", func(x *corruptCtx, b *types.Block) ([]*types.Transaction, []*types.Header, bool) {
		u := b.Uncles()
		if len(u) == 0 {
			return nil, nil, false
		}
		return cpTxs(b), u[1:], true
	}, false),
	body("add_uncle", func(x *corruptCtx, b *types.Block) ([]*types.Transaction, []*types.Header, bool) {
		u := pickUncle(x)
		if u == nil || len(b.Uncles()) > 0 {
			return nil, nil, false
		}
		return cpTxs(b), []*types.Header{u}, true
	}, false),
	body("alter_uncle", func(x *corruptCtx, b *types.Block) ([]*types.Transaction, []*types.Header, bool) {
		u := b.Uncles()
		if len(u) == 0 {
			return nil, nil, false
		}
		u[0].Coinbase[0] ^= 0x80
		return cpTxs(b), u, true
	}, false),
	// --- body edits with the commitment re-computed -------------------------
	body("drop_last_tx_fixed_root", func(x *corruptCtx, b *types.Block) ([]*types.Transaction, []*types.Header, bool) {
		txs := cpTxs(b)
		if len(txs) == 0 {
			return nil, nil, false
		}
		return txs[:len(txs)-1], b.Uncles(), true
	}, true),
	body("dup_last_tx_fixed_root", func(x *corruptCtx, b *types.Block) ([]*types.Transaction, []*types.Header, bool) {
		txs := cpTxs(b)
		if len(txs) == 0 {
			return nil, nil, false
		}
		return append(txs, txs[len(txs)-1]), b.Uncles(), true
	}, true),
	body("drop_uncle_fixed_hash", func(x *corruptCtx, b *types.Block) ([]*types.Transaction, []*types.Header, bool) {
		u := b.Uncles()
		if len(u) == 0 {
			return nil, nil, false
		}
		return cpTxs(b), u[1:], true
	}, true),
	body("add_uncle_fixed_hash", func(x *corruptCtx, b *types.Block) ([]*types.Transaction, []*types.Header, bool) {
		u := pickUncle(x)
		if u == nil || len(b.Uncles()) > 0 {
			return nil, nil, false
		}
		return cpTxs(b), []*types.Header{u}, true
	}, true),
	body("alter_uncle_fixed_hash", func(x *corruptCtx, b *types.Block) ([]*types.Transaction, []*types.Header, bool) {
		u := b.Uncles()
		if len(u) == 0 {
			return nil, nil, false
		}
		u[0].Coinbase[0] ^= 0x80
		return cpTxs(b), u, true
	}, true),
}

var corruptModes = []string{"tip", "after_known", "midbatch", "sidefork", "deferred_sidefork"}

// sibling returns b with different extra-data: another valid block on the same
// parent (nothing the block executes reads the extra-data), with a hash the
// node has never seen.
func sibling(b *types.Block) *types.Block {
	h := b.Header()
	if len(h.Extra) >= 32 {
		h.Extra = append([]byte{}, h.Extra...)
		h.Extra[31] ^= 0x5a
	} else {
		h.Extra = append(append([]byte{}, h.Extra...), 0x5a)
	}
	return rebuild(h, b.Transactions(), b.Uncles())
}

// relink re-parents the valid chain `rest` onto newParent (only ParentHash changes).
func relink(newParent *types.Block, rest []*types.Block) []*types.Block {
	out := make([]*types.Block, len(rest))
	p := newParent
	for i, b := range rest {
		h := b.Header()
		h.ParentHash = p.Hash()
		out[i] = rebuild(h, b.Transactions(), b.Uncles())
		p = out[i]
	}
	return out
}

// ---------------------------------------------------------------------------
// Snapshot of everything a rejected block must leave alone.

type snapshot struct {
	Head, HeadHeader, HeadFast       common.Hash
	DBHead, DBHeadHeader, DBHeadFast common.Hash
	StateDig                         string
	Class                            map[string]string // key class -> digest of all (key,value) pairs of the class
	classKV                          map[string]map[string]string
}

func keyClass(k []byte) string {
	switch {
	case len(k) == 10 && k[0] == 'h' && k[9] == 'n':
		return "canonical_index"
	case len(k) == 41 && k[0] == 'h':
		return "header"
	case len(k) == 42 && k[0] == 'h' && k[41] == 't':
		return "td"
	case len(k) == 33 && k[0] == 'H':
		return "hash_to_number"
	case len(k) == 41 && k[0] == 'b':
		return "body"
	case len(k) == 41 && k[0] == 'r':
		return "receipts"
	case len(k) == 33 && k[0] == 'l':
		return "tx_lookup"
	case bytes.HasPrefix(k, []byte("Last")):
		return "head_pointers"
	case len(k) == 32:
		return "trie_node_or_code"
	case bytes.HasPrefix(k, []byte("secure-key-")):
		return "preimage"
	default:
		return "other"
	}
}

func (r *replica) snapshot(where string) *snapshot {
	s := &snapshot{Class: map[string]string{}, classKV: map[string]map[string]string{}}
	s.Head = r.bc.CurrentBlock().Hash()
	s.HeadHeader = r.bc.CurrentHeader().Hash()
	s.HeadFast = r.bc.CurrentFastBlock().Hash()
	s.DBHead = core.GetHeadBlockHash(r.db)
	s.DBHeadHeader = core.GetHeadHeaderHash(r.db)
	s.DBHeadFast = core.GetHeadFastBlockHash(r.db)
	s.StateDig = r.stateDigest(r.bc.CurrentBlock().Root(), where)
	keys := r.db.Keys()
	sort.Slice(keys, func(i, j int) bool { return bytes.Compare(keys[i], keys[j]) < 0 })
	bufs := map[string]*bytes.Buffer{}
	for _, k := range keys {
		v, _ := r.db.Get(k)
		cl := keyClass(k)
		b := bufs[cl]
		if b == nil {
			b = &bytes.Buffer{}
			bufs[cl] = b
		}
		b.Write(k)
		b.WriteByte(0)
		b.Write(v)
		b.WriteByte(0)
		if cl == "canonical_index" || cl == "tx_lookup" || cl == "head_pointers" {
			m := s.classKV[cl]
			if m == nil {
				m = map[string]string{}
				s.classKV[cl] = m
			}
			m[string(k)] = string(v)
		}
	}
	for cl, b := range bufs {
		s.Class[cl] = hex.EncodeToString(refhash.Keccak256(b.Bytes())[:8])
	}
	return s
}

func kvDiff(a, b map[string]string) string {
	for k, v := range a {
		if w, ok := b[k]; !ok {
			return fmt.Sprintf("key %x removed (was %x)", k, v)
		} else if w != v {
			return fmt.Sprintf("key %x changed %x -> %x", k, v, w)
		}
	}
	for k, w := range b {
		if _, ok := a[k]; !ok {
			return fmt.Sprintf("key %x added (= %x)", k, w)
		}
	}
	return ""
}

// compareUntouched reports every difference between the expected snapshot and
// the one taken after the rejected call.
func compareUntouched(c *fw.Ctx, want, got *snapshot, kind, mode string, observeData bool, desc string) {
	v := func(clause, detail string) { c.Violate(clause, kind, mode, desc+": "+detail) }
	if want.Head != got.Head {
		v("rejected_block_moved_head", fmt.Sprintf("head block %x -> %x", want.Head, got.Head))
	}
	if want.HeadHeader != got.HeadHeader {
		v("rejected_block_moved_head", fmt.Sprintf("head header %x -> %x", want.HeadHeader, got.HeadHeader))
	}
	if want.HeadFast != got.HeadFast {
		v("rejected_block_moved_head", fmt.Sprintf("head fast block %x -> %x", want.HeadFast, got.HeadFast))
	}
	if want.DBHead != got.DBHead || want.DBHeadHeader != got.DBHeadHeader || want.DBHeadFast != got.DBHeadFast {
		v("rejected_block_moved_head", fmt.Sprintf("stored head pointers (%x %x %x) -> (%x %x %x)", want.DBHead, want.DBHeadHeader, want.DBHeadFast, got.DBHead, got.DBHeadHeader, got.DBHeadFast))
	}
	if want.StateDig != got.StateDig {
		v("rejected_block_changed_state", fmt.Sprintf("state digest at head %s -> %s", want.StateDig, got.StateDig))
	}
	for _, cl := range []string{"canonical_index", "tx_lookup"} {
		if want.Class[cl] != got.Class[cl] {
			v("rejected_block_changed_index", cl+": "+kvDiff(want.classKV[cl], got.classKV[cl]))
		}
	}
	c.Count("untouched_compared")
	// everything else a rejected block leaves behind is an observation
	for cl, d := range got.Class {
		if !observeData {
			break
		}
		switch cl {
		case "canonical_index", "tx_lookup", "head_pointers":
		default:
			if want.Class[cl] != d {
				c.Count("observation_rejected_call_left_data:" + cl)
			}
		}
	}
}

// ---------------------------------------------------------------------------

type corruptBase struct {
	t        *gen.Tree
	w        *gen.World
	base     []*types.Block // imported before every case
	H        []*types.Block // held-out chain on the heaviest tip
	spares   [][]*types.Header
	archive  *aquadb.MemDatabase // stopped archive node holding base
	pruning  *aquadb.MemDatabase // stopped pruning node holding base
	cfgName  string
	treeName string
	images   map[string]*aquadb.MemDatabase
}

const holdout = 6

func buildCorruptTree(c *fw.Ctx, ti int, cfgName string) *corruptBase {
	w, r := newWorld(c, cfgName, "ctree", fmt.Sprint(ti))
	spec := gen.TreeSpec{MainLen: r.Range(10, 22), Forks: 2, MaxForkLen: 4, MaxTx: 4, Uncles: true, ReuseTx: true}
	t := gen.GrowTree(r, w, spec)
	// heaviest tip, made unique
	best := func() (*types.Block, bool) {
		var b *types.Block
		uniq := true
		for _, x := range t.Order {
			switch {
			case b == nil || t.TD[x.Block.Hash()].Cmp(t.TD[b.Hash()]) > 0:
				b, uniq = x.Block, true
			case t.TD[x.Block.Hash()].Cmp(t.TD[b.Hash()]) == 0:
				uniq = false
			}
		}
		return b, uniq
	}
	tip, uniq := best()
	for !uniq {
		t.Add(r, tip, gen.BlockPlan{Coinbase: w.Coinbases[0], Kinds: gen.RandomKinds(r, 2)})
		tip, uniq = best()
	}
	cb := &corruptBase{t: t, w: w, cfgName: cfgName, treeName: fmt.Sprintf("ctree-%d", ti), images: map[string]*aquadb.MemDatabase{}}
	cb.base = t.Blocks()
	// held-out chain: every block has >= 3 transactions incl. a LOG and a store;
	// odd blocks include the sibling of their parent as uncle, the other siblings
	// stay spare candidates
	parent := tip
	var sibs []*types.Header
	for i := 0; i < holdout; i++ {
		kinds := append([]gen.TxKind{gen.TxLog, gen.TxStoreSet, gen.TxTransfer}, gen.RandomKinds(r, r.Range(1, 4))...)
		p := r.Perm(len(kinds))
		sh := make([]gen.TxKind, len(kinds))
		for a, b := range p {
			sh[a] = kinds[b]
		}
		plan := gen.BlockPlan{Coinbase: w.Coinbases[r.Intn(len(w.Coinbases))], Kinds: sh}
		if r.Chance(1, 3) {
			plan.TimeOffset = int64(-r.Range(1, 200))
		}
		cands := t.UncleCandidates(parent)
		if i%2 == 1 && len(cands) > 0 {
			plan.Uncles = cands[len(cands)-1:]
		}
		b := t.Add(r, parent, plan)
		var spare []*types.Header
		for _, cnd := range cands {
			used := false
			for _, u := range plan.Uncles {
				if u.Hash() == cnd.Hash() {
					used = true
				}
			}
			if !used {
				spare = append(spare, cnd)
			}
		}
		cb.spares = append(cb.spares, spare)
		cb.H = append(cb.H, b.Block)
		// sibling of this block for the next ones
		s := t.Add(r, parent, gen.BlockPlan{Coinbase: w.Coinbases[0], Extra: []byte{0x77, byte(i)}})
		sibs = append(sibs, s.Block.Header())
		parent = b.Block
	}
	_ = sibs
	return cb
}

// importBase builds the two stopped nodes (archive, pruning) holding the base blocks.
func (cb *corruptBase) importBase(c *fw.Ctx) {
	w := cb.w
	mk := func(name string, cc *core.CacheConfig) *aquadb.MemDatabase {
		rep := newReplica(c, name, w, cc)
		for _, b := range cb.base {
			if idx, err := rep.insert(types.Blocks{b}, "InsertChain"); err != nil {
				c.Violate("valid_block_rejected", "InsertChain", errClass(err), fmt.Sprintf("base import (%s) of block %d: (%d, %v)", name, b.NumberU64(), idx, err))
			}
		}
		rep.stop()
		return rep.db
	}
	cb.archive = mk("base-archive", &core.CacheConfig{Disabled: true})
	cb.pruning = mk("base-pruning", nil)
}

type corruptInput struct {
	Tree   string `json:"tree"`
	Config string `json:"config"`
	Kind   string `json:"kind"`
	Mode   string `json:"mode"`
	Node   string `json:"node"` // archive | pruning_restart
	Target int    `json:"target_holdout_index"`
}

// image returns (building it on first use) the database of a cleanly stopped
// node of the given kind that has imported base + H[:j]. For the pruning node
// this is exactly what a restart finds on disk: the states of HEAD and HEAD-1.
func (cb *corruptBase) image(c *fw.Ctx, node string, j int) *aquadb.MemDatabase {
	key := fmt.Sprintf("%s/%d", node, j)
	if db, ok := cb.images[key]; ok {
		return db
	}
	var rep *replica
	if node == "archive" {
		rep = openReplica(c, "img-archive", cb.w, copyDB(cb.archive), &core.CacheConfig{Disabled: true})
	} else {
		rep = openReplica(c, "img-pruning", cb.w, copyDB(cb.pruning), nil)
	}
	ok := mustImport(c, rep, cb.H[:j], fmt.Sprintf("preparing %s node with %d held-out blocks", node, j))
	rep.stop()
	if !ok {
		cb.images[key] = nil
		return nil
	}
	cb.images[key] = rep.db
	return rep.db
}

func (cb *corruptBase) open(c *fw.Ctx, name, node string, j int) *replica {
	img := cb.image(c, node, j)
	if img == nil {
		return nil
	}
	if node == "archive" {
		return openReplica(c, name, cb.w, copyDB(img), &core.CacheConfig{Disabled: true})
	}
	return openReplica(c, name, cb.w, copyDB(img), nil)
}

// mustImport imports builder-made blocks; a failure is a violation of the
// "own blocks are accepted" clause.
func mustImport(c *fw.Ctx, rep *replica, blocks []*types.Block, what string) bool {
	if len(blocks) == 0 {
		return true
	}
	if idx, err := rep.insert(types.Blocks(blocks), "InsertChain"); err != nil {
		c.Violate("valid_block_rejected", "InsertChain", errClass(err), fmt.Sprintf("%s: InsertChain of %d held-out builder blocks = (%d, %v)", what, len(blocks), idx, err))
		return false
	}
	return true
}

func runCorrupt(c *fw.Ctx) {
	nTrees := c.Pick(1, 8)
	for ti := 0; ti < nTrees; ti++ {
		cfgName := configNames[(ti+c.Batch)%len(configNames)]
		var cb *corruptBase
		var cbt *corruptBase
		if !build(c, fmt.Sprintf("ctree-%d-build", ti), map[string]interface{}{"config": cfgName, "tree": ti}, func() { cbt = buildCorruptTree(c, ti, cfgName) }) {
			continue
		}
		c.Case(fmt.Sprintf("ctree-%d-base", ti), map[string]interface{}{"config": cfgName, "tree": ti}, func() {
			mrand.Seed(int64(c.Seed)*7919 + int64(ti))
			cbt.importBase(c)
			cb = cbt
			for _, node := range []string{"archive", "pruning_restart"} {
				for j := 0; j <= len(cb.H); j++ {
					cb.image(c, node, j)
				}
			}
		})
		if cb == nil {
			continue
		}
		n := 0
		for _, kind := range corruptKinds {
			for _, mode := range corruptModes {
				for _, node := range []string{"archive", "pruning_restart"} {
					if mode == "deferred_sidefork" && node == "archive" {
						continue
					}
					n++
					cb.runCase(c, ti, n, kind, mode, node)
				}
			}
		}
	}
}

// validRelinkLen: how many blocks of H[j+1:] stay valid when re-parented onto a
// sibling of H[j] (an uncle whose parent is H[j] or later is no longer a
// relative of the re-parented chain).
func (cb *corruptBase) validRelinkLen(j int) int {
	gone := map[common.Hash]bool{}
	for k := j; k < len(cb.H); k++ {
		gone[cb.H[k].Hash()] = true
	}
	n := 0
	for k := j + 1; k < len(cb.H); k++ {
		for _, u := range cb.H[k].Uncles() {
			if gone[u.ParentHash] {
				return n
			}
		}
		n++
	}
	return n
}

func (cb *corruptBase) runCase(c *fw.Ctx, ti, n int, kind corruptKind, mode, node string) {
	r := c.Rand("corrupt", fmt.Sprint(ti), kind.name, mode, node)
	K := len(cb.H)
	// candidate targets for the mode
	var cand []int
	switch mode {
	case "tip", "after_known":
		for j := 0; j < K; j++ {
			cand = append(cand, j)
		}
	case "midbatch":
		for j := 1; j < K; j++ {
			cand = append(cand, j)
		}
	case "sidefork":
		if node == "archive" {
			for j := 0; j < K; j++ {
				cand = append(cand, j)
			}
		} else {
			cand = []int{K - 1} // after a restart only the head's parent state is on disk
		}
	case "deferred_sidefork":
		// the node holds base + H[:j+2] and was restarted: the parent of H[j] has no
		// state any more; the side chain is a sibling of H[j] plus re-parented children
		for j := 1; j+2 <= K; j++ {
			if cb.validRelinkLen(j) >= 1 {
				cand = append(cand, j)
			}
		}
	}
	// keep the targets that satisfy the kind's precondition
	type choice struct {
		j   int
		bad *types.Block
		src *types.Block
	}
	var choices []choice
	for _, j := range cand {
		src := cb.H[j]
		if mode == "sidefork" || mode == "deferred_sidefork" {
			src = sibling(src)
		}
		parent := cb.t.Parent(cb.H[j])
		x := &corruptCtx{r: r.Fork(fmt.Sprint("k", j)), t: cb.t, parent: parent, other: cb.H[(j+2)%K], spare: cb.spares[j]}
		if bad := kind.apply(x, src); bad != nil {
			choices = append(choices, choice{j, bad, src})
		}
	}
	if len(choices) == 0 {
		c.Count("corrupt_case_skipped_no_target")
		return
	}
	ch := choices[r.Intn(len(choices))]
	j, bad := ch.j, ch.bad
	in := corruptInput{Tree: cb.treeName, Config: cb.cfgName, Kind: kind.name, Mode: mode, Node: node, Target: j}
	id := fmt.Sprintf("ctree-%d-%03d-%s-%s-%s", ti, n, kind.name, mode, node)
	c.Case(id, in, func() {
		mrand.Seed(int64(c.Seed)*104729 + int64(ti*1000+n))
		desc := fmt.Sprintf("%s/%s on %s node, held-out block %d (number %d, %d txs, %d uncles), corrupted hash %x", kind.name, mode, node, j, bad.NumberU64(), len(bad.Transactions()), len(bad.Uncles()), bad.Hash())
		var rep *replica
		var want *snapshot
		var batch []*types.Block
		wantIdx := 0
		cause := mode // third component of violation signatures
		switch mode {
		case "tip":
			rep = cb.open(c, "x", node, j)
			batch = []*types.Block{bad}
		case "after_known":
			rep = cb.open(c, "x", node, j)
			// up to 3 known ancestors in front
			var anc []*types.Block
			for p, k := cb.t.Parent(cb.H[j]), r.Range(1, 3); p != nil && p.NumberU64() > 0 && k > 0; p, k = cb.t.Parent(p), k-1 {
				anc = append([]*types.Block{p}, anc...)
			}
			batch = append(anc, bad)
			wantIdx = len(anc)
		case "midbatch":
			p := r.Intn(j) // first block of the batch
			rep = cb.open(c, "x", node, p)
			// what the node must look like afterwards: a node that imported the
			// valid prefix H[p:j] and nothing else
			twin := cb.open(c, "twin", node, p)
			if rep == nil || twin == nil {
				return
			}
			ok := mustImport(c, twin, cb.H[p:j], desc)
			if ok {
				want = twin.snapshot("snapshot")
			}
			twin.stop()
			if !ok {
				rep.stop()
				return
			}
			batch = append(append([]*types.Block{}, cb.H[p:j]...), bad)
			batch = append(batch, relink(bad, cb.H[j+1:])...)
			wantIdx = j - p
		case "sidefork", "deferred_sidefork":
			have := K
			var tail []*types.Block
			if mode == "deferred_sidefork" {
				have = j + 2
				tail = cb.H[j+1 : j+1+min(cb.validRelinkLen(j), 2)]
			}
			rep = cb.open(c, "x", node, have)
			// control: the uncorrupted sibling (chain) is valid and is accepted
			if ctl := cb.open(c, "control", node, have); ctl != nil {
				cbatch := append([]*types.Block{ch.src}, relink(ch.src, tail)...)
				if _, err := ctl.bc.InsertChain(types.Blocks(cbatch)); err != nil {
					c.Count("control_valid_sibling_rejected")
					c.Inconclusive("control_sibling_rejected")
					c.Note("control sibling rejected in %s: %v", id, err)
				} else {
					c.Count("control_valid_sibling_accepted")
				}
				ctl.stop()
			}
			batch = append([]*types.Block{bad}, relink(bad, tail)...)
			if rep != nil && mode == "deferred_sidefork" {
				if rep.bc.HasBlockAndState(bad.ParentHash(), bad.NumberU64()-1) {
					c.Count("deferred_sidefork_parent_state_present")
				} else {
					c.Count("deferred_sidefork_parent_state_pruned")
					if rep.bc.HasState(bad.Root()) {
						// the corrupted block sits on a parent whose state is gone and
						// claims a state root the node holds (that of its valid sibling)
						cause = "sidefork_on_pruned_parent_claiming_held_state_root"
						c.Count("deferred_sidefork_claims_held_root")
					}
				}
			}
		}
		if rep == nil {
			return
		}
		defer rep.stop()
		if want == nil {
			want = rep.snapshot("snapshot")
		}
		idx, err := rep.bc.InsertChain(types.Blocks(batch))
		got := rep.snapshot("snapshot")
		c.Count("corrupt_kind:" + kind.name)
		c.Count("corrupt_mode:" + mode)
		c.Count("corrupt_node:" + node)
		badHash, badNum := bad.Hash(), bad.NumberU64()
		// the node has accepted the corrupted block if it executed it (state and
		// receipts stored under its hash), made it canonical, or executed a child
		// on top of it
		processed := func(b *types.Block) bool {
			return rep.bc.HasBlockAndState(b.Hash(), b.NumberU64()) && rep.bc.GetReceiptsByHash(b.Hash()) != nil
		}
		var how []string
		if !sameAsValid(cb, bad) {
			if processed(bad) {
				how = append(how, "executed_and_stored")
			}
			if core.GetCanonicalHash(rep.db, badNum) == badHash {
				how = append(how, "canonical")
			}
			for k, b := range batch {
				if k > 0 && batch[k-1].Hash() == badHash && b.ParentHash() == badHash && processed(b) {
					how = append(how, "child_executed_on_top")
				}
			}
		}
		acceptedV := false
		switch {
		case err == nil && len(how) == 0 && mode == "deferred_sidefork" && got.Head == want.Head:
			// stored without validation and never processed: the node has not
			// decided about the block yet
			c.Count("deferred_sidefork_left_unvalidated")
		case err == nil:
			acceptedV = true
			c.Violate("corrupt_block_accepted", kind.name, cause, fmt.Sprintf("%s: InsertChain(%d blocks) returned (%d, nil); accepted as: %v; head %x -> %x", desc, len(batch), idx, how, want.Head, got.Head))
		default:
			c.Count("corrupt_rejected")
			c.Count("corrupt_rejected_as:" + errClass(err))
			if mode != "deferred_sidefork" && idx != wantIdx {
				c.Violate("corrupt_block_wrong_index", kind.name, cause, fmt.Sprintf("%s: InsertChain(%d blocks) = (%d, %v), the corrupted block is element %d", desc, len(batch), idx, err, wantIdx))
			}
			if len(how) > 0 {
				acceptedV = true
				c.Violate("corrupt_block_accepted", kind.name, cause, fmt.Sprintf("%s: InsertChain returned (%d, %v) but the block was accepted as: %v", desc, idx, err, how))
			}
		}
		if !acceptedV {
			// (an accepted block moves head/state/index as a matter of course; that
			// is the same defect, reported once)
			compareUntouched(c, want, got, kind.name, cause, node == "archive", desc)
		}
		c.Nontrivial(fmt.Sprintf("%x|%s|%s|%s", badHash, kind.name, mode, node))
		if c.Batch == 0 && (n == 17 || n == 95) {
			c.Sample(map[string]interface{}{"case": id, "config": cb.cfgName, "corrupted_block_number": badNum, "txs": len(bad.Transactions()), "uncles": len(bad.Uncles()),
				"batch_len": len(batch), "returned_index": idx, "error_class": errClass(err), "head_unchanged": want.Head == got.Head})
		}
	})
}

// sameAsValid: body-only edits keep the header, hence the hash, of the valid
// block; "the node holds state for this hash" then says nothing about the
// corrupted body.
func sameAsValid(cb *corruptBase, bad *types.Block) bool {
	_, ok := cb.t.ByHash[bad.Hash()]
	return ok
}
