// Package c01: block import is deterministic and accepts only self-consistent
// blocks.
//
// Monitor. One generated block tree (blocks built by the node's own builder,
// core.GenerateChain = ApplyTransaction + Engine.Finalize) is imported by six
// replica nodes under different arrival histories (one batch / one block per
// call / PRNG interleavings of competing forks / restarts between calls /
// archive vs pruning with every flush cadence / RLP round trip and re-sent known
// blocks). Every InsertChain call appends an event (returned index, error class,
// head, and for every block of the call what the replica now holds: receipts,
// logs, gas used, state digest). Offline, all observations of one block must
// agree across replicas, with the builder's receipts, and every commitment of an
// accepted header must equal the value recomputed independently (reference RLP,
// trie, Keccak, bloom) from the stored body and receipts; the state behind every
// promised root must be readable node by node and equal the node's own RawDump.
// The second leg offers single-field corruptions of valid blocks (each header
// commitment, body edits with and without a re-computed commitment) at the tip,
// inside a batch and as a side-fork block: the call must fail at the corrupted
// block and leave head, state, canonical index and lookup entries untouched.
package c01

import (
	"fmt"
	"math/big"
	mrand "math/rand"
	"time"

	"gitlab.com/aquachain/aquachain/common/log"
	"gitlab.com/aquachain/aquachain/core"
	"gitlab.com/aquachain/aquachain/core/types"
	"gitlab.com/aquachain/aquachain/params"
	"verif/internal/fw"
	"verif/internal/gen"
)

func init() {
	fw.Register(&fw.Prop{
		ID:    "C01",
		Title: "Block import is deterministic and accepts only self-consistent blocks",
		Level: "exploration",
		Rule: "leg replica: PRNG block trees (3 chain configs; 27 transaction templates incl. creations, failing calls, self-destructs; uncles; side forks that re-mine " +
			"transactions; a shorter-but-heavier branch; per batch one tree of 135-170 main blocks so the 128-trie garbage collector runs) built by core.GenerateChain, imported by 6 replicas " +
			"(batch / single+archive / shuffled+flush-always / shuffled+restarts+pruning / shuffled+restarts+archive / RLP round trip+re-sent known blocks); " +
			"a tree is non-trivial when it has a successful creation, a failed transaction, an uncle, a fork and crosses the HF4/HF5 heights; distinct = hash of the tree's block hashes. " +
			"leg corrupt: per tree a held-out chain of 6 builder blocks (>=4 transactions incl. a LOG, uncles on odd blocks); every corruption kind " +
			"(10 header-commitment corruptions over TxHash, UncleHash, Root, ReceiptHash, Bloom, GasUsed incl. plausible wrong values; 7 body edits with the header untouched; " +
			"5 body edits with the tx root / uncle hash re-computed) x offer mode (tip / behind known blocks / inside a batch with a twin node as reference / side fork / " +
			"side fork on a pruned parent followed by re-parented children that reach the head's total difficulty) x node (archive | pruning node after a clean restart); " +
			"distinct = (corrupted block hash, kind, mode, node). " +
			"leg miner (see Assumptions) drives the real opt/miner worker.",
		Legs: func(tier string) []fw.Leg {
			// children are mostly single-threaded (one import at a time); a small
			// GOMAXPROCS and a lazier collector keep 16 of them from fighting over
			// the machine (header hashing allocates argon2 memory on every call)
			env := []string{"GOMAXPROCS=4", "GOGC=400"}
			legs := []fw.Leg{
				{Name: "replica", Variant: "plain", Batches: 16, Timeout: 60 * time.Minute, Env: env},
				{Name: "corrupt", Variant: "plain", Batches: 16, Timeout: 60 * time.Minute, Env: env},
				{Name: "miner", Variant: "plain", Batches: 2, Timeout: 45 * time.Minute, Env: env},
			}
			if tier == "thorough" {
				legs = append(legs, fw.Leg{Name: "replica-race", Variant: "race", Batches: 8, Timeout: 150 * time.Minute, Env: env})
			}
			return legs
		},
		Run: run,
		Gate: func(tier string) map[string]int {
			g := map[string]int{
				"insertchain_calls":                          2000,
				"import_result_compared_across_histories":    2000,
				"builder_vs_importer_compared":               500,
				"state_digest_by_walk":                       1000,
				"state_digest_by_rawdump":                    1000,
				"state_digest_compared_across_histories":     500,
				"accepted_block_commitments_recomputed":      2000,
				"reorg_observed":                             50,
				"restart_between_imports":                    50,
				"tree_with_uncle":                            8,
				"tree_crossing_hf4_hf5":                      8,
				"tree_with_creation":                         8,
				"tree_with_failed_tx":                        8,
				"long_tree_gc_ran":                           8,
				"pruned_ancestor_path":                       1,
				"known_block_resent":                         20,
				"corrupt_rejected":                           300,
				"corrupt_mode:tip":                           40,
				"corrupt_mode:midbatch":                      40,
				"corrupt_mode:sidefork":                      40,
				"corrupt_mode:after_known":                   20,
				"corrupt_mode:deferred_sidefork":             20,
				"deferred_sidefork_claims_held_root":         10,
				"untouched_compared":                         300,
				"control_valid_sibling_accepted":             20,
				"codesize_probe_of_branch_dependent_address": 16,
				"storageless_contract_called_after_restart":  16,
				"mined_blocks_reimported":                    6,
				// uncle-window boundary of the block builder, by construction: a
				// remembered side block whose parent is the 2nd / 7th (valid) and the
				// 8th / 9th (outside) ancestor of the block the miner seals
				"miner_uncle_candidate_at_depth:2":           1,
				"miner_uncle_candidate_at_depth:6":           1,
				"miner_uncle_candidate_at_depth:7":           1,
				"miner_uncle_candidate_at_depth:8":           1,
				"miner_late_start_uncle_included_at_depth:6": 1,
				"miner_late_start_blocks_mined":              4,
			}
			for _, k := range corruptKinds {
				g["corrupt_kind:"+k.name] = 4
			}
			if tier == "thorough" {
				g["insertchain_calls_with_concurrent_readers"] = 500
				g["long_tree_gc_ran"] = 64
			}
			return g
		},
		AnchorFiles: []string{"/core/blockchain.go", "/core/state_processor.go", "/core/block_validator.go", "/core/state/", "/core/chain_makers.go", "/core/headerchain.go", "/trie/"},
		Assumptions: []string{
			"blocks are built by core.GenerateChain and by the opt/miner worker; the consensus engine is aquahash.NewFaker (every header rule except the seal; seals are C14)",
			"a corrupted block whose hash equals a block the node already holds (body-only edits of a known block) is answered with 'already known' and is not an acceptance; such corruptions are therefore always applied to a block the node has not seen (a sibling with changed extra-data when needed)",
			"state is compared only where the node promises it (HasBlockAndState / the head); in pruning mode older states are legitimately absent",
			"RawDump entries whose key preimage the node no longer has (pruning + restart) cannot be attributed to an address and are counted, not judged",
			"equal-total-difficulty heads are chosen by the node with math/rand; replicas may end on different heads, so comparisons are per block and per common head; the harness seeds math/rand per case for replay",
			"generated worlds whose random code blobs contain the BLOCKHASH opcode byte are re-drawn: core.GenerateChain (a test helper) cannot execute BLOCKHASH (nil chain); the miner leg covers BLOCKHASH",
		},
	})
}

func run(c *fw.Ctx) {
	log.Root().SetHandler(log.DiscardHandler())
	switch c.Leg {
	case "replica":
		runReplica(c, false)
	case "replica-race":
		runReplica(c, true)
	case "corrupt":
		runCorrupt(c)
	case "miner":
		runMiner(c)
	}
}

var configNames = []string{"test-hf1to7", "versions-2-3-4", "pre-byzantium"}

func configByName(n string) *params.ChainConfig {
	switch n {
	case "versions-2-3-4":
		return gen.ConfigVersions()
	case "pre-byzantium":
		return gen.ConfigPreByzantium()
	default:
		return gen.ConfigTest()
	}
}

// newWorld draws a world, re-drawing while a random code blob contains the
// BLOCKHASH opcode byte (the test builder cannot execute it).
func newWorld(c *fw.Ctx, cfgName string, labels ...string) (*gen.World, *fw.Rand) {
	for attempt := 0; ; attempt++ {
		r := c.Rand(append(append([]string{}, labels...), fmt.Sprint(attempt))...)
		w := gen.NewWorld(r, configByName(cfgName), 6)
		w.Spec.Alloc[addrProbe] = core.GenesisAccount{Code: probeCode(), Balance: big.NewInt(0)}
		ok := true
		for _, a := range w.Blobs {
			for _, b := range w.Spec.Alloc[a].Code {
				if b == 0x40 {
					ok = false
				}
			}
		}
		if ok {
			return w, r
		}
	}
}

type treeFacts struct {
	Blocks, Txs, Uncles, Tips   int
	Creations, FailedTx, LogTxs int
	Suicides                    int
	MaxNumber                   uint64
	CrossHF                     bool
}

func factsOf(t *gen.Tree) treeFacts {
	var f treeFacts
	f.Blocks = len(t.Order)
	f.Tips = len(t.Tips())
	for _, b := range t.Order {
		f.Uncles += len(b.Block.Uncles())
		if n := b.Block.NumberU64(); n > f.MaxNumber {
			f.MaxNumber = n
		}
		for i, m := range b.Txs {
			f.Txs++
			rc := b.Receipts[i]
			failed := rc.Status == types.ReceiptStatusFailed && len(rc.PostState) == 0
			if len(rc.PostState) > 0 {
				// pre-Byzantium receipts carry no status; a transaction that used its
				// whole gas limit failed
				failed = rc.GasUsed == m.Tx.Gas()
			}
			if failed {
				f.FailedTx++
			} else if m.Tx.To() == nil {
				f.Creations++
			}
			if len(rc.Logs) > 0 {
				f.LogTxs++
			}
			switch m.Kind {
			case gen.TxSuicide, gen.TxSuicideSelf, gen.TxSuicideNested, gen.TxSuicideCreated:
				if !failed {
					f.Suicides++
				}
			}
		}
	}
	cfg := t.W.Config
	hf5 := cfg.GetHF(5)
	f.CrossHF = hf5 != nil && f.MaxNumber >= hf5.Uint64()
	return f
}

type treeInput struct {
	Config string       `json:"config"`
	Spec   gen.TreeSpec `json:"spec"`
	Long   bool         `json:"long"`
	Reps   []*repSpec   `json:"replicas"`
}

func runReplica(c *fw.Ctx, race bool) {
	// per batch: one long tree (garbage collector path) + short trees
	nShort := c.Pick(2, 24)
	nLong := c.Pick(1, 3)
	if race {
		// the race detector costs ~10x; a long (garbage-collected) tree only in two batches
		nShort, nLong = 3, 0
		if c.Batch < 2 {
			nLong = 1
		}
	}
	runForced(c, race)
	for i := 0; i < nShort+nLong; i++ {
		long := i >= nShort
		id := fmt.Sprintf("tree-%d", i)
		cfgName := configNames[(i+c.Batch)%len(configNames)]
		if long {
			cfgName = configNames[c.Batch%len(configNames)]
		}
		w, r := newWorld(c, cfgName, "tree", fmt.Sprint(i))
		spec := gen.TreeSpec{MainLen: r.Range(20, 40), Forks: r.Range(2, 4), MaxForkLen: 6, MaxTx: 6, Uncles: true,
			ShorterHeavier: r.Bool(), Tie: r.Chance(1, 3), ReuseTx: true}
		if long {
			spec = gen.TreeSpec{MainLen: r.Range(135, 170), Forks: 4, MaxForkLen: 10, MaxTx: 3, Uncles: true, ShorterHeavier: true, ReuseTx: true}
		}
		var t *gen.Tree
		if !build(c, id+"-build", map[string]interface{}{"config": cfgName, "spec": spec}, func() { t = gen.GrowTree(r, w, spec) }) {
			continue
		}
		ti := indexTree(t)
		reps := replicaSpecs(r.Fork("hist"), t, ti, long)
		if race {
			for _, rs := range reps {
				rs.Readers = 4
			}
		}
		in := treeInput{Config: cfgName, Spec: spec, Long: long, Reps: reps}
		c.Case(id, in, func() {
			mrand.Seed(int64(c.Seed)*1000 + int64(i))
			runTree(c, id, t, ti, in)
		})
	}
}

func runTree(c *fw.Ctx, id string, t *gen.Tree, ti *treeIndex, in treeInput) {
	f := factsOf(t)
	if f.Uncles > 0 {
		c.Count("tree_with_uncle")
	}
	if f.CrossHF {
		c.Count("tree_crossing_hf4_hf5")
	}
	if f.Creations > 0 {
		c.Count("tree_with_creation")
	}
	if f.FailedTx > 0 {
		c.Count("tree_with_failed_tx")
	}
	if f.Suicides > 0 {
		c.Count("tree_with_selfdestruct")
	}
	c.CountN("blocks_generated", f.Blocks)
	c.CountN("transactions_generated", f.Txs)
	c.CountN("uncles_generated", f.Uncles)

	agree := newAgreement(c)
	type endState struct {
		name string
		head [32]byte
		dig  string
	}
	var ends []endState
	sample := map[string]interface{}{"case": id, "config": in.Config, "blocks": f.Blocks, "txs": f.Txs, "uncles": f.Uncles, "tips": f.Tips,
		"creations": f.Creations, "failed_txs": f.FailedTx, "max_number": f.MaxNumber}
	var repSummaries []map[string]interface{}

	for _, rs := range in.Reps {
		rep := newReplica(c, rs.Name, t.W, rs.cache)
		if in.Long {
			rep.digestEvery = 8
		}
		var stopReaders chan struct{}
		var wgWait func()
		startReaders := func() {
			if rs.Readers > 0 {
				stopReaders = make(chan struct{})
				wg := rep.readers(rs.Readers, stopReaders)
				wgWait = wg.Wait
			}
		}
		endReaders := func() {
			if stopReaders != nil {
				close(stopReaders)
				wgWait()
				stopReaders = nil
			}
		}
		startReaders()
		sent := map[int]bool{}
		for _, st := range rs.Steps {
			if st.R {
				endReaders()
				rep.restart()
				c.Count("restart_between_imports")
				startReaders()
				continue
			}
			blocks := make(types.Blocks, len(st.B))
			allKnown := true
			for j, x := range st.B {
				b := t.Order[x].Block
				if rs.RLP {
					b = rlpCopy(t.W, b)
				}
				blocks[j] = b
				if !sent[x] {
					allKnown = false
				}
			}
			if allKnown {
				c.Count("known_block_resent")
			}
			// was the parent's state present before the call? (pruned-ancestor path)
			first := blocks[0]
			parentHadState := rep.bc.HasBlockAndState(first.ParentHash(), first.NumberU64()-1)
			if !parentHadState && !sent[st.B[0]] {
				c.Count("pruned_ancestor_path")
			}
			where := "InsertChain"
			if rs.Readers > 0 {
				c.Count("insertchain_calls_with_concurrent_readers")
			}
			idx, err := rep.insert(blocks, where)
			if err != nil {
				c.Violate("valid_block_rejected", "InsertChain", errClass(err), fmt.Sprintf("replica %s (%s) call %d: InsertChain(%d blocks, numbers %d..%d) = (%d, %v); every block is a builder-made block whose parent the replica holds; parent state present before the call: %v; block %x",
					rs.Name, rs.Cache, rep.calls, len(blocks), blocks[0].NumberU64(), blocks[len(blocks)-1].NumberU64(), idx, err, parentHadState, blocks[min(idx, len(blocks)-1)].Hash()))
			}
			for _, x := range st.B {
				sent[x] = true
			}
		}
		endReaders()
		// end of history: every block was offered; each must be stored
		for _, b := range t.Order {
			if !rep.bc.HasBlock(b.Block.Hash(), b.Block.NumberU64()) {
				c.Violate("valid_block_rejected", "InsertChain", "not_stored", fmt.Sprintf("replica %s: block %d %x was offered with a nil error but is not stored", rs.Name, b.Block.NumberU64(), b.Block.Hash()))
				break
			}
		}
		head := rep.bc.CurrentBlock()
		dig := rep.stateDigest(head.Root(), "final_head")
		ends = append(ends, endState{rs.Name, head.Hash(), dig})
		if in.Long && !rep.cache_archive() && head.NumberU64() > 130 {
			// the garbage collector ran: an old canonical state must be gone unless it was flushed
			c.Count("long_tree_gc_ran")
		}
		for i := range rep.log {
			for j := range rep.log[i].Obs {
				agree.add(&rep.log[i].Obs[j])
			}
		}
		repSummaries = append(repSummaries, map[string]interface{}{"replica": rs.Name, "cache": rs.Cache, "calls": rep.calls, "restarts": rep.restarts,
			"reorgs": rep.reorgs, "state_digests": rep.digests, "head_number": head.NumberU64(), "head": hashHex(head.Hash())})
		rep.stop()
	}
	agree.againstBuilder(t)
	// replicas on the same head hold the same state
	for i := 1; i < len(ends); i++ {
		for j := 0; j < i; j++ {
			if ends[i].head == ends[j].head {
				c.Count("final_head_state_compared")
				if ends[i].dig != ends[j].dig {
					c.Violate("import_result_differs", "state", "same_head_different_state", fmt.Sprintf("%s and %s end on head %x with state digests %s / %s", ends[j].name, ends[i].name, ends[i].head, ends[j].dig, ends[i].dig))
				}
				break
			}
		}
	}
	if f.Uncles > 0 && f.CrossHF && f.Creations > 0 && f.FailedTx > 0 && f.Tips > 1 {
		key := ""
		for _, b := range t.Order {
			key += string(b.Block.Hash().Bytes()[:8])
		}
		c.Nontrivial(key)
	}
	sample["replicas"] = repSummaries
	if c.Batch == 0 && (id == "tree-0" || in.Long) {
		c.Sample(sample)
	}
}

func (r *replica) cache_archive() bool { return r.cache != nil && r.cache.Disabled }
