package c01

import (
	"time"

	"gitlab.com/aquachain/aquachain/core"
	"verif/internal/fw"
	"verif/internal/gen"
)

// step is one element of an arrival history: a restart, or one InsertChain call
// carrying the blocks with these indices into Tree.Order.
type step struct {
	R bool  `json:"r,omitempty"`
	B []int `json:"b,omitempty"`
}

type repSpec struct {
	Name    string `json:"name"`
	Cache   string `json:"cache"`
	cache   *core.CacheConfig
	RLP     bool   `json:"rlp"`
	Readers int    `json:"readers,omitempty"`
	Steps   []step `json:"steps"`
}

// treeIndex precomputes parent/children relations over Tree.Order.
type treeIndex struct {
	parent   []int // -1 = genesis
	children [][]int
	roots    []int
}

func indexTree(t *gen.Tree) *treeIndex {
	pos := map[[32]byte]int{}
	for i, b := range t.Order {
		pos[b.Block.Hash()] = i
	}
	ti := &treeIndex{parent: make([]int, len(t.Order)), children: make([][]int, len(t.Order))}
	for i, b := range t.Order {
		p, ok := pos[b.Block.ParentHash()]
		if !ok {
			ti.parent[i] = -1
			ti.roots = append(ti.roots, i)
			continue
		}
		ti.parent[i] = p
		ti.children[p] = append(ti.children[p], i)
	}
	return ti
}

// schedBatch: every tip's not-yet-sent path as one batch, tips in generation order.
func schedBatch(t *gen.Tree, ti *treeIndex) []step {
	sent := make([]bool, len(t.Order))
	var out []step
	for i := range t.Order {
		if len(ti.children[i]) != 0 {
			continue
		}
		var rev []int
		for x := i; x >= 0 && !sent[x]; x = ti.parent[x] {
			rev = append(rev, x)
		}
		var b []int
		for j := len(rev) - 1; j >= 0; j-- {
			b = append(b, rev[j])
			sent[rev[j]] = true
		}
		if len(b) > 0 {
			out = append(out, step{B: b})
		}
	}
	return out
}

// schedSingle: one block per call in generation order.
func schedSingle(t *gen.Tree) []step {
	out := make([]step, len(t.Order))
	for i := range t.Order {
		out[i] = step{B: []int{i}}
	}
	return out
}

// schedShuffle: a PRNG linear extension of the tree cut into PRNG batches
// (a batch is a parent->child chain), so competing branches interleave in every
// way; optional restarts between calls, re-sent known blocks and batches that
// start with already-known ancestors.
func schedShuffle(r *fw.Rand, t *gen.Tree, ti *treeIndex, maxBatch int, restartPer, resendPer int) []step {
	n := len(t.Order)
	done := make([]bool, n)
	ndone := 0
	var out []step
	var doneList []int
	for ndone < n {
		var ready []int
		for i := 0; i < n; i++ {
			if !done[i] && (ti.parent[i] < 0 || done[ti.parent[i]]) {
				ready = append(ready, i)
			}
		}
		x := ready[r.Intn(len(ready))]
		// prefer continuing the branch last worked on half of the time, so long
		// runs of one branch alternate with fine interleavings
		var batch []int
		if resendPer > 0 && r.Chance(1, resendPer) && ti.parent[x] >= 0 {
			// start the batch with up to 3 already-known ancestors
			var anc []int
			for p, k := ti.parent[x], r.Range(1, 3); p >= 0 && k > 0; p, k = ti.parent[p], k-1 {
				anc = append([]int{p}, anc...)
			}
			batch = append(batch, anc...)
		}
		batch = append(batch, x)
		done[x] = true
		ndone++
		doneList = append(doneList, x)
		want := r.Range(1, maxBatch)
		for len(batch) < want {
			var kids []int
			for _, k := range ti.children[x] {
				if !done[k] {
					kids = append(kids, k)
				}
			}
			if len(kids) == 0 {
				break
			}
			x = kids[r.Intn(len(kids))]
			batch = append(batch, x)
			done[x] = true
			ndone++
			doneList = append(doneList, x)
		}
		if restartPer > 0 && len(out) > 0 && r.Chance(1, restartPer) {
			out = append(out, step{R: true})
		}
		out = append(out, step{B: batch})
		if resendPer > 0 && r.Chance(1, resendPer) {
			// re-send a known block, alone or with its known parent
			y := doneList[r.Intn(len(doneList))]
			b := []int{y}
			if ti.parent[y] >= 0 && r.Bool() {
				b = []int{ti.parent[y], y}
			}
			out = append(out, step{B: b})
		}
	}
	return out
}

var hugeTime = 1000 * time.Hour

// replicaSpecs builds the six arrival histories of one tree.
func replicaSpecs(r *fw.Rand, t *gen.Tree, ti *treeIndex, long bool) []*repSpec {
	mk := func(name string, cc *core.CacheConfig, rlp bool, steps []step) *repSpec {
		return &repSpec{Name: name, Cache: cacheName(cc), cache: cc, RLP: rlp, Steps: steps}
	}
	maxBatch := 6
	if long {
		maxBatch = 24
	}
	restartPer := 4
	if long {
		restartPer = 9
	}
	return []*repSpec{
		mk("R0-batch", nil, false, schedBatch(t, ti)),
		mk("R1-single-archive", &core.CacheConfig{Disabled: true}, false, schedSingle(t)),
		mk("R2-shuffle-flushalways", &core.CacheConfig{TrieNodeLimit: 0, TrieTimeLimit: 0}, true, schedShuffle(r.Fork("r2"), t, ti, maxBatch, 0, 0)),
		mk("R3-shuffle-restart-pruning", &core.CacheConfig{TrieNodeLimit: 1, TrieTimeLimit: hugeTime}, true, schedShuffle(r.Fork("r3"), t, ti, maxBatch, restartPer, 0)),
		mk("R4-shuffle-restart-archive", &core.CacheConfig{Disabled: true}, true, schedShuffle(r.Fork("r4"), t, ti, maxBatch, restartPer, 0)),
		mk("R5-rlp-resend", nil, true, schedShuffle(r.Fork("r5"), t, ti, maxBatch, restartPer*2, 4)),
	}
}
