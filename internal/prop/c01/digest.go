package c01

// Independent observation of what a node holds for a block: the world state
// behind a root (walked node by node over the raw node store, every node checked
// against the hash it was asked for), and the header commitments recomputed from
// the stored body and receipts with the reference RLP / trie / Keccak code of
// internal/ref. Nothing in this file calls the trie, DeriveSha, CreateBloom or
// rlp packages of the repository.

import (
	"bytes"
	"encoding/binary"
	"encoding/hex"
	"errors"
	"fmt"
	"math/big"
	"sort"

	"gitlab.com/aquachain/aquachain/common"
	"gitlab.com/aquachain/aquachain/core/state"
	"gitlab.com/aquachain/aquachain/core/types"
	"verif/internal/ref/refhash"
	"verif/internal/ref/refrlp"
	"verif/internal/ref/reftrie"
)

// nodeSource returns the raw encoding stored under a 32-byte hash (trie node or
// contract code), wherever the node keeps it (memory cache or disk).
type nodeSource func(h []byte) ([]byte, error)

type walkAccount struct {
	Nonce    uint64
	Balance  *big.Int
	Root     []byte
	CodeHash []byte
	Storage  map[string][]byte // hashed slot key -> raw trie value (RLP of the trimmed word)
}

type walkState struct {
	Accounts map[string]*walkAccount // hashed address -> account
	Nodes    int
}

var (
	emptyRoot = reftrie.EmptyRoot
	emptyCode = refhash.Keccak256(nil)
)

var errMissingNode = errors.New("missing node")

type walker struct {
	src   nodeSource
	nodes int
}

func (w *walker) fetch(h []byte) (*refrlp.Item, error) {
	enc, err := w.src(h)
	if err != nil || len(enc) == 0 {
		return nil, fmt.Errorf("%w %x: %v", errMissingNode, h, err)
	}
	if got := refhash.Keccak256(enc); !bytes.Equal(got, h) {
		return nil, fmt.Errorf("node stored under %x hashes to %x", h, got)
	}
	it, err := refrlp.Decode(enc)
	if err != nil {
		return nil, fmt.Errorf("node %x: %v", h, err)
	}
	w.nodes++
	return it, nil
}

// unHP decodes a hex-prefix path.
func unHP(b []byte) (nib []byte, leaf bool, err error) {
	if len(b) == 0 {
		return nil, false, errors.New("empty hex-prefix path")
	}
	f := b[0] >> 4
	if f > 3 {
		return nil, false, fmt.Errorf("bad hex-prefix flag %d", f)
	}
	leaf = f&2 != 0
	if f&1 != 0 {
		nib = append(nib, b[0]&15)
	} else if b[0]&15 != 0 {
		return nil, false, errors.New("non-zero padding nibble")
	}
	for _, x := range b[1:] {
		nib = append(nib, x>>4, x&15)
	}
	return nib, leaf, nil
}

// walkRef follows a child reference: a 32-byte hash, an embedded node, or empty.
func (w *walker) walkRef(ref *refrlp.Item, path []byte, out map[string][]byte) error {
	if ref.IsList {
		return w.walkNode(ref, path, out)
	}
	switch len(ref.Str) {
	case 0:
		return nil
	case 32:
		n, err := w.fetch(ref.Str)
		if err != nil {
			return err
		}
		return w.walkNode(n, path, out)
	default:
		return fmt.Errorf("child reference of %d bytes", len(ref.Str))
	}
}

func (w *walker) walkNode(n *refrlp.Item, path []byte, out map[string][]byte) error {
	if !n.IsList {
		return errors.New("trie node is not a list")
	}
	switch len(n.List) {
	case 2:
		if n.List[0].IsList {
			return errors.New("path item is a list")
		}
		nib, leaf, err := unHP(n.List[0].Str)
		if err != nil {
			return err
		}
		p := append(append([]byte{}, path...), nib...)
		if leaf {
			if n.List[1].IsList {
				return errors.New("leaf value is a list")
			}
			if len(p)%2 != 0 {
				return errors.New("odd key length")
			}
			key := make([]byte, len(p)/2)
			for i := range key {
				key[i] = p[2*i]<<4 | p[2*i+1]
			}
			if _, dup := out[string(key)]; dup {
				return errors.New("duplicate key")
			}
			out[string(key)] = n.List[1].Str
			return nil
		}
		return w.walkRef(n.List[1], p, out)
	case 17:
		for i := 0; i < 16; i++ {
			if err := w.walkRef(n.List[i], append(append([]byte{}, path...), byte(i)), out); err != nil {
				return err
			}
		}
		if v := n.List[16]; v.IsList || len(v.Str) != 0 {
			return errors.New("value in a branch of a fixed-key-length trie")
		}
		return nil
	default:
		return fmt.Errorf("trie node with %d items", len(n.List))
	}
}

func (w *walker) content(root []byte) (map[string][]byte, error) {
	out := map[string][]byte{}
	if bytes.Equal(root, emptyRoot) {
		return out, nil
	}
	n, err := w.fetch(root)
	if err != nil {
		return nil, err
	}
	if err := w.walkNode(n, nil, out); err != nil {
		return nil, err
	}
	return out, nil
}

func uintOf(it *refrlp.Item) (uint64, error) {
	if it.IsList || len(it.Str) > 8 || (len(it.Str) > 0 && it.Str[0] == 0) {
		return 0, errors.New("not a canonical uint64")
	}
	var v uint64
	for _, b := range it.Str {
		v = v<<8 | uint64(b)
	}
	return v, nil
}

// walkWorld reads the whole world state behind root.
func walkWorld(src nodeSource, root []byte) (*walkState, error) {
	w := &walker{src: src}
	accs, err := w.content(root)
	if err != nil {
		return nil, err
	}
	ws := &walkState{Accounts: map[string]*walkAccount{}}
	for hk, enc := range accs {
		if len(hk) != 32 {
			return nil, fmt.Errorf("account key of %d bytes", len(hk))
		}
		it, err := refrlp.Decode(enc)
		if err != nil || !it.IsList || len(it.List) != 4 {
			return nil, fmt.Errorf("account %x: bad encoding", hk)
		}
		a := &walkAccount{Storage: map[string][]byte{}}
		if a.Nonce, err = uintOf(it.List[0]); err != nil {
			return nil, fmt.Errorf("account %x nonce: %v", hk, err)
		}
		if it.List[1].IsList || (len(it.List[1].Str) > 0 && it.List[1].Str[0] == 0) {
			return nil, fmt.Errorf("account %x: bad balance", hk)
		}
		a.Balance = new(big.Int).SetBytes(it.List[1].Str)
		a.Root, a.CodeHash = it.List[2].Str, it.List[3].Str
		if len(a.Root) != 32 || len(a.CodeHash) != 32 {
			return nil, fmt.Errorf("account %x: bad root/code hash", hk)
		}
		st, err := w.content(a.Root)
		if err != nil {
			return nil, fmt.Errorf("storage of %x: %w", hk, err)
		}
		a.Storage = st
		if !bytes.Equal(a.CodeHash, emptyCode) {
			code, err := src(a.CodeHash)
			if err != nil || len(code) == 0 {
				return nil, fmt.Errorf("%w: code %x of %x", errMissingNode, a.CodeHash, hk)
			}
			if !bytes.Equal(refhash.Keccak256(code), a.CodeHash) {
				return nil, fmt.Errorf("code of %x does not hash to its code hash", hk)
			}
		}
		ws.Accounts[hk] = a
	}
	ws.Nodes = w.nodes
	return ws, nil
}

// digest is the canonical hash of the content.
func (ws *walkState) digest() string {
	keys := make([]string, 0, len(ws.Accounts))
	for k := range ws.Accounts {
		keys = append(keys, k)
	}
	sort.Strings(keys)
	var buf bytes.Buffer
	var n8 [8]byte
	for _, k := range keys {
		a := ws.Accounts[k]
		buf.WriteString(k)
		binary.BigEndian.PutUint64(n8[:], a.Nonce)
		buf.Write(n8[:])
		bb := a.Balance.Bytes()
		buf.WriteByte(byte(len(bb)))
		buf.Write(bb)
		buf.Write(a.CodeHash)
		sk := make([]string, 0, len(a.Storage))
		for s := range a.Storage {
			sk = append(sk, s)
		}
		sort.Strings(sk)
		binary.BigEndian.PutUint64(n8[:], uint64(len(sk)))
		buf.Write(n8[:])
		for _, s := range sk {
			buf.WriteString(s)
			buf.WriteByte(byte(len(a.Storage[s])))
			buf.Write(a.Storage[s])
		}
	}
	return hex.EncodeToString(refhash.Keccak256(buf.Bytes()))
}

// compareDump checks the node's own RawDump of the same root against the walk.
// Accounts / slots whose key preimage the node no longer has appear under an
// empty key in the dump and cannot be attributed; they are counted, not judged.
func compareDump(d state.Dump, root []byte, ws *walkState) (missingPreimages int, err error) {
	if d.Root != hex.EncodeToString(root) {
		return 0, fmt.Errorf("dump root %s, asked for %x", d.Root, root)
	}
	seen := 0
	for addrHex, da := range d.Accounts {
		addr, e := hex.DecodeString(addrHex)
		if e != nil || len(addr) != 20 {
			missingPreimages++
			continue
		}
		seen++
		wa := ws.Accounts[string(refhash.Keccak256(addr))]
		if wa == nil {
			return missingPreimages, fmt.Errorf("dump has account %s, trie walk does not", addrHex)
		}
		if da.Nonce != wa.Nonce || da.Balance != wa.Balance.String() || da.Root != hex.EncodeToString(wa.Root) || da.CodeHash != hex.EncodeToString(wa.CodeHash) {
			return missingPreimages, fmt.Errorf("account %s: dump (nonce %d balance %s root %s code %s), walk (nonce %d balance %s root %x code %x)",
				addrHex, da.Nonce, da.Balance, da.Root, da.CodeHash, wa.Nonce, wa.Balance, wa.Root, wa.CodeHash)
		}
		code, _ := hex.DecodeString(da.Code)
		if !bytes.Equal(refhash.Keccak256(code), wa.CodeHash) {
			return missingPreimages, fmt.Errorf("account %s: dumped code does not hash to the code hash", addrHex)
		}
		slots := 0
		for kHex, vHex := range da.Storage {
			k, e := hex.DecodeString(kHex)
			if e != nil || len(k) != 32 {
				missingPreimages++
				continue
			}
			slots++
			if hex.EncodeToString(wa.Storage[string(refhash.Keccak256(k))]) != vHex {
				return missingPreimages, fmt.Errorf("account %s slot %s: dump %s, walk %x", addrHex, kHex, vHex, wa.Storage[string(refhash.Keccak256(k))])
			}
		}
		if slots > len(wa.Storage) {
			return missingPreimages, fmt.Errorf("account %s: dump has %d slots, walk %d", addrHex, slots, len(wa.Storage))
		}
		if slots < len(wa.Storage) && !hasEmptyKey(da.Storage) {
			return missingPreimages, fmt.Errorf("account %s: dump has %d slots, walk %d", addrHex, slots, len(wa.Storage))
		}
	}
	if seen > len(ws.Accounts) || (seen < len(ws.Accounts) && missingPreimages == 0) {
		return missingPreimages, fmt.Errorf("dump has %d accounts, walk %d", seen, len(ws.Accounts))
	}
	return missingPreimages, nil
}

func hasEmptyKey(m map[string]string) bool {
	for k := range m {
		if len(k) != 64 {
			return true
		}
	}
	return false
}

// ---------------------------------------------------------------------------
// Commitments recomputed from a body and receipts.

func refBloom(logs []*types.Log, into *[256]byte) {
	add := func(b []byte) {
		h := refhash.Keccak256(b)
		for i := 0; i < 6; i += 2 {
			bit := (uint(h[i])<<8 | uint(h[i+1])) & 2047
			into[255-bit/8] |= 1 << (bit % 8)
		}
	}
	for _, l := range logs {
		add(l.Address[:])
		for _, t := range l.Topics {
			add(t[:])
		}
	}
}

func refLogItem(l *types.Log) *refrlp.Item {
	topics := make([]*refrlp.Item, len(l.Topics))
	for i, t := range l.Topics {
		topics[i] = refrlp.S(t[:])
	}
	return refrlp.L(refrlp.S(l.Address[:]), refrlp.L(topics...), refrlp.S(l.Data))
}

// refReceiptRLP is the consensus encoding of a receipt. The per-receipt bloom is
// recomputed from the logs, not copied.
func refReceiptRLP(r *types.Receipt) []byte {
	var status []byte
	switch {
	case len(r.PostState) > 0:
		status = r.PostState
	case r.Status == types.ReceiptStatusSuccessful:
		status = []byte{1}
	}
	var bl [256]byte
	refBloom(r.Logs, &bl)
	logs := make([]*refrlp.Item, len(r.Logs))
	for i, l := range r.Logs {
		logs[i] = refLogItem(l)
	}
	return refrlp.Encode(refrlp.L(refrlp.S(status), refrlp.U(r.CumulativeGasUsed), refrlp.S(bl[:]), refrlp.L(logs...)))
}

func refTxRLP(tx *types.Transaction) []byte {
	v, r, s := tx.RawSignatureValues()
	var to []byte
	if tx.To() != nil {
		to = tx.To()[:]
	}
	return refrlp.Encode(refrlp.L(refrlp.U(tx.Nonce()), refrlp.B(tx.GasPrice()), refrlp.U(tx.Gas()), refrlp.S(to),
		refrlp.B(tx.Value()), refrlp.S(tx.Data()), refrlp.B(v), refrlp.B(r), refrlp.B(s)))
}

func refHeaderItem(h *types.Header) *refrlp.Item {
	return refrlp.L(refrlp.S(h.ParentHash[:]), refrlp.S(h.UncleHash[:]), refrlp.S(h.Coinbase[:]), refrlp.S(h.Root[:]),
		refrlp.S(h.TxHash[:]), refrlp.S(h.ReceiptHash[:]), refrlp.S(h.Bloom[:]), refrlp.B(h.Difficulty), refrlp.B(h.Number),
		refrlp.U(h.GasLimit), refrlp.U(h.GasUsed), refrlp.B(h.Time), refrlp.S(h.Extra), refrlp.S(h.MixDigest[:]), refrlp.S(h.Nonce[:]))
}

func refListRoot(items [][]byte) []byte {
	m := map[string][]byte{}
	for i, it := range items {
		m[string(refrlp.Encode(refrlp.U(uint64(i))))] = it
	}
	return reftrie.Root(m)
}

type commitments struct {
	TxHash, UncleHash, ReceiptHash []byte
	Bloom                          [256]byte
	GasUsed                        uint64
}

// recompute derives the five body/receipt commitments independently.
func recompute(txs types.Transactions, uncles []*types.Header, receipts types.Receipts) commitments {
	var c commitments
	var tl [][]byte
	for _, tx := range txs {
		tl = append(tl, refTxRLP(tx))
	}
	c.TxHash = refListRoot(tl)
	us := make([]*refrlp.Item, len(uncles))
	for i, u := range uncles {
		us[i] = refHeaderItem(u)
	}
	c.UncleHash = refhash.Keccak256(refrlp.Encode(refrlp.L(us...)))
	var rl [][]byte
	for _, r := range receipts {
		rl = append(rl, refReceiptRLP(r))
		refBloom(r.Logs, &c.Bloom)
		c.GasUsed = r.CumulativeGasUsed
	}
	c.ReceiptHash = refListRoot(rl)
	return c
}

// checkCommitments returns the names of the header commitments that do not equal
// the recomputed values.
func checkCommitments(h *types.Header, txs types.Transactions, uncles []*types.Header, receipts types.Receipts) []string {
	c := recompute(txs, uncles, receipts)
	var bad []string
	if !bytes.Equal(c.TxHash, h.TxHash[:]) {
		bad = append(bad, "TxHash")
	}
	if !bytes.Equal(c.UncleHash, h.UncleHash[:]) {
		bad = append(bad, "UncleHash")
	}
	if len(receipts) != len(txs) {
		bad = append(bad, "ReceiptCount")
		return bad
	}
	if !bytes.Equal(c.ReceiptHash, h.ReceiptHash[:]) {
		bad = append(bad, "ReceiptHash")
	}
	if c.Bloom != [256]byte(h.Bloom) {
		bad = append(bad, "Bloom")
	}
	if c.GasUsed != h.GasUsed {
		bad = append(bad, "GasUsed")
	}
	return bad
}

// receiptsDigest: consensus content of the receipts (status/root, cumulative
// gas, logs) and, separately, the positional metadata the node derives.
func receiptsDigest(rs types.Receipts, withBlockHash bool) (consensus, logs, meta string) {
	var cb, lb, mb bytes.Buffer
	var n8 [8]byte
	for _, r := range rs {
		cb.Write(refReceiptRLP(r))
		mb.Write(r.TxHash[:])
		mb.Write(r.ContractAddress[:])
		binary.BigEndian.PutUint64(n8[:], r.GasUsed)
		mb.Write(n8[:])
		for _, l := range r.Logs {
			lb.Write(refrlp.Encode(refLogItem(l)))
			binary.BigEndian.PutUint64(n8[:], l.BlockNumber)
			mb.Write(n8[:])
			mb.Write(l.TxHash[:])
			binary.BigEndian.PutUint64(n8[:], uint64(l.TxIndex))
			mb.Write(n8[:])
			binary.BigEndian.PutUint64(n8[:], uint64(l.Index))
			mb.Write(n8[:])
			if withBlockHash {
				mb.Write(l.BlockHash[:])
			}
		}
		lb.WriteByte(0xff)
	}
	hx := func(b *bytes.Buffer) string { return hex.EncodeToString(refhash.Keccak256(b.Bytes())[:12]) }
	return hx(&cb), hx(&lb), hx(&mb)
}

func hashHex(h common.Hash) string { return hex.EncodeToString(h[:6]) }
