package c01

import (
	"bytes"
	"fmt"
	"strings"
	"sync"
	"time"

	"gitlab.com/aquachain/aquachain/aquadb"
	"gitlab.com/aquachain/aquachain/common"
	"gitlab.com/aquachain/aquachain/core"
	"gitlab.com/aquachain/aquachain/core/types"
	"gitlab.com/aquachain/aquachain/rlp"
	"verif/internal/fw"
	"verif/internal/gen"
)

// blockObs is what one replica holds for one block after a call.
type blockObs struct {
	Replica  string
	Call     int
	Hash     common.Hash
	Number   uint64
	Stored   bool
	HasState bool
	HasRcpt  bool
	Root     common.Hash
	GasUsed  uint64 // cumulative gas of the last stored receipt
	RcptC    string // consensus digest of the stored receipts
	RcptL    string // digest of the logs
	RcptM    string // positional metadata incl. block hash
	RcptMB   string // positional metadata without block hash (comparable with the builder)
	StateDig string // independent walk digest ("" when not taken)
}

// event is one line of the replica's event log: one InsertChain call.
type event struct {
	Replica  string
	Call     int
	Blocks   []common.Hash
	Idx      int
	Err      string
	Head     common.Hash
	HeadNum  uint64
	HeadRoot common.Hash
	Obs      []blockObs
}

type replica struct {
	c     *fw.Ctx
	name  string
	w     *gen.World
	db    *aquadb.MemDatabase
	bc    *core.BlockChain
	cache *core.CacheConfig
	calls int
	log   []event
	// digestEvery: take the state digest of every n-th observed block (1 = all);
	// the head is always digested.
	digestEvery int
	obsCount    int
	restarts    int
	reorgs      int
	digests     int
}

func cacheName(cc *core.CacheConfig) string {
	switch {
	case cc == nil:
		return "pruning-default"
	case cc.Disabled:
		return "archive"
	default:
		return fmt.Sprintf("pruning-%dMB-%v", cc.TrieNodeLimit, cc.TrieTimeLimit)
	}
}

func newReplica(c *fw.Ctx, name string, w *gen.World, cache *core.CacheConfig) *replica {
	db, _ := w.NewDB()
	return openReplica(c, name, w, db, cache)
}

func openReplica(c *fw.Ctx, name string, w *gen.World, db *aquadb.MemDatabase, cache *core.CacheConfig) *replica {
	bc, err := w.NewChain(db, cache)
	if err != nil {
		panic(fmt.Sprintf("replica %s: NewBlockChain: %v", name, err))
	}
	return &replica{c: c, name: name, w: w, db: db, bc: bc, cache: cache, digestEvery: 1}
}

func (r *replica) stop() {
	if r.bc != nil {
		r.bc.Stop()
		r.bc = nil
	}
}

// restart = clean Stop() and a new BlockChain over the same database: every
// in-memory cache (state cache, trie node cache, block/body caches) starts cold.
func (r *replica) restart() {
	r.bc.Stop()
	bc, err := r.w.NewChain(r.db, r.cache)
	if err != nil {
		panic(fmt.Sprintf("replica %s: reopen: %v", r.name, err))
	}
	r.bc = bc
	r.restarts++
}

func copyDB(src *aquadb.MemDatabase) *aquadb.MemDatabase {
	dst := aquadb.NewMemDatabase()
	for _, k := range src.Keys() {
		v, err := src.Get(k)
		if err != nil {
			continue
		}
		dst.Put(append([]byte{}, k...), append([]byte{}, v...))
	}
	return dst
}

// rlpCopy moves a block through its wire encoding, as a block from a peer.
func rlpCopy(w *gen.World, b *types.Block) *types.Block {
	enc, err := rlp.EncodeToBytes(b)
	if err != nil {
		panic(err)
	}
	var out types.Block
	if err := rlp.DecodeBytes(enc, &out); err != nil {
		panic(fmt.Sprintf("block does not survive its own encoding: %v", err))
	}
	out.SetVersion(w.Config.GetBlockVersion(out.Number()))
	return &out
}

// errClass maps an import error to a stable class name.
func errClass(err error) string {
	if err == nil {
		return ""
	}
	s := err.Error()
	for _, p := range []string{"invalid merkle root", "invalid receipt root hash", "invalid bloom", "invalid gas used",
		"transaction root hash mismatch", "uncle root hash mismatch", "unknown ancestor", "pruned ancestor", "future block",
		"missing trie node", "nonce too low", "nonce too high", "gas limit reached", "insufficient funds", "intrinsic gas too low",
		"duplicate uncle", "uncle is ancestor", "uncle's parent is not ancestor", "too many uncles", "invalid gasUsed", "invalid gas limit",
		"invalid difficulty", "timestamp", "extra-data too long", "invalid mix digest", "invalid proof-of-work", "aborted",
		"no chain to insert", "after 3 tries", "header nil", "invalid old chain", "invalid new chain", "blacklisted"} {
		if strings.Contains(s, p) {
			return strings.ReplaceAll(p, " ", "_")
		}
	}
	// strip digits/hex so the class is stable
	var b strings.Builder
	for _, ch := range s {
		if (ch >= 'a' && ch <= 'z') || (ch >= 'A' && ch <= 'Z') || ch == ' ' {
			b.WriteRune(ch)
		}
		if b.Len() > 60 {
			break
		}
	}
	return "other:" + strings.Join(strings.Fields(b.String()), "_")
}

func (r *replica) nodeSource() nodeSource {
	bc := r.bc
	return func(h []byte) ([]byte, error) { return bc.TrieNode(common.BytesToHash(h)) }
}

// stateDigest walks the state behind root independently and cross-checks the
// node's own RawDump of the same root. where names the operation for violation
// signatures.
func (r *replica) stateDigest(root common.Hash, where string) string {
	ws, err := walkWorld(r.nodeSource(), root[:])
	if err != nil {
		cause := "corrupt_node"
		if strings.Contains(err.Error(), errMissingNode.Error()) {
			cause = "missing_node"
		}
		r.c.Violate("promised_state_unreadable", where, cause, fmt.Sprintf("replica %s (%s): state %x which the node reports present cannot be read: %v", r.name, cacheName(r.cache), root, err))
		return ""
	}
	r.digests++
	r.c.Count("state_digest_by_walk")
	st, err := r.bc.StateAt(root)
	if err != nil {
		r.c.Violate("promised_state_unreadable", where, "StateAt", fmt.Sprintf("replica %s: StateAt(%x): %v", r.name, root, err))
		return ws.digest()
	}
	missing, err := compareDump(st.RawDump(), root[:], ws)
	r.c.Count("state_digest_by_rawdump")
	if missing > 0 {
		r.c.CountN("rawdump_keys_without_preimage", missing)
	}
	if err != nil {
		r.c.Violate("state_views_disagree", where, "rawdump_vs_walk", fmt.Sprintf("replica %s root %x: %v", r.name, root, err))
	}
	return ws.digest()
}

func (r *replica) observe(b *types.Block, call int, forceDigest bool, where string) blockObs {
	h, n := b.Hash(), b.NumberU64()
	o := blockObs{Replica: r.name, Call: call, Hash: h, Number: n, Root: b.Root()}
	stored := r.bc.GetBlockByHash(h)
	if stored == nil {
		return o
	}
	o.Stored = true
	o.HasState = r.bc.HasBlockAndState(h, n)
	rs := r.bc.GetReceiptsByHash(h)
	if rs != nil {
		o.HasRcpt = true
		o.RcptC, o.RcptL, o.RcptM = receiptsDigest(rs, true)
		_, _, o.RcptMB = receiptsDigest(rs, false)
		if len(rs) > 0 {
			o.GasUsed = rs[len(rs)-1].CumulativeGasUsed
		}
		// accepted block: every commitment of the stored header must equal the
		// value recomputed from the stored body and receipts
		if bad := checkCommitments(stored.Header(), stored.Transactions(), stored.Uncles(), rs); len(bad) > 0 {
			for _, f := range bad {
				r.c.Violate("accepted_block_commitment_mismatch", where, f, fmt.Sprintf("replica %s block %d %x: header %s does not equal the value recomputed from stored body/receipts", r.name, n, h, f))
			}
		}
		r.c.Count("accepted_block_commitments_recomputed")
	}
	if o.HasState {
		r.obsCount++
		if forceDigest || r.digestEvery <= 1 || r.obsCount%r.digestEvery == 0 {
			o.StateDig = r.stateDigest(b.Root(), where)
		}
	}
	return o
}

// insert performs one InsertChain call and appends the event. Valid blocks whose
// parent the replica knows must be accepted: any error is a violation.
func (r *replica) insert(blocks types.Blocks, where string) (int, error) {
	r.calls++
	before := r.bc.CurrentBlock()
	idx, err := r.bc.InsertChain(blocks)
	head := r.bc.CurrentBlock()
	ev := event{Replica: r.name, Call: r.calls, Idx: idx, Err: errClass(err), Head: head.Hash(), HeadNum: head.NumberU64(), HeadRoot: head.Root()}
	if head.Hash() != before.Hash() && !isAncestorIn(r.bc, before, head) {
		// the head left the old head's line
		r.reorgs++
		r.c.Count("reorg_observed")
	}
	seen := map[common.Hash]bool{}
	for _, b := range blocks {
		ev.Blocks = append(ev.Blocks, b.Hash())
		if seen[b.Hash()] {
			continue
		}
		seen[b.Hash()] = true
		ev.Obs = append(ev.Obs, r.observe(b, r.calls, false, where))
	}
	// the head's state is promised after every call
	if !r.bc.HasState(head.Root()) {
		r.c.Violate("promised_state_unreadable", where, "head_state_absent", fmt.Sprintf("replica %s: head %d %x has no state after call %d", r.name, head.NumberU64(), head.Hash(), r.calls))
	} else if !seen[head.Hash()] {
		ev.Obs = append(ev.Obs, r.observe(head, r.calls, true, where))
	}
	r.log = append(r.log, ev)
	r.c.Count("insertchain_calls")
	return idx, err
}

func isAncestorIn(bc *core.BlockChain, a, b *types.Block) bool {
	for x := b; x != nil && x.NumberU64() >= a.NumberU64(); x = bc.GetBlock(x.ParentHash(), x.NumberU64()-1) {
		if x.Hash() == a.Hash() {
			return true
		}
		if x.NumberU64() == 0 {
			break
		}
	}
	return false
}

// readers hammer the read API from n goroutines until stop is closed (used by
// the race leg: imports must stay deterministic with concurrent readers).
func (r *replica) readers(n int, stop chan struct{}) *sync.WaitGroup {
	var wg sync.WaitGroup
	bc := r.bc
	for i := 0; i < n; i++ {
		wg.Add(1)
		go func(i int) {
			defer wg.Done()
			for k := uint64(0); ; k++ {
				select {
				case <-stop:
					return
				default:
				}
				head := bc.CurrentBlock()
				num := head.NumberU64()
				if num > 0 {
					if b := bc.GetBlockByNumber((k*7 + uint64(i)) % (num + 1)); b != nil {
						bc.GetReceiptsByHash(b.Hash())
						if st, err := bc.StateAt(b.Root()); err == nil {
							st.GetBalance(b.Coinbase())
						}
					}
				}
				bc.GetTd(head.Hash(), num)
				time.Sleep(300 * time.Microsecond) // keep the readers from starving the importer
			}
		}(i)
	}
	return &wg
}

// ---------------------------------------------------------------------------
// Offline agreement check over the event logs of all replicas of one tree.

type agreement struct {
	c     *fw.Ctx
	first map[common.Hash]*blockObs // first observation carrying receipts
	dig   map[common.Hash]*blockObs // first observation carrying a state digest
}

func newAgreement(c *fw.Ctx) *agreement {
	return &agreement{c: c, first: map[common.Hash]*blockObs{}, dig: map[common.Hash]*blockObs{}}
}

func (a *agreement) add(o *blockObs) {
	if o.HasRcpt {
		f := a.first[o.Hash]
		if f == nil {
			a.first[o.Hash] = o
		} else {
			a.c.Count("import_result_compared_across_histories")
			diff := func(field, x, y string) {
				if x != y {
					kind := "replica_vs_replica"
					if f.Replica == o.Replica {
						kind = "same_replica_reimport"
					}
					a.c.Violate("import_result_differs", field, kind, fmt.Sprintf("block %d %x: %s (call %d) has %s, %s (call %d) has %s", o.Number, o.Hash, f.Replica, f.Call, x, o.Replica, o.Call, y))
				}
			}
			diff("receipts", f.RcptC, o.RcptC)
			diff("logs", f.RcptL, o.RcptL)
			diff("log_positions", f.RcptM, o.RcptM)
			diff("gas_used", fmt.Sprint(f.GasUsed), fmt.Sprint(o.GasUsed))
		}
	}
	if o.StateDig != "" {
		f := a.dig[o.Hash]
		if f == nil {
			a.dig[o.Hash] = o
		} else {
			a.c.Count("state_digest_compared_across_histories")
			if f.StateDig != o.StateDig {
				a.c.Violate("import_result_differs", "state", "replica_vs_replica", fmt.Sprintf("block %d %x root %x: %s has state digest %s, %s has %s", o.Number, o.Hash, o.Root, f.Replica, f.StateDig, o.Replica, o.StateDig))
			}
		}
	}
}

// againstBuilder compares what importers stored with what the block-building
// path produced for the same block.
func (a *agreement) againstBuilder(t *gen.Tree) {
	for h, o := range a.first {
		b := t.ByHash[h]
		if b == nil {
			continue
		}
		cC, cL, cM := receiptsDigest(b.Receipts, false)
		a.c.Count("builder_vs_importer_compared")
		if cC != o.RcptC {
			a.c.Violate("import_result_differs", "receipts", "importer_vs_builder", fmt.Sprintf("block %d %x: builder receipts %s, importer %s (%s)", o.Number, h, cC, o.RcptC, o.Replica))
		}
		if cL != o.RcptL {
			a.c.Violate("import_result_differs", "logs", "importer_vs_builder", fmt.Sprintf("block %d %x: builder logs %s, importer %s (%s)", o.Number, h, cL, o.RcptL, o.Replica))
		}
		if cM != o.RcptMB {
			a.c.Violate("import_result_differs", "log_positions", "importer_vs_builder", fmt.Sprintf("block %d %x: builder receipt/log metadata %s, importer %s (%s)", o.Number, h, cM, o.RcptMB, o.Replica))
		}
		if b.Block.GasUsed() != o.GasUsed && len(b.Receipts) > 0 {
			a.c.Violate("import_result_differs", "gas_used", "importer_vs_builder", fmt.Sprintf("block %d %x: header gas used %d, importer receipts %d", o.Number, h, b.Block.GasUsed(), o.GasUsed))
		}
	}
}

func shortHashes(hs []common.Hash) string {
	var b bytes.Buffer
	for i, h := range hs {
		if i > 0 {
			b.WriteByte(',')
		}
		b.WriteString(hashHex(h)[:8])
	}
	return b.String()
}
