package c12

import (
	"bytes"
	"context"
	"fmt"
	"math/big"

	"gitlab.com/aquachain/aquachain/aquadb"
	"gitlab.com/aquachain/aquachain/common"
	"gitlab.com/aquachain/aquachain/consensus/aquahash"
	"gitlab.com/aquachain/aquachain/core"
	"gitlab.com/aquachain/aquachain/core/types"
	"gitlab.com/aquachain/aquachain/core/vm"
	"gitlab.com/aquachain/aquachain/params"
	"verif/internal/fw"
	"verif/internal/ref/refsig"
)

// acceptIn is the logged input of an acceptance case.
type acceptIn struct {
	Chain     string `json:"chain"`
	Key       string `json:"key"`
	Protected bool   `json:"protected"`
	Price     string `json:"gas_price"`
	Gas       uint64 `json:"gas"`
	To        string `json:"to"`
	Value     string `json:"value"`
	Data      string `json:"data"`
	OtherID   string `json:"replayed_from_chain"`
}

var acceptChains = []string{"3", "61717561", "2147483655", "18446744073709551617"}

type world struct {
	c      *fw.Ctx
	cfg    *params.ChainConfig
	gspec  *core.Genesis
	db     aquadb.Database
	gen    *types.Block
	bc     *core.BlockChain
	poolSg sgn
}

func (w *world) openChain() {
	w.db = aquadb.NewMemDatabase()
	w.gen = w.gspec.MustCommit(w.db)
	bc, err := core.NewBlockChain(context.Background(), w.db, nil, w.cfg, aquahash.NewFaker(), vm.Config{})
	if err != nil {
		panic(fmt.Sprintf("NewBlockChain: %v", err))
	}
	w.bc = bc
}

func (w *world) close() {
	if w.bc != nil {
		w.bc.Stop()
		w.bc = nil
	}
}

func (w *world) newPool() *core.TxPool {
	pc := core.DefaultTxPoolConfig
	pc.Journal = ""
	pc.NoLocals = true
	return core.NewTxPool(pc, w.cfg, w.bc)
}

// attributedTo reports under which address the pool filed the transaction.
func attributedTo(pool *core.TxPool, h common.Hash) (common.Address, bool) {
	pending, queued := pool.Content()
	for _, m := range []map[common.Address]types.Transactions{pending, queued} {
		for a, txs := range m {
			for _, t := range txs {
				if t.Hash() == h {
					return a, true
				}
			}
		}
	}
	return common.Address{}, false
}

type variant struct {
	field string
	m     *refsig.Tx
}

func runAccept(c *fw.Ctx) {
	n := c.Pick(10, 330)
	for i := 0; i < n; i++ {
		r := c.Rand("accept", fmt.Sprint(i))
		chain := dec(acceptChains[(i+c.Batch)%len(acceptChains)])
		d := genKey(r, false)
		protected := i%4 != 3
		t := &refsig.Tx{Nonce: 0, GasPrice: big.NewInt(int64(r.Range(1, 1000))), Gas: uint64(r.Range(60000, 200000)), Value: big.NewInt(int64(r.Range(0, 1000000)))}
		switch r.Intn(5) {
		case 0:
			t.To = nil
			if r.Bool() {
				t.Data = []byte{0x00}
			} else {
				t.Data = []byte{}
			}
		default:
			t.To = r.Bytes(20)
			t.To[0] |= 0x10 // never a precompile
			t.Data = r.Bytes(r.Range(0, 40))
		}
		other := new(big.Int).Add(chain, big.NewInt(int64(r.Range(1, 5))))
		if r.Bool() {
			other = big.NewInt(int64(r.Range(1, 2)))
		}
		if other.Cmp(chain) == 0 {
			other.Add(other, big.NewInt(1))
		}
		in := acceptIn{Chain: chain.String(), Key: hx(pad32(d)), Protected: protected, Price: t.GasPrice.String(), Gas: t.Gas, Value: t.Value.String(), Data: hx(t.Data), OtherID: other.String()}
		if t.To != nil {
			in.To = hx(t.To)
		}
		id := fmt.Sprintf("accept-%d", i)
		mr := r.Fork("mut")
		c.Case(id, in, func() { acceptCase(c, id, chain, other, d, protected, t, mr) })
	}
}

func acceptCase(c *fw.Ctx, id string, chain, other, d *big.Int, protected bool, content *refsig.Tx, r *fw.Rand) {
	exp, err := refsig.AddressOfKey(d)
	if err != nil {
		panic(err)
	}
	cfg := params.TestChainConfig
	if chain.Cmp(cfg.ChainId) != 0 {
		cp := *params.TestChainConfig
		cp.ChainId = new(big.Int).Set(chain)
		cfg = &cp
	}
	funds, _ := new(big.Int).SetString("1000000000000000000000000", 10)
	w := &world{c: c, cfg: cfg, poolSg: sgn{Kind: kEIP155, Chain: chain},
		gspec: &core.Genesis{Config: cfg, GasLimit: 8000000, Difficulty: big.NewInt(131072),
			Alloc: core.GenesisAlloc{common.Address(exp): {Balance: funds}}}}
	w.openChain()
	defer func() { w.close() }()

	// the original: signed by the node's own SignTx under the rules it was made for
	s := sgn{Kind: kEIP155, Chain: chain}
	if !protected {
		s = sgn{Kind: kHomestead}
	}
	prv := privKey(d)
	signed, err := types.SignTx(unsignedReal(content), s.real(), prv)
	if err != nil {
		c.Violate("signed_tx_misattributed", "SignTx", "sign_failed:"+s.Kind, err.Error())
		return
	}
	V, R, S := signed.RawSignatureValues()
	o := content.Copy()
	o.V, o.R, o.S = new(big.Int).Set(V), new(big.Int).Set(R), new(big.Int).Set(S)
	origEnc := o.Encode()
	_, prot, cid, recid := refsig.Classify(V)

	// hostile variants
	var vs []variant
	for _, m := range fieldMutants(r, o, s) {
		vs = append(vs, variant{m.field, m.m})
	}
	addSig := func(field string, v, rr, ss *big.Int) {
		m := o.Copy()
		m.V, m.R, m.S = v, rr, ss
		vs = append(vs, variant{field, m})
	}
	var vchain *big.Int
	if prot {
		vchain = cid
	}
	n := refsig.N
	addSig("high_s_twin", refsig.VFor(vchain, recid^1), o.R, new(big.Int).Sub(n, o.S))
	addSig("s_plus_n", o.V, o.R, new(big.Int).Add(o.S, n))
	addSig("s_plus_n_twin_v", refsig.VFor(vchain, recid^1), o.R, new(big.Int).Add(o.S, n))
	addSig("r_zero", o.V, new(big.Int), o.S)
	addSig("s_zero", o.V, o.R, new(big.Int))
	addSig("r_n", o.V, new(big.Int).Set(n), o.S)
	addSig("s_n", o.V, o.R, new(big.Int).Set(n))
	addSig("s_n_minus_1", o.V, o.R, new(big.Int).Sub(n, big.NewInt(1)))
	addSig("s_half_n_plus_1", o.V, o.R, new(big.Int).Add(refsig.HalfN, big.NewInt(1)))
	addSig("v_plus_256", new(big.Int).Add(o.V, big.NewInt(256)), o.R, o.S)
	addSig("v_plus_2_64", new(big.Int).Add(o.V, two64), o.R, o.S)
	// the same content signed by the same funded key for another chain: a replay
	if rs, err := types.SignTx(unsignedReal(content), types.NewEIP155Signer(other), prv); err == nil {
		rv, rr, rss := rs.RawSignatureValues()
		addSig("replayed_from_other_chain", new(big.Int).Set(rv), new(big.Int).Set(rr), new(big.Int).Set(rss))
	}

	classify := func(v variant) (clause, cause string, must bool) {
		dm := demandFor(w.poolSg, v.m.V, v.m.R, v.m.S)
		if dm.reject {
			return dm.clause, dm.cause, true
		}
		return "mutated_tx_keeps_sender", v.field, false
	}

	// --- acceptance point 1: TxPool.AddRemote
	pool := w.newPool()
	for _, v := range vs {
		if bytes.Equal(v.m.Encode(), origEnc) {
			continue
		}
		tx, err := realTx(v.m)
		if err != nil {
			c.Count("variant_undecodable")
			continue
		}
		c.Count("pool_variant_probed")
		clause, cause, must := classify(v)
		err = pool.AddRemote(tx)
		if err != nil {
			c.Count("pool_variant_rejected")
			continue
		}
		a, found := attributedTo(pool, tx.Hash())
		switch {
		case must:
			c.Violate(clause, "TxPool.AddRemote", cause, fmt.Sprintf("pool of chain %s accepted variant %q V=%s R=%s S=%s (filed under %x, found=%v); original signer %x; rlp %x",
				w.cfg.ChainId, v.field, v.m.V, v.m.R, v.m.S, a, found, exp, v.m.Encode()))
		case found && [20]byte(a) == exp:
			c.Violate(clause, "TxPool.AddRemote", cause, fmt.Sprintf("pool of chain %s filed variant %q under the original signer %x; variant rlp %x; original rlp %x",
				w.cfg.ChainId, v.field, exp, v.m.Encode(), origEnc))
		default:
			c.Count("pool_variant_accepted_for_other_sender")
		}
		// an accepted variant occupies a nonce slot: later variants get a clean pool
		pool.Stop()
		pool = w.newPool()
	}
	pool.Stop()
	pool = w.newPool()
	if otx, err := decodeReal(origEnc); err == nil {
		err := pool.AddRemote(otx)
		a, found := attributedTo(pool, otx.Hash())
		switch {
		case err == core.ErrInvalidSender:
			c.Violate("signed_tx_misattributed", "TxPool.AddRemote", "refused:"+s.Kind, fmt.Sprintf("pool of chain %s refuses a transaction signed under %s by a funded key: %v; rlp %x", w.cfg.ChainId, s, err, origEnc))
		case err != nil:
			c.Count("pool_original_rejected_other_reason")
			c.Note("original rejected by pool: %v", err)
		case !found || [20]byte(a) != exp:
			c.Violate("signed_tx_misattributed", "TxPool.AddRemote", s.Kind, fmt.Sprintf("pool filed the original under %x (found=%v), signer is %x", a, found, exp))
		default:
			c.Count("pool_original_accepted")
		}
	}
	pool.Stop()

	// --- acceptance point 2: a block carrying the variant
	otx, err := decodeReal(origEnc)
	if err != nil {
		return
	}
	var blocks []*types.Block
	var receipts []types.Receipts
	func() {
		defer func() {
			if p := recover(); p != nil {
				c.Note("GenerateChain refused the original: %v", p)
			}
		}()
		blocks, receipts = core.GenerateChain(context.Background(), w.cfg, w.gen, aquahash.NewFaker(), w.db, 1, func(i int, b *core.BlockGen) {
			b.SetCoinbase(common.Address{0xc0})
			b.AddTx(otx)
		})
	}()
	if len(blocks) != 1 {
		c.Count("block_original_not_buildable")
		return
	}
	b1 := blocks[0]
	for _, v := range vs {
		if bytes.Equal(v.m.Encode(), origEnc) {
			continue
		}
		tx, err := realTx(v.m)
		if err != nil {
			continue
		}
		c.Count("block_variant_probed")
		clause, cause, _ := classify(v)
		bv := types.NewBlock(b1.Header(), []*types.Transaction{tx}, nil, receipts[0])
		if _, err := w.bc.InsertChain(types.Blocks{bv}); err != nil {
			c.Count("block_variant_rejected")
			continue
		}
		c.Violate(clause, "InsertChain", cause, fmt.Sprintf("chain %s imported a block whose only transaction is variant %q (V=%s R=%s S=%s) of a transaction signed by %x; the block's state root is the one of the original's execution; variant rlp %x; original rlp %x",
			w.cfg.ChainId, v.field, v.m.V, v.m.R, v.m.S, exp, v.m.Encode(), origEnc))
		// start over from genesis for the next variant
		w.close()
		w.openChain()
	}
	fresh, _ := decodeReal(origEnc)
	bo := types.NewBlock(b1.Header(), []*types.Transaction{fresh}, nil, receipts[0])
	if _, err := w.bc.InsertChain(types.Blocks{bo}); err != nil {
		c.Count("block_original_rejected")
		c.Note("re-built original block rejected: %v", err)
	} else if st, err := w.bc.State(); err == nil && st.GetNonce(common.Address(exp)) == 1 {
		c.Count("block_original_accepted")
		c.Nontrivial(hx(o.Hash()))
	} else {
		c.Violate("signed_tx_misattributed", "InsertChain", s.Kind, fmt.Sprintf("block with the original imported, but the signer's nonce is not 1 (state err %v)", err))
	}
	if c.WantSample() {
		c.Sample(map[string]interface{}{"case": id, "chain_id": w.cfg.ChainId.String(), "signer": s.String(), "original_rlp": hx(origEnc), "variants": len(vs)})
	}
}
