// Package c12: a transaction is bound to its signer and to its chain.
//
// Monitor: an independent reference (internal/ref/refsig: secp256k1 over
// math/big, x/crypto Keccak, refrlp signing hashes) runs beside the real
// types.SignTx / types.Sender / Transaction codec on every generated
// (key, content, signer) triple. The reference says which address a key has,
// which hash is signed, which (V,R,S) are in range, low-S and of which chain;
// the real code must attribute signed transactions to exactly that address,
// must reject or re-attribute every single-field / single-bit mutant, must
// reject what the reference calls out of range, malleable or foreign-chain,
// must keep hash and sender through RLP and JSON, and must not let a cached
// sender answer for another signer. A second leg repeats the hostile variants
// at the two acceptance points of a node: TxPool.AddRemote and
// BlockChain.InsertChain.
package c12

import (
	"encoding/hex"
	"fmt"
	"math/big"
	"time"

	"github.com/btcsuite/btcd/btcec/v2"
	"gitlab.com/aquachain/aquachain/common"
	"gitlab.com/aquachain/aquachain/common/log"
	"gitlab.com/aquachain/aquachain/core/types"
	"gitlab.com/aquachain/aquachain/crypto"
	"gitlab.com/aquachain/aquachain/rlp"
	"verif/internal/fw"
	"verif/internal/ref/refsig"
)

func init() {
	fw.Register(&fw.Prop{
		ID:    "C12",
		Title: "A transaction is bound to its signer and to its chain",
		Level: "exploration",
		Rule: "leg sign: cases are PRNG (private key incl. 1,2,3,N-1,N-2; nonce/price/gas/value from a boundary lattice; recipient nil / zero / random; data 0..2048 bytes; " +
			"signer Frontier | Homestead | EIP155 with chain id from {0,1,3,109,110,111,61717561,2^31,2^63,2^64+1,2^200,2^254,random}); each case signs with the real SignTx and with the reference signer, " +
			"then evaluates ~60 single-field mutants, single-bit flips of the signed RLP (all bits of short encodings, head+tail+sample of long ones), a V/R/S boundary lattice around 0, N/2, N, 2^256 and the V encodings, " +
			"foreign signers, RLP/JSON round trips and cached-sender queries across signer pairs. A case is non-trivial when the real SignTx produced a signature that the reference recovers to the key's address " +
			"and at least 40 mutants were decided; distinct = signed transaction hash. " +
			"leg accept: a funded key signs a valid transfer on a small in-memory chain (chain ids 3, 61717561, 2^31+7, 2^64+1); every hostile variant goes to a fresh TxPool.AddRemote and, inside a re-built block, to InsertChain; then the original must be accepted by both.",
		Legs: func(tier string) []fw.Leg {
			// generous watchdogs: the machine may be shared; firing is inconclusive
			return []fw.Leg{
				// the workload is single-threaded and allocation-heavy (big.Int): a small
				// GOMAXPROCS and a lazy GC roughly halve its CPU cost
				{Name: "sign", Variant: "plain", Batches: 16, Timeout: 6 * time.Hour, Env: []string{"GOMAXPROCS=2", "GOGC=400"}},
				{Name: "accept", Variant: "plain", Batches: 8, Timeout: 6 * time.Hour, Env: []string{"GOMAXPROCS=4", "GOGC=400"}},
			}
		},
		Run: run,
		Gate: func(tier string) map[string]int {
			return map[string]int{
				"signed_frontier":                  100,
				"signed_homestead":                 100,
				"signed_eip155":                    300,
				"signed_v_exceeds_8_bits":          100,
				"signed_v_exceeds_64_bits":         50,
				"key_boundary_scalar":              16,
				"refsigned_attributed":             500,
				"signature_verified_by_reference":  500,
				"field_mutants":                    30000,
				"mutant_rejected":                  5000,
				"mutant_other_address":             5000,
				"bitflip_decoded":                  50000,
				"bitflip_all_bits_cases":           100,
				"lattice_probes":                   50000,
				"must_reject_probes":               20000,
				"high_s_probed_homestead":          100,
				"high_s_probed_eip155_protected":   100,
				"high_s_twin_frontier_same_sender": 50,
				"foreign_signer_queries":           2000,
				"foreign_chain_probed":             1000,
				"rlp_roundtrip":                    500,
				"json_roundtrip":                   500,
				"json_decode_into_used":            2000,
				"rlp_decode_into_used":             1000,
				"v_rewritten_replay_probed":        1000,
				"cache_cross_signer_queries":       2000,
				"cache_primed_by_string":           100,
				"makesigner_heights":               100,
				"pool_variant_probed":              500,
				"pool_original_accepted":           30,
				"block_variant_probed":             500,
				"block_original_accepted":          30,
			}
		},
		AnchorFiles: []string{"/core/types/transaction_signing.go", "/core/types/transaction.go", "/core/types/gen_tx_json.go", "/crypto/crypto.go", "/crypto/signature_nocgo.go"},
		Assumptions: []string{
			"reference: secp256k1 group law, ECDSA signing and public-key recovery over math/big (internal/ref/refsig), self-tested at child start against the EIP-155 worked example and the eip155_testvec vectors also used by core/types/transaction_signing_test.go",
			"V is read by the specification: 27/28 unprotected, V>=35 protected with chain id (V-35)/2; anything else is no valid V. Chain id 0 is outside EIP-155: there the real code may refuse, but must not misattribute",
			"in range means 1<=r,s<=N-1 and recovery id 0/1; low-S (s<=N/2) is demanded under Homestead and EIP-155 rules, not under Frontier rules (where the high-S twin is the same signer by definition)",
			"two different addresses are never confused by chance (160-bit collision); a mutant that recovers to the original address is counted as a violation",
			"acceptance points are decided on what they attribute to the original signer: a variant accepted into the pool under another (unfunded, zero-cost) address is not an acceptance for the signer; gas price >= 1 makes block import of a re-attributed variant impossible",
		},
	})
}

func run(c *fw.Ctx) {
	log.Root().SetHandler(log.DiscardHandler())
	if err := refsig.SelfTest(); err != nil {
		// the reference is wrong: nothing below may produce a verdict
		panic("refsig self-test failed: " + err.Error())
	}
	switch c.Leg {
	case "sign":
		runSign(c)
	case "accept":
		runAccept(c)
	}
}

// ---------------------------------------------------------------------------
// shared helpers

const (
	kFrontier  = "frontier"
	kHomestead = "homestead"
	kEIP155    = "eip155"
)

var (
	two256 = new(big.Int).Lsh(big.NewInt(1), 256)
	two64  = new(big.Int).Lsh(big.NewInt(1), 64)
)

func bigPow2(n uint) *big.Int { return new(big.Int).Lsh(big.NewInt(1), n) }

func hx(b []byte) string { return hex.EncodeToString(b) }

func dec(s string) *big.Int {
	v, ok := new(big.Int).SetString(s, 10)
	if !ok {
		panic("bad decimal " + s)
	}
	return v
}

func pad32(x *big.Int) []byte {
	b := x.Bytes()
	out := make([]byte, 32)
	copy(out[32-len(b):], b)
	return out
}

// sgn describes a signer kind of the node and what the specification says about it.
type sgn struct {
	Kind  string
	Chain *big.Int // only for eip155
}

func (s sgn) real() types.Signer {
	switch s.Kind {
	case kFrontier:
		return types.FrontierSigner{}
	case kHomestead:
		return types.HomesteadSigner{}
	}
	return types.NewEIP155Signer(new(big.Int).Set(s.Chain))
}

// specChain: the chain id that enters the signing hash and V (nil = none).
func (s sgn) specChain() *big.Int {
	if s.Kind == kEIP155 {
		return s.Chain
	}
	return nil
}

func (s sgn) String() string {
	if s.Kind == kEIP155 {
		return "eip155(" + s.Chain.String() + ")"
	}
	return s.Kind
}

// causeKind names the rule set that applied to a (signer, V) pair.
func causeKind(kind string, protected bool) string {
	if kind != kEIP155 {
		return kind
	}
	if protected {
		return "eip155_protected"
	}
	return "eip155_unprotected"
}

// realTx delivers a specification transaction to the node the way a peer does:
// as canonical RLP.
func realTx(t *refsig.Tx) (*types.Transaction, error) {
	var tx types.Transaction
	if err := rlp.DecodeBytes(t.Encode(), &tx); err != nil {
		return nil, err
	}
	return &tx, nil
}

func decodeReal(enc []byte) (*types.Transaction, error) {
	var tx types.Transaction
	if err := rlp.DecodeBytes(enc, &tx); err != nil {
		return nil, err
	}
	return &tx, nil
}

func unsignedReal(t *refsig.Tx) *types.Transaction {
	if t.To == nil {
		return types.NewContractCreation(t.Nonce, t.Value, t.Gas, t.GasPrice, t.Data)
	}
	return types.NewTransaction(t.Nonce, common.BytesToAddress(t.To), t.Value, t.Gas, t.GasPrice, t.Data)
}

func privKey(d *big.Int) *btcec.PrivateKey {
	k, _ := btcec.PrivKeyFromBytes(pad32(d))
	return k
}

// demand is what the property requires of Sender for a (signer, V, R, S).
type demand struct {
	reject bool   // must fail
	clause string // violation clause if it does not
	cause  string
	// for accepted signatures: the rule set in force
	protected bool
	recid     byte
}

// demandFor evaluates the specification for signature values under a signer.
func demandFor(s sgn, v, r, sv *big.Int) demand {
	valid, prot, cid, recid := refsig.Classify(v)
	d := demand{protected: prot, recid: recid}
	if !valid {
		d.reject, d.clause, d.cause = true, "out_of_range_signature_accepted", "v_invalid:"+s.Kind
		return d
	}
	if s.Kind != kEIP155 && prot {
		// Frontier/Homestead rules know V = 27/28 only: a replay-protected
		// transaction has no sender under them
		d.reject, d.clause, d.cause = true, "foreign_chain_attribution", "protected_under_"+s.Kind
		return d
	}
	if s.Kind == kEIP155 && prot && cid.Cmp(s.Chain) != 0 {
		d.reject, d.clause, d.cause = true, "foreign_chain_attribution", "eip155_other_chain"
		return d
	}
	ck := causeKind(s.Kind, prot)
	switch {
	case r.Sign() <= 0:
		d.reject, d.clause, d.cause = true, "out_of_range_signature_accepted", "r_zero:"+ck
	case r.Cmp(refsig.N) >= 0:
		d.reject, d.clause, d.cause = true, "out_of_range_signature_accepted", "r_ge_n:"+ck
	case sv.Sign() <= 0:
		d.reject, d.clause, d.cause = true, "out_of_range_signature_accepted", "s_zero:"+ck
	case sv.Cmp(refsig.N) >= 0:
		d.reject, d.clause, d.cause = true, "out_of_range_signature_accepted", "s_ge_n:"+ck
	case s.Kind != kFrontier && !refsig.LowS(sv):
		d.reject, d.clause, d.cause = true, "malleable_signature_accepted", ck
	}
	return d
}

// sameSignature reports whether (v,r,s) is the original signature or, under
// Frontier rules only, its high-S twin: the two cases in which recovering the
// original signer from an unchanged content is correct.
func sameSignature(s sgn, orig *refsig.Tx, v, r, sv *big.Int) bool {
	if r.Cmp(orig.R) != 0 {
		return false
	}
	if v.Cmp(orig.V) == 0 && sv.Cmp(orig.S) == 0 {
		return true
	}
	if s.Kind == kFrontier {
		tw := new(big.Int).Sub(refsig.N, orig.S)
		ov, _, _, orec := refsig.Classify(orig.V)
		nv, nprot, _, nrec := refsig.Classify(v)
		if ov && nv && !nprot && sv.Cmp(tw) == 0 && nrec == orec^1 {
			return true
		}
	}
	return false
}

func cryptoAddress(k *btcec.PrivateKey) [20]byte { return crypto.PubkeyToAddress(k.PubKey()) }

func addrHex(a [20]byte) string { return hx(a[:]) }

func fmtErr(err error) string {
	if err == nil {
		return "nil"
	}
	return fmt.Sprint(err)
}
