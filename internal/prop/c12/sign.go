package c12

import (
	"bytes"
	"encoding/json"
	"fmt"
	"math/big"
	"strings"

	"gitlab.com/aquachain/aquachain/core/types"
	"gitlab.com/aquachain/aquachain/params"
	"gitlab.com/aquachain/aquachain/rlp"
	"verif/internal/fw"
	"verif/internal/ref/refhash"
	"verif/internal/ref/refrlp"
	"verif/internal/ref/refsig"
)

// caseIn is the logged input of a case: everything that defines it.
type caseIn struct {
	Key    string `json:"key"`
	Signer string `json:"signer"`
	Chain  string `json:"chain,omitempty"`
	Nonce  uint64 `json:"nonce"`
	Price  string `json:"gas_price"`
	Gas    uint64 `json:"gas"`
	To     string `json:"to"` // "" = contract creation
	Value  string `json:"value"`
	Data   string `json:"data"`
	K      string `json:"ref_nonce_k"`
	Full   bool   `json:"all_bit_flips"`
}

var chainTable = []string{
	"0", "1", "3", "109", "110", "111", "61717561", "2147483648",
	"9223372036854775808",  // 2^63: V needs 65 bits
	"18446744073709551617", // 2^64+1
	"2^200", "2^254", "rand32", "rand64",
}

func genChain(r *fw.Rand, idx int) *big.Int {
	switch s := chainTable[idx%len(chainTable)]; s {
	case "2^200":
		return bigPow2(200)
	case "2^254":
		return bigPow2(254)
	case "rand32":
		return new(big.Int).SetUint64(uint64(r.Uint64()>>32) | 1)
	case "rand64":
		return new(big.Int).SetUint64(r.Uint64() | 1<<62)
	default:
		return dec(s)
	}
}

func genU64(r *fw.Rand) uint64 {
	switch r.Intn(10) {
	case 0:
		return 0
	case 1:
		return 1
	case 2:
		return uint64(r.Range(2, 300)) // crosses 0x7f/0x80 and one/two bytes
	case 3:
		return 1<<32 - 1 + uint64(r.Intn(3))
	case 4:
		return ^uint64(0) - uint64(r.Intn(2))
	case 5:
		return 1 << uint(r.Intn(64))
	default:
		return r.Uint64() >> uint(r.Intn(64))
	}
}

func genBig(r *fw.Rand) *big.Int {
	switch r.Intn(10) {
	case 0:
		return new(big.Int)
	case 1:
		return big.NewInt(1)
	case 2:
		return big.NewInt(int64(r.Range(2, 300)))
	case 3:
		return new(big.Int).Sub(two64, big.NewInt(int64(r.Intn(3))-1))
	case 4:
		return new(big.Int).Sub(two256, big.NewInt(int64(1+r.Intn(2))))
	case 5:
		return bigPow2(uint(r.Intn(256)))
	default:
		v := new(big.Int).SetBytes(r.Bytes(32))
		return v.Rsh(v, uint(r.Intn(256)))
	}
}

func genData(r *fw.Rand) []byte {
	switch r.Intn(12) {
	case 0, 1, 2:
		return []byte{}
	case 3:
		return []byte{byte(r.Intn(0x80))} // single byte encoded as itself
	case 4:
		return []byte{byte(0x80 + r.Intn(0x80))}
	case 5:
		return r.Bytes(r.Range(54, 57)) // short/long string boundary
	case 6:
		return r.Bytes(r.Range(255, 258))
	case 7:
		return r.Bytes(r.Range(300, 2048))
	case 8:
		return make([]byte, r.Range(1, 40)) // zeros
	default:
		return r.Bytes(r.Range(2, 120))
	}
}

func genKey(r *fw.Rand, boundary bool) *big.Int {
	if boundary {
		switch r.Intn(6) {
		case 0:
			return big.NewInt(1)
		case 1:
			return big.NewInt(2)
		case 2:
			return big.NewInt(3)
		case 3:
			return new(big.Int).Sub(refsig.N, big.NewInt(1))
		case 4:
			return new(big.Int).Sub(refsig.N, big.NewInt(2))
		default:
			return new(big.Int).Add(refsig.HalfN, big.NewInt(int64(r.Intn(3))))
		}
	}
	for {
		d := new(big.Int).SetBytes(r.Bytes(32))
		if r.Chance(1, 8) {
			d.Rsh(d, uint(r.Range(1, 250))) // short scalars
		}
		if d.Sign() > 0 && d.Cmp(refsig.N) < 0 {
			return d
		}
	}
}

func genScalar(r *fw.Rand) *big.Int {
	for {
		k := new(big.Int).SetBytes(r.Bytes(32))
		if k.Sign() > 0 && k.Cmp(refsig.N) < 0 {
			return k
		}
	}
}

func genSignCase(r *fw.Rand, i int) (caseIn, sgn, *big.Int, *big.Int, *refsig.Tx) {
	var s sgn
	switch i % 8 {
	case 0:
		s = sgn{Kind: kFrontier}
	case 1:
		s = sgn{Kind: kHomestead}
	default:
		// six of eight cases are EIP-155; walk the chain table
		s = sgn{Kind: kEIP155, Chain: genChain(r, (i/8)*6+(i%8-2))}
	}
	d := genKey(r, i%16 == 3)
	k := genScalar(r)
	t := &refsig.Tx{Nonce: genU64(r), GasPrice: genBig(r), Gas: genU64(r), Value: genBig(r), Data: genData(r)}
	switch r.Intn(8) {
	case 0, 1:
		t.To = nil
	case 2:
		t.To = make([]byte, 20)
	default:
		t.To = r.Bytes(20)
	}
	in := caseIn{Key: hx(pad32(d)), Signer: s.Kind, Nonce: t.Nonce, Price: t.GasPrice.String(), Gas: t.Gas,
		Value: t.Value.String(), Data: hx(t.Data), K: hx(pad32(k)), Full: i%8 == 0}
	if s.Kind == kEIP155 {
		in.Chain = s.Chain.String()
	}
	if t.To != nil {
		in.To = hx(t.To)
	}
	return in, s, d, k, t
}

// ---------------------------------------------------------------------------

type env struct {
	c       *fw.Ctx
	s       sgn
	signer  types.Signer
	exp     [20]byte
	orig    *refsig.Tx
	origEnc []byte
	decided int
}

func sameContent(a, b *refsig.Tx) bool {
	return a.Nonce == b.Nonce && a.Gas == b.Gas && a.GasPrice.Cmp(b.GasPrice) == 0 && a.Value.Cmp(b.Value) == 0 &&
		bytes.Equal(a.Data, b.Data) && bytes.Equal(a.To, b.To) && (a.To == nil) == (b.To == nil)
}

// judge decides one variant of the signed transaction under the case's signer.
func (e *env) judge(op, field string, m *refsig.Tx) {
	tx, err := realTx(m)
	if err != nil {
		e.c.Count("variant_undecodable")
		return
	}
	e.judgeReal(op, field, e.s, e.signer, tx, m)
}

func (e *env) judgeReal(op, field string, s sgn, signer types.Signer, tx *types.Transaction, m *refsig.Tx) {
	c := e.c
	from, err := types.Sender(signer, tx)
	e.decided++
	d := demandFor(s, m.V, m.R, m.S)
	if d.reject {
		c.Count("must_reject_probes")
		switch d.clause {
		case "malleable_signature_accepted":
			c.Count("high_s_probed_" + d.cause)
		case "foreign_chain_attribution":
			c.Count("foreign_chain_probed")
		default:
			c.Count("out_of_range_probed")
		}
		if err == nil {
			c.Violate(d.clause, op, d.cause, fmt.Sprintf("signer %s accepted V=%s R=%s S=%s (variant %q) and attributed it to %x; the signer of the original is %x",
				s, m.V, m.R, m.S, field, from, e.exp))
		}
		return
	}
	if err != nil {
		c.Count("mutant_rejected")
		return
	}
	if [20]byte(from) == e.exp {
		if sameContent(m, e.orig) && sameSignature(s, e.orig, m.V, m.R, m.S) {
			c.Count("same_signature_same_sender")
			return
		}
		c.Violate("mutated_tx_keeps_sender", op, field, fmt.Sprintf("signer %s: variant %q still recovers the original signer %x; variant rlp %x; original rlp %x",
			s, field, from, m.Encode(), e.origEnc))
		return
	}
	c.Count("mutant_other_address")
}

type mutant struct {
	field string
	m     *refsig.Tx
}

func flipBit(b []byte, bit int) []byte {
	o := append([]byte{}, b...)
	o[bit/8] ^= 1 << uint(bit%8)
	return o
}

func flipBigBit(v *big.Int, bit int) *big.Int {
	o := new(big.Int).Set(v)
	if o.Bit(bit) == 1 {
		return o.SetBit(o, bit, 0)
	}
	return o.SetBit(o, bit, 1)
}

// fieldMutants: every signed field and every signature component changed alone.
func fieldMutants(r *fw.Rand, o *refsig.Tx, s sgn) []mutant {
	var ms []mutant
	add := func(field string, f func(t *refsig.Tx)) {
		t := o.Copy()
		f(t)
		ms = append(ms, mutant{field, t})
	}
	addBig := func(field string, get func(t *refsig.Tx) **big.Int, maxBits int) {
		cur := *get(o)
		add(field, func(t *refsig.Tx) { *get(t) = new(big.Int).Add(cur, big.NewInt(1)) })
		if cur.Sign() > 0 {
			add(field, func(t *refsig.Tx) { *get(t) = new(big.Int).Sub(cur, big.NewInt(1)) })
		}
		add(field, func(t *refsig.Tx) { *get(t) = flipBigBit(cur, r.Intn(maxBits)) })
		add(field, func(t *refsig.Tx) { *get(t) = flipBigBit(cur, r.Intn(8)) })
		if cur.Sign() != 0 {
			add(field, func(t *refsig.Tx) { *get(t) = new(big.Int) })
		}
	}
	// nonce, gas (uint64)
	for _, f := range []struct {
		name string
		get  func(t *refsig.Tx) *uint64
	}{{"nonce", func(t *refsig.Tx) *uint64 { return &t.Nonce }}, {"gas_limit", func(t *refsig.Tx) *uint64 { return &t.Gas }}} {
		f := f
		add(f.name, func(t *refsig.Tx) { *f.get(t)++ })
		add(f.name, func(t *refsig.Tx) { *f.get(t)-- })
		add(f.name, func(t *refsig.Tx) { *f.get(t) ^= 1 << uint(r.Intn(64)) })
		add(f.name, func(t *refsig.Tx) { *f.get(t) ^= 1 << uint(r.Intn(8)) })
		add(f.name, func(t *refsig.Tx) { *f.get(t) ^= 0x80 })
	}
	addBig("gas_price", func(t *refsig.Tx) **big.Int { return &t.GasPrice }, 256)
	addBig("value", func(t *refsig.Tx) **big.Int { return &t.Value }, 256)
	// recipient
	if o.To == nil {
		add("recipient", func(t *refsig.Tx) { t.To = make([]byte, 20) }) // creation -> zero address
		add("recipient", func(t *refsig.Tx) { t.To = r.Bytes(20) })
	} else {
		add("recipient", func(t *refsig.Tx) { t.To = nil }) // -> creation
		add("recipient", func(t *refsig.Tx) { t.To = flipBit(o.To, r.Intn(160)) })
		add("recipient", func(t *refsig.Tx) { t.To = flipBit(o.To, 0) })
		add("recipient", func(t *refsig.Tx) { t.To = flipBit(o.To, 159) })
	}
	// data
	add("data", func(t *refsig.Tx) { t.Data = append(append([]byte{}, o.Data...), 0x00) })
	add("data", func(t *refsig.Tx) { t.Data = append([]byte{0x00}, o.Data...) })
	add("data", func(t *refsig.Tx) { t.Data = append(append([]byte{}, o.Data...), byte(r.Intn(256))) })
	if len(o.Data) > 0 {
		add("data", func(t *refsig.Tx) { t.Data = append([]byte{}, o.Data[:len(o.Data)-1]...) })
		add("data", func(t *refsig.Tx) { t.Data = append([]byte{}, o.Data[1:]...) })
		add("data", func(t *refsig.Tx) { t.Data = flipBit(o.Data, r.Intn(8*len(o.Data))) })
		add("data", func(t *refsig.Tx) { t.Data = flipBit(o.Data, 0) })
		add("data", func(t *refsig.Tx) { t.Data = flipBit(o.Data, 8*len(o.Data)-1) })
		add("data", func(t *refsig.Tx) { t.Data = []byte{} })
	}
	// chain id inside V, recovery id, protection on/off
	_, prot, cid, recid := refsig.Classify(o.V)
	if prot {
		// +-27/28: the distances at which the node's own V arithmetic (V - 2*chainId - 8,
		// magnitude taken) lands on 27/28 again
		for _, dlt := range []int64{1, -1, 2, 128, -27, -28, 27, 28} {
			nc := new(big.Int).Add(cid, big.NewInt(dlt))
			if nc.Sign() >= 0 {
				add("chain_id", func(t *refsig.Tx) { t.V = refsig.VFor(nc, recid) })
			}
		}
		add("chain_id", func(t *refsig.Tx) { t.V = refsig.VFor(new(big.Int).Add(cid, two64), recid) })
		add("chain_id", func(t *refsig.Tx) { t.V = refsig.VFor(new(big.Int).Lsh(cid, 1), recid) })
		add("chain_id", func(t *refsig.Tx) { t.V = refsig.VFor(nil, recid) }) // protection stripped
		add("v", func(t *refsig.Tx) { t.V = refsig.VFor(cid, recid^1) })
	} else {
		for _, nc := range []*big.Int{big.NewInt(0), big.NewInt(1), big.NewInt(3)} {
			nc := nc
			add("chain_id", func(t *refsig.Tx) { t.V = refsig.VFor(nc, recid) }) // protection added
		}
		if s.Kind == kEIP155 {
			add("chain_id", func(t *refsig.Tx) { t.V = refsig.VFor(s.Chain, recid) })
		}
		add("v", func(t *refsig.Tx) { t.V = refsig.VFor(nil, recid^1) })
	}
	add("v", func(t *refsig.Tx) { t.V = new(big.Int).Add(o.V, big.NewInt(256)) })
	add("v", func(t *refsig.Tx) { t.V = new(big.Int).Add(o.V, two64) })
	// r, s alone
	for _, f := range []struct {
		name string
		get  func(t *refsig.Tx) **big.Int
	}{{"r", func(t *refsig.Tx) **big.Int { return &t.R }}, {"s", func(t *refsig.Tx) **big.Int { return &t.S }}} {
		f := f
		cur := *f.get(o)
		add(f.name, func(t *refsig.Tx) { *f.get(t) = new(big.Int).Add(cur, big.NewInt(1)) })
		add(f.name, func(t *refsig.Tx) { *f.get(t) = new(big.Int).Sub(cur, big.NewInt(1)) })
		add(f.name, func(t *refsig.Tx) { *f.get(t) = flipBigBit(cur, r.Intn(255)) })
		add(f.name, func(t *refsig.Tx) { *f.get(t) = flipBigBit(cur, r.Intn(255)) })
		add(f.name, func(t *refsig.Tx) { *f.get(t) = new(big.Int).Sub(refsig.N, cur) }) // negated alone (no V flip)
	}
	add("r_s_swapped", func(t *refsig.Tx) { t.R, t.S = new(big.Int).Set(o.S), new(big.Int).Set(o.R) })
	return ms
}

type region struct {
	name       string
	start, end int
}

// regions maps byte offsets of the canonical encoding to field names.
func regions(t *refsig.Tx) []region {
	items := []*refrlp.Item{refrlp.U(t.Nonce), refrlp.B(t.GasPrice), refrlp.U(t.Gas), refrlp.S(t.To), refrlp.B(t.Value), refrlp.S(t.Data), refrlp.B(t.V), refrlp.B(t.R), refrlp.B(t.S)}
	names := []string{"nonce", "gas_price", "gas_limit", "recipient", "value", "data", "v", "r", "s"}
	total := len(t.Encode())
	payload := 0
	for _, it := range items {
		payload += len(refrlp.Encode(it))
	}
	off := total - payload
	rs := []region{{"list_header", 0, off}}
	for i, it := range items {
		n := len(refrlp.Encode(it))
		rs = append(rs, region{names[i], off, off + n})
		off += n
	}
	return rs
}

func regionOf(rs []region, byteOff int) string {
	for _, r := range rs {
		if byteOff >= r.start && byteOff < r.end {
			return r.name
		}
	}
	return "?"
}

func (e *env) bitFlips(r *fw.Rand, full bool) {
	c := e.c
	enc := e.origEnc
	rs := regions(e.orig)
	nbits := 8 * len(enc)
	var bits []int
	if full {
		c.Count("bitflip_all_bits_cases")
	}
	switch {
	case full && len(enc) <= 176:
		for b := 0; b < nbits; b++ {
			bits = append(bits, b)
		}
	case full:
		// everything outside the data field plus a sample of it
		var dataR region
		for _, g := range rs {
			if g.name == "data" {
				dataR = g
			}
		}
		for b := 0; b < nbits; b++ {
			if b/8 < dataR.start+4 || b/8 >= dataR.end-2 {
				bits = append(bits, b)
			}
		}
		for j := 0; j < 64; j++ {
			bits = append(bits, 8*dataR.start+r.Intn(8*(dataR.end-dataR.start)))
		}
	default:
		for j := 0; j < 40; j++ {
			bits = append(bits, r.Intn(nbits))
		}
		// always the whole of V and the list header
		for _, g := range rs {
			if g.name == "v" || g.name == "list_header" {
				for b := 8 * g.start; b < 8*g.end; b++ {
					bits = append(bits, b)
				}
			}
		}
	}
	for _, b := range bits {
		fe := flipBit(enc, b)
		tx, err := decodeReal(fe)
		if err != nil {
			c.Count("bitflip_undecodable")
			continue
		}
		c.Count("bitflip_decoded")
		reenc, err := rlp.EncodeToBytes(tx)
		if err != nil {
			c.Violate("reencoding_failed", "EncodeRLP", "bitflip", err.Error())
			continue
		}
		if bytes.Equal(reenc, enc) {
			// the node read a non-canonical alias of the same content (C11's
			// business); same content, same signer is correct
			c.Count("bitflip_alias_same_content")
			continue
		}
		m, derr := refsig.DecodeTx(reenc)
		if derr != nil {
			c.Violate("reencoding_not_canonical", "EncodeRLP", "bitflip", fmt.Sprintf("reference cannot read the node's re-encoding %x: %v", reenc, derr))
			continue
		}
		e.judgeReal("Sender", "bit:"+regionOf(rs, b/8), e.s, e.signer, tx, m)
	}
}

func (e *env) lattice(r *fw.Rand) {
	o := e.orig
	n, h := refsig.N, refsig.HalfN
	sub := func(a *big.Int, k int64) *big.Int { return new(big.Int).Sub(a, big.NewInt(k)) }
	base := []*big.Int{big.NewInt(0), big.NewInt(1), big.NewInt(2), sub(h, 1), new(big.Int).Set(h), sub(h, -1), sub(n, 2), sub(n, 1), new(big.Int).Set(n), sub(n, -1), sub(two256, 1), new(big.Int).Set(two256)}
	rsv := append(append([]*big.Int{}, base...), o.R)
	// s+N and r+N are congruent to the original values: a verifier that reduces
	// mod N instead of range-checking would recover the signer from them
	ssv := append(append([]*big.Int{}, base...), o.S, new(big.Int).Sub(n, o.S), new(big.Int).Add(n, o.S), new(big.Int).Sub(new(big.Int).Lsh(n, 1), o.S))
	rsv = append(rsv, new(big.Int).Add(n, o.R))
	_, prot, cid, recid := refsig.Classify(o.V)
	var chain *big.Int
	if prot {
		chain = cid
	}
	twinV := refsig.VFor(chain, recid^1)
	probe := func(v, rr, ss *big.Int) {
		m := o.Copy()
		m.V, m.R, m.S = v, rr, ss
		e.c.Count("lattice_probes")
		e.judge("Sender", "vrs_lattice", m)
	}
	for _, rr := range rsv {
		for _, ss := range ssv {
			probe(o.V, rr, ss)
			if rr == o.R {
				probe(twinV, rr, ss)
			}
		}
	}
	// V encodings around every boundary the code has (27/28, 35/36, 8 bits, 64 bits)
	vs := []*big.Int{big.NewInt(0), big.NewInt(1), big.NewInt(2), big.NewInt(25), big.NewInt(26), big.NewInt(27), big.NewInt(28), big.NewInt(29), big.NewInt(34), big.NewInt(35), big.NewInt(36), big.NewInt(37),
		big.NewInt(255), big.NewInt(256), big.NewInt(256 + 27), big.NewInt(256 + 28), new(big.Int).Add(two64, big.NewInt(27)), new(big.Int).Add(two64, big.NewInt(28)),
		new(big.Int).Add(two64, big.NewInt(35)), sub(two256, 1), new(big.Int).Add(two256, big.NewInt(27)),
		sub(o.V, 1), sub(o.V, -1), sub(o.V, 2), sub(o.V, -2), sub(o.V, 8), sub(o.V, -8), sub(o.V, -10), new(big.Int).Add(o.V, big.NewInt(256))}
	if e.s.Kind == kEIP155 {
		// V values the node's own arithmetic maps onto 27/28 for this signer
		m2 := new(big.Int).Lsh(e.s.Chain, 1)
		for _, k := range []int64{27, 28, 35, 36, 8 + 27, 8 + 28} {
			vs = append(vs, new(big.Int).Add(m2, big.NewInt(k)))
		}
	}
	tw := new(big.Int).Sub(n, o.S)
	for _, v := range vs {
		if v.Sign() < 0 {
			continue
		}
		probe(v, o.R, o.S)
		probe(v, o.R, tw)
	}
}

func foreignSigners(r *fw.Rand, s sgn) []sgn {
	c := s.Chain
	if c == nil {
		c = big.NewInt(3)
	}
	cand := []*big.Int{new(big.Int).Add(c, big.NewInt(1)), new(big.Int).Sub(c, big.NewInt(1)),
		new(big.Int).Add(c, big.NewInt(27)), new(big.Int).Add(c, big.NewInt(28)), new(big.Int).Sub(c, big.NewInt(27)), new(big.Int).Sub(c, big.NewInt(28)), new(big.Int).Add(c, two64), new(big.Int).Sub(c, two64), new(big.Int).Add(c, bigPow2(63)),
		new(big.Int).Mod(c, two64), new(big.Int).Mod(c, big.NewInt(256)), new(big.Int).Add(c, big.NewInt(128)), new(big.Int).Lsh(c, 1), big.NewInt(0), big.NewInt(1), big.NewInt(3),
		new(big.Int).SetUint64(r.Uint64()), new(big.Int).Set(c)}
	out := []sgn{{Kind: kFrontier}, {Kind: kHomestead}}
	for _, x := range cand {
		if x.Sign() >= 0 {
			out = append(out, sgn{Kind: kEIP155, Chain: x})
		}
	}
	return out
}

func sameSigner(a, b sgn) bool {
	if a.Kind != b.Kind {
		return false
	}
	return a.Kind != kEIP155 || a.Chain.Cmp(b.Chain) == 0
}

type senderRes struct {
	addr [20]byte
	ok   bool
}

func querySender(signer types.Signer, tx *types.Transaction) senderRes {
	a, err := types.Sender(signer, tx)
	if err != nil {
		return senderRes{}
	}
	return senderRes{addr: a, ok: true}
}

func (s senderRes) String() string {
	if !s.ok {
		return "error"
	}
	return addrHex(s.addr)
}

// cacheChecks: a sender memoised under signer A must not answer for signer B.
func (e *env) cacheChecks(r *fw.Rand, txs map[string][]byte) {
	c := e.c
	own := e.s
	other := sgn{Kind: kEIP155, Chain: big.NewInt(3)}
	if own.Kind == kEIP155 {
		other = sgn{Kind: kEIP155, Chain: new(big.Int).Add(own.Chain, big.NewInt(1))}
	}
	pool := []sgn{own, {Kind: kFrontier}, {Kind: kHomestead}, other, {Kind: kEIP155, Chain: big.NewInt(1)}}
	if own.Kind == kEIP155 {
		pool = append(pool, sgn{Kind: kEIP155, Chain: new(big.Int).Add(own.Chain, two64)})
	}
	type pair struct{ a, b sgn }
	for name, enc := range txs {
		pairs := []pair{{own, other}, {other, own}, {sgn{Kind: kFrontier}, sgn{Kind: kHomestead}}, {sgn{Kind: kHomestead}, sgn{Kind: kFrontier}}, {sgn{Kind: kFrontier}, own}, {own, sgn{Kind: kHomestead}}}
		for j := 0; j < 4; j++ {
			pairs = append(pairs, pair{pool[r.Intn(len(pool))], pool[r.Intn(len(pool))]})
		}
		for _, p := range pairs {
			if sameSigner(p.a, p.b) {
				continue
			}
			A, B := p.a.real(), p.b.real()
			t, err := decodeReal(enc)
			if err != nil {
				continue
			}
			ra := querySender(A, t)
			rb := querySender(B, t)
			ra2 := querySender(A, t)
			f, _ := decodeReal(enc)
			fb := querySender(B, f)
			f2, _ := decodeReal(enc)
			fa := querySender(A, f2)
			c.Count("cache_cross_signer_queries")
			if rb != fb {
				c.Violate("cached_sender_answers_for_other_signer", "Sender", p.a.Kind+"_then_"+p.b.Kind,
					fmt.Sprintf("%s transaction %x: Sender(%s) after Sender(%s) on the same object = %s, on a fresh decode = %s", name, enc, p.b, p.a, rb, fb))
			}
			if ra != fa || ra2 != fa {
				c.Violate("cached_sender_answers_for_other_signer", "Sender", p.a.Kind+"_requeried_after_"+p.b.Kind,
					fmt.Sprintf("%s transaction %x: Sender(%s) first = %s, after Sender(%s) = %s, fresh = %s", name, enc, p.a, ra, p.b, ra2, fa))
			}
		}
		// String() derives a sender with a guessed signer; it must not poison later queries
		for _, b := range []sgn{own, other, {Kind: kHomestead}} {
			t, err := decodeReal(enc)
			if err != nil {
				continue
			}
			_ = t.String()
			rb := querySender(b.real(), t)
			f, _ := decodeReal(enc)
			fb := querySender(b.real(), f)
			c.Count("cache_primed_by_string")
			if rb != fb {
				c.Violate("cached_sender_answers_for_other_signer", "Sender", "string_then_"+b.Kind,
					fmt.Sprintf("%s transaction %x: Sender(%s) after String() = %s, fresh = %s", name, enc, b, rb, fb))
			}
		}
	}
}

// roundTrips: hash and sender survive RLP and JSON.
func (e *env) roundTrips(name string, signed *types.Transaction, spec *refsig.Tx, s sgn, wantSender senderRes) {
	c := e.c
	signer := s.real()
	h0 := signed.Hash()
	refEnc := spec.Encode()
	refHash := spec.Hash()
	enc, err := rlp.EncodeToBytes(signed)
	if err != nil {
		c.Violate("reencoding_failed", "EncodeRLP", name, err.Error())
		return
	}
	if !bytes.Equal(enc, refEnc) {
		c.Violate("reencoding_not_canonical", "EncodeRLP", name, fmt.Sprintf("node encodes %x, canonical RLP of the same fields is %x", enc, refEnc))
	}
	if !bytes.Equal(h0[:], refHash) {
		c.Violate("hash_changed_by_reencoding", "Hash", name+":vs_reference", fmt.Sprintf("Hash() = %x, Keccak-256 of the canonical RLP = %x", h0, refHash))
	}
	d1, err := decodeReal(enc)
	if err != nil {
		c.Violate("reencoding_failed", "DecodeRLP", name, err.Error())
		return
	}
	c.Count("rlp_roundtrip")
	if d1.Hash() != h0 {
		c.Violate("hash_changed_by_reencoding", "Hash", name+":rlp", fmt.Sprintf("%x before, %x after RLP round trip", h0, d1.Hash()))
	}
	if got := querySender(signer, d1); got != wantSender {
		c.Violate("sender_changed_by_reencoding", "Sender", name+":rlp", fmt.Sprintf("sender %s before, %s after RLP round trip of %x", wantSender, got, enc))
	}
	// JSON
	js, err := signed.MarshalJSON()
	if err != nil {
		c.Violate("reencoding_failed", "MarshalJSON", name, err.Error())
		return
	}
	var d2 types.Transaction
	if err := d2.UnmarshalJSON(js); err != nil {
		c.Violate("reencoding_failed", "UnmarshalJSON", name, fmt.Sprintf("%v on %s", err, js))
		return
	}
	c.Count("json_roundtrip")
	if d2.Hash() != h0 {
		c.Violate("hash_changed_by_reencoding", "Hash", name+":json", fmt.Sprintf("%x before, %x after JSON round trip %s", h0, d2.Hash(), js))
	}
	if got := querySender(signer, &d2); got != wantSender {
		c.Violate("sender_changed_by_reencoding", "Sender", name+":json", fmt.Sprintf("sender %s before, %s after JSON round trip %s", wantSender, got, js))
	}
	var fields map[string]interface{}
	if json.Unmarshal(js, &fields) == nil {
		if hs, _ := fields["hash"].(string); strings.TrimPrefix(hs, "0x") != hx(h0[:]) {
			c.Violate("hash_changed_by_reencoding", "MarshalJSON", name+":hash_field", fmt.Sprintf("JSON says hash %s, transaction hash %x", hs, h0))
		}
	}
	// JSON -> RLP -> JSON
	enc2, err := rlp.EncodeToBytes(&d2)
	if err != nil || !bytes.Equal(enc2, enc) {
		c.Violate("hash_changed_by_reencoding", "EncodeRLP", name+":json_then_rlp", fmt.Sprintf("RLP after a JSON round trip %x (%v), before %x", enc2, err, enc))
	}
	d3, err := decodeReal(enc2)
	if err == nil {
		js3, _ := d3.MarshalJSON()
		if !bytes.Equal(js3, js) {
			c.Violate("hash_changed_by_reencoding", "MarshalJSON", name+":rlp_then_json", fmt.Sprintf("JSON %s vs %s", js3, js))
		}
	}
}

// makeSignerChecks: MakeSigner selects the rule set by height.
func (e *env) makeSignerChecks(r *fw.Rand, txs map[string]*refsig.Tx) {
	c := e.c
	chain := big.NewInt(3)
	if e.s.Kind == kEIP155 {
		chain = e.s.Chain
	}
	hb := int64(r.Range(1, 6))
	eb := hb + int64(r.Range(0, 6))
	cfg := &params.ChainConfig{ChainId: new(big.Int).Set(chain), HomesteadBlock: big.NewInt(hb), EIP155Block: big.NewInt(eb)}
	for _, h := range []int64{0, hb - 1, hb, eb - 1, eb, eb + 1, eb + int64(r.Range(2, 1000000))} {
		if h < 0 {
			continue
		}
		want := sgn{Kind: kFrontier}
		if h >= eb {
			want = sgn{Kind: kEIP155, Chain: chain}
		} else if h >= hb {
			want = sgn{Kind: kHomestead}
		}
		signer := types.MakeSigner(cfg, big.NewInt(h))
		c.Count("makesigner_heights")
		for name, m := range txs {
			tx, err := realTx(m)
			if err != nil {
				continue
			}
			from, err := types.Sender(signer, tx)
			d := demandFor(want, m.V, m.R, m.S)
			op := "MakeSigner+Sender"
			if d.reject {
				if err == nil {
					c.Violate(d.clause, op, d.cause, fmt.Sprintf("height %d of (homestead %d, eip155 %d, chain %s): rules in force are %s, yet %s transaction V=%s R=%s S=%s was attributed to %x",
						h, hb, eb, chain, want, name, m.V, m.R, m.S, from))
				}
				continue
			}
			// the content is the original's and the signature is the original or its twin
			if err == nil && [20]byte(from) != e.exp && sameSigner(want, e.s) {
				c.Violate("signed_tx_misattributed", op, want.Kind, fmt.Sprintf("height %d: %s transaction attributed to %x, signer is %x", h, name, from, e.exp))
			}
			if err != nil && sameSigner(want, e.s) && name == "original" {
				c.Violate("signed_tx_misattributed", op, want.Kind+":refused", fmt.Sprintf("height %d: rules in force are the transaction's own (%s), Sender failed: %v", h, want, err))
			}
		}
	}
}

func runSign(c *fw.Ctx) {
	n := c.Pick(120, 5000)
	for i := 0; i < n; i++ {
		r := c.Rand("sign", fmt.Sprint(i))
		in, s, d, k, content := genSignCase(r, i)
		id := fmt.Sprintf("sign-%d", i)
		mr := r.Fork("mut")
		c.Case(id, in, func() { signCase(c, id, in, s, d, k, content, mr) })
	}
}

func signCase(c *fw.Ctx, id string, in caseIn, s sgn, d, k *big.Int, content *refsig.Tx, r *fw.Rand) {
	exp, err := refsig.AddressOfKey(d)
	if err != nil {
		panic(err)
	}
	prv := privKey(d)
	signer := s.real()
	chainZero := s.Kind == kEIP155 && s.Chain.Sign() == 0
	if in.Key[:60] == strings.Repeat("0", 60) || d.Cmp(new(big.Int).Sub(refsig.N, big.NewInt(3))) > 0 {
		c.Count("key_boundary_scalar")
	}
	e := &env{c: c, s: s, signer: signer, exp: exp}

	// 1. what is signed
	unsigned := unsignedReal(content)
	_ = unsigned.Hash() // a caller may have looked at the unsigned hash: it must not stick to the signed copy
	refh := content.SigHash(s.specChain())
	if got := signer.Hash(unsigned); !bytes.Equal(got[:], refh) {
		c.Violate("signing_hash_not_specified_hash", "Signer.Hash", s.Kind, fmt.Sprintf("signer %s hashes to %x, the specification to %x", s, got, refh))
	}

	// 2. a signature made by an independent signer over the specified hash
	if rr, ss, recid, ok := refsig.Sign(refh, d, k); ok {
		rt := content.Copy()
		rt.V, rt.R, rt.S = refsig.VFor(s.specChain(), recid), rr, ss
		tx, err := realTx(rt)
		if err != nil {
			c.Violate("signed_tx_misattributed", "DecodeRLP", "refsigned:"+s.Kind, err.Error())
		} else {
			from, err := types.Sender(signer, tx)
			switch {
			case err != nil && chainZero:
				c.Count("chain_id_zero_refused")
			case err != nil:
				c.Violate("signed_tx_misattributed", "Sender", "refsigned_refused:"+s.Kind, fmt.Sprintf("signer %s refuses a transaction signed by key %x over the specified hash: %v; rlp %x", s, pad32(d), err, rt.Encode()))
			case [20]byte(from) != exp:
				c.Violate("signed_tx_misattributed", "Sender", "refsigned:"+s.Kind, fmt.Sprintf("signer %s attributes to %x, key's address is %x; rlp %x", s, from, exp, rt.Encode()))
			default:
				c.Count("refsigned_attributed")
			}
			// WithSignature must build the very same transaction from (r||s||recid)
			if !chainZero {
				sig := append(append(pad32(rr), pad32(ss)...), recid)
				ws, err := unsigned.WithSignature(signer, sig)
				if err != nil {
					c.Violate("signed_tx_misattributed", "WithSignature", s.Kind, err.Error())
				} else if h := ws.Hash(); !bytes.Equal(h[:], rt.Hash()) {
					c.Violate("signed_tx_misattributed", "WithSignature", "v_encoding:"+s.Kind, fmt.Sprintf("WithSignature gives hash %x, specified encoding hashes to %x", h, rt.Hash()))
				}
			}
		}
	}

	// 3. the node's own signing
	if a := cryptoAddress(prv); a != exp {
		c.Violate("signed_tx_misattributed", "PubkeyToAddress", "key_address", fmt.Sprintf("node derives %x for key %x, reference %x", a, pad32(d), exp))
	}
	signed, err := types.SignTx(unsigned, signer, prv)
	if err != nil {
		if chainZero {
			c.Count("chain_id_zero_refused")
			return
		}
		c.Violate("signed_tx_misattributed", "SignTx", "sign_failed:"+s.Kind, fmt.Sprintf("SignTx under %s with key %x: %v", s, pad32(d), err))
		return
	}
	V, R, S := signed.RawSignatureValues()
	o := content.Copy()
	o.V, o.R, o.S = new(big.Int).Set(V), new(big.Int).Set(R), new(big.Int).Set(S)
	e.orig, e.origEnc = o, o.Encode()
	valid, prot, cid, recid := refsig.Classify(V)
	if chainZero {
		// degenerate: the node writes V=27/28 for chain id 0; judge by what V says
		if !valid {
			c.Violate("signed_tx_misattributed", "SignTx", "v_encoding:"+s.Kind, fmt.Sprintf("V=%s", V))
			return
		}
	} else if !valid || prot != (s.Kind == kEIP155) || (prot && cid.Cmp(s.Chain) != 0) {
		c.Violate("signed_tx_misattributed", "SignTx", "v_encoding:"+s.Kind, fmt.Sprintf("signer %s produced V=%s (valid=%v protected=%v chain=%v)", s, V, valid, prot, cid))
		return
	}
	c.Count("signed_" + s.Kind)
	if V.BitLen() > 8 {
		c.Count("signed_v_exceeds_8_bits")
	}
	if V.BitLen() > 64 {
		c.Count("signed_v_exceeds_64_bits")
	}
	sigHash := refh
	if chainZero && !prot {
		sigHash = content.SigHash(nil)
	}
	nontrivial := false
	if ra, err := refsig.Recover(sigHash, R, S, recid); err != nil || ra != exp {
		if !chainZero {
			c.Violate("signed_tx_misattributed", "SignTx", "signature_not_by_key:"+s.Kind, fmt.Sprintf("reference recovers %x (%v) from the node's signature, key's address is %x", ra, err, exp))
		}
	} else {
		c.Count("signature_verified_by_reference")
		nontrivial = true
	}
	want := senderRes{addr: exp, ok: true}
	if got := querySender(signer, signed); got != want {
		c.Violate("signed_tx_misattributed", "Sender", s.Kind, fmt.Sprintf("signer %s: Sender = %s, key's address %x; rlp %x", s, got, exp, e.origEnc))
	}
	if fresh, err := decodeReal(e.origEnc); err != nil {
		c.Violate("reencoding_failed", "DecodeRLP", "canonical_signed_tx", fmt.Sprintf("%v on %x", err, e.origEnc))
	} else {
		if got := querySender(signer, fresh); got != want {
			c.Violate("signed_tx_misattributed", "Sender", s.Kind+":fresh_decode", fmt.Sprintf("signer %s: Sender = %s, key's address %x; rlp %x", s, got, exp, e.origEnc))
		}
		msg, err := fresh.AsMessage(signer)
		if err != nil || [20]byte(msg.From()) != exp {
			c.Violate("signed_tx_misattributed", "AsMessage", s.Kind, fmt.Sprintf("AsMessage: from %x err %v, key's address %x", msg.From(), err, exp))
		} else if msg.Nonce() != o.Nonce || msg.Gas() != o.Gas || msg.GasPrice().Cmp(o.GasPrice) != 0 || msg.Value().Cmp(o.Value) != 0 ||
			!bytes.Equal(msg.Data(), o.Data) || (msg.To() == nil) != (o.To == nil) || (msg.To() != nil && !bytes.Equal(msg.To()[:], o.To)) {
			c.Violate("signed_tx_misattributed", "AsMessage", "fields_differ", fmt.Sprintf("message %+v vs transaction %x", msg, e.origEnc))
		}
	}

	// 4. re-encodings
	e.roundTrips("signed", signed, o, s, want)

	// 5. every field and signature component changed alone
	ms := fieldMutants(r, o, s)
	for _, m := range ms {
		if bytes.Equal(m.m.Encode(), e.origEnc) {
			continue
		}
		c.Count("field_mutants")
		c.Count("field_mutant:" + m.field)
		e.judge("Sender", m.field, m.m)
	}

	// 5b. decoding into an object that already answered for another transaction
	e.reuseChecks(signed, o, want, ms)

	// 6. single-bit flips of the wire form
	e.bitFlips(r, in.Full)

	// 7. boundary lattice of V, R, S
	e.lattice(r)

	// 8. the unchanged transaction under every other signer
	twin := o.Copy()
	twin.S = new(big.Int).Sub(refsig.N, o.S)
	if prot {
		twin.V = refsig.VFor(cid, recid^1)
	} else {
		twin.V = refsig.VFor(nil, recid^1)
	}
	for _, fs := range foreignSigners(r, s) {
		if sameSigner(fs, s) {
			continue
		}
		c.Count("foreign_signer_queries")
		tx, err := realTx(o)
		if err != nil {
			break
		}
		e.judgeForeign(fs, tx, o, "original")
		if prot && fs.Kind == kEIP155 && fs.Chain.Sign() > 0 {
			// cross-chain replay: R,S untouched, V rewritten to the other chain's
			// encoding, asked of that chain's signer. Its signing hash contains its
			// own chain id, so the original signer must not come out.
			m := o.Copy()
			m.V = refsig.VFor(fs.Chain, recid)
			if rtx, err := realTx(m); err == nil {
				c.Count("v_rewritten_replay_probed")
				e.decided++
				if from, err := types.Sender(fs.real(), rtx); err == nil && [20]byte(from) == exp {
					c.Violate("foreign_chain_attribution", "Sender", "v_rewritten:eip155_other_chain", fmt.Sprintf("transaction signed for %s with V rewritten to %s is attributed to its signer %x under %s; rlp %x", s, m.V, from, fs, m.Encode()))
				}
			}
		}
		if tw, err := realTx(twin); err == nil {
			e.judgeForeign(fs, tw, twin, "high_s_twin")
		}
	}
	// the twin under the transaction's own rules
	if tw, err := realTx(twin); err == nil {
		got := querySender(signer, tw)
		dm := demandFor(s, twin.V, twin.R, twin.S)
		if s.Kind == kFrontier {
			if got == want {
				c.Count("high_s_twin_frontier_same_sender")
				e.roundTrips("frontier_high_s_twin", tw, twin, s, want)
			} else if got.ok {
				c.Violate("signed_tx_misattributed", "Sender", "frontier_high_s_twin", fmt.Sprintf("twin attributed to %s, signer %x", got, exp))
			}
		} else if dm.reject && got.ok {
			// already reported by the lattice with the same signature; keep the count honest
			c.Count("high_s_twin_accepted")
		}
	}

	// 9. cached senders across signers
	e.cacheChecks(r, map[string][]byte{"original": e.origEnc, "high_s_twin": twin.Encode()})

	// 10. MakeSigner by height
	e.makeSignerChecks(r, map[string]*refsig.Tx{"original": o, "high_s_twin": twin})

	if nontrivial && e.decided >= 40 {
		c.Nontrivial(hx(o.Hash()))
	}
	if c.WantSample() {
		c.Sample(map[string]interface{}{"case": id, "signer": s.String(), "key_address": addrHex(exp), "signed_rlp": hx(e.origEnc), "v_bits": V.BitLen(),
			"variants_decided": e.decided, "field_mutants": len(ms)})
	}
}

// judgeForeign: the unchanged transaction (or its twin) under a signer other
// than the one it was made for.
func (e *env) judgeForeign(fs sgn, tx *types.Transaction, m *refsig.Tx, name string) {
	c := e.c
	from, err := types.Sender(fs.real(), tx)
	e.decided++
	d := demandFor(fs, m.V, m.R, m.S)
	if d.reject {
		c.Count("must_reject_probes")
		switch d.clause {
		case "foreign_chain_attribution":
			c.Count("foreign_chain_probed")
		case "malleable_signature_accepted":
			c.Count("high_s_probed_" + d.cause)
		}
		if err == nil {
			c.Violate(d.clause, "Sender", d.cause, fmt.Sprintf("%s transaction made under %s, queried under %s: attributed to %x (V=%s R=%s S=%s); signer of the original %x",
				name, e.s, fs, from, m.V, m.R, m.S, e.exp))
		}
		return
	}
	if err != nil {
		c.Count("foreign_signer_refused")
		return
	}
	// Accepted by rules that admit this V. A protected transaction is admitted
	// by its own signer only (excluded by the caller), so V is 27/28 here and
	// every rule set hashes the same six fields the signer hashed: the original
	// (and, where high S is allowed, its twin) belongs to the signer.
	if !d.protected && e.s.Kind != kEIP155 && [20]byte(from) != e.exp {
		c.Violate("signed_tx_misattributed", "Sender", "foreign_signer:"+fs.Kind, fmt.Sprintf("%s transaction made under %s, queried under %s (same signing hash): attributed to %x, signer is %x", name, e.s, fs, from, e.exp))
		return
	}
	c.Count("foreign_signer_same_sender")
}

// reuseChecks: a Transaction value that already answered Hash/Size/Sender for
// one transaction is reused as the destination of a decode of another one (a
// variable filled from a stream, a pooled object). What it then says about hash
// and sender must be about the new content.
func (e *env) reuseChecks(signed *types.Transaction, o *refsig.Tx, want senderRes, ms []mutant) {
	c := e.c
	h0 := signed.Hash()
	js, err := signed.MarshalJSON()
	if err != nil {
		return
	}
	// a content mutant with the signature untouched that both codecs can carry
	var other *mutant
	var otherJS []byte
	for i := range ms {
		m := &ms[i]
		switch m.field {
		case "value", "nonce", "gas_price", "gas_limit", "recipient", "data":
		default:
			continue
		}
		if sameContent(m.m, o) {
			continue
		}
		t, err := realTx(m.m)
		if err != nil {
			continue
		}
		j, err := t.MarshalJSON()
		if err != nil {
			continue
		}
		var probe types.Transaction
		if probe.UnmarshalJSON(j) != nil {
			continue // e.g. a value of 257 bits: not expressible in the JSON form
		}
		other, otherJS = m, j
		break
	}
	if other == nil {
		c.Count("reuse_no_carrier_mutant")
		return
	}
	otherEnc := other.m.Encode()
	otherHash := other.m.Hash()
	prime := func(enc []byte) *types.Transaction {
		d, err := decodeReal(enc)
		if err != nil {
			return nil
		}
		_ = d.Hash()
		_ = d.Size()
		_ = querySender(e.signer, d)
		return d
	}
	type codec struct {
		name   string
		decode func(d *types.Transaction, js, enc []byte) error
	}
	codecs := []codec{
		{"json_into_used_object", func(d *types.Transaction, js, enc []byte) error { return d.UnmarshalJSON(js) }},
		{"json_into_used_object", func(d *types.Transaction, js, enc []byte) error { return json.Unmarshal(js, d) }},
		{"rlp_into_used_object", func(d *types.Transaction, js, enc []byte) error { return rlp.DecodeBytes(enc, d) }},
	}
	for _, cd := range codecs {
		// (a) slot primed with the mutant, then the signed transaction decoded over it
		if d := prime(otherEnc); d != nil {
			if err := cd.decode(d, js, e.origEnc); err != nil {
				c.Violate("reencoding_failed", "Decode", "signed:"+cd.name, err.Error())
			} else {
				c.Count(strings.SplitN(cd.name, "_", 2)[0] + "_decode_into_used")
				if h := d.Hash(); h != h0 {
					c.Violate("hash_changed_by_reencoding", "Hash", "signed:"+cd.name, fmt.Sprintf("object primed with %x then decoded from the signed transaction says hash %x, the transaction's hash is %x", otherEnc, h, h0))
				}
				if enc, err := rlp.EncodeToBytes(d); err == nil {
					if h := d.Hash(); !bytes.Equal(h[:], refhash.Keccak256(enc)) {
						c.Violate("hash_changed_by_reencoding", "Hash", "signed:"+cd.name+":not_hash_of_own_encoding", fmt.Sprintf("Hash() %x is not the hash of the object's own encoding %x", h, enc))
					}
				}
				if got := querySender(e.signer, d); got != want {
					c.Violate("sender_changed_by_reencoding", "Sender", "signed:"+cd.name, fmt.Sprintf("object primed with %x then decoded from the signed transaction: sender %s, signer is %s", otherEnc, got, want))
				}
				if msg, err := d.AsMessage(e.signer); err != nil || [20]byte(msg.From()) != e.exp {
					c.Violate("sender_changed_by_reencoding", "AsMessage", "signed:"+cd.name, fmt.Sprintf("AsMessage from %x err %v, signer is %x", msg.From(), err, e.exp))
				}
			}
		}
		// (b) slot primed with the signed transaction, then a content mutant
		// (signature untouched) decoded over it: the existing mutant oracle
		if d := prime(e.origEnc); d != nil {
			if err := cd.decode(d, otherJS, otherEnc); err != nil {
				c.Violate("reencoding_failed", "Decode", "mutant:"+cd.name, err.Error())
				continue
			}
			c.Count(strings.SplitN(cd.name, "_", 2)[0] + "_decode_into_used")
			if h := d.Hash(); !bytes.Equal(h[:], otherHash) {
				c.Violate("hash_changed_by_reencoding", "Hash", "mutant:"+cd.name, fmt.Sprintf("object primed with the signed transaction then decoded from mutant %q says hash %x, the mutant's hash is %x", other.field, h, otherHash))
			}
			e.judgeReal("Sender", other.field+":"+cd.name, e.s, e.signer, d, other.m)
		}
	}
}
