package c16

import (
	"context"
	"encoding/json"
	"fmt"
	"math/big"
	"time"

	"gitlab.com/aquachain/aquachain/aqua"
	"gitlab.com/aquachain/aquachain/aqua/event"
	"gitlab.com/aquachain/aquachain/aqua/filters"
	"gitlab.com/aquachain/aquachain/aquadb"
	"gitlab.com/aquachain/aquachain/common"
	"gitlab.com/aquachain/aquachain/common/bitutil"
	"gitlab.com/aquachain/aquachain/core"
	"gitlab.com/aquachain/aquachain/core/bloombits"
	"gitlab.com/aquachain/aquachain/core/types"
	"gitlab.com/aquachain/aquachain/params"
	"verif/internal/fw"
	"verif/internal/gen"
	"verif/internal/ref/refbloom"
)

// bloomConfirms mirrors the constant of aqua/bloombits.go (unexported): a
// section is indexed once 256 blocks sit on top of it. Used only to know how
// far the real indexer is going to get (quiescence), never for a verdict.
const bloomConfirms = 256

type chainDesc struct {
	Chain    int    `json:"chain"`
	Config   string `json:"config"`
	Size     uint64 `json:"section_size"`
	MainLen  int    `json:"main_len"`
	Cuts     []int  `json:"import_cuts"`
	Shallow  int    `json:"shallow_reorg_depth"`
	DeepFork int    `json:"deep_reorg_fork_height"` // 0 = none
	Threads  int    `json:"svc_threads"`
	Batch    int    `json:"svc_batch"`
	WaitUs   int    `json:"svc_wait_us"`
	Withhold bool   `json:"svc_withhold_first_delivery"`
}

type queryInput struct {
	Chain    chainDesc `json:"chain"`
	State    string    `json:"state"`
	Head     uint64    `json:"head"`
	Sections uint64    `json:"sections"`
	Q        query     `json:"query"`
}

var configs = []struct {
	name string
	cfg  func() *params.ChainConfig
}{
	{"test_hf1to7", gen.ConfigTest},
	{"versions_2_3_4", gen.ConfigVersions},
	{"pre_byzantium_12", gen.ConfigPreByzantium},
}

func sectionSizes(c *fw.Ctx) []uint64 {
	if c.Thorough() {
		return []uint64{8, 16, 24, 32, 40, 64, 128}
	}
	return []uint64{8, 16, 24, 32, 64}
}

// chainRun holds everything of one chain case.
type chainRun struct {
	c      *fw.Ctx
	r      *fw.Rand
	d      chainDesc
	w      *world
	led    *ledger
	main   []*gen.Built
	bc     *core.BlockChain
	be     *backend
	api    *filters.PublicFilterAPI
	pools  *pools
	canon  [][]xlog       // expected logs of the canonical chain by number
	canonB []*types.Block // canonical blocks by number (0 = genesis)
	// verified index sections: section -> head hash
	verified map[uint64]common.Hash
	state    string
	stuck    bool // the generator cannot serve this section size: the index stays empty
	sampled  bool
	park     *parkDB // non-nil for mid-section chains
	extraQ   []query // forced queries added by the current state
	// how the current index progress is read and a query executed (the service
	// leg substitutes the node's own backend and RPC)
	sections func() uint64
	progress func() (uint64, common.Hash) // sections and the recorded head of the last one
	exec     func(q *query) ([]*types.Log, error)
	db       aquadb.Database
}

func runChains(c *fw.Ctx) {
	if err := refbloom.SelfTest(); err != nil {
		panic(err)
	}
	n := c.Pick(3, 48)
	for i := 0; i < n; i++ {
		runChain(c, i)
	}
	runMidSections(c)
}

// generatorWorks probes bloombits.Generator for a section size: after a full
// section every one of the 2048 bit vectors must be retrievable. (On a tree
// where Bitset bounds the bit index by the section size, sizes below 2048 fail
// and the real indexer can never commit a section of that size.)
var genProbe = map[uint64]error{}

func generatorWorks(size uint64) error {
	if err, ok := genProbe[size]; ok {
		return err
	}
	var err error
	g, e := bloombits.NewGenerator(uint(size))
	if e != nil {
		err = e
	} else {
		for j := uint(0); j < uint(size) && err == nil; j++ {
			err = g.AddBloom(j, types.Bloom{})
		}
		for _, bit := range []uint{0, uint(size) - 1, uint(size), refbloom.Bits - 1} {
			if bit < refbloom.Bits && err == nil {
				_, err = g.Bitset(bit)
			}
		}
	}
	genProbe[size] = err
	return err
}

var largeSizes = []uint64{2048, 2056, 2048, 4096}

func runChain(c *fw.Ctx, i int) {
	r := c.Rand("chain", fmt.Sprint(i))
	cr := &chainRun{c: c, r: r, verified: map[uint64]common.Hash{}}
	global := c.Batch*1000 + i
	cfgi := (c.Batch + i) % len(configs)
	large := i%3 == 0
	var size uint64
	var k, mainLen int
	if large {
		slot := (c.Batch + i/3) % len(largeSizes)
		size = largeSizes[slot]
		k = 1
		if slot == 2 {
			k = 2 // two sections of 2048: a state with the index half way
		}
		mainLen = bloomConfirms + int(size)*k - 1 + r.Range(0, 40)
	} else {
		sizes := sectionSizes(c)
		size = sizes[(global/3)%len(sizes)]
		k = r.Range(1, 5)
		if size >= 64 {
			k = r.Range(1, 3)
		}
		mainLen = bloomConfirms + int(size)*k + r.Range(-1, int(size)) // head = mainLen; sections = (head+1-256)/size
		if mainLen < bloomConfirms+int(size)-1 {
			mainLen = bloomConfirms + int(size) - 1
		}
	}
	d := chainDesc{Chain: i, Config: configs[cfgi].name, Size: size, MainLen: mainLen,
		Threads: r.Range(1, 3), Batch: []int{1, 2, 16}[r.Intn(3)], WaitUs: []int{0, 0, 200}[r.Intn(3)], Withhold: r.Chance(1, 3)}
	if large {
		// no section yet; one block short of the first section's confirmation; (k=2: one of two sections;) all
		d.Cuts = []int{r.Range(3, int(size)-1), bloomConfirms + int(size) - 2}
		if k == 2 {
			d.Cuts = append(d.Cuts, bloomConfirms+int(size)-1+r.Range(0, int(size)-2))
		}
		d.Cuts = append(d.Cuts, mainLen)
		d.Withhold = (c.Batch+i/3)%2 == 0
	} else {
		j1 := r.Range(1, k)
		d.Cuts = []int{r.Range(3, bloomConfirms-2), bloomConfirms - 1 + int(size)*j1 + r.Range(0, int(size)-1), mainLen}
		if d.Cuts[1] >= mainLen {
			d.Cuts = []int{d.Cuts[0], mainLen}
		}
	}
	d.Shallow = r.Range(1, 9)
	switch {
	case large:
		d.DeepFork = int(size)*k - r.Range(1, 40) // inside the last indexed section: the reorg invalidates it
	case !large && global%4 == 1:
		d.DeepFork = r.Range(1, int(size)*k-1) // below the indexed boundary: invalidates sections
	}
	cr.d = d
	id := fmt.Sprintf("chain-%d", i)

	ok := false
	c.Case(id+"/build", d, func() {
		if err := generatorWorks(size); err != nil {
			cr.stuck = true
			cause := "section_size_below_bloom_bit_length"
			if size >= refbloom.Bits {
				cause = "section_size_at_or_above_bloom_bit_length"
			}
			c.Violate("generator_bitset_unavailable", "Generator.Bitset", cause, fmt.Sprintf("section size %d: after a full section, %v; aqua.BloomIndexer.Commit asks for all 2048 vectors, so no section of this size can ever be indexed", size, err))
		}
		cr.build(configs[cfgi].cfg())
		ok = true
	})
	if !ok {
		return
	}
	defer cr.close()

	nq := c.Pick(40, 80) // per state
	prev := 0
	for si, cut := range d.Cuts {
		cr.state = fmt.Sprintf("import_%d", si)
		seg := cr.mainBlocks(prev, cut)
		prev = cut
		if !cr.importAndSettle(id, seg) {
			return
		}
		q := nq
		if si == 0 {
			q = nq / 3
		}
		cr.queries(id, q, si == len(d.Cuts)-1)
	}
	// shallow reorg: a fast, longer branch forking d.Shallow below the head
	cr.state = "shallow_reorg"
	forkAt := mainLen - d.Shallow
	branch := cr.growBranch(forkAt, d.Shallow+2)
	if !cr.importAndSettle(id, branch) {
		return
	}
	if cr.bc.CurrentBlock().Hash() == branch[len(branch)-1].Hash() {
		c.Count("reorg_shallow_adopted")
	}
	cr.queries(id, nq, false)
	if d.DeepFork > 0 {
		cr.state = "deep_reorg"
		head := int(cr.bc.CurrentBlock().NumberU64())
		oldSections := cr.sections()
		// fork from the original main chain below the indexed boundary
		branch := cr.growBranchFromMain(d.DeepFork, head-d.DeepFork+3)
		if !cr.importAndSettle(id, branch) {
			return
		}
		if cr.bc.CurrentBlock().Hash() == branch[len(branch)-1].Hash() && uint64(d.DeepFork)/d.Size < oldSections {
			c.Count("reorg_deep_invalidated_sections")
		}
		cr.queries(id, nq, true)
	}
	cr.finalBloomCheck(id)
}

func (cr *chainRun) build(cfg *params.ChainConfig) {
	cr.buildLedger(cfg)
	mem, _ := cr.w.NewDB()
	var db aquadb.Database = mem
	if cr.park != nil {
		// mid-section chains: the chain and the indexer read through a database
		// that can hold one chosen read of processSection (see midsection.go)
		cr.park.Database = mem
		db = cr.park
	}
	bc, err := cr.w.NewChain(db, nil)
	if err != nil {
		panic(err)
	}
	cr.bc = bc
	indexer := aqua.NewBloomIndexer(cfg, db, cr.d.Size)
	cr.be = &backend{cfg: cfg, db: db, bc: bc, indexer: indexer, size: cr.d.Size, mux: new(event.TypeMux),
		threads: cr.d.Threads, batch: cr.d.Batch, wait: time.Duration(cr.d.WaitUs) * time.Microsecond, withhold: cr.d.Withhold,
		withheld: map[[2]uint64]bool{}}
	indexer.Start(bc)
	cr.api = filters.NewPublicFilterAPI(cr.be, false)
	cr.sections = func() uint64 { n, _, _ := indexer.Sections(); return n }
	cr.progress = func() (uint64, common.Hash) { n, _, h := indexer.Sections(); return n, h }
	cr.exec = cr.runQuery
	cr.db = db
}

// buildLedger generates the main chain (nothing of the node under test runs
// here except the block builder).
func (cr *chainRun) buildLedger(cfg *params.ChainConfig) {
	r := cr.r
	cr.w = newWorld(r, cfg)
	cr.led = newLedger(cr.w)
	cr.pools = &pools{addrs: cr.w.emitters(), ghostA: cr.w.GhostAddrs, topics: cr.w.Topics, ghostT: cr.w.GhostTopics}
	parent := cr.led.tree.Genesis
	nonces := map[int]uint64{}
	size := int(cr.d.Size)
	for n := 1; n <= cr.d.MainLen; n++ {
		s := blockSpec{Coinbase: cr.w.Coinbases[r.Intn(len(cr.w.Coinbases))]}
		// log traffic: dense around section edges and the 256-confirmation edge, sparse elsewhere
		edge := n%size == 0 || n%size == size-1 || n%size == 1 || n >= cr.d.MainLen-2
		den := 4
		if size >= 2048 {
			// long chains: sparse traffic, dense in the 8 blocks on either side of a section edge
			den = 14
			edge = edge || n%size < 8 || n%size >= size-8
		}
		switch {
		case edge && r.Chance(2, 3), r.Chance(1, den):
			s.LogTxs = r.Range(1, 3)
		}
		if r.Chance(1, 3*den) {
			s.Noise = r.Range(1, 2)
		}
		if r.Chance(1, 12) {
			s.Fast = true
		}
		b := cr.led.add(r, parent, nonces, s)
		cr.main = append(cr.main, b)
		parent = b.Block
	}
}

func (cr *chainRun) close() {
	if cr.be != nil {
		cr.be.indexer.Close()
	}
	if cr.bc != nil {
		cr.bc.Stop()
	}
}

func (cr *chainRun) mainBlocks(from, to int) []*types.Block {
	var out []*types.Block
	for n := from + 1; n <= to; n++ {
		out = append(out, cr.main[n-1].Block)
	}
	return out
}

// growBranch grows n fast blocks on the canonical block at height forkAt.
func (cr *chainRun) growBranch(forkAt, n int) []*types.Block {
	return cr.grow(cr.canonB[forkAt], n)
}

func (cr *chainRun) growBranchFromMain(forkAt, n int) []*types.Block {
	return cr.grow(cr.main[forkAt-1].Block, n)
}

func (cr *chainRun) grow(parent *types.Block, n int) []*types.Block {
	r := cr.r
	nonces := cr.led.nonces(parent)
	var out []*types.Block
	for i := 0; i < n; i++ {
		s := blockSpec{Fast: true, Coinbase: cr.w.Coinbases[0]}
		if r.Chance(1, 3) {
			s.LogTxs = r.Range(1, 3)
		}
		b := cr.led.add(r, parent, nonces, s)
		out = append(out, b.Block)
		parent = b.Block
	}
	return out
}

// importAndSettle inserts blocks, recomputes the canonical ledger view from the
// node's head, and waits until the real indexer has reached the progress its
// confirmation rule allows for that head.
func (cr *chainRun) importAndSettle(id string, blocks []*types.Block) bool {
	c := cr.c
	ok := false
	c.Case(fmt.Sprintf("%s/%s/import", id, cr.state), map[string]interface{}{"chain": cr.d, "blocks": len(blocks)}, func() {
		if len(blocks) == 0 {
			// settle only
		} else if _, err := cr.bc.InsertChain(types.Blocks(blocks)); err != nil {
			// the generator produced a block the node rejects: not a C16 matter
			panic(fmt.Sprintf("harness: InsertChain failed: %v", err))
		}
		head := cr.bc.CurrentBlock()
		var tip *types.Block
		if b, okk := cr.led.tree.ByHash[head.Hash()]; okk {
			tip = b.Block
		} else {
			panic("harness: node head is not a generated block")
		}
		path := cr.led.tree.Path(tip)
		cr.canonB = append([]*types.Block{cr.led.tree.Genesis}, path...)
		cr.canon = make([][]xlog, len(cr.canonB))
		for n, b := range cr.canonB {
			cr.canon[n] = cr.led.logs[b.Hash()]
		}
		// quiescence of the indexer
		h := head.NumberU64()
		var want uint64
		if h+1 >= bloomConfirms && !cr.stuck {
			want = (h + 1 - bloomConfirms) / cr.d.Size
		}
		deadline := time.Now().Add(10 * time.Minute)
		for {
			n, sh := cr.progress()
			if n == want && (n == 0 || sh == cr.canonB[n*cr.d.Size-1].Hash()) {
				ok = true
				break
			}
			if time.Now().After(deadline) {
				c.Inconclusive("indexer_did_not_reach_expected_progress")
				c.Note("indexer at %d sections (head %x), expected %d", n, sh, want)
				return
			}
			time.Sleep(3 * time.Millisecond)
		}
		if cr.be != nil {
			cr.be.resetService()
		}
		switch {
		case cr.stuck:
			c.Count("state_index_stuck_generator_defect")
		case want == 0:
			c.Count("state_no_section_indexed")
		default:
			c.Count("state_sections_indexed")
		}
		cr.checkIndex()
	})
	return ok
}

// checkIndex compares the stored bit vectors of every indexed section with the
// header blooms of the canonical chain: a bit set in a header bloom must be set
// in the index (else the index would exclude that block).
func (cr *chainRun) checkIndex() {
	c := cr.c
	size := cr.d.Size
	sections := cr.sections()
	for s := uint64(0); s < sections; s++ {
		last := cr.canonB[(s+1)*size-1]
		if cr.verified[s] == last.Hash() {
			continue
		}
		head := core.GetCanonicalHash(cr.db, (s+1)*size-1)
		if head != last.Hash() {
			// canonical numbering is C03's subject; here it only means the oracle has no footing
			panic("harness: canonical hash of section end differs from the generated chain")
		}
		extra := 0
		for bit := uint(0); bit < refbloom.Bits; bit++ {
			comp, err := core.GetBloomBits(cr.db, bit, s, head)
			if err != nil {
				c.Violate("index_vector_missing", "BloomIndexer", "", fmt.Sprintf("section %d bit %d: %v", s, bit, err))
				return
			}
			vec, err := bitutil.DecompressBytes(comp, int(size)/8)
			if err != nil {
				c.Violate("index_vector_undecodable", "BloomIndexer", "", fmt.Sprintf("section %d bit %d: %v", s, bit, err))
				return
			}
			for j := uint64(0); j < size; j++ {
				hb := cr.canonB[s*size+j].Bloom()
				rb := refbloom.Bloom(hb)
				inHeader := rb.Bit(bit)
				inIndex := vec[j/8]&(1<<(7-j%8)) != 0
				if inHeader && !inIndex {
					c.Violate("index_bit_missing", "BloomIndexer", "", fmt.Sprintf("section %d (size %d): bit %d of block %d is set in the header bloom but not in the stored vector", s, size, bit, s*size+j))
					return
				}
				if inIndex && !inHeader {
					extra++
				}
			}
		}
		c.Count("index_sections_verified")
		if extra > 0 {
			c.CountN("index_bits_not_in_header_bloom", extra)
		}
		cr.verified[s] = last.Hash()
	}
}

// ---------------------------------------------------------------------------

func (cr *chainRun) runQuery(q *query) ([]*types.Log, error) {
	ctx, cancel := context.WithTimeout(context.Background(), 120*time.Second)
	defer cancel()
	switch q.Via {
	case "api":
		return cr.api.GetLogs(ctx, filters.FilterCriteria{FromBlock: big.NewInt(q.Begin), ToBlock: big.NewInt(q.End), Addresses: q.Addrs, Topics: q.effTopics()})
	case "api_json":
		var crit filters.FilterCriteria
		if err := json.Unmarshal(q.jsonCriteria(), &crit); err != nil {
			return nil, fmt.Errorf("criteria json rejected: %v", err)
		}
		return cr.api.GetLogs(ctx, crit)
	case "api_installed":
		// eth_newFilter + eth_getFilterLogs: the installed-filter form of the same query
		crit := filters.FilterCriteria{FromBlock: big.NewInt(q.Begin), ToBlock: big.NewInt(q.End), Addresses: q.Addrs, Topics: q.Topics}
		if len(q.NullAlt) > 0 {
			// a null among alternatives exists in JSON only: install the filter from the decoded JSON form
			crit = filters.FilterCriteria{}
			if err := json.Unmarshal(q.jsonCriteria(), &crit); err != nil {
				return nil, fmt.Errorf("criteria json rejected: %v", err)
			}
		}
		id, err := cr.api.NewFilter(crit)
		if err != nil {
			// the subscription system refuses some range shapes (begin > end, latest..number); ask directly
			cr.c.Count("installed_filter_range_refused")
			return cr.api.GetLogs(ctx, crit)
		}
		defer cr.api.UninstallFilter(id)
		return cr.api.GetFilterLogs(ctx, id)
	default:
		return filters.New(cr.be, q.Begin, q.End, q.Addrs, q.effTopics()).Logs(ctx)
	}
}

func pathOf(lo, hi, boundary int64) string {
	switch {
	case lo > hi:
		return "empty_range"
	case hi < boundary:
		return "indexed"
	case lo >= boundary:
		return "unindexed"
	default:
		return "straddle"
	}
}

// forced builds the template queries every state runs (so the observation
// classes do not depend on luck).
func (cr *chainRun) forced() []query {
	r := cr.r
	head := int64(len(cr.canonB) - 1)
	sections := cr.sections()
	boundary := int64(sections * cr.d.Size)
	var qs []query
	add := func(tmpl string, b, e int64, a []common.Address, t [][]common.Hash) {
		qs = append(qs, query{Begin: b, End: e, Addrs: a, Topics: t, Tmpl: tmpl})
	}
	add("all_logs", 0, -1, nil, nil)
	add("latest_only", -1, -1, nil, nil)
	nonneg := func(v int64) int64 {
		if v < 0 {
			return 0
		}
		return v
	}
	add("begin_after_end", head, nonneg(head-int64(r.Range(1, 5))), nil, nil)
	add("end_beyond_head", nonneg(head-int64(r.Range(0, 20))), head+int64(r.Range(1, 50)), nil, nil)
	add("begin_beyond_head", head+1, head+5, nil, nil)
	add("open_begin_closed_end", -1, head, nil, nil)
	// pick real logs to derive criteria from
	var all []*xlog
	for n := range cr.canon {
		for i := range cr.canon[n] {
			all = append(all, &cr.canon[n][i])
		}
	}
	pick := func(pred func(*xlog) bool) *xlog {
		if len(all) == 0 {
			return nil
		}
		off := r.Intn(len(all))
		for i := range all {
			if x := all[(off+i)%len(all)]; pred(x) {
				return x
			}
		}
		return nil
	}
	one := func(h common.Hash) []common.Hash { return []common.Hash{h} }
	if x := pick(func(x *xlog) bool { return true }); x != nil {
		add("single_block_of_a_log", int64(x.BlockNumber), int64(x.BlockNumber), nil, nil)
		add("address_of_a_log", 0, -1, []common.Address{x.Address}, nil)
		add("address_list_with_ghosts", 0, -1, []common.Address{cr.w.GhostAddrs[0], x.Address, cr.w.GhostAddrs[1]}, nil)
	}
	if x := pick(func(x *xlog) bool { return len(x.Topics) >= 1 && len(x.Topics) <= 3 }); x != nil {
		// exact topics of the log, then one more position: the log must be excluded
		var t [][]common.Hash
		for _, h := range x.Topics {
			t = append(t, one(h))
		}
		add("exact_topics_of_a_log", 0, -1, nil, t)
		add("criteria_longer_than_log_wildcard", 0, -1, []common.Address{x.Address}, append(append([][]common.Hash{}, t...), nil))
		add("criteria_longer_than_log_value", 0, -1, []common.Address{x.Address}, append(append([][]common.Hash{}, t...), one(x.Topics[0])))
	}
	if x := pick(func(x *xlog) bool { return len(x.Topics) >= 2 && x.Topics[0] != x.Topics[1] }); x != nil {
		add("topics_swapped_positions", 0, -1, nil, [][]common.Hash{one(x.Topics[1]), one(x.Topics[0])})
		add("wildcard_then_value", 0, -1, nil, [][]common.Hash{nil, one(x.Topics[1])})
		add("empty_list_then_alternatives", 0, -1, nil, [][]common.Hash{{}, {cr.w.GhostTopics[0], x.Topics[1], x.Topics[0]}})
	}
	if x := pick(func(x *xlog) bool { return len(x.Topics) == 4 }); x != nil {
		add("four_positions", 0, -1, nil, [][]common.Hash{one(x.Topics[0]), nil, {x.Topics[2], cr.w.GhostTopics[1]}, one(x.Topics[3])})
		add("five_positions", 0, -1, nil, [][]common.Hash{one(x.Topics[0]), nil, nil, one(x.Topics[3]), nil})
	}
	if x := pick(func(x *xlog) bool { return len(x.Topics) == 0 }); x != nil {
		add("address_of_topicless_log_with_position", int64(x.BlockNumber), int64(x.BlockNumber), []common.Address{x.Address}, [][]common.Hash{nil})
	}
	add("ghost_address", 0, -1, []common.Address{cr.w.GhostAddrs[2]}, nil)
	add("ghost_topic", 0, -1, nil, [][]common.Hash{one(cr.w.GhostTopics[2])})
	add("address_used_as_topic", 0, -1, nil, [][]common.Hash{one(common.BytesToHash(cr.w.Loggers[0].Bytes()))})
	if boundary > 0 {
		for _, db := range []int64{-2, -1, 0, 1} {
			for _, de := range []int64{-2, -1, 0, 1} {
				if boundary+db >= 0 && boundary+db <= boundary+de {
					add("around_index_boundary", boundary+db, boundary+de, nil, nil)
				}
			}
		}
		add("indexed_part_exactly", 0, boundary-1, nil, nil)
		add("from_boundary_to_latest", boundary, -1, nil, nil)
		add("straddle_all", 0, -1, nil, [][]common.Hash{{cr.w.Topics[r.Intn(len(cr.w.Topics))], cr.w.Topics[r.Intn(len(cr.w.Topics))]}})
		sz := int64(cr.d.Size)
		if sections >= 2 {
			add("section_edge_inside_index", sz-1, sz, nil, nil)
			add("one_full_section", sz, 2*sz-1, nil, nil)
		}
		if x := pick(func(x *xlog) bool { return int64(x.BlockNumber) < boundary }); x != nil {
			add("indexed_address_query", 0, boundary-1, []common.Address{x.Address}, nil)
			if len(x.Topics) > 0 {
				add("indexed_topic_query", 0, boundary-1, nil, [][]common.Hash{one(x.Topics[0])})
				add("indexed_single_block", int64(x.BlockNumber), int64(x.BlockNumber), []common.Address{x.Address}, [][]common.Hash{one(x.Topics[0])})
			}
		}
	}
	// a JSON null inside the list of alternatives of a position: wildcard, wherever it stands
	if x := pick(func(x *xlog) bool { return len(x.Topics) >= 2 }); x != nil {
		g0, g1 := cr.w.GhostTopics[0], cr.w.GhostTopics[1] // never emitted: the criterion minus its null excludes every log
		nv := 0
		addNull := func(tmpl string, t [][]common.Hash, na map[int]int) {
			ends := []int64{-1}
			if boundary > 0 {
				ends = append(ends, boundary-1)
			}
			for _, e := range ends {
				qs = append(qs, query{Begin: 0, End: e, Topics: t, NullAlt: na, Tmpl: tmpl, Via: []string{"api_json", "api_installed"}[nv%2]})
				nv++
			}
		}
		addNull("null_first_in_alternatives", [][]common.Hash{{g0}}, map[int]int{0: 0})
		addNull("null_middle_in_alternatives", [][]common.Hash{{g0, g1}}, map[int]int{0: 1})
		addNull("null_last_in_alternatives", [][]common.Hash{{g0}}, map[int]int{0: 1})
		addNull("null_first_then_value", [][]common.Hash{{g0}, one(x.Topics[1])}, map[int]int{0: 0})
		addNull("value_then_null_first", [][]common.Hash{one(x.Topics[0]), {g1}}, map[int]int{1: 0})
		addNull("value_then_null_middle", [][]common.Hash{one(x.Topics[0]), {g0, g1}}, map[int]int{1: 1})
	}
	qs = append(qs, cr.extraQ...)
	vias := []string{"filter", "api", "api_json", "api_installed"}
	off := r.Intn(4)
	for i := range qs {
		if qs[i].Via == "" {
			qs[i].Via = vias[(i+off)%4]
		}
	}
	return qs
}

func (cr *chainRun) queries(id string, nRandom int, sample bool) {
	c, r := cr.c, cr.r
	head := int64(len(cr.canonB) - 1)
	sections := cr.sections()
	boundary := int64(sections * cr.d.Size)
	qs := cr.forced()
	for i := 0; i < nRandom; i++ {
		q := query{Tmpl: "random", Via: []string{"filter", "filter", "api", "api_json", "api_installed"}[r.Intn(5)]}
		q.Begin, q.End = rangeAround(r, head, boundary, int64(cr.d.Size))
		q.Addrs, q.Topics, q.NullAlt = cr.pools.criteria(r)
		if len(q.NullAlt) > 0 && (q.Via == "filter" || q.Via == "api") {
			// the shape exists in JSON only
			q.Via = []string{"api_json", "api_installed"}[r.Intn(2)]
		}
		qs = append(qs, q)
	}
	for qi := range qs {
		qr := &qs[qi] // as sent
		qe := *qr     // as meant: positions with a null among the alternatives are wildcards
		qe.Topics = qr.effTopics()
		qe.NullAlt = nil
		q := &qe
		in := queryInput{Chain: cr.d, State: cr.state, Head: uint64(head), Sections: sections, Q: *qr}
		c.Case(fmt.Sprintf("%s/%s/q%d", id, cr.state, qi), in, func() {
			lo, hi := resolve(q, head)
			want := bruteForce(cr.canon, lo, hi, q)
			path := pathOf(lo, hi, boundary)
			got, err := cr.exec(qr)
			op := "Filter.Logs"
			switch q.Via {
			case "api", "api_json":
				op = "PublicFilterAPI.GetLogs"
			case "api_installed":
				op = "PublicFilterAPI.GetFilterLogs"
			}
			if err != nil {
				if err == context.DeadlineExceeded {
					c.Inconclusive("query_timeout")
					return
				}
				c.Violate("query_failed", op, path, fmt.Sprintf("error %v (expected %d logs)", err, len(want)))
				return
			}
			if clause, detail := diffLogs(want, got); clause != "" {
				c.Violate(clause, op, path, detail)
				return
			}
			// observation classes
			c.Count("queries")
			c.Count("path_" + path)
			c.Count("via_" + q.Via)
			if len(want) > 0 {
				c.Count("queries_with_results")
				c.CountN("logs_returned", len(want))
				c.Nontrivial(fmt.Sprintf("%s|%d|%d|%v|%v|%d|%d", cr.d.Config, lo, hi, q.Addrs, q.Topics, len(want), cr.canonB[hi].Hash()))
			}
			if q.Begin == -1 {
				c.Count("range_open_begin")
			}
			if q.End == -1 {
				c.Count("range_open_end")
			}
			if q.End > head {
				c.Count("range_end_beyond_head")
			}
			if q.Begin >= 0 && q.End >= 0 && q.Begin > q.End {
				c.Count("range_begin_after_end")
			}
			if len(qr.NullAlt) > 0 {
				c.Count("criteria_null_inside_alternatives")
				if qr.nullNotLast() {
					c.Count("criteria_null_not_last")
				}
			}
			cr.classify(q, lo, hi, want)
			if sample && q.Tmpl == "random" && len(want) > 0 && path == "straddle" && c.Batch < 2 && !cr.sampled && len(q.Topics) > 0 {
				cr.sampled = true
				c.Sample(map[string]interface{}{"case": fmt.Sprintf("%s/%s/q%d", id, cr.state, qi), "chain": cr.d, "head": head, "sections": sections,
					"query": qr, "logs_returned": len(got)})
			}
		})
	}
	if cr.be == nil {
		return
	}
	if cr.d.Withhold {
		cr.be.mu.Lock()
		n := cr.be.nWithheld
		cr.be.nWithheld = 0
		cr.be.mu.Unlock()
		c.CountN("bit_vectors_withheld_then_redelivered", n)
	}
	cr.be.mu.Lock()
	c.CountN("bit_vectors_served", cr.be.nServed)
	cr.be.nServed = 0
	cr.be.mu.Unlock()
}

// classify counts what made the query discriminating: logs excluded only by
// position, by length, blocks whose header bloom passes although no log matches.
func (cr *chainRun) classify(q *query, lo, hi int64, want []*xlog) {
	c := cr.c
	wild, multi := false, false
	for _, alts := range q.Topics {
		if len(alts) == 0 {
			wild = true
		}
		if len(alts) > 1 {
			multi = true
		}
	}
	if wild {
		c.Count("criteria_with_wildcard_position")
	}
	if multi {
		c.Count("criteria_with_alternatives")
	}
	if len(q.Addrs) > 1 {
		c.Count("criteria_with_address_list")
	}
	if len(q.Addrs) == 0 && len(q.Topics) == 0 {
		return
	}
	hasBlock := map[uint64]bool{}
	for _, x := range want {
		hasBlock[x.BlockNumber] = true
	}
	fp, longer, positional := false, false, false
	for n := lo; n <= hi && n < int64(len(cr.canon)); n++ {
		if n < 0 {
			continue
		}
		for i := range cr.canon[n] {
			x := &cr.canon[n][i]
			if matches(x, q.Addrs, q.Topics) {
				continue
			}
			if len(q.Topics) > len(x.Topics) && matches(x, q.Addrs, q.Topics[:len(x.Topics)]) {
				longer = true
			}
			// same values at other positions
			if len(q.Topics) <= len(x.Topics) && matches(x, q.Addrs, nil) {
				all := true
				for _, alts := range q.Topics {
					if len(alts) == 0 {
						continue
					}
					found := false
					for _, t := range alts {
						for _, xt := range x.Topics {
							if t == xt {
								found = true
							}
						}
					}
					if !found {
						all = false
					}
				}
				if all {
					positional = true
				}
			}
		}
		if !hasBlock[uint64(n)] && !fp {
			rb := refbloom.Bloom(cr.canonB[n].Bloom())
			if plainTest(&rb, q.Addrs, q.Topics) {
				fp = true
			}
		}
	}
	if fp {
		c.Count("block_passes_bloom_but_no_log_matches")
	}
	if longer {
		c.Count("log_excluded_only_by_criteria_length")
	}
	if positional {
		c.Count("log_excluded_only_by_topic_position")
	}
}

// plainTest: the bloom test of a criteria set on one bloom (reference bits).
func plainTest(b *refbloom.Bloom, addrs []common.Address, topics [][]common.Hash) bool {
	if len(addrs) > 0 {
		ok := false
		for _, a := range addrs {
			if b.Has(a.Bytes()) {
				ok = true
			}
		}
		if !ok {
			return false
		}
	}
	for _, alts := range topics {
		if len(alts) == 0 {
			continue
		}
		ok := false
		for _, t := range alts {
			if b.Has(t.Bytes()) {
				ok = true
			}
		}
		if !ok {
			return false
		}
	}
	return true
}
