package c16

import (
	"bytes"
	"encoding/binary"
	"fmt"
	"runtime"
	"sync"
	"time"

	"gitlab.com/aquachain/aquachain/aquadb"
	"gitlab.com/aquachain/aquachain/common"
	"gitlab.com/aquachain/aquachain/core/types"
	"verif/internal/fw"
)

// State "deep_reorg_mid_section": a reorganisation that rewrites the canonical
// number->hash mapping WHILE the real bloom indexer is half way through reading
// a section. The indexer must not commit a section whose vectors come from two
// chains; whatever it does, the stored vectors and every indexed query must
// agree with the canonical chain once it is at rest again.
//
// Nothing in /repo is hooked: the MemDatabase handed to the BlockChain and to
// aqua.NewBloomIndexer is wrapped in a parkDB whose Get holds - once - the read
// of the canonical-hash key of a chosen block N when it is issued from
// (*ChainIndexer).processSection. While that read is held the harness imports a
// heavier branch forking below N. Both orders of "indexer handles the reorg
// event" and "section read resumes" are explored (a sleep chooses the order; no
// verdict depends on it).

type parkDB struct {
	aquadb.Database
	mu      sync.Mutex
	key     []byte
	parked  chan struct{}
	release chan struct{}
}

func newParkDB() *parkDB {
	return &parkDB{parked: make(chan struct{}), release: make(chan struct{})}
}

func (p *parkDB) arm(key []byte) {
	p.mu.Lock()
	p.key = key
	p.mu.Unlock()
}

func (p *parkDB) Get(key []byte) ([]byte, error) {
	p.mu.Lock()
	hit := p.key != nil && bytes.Equal(key, p.key)
	if hit {
		buf := make([]byte, 16384)
		buf = buf[:runtime.Stack(buf, false)]
		hit = bytes.Contains(buf, []byte("processSection"))
	}
	if hit {
		p.key = nil // one shot
	}
	p.mu.Unlock()
	if hit {
		close(p.parked)
		<-p.release
	}
	return p.Database.Get(key)
}

// canonKey is the database key of core.GetCanonicalHash(number):
// "h" + big-endian number + "n" (core/database_util.go).
func canonKey(n uint64) []byte {
	var b [8]byte
	binary.BigEndian.PutUint64(b[:], n)
	return append(append([]byte("h"), b[:]...), 'n')
}

type midDesc struct {
	chainDesc
	ForkAt      int  `json:"fork_height"`
	ParkAt      int  `json:"parked_read_of_block"`
	EventsFirst bool `json:"reorg_event_handled_before_read_resumes"`
}

func runMidSections(c *fw.Ctx) {
	n := c.Pick(1, 6)
	for j := 0; j < n; j++ {
		runMidSection(c, j)
	}
}

func runMidSection(c *fw.Ctx, j int) {
	r := c.Rand("midsection", fmt.Sprint(j))
	size := []uint64{64, 32, 64, 128}[(c.Batch+j)%4]
	if generatorWorks(size) != nil {
		// the generator cannot serve this section size (reported by the chain cases): no section, no state
		c.Count("mid_section_skipped_generator_defect")
		return
	}
	cfgi := (c.Batch + j) % len(configs)
	cr := &chainRun{c: c, r: r, verified: map[uint64]common.Hash{}, park: newParkDB()}
	fork := r.Range(int(size)/8, int(size)/2)
	parkAt := fork + 2 + r.Range(0, int(size)/4) // >= fork+2: the header read next has a rewritten parent
	mainLen := bloomConfirms + int(size) - 1 + r.Range(0, 8)
	d := midDesc{chainDesc: chainDesc{Chain: 1000 + j, Config: configs[cfgi].name, Size: size, MainLen: mainLen,
		Threads: r.Range(1, 3), Batch: []int{1, 2, 16}[r.Intn(3)], Withhold: r.Chance(1, 3),
		Cuts: []int{r.Range(parkAt+1, bloomConfirms-2), mainLen}, DeepFork: fork},
		ForkAt: fork, ParkAt: parkAt, EventsFirst: (c.Batch+j)%2 == 0}
	cr.d = d.chainDesc
	id := fmt.Sprintf("mid-%d", j)

	ok := false
	var branch []*types.Block
	c.Case(id+"/build", d, func() {
		cr.build(configs[cfgi].cfg())
		// the branch is generated from the ledger alone, before the node sees anything:
		// heavier (fast blocks, longer), logs in its first blocks, four spare head blocks
		branch = cr.growMid(cr.main[fork-1].Block, mainLen-fork+3+4, parkAt-fork+2)
		ok = true
	})
	if !ok {
		return
	}
	defer cr.close()
	defer func() {
		// never leave the indexer goroutine held
		select {
		case <-cr.park.release:
		default:
			close(cr.park.release)
		}
	}()

	nq := c.Pick(20, 40)
	cr.state = "import_0"
	if !cr.importAndSettle(id, cr.mainBlocks(0, d.Cuts[0])) {
		return
	}
	cr.queries(id, nq/2, false)

	cr.state = "deep_reorg_mid_section"
	landed := false
	spare := branch[len(branch)-4:]
	body := branch[:len(branch)-4]
	c.Case(id+"/"+cr.state+"/interleave", d, func() {
		cr.park.arm(canonKey(uint64(parkAt)))
		if _, err := cr.bc.InsertChain(types.Blocks(cr.mainBlocks(d.Cuts[0], mainLen))); err != nil {
			panic(fmt.Sprintf("harness: InsertChain failed: %v", err))
		}
		select {
		case <-cr.park.parked:
		case <-time.After(5 * time.Minute):
			c.Inconclusive("indexer_never_read_the_armed_key")
			return
		}
		// the indexer sits between the reads of blocks parkAt-1 and parkAt of section 0
		if _, err := cr.bc.InsertChain(types.Blocks(body)); err != nil {
			panic(fmt.Sprintf("harness: InsertChain(branch) failed: %v", err))
		}
		if cr.bc.CurrentBlock().Hash() != body[len(body)-1].Hash() {
			c.Count("mid_section_branch_not_adopted")
			return
		}
		landed = true
		c.Count("reorg_landed_mid_section")
		if d.EventsFirst {
			c.Count("mid_section_order_events_first")
			time.Sleep(400 * time.Millisecond) // lets the indexer's event loop see the reorg first (exploration only)
		} else {
			c.Count("mid_section_order_read_resumes_first")
		}
		close(cr.park.release)
	})
	if !landed {
		return
	}
	// A section run that failed is retried only on the next head event: feed spare
	// head blocks one at a time until the index is where the head allows (the
	// watchdog inside importAndSettle stays the only time limit that matters).
	settled := false
	for _, b := range spare {
		if _, err := cr.bc.InsertChain(types.Blocks{b}); err != nil {
			c.Note("spare head rejected: %v", err)
			break
		}
		if cr.waitProgress(b, 20*time.Second) {
			settled = true
			break
		}
	}
	if !settled {
		c.Count("mid_section_index_slow_after_spare_heads")
	}
	// forced: a log of the new branch in the blocks the held reader had already passed
	cr.extraQ = nil
	for n := fork + 1; n < parkAt; n++ {
		if xs := cr.led.logs[body[n-fork-1].Hash()]; len(xs) > 0 {
			x := xs[0]
			cr.extraQ = append(cr.extraQ, query{Begin: 0, End: int64(size) - 1, Addrs: []common.Address{x.Address}, Tmpl: "branch_log_in_rewritten_span_by_address"})
			if len(x.Topics) > 0 {
				cr.extraQ = append(cr.extraQ, query{Begin: 0, End: int64(size) - 1, Topics: [][]common.Hash{{x.Topics[0]}}, Tmpl: "branch_log_in_rewritten_span_by_topic"})
			}
			cr.extraQ = append(cr.extraQ, query{Begin: int64(n), End: int64(n), Tmpl: "rewritten_block_alone"})
			c.Count("mid_section_branch_log_queries")
			break
		}
	}
	if !cr.importAndSettle(id, nil) {
		return
	}
	cr.queries(id, nq, true)
	cr.extraQ = nil
	cr.finalBloomCheck(id)
}

// waitProgress polls until the indexer shows the section count the head tip
// allows with the canonical section head (the same condition importAndSettle
// uses), or the given time passed. Not a verdict.
func (cr *chainRun) waitProgress(tip *types.Block, d time.Duration) bool {
	path := cr.led.tree.Path(tip)
	h := tip.NumberU64()
	var want uint64
	if h+1 >= bloomConfirms {
		want = (h + 1 - bloomConfirms) / cr.d.Size
	}
	deadline := time.Now().Add(d)
	for {
		n, sh := cr.progress()
		if n == want && (n == 0 || sh == path[n*cr.d.Size-2].Hash()) { // path[k] is block k+1
			return true
		}
		if time.Now().After(deadline) {
			return false
		}
		time.Sleep(3 * time.Millisecond)
	}
}

// growMid grows n fast blocks on parent; the first nLogs of them carry log transactions.
func (cr *chainRun) growMid(parent *types.Block, n, nLogs int) []*types.Block {
	r := cr.r
	nonces := cr.led.nonces(parent)
	var out []*types.Block
	for i := 0; i < n; i++ {
		s := blockSpec{Fast: true, Coinbase: cr.w.Coinbases[0]}
		if i < nLogs || r.Chance(1, 3) {
			s.LogTxs = r.Range(1, 3)
		}
		b := cr.led.add(r, parent, nonces, s)
		out = append(out, b.Block)
		parent = b.Block
	}
	return out
}
