package c16

import (
	"context"
	"math/big"
	"sync"
	"time"

	"gitlab.com/aquachain/aquachain/aqua/event"
	"gitlab.com/aquachain/aquachain/aquadb"
	"gitlab.com/aquachain/aquachain/common"
	"gitlab.com/aquachain/aquachain/common/bitutil"
	"gitlab.com/aquachain/aquachain/core"
	"gitlab.com/aquachain/aquachain/core/bloombits"
	"gitlab.com/aquachain/aquachain/core/types"
	"gitlab.com/aquachain/aquachain/params"
	"gitlab.com/aquachain/aquachain/rpc"
)

// backend is a filters.Backend over the real chain database, the real
// core.BlockChain and the real bloom indexer (aqua.NewBloomIndexer), with a
// section size chosen by the case. It is the node's AquaApiBackend +
// startBloomHandlers (aqua/api_backend.go, aqua/bloombits.go) with the
// section size as a parameter instead of params.BloomBitsBlocks; nothing in it
// decides which logs match.
type backend struct {
	cfg     *params.ChainConfig
	db      aquadb.Database
	bc      *core.BlockChain
	indexer *core.ChainIndexer
	size    uint64
	mux     *event.TypeMux

	// service style of the bloom-bit retrieval (index progress states of the
	// matcher): multiplexer threads, batch size, wait, and whether the first
	// delivery of a section is withheld (delivered empty, as a light client whose
	// data has not arrived yet would)
	threads  int
	batch    int
	wait     time.Duration
	withhold bool

	mu        sync.Mutex
	withheld  map[[2]uint64]bool
	nWithheld int
	nServed   int
	svcErr    error

	txFeed, rmFeed, logsFeed event.Feed
}

func (b *backend) ChainDb() aquadb.Database { return b.db }
func (b *backend) EventMux() *event.TypeMux { return b.mux }
func (b *backend) GetHeaderVersion(n *big.Int) params.HeaderVersion {
	return b.cfg.GetBlockVersion(n)
}

func (b *backend) HeaderByNumber(ctx context.Context, nr rpc.BlockNumber) (*types.Header, error) {
	if nr == rpc.LatestBlockNumber {
		return b.bc.CurrentBlock().Header(), nil
	}
	if nr < 0 {
		return nil, nil
	}
	return b.bc.GetHeaderByNumber(uint64(nr)), nil
}

func (b *backend) GetReceipts(ctx context.Context, h common.Hash) (types.Receipts, error) {
	return core.GetBlockReceipts(b.db, h, core.GetBlockNumber(b.db, h)), nil
}

func (b *backend) GetLogs(ctx context.Context, h common.Hash) ([][]*types.Log, error) {
	receipts := core.GetBlockReceipts(b.db, h, core.GetBlockNumber(b.db, h))
	if receipts == nil {
		return nil, nil
	}
	logs := make([][]*types.Log, len(receipts))
	for i, r := range receipts {
		logs[i] = r.Logs
	}
	return logs, nil
}

func (b *backend) SubscribeTxPreEvent(ch chan<- core.TxPreEvent) event.Subscription {
	return b.txFeed.Subscribe(ch)
}
func (b *backend) SubscribeChainEvent(ch chan<- core.ChainEvent) event.Subscription {
	return b.bc.SubscribeChainEvent(ch)
}
func (b *backend) SubscribeRemovedLogsEvent(ch chan<- core.RemovedLogsEvent) event.Subscription {
	return b.bc.SubscribeRemovedLogsEvent(ch)
}
func (b *backend) SubscribeLogsEvent(ch chan<- []*types.Log) event.Subscription {
	return b.bc.SubscribeLogsEvent(ch)
}

func (b *backend) BloomStatus() (uint64, uint64) {
	sections, _, _ := b.indexer.Sections()
	return b.size, sections
}

// ServiceFilter: session.Multiplex threads feeding one retrieval loop that reads
// the stored bit vectors exactly as aqua/bloombits.go does.
func (b *backend) ServiceFilter(ctx context.Context, session *bloombits.MatcherSession) {
	requests := make(chan chan *bloombits.Retrieval)
	done := make(chan struct{})
	var wg sync.WaitGroup
	for i := 0; i < b.threads; i++ {
		wg.Add(1)
		go func() {
			defer wg.Done()
			session.Multiplex(b.batch, b.wait, requests)
		}()
	}
	go func() { wg.Wait(); close(done) }()
	go func() {
		for {
			select {
			case <-done:
				return
			case request := <-requests:
				task := <-request
				task.Bitsets = make([][]byte, len(task.Sections))
				for i, section := range task.Sections {
					if b.withhold {
						k := [2]uint64{uint64(task.Bit), section}
						b.mu.Lock()
						first := !b.withheld[k]
						if first {
							b.withheld[k] = true
							b.nWithheld++
						}
						b.mu.Unlock()
						if first {
							continue // empty bitset: the matcher must ask again
						}
					}
					head := core.GetCanonicalHash(b.db, (section+1)*b.size-1)
					comp, err := core.GetBloomBits(b.db, task.Bit, section, head)
					if err != nil {
						task.Error = err
						b.noteErr(err)
						continue
					}
					blob, err := bitutil.DecompressBytes(comp, int(b.size)/8)
					if err != nil {
						task.Error = err
						b.noteErr(err)
						continue
					}
					task.Bitsets[i] = blob
					b.mu.Lock()
					b.nServed++
					b.mu.Unlock()
				}
				request <- task
			}
		}
	}()
}

func (b *backend) noteErr(err error) {
	b.mu.Lock()
	if b.svcErr == nil {
		b.svcErr = err
	}
	b.mu.Unlock()
}

func (b *backend) resetService() {
	b.mu.Lock()
	b.withheld = map[[2]uint64]bool{}
	b.mu.Unlock()
}
