package c16

import (
	"context"
	"fmt"
	"sync"
	"time"

	"gitlab.com/aquachain/aquachain/core/bloombits"
	"gitlab.com/aquachain/aquachain/core/types"
	"verif/internal/fw"
	"verif/internal/ref/refbloom"
)

// Oracle (c): bloombits.Matcher directly over generated blooms. The matcher
// must deliver, in ascending order and once, every block of [begin,end] whose
// bloom passes the plain test of the filter (reference bits); delivering more
// is allowed (it is a pre-filter), delivering less loses logs.

type matcherInput struct {
	Case     int         `json:"case"`
	Size     uint64      `json:"section_size"`
	Sections int         `json:"sections"`
	Density  int         `json:"item_density_1_in"`
	Noise    int         `json:"noise_bits"`
	Vectors  string      `json:"vectors"` // "real_generator" | "reference_transposition"
	Filter   [][]string  `json:"filter"`  // hex clauses; "nil" = wildcard clause
	Ranges   [][2]uint64 `json:"ranges"`
	Service  string      `json:"service"` // "multiplex" | "direct"
	Batch    int         `json:"batch"`
	Threads  int         `json:"threads"`
	Withhold bool        `json:"withhold_first_delivery"`
}

func matcherSizes(c *fw.Ctx) []uint64 {
	return []uint64{8, 16, 24, 32, 40, 64, 72, 128, 256, 512, 2048, 2056, 2048, 4096}
}

func runMatcher(c *fw.Ctx) {
	if err := refbloom.SelfTest(); err != nil {
		panic(err)
	}
	n := c.Pick(150, 2500)
	for i := 0; i < n; i++ {
		runMatcherCase(c, i)
	}
}

func runMatcherCase(c *fw.Ctx, i int) {
	r := c.Rand("matcher", fmt.Sprint(i))
	sizes := matcherSizes(c)
	size := sizes[r.Intn(len(sizes))]
	nsec := r.Range(1, 6)
	if size >= 512 {
		nsec = r.Range(1, 2)
	}
	in := matcherInput{Case: i, Size: size, Sections: nsec, Density: []int{2, 5, 20, 100}[r.Intn(4)], Noise: []int{0, 0, 3, 30, 300}[r.Intn(5)],
		Vectors: []string{"real_generator", "reference_transposition"}[i%2], Service: []string{"multiplex", "direct"}[r.Intn(2)],
		Batch: []int{1, 2, 5, 16}[r.Intn(4)], Threads: r.Range(1, 4), Withhold: r.Chance(1, 3)}
	// item pool: addresses (20 bytes) and topics (32 bytes)
	var pool [][]byte
	for k := 0; k < 10; k++ {
		if k%3 == 0 {
			pool = append(pool, synthItem(r, 20))
		} else {
			pool = append(pool, synthItem(r, 32))
		}
	}
	nblocks := int(size) * nsec
	blooms := make([]refbloom.Bloom, nblocks)
	for b := range blooms {
		for _, it := range pool[:8] { // the last two never occur
			if r.Intn(in.Density) == 0 {
				blooms[b].Add(it)
			}
		}
		for k := 0; k < in.Noise; k++ {
			blooms[b].SetBit(uint(r.Intn(refbloom.Bits)))
		}
	}
	// filter
	var filter [][][]byte
	for g, ng := 0, r.Intn(5); g < ng; g++ {
		var group [][]byte
		var desc []string
		for k, nk := 0, []int{0, 1, 1, 2, 3}[r.Intn(5)]; k < nk; k++ {
			if r.Chance(1, 12) {
				group = append(group, nil)
				desc = append(desc, "nil")
				continue
			}
			it := pool[r.Intn(len(pool))]
			group = append(group, it)
			desc = append(desc, fmt.Sprintf("%x", it))
		}
		filter = append(filter, group)
		in.Filter = append(in.Filter, desc)
	}
	last := uint64(nblocks - 1)
	pt := func() uint64 {
		switch r.Intn(4) {
		case 0:
			k := uint64(r.Intn(nsec+1)) * size
			if k > 0 && r.Bool() {
				k--
			}
			if k > last {
				k = last
			}
			return k
		case 1:
			return []uint64{0, last}[r.Intn(2)]
		default:
			return uint64(r.Intn(nblocks))
		}
	}
	for k := 0; k < 3; k++ {
		b, e := pt(), pt()
		if b > e && !r.Chance(1, 10) {
			b, e = e, b
		}
		in.Ranges = append(in.Ranges, [2]uint64{b, e})
	}
	in.Ranges[0] = [2]uint64{0, last}

	c.Case(fmt.Sprintf("matcher-%d", i), in, func() {
		// bit vectors per section
		vectors := make([][][]byte, nsec) // [section][bit] -> size/8 bytes
		for s := 0; s < nsec; s++ {
			refv := make([][]byte, refbloom.Bits)
			for bit := range refv {
				refv[bit] = make([]byte, size/8)
			}
			for j := 0; j < int(size); j++ {
				bl := &blooms[s*int(size)+j]
				for bit := uint(0); bit < refbloom.Bits; bit++ {
					if bl.Bit(bit) {
						refv[bit][j/8] |= 1 << (7 - uint(j)%8)
					}
				}
			}
			g, err := bloombits.NewGenerator(uint(size))
			if err != nil {
				panic(err)
			}
			for j := 0; j < int(size); j++ {
				if err := g.AddBloom(uint(j), types.Bloom(blooms[s*int(size)+j])); err != nil {
					c.Violate("generator_rejects_bloom", "Generator.AddBloom", "", err.Error())
					return
				}
			}
			realv := make([][]byte, refbloom.Bits)
			complete := true
			for bit := uint(0); bit < refbloom.Bits; bit++ {
				v, err := g.Bitset(bit)
				if err != nil {
					if s == 0 {
						cause := "section_size_below_bloom_bit_length"
						if size >= refbloom.Bits {
							cause = "section_size_at_or_above_bloom_bit_length"
						}
						c.Violate("generator_bitset_unavailable", "Generator.Bitset", cause, fmt.Sprintf("bit %d of a full %d-block section: %v", bit, size, err))
					}
					complete = false
					break
				}
				realv[bit] = v
				for k := range v {
					if refv[bit][k]&^v[k] != 0 {
						c.Violate("index_bit_missing", "Generator", "", fmt.Sprintf("section size %d: bit %d byte %d: generator %08b, transposed blooms %08b", size, bit, k, v[k], refv[bit][k]))
						return
					}
				}
			}
			if complete {
				c.Count("generator_sections_compared")
			}
			if in.Vectors == "real_generator" && complete {
				vectors[s] = realv
			} else {
				// the matcher is still checked, over vectors transposed by the reference
				vectors[s] = refv
			}
		}
		m := bloombits.NewMatcher(size, filter)
		for ri, rg := range in.Ranges {
			if !matchRange(c, &in, m, vectors, blooms, filter, rg[0], rg[1], ri) {
				return
			}
		}
		if i < 2 {
			c.Sample(map[string]interface{}{"case": fmt.Sprintf("matcher-%d", i), "section_size": size, "sections": nsec, "filter_groups": len(filter), "ranges": in.Ranges, "vectors": in.Vectors})
		}
	})
}

// passes: the plain bloom test of a bloombits filter on one bloom.
func passes(b *refbloom.Bloom, filter [][][]byte) bool {
	for _, group := range filter {
		if len(group) == 0 {
			continue
		}
		wild, ok := false, false
		for _, clause := range group {
			if clause == nil {
				wild = true
			} else if b.Has(clause) {
				ok = true
			}
		}
		if !wild && !ok {
			return false
		}
	}
	return true
}

func matchRange(c *fw.Ctx, in *matcherInput, m *bloombits.Matcher, vectors [][][]byte, blooms []refbloom.Bloom, filter [][][]byte, begin, end uint64, ri int) bool {
	ctx, cancel := context.WithCancel(context.Background())
	defer cancel()
	matches := make(chan uint64, 16)
	session, err := m.Start(ctx, begin, end, matches)
	if err != nil {
		c.Violate("matcher_start_failed", "Matcher.Start", "", err.Error())
		return false
	}
	withheld := map[[2]uint64]bool{}
	var mu sync.Mutex
	nWithheld := 0
	fetch := func(bit uint, section uint64) []byte {
		if in.Withhold {
			mu.Lock()
			k := [2]uint64{uint64(bit), section}
			first := !withheld[k]
			withheld[k] = true
			if first {
				nWithheld++
			}
			mu.Unlock()
			if first {
				return nil
			}
		}
		if section >= uint64(len(vectors)) {
			return make([]byte, in.Size/8) // outside the data: nothing set
		}
		return vectors[section][bit]
	}
	var wg sync.WaitGroup
	if in.Service == "direct" {
		for t := 0; t < in.Threads; t++ {
			wg.Add(1)
			go func() {
				defer wg.Done()
				for {
					bit, ok := session.AllocateRetrieval()
					if !ok {
						return
					}
					secs := session.AllocateSections(bit, in.Batch)
					sets := make([][]byte, len(secs))
					for k, s := range secs {
						sets[k] = fetch(bit, s)
					}
					session.DeliverSections(bit, secs, sets)
				}
			}()
		}
	} else {
		mux := make(chan chan *bloombits.Retrieval)
		stop := make(chan struct{})
		for t := 0; t < in.Threads; t++ {
			wg.Add(1)
			go func() {
				defer wg.Done()
				session.Multiplex(in.Batch, 0, mux)
			}()
		}
		go func() {
			for {
				select {
				case <-stop:
					return
				case req := <-mux:
					task := <-req
					task.Bitsets = make([][]byte, len(task.Sections))
					for k, s := range task.Sections {
						task.Bitsets[k] = fetch(task.Bit, s)
					}
					req <- task
				}
			}
		}()
		defer close(stop)
	}
	var got []uint64
	timeout := time.After(120 * time.Second)
	done := false
	for !done {
		select {
		case n, ok := <-matches:
			if !ok {
				done = true
				break
			}
			got = append(got, n)
		case <-timeout:
			c.Inconclusive("matcher_session_timeout")
			go session.Close()
			return false
		}
	}
	session.Close()
	wg.Wait()
	if err := session.Error(); err != nil {
		c.Violate("matcher_session_error", "Matcher", "", err.Error())
		return false
	}
	// verdict
	cause := in.Vectors
	seen := map[uint64]bool{}
	prev := int64(-1)
	for _, n := range got {
		if n < begin || n > end {
			c.Violate("matcher_result_outside_range", "Matcher", cause, fmt.Sprintf("block %d delivered for range [%d,%d]", n, begin, end))
			return false
		}
		if int64(n) <= prev {
			c.Violate("matcher_result_not_ascending", "Matcher", cause, fmt.Sprintf("block %d delivered after block %d", n, prev))
			return false
		}
		prev = int64(n)
		seen[n] = true
	}
	expected, extra := 0, 0
	for n := begin; n <= end && n < uint64(len(blooms)); n++ {
		p := passes(&blooms[n], filter)
		if p {
			expected++
			if !seen[n] {
				c.Violate("matcher_skips_block_passing_bloom_test", "Matcher", cause, fmt.Sprintf("range [%d,%d] section size %d: block %d passes the plain bloom test of the filter but was not delivered (%d delivered)", begin, end, in.Size, n, len(got)))
				return false
			}
		} else if seen[n] {
			extra++
		}
	}
	c.Count("matcher_sessions")
	c.CountN("matcher_blocks_delivered", len(got))
	if expected > 0 && expected < int(end-begin+1) {
		c.Count("matcher_sessions_selective")
		c.Nontrivial(fmt.Sprintf("%v|%d|%d|%d|%d", in.Filter, in.Size, begin, end, expected))
	}
	if extra > 0 {
		c.CountN("matcher_delivered_block_failing_plain_test", extra)
	}
	if begin/in.Size != end/in.Size && begin <= end {
		c.Count("matcher_range_crosses_section_edge")
	}
	if begin > end {
		c.Count("matcher_begin_after_end")
	}
	if ri > 0 {
		c.Count("matcher_reused_for_second_session")
	}
	if nWithheld > 0 {
		c.CountN("matcher_vectors_withheld_then_redelivered", nWithheld)
	}
	return true
}
