// Package c16: log blooms have no false negatives and log queries are exact.
//
// Three monitors run beside the real code:
//
//	(a) a reference bloom (internal/ref/refbloom: x/crypto Keccak, 3 x 11 bits,
//	    byte arrays) against every receipt and header bloom the node builds,
//	    stores and serves, and against the package's bloom tests for every
//	    address and topic of every covered log;
//	(b) a brute-force scan of the generated canonical receipts with the
//	    JSON-RPC filter semantics against filters.New(...).Logs and
//	    PublicFilterAPI.GetLogs over the real chain database, the real
//	    core.BlockChain and the real bloom indexer with small sections, at several
//	    index progress states and across reorganisations, plus a bit-by-bit check
//	    of the stored bloom-bits vectors against the header blooms;
//	(c) bloombits.Generator + bloombits.Matcher directly over generated blooms:
//	    every block whose bloom passes the plain test must be delivered, once, in
//	    ascending order.
package c16

import (
	"time"

	"gitlab.com/aquachain/aquachain/common/log"
	"verif/internal/fw"
)

func init() {
	fw.Register(&fw.Prop{
		ID:    "C16",
		Title: "Log blooms have no false negatives and log queries are exact",
		Level: "exploration",
		Rule: "leg bloom: PRNG log sets (0-6 receipts x 0-9 logs, 20-byte addresses and 0-4 32-byte topics incl. all-zero, all-ones, leading-zero and small-integer items, repeated topics, 0-99 data bytes) through CreateBloom/LogsBloom; non-trivial = >=2 logs, distinct by content. " +
			"leg query: one case per query; per batch one long chain (sections of 2048/2056/4096 blocks, one or two of them: 2300-4400 blocks, sparse log traffic, dense within 8 blocks of section edges) and two short chains (263-650 blocks), on three fork schedules, built by core.GenerateChain with transactions into 4 logger contracts (LOG0-4), a 5-log burst contract, a relay (inner call + own log + inner call, also with a rolled-back inner log), a log-then-INVALID contract, the shared nested-call library (CALL/CALLCODE/DELEGATECALL/STATICCALL into loggers) and out-of-gas logs, topics from a pool of 7 (zero hash, all-ones, padded address, leading zeros); " +
			"imported into a real BlockChain with the real aqua.NewBloomIndexer at section sizes 2048/2056/4096 and 8/16/24/32/64 (thorough +40/128; while Generator.Bitset refuses bit numbers >= section size these short-section chains record that defect and run with an index that stays empty) and queried at 3 import cuts (0 sections, one block short of a confirmation, all the 256-confirmation rule allows), after a shallow reorg and (every long / every 4th short chain) after a reorg forking below the indexed boundary; thorough adds leg service: a full in-process node (node.New + aqua.New, sections of 4096, 1 and 2 indexed sections) queried through its AquaApiBackend and the RPC method aqua_getLogs; " +
			"per state ~30 forced templates (open ends, begin>end, beyond head, +-2 around the indexed boundary, section edges, criteria derived from real logs: exact topics, one position too long, swapped positions, wildcards, alternatives with never-emitted values, a JSON null first / in the middle / last among the alternatives of a position, address lists) plus 40 (thorough 80) PRNG queries, each through Filter.Logs, PublicFilterAPI.GetLogs, its JSON criteria decoder, or NewFilter+GetFilterLogs; retrieval served by 1-3 Multiplex threads, batch 1/2/16, optionally withholding the first delivery of every bit vector; " +
			"plus per batch 1 (thorough 6) chain with sections of 32/64/128 in state deep_reorg_mid_section: a database wrapper holds the indexer's read of the canonical hash of a chosen block inside processSection while a heavier branch forking below it is imported, both orders of reorg-event handling and read resumption, then spare head blocks, index check and queries incl. forced ones for branch logs in the rewritten span; " +
			"non-trivial = query with a non-empty result, distinct by (config, resolved range, criteria, result size, end block hash). " +
			"leg matcher: PRNG blooms (item density 1/2..1/100, 0-300 noise bits) in 1-6 sections of 8..4096 blocks, vectors from the real Generator or a reference transposition, filters of 0-4 groups x 0-3 clauses incl. nil clauses and never-occurring items, 3 ranges per matcher (reused), direct or Multiplex retrieval with batch 1-16, 1-4 threads, optional withheld deliveries; non-trivial = session that selects a proper non-empty subset.",
		Legs: func(tier string) []fw.Leg {
			// watchdogs are generous (a loaded machine runs these several times slower)
			legs := []fw.Leg{
				{Name: "bloom", Variant: "plain", Batches: 4, Timeout: 2 * time.Hour},
				{Name: "query", Variant: "plain", Batches: 16, Timeout: 6 * time.Hour},
				{Name: "matcher", Variant: "plain", Batches: 8, Timeout: 2 * time.Hour},
			}
			if tier == "thorough" {
				legs = append(legs, fw.Leg{Name: "service", Variant: "plain", Batches: 2, Timeout: 3 * time.Hour})
			}
			return legs
		},
		Run: run,
		Gate: func(tier string) map[string]int {
			g := map[string]int{
				// (a)
				"synthetic_log_sets": 4000, "bloom_tests_on_covered_items": 20000, "bloom_tests_on_items_with_leading_zero_byte": 1000,
				"logs_with_0_topics": 500, "logs_with_1_topics": 500, "logs_with_2_topics": 500, "logs_with_3_topics": 500, "logs_with_4_topics": 500,
				"bloom_equals_reference:receipt(built)": 1000, "bloom_equals_reference:header(built)": 1000,
				"bloom_equals_reference:receipt(stored)": 500, "bloom_equals_reference:header(stored)": 1000,
				"canonical_blocks_bloom_checked": 5000,
				// (b)
				"queries": 5000, "queries_with_results": 1500, "path_indexed": 300, "path_unindexed": 1000, "path_straddle": 500, "path_empty_range": 100,
				"via_filter": 1000, "via_api": 1000, "via_api_json": 1000, "via_api_installed": 1000,
				"range_open_begin": 100, "range_open_end": 500, "range_end_beyond_head": 100, "range_begin_after_end": 100,
				"criteria_null_inside_alternatives": 200, "criteria_null_not_last": 100, "criteria_with_wildcard_position": 300, "criteria_with_alternatives": 300, "criteria_with_address_list": 300,
				"block_passes_bloom_but_no_log_matches": 100, "log_excluded_only_by_criteria_length": 100, "log_excluded_only_by_topic_position": 100,
				"state_no_section_indexed": 30, "state_sections_indexed": 30, "index_sections_verified": 16,
				"reorg_shallow_adopted": 40, "reorg_deep_invalidated_sections": 14, "reorg_landed_mid_section": 8,
				"bit_vectors_served": 1000, "bit_vectors_withheld_then_redelivered": 100,
				// (c)
				"matcher_sessions": 1000, "matcher_sessions_selective": 200, "generator_sections_compared": 300,
				"matcher_range_crosses_section_edge": 200, "matcher_reused_for_second_session": 500,
				"matcher_vectors_withheld_then_redelivered": 100,
			}
			if tier == "thorough" {
				for k, v := range g {
					g[k] = v * 8
				}
				g["service_chains"] = 2
				g["service_reorg_deep_invalidated_sections"] = 1
			}
			return g
		},
		AnchorFiles: []string{"/core/types/bloom9.go", "/aqua/filters/", "/core/bloombits/", "/aqua/bloombits.go", "/core/chain_indexer.go"},
		Assumptions: []string{
			"reference bloom = yellow-paper M3:2048 (low 11 bits of byte pairs 0-1, 2-3, 4-5 of Keccak-256, bit 0 = least significant bit of the last byte) with x/crypto legacy Keccak, self-tested against the membership vectors of core/types/bloom9_test.go and hand-derived bit positions of the empty item",
			"filter semantics from the JSON-RPC specification of eth_getLogs: address list = OR, empty = any; topics positional, empty position = wildcard, several values = OR, a null among them = anything (the position is a wildcard wherever the null stands, as api.go documents: \"null component, match all\"); criteria with more positions than a log has topics do not match it; range ends: -1/latest = current head, end beyond the head stops at the head, begin > end is empty",
			"expected logs (address, topics, data, block number, block hash, transaction hash and index, log index counted over the block) come from the receipts core.GenerateChain returned and the generated blocks, never from the database under test; the canonical chain is the generated path to the node's current head",
			"queries run at rest: after InsertChain returned and the real indexer reached the section count its 256-confirmation rule allows for that head (polled; not reaching it within 10 min is inconclusive, never a verdict)",
			"the filters.Backend is the node's AquaApiBackend/startBloomHandlers with the section size as a parameter (params.BloomBitsBlocks is a constant 4096); it reads headers from the real BlockChain, receipts and bit vectors from the real database and takes no part in deciding matches",
			"a block delivered by the matcher whose bloom fails the plain test, and bloom bits set beyond the reference, are counted but are not violations (the property forbids false negatives only)",
		},
	})
}

func run(c *fw.Ctx) {
	log.Root().SetHandler(log.DiscardHandler())
	switch c.Leg {
	case "bloom":
		runBloomSynthetic(c)
	case "query":
		runChains(c)
	case "matcher":
		runMatcher(c)
	case "service":
		runService(c)
	}
}
