package c16

import (
	"context"
	"encoding/binary"
	"encoding/json"
	"fmt"
	"math/big"
	"os"
	"time"

	"gitlab.com/aquachain/aquachain/aqua"
	"gitlab.com/aquachain/aquachain/aqua/filters"
	"gitlab.com/aquachain/aquachain/aquadb"
	"gitlab.com/aquachain/aquachain/common"
	"gitlab.com/aquachain/aquachain/consensus/aquahash"
	"gitlab.com/aquachain/aquachain/core"
	"gitlab.com/aquachain/aquachain/core/types"
	"gitlab.com/aquachain/aquachain/node"
	"gitlab.com/aquachain/aquachain/p2p"
	"gitlab.com/aquachain/aquachain/params"
	rpcclient "gitlab.com/aquachain/aquachain/rpc/rpcclient"
	"verif/internal/fw"
)

// Leg "service" (thorough): the node's own backend. A full in-process node
// (node.New + aqua.New, fake proof-of-work, no networking) imports a generated
// chain long enough for the real bloom indexer (sections of
// params.BloomBitsBlocks = 4096, 256 confirmations, aqua.startBloomHandlers)
// to index sections; queries go through filters.New over the node's
// AquaApiBackend and through the in-process RPC method aqua_getLogs.

var svcConfig *params.ChainConfig

func runService(c *fw.Ctx) {
	const chainID = 777016
	// the node locks <HOME>/.aquachain/<chain name>/LOCK whatever its DataDir is:
	// every child gets its own HOME so the two service nodes do not collide
	os.Setenv("HOME", c.Dir)
	if svcConfig == nil {
		cfg := *params.TestChainConfig
		cfg.ChainId = new(big.Int).SetUint64(chainID)
		svcConfig = &cfg
		params.AddChainConfig("verif-c16", svcConfig)
	}
	r := c.Rand("service")
	size := params.BloomBitsBlocks
	nsec := 1 + c.Batch%2 // batch 0: one section, batch 1: two
	cr := &chainRun{c: c, r: r, verified: map[uint64]common.Hash{}}
	cr.d = chainDesc{Chain: 0, Config: "test_hf1to7(service)", Size: size, MainLen: bloomConfirms + int(size)*nsec - 1 + r.Range(0, 60), Shallow: r.Range(1, 9)}
	cr.d.Cuts = []int{bloomConfirms + int(size)*nsec - 2, cr.d.MainLen}
	if c.Batch%2 == 0 {
		cr.d.DeepFork = int(size) - r.Range(1, 40)
	}
	id := "service"
	var stack *node.Node
	var cancel context.CancelFunc
	ok := false
	c.Case(id+"/build", cr.d, func() {
		if err := generatorWorks(size); err != nil {
			c.Violate("generator_bitset_unavailable", "Generator.Bitset", "section_size_at_or_above_bloom_bit_length", err.Error())
			return
		}
		cr.buildLedger(svcConfig)
		var ctx context.Context
		ctx, cancel = context.WithCancel(context.Background())
		var err error
		stack, err = node.New(&node.Config{
			Context:           ctx,
			CloseMain:         func(err error) {},
			DataDir:           c.Dir,
			UseLightweightKDF: true,
			Name:              "test-verif-c16",
			P2P:               &p2p.Config{ChainId: chainID, NoDiscovery: true, NoDial: true, ListenAddr: "127.0.0.1:0", MaxPeers: 0, Offline: true},
			RPCAllowIP:        []string{"127.0.0.1/32"},
			IPCPath:           "v.ipc",
			NoCountdown:       true,
		})
		if err != nil {
			panic(fmt.Sprintf("harness: node.New: %v", err))
		}
		acfg := aqua.NewDefaultConfig()
		acfg.Genesis = cr.w.Spec
		acfg.Aquahash = &aquahash.Config{PowMode: aquahash.ModeFake}
		acfg.ChainId = chainID
		acfg.DatabaseCache = 64
		acfg.TrieCache = 64
		def := node.NewDefaultConfig()
		def.Name = "test-verif-c16"
		nodename := def.NodeName()
		if err = stack.Register(func(nodectx *node.ServiceContext) (node.Service, error) {
			return aqua.New(ctx, nodectx, acfg, nodename)
		}); err != nil {
			panic(fmt.Sprintf("harness: register: %v", err))
		}
		if err = stack.Start(ctx); err != nil {
			panic(fmt.Sprintf("harness: start: %v", err))
		}
		var svc *aqua.Aquachain
		if err = stack.Service(&svc); err != nil {
			panic(fmt.Sprintf("harness: service: %v", err))
		}
		if svc.BlockChain().Genesis().Hash() != cr.led.tree.Genesis.Hash() {
			panic("harness: node genesis differs from the generated one")
		}
		client, err := stack.Attach(ctx, "verif")
		if err != nil {
			panic(fmt.Sprintf("harness: attach: %v", err))
		}
		cr.bc = svc.BlockChain()
		cr.db = svc.ChainDb()
		be := svc.ApiBackend
		table := aquadb.NewTable(cr.db, string(core.BloomBitsIndexPrefix))
		cr.sections = func() uint64 { _, n := be.BloomStatus(); return n }
		cr.progress = func() (uint64, common.Hash) {
			_, n := be.BloomStatus()
			if n == 0 {
				return 0, common.Hash{}
			}
			var k [8]byte
			binary.BigEndian.PutUint64(k[:], n-1)
			h, _ := table.Get(append([]byte("shead"), k[:]...))
			return n, common.BytesToHash(h)
		}
		cr.exec = func(q *query) ([]*types.Log, error) { return serviceQuery(be, client, q) }
		ok = true
	})
	defer func() {
		if stack != nil {
			stack.Stop()
		}
		if cancel != nil {
			cancel()
		}
	}()
	if !ok {
		return
	}
	nq := 150
	prev := 0
	for si, cut := range cr.d.Cuts {
		cr.state = fmt.Sprintf("import_%d", si)
		if !cr.importAndSettle(id, cr.mainBlocks(prev, cut)) {
			return
		}
		prev = cut
		cr.queries(id, nq, true)
	}
	cr.state = "shallow_reorg"
	if !cr.importAndSettle(id, cr.growBranch(cr.d.MainLen-cr.d.Shallow, cr.d.Shallow+2)) {
		return
	}
	cr.queries(id, nq, false)
	if cr.d.DeepFork > 0 {
		cr.state = "deep_reorg"
		head := int(cr.bc.CurrentBlock().NumberU64())
		branch := cr.growBranchFromMain(cr.d.DeepFork, head-cr.d.DeepFork+3)
		if !cr.importAndSettle(id, branch) {
			return
		}
		if cr.bc.CurrentBlock().Hash() == branch[len(branch)-1].Hash() {
			c.Count("service_reorg_deep_invalidated_sections")
		}
		cr.queries(id, nq, true)
	}
	cr.finalBloomCheck(id)
	c.Count("service_chains")
}

// serviceQuery runs a query against the node's own backend: directly through
// filters.New, or through the RPC method aqua_getLogs (JSON both ways).
func serviceQuery(be filters.Backend, client *rpcclient.Client, q *query) ([]*types.Log, error) {
	ctx, cancel := context.WithTimeout(context.Background(), 10*time.Minute)
	defer cancel()
	if q.Via == "filter" {
		return filters.New(be, q.Begin, q.End, q.Addrs, q.effTopics()).Logs(ctx)
	}
	var raw json.RawMessage = q.jsonCriteria()
	var out []*types.Log
	if q.Via == "api_installed" {
		var id string
		if err := client.CallContext(ctx, &id, "aqua_newFilter", raw); err == nil {
			defer client.CallContext(ctx, new(bool), "aqua_uninstallFilter", id)
			if err := client.CallContext(ctx, &out, "aqua_getFilterLogs", id); err != nil {
				return nil, err
			}
			return out, nil
		}
		// range shape refused by the subscription system: ask directly
	}
	if err := client.CallContext(ctx, &out, "aqua_getLogs", raw); err != nil {
		return nil, err
	}
	return out, nil
}
