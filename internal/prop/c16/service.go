package c16

import "verif/internal/fw"

func runService(c *fw.Ctx) {}
