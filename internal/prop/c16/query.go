package c16

import (
	"bytes"
	"encoding/json"
	"fmt"
	"strings"

	"gitlab.com/aquachain/aquachain/common"
	"gitlab.com/aquachain/aquachain/core/types"
	"verif/internal/fw"
)

// query is one log query: a block range (numbers, or -1 = latest) and criteria.
type query struct {
	Begin  int64            `json:"begin"`
	End    int64            `json:"end"`
	Addrs  []common.Address `json:"addrs"`
	Topics [][]common.Hash  `json:"topics"`
	// NullAlt: topic position -> index at which a JSON null is spliced into the
	// list of that position's alternatives (JSON forms only). A null among the
	// alternatives means "anything" ("null component, match all" in api.go, as in
	// the eth_getLogs implementations this API mirrors): the position is a wildcard.
	NullAlt map[int]int `json:"null_alt,omitempty"`
	Via     string      `json:"via"`  // "filter" | "api" | "api_json" | "api_installed"
	Tmpl    string      `json:"tmpl"` // template name (forced) or "random"
}

// matches is the filter semantics written from the JSON-RPC specification
// (eth_getLogs / eth_newFilter): the address list is an OR (empty = any
// address); topics are positional; an empty position matches anything; a
// position with several values is an OR; a log with fewer topics than the
// criteria has positions cannot match.
func matches(l *xlog, addrs []common.Address, topics [][]common.Hash) bool {
	if len(addrs) > 0 {
		ok := false
		for _, a := range addrs {
			if a == l.Address {
				ok = true
			}
		}
		if !ok {
			return false
		}
	}
	if len(topics) > len(l.Topics) {
		return false
	}
	for i, alts := range topics {
		if len(alts) == 0 {
			continue
		}
		ok := false
		for _, t := range alts {
			if t == l.Topics[i] {
				ok = true
			}
		}
		if !ok {
			return false
		}
	}
	return true
}

// effTopics is the criteria the query means: positions that carry a null among
// their alternatives are wildcards.
func (q *query) effTopics() [][]common.Hash {
	if len(q.NullAlt) == 0 {
		return q.Topics
	}
	out := make([][]common.Hash, len(q.Topics))
	for i, alts := range q.Topics {
		if _, ok := q.NullAlt[i]; ok {
			out[i] = nil
		} else {
			out[i] = alts
		}
	}
	return out
}

// nullNotLast reports whether some spliced null is followed by another alternative.
func (q *query) nullNotLast() bool {
	for p, at := range q.NullAlt {
		if p < len(q.Topics) && at < len(q.Topics[p]) {
			return true
		}
	}
	return false
}

// bruteForce scans the canonical blocks lo..hi (inclusive) of the ledger.
func bruteForce(canon [][]xlog, lo, hi int64, q *query) []*xlog {
	var out []*xlog
	for n := lo; n <= hi && n < int64(len(canon)); n++ {
		if n < 0 {
			continue
		}
		for i := range canon[n] {
			if matches(&canon[n][i], q.Addrs, q.effTopics()) {
				out = append(out, &canon[n][i])
			}
		}
	}
	return out
}

// resolve turns the range of a query into concrete bounds for a chain whose
// head is at height head: -1 means the head; an end beyond the head stops at
// the head; begin > end is the empty range.
func resolve(q *query, head int64) (lo, hi int64) {
	lo, hi = q.Begin, q.End
	if lo == -1 {
		lo = head
	}
	if hi == -1 || hi > head {
		hi = head
	}
	return
}

func sameLog(x *xlog, g *types.Log) string {
	switch {
	case x.Address != g.Address:
		return "address"
	case len(x.Topics) != len(g.Topics):
		return "topics"
	case !bytes.Equal(x.Data, g.Data):
		return "data"
	case x.BlockNumber != g.BlockNumber:
		return "block_number"
	case x.TxHash != g.TxHash:
		return "tx_hash"
	case x.TxIndex != g.TxIndex:
		return "tx_index"
	case x.BlockHash != g.BlockHash:
		return "block_hash"
	case x.Index != g.Index:
		return "log_index"
	case g.Removed:
		return "removed_flag"
	}
	for i := range x.Topics {
		if x.Topics[i] != g.Topics[i] {
			return "topics"
		}
	}
	return ""
}

func logKey(bn uint64, idx uint) uint64 { return bn<<20 | uint64(idx) }

// diffLogs compares a query result with the reference list. It returns a
// clause ("" if equal) and a detail string.
func diffLogs(want []*xlog, got []*types.Log) (clause, detail string) {
	wantSet := map[uint64]*xlog{}
	for _, x := range want {
		wantSet[logKey(x.BlockNumber, x.Index)] = x
	}
	gotSet := map[uint64]int{}
	for _, g := range got {
		gotSet[logKey(g.BlockNumber, g.Index)]++
	}
	for _, x := range want {
		if gotSet[logKey(x.BlockNumber, x.Index)] == 0 {
			return "query_misses_matching_log", fmt.Sprintf("log #%d of block %d (address %x, %d topics) matches but was not returned; returned %d, expected %d", x.Index, x.BlockNumber, x.Address, len(x.Topics), len(got), len(want))
		}
	}
	for _, g := range got {
		k := logKey(g.BlockNumber, g.Index)
		if wantSet[k] == nil {
			return "query_returns_non_matching_log", fmt.Sprintf("returned log #%d of block %d (address %x, topics %x) is not in the brute-force result; returned %d, expected %d", g.Index, g.BlockNumber, g.Address, g.Topics, len(got), len(want))
		}
		if gotSet[k] > 1 {
			return "query_returns_log_twice", fmt.Sprintf("log #%d of block %d returned %d times", g.Index, g.BlockNumber, gotSet[k])
		}
	}
	for i := range want {
		g := got[i]
		if logKey(g.BlockNumber, g.Index) != logKey(want[i].BlockNumber, want[i].Index) {
			return "query_not_in_chain_order", fmt.Sprintf("position %d holds log #%d of block %d, chain order has log #%d of block %d", i, g.Index, g.BlockNumber, want[i].Index, want[i].BlockNumber)
		}
		if f := sameLog(want[i], g); f != "" {
			return "query_log_field_wrong:" + f, fmt.Sprintf("log #%d of block %d: field %s differs: got %+v", g.Index, g.BlockNumber, f, *g)
		}
	}
	return "", ""
}

// ---------------------------------------------------------------------------
// criteria generation

type pools struct {
	addrs  []common.Address // emitters
	ghostA []common.Address
	topics []common.Hash
	ghostT []common.Hash
}

func (p *pools) addr(r *fw.Rand) common.Address {
	if r.Chance(1, 6) {
		return p.ghostA[r.Intn(len(p.ghostA))]
	}
	return p.addrs[r.Intn(len(p.addrs))]
}

func (p *pools) topic(r *fw.Rand) common.Hash {
	if r.Chance(1, 6) {
		return p.ghostT[r.Intn(len(p.ghostT))]
	}
	return p.topics[r.Intn(len(p.topics))]
}

func (p *pools) criteria(r *fw.Rand) ([]common.Address, [][]common.Hash, map[int]int) {
	var nullAlt map[int]int
	var addrs []common.Address
	switch r.Intn(5) {
	case 0, 1:
	case 2:
		addrs = []common.Address{p.addr(r)}
	default:
		for i, n := 0, r.Range(2, 5); i < n; i++ {
			addrs = append(addrs, p.addr(r))
		}
	}
	var topics [][]common.Hash
	npos := []int{0, 0, 1, 1, 1, 2, 2, 3, 4, 5}[r.Intn(10)]
	for i := 0; i < npos; i++ {
		switch r.Intn(5) {
		case 0, 1:
			if r.Bool() {
				topics = append(topics, nil)
			} else {
				topics = append(topics, []common.Hash{})
			}
		case 2, 3:
			topics = append(topics, []common.Hash{p.topic(r)})
		default:
			var alts []common.Hash
			for j, n := 0, r.Range(2, 4); j < n; j++ {
				alts = append(alts, p.topic(r))
			}
			if r.Chance(1, 4) {
				if nullAlt == nil {
					nullAlt = map[int]int{}
				}
				nullAlt[len(topics)] = r.Intn(len(alts) + 1)
			}
			topics = append(topics, alts)
		}
	}
	return addrs, topics, nullAlt
}

// rangeAround draws a block range; boundary is the first unindexed block
// (sections*size), size the section size.
func rangeAround(r *fw.Rand, head, boundary, size int64) (int64, int64) {
	pt := func() int64 {
		switch r.Intn(9) {
		case 0:
			return -1
		case 1:
			return 0
		case 2:
			return head + int64(r.Range(-2, 3))
		case 3:
			if boundary > 0 {
				return boundary + int64(r.Range(-2, 2))
			}
			return int64(r.Intn(int(head) + 1))
		case 4:
			// a section edge
			k := int64(r.Intn(int(head/size) + 1))
			return k*size + int64(r.Range(-1, 1))
		case 5:
			return head + int64(r.Range(1, 40))
		default:
			return int64(r.Intn(int(head) + 1))
		}
	}
	b, e := pt(), pt()
	if b < -1 {
		b = 0
	}
	if e < -1 {
		e = 0
	}
	// mostly ordered ranges
	if b >= 0 && e >= 0 && b > e && r.Chance(4, 5) {
		b, e = e, b
	}
	return b, e
}

// ---------------------------------------------------------------------------
// JSON form of a query (eth_getLogs parameter object)

func (q *query) jsonCriteria() []byte {
	bn := func(n int64) string {
		if n == -1 {
			return `"latest"`
		}
		return fmt.Sprintf(`"0x%x"`, n)
	}
	var sb strings.Builder
	fmt.Fprintf(&sb, `{"fromBlock":%s,"toBlock":%s`, bn(q.Begin), bn(q.End))
	if len(q.Addrs) == 1 {
		fmt.Fprintf(&sb, `,"address":"%s"`, q.Addrs[0].Hex())
	} else if len(q.Addrs) > 1 {
		var as []string
		for _, a := range q.Addrs {
			as = append(as, `"`+a.Hex()+`"`)
		}
		fmt.Fprintf(&sb, `,"address":[%s]`, strings.Join(as, ","))
	}
	if len(q.Topics) > 0 {
		var ps []string
		for p, alts := range q.Topics {
			at, spliced := q.NullAlt[p]
			switch {
			case spliced:
				var ts []string
				for _, t := range alts {
					ts = append(ts, `"`+t.Hex()+`"`)
				}
				if at > len(ts) {
					at = len(ts)
				}
				ts = append(ts[:at], append([]string{"null"}, ts[at:]...)...)
				ps = append(ps, "["+strings.Join(ts, ",")+"]")
			case alts == nil:
				ps = append(ps, "null")
			case len(alts) == 1:
				ps = append(ps, `"`+alts[0].Hex()+`"`)
			default: // empty list or several
				var ts []string
				for _, t := range alts {
					ts = append(ts, `"`+t.Hex()+`"`)
				}
				ps = append(ps, "["+strings.Join(ts, ",")+"]")
			}
		}
		fmt.Fprintf(&sb, `,"topics":[%s]`, strings.Join(ps, ","))
	}
	sb.WriteString("}")
	out := []byte(sb.String())
	if !json.Valid(out) {
		panic("bad criteria json " + sb.String())
	}
	return out
}
