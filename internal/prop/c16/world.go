package c16

import (
	"math/big"

	"gitlab.com/aquachain/aquachain/common"
	"gitlab.com/aquachain/aquachain/core"
	"gitlab.com/aquachain/aquachain/core/types"
	"gitlab.com/aquachain/aquachain/params"
	"verif/internal/fw"
	"verif/internal/gen"
)

// ---------------------------------------------------------------------------
// Log-emitting contracts (runtime code). Calldata of a "payload" is
//   n(32) t1(32) t2(32) t3(32) t4(32) data...     (>= 160 bytes)

// loggerCode: emits LOGn(t1..tn, data) and ends with final (STOP, or INVALID so
// that the log is rolled back with the frame).
func loggerCode(final byte) []byte {
	a := gen.NewAsm()
	a.Push(160).Op(gen.CALLDATASIZE, gen.SUB)
	a.Op(gen.DUP1).Push(160).Push(0).Op(gen.CALLDATACOPY)
	a.Push(0).Op(gen.CALLDATALOAD)
	for n := 1; n <= 4; n++ {
		a.Op(gen.DUP1).Push(uint64(n)).Op(gen.EQ).Jumpi("L" + string(rune('0'+n)))
	}
	a.Op(gen.POP).Push(0).Op(gen.LOG0, final)
	for n := 1; n <= 4; n++ {
		a.Label("L" + string(rune('0'+n))).Op(gen.POP)
		for k := n; k >= 1; k-- {
			a.Push(uint64(32*k)).Op(gen.CALLDATALOAD, gen.SWAP1)
		}
		a.Push(0).Op(byte(gen.LOG0+n), final)
	}
	return a.Bytes()
}

// burstShape is the fixed sequence of logs one burst call emits: topic numbers
// (1-based positions in the payload) per log.
var burstShape = [][]int{{1, 2}, {}, {4, 3, 2, 1}, {3}, {2, 2, 4}}

// burstCode: five logs in one frame, with 2,0,4,1,3 topics drawn from the
// payload in the orders of burstShape; data = payload data for each.
func burstCode() []byte {
	a := gen.NewAsm()
	a.Push(160).Op(gen.CALLDATASIZE, gen.SUB).Push(160).Push(0).Op(gen.CALLDATACOPY)
	for _, shape := range burstShape {
		for k := len(shape) - 1; k >= 0; k-- {
			a.Push(uint64(32 * shape[k])).Op(gen.CALLDATALOAD)
		}
		a.Push(160).Op(gen.CALLDATASIZE, gen.SUB).Push(0).Op(byte(gen.LOG0 + len(shape)))
	}
	a.Op(gen.STOP)
	return a.Bytes()
}

// relayCode: calldata = targetA(32) targetB(32) payload: CALL targetA(payload),
// own LOG1(t1, payload), CALL targetB(payload). Failures of the inner calls are ignored.
func relayCode() []byte {
	a := gen.NewAsm()
	plen := func() { a.Push(64).Op(gen.CALLDATASIZE, gen.SUB) }
	plen()
	a.Push(64).Push(0).Op(gen.CALLDATACOPY)
	call := func(off uint64) {
		a.Push(0).Push(0)
		plen()
		a.Push(0).Push(0).Push(off).Op(gen.CALLDATALOAD).Op(gen.GAS, gen.CALL, gen.POP)
	}
	call(0)
	a.Push(96).Op(gen.CALLDATALOAD)
	plen()
	a.Push(0).Op(gen.LOG0 + 1)
	call(32)
	a.Op(gen.STOP)
	return a.Bytes()
}

// ---------------------------------------------------------------------------

type world struct {
	*gen.World
	Loggers []common.Address // plain loggers
	Burst   common.Address
	Relay   common.Address
	BadLog  common.Address // logs then INVALID
	Topics  []common.Hash  // pool used by emitted logs
	// criteria-only values (never emitted)
	GhostAddrs  []common.Address
	GhostTopics []common.Hash
}

func randAddr(r *fw.Rand) common.Address {
	var a common.Address
	copy(a[:], r.Bytes(20))
	return a
}

func randHash(r *fw.Rand) common.Hash {
	var h common.Hash
	copy(h[:], r.Bytes(32))
	return h
}

var allFF = common.HexToHash("0xffffffffffffffffffffffffffffffffffffffffffffffffffffffffffffffff")

func newWorld(r *fw.Rand, cfg *params.ChainConfig) *world {
	w := &world{World: gen.NewWorld(r, cfg, 5)}
	alloc := w.Spec.Alloc
	place := func(a common.Address, code []byte) common.Address {
		for {
			if _, used := alloc[a]; !used && a != (common.Address{}) {
				break
			}
			a = randAddr(r)
		}
		alloc[a] = core.GenesisAccount{Code: code, Balance: big.NewInt(0)}
		return a
	}
	// logger addresses: any 20 bytes, including leading/trailing zero bytes and all-ones
	la := []common.Address{randAddr(r), randAddr(r), randAddr(r), common.HexToAddress("0xffffffffffffffffffffffffffffffffffffffff")}
	la[1][0], la[1][1] = 0, 0 // leading zero bytes
	la[2][19] = 0             // trailing zero byte
	for _, a := range la {
		w.Loggers = append(w.Loggers, place(a, loggerCode(gen.STOP)))
	}
	w.Burst = place(randAddr(r), burstCode())
	w.Relay = place(randAddr(r), relayCode())
	w.BadLog = place(randAddr(r), loggerCode(gen.INVALID))
	// topic pool: small, so criteria collide; includes the zero hash, all-ones, a
	// topic that is a left-padded logger address, and topics with leading zero bytes
	pad := common.BytesToHash(w.Loggers[0].Bytes())
	lead := randHash(r)
	lead[0], lead[1], lead[2] = 0, 0, 0
	w.Topics = []common.Hash{gen.LogTopic(0), gen.LogTopic(1), {}, allFF, pad, lead, randHash(r)}
	for i := 0; i < 3; i++ {
		w.GhostAddrs = append(w.GhostAddrs, randAddr(r))
		w.GhostTopics = append(w.GhostTopics, randHash(r))
	}
	// a ghost topic equal to a real address padded, and a ghost address equal to the tail of a real topic
	w.GhostTopics = append(w.GhostTopics, common.BytesToHash(w.Loggers[2].Bytes()))
	w.GhostAddrs = append(w.GhostAddrs, common.BytesToAddress(w.Topics[6].Bytes()[12:]))
	return w
}

// emitters returns every address that can appear as Log.Address.
func (w *world) emitters() []common.Address {
	out := append([]common.Address{}, w.Loggers...)
	out = append(out, w.Burst, w.Relay, gen.AddrLogger, gen.AddrNested)
	return out
}

func (w *world) payload(r *fw.Rand, n int) []byte {
	t := func() []byte { return w.Topics[r.Intn(len(w.Topics))].Bytes() }
	var data []byte
	switch r.Intn(4) {
	case 0:
	case 1:
		data = r.Bytes(r.Range(1, 31))
	case 2:
		data = r.Bytes(32 * r.Range(1, 3))
	default:
		data = r.Bytes(r.Range(33, 200))
	}
	return gen.Cat(gen.WordU(uint64(n)), t(), t(), t(), t(), data)
}

// logTx kinds of this package (TxMeta.Kind values).
const (
	kLog     gen.TxKind = "c16_log"
	kBurst   gen.TxKind = "c16_burst"
	kRelay   gen.TxKind = "c16_relay"
	kBad     gen.TxKind = "c16_log_then_invalid"
	kNested  gen.TxKind = "c16_nested_logger"
	kOOGLog  gen.TxKind = "c16_log_out_of_gas"
	kRelayBd gen.TxKind = "c16_relay_inner_reverted"
)

var logKinds = []gen.TxKind{kLog, kLog, kLog, kBurst, kRelay, kBad, kNested, kOOGLog, kRelayBd}

// makeLogTx builds and signs one log-emitting transaction.
func (w *world) makeLogTx(r *fw.Rand, kind gen.TxKind, sender int, nonce uint64, num *big.Int) *gen.TxMeta {
	price := big.NewInt(int64(r.Range(1, 40)) * 1e9)
	var to common.Address
	var data []byte
	gas := uint64(400000)
	lg := func() common.Address { return w.Loggers[r.Intn(len(w.Loggers))] }
	switch kind {
	case kLog:
		to, data = lg(), w.payload(r, r.Intn(5))
	case kBurst:
		to, data = w.Burst, w.payload(r, 0)
	case kRelay:
		targets := []common.Address{lg(), lg(), w.Burst, gen.AddrLogger}
		to = w.Relay
		data = gen.Cat(gen.WordAddr(targets[r.Intn(len(targets))]), gen.WordAddr(targets[r.Intn(len(targets))]), w.payload(r, r.Intn(5)))
	case kRelayBd:
		// first inner call logs and is rolled back; the relay's own log and the second inner log stay
		to = w.Relay
		data = gen.Cat(gen.WordAddr(w.BadLog), gen.WordAddr(lg()), w.payload(r, r.Range(1, 4)))
	case kBad:
		to, data = w.BadLog, w.payload(r, r.Intn(5))
		gas = 90000
	case kOOGLog:
		to, data = lg(), w.payload(r, 4)
		gas = 21000 + 68*uint64(len(data)) + uint64(r.Range(100, 1200)) // runs out before or at the LOG
	case kNested:
		// gen library: CALL / CALLCODE / DELEGATECALL / STATICCALL into a logger
		to = gen.AddrNested
		target := lg()
		if r.Chance(1, 3) {
			target = gen.AddrLogger
		}
		data = gen.Cat(gen.WordU(uint64(r.Intn(4))), gen.WordAddr(target), gen.WordU(0), w.payload(r, r.Intn(5)))
	default:
		panic("kind")
	}
	tx := types.NewTransaction(nonce, to, big.NewInt(0), gas, price, data)
	signed, err := types.SignTx(tx, w.Signer(num), w.Keys[sender])
	if err != nil {
		panic(err)
	}
	return &gen.TxMeta{Kind: kind, Sender: sender, Tx: signed}
}

// ---------------------------------------------------------------------------
// Ledger of one generated tree.

// xlog is one expected log with every derived field, computed from the
// generator's output and the block it sits in (never read back from the node).
type xlog struct {
	Address     common.Address
	Topics      []common.Hash
	Data        []byte
	BlockNumber uint64
	TxHash      common.Hash
	TxIndex     uint
	BlockHash   common.Hash
	Index       uint
}

type ledger struct {
	w    *world
	tree *gen.Tree
	logs map[common.Hash][]xlog // by block hash, in block order
}

func newLedger(w *world) *ledger {
	return &ledger{w: w, tree: gen.NewTree(w.World), logs: map[common.Hash][]xlog{}}
}

// nonces along the branch ending at tip.
func (l *ledger) nonces(tip *types.Block) map[int]uint64 {
	n := map[int]uint64{}
	for _, b := range l.tree.Path(tip) {
		for _, m := range l.tree.ByHash[b.Hash()].Txs {
			n[m.Sender]++
		}
	}
	return n
}

type blockSpec struct {
	LogTxs   int
	Noise    int
	Fast     bool
	Uncle    bool
	Coinbase common.Address
}

// add builds one block on parent with nLog log transactions (kinds drawn from
// logKinds) followed by noise transactions of the shared generator.
func (l *ledger) add(r *fw.Rand, parent *types.Block, nonces map[int]uint64, s blockSpec) *gen.Built {
	num := new(big.Int).Add(parent.Number(), big.NewInt(1))
	var metas []*gen.TxMeta
	local := map[int]uint64{}
	for i := 0; i < s.LogTxs; i++ {
		snd := r.Intn(len(l.w.Keys))
		kind := logKinds[r.Intn(len(logKinds))]
		metas = append(metas, l.w.makeLogTx(r, kind, snd, nonces[snd]+local[snd], num))
		local[snd]++
	}
	plan := gen.BlockPlan{Reuse: metas, Coinbase: s.Coinbase}
	noiseKinds := []gen.TxKind{gen.TxTransfer, gen.TxStoreSet, gen.TxLog, gen.TxNested, gen.TxRevert, gen.TxCreateOK, gen.TxToSink}
	for i := 0; i < s.Noise; i++ {
		plan.Kinds = append(plan.Kinds, noiseKinds[r.Intn(len(noiseKinds))])
	}
	if s.Fast {
		plan.TimeOffset = -200
	}
	if s.Uncle {
		if c := l.tree.UncleCandidates(parent); len(c) > 0 {
			plan.Uncles = c[:1]
		}
	}
	b := l.tree.Add(r, parent, plan)
	for _, m := range b.Txs {
		nonces[m.Sender]++
	}
	// expected logs of the block
	var xs []xlog
	idx := uint(0)
	bh := b.Block.Hash()
	txs := b.Block.Transactions()
	for ti, rc := range b.Receipts {
		for _, lg := range rc.Logs {
			xs = append(xs, xlog{Address: lg.Address, Topics: append([]common.Hash{}, lg.Topics...), Data: append([]byte{}, lg.Data...),
				BlockNumber: b.Block.NumberU64(), TxHash: txs[ti].Hash(), TxIndex: uint(ti), BlockHash: bh, Index: idx})
			idx++
		}
	}
	l.logs[bh] = xs
	return b
}
