package c16

import (
	"bytes"
	"fmt"

	"gitlab.com/aquachain/aquachain/common"
	"gitlab.com/aquachain/aquachain/core"
	"gitlab.com/aquachain/aquachain/core/types"
	"verif/internal/fw"
	"verif/internal/ref/refbloom"
)

func refLogs(logs []*types.Log) []refbloom.Log {
	out := make([]refbloom.Log, len(logs))
	for i, l := range logs {
		out[i].Address = l.Address.Bytes()
		for _, t := range l.Topics {
			out[i].Topics = append(out[i].Topics, t.Bytes())
		}
	}
	return out
}

func leadingZero(b []byte) bool { return len(b) > 0 && b[0] == 0 }

// checkBloom is oracle (a) for one bloom: it must contain the three reference
// bits of every address and topic of the logs it covers, and every bloom test
// the package offers must answer "maybe present" for each of them.
// what = "receipt" | "header" (+ where it was read from).
func checkBloom(c *fw.Ctx, what string, bloom types.Bloom, logs []*types.Log) {
	ref := refbloom.OfLogs(refLogs(logs))
	for i := range ref {
		if ref[i]&^bloom[i] != 0 {
			c.Violate("bloom_misses_bits_of_covered_item", what, "", fmt.Sprintf("byte %d: bloom %08b, reference (x/crypto keccak, 3x11 bits) %08b; %d logs covered", i, bloom[i], ref[i], len(logs)))
			return
		}
	}
	if bytes.Equal(ref[:], bloom[:]) {
		c.Count("bloom_equals_reference:" + what)
	} else {
		c.Count("bloom_strict_superset_of_reference:" + what)
	}
	seen := map[string]bool{}
	item := func(kind string, raw []byte, typed interface{ Bytes() []byte }) {
		if seen[string(raw)] {
			return
		}
		seen[string(raw)] = true
		c.Count("bloom_tests_on_covered_items")
		if !types.BloomLookup(bloom, typed) {
			c.Violate("bloom_test_false_negative", "BloomLookup", kind, fmt.Sprintf("%s bloom: BloomLookup(%x) = false although a covered log carries it", what, raw))
		}
		// Bloom.TestBytes is the byte-slice form of the same test (Bloom.Test takes a
		// big.Int, which cannot express leading zero bytes, so it is not probed)
		cause := "item"
		if leadingZero(raw) {
			cause = "item_with_leading_zero_byte"
			c.Count("bloom_tests_on_items_with_leading_zero_byte")
		}
		if !bloom.TestBytes(raw) {
			c.Violate("bloom_test_false_negative", "Bloom.TestBytes", cause, fmt.Sprintf("%s bloom: Bloom.TestBytes(%x) = false although a covered log carries this %s", what, raw, kind))
		}
	}
	for _, l := range logs {
		item("address", l.Address.Bytes(), l.Address)
		for _, t := range l.Topics {
			item("topic", t.Bytes(), t)
		}
		c.Count(fmt.Sprintf("logs_with_%d_topics", len(l.Topics)))
	}
}

// ---------------------------------------------------------------------------
// synthetic log sets: any addresses, 0-4 topics, any data, straight into the
// bloom constructors (no EVM in between)

type synthInput struct {
	Receipts [][]synthLog `json:"receipts"`
}

type synthLog struct {
	A string   `json:"a"`
	T []string `json:"t"`
	D int      `json:"data_len"`
}

func synthItem(r *fw.Rand, n int) []byte {
	b := r.Bytes(n)
	switch r.Intn(8) {
	case 0:
		for i := range b {
			b[i] = 0
		}
	case 1:
		for i := range b {
			b[i] = 0xff
		}
	case 2:
		for i, z := 0, r.Range(1, n-1); i < z; i++ {
			b[i] = 0 // leading zeros
		}
	case 3:
		for i := range b[:n-1] {
			b[i] = 0
		}
		b[n-1] = byte(r.Intn(4)) // small integers
	}
	return b
}

var synthSampled bool

func runBloomSynthetic(c *fw.Ctx) {
	if err := refbloom.SelfTest(); err != nil {
		panic(err)
	}
	n := c.Pick(1500, 60000)
	for i := 0; i < n; i++ {
		r := c.Rand("synth", fmt.Sprint(i))
		var in synthInput
		var receipts types.Receipts
		var all []*types.Log
		for ri, nr := 0, []int{0, 1, 1, 2, 3, 6}[r.Intn(6)]; ri < nr; ri++ {
			rc := types.NewReceipt(nil, r.Chance(1, 8), uint64(r.Intn(1e6)))
			var sl []synthLog
			for li, nl := 0, []int{0, 1, 1, 2, 4, 9}[r.Intn(6)]; li < nl; li++ {
				l := &types.Log{Address: common.BytesToAddress(synthItem(r, 20)), Data: r.Bytes(r.Intn(100))}
				s := synthLog{A: l.Address.Hex(), D: len(l.Data)}
				for ti, nt := 0, r.Intn(5); ti < nt; ti++ {
					h := common.BytesToHash(synthItem(r, 32))
					if ti > 0 && r.Chance(1, 5) {
						h = l.Topics[0] // repeated topic
					}
					l.Topics = append(l.Topics, h)
					s.T = append(s.T, h.Hex())
				}
				rc.Logs = append(rc.Logs, l)
				sl = append(sl, s)
			}
			in.Receipts = append(in.Receipts, sl)
			receipts = append(receipts, rc)
			all = append(all, rc.Logs...)
		}
		c.Case(fmt.Sprintf("synth-%d", i), in, func() {
			for _, rc := range receipts {
				// the way core.ApplyTransaction fills a receipt's bloom
				rc.Bloom = types.CreateBloom(types.Receipts{rc})
				checkBloom(c, "receipt(CreateBloom)", rc.Bloom, rc.Logs)
				checkBloom(c, "receipt(LogsBloom)", types.BytesToBloom(types.LogsBloom(rc.Logs).Bytes()), rc.Logs)
			}
			// the way the block builders fill a header's bloom
			checkBloom(c, "header(CreateBloom)", types.CreateBloom(receipts), all)
			c.Count("synthetic_log_sets")
			if len(all) >= 2 {
				c.NontrivialBytes([]byte(fmt.Sprint(in)))
			}
			if c.Batch == 0 && len(all) >= 3 && !synthSampled {
				// one written-out log set is enough; leave room for the other legs
				synthSampled = true
				c.Sample(map[string]interface{}{"case": fmt.Sprintf("synth-%d", i), "receipts": len(receipts), "logs": len(all), "input": in})
			}
		})
	}
}

// ---------------------------------------------------------------------------
// blooms of generated chains: as produced by the block builder, as stored and
// served by the node after import

func (cr *chainRun) finalBloomCheck(id string) {
	c := cr.c
	c.Case(id+"/blooms", cr.d, func() {
		// every generated block of every branch: receipts and header as built
		for _, b := range cr.led.tree.Order {
			var all []*types.Log
			for _, rc := range b.Receipts {
				checkBloom(c, "receipt(built)", rc.Bloom, rc.Logs)
				all = append(all, rc.Logs...)
			}
			checkBloom(c, "header(built)", b.Block.Bloom(), all)
		}
		// the canonical chain as the node serves it
		for n := 1; n < len(cr.canonB); n++ {
			blk := cr.canonB[n]
			h := cr.bc.GetHeaderByNumber(uint64(n))
			if h == nil {
				panic("harness: canonical header missing")
			}
			stored := core.GetBlockReceipts(cr.db, blk.Hash(), uint64(n))
			built := cr.led.tree.ByHash[blk.Hash()].Receipts
			if len(stored) != len(built) {
				c.Violate("stored_receipts_differ_from_executed", "GetBlockReceipts", "count", fmt.Sprintf("block %d: %d stored receipts, %d executed", n, len(stored), len(built)))
				continue
			}
			var all []*types.Log
			li := 0
			for ti, rc := range stored {
				checkBloom(c, "receipt(stored)", rc.Bloom, built[ti].Logs)
				all = append(all, built[ti].Logs...)
				// stored logs = what a brute-force scan of the canonical receipts reads
				if len(rc.Logs) != len(built[ti].Logs) {
					c.Violate("stored_receipts_differ_from_executed", "GetBlockReceipts", "log_count", fmt.Sprintf("block %d tx %d: %d stored logs, %d executed", n, ti, len(rc.Logs), len(built[ti].Logs)))
					continue
				}
				for _, lg := range rc.Logs {
					if f := sameLog(&cr.canon[n][li], lg); f != "" {
						c.Violate("stored_receipts_differ_from_executed", "GetBlockReceipts", f, fmt.Sprintf("block %d tx %d log %d: field %s: stored %+v", n, ti, li, f, *lg))
					}
					li++
				}
			}
			checkBloom(c, "header(stored)", h.Bloom, all)
			c.Count("canonical_blocks_bloom_checked")
		}
	})
}
