package c17

// aqua sub-protocol: the real ProtocolManager handler on a small real chain,
// driven over p2p.MsgPipe by a hostile peer after a valid status exchange.

import (
	"bytes"
	"context"
	"fmt"
	"io"
	"math/big"
	"time"

	"github.com/btcsuite/btcd/btcec/v2"
	"gitlab.com/aquachain/aquachain/aqua"
	"gitlab.com/aquachain/aquachain/aqua/downloader"
	"gitlab.com/aquachain/aquachain/aqua/event"
	"gitlab.com/aquachain/aquachain/aquadb"
	"gitlab.com/aquachain/aquachain/common"
	"gitlab.com/aquachain/aquachain/consensus/aquahash"
	"gitlab.com/aquachain/aquachain/core"
	"gitlab.com/aquachain/aquachain/core/types"
	"gitlab.com/aquachain/aquachain/core/vm"
	"gitlab.com/aquachain/aquachain/crypto"
	"gitlab.com/aquachain/aquachain/p2p"
	"gitlab.com/aquachain/aquachain/p2p/discover"
	"gitlab.com/aquachain/aquachain/params"
	"gitlab.com/aquachain/aquachain/rlp"
	"verif/internal/fw"
	"verif/internal/ref/refrlp"
)

const (
	aquaNetworkID   = 61717561
	aquaMaxMsgSize  = 10 * 1024 * 1024 // aqua.ProtocolMaxMsgSize
	maxHeaderFetch  = 192
	aquaStatus      = 0x00
	aquaNewHashes   = 0x01
	aquaTx          = 0x02
	aquaGetHeaders  = 0x03
	aquaHeaders     = 0x04
	aquaGetBodies   = 0x05
	aquaBodies      = 0x06
	aquaNewBlock    = 0x07
	aquaGetNodeData = 0x0d
	aquaNodeData    = 0x0e
	aquaGetReceipts = 0x0f
	aquaReceipts    = 0x10
)

var aquaCodeName = map[uint64]string{0: "Status", 1: "NewBlockHashes", 2: "Tx", 3: "GetBlockHeaders", 4: "BlockHeaders", 5: "GetBlockBodies", 6: "BlockBodies", 7: "NewBlock",
	0x0d: "GetNodeData", 0x0e: "NodeData", 0x0f: "GetReceipts", 0x10: "Receipts"}

func codeName(c uint64) string {
	if n, ok := aquaCodeName[c]; ok {
		return n
	}
	return "undefined_code"
}

type aquaEnv struct {
	cfg     *params.ChainConfig
	db      *aquadb.MemDatabase
	chain   *core.BlockChain
	pool    *core.TxPool
	pm      *aqua.ProtocolManager
	blocks  []*types.Block // canonical chain known to the node, index = number
	future  []*types.Block // valid descendants the node has not seen
	bank    *btcec.PrivateKey
	nextTx  uint64
	probeNo int
	txsOn   bool
}

func newAquaEnv(r *fw.Rand, known, future int) (*aquaEnv, error) {
	e := &aquaEnv{cfg: params.TestChainConfig, db: aquadb.NewMemDatabase(), bank: keyFrom(r)}
	bankAddr := crypto.PubkeyToAddress(e.bank.PubKey())
	gspec := &core.Genesis{Config: e.cfg, Alloc: core.GenesisAlloc{bankAddr: {Balance: new(big.Int).Lsh(big.NewInt(1), 100)}}}
	genesis := gspec.MustCommit(e.db)
	engine := aquahash.NewFaker()
	chain, err := core.NewBlockChain(context.Background(), e.db, nil, e.cfg, engine, vm.Config{})
	if err != nil {
		return nil, err
	}
	e.chain = chain
	gen := func(i int, b *core.BlockGen) {
		b.SetCoinbase(common.Address{1})
		for k := 0; k < i%3; k++ {
			tx := types.NewTransaction(b.TxNonce(bankAddr), common.Address{byte(i), byte(k), 7}, big.NewInt(int64(1000+i)), 21000, big.NewInt(1), nil)
			stx, err := types.SignTx(tx, types.MakeSigner(e.cfg, b.Number()), e.bank)
			if err != nil {
				panic(err)
			}
			b.AddTx(stx)
		}
	}
	all, _ := core.GenerateChain(context.Background(), e.cfg, genesis, aquahash.NewFaker(), e.db, known+future, gen)
	if _, err := chain.InsertChain(all[:known]); err != nil {
		return nil, fmt.Errorf("insert: %v", err)
	}
	e.blocks = append([]*types.Block{genesis}, all[:known]...)
	e.future = all[known:]
	pcfg := core.DefaultTxPoolConfig
	pcfg.Journal = ""
	e.pool = core.NewTxPool(pcfg, e.cfg, chain)
	pm, err := aqua.NewProtocolManager(e.cfg, downloader.FullSync, aquaNetworkID, new(event.TypeMux), e.pool, engine, chain, e.db)
	if err != nil {
		return nil, err
	}
	pm.Start(1000)
	e.pm = pm
	st, _ := chain.StateAt(chain.CurrentBlock().Root())
	if st != nil {
		e.nextTx = st.GetNonce(bankAddr)
	}
	return e, nil
}

func (e *aquaEnv) head() *types.Block { return e.chain.CurrentBlock() }

func enc(v interface{}) []byte {
	b, err := rlp.EncodeToBytes(v)
	if err != nil {
		panic(err)
	}
	return b
}

// amsg is one message the hostile peer sends.
type amsg struct {
	Code    uint64 `json:"code"`
	Name    string `json:"name"`   // stable class name: <message>_<what was done to it>
	Expect  string `json:"expect"` // reject | accept | any
	Hex     string `json:"payload,omitempty"`
	Size    uint32 `json:"size"`
	Lazy    bool   `json:"lazy,omitempty"` // payload is Size bytes produced on the fly (list header + zeros)
	payload []byte
	// reply the handler must give (code + exact payload), when known
	replyCode uint64
	reply     []byte
	replyFn   func() []byte // evaluated when the message is sent (the canonical chain can change under a hostile peer)
}

func mk(code uint64, name, expect string, payload []byte) amsg {
	m := amsg{Code: code, Name: name, Expect: expect, payload: payload, Size: uint32(len(payload))}
	m.Hex = hx(payload)
	if len(m.Hex) > 4096 {
		m.Hex = m.Hex[:4096] + "..."
	}
	return m
}

// lazyReader yields a long-list header for the declared size followed by zeros.
type lazyReader struct {
	head []byte
	left int64
}

func (l *lazyReader) Read(p []byte) (int, error) {
	if len(l.head) > 0 {
		n := copy(p, l.head)
		l.head = l.head[n:]
		l.left -= int64(n)
		return n, nil
	}
	if l.left <= 0 {
		return 0, io.EOF
	}
	n := len(p)
	if int64(n) > l.left {
		n = int(l.left)
	}
	for i := 0; i < n; i++ {
		p[i] = 0
	}
	l.left -= int64(n)
	return n, nil
}

func (m *amsg) reader() io.Reader {
	if m.Lazy {
		body := uint64(m.Size) - 5
		return &lazyReader{head: []byte{0xfb, byte(body >> 24), byte(body >> 16), byte(body >> 8), byte(body)}, left: int64(m.Size)}
	}
	return bytes.NewReader(m.payload)
}

func (e *aquaEnv) statusPayload(version uint, network uint64, td *big.Int, head, genesis common.Hash) []byte {
	return refrlp.Encode(refrlp.L(refrlp.U(uint64(version)), refrlp.U(network), refrlp.B(td), refrlp.S(head[:]), refrlp.S(genesis[:])))
}

func (e *aquaEnv) goodStatus(version uint) amsg {
	h := e.head()
	return mk(aquaStatus, "Status_valid", "accept", e.statusPayload(version, aquaNetworkID, e.chain.GetTd(h.Hash(), h.NumberU64()), h.Hash(), e.blocks[0].Hash()))
}

// probe: a header query for the genesis block (the one block no peer can
// replace); the reply is known exactly.
func (e *aquaEnv) probe() amsg {
	e.probeNo++
	m := mk(aquaGetHeaders, "probe", "accept", refrlp.Encode(refrlp.L(refrlp.U(0), refrlp.U(1), refrlp.U(0), refrlp.U(0))))
	m.replyCode, m.reply = aquaHeaders, enc([]*types.Header{e.blocks[0].Header()})
	return m
}

// headerQuery builds a well-formed GetBlockHeaders and the reply the protocol
// defines for it over the known canonical chain (no arithmetic overflow cases).
func (e *aquaEnv) headerQuery(r *fw.Rand) amsg {
	top := uint64(len(e.blocks) - 1)
	origin := uint64(r.Intn(len(e.blocks) + 3))
	_ = top
	amount := uint64(r.Range(0, 12))
	skip := uint64(r.Range(0, 4))
	reverse := r.Bool()
	byHash := r.Bool() && origin <= top
	var originItem *refrlp.Item
	if byHash {
		h := e.blocks[origin].Hash()
		originItem = refrlp.S(h[:])
	} else {
		originItem = refrlp.U(origin)
	}
	rv := uint64(0)
	if reverse {
		rv = 1
	}
	var originHash common.Hash
	if byHash {
		originHash = e.blocks[origin].Hash()
	}
	m := mk(aquaGetHeaders, "GetBlockHeaders_valid", "accept", refrlp.Encode(refrlp.L(originItem, refrlp.U(amount), refrlp.U(skip), refrlp.U(rv))))
	m.replyCode = aquaHeaders
	// The protocol-defined answer over the node's canonical chain as it is when
	// the query is sent (read through the chain's own accessors, not through the
	// handler): a hostile peer may have made the node adopt a sibling block.
	m.replyFn = func() []byte {
		top := e.chain.CurrentBlock().NumberU64()
		if byHash {
			if h := e.chain.GetHeaderByNumber(origin); h == nil || h.Hash() != originHash {
				return nil // origin no longer canonical: traversal by hash is not modelled
			}
		}
		want := []*types.Header{}
		cur := int64(origin)
		for uint64(len(want)) < amount && cur >= 0 && uint64(cur) <= top {
			h := e.chain.GetHeaderByNumber(uint64(cur))
			if h == nil {
				break
			}
			want = append(want, h)
			if reverse {
				cur -= int64(skip) + 1
			} else {
				cur += int64(skip) + 1
			}
		}
		return enc(want)
	}
	return m
}

func (e *aquaEnv) validTx(r *fw.Rand) *types.Transaction {
	tx := types.NewTransaction(e.nextTx+uint64(r.Intn(3)), common.Address{9, byte(r.Intn(256))}, big.NewInt(int64(r.Intn(1000))), 21000, big.NewInt(int64(1+r.Intn(5))), r.Bytes(r.Intn(20)))
	stx, err := types.SignTx(tx, types.MakeSigner(e.cfg, e.head().Number()), e.bank)
	if err != nil {
		panic(err)
	}
	return stx
}

type bodyRLP struct {
	Transactions []*types.Transaction
	Uncles       []*types.Header
}

// validMessages: one well-formed instance of every message, with the reply
// where the protocol defines one.
func (e *aquaEnv) validMessages(r *fw.Rand) []amsg {
	pick := func() *types.Block { return e.blocks[r.Intn(len(e.blocks))] }
	var out []amsg
	// NewBlockHashes
	{
		it := refrlp.L()
		for n := r.Range(0, 4); n > 0; n-- {
			b := pick()
			h := b.Hash()
			it.List = append(it.List, refrlp.L(refrlp.S(h[:]), refrlp.U(b.NumberU64())))
		}
		out = append(out, mk(aquaNewHashes, "NewBlockHashes_valid", "accept", refrlp.Encode(it)))
	}
	out = append(out, mk(aquaTx, "Tx_valid", "accept", enc([]*types.Transaction{e.validTx(r), e.validTx(r)})))
	out = append(out, e.headerQuery(r))
	out = append(out, mk(aquaHeaders, "BlockHeaders_valid", "accept", enc([]*types.Header{})))
	out = append(out, mk(aquaHeaders, "BlockHeaders_valid", "accept", enc([]*types.Header{pick().Header(), pick().Header()})))
	out = append(out, mk(aquaHeaders, "BlockHeaders_valid", "accept", enc([]*types.Header{pick().Header()})))
	// GetBlockBodies
	{
		var hashes []common.Hash
		var want []rlp.RawValue
		for n := r.Range(0, 5); n > 0; n-- {
			if r.Chance(1, 4) {
				hashes = append(hashes, common.BytesToHash(r.Bytes(32)))
				continue
			}
			b := pick()
			hashes = append(hashes, b.Hash())
			want = append(want, enc(&bodyRLP{b.Transactions(), b.Uncles()}))
		}
		m := mk(aquaGetBodies, "GetBlockBodies_valid", "accept", enc(hashes))
		if want == nil {
			want = []rlp.RawValue{}
		}
		m.replyCode, m.reply = aquaBodies, enc(want)
		out = append(out, m)
	}
	{
		b := pick()
		out = append(out, mk(aquaBodies, "BlockBodies_valid", "accept", enc([]*bodyRLP{{b.Transactions(), b.Uncles()}})))
		out = append(out, mk(aquaBodies, "BlockBodies_valid", "accept", enc([]*bodyRLP{})))
	}
	{
		b := pick()
		out = append(out, mk(aquaNewBlock, "NewBlock_valid", "accept", enc([]interface{}{b, e.chain.GetTd(b.Hash(), b.NumberU64())})))
	}
	{
		m := mk(aquaGetNodeData, "GetNodeData_valid", "accept", enc([]common.Hash{e.head().Root(), common.BytesToHash(r.Bytes(32))}))
		m.replyCode = aquaNodeData
		out = append(out, m)
	}
	out = append(out, mk(aquaNodeData, "NodeData_valid", "accept", enc([][]byte{r.Bytes(40), r.Bytes(3)})))
	{
		m := mk(aquaGetReceipts, "GetReceipts_valid", "accept", enc([]common.Hash{pick().Hash(), common.BytesToHash(r.Bytes(32)), pick().Hash()}))
		m.replyCode = aquaReceipts
		out = append(out, m)
	}
	out = append(out, mk(aquaReceipts, "Receipts_valid", "accept", enc([][]*types.Receipt{})))
	return out
}

// alwaysDecoded: codes whose payload the handler decodes completely whenever
// it handles them, so a payload that is not the message's RLP must be rejected.
func (e *aquaEnv) alwaysDecoded(code uint64) bool {
	switch code {
	case aquaTx:
		return e.txsOn // transactions are ignored until the node considers itself synced
	case aquaNewHashes, aquaGetHeaders, aquaHeaders, aquaBodies, aquaNewBlock, aquaNodeData, aquaReceipts:
		return true
	case aquaGetBodies, aquaGetNodeData, aquaGetReceipts:
		return true // streamed: the outer list header is always read
	}
	return false
}

// hostileVariants derives hostile messages from a valid one.
func (e *aquaEnv) hostileVariants(r *fw.Rand, v amsg, dense bool) []amsg {
	var out []amsg
	base := codeName(v.Code)
	p := v.payload
	rej := "any"
	if e.alwaysDecoded(v.Code) {
		rej = "reject"
	}
	// every truncation (a strict prefix can never be the complete list)
	step := 1
	if !dense && len(p) > 64 {
		step = len(p)/48 + 1
	}
	for l := 0; l < len(p); l += step {
		out = append(out, mk(v.Code, base+"_truncated", rej, clone(p[:l])))
	}
	if len(p) > 1 {
		out = append(out, mk(v.Code, base+"_truncated", rej, clone(p[:len(p)-1])))
	}
	// byte-wise mutation
	mstep := 1
	if !dense && len(p) > 48 {
		mstep = len(p)/40 + 1
	}
	for pos := r.Intn(mstep); pos < len(p); pos += mstep {
		d := clone(p)
		switch r.Intn(3) {
		case 0:
			d[pos] ^= byte(1 << uint(r.Intn(8)))
		case 1:
			d[pos]++
		default:
			d[pos] = byte(r.Intn(256))
		}
		out = append(out, mk(v.Code, base+"_byte_mutated", "any", d))
	}
	// the outer list header rewritten to claim other sizes
	for _, claim := range []uint64{0, 1, 55, 56, uint64(len(p)) + 1, 1 << 16, 1 << 24, 1<<32 - 1, 1 << 32, 1<<63 - 1, 1<<64 - 1} {
		var hdr []byte
		if claim < 56 {
			hdr = []byte{0xc0 + byte(claim)}
		} else {
			var lb []byte
			for x := claim; x > 0; x >>= 8 {
				lb = append([]byte{byte(x)}, lb...)
			}
			hdr = append([]byte{0xf7 + byte(len(lb))}, lb...)
		}
		_, tag, _, err := shallowHdr(p)
		if err != nil {
			continue
		}
		body := p[tag:]
		exp := "any"
		if claim > uint64(len(body)) {
			exp = rej // claims more than the message holds
		}
		out = append(out, mk(v.Code, base+"_list_size_rewritten", exp, append(hdr, body...)))
	}
	// wrong shapes
	out = append(out, mk(v.Code, base+"_string_for_list", rej, refrlp.Encode(refrlp.S(p))))
	out = append(out, mk(v.Code, base+"_empty_payload", rej, nil))
	out = append(out, mk(v.Code, base+"_single_byte", rej, []byte{0x05}))
	out = append(out, mk(v.Code, base+"_trailing_bytes", "any", append(clone(p), r.Bytes(5)...)))
	out = append(out, mk(v.Code, base+"_deep_nesting", "any", append(bytes.Repeat([]byte{0xc1}, 60), 0xc0)))
	// beyond the protocol's message size limit: rejected whatever the code
	for _, sz := range []uint32{aquaMaxMsgSize + 1, 1<<24 - 1, 1<<32 - 1} {
		m := amsg{Code: v.Code, Name: base + "_oversize", Expect: "reject", Size: sz, Lazy: true}
		out = append(out, m)
	}
	return out
}

// integerLimitQueries: GetBlockHeaders with origin / amount / skip at integer limits.
func (e *aquaEnv) integerLimitQueries(r *fw.Rand) []amsg {
	var out []amsg
	lim := []uint64{0, 1, 2, 191, 192, 193, 1<<31 - 1, 1 << 31, 1<<32 - 1, 1 << 32, 1<<63 - 1, 1 << 63, 1<<64 - 2, 1<<64 - 1}
	top := uint64(len(e.blocks) - 1)
	for i := 0; i < 40; i++ {
		origin := []uint64{0, 1, top / 2, top, top + 1, lim[r.Intn(len(lim))]}[r.Intn(6)]
		amount := lim[r.Intn(len(lim))]
		skip := lim[r.Intn(len(lim))]
		var o *refrlp.Item
		if r.Bool() && origin <= top {
			h := e.blocks[origin].Hash()
			o = refrlp.S(h[:])
		} else {
			o = refrlp.U(origin)
		}
		m := mk(aquaGetHeaders, "GetBlockHeaders_integer_limits", "accept", refrlp.Encode(refrlp.L(o, refrlp.U(amount), refrlp.U(skip), refrlp.U(uint64(r.Intn(2))))))
		m.replyCode = aquaHeaders
		out = append(out, m)
	}
	// forced: every combination of origin mode, direction and skip limit
	for _, byHash := range []bool{false, true} {
		for _, rev := range []uint64{0, 1} {
			for _, skip := range []uint64{1<<64 - 1, 1<<64 - 2, 1 << 63, 1<<63 - 1} {
				on := top / 2
				o := refrlp.U(on)
				if byHash {
					hh := e.blocks[on].Hash()
					o = refrlp.S(hh[:])
				}
				m := mk(aquaGetHeaders, "GetBlockHeaders_integer_limits", "accept", refrlp.Encode(refrlp.L(o, refrlp.U(5), refrlp.U(skip), refrlp.U(rev))))
				m.replyCode = aquaHeaders
				out = append(out, m)
			}
		}
	}
	// malformed integers / arity
	h := e.blocks[1].Hash()
	nine := refrlp.S([]byte{1, 0, 0, 0, 0, 0, 0, 0, 0})
	out = append(out, mk(aquaGetHeaders, "GetBlockHeaders_integer_too_wide", "reject", refrlp.Encode(refrlp.L(refrlp.U(1), nine, refrlp.U(0), refrlp.U(0)))))
	out = append(out, mk(aquaGetHeaders, "GetBlockHeaders_integer_too_wide", "reject", refrlp.Encode(refrlp.L(refrlp.U(1), refrlp.U(1), nine, refrlp.U(0)))))
	out = append(out, mk(aquaGetHeaders, "GetBlockHeaders_origin_bad_size", "reject", refrlp.Encode(refrlp.L(refrlp.S(h[:31]), refrlp.U(1), refrlp.U(0), refrlp.U(0)))))
	out = append(out, mk(aquaGetHeaders, "GetBlockHeaders_origin_bad_size", "reject", refrlp.Encode(refrlp.L(refrlp.S(append(clone(h[:]), 1)), refrlp.U(1), refrlp.U(0), refrlp.U(0)))))
	out = append(out, mk(aquaGetHeaders, "GetBlockHeaders_too_few_fields", "reject", refrlp.Encode(refrlp.L(refrlp.U(1), refrlp.U(1), refrlp.U(0)))))
	out = append(out, mk(aquaGetHeaders, "GetBlockHeaders_too_many_fields", "reject", refrlp.Encode(refrlp.L(refrlp.U(1), refrlp.U(1), refrlp.U(0), refrlp.U(0), refrlp.U(0)))))
	out = append(out, mk(aquaGetHeaders, "GetBlockHeaders_bool_out_of_range", "reject", refrlp.Encode(refrlp.L(refrlp.U(1), refrlp.U(1), refrlp.U(0), refrlp.U(2)))))
	out = append(out, mk(aquaGetHeaders, "GetBlockHeaders_list_for_integer", "reject", refrlp.Encode(refrlp.L(refrlp.U(1), refrlp.L(), refrlp.U(0), refrlp.U(0)))))
	return out
}

// absurdAnnouncements: blocks, headers and hashes with absurd numbers and fields.
func (e *aquaEnv) absurdAnnouncements(r *fw.Rand) []amsg {
	var out []amsg
	nums := []uint64{0, 1, uint64(len(e.blocks)), uint64(len(e.blocks)) + 40, 1 << 32, 1<<63 - 1, 1 << 63, 1<<64 - 1}
	for _, n := range nums {
		it := refrlp.L(refrlp.L(refrlp.S(r.Bytes(32)), refrlp.U(n)), refrlp.L(refrlp.S(r.Bytes(32)), refrlp.U(n)))
		out = append(out, mk(aquaNewHashes, "NewBlockHashes_absurd_number", "accept", refrlp.Encode(it)))
	}
	tmpl := e.blocks[len(e.blocks)-1]
	for i := 0; i < 24; i++ {
		h := types.CopyHeader(tmpl.Header())
		switch i % 8 {
		case 0:
			h.Number = new(big.Int).SetUint64(nums[r.Intn(len(nums))])
		case 1:
			h.Number = new(big.Int).Lsh(big.NewInt(1), 200)
		case 2:
			h.Difficulty = new(big.Int)
		case 3:
			h.Difficulty = new(big.Int).Lsh(big.NewInt(1), 4000)
		case 4:
			h.Extra = r.Bytes(5000)
		case 5:
			h.Time = new(big.Int).Lsh(big.NewInt(1), 70)
		case 6:
			h.ParentHash = common.BytesToHash(r.Bytes(32))
			h.Number = new(big.Int).Add(tmpl.Number(), big.NewInt(1))
		default:
			h.GasLimit, h.GasUsed = 1<<64-1, 1<<64-1
		}
		txs := []*types.Transaction{}
		if i%3 == 0 {
			txs = append(txs, e.validTx(r))
		}
		blk := types.NewBlockWithHeader(h).WithBody(txs, nil)
		td := []*big.Int{big.NewInt(0), big.NewInt(1), new(big.Int).Lsh(big.NewInt(1), 300), e.chain.GetTd(e.head().Hash(), e.head().NumberU64())}[r.Intn(4)]
		out = append(out, mk(aquaNewBlock, "NewBlock_absurd_header", "accept", enc([]interface{}{blk, td})))
		out = append(out, mk(aquaHeaders, "BlockHeaders_absurd_header", "accept", enc([]*types.Header{h})))
		if i%4 == 0 {
			out = append(out, mk(aquaHeaders, "BlockHeaders_absurd_header", "accept", enc([]*types.Header{h, h, tmpl.Header()})))
			out = append(out, mk(aquaBodies, "BlockBodies_absurd_uncles", "accept", enc([]*bodyRLP{{txs, []*types.Header{h, h}}})))
		}
	}
	// structurally odd NewBlock payloads
	blkRLP := enc(tmpl)
	out = append(out, mk(aquaNewBlock, "NewBlock_empty_block", "any", refrlp.Encode(refrlp.L(refrlp.L(), refrlp.U(1)))))
	out = append(out, mk(aquaNewBlock, "NewBlock_empty_block", "any", refrlp.Encode(refrlp.L(refrlp.S(nil), refrlp.U(1)))))
	out = append(out, mk(aquaNewBlock, "NewBlock_empty_header", "any", refrlp.Encode(refrlp.L(refrlp.L(refrlp.L(), refrlp.L(), refrlp.L()), refrlp.U(1)))))
	out = append(out, mk(aquaNewBlock, "NewBlock_empty_header", "any", refrlp.Encode(refrlp.L(refrlp.L(refrlp.S(nil), refrlp.L(), refrlp.L()), refrlp.U(1)))))
	if it, err := refrlp.Decode(blkRLP); err == nil {
		out = append(out, mk(aquaNewBlock, "NewBlock_missing_td", "reject", refrlp.Encode(refrlp.L(it))))
		out = append(out, mk(aquaNewBlock, "NewBlock_empty_td", "any", refrlp.Encode(refrlp.L(it, refrlp.S(nil)))))
		out = append(out, mk(aquaNewBlock, "NewBlock_list_td", "reject", refrlp.Encode(refrlp.L(it, refrlp.L(refrlp.U(1))))))
		out = append(out, mk(aquaNewBlock, "NewBlock_huge_td", "accept", refrlp.Encode(refrlp.L(it, refrlp.S(bytes.Repeat([]byte{0xff}, 4000))))))
	}
	// transactions with hostile fields
	for i := 0; i < 12; i++ {
		sig := func() *refrlp.Item { return refrlp.S(r.Bytes(r.Range(0, 32))) }
		to := refrlp.S(r.Bytes(20))
		if i%4 == 0 {
			to = refrlp.S(nil)
		}
		v := refrlp.U([]uint64{0, 1, 27, 28, 37, 41, 42, 1<<64 - 1}[r.Intn(8)])
		if i%5 == 0 {
			v = refrlp.S(bytes.Repeat([]byte{0xff}, 33))
		}
		tx := refrlp.L(refrlp.U(r.Uint64()>>uint(r.Intn(64))), refrlp.S(r.Bytes(r.Range(0, 33))), refrlp.U(r.Uint64()>>uint(r.Intn(64))), to, refrlp.S(r.Bytes(r.Range(0, 33))), refrlp.S(r.Bytes(r.Range(0, 100))), v, sig(), sig())
		exp := "any"
		out = append(out, mk(aquaTx, "Tx_hostile_fields", exp, refrlp.Encode(refrlp.L(tx, tx))))
	}
	// well-formed in every respect except that it is larger than the protocol allows
	{
		blob := make([]byte, aquaMaxMsgSize)
		m := mk(aquaNodeData, "NodeData_wellformed_but_oversize", "reject", refrlp.Encode(refrlp.L(refrlp.S(blob))))
		m.Hex = fmt.Sprintf("(list of one %d-byte zero string)", len(blob))
		out = append(out, m)
	}
	// large but legal node data (one blob just below the size limit)
	if r.Chance(1, 8) {
		out = append(out, mk(aquaNodeData, "NodeData_at_size_limit", "accept", refrlp.Encode(refrlp.L(refrlp.S(make([]byte, aquaMaxMsgSize-16))))))
	}
	return out
}

func (e *aquaEnv) undefinedCodes(r *fw.Rand) []amsg {
	var out []amsg
	for _, code := range []uint64{0x08, 0x09, 0x0a, 0x0b, 0x0c, 0x11, 0x12, 0xff, 0x100, 1 << 32, 1<<64 - 1} {
		out = append(out, mk(code, "undefined_code", "reject", refrlp.Encode(refrlp.L(refrlp.U(1)))))
		out = append(out, mk(code, "undefined_code_empty", "reject", nil))
	}
	out = append(out, mk(aquaStatus, "Status_after_handshake", "reject", e.goodStatus(64).payload))
	return out
}

// ---- session driver -----------------------------------------------------------------

type inMsg struct {
	code uint64
	body []byte
	err  error
}

// expectation: the reply owed to one request of ours. The node answers every
// accepted request with exactly one message of the reply code, in order, so
// replies are matched to requests by position, never by content.
type expectation struct {
	want   []byte // exact payload, when the protocol defines it
	wantFn func() []byte
	done   bool
	got    []byte
}

// matches: the reply equals the protocol-defined one, evaluated when the
// request was sent or now (an import may have landed in between).
func (x *expectation) matches() bool {
	if x.want == nil || bytes.Equal(x.got, x.want) {
		return true
	}
	if x.wantFn != nil {
		if now := x.wantFn(); now == nil || bytes.Equal(x.got, now) {
			return true
		}
	}
	return false
}

func replyCodeFor(code uint64) uint64 {
	switch code {
	case aquaGetHeaders:
		return aquaHeaders
	case aquaGetBodies:
		return aquaBodies
	case aquaGetNodeData:
		return aquaNodeData
	case aquaGetReceipts:
		return aquaReceipts
	}
	return 0
}

type aquaSession struct {
	c         *fw.Ctx
	e         *aquaEnv
	app       *p2p.MsgPipeRW
	in        chan inMsg
	runErr    chan error
	ended     bool
	endErr    error
	pan       string
	gotStatus bool
	owed      map[uint64][]*expectation
	version   uint
}

const aquaWatchdog = 120 * time.Second

// open starts the handler for a new peer.
func (e *aquaEnv) open(c *fw.Ctx, r *fw.Rand, version int) *aquaSession {
	app, net := p2p.MsgPipe()
	s := &aquaSession{c: c, e: e, app: app, in: make(chan inMsg, 256), runErr: make(chan error, 1), owed: map[uint64][]*expectation{}}
	var id discover.NodeID
	copy(id[:], r.Bytes(64))
	proto := e.pm.SubProtocols[version%len(e.pm.SubProtocols)]
	s.version = proto.Version
	go func() {
		var err error
		p, msg, st := safely(func() { err = proto.Run(p2p.NewPeer(id, "hostile", nil), net) })
		if p {
			s.pan = msg + "\n" + st
			err = fmt.Errorf("panic")
		}
		s.runErr <- err
	}()
	go func() {
		for {
			m, err := app.ReadMsg()
			if err != nil {
				close(s.in)
				return
			}
			body, rerr := io.ReadAll(io.LimitReader(m.Payload, 64<<20))
			s.in <- inMsg{code: m.Code, body: body, err: rerr}
		}
	}()
	return s
}

func (s *aquaSession) close() {
	s.app.Close()
	if !s.ended {
		select {
		case s.endErr = <-s.runErr:
			s.ended = true
		case <-time.After(aquaWatchdog):
			s.c.Inconclusive("aqua_handler_did_not_return_after_close")
		}
	}
	if s.pan != "" {
		s.c.Violate("panic", "handleMsg", "handler_goroutine", "protocol handler panicked: "+s.pan)
	}
}

// incoming: everything the node writes must be a well-formed message of the
// protocol within its size limit; replies are booked against what is owed.
func (s *aquaSession) incoming(m inMsg) {
	s.c.Count("aqua_messages_from_node")
	if m.code == aquaStatus {
		s.gotStatus = true
	}
	if _, ok := aquaCodeName[m.code]; !ok {
		s.c.Violate("malformed_reply", "handleMsg", "undefined_code", fmt.Sprintf("node sent message code %d", m.code))
		return
	}
	if len(m.body) > aquaMaxMsgSize {
		s.c.Violate("malformed_reply", "handleMsg", "oversize_"+codeName(m.code), fmt.Sprintf("node sent a %d-byte %s", len(m.body), codeName(m.code)))
		return
	}
	it, err := refrlp.Decode(m.body)
	if err != nil || !it.IsList {
		s.c.Violate("malformed_reply", "handleMsg", "not_rlp_list_"+codeName(m.code), fmt.Sprintf("node sent %s whose payload is not one canonical RLP list: %v", codeName(m.code), err))
		return
	}
	if m.code == aquaHeaders && len(it.List) > maxHeaderFetch {
		s.c.Violate("malformed_reply", "handleMsg", "too_many_headers", fmt.Sprintf("node sent %d headers in one reply", len(it.List)))
	}
	switch m.code {
	case aquaHeaders, aquaBodies, aquaNodeData, aquaReceipts:
		q := s.owed[m.code]
		if len(q) == 0 {
			s.c.Violate("malformed_reply", "handleMsg", "unsolicited_"+codeName(m.code), fmt.Sprintf("node sent a %s nobody asked for", codeName(m.code)))
			return
		}
		q[0].done, q[0].got = true, m.body
		s.owed[m.code] = q[1:]
	}
}

// pump processes what the node sends until cond holds; false if the handler
// ended (or a watchdog fired) first.
func (s *aquaSession) pump(cond func() bool, wake <-chan struct{}) bool {
	for {
		if cond() {
			return true
		}
		if s.ended {
			return false
		}
		select {
		case im, ok := <-s.in:
			if !ok {
				s.in = nil
				continue
			}
			s.incoming(im)
		case <-wake:
			wake = nil
		case err := <-s.runErr:
			s.ended, s.endErr = true, err
			return cond()
		case <-time.After(aquaWatchdog):
			s.c.Inconclusive("aqua_watchdog")
			s.c.Note("goroutines at watchdog:\n%s", truncateStr(allStacks(), 20000))
			s.ended = true
			s.endErr = fmt.Errorf("watchdog")
			return false
		}
	}
}

// send writes one message (booking the reply it is owed); false if the handler
// ended instead of taking it.
func (s *aquaSession) send(m *amsg) (*expectation, bool) {
	if s.ended {
		return nil, false
	}
	var x *expectation
	if rc := replyCodeFor(m.Code); rc != 0 {
		x = &expectation{want: m.reply, wantFn: m.replyFn}
		if m.replyFn != nil {
			x.want = m.replyFn()
		}
		s.owed[rc] = append(s.owed[rc], x)
	}
	done := make(chan struct{})
	go func() {
		s.app.WriteMsg(p2p.Msg{Code: m.Code, Size: m.Size, Payload: m.reader()})
		close(done)
	}()
	ok := s.pump(func() bool {
		select {
		case <-done:
			return true
		default:
			return false
		}
	}, done)
	if !ok {
		s.app.Close()
		<-done
		return x, false
	}
	return x, true
}

// handshake exchanges status messages; true if ours was taken.
func (s *aquaSession) handshake(st amsg) bool {
	if !s.pump(func() bool { return s.gotStatus }, nil) {
		return false
	}
	s.c.Count("aqua_status_received")
	_, ok := s.send(&st)
	return ok
}

// alive decides whether the handler still serves the peer: a header query for
// a known block is answered (with exactly that header), or the handler has
// returned.
func (s *aquaSession) alive() bool {
	if s.ended {
		return false
	}
	p := s.e.probe()
	x, ok := s.send(&p)
	if !ok {
		return false
	}
	if !s.pump(func() bool { return x.done }, nil) {
		return false
	}
	s.c.Count("aqua_probe_answered")
	if !bytes.Equal(x.got, x.want) {
		s.c.Violate("malformed_reply", "handleMsg", "probe_wrong_content", fmt.Sprintf("query for one known header answered with %x, the header is %x", truncBytes(x.got), truncBytes(x.want)))
	}
	return true
}

// deliver sends one message and judges the outcome.
func (s *aquaSession) deliver(m amsg) (stillAlive bool) {
	c := s.c
	c.Count("aqua_messages_sent")
	c.Count("aqua_sent_" + codeName(m.Code))
	x, _ := s.send(&m)
	live := s.alive() // replies arrive in order: if the probe was answered, so was m (if it ever will be)
	if s.pan != "" {
		return false // reported by close()
	}
	if s.endErr != nil && s.endErr.Error() == "watchdog" {
		return false
	}
	switch m.Expect {
	case "reject":
		if live {
			c.Violate("malformed_message_accepted", "handleMsg", m.Name,
				fmt.Sprintf("%s (code %#x, %d bytes) is not a well-formed message of the protocol, yet the handler kept serving the peer", m.Name, m.Code, m.Size))
		} else {
			c.Count("aqua_malformed_rejected")
		}
	case "accept":
		if !live {
			c.Violate("honest_message_rejected", "handleMsg", m.Name, fmt.Sprintf("well-formed %s dropped the peer: %v", m.Name, s.endErr))
			return false
		}
		c.Count("aqua_wellformed_accepted")
		if x != nil {
			if !x.done {
				c.Violate("honest_message_rejected", "handleMsg", m.Name+"_no_reply", fmt.Sprintf("%s got no %s reply", m.Name, codeName(replyCodeFor(m.Code))))
			} else if !x.matches() {
				c.Violate("malformed_reply", "handleMsg", m.Name+"_wrong_content", fmt.Sprintf("%s: reply %x, protocol-defined reply %x", m.Name, truncBytes(x.got), truncBytes(x.want)))
			} else {
				c.Count("aqua_reply_checked")
			}
		}
	default:
		if live {
			c.Count("aqua_hostile_tolerated")
		} else {
			c.Count("aqua_hostile_dropped_peer")
		}
	}
	return live
}

func truncBytes(b []byte) []byte {
	if len(b) > 300 {
		return b[:300]
	}
	return b
}

// ---- leg ---------------------------------------------------------------------------------

func (e *aquaEnv) enableTxs(c *fw.Ctx, r *fw.Rand) {
	// a valid next block, propagated by a peer, is imported by the fetcher; from
	// then on the node processes transaction messages
	s := e.open(c, r, 0)
	defer s.close()
	if !s.handshake(e.goodStatus(s.version)) {
		return
	}
	nb := e.future[0]
	td := new(big.Int).Add(e.chain.GetTd(nb.ParentHash(), nb.NumberU64()-1), nb.Difficulty())
	m := mk(aquaNewBlock, "NewBlock_valid_next", "accept", enc([]interface{}{nb, td}))
	if _, ok := s.send(&m); !ok {
		return
	}
	deadline := time.Now().Add(aquaWatchdog)
	for time.Now().Before(deadline) {
		if e.head().Hash() == nb.Hash() {
			e.blocks = append(e.blocks, nb)
			e.future = e.future[1:]
			e.txsOn = true
			c.Count("aqua_block_imported_via_fetcher")
			st, _ := e.chain.StateAt(e.head().Root())
			if st != nil {
				e.nextTx = st.GetNonce(crypto.PubkeyToAddress(e.bank.PubKey()))
			}
			return
		}
		time.Sleep(20 * time.Millisecond)
	}
	c.Inconclusive("aqua_block_not_imported")
}

func runAqua(c *fw.Ctx) {
	r0 := c.Rand("aqua-env")
	var e *aquaEnv
	setupCase(c, "aqua-setup", map[string]string{"what": "24-block chain, protocol manager, tx pool"}, func() {
		var err error
		e, err = newAquaEnv(r0, 24, 6)
		if err != nil {
			c.Inconclusive("aqua_env_failed")
			c.Note("env: %v", err)
			e = nil
			return
		}
		if c.Batch%2 == 0 {
			e.enableTxs(c, r0)
		}
	})
	if e == nil {
		return
	}
	dense := c.Thorough()
	rounds := c.Pick(2, 16)
	sessionNo := 0
	// runList: sessions of a few messages each; a session ends when the peer is dropped
	runList := func(label string, r *fw.Rand, msgs []amsg) {
		for len(msgs) > 0 {
			n := 6
			if n > len(msgs) {
				n = len(msgs)
			}
			// messages expected to be rejected end the session: put at most one, last
			cut := n
			for i := 0; i < n; i++ {
				if msgs[i].Expect == "reject" {
					cut = i + 1
					break
				}
			}
			batch := msgs[:cut]
			msgs = msgs[cut:]
			sessionNo++
			id := fmt.Sprintf("aqua-%s-%d", label, sessionNo)
			c.Case(id, map[string]interface{}{"messages": batch, "txs_enabled": e.txsOn}, func() {
				s := e.open(c, r, sessionNo)
				defer s.close()
				if !s.handshake(e.goodStatus(s.version)) {
					if s.endErr != nil && (s.endErr == p2p.DiscReadTimeout || isTimeout(s.endErr)) {
						c.Inconclusive("aqua_handshake_timeout")
					} else if s.pan == "" {
						c.Violate("honest_message_rejected", "Handshake", "Status_valid", fmt.Sprintf("valid status exchange failed: %v", s.endErr))
					}
					return
				}
				if !s.alive() {
					if s.pan == "" {
						c.Violate("honest_message_rejected", "Handshake", "Status_valid", fmt.Sprintf("peer dropped right after a valid status exchange: %v", s.endErr))
					}
					return
				}
				c.Count("aqua_sessions_established")
				acc, rej := 0, 0
				for _, m := range batch {
					if s.deliver(m) {
						acc++
					} else {
						rej++
						break
					}
				}
				if acc > 0 && rej > 0 {
					c.Nontrivial(id + fmt.Sprint(c.Batch))
				}
				if sessionNo == 3 {
					c.Sample(map[string]interface{}{"case": id, "messages": batch, "survived": acc, "dropped_peer": rej})
				}
			})
		}
	}
	for round := 0; round < rounds; round++ {
		r := c.Rand("aqua", fmt.Sprint(round))
		valid := e.validMessages(r)
		runList("valid", r, valid)
		for _, v := range valid {
			runList("hostile", r, e.hostileVariants(r, v, dense))
		}
		runList("limits", r, e.integerLimitQueries(r))
		runList("absurd", r, e.absurdAnnouncements(r))
		runList("codes", r, e.undefinedCodes(r))
		runHostileStatus(c, e, r, round)
	}
	// the node must still be serving after everything above
	c.Case("aqua-final-liveness", map[string]string{"what": "fresh peer after the attack"}, func() {
		r := c.Rand("aqua-final")
		s := e.open(c, r, 0)
		defer s.close()
		if s.handshake(e.goodStatus(s.version)) && s.alive() {
			c.Count("aqua_node_serving_after_attack")
		} else if s.pan == "" && !(s.endErr == p2p.DiscReadTimeout) {
			c.Violate("handler_wedged", "handle", "fresh_peer_after_attack", fmt.Sprintf("a fresh well-behaved peer is not served after the attack: %v", s.endErr))
		}
	})
}

// runHostileStatus: hostile first messages.
func runHostileStatus(c *fw.Ctx, e *aquaEnv, r *fw.Rand, round int) {
	h := e.head()
	td := e.chain.GetTd(h.Hash(), h.NumberU64())
	g := e.blocks[0].Hash()
	const ver = 64 // every hostile-status session runs the first sub-protocol version
	good := e.statusPayload(ver, aquaNetworkID, td, h.Hash(), g)
	var list []amsg
	list = append(list, mk(aquaStatus, "Status_wrong_network", "reject", e.statusPayload(ver, 1, td, h.Hash(), g)))
	list = append(list, mk(aquaStatus, "Status_wrong_genesis", "reject", e.statusPayload(ver, aquaNetworkID, td, h.Hash(), common.BytesToHash(r.Bytes(32)))))
	list = append(list, mk(aquaStatus, "Status_wrong_version", "reject", e.statusPayload(1, aquaNetworkID, td, h.Hash(), g)))
	list = append(list, mk(aquaStatus, "Status_wrong_version", "reject", e.statusPayload(ver+1, aquaNetworkID, td, h.Hash(), g)))
	list = append(list, mk(aquaStatus, "Status_huge_td", "accept", e.statusPayload(ver, aquaNetworkID, new(big.Int).Lsh(big.NewInt(1), 8000), h.Hash(), g)))
	list = append(list, mk(aquaStatus, "Status_zero_td", "accept", e.statusPayload(ver, aquaNetworkID, big.NewInt(0), common.Hash{}, g)))
	for l := 0; l < len(good); l += 1 + r.Intn(4) {
		list = append(list, mk(aquaStatus, "Status_truncated", "reject", clone(good[:l])))
	}
	for i := 0; i < 12; i++ {
		d := clone(good)
		d[r.Intn(len(d))] ^= byte(1 << uint(r.Intn(8)))
		list = append(list, mk(aquaStatus, "Status_byte_mutated", "any", d))
	}
	list = append(list, amsg{Code: aquaStatus, Name: "Status_oversize", Expect: "reject", Size: aquaMaxMsgSize + 1, Lazy: true})
	list = append(list, mk(aquaGetHeaders, "first_message_not_status", "reject", refrlp.Encode(refrlp.L(refrlp.U(0), refrlp.U(1), refrlp.U(0), refrlp.U(0)))))
	list = append(list, mk(1<<40, "first_message_not_status", "reject", nil))
	for i, m := range list {
		m := m
		id := fmt.Sprintf("aqua-status-%d-%d", round, i)
		c.Case(id, map[string]interface{}{"first_message": m}, func() {
			s := e.open(c, r, 0)
			defer s.close()
			if s.version != ver {
				c.Inconclusive("aqua_unexpected_protocol_version")
				return
			}
			c.Count("aqua_hostile_status_presented")
			if !s.handshake(m) {
				if m.Expect == "accept" && s.pan == "" && s.endErr != p2p.DiscReadTimeout {
					c.Violate("honest_message_rejected", "Handshake", m.Name, fmt.Sprintf("%v", s.endErr))
				}
				return
			}
			live := s.alive()
			switch {
			case s.pan != "":
			case m.Expect == "reject" && live:
				c.Violate("malformed_message_accepted", "Handshake", m.Name, fmt.Sprintf("%s as first message, yet the peer is served", m.Name))
			case m.Expect == "reject":
				c.Count("aqua_malformed_rejected")
			case m.Expect == "accept" && !live && s.endErr != p2p.DiscReadTimeout:
				c.Violate("honest_message_rejected", "Handshake", m.Name, fmt.Sprintf("%v", s.endErr))
			}
		})
	}
}
