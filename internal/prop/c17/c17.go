// Package c17: network input is authenticated or rejected, and never fatal.
//
// Runtime monitors around the real network-facing code of /repo, each fed with
// generated hostile input while the oracle watches for a panic, a dead process,
// a wedged handler, an allocation beyond the protocol limits, or a delivered
// message that is not what the identified key authenticated:
//
//	disc-decode  discover.decodePacket, in process (hook H5)
//	disc-udp     a real discover.ListenUDP listener over loopback UDP
//	rlpx         RLPx sessions between two real endpoints (hook H6) over
//	             net.Pipe and TCP, through a byte-level tampering relay, and
//	             with the harness as a hostile peer
//	aqua         aqua.ProtocolManager sub-protocol handler over p2p.MsgPipe
//	server       a real p2p.Server (running the aqua protocol) on loopback TCP
package c17

import (
	"os"
	"strings"
	"time"

	"gitlab.com/aquachain/aquachain/common/log"
	"verif/internal/fw"
)

func silenceLogs() { log.Root().SetHandler(log.DiscardHandler()) }

func init() {
	if m := os.Getenv(victimEnv); m != "" {
		victimMain(m) // does not return
	}
	fw.Register(&fw.Prop{
		ID:    "C17",
		Title: "Network input is authenticated or rejected, and never fatal",
		Level: "exploration",
		Rule: "discovery: per round and framing mode, 8 groups derived from a PRNG-generated signed ping/pong/findnode/neighbors packet (valid packets; random bytes, with valid hash, with valid signature; " +
			"every truncation, raw / re-hashed / re-hashed and re-signed by the sender; every single-byte flip on the wire; every byte of the signed body mutated 4 ways and re-signed; every signature byte mutated and re-hashed, all 256 recovery ids; " +
			"20 type bytes x body lengths 0..8 x 3 fills, signed; hostile RLP shapes) handed to decodePacket in process and to a ListenUDP socket. " +
			"rlpx: PRNG key pairs and message sequences (codes 0..2^64-1, sizes 0..16 MiB-1, snappy on/off) between two real endpoints over net.Pipe/TCP; one fault (bit flip, drop, duplicate, insert, cut, frame replay/swap) at every byte offset of short streams and PRNG offsets of long ones, in handshake and frame phase; hostile peers before and after a legitimate handshake. " +
			"aqua: every message code 0x00..0x11 and beyond with valid payloads, every truncation, byte-wise mutations, integer-limit queries and oversize messages after a valid status exchange. server: the same hostile clients against a listening p2p.Server. " +
			"Non-trivial: a discovery group in which some datagrams were delivered and some rejected; a socket or server batch whose victim still answered a signed ping / served a fresh peer after the attack; an honest RLPx session that delivered >= 2 messages; a fault session whose fault was applied after at least one hello had been delivered; an aqua session in which at least one message was tolerated and one dropped the peer. Distinct = hash of the case input (keys, base packet, message list).",
		Legs: func(tier string) []fw.Leg {
			// generous watchdogs: the machine may be shared with other checks
			wd := 45 * time.Minute
			if tier == "thorough" {
				wd = 4 * time.Hour
			}
			legs := []fw.Leg{
				{Name: "disc-decode", Variant: "plain", Batches: 16, Timeout: wd},
				{Name: "disc-udp", Variant: "plain", Batches: 8, Timeout: wd},
				{Name: "rlpx", Variant: "plain", Batches: 16, Timeout: wd},
				{Name: "aqua", Variant: "plain", Batches: 16, Timeout: wd},
				{Name: "server", Variant: "plain", Batches: 8, Timeout: wd},
			}
			if tier == "thorough" {
				legs = append(legs,
					fw.Leg{Name: "rlpx-race", Variant: "race", Batches: 4, Timeout: wd},
					fw.Leg{Name: "server-race", Variant: "race", Batches: 4, Timeout: wd},
				)
			}
			return filterLegs(legs)
		},
		Run:  run,
		Gate: gate,
		AnchorFiles: []string{"/p2p/rlpx.go", "/p2p/message.go", "/p2p/peer.go", "/p2p/server.go", "/p2p/discover/udp.go", "/p2p/discover/node.go",
			"/aqua/handler.go", "/aqua/protocol.go", "/aqua/peer.go", "/aqua/fetcher/fetcher.go", "/aqua/downloader/queue.go", "/crypto/ecies/ecies.go"},
		Assumptions: []string{
			"cryptographic strength is out of scope: tampering is by bit flip, cut, insert, duplicate and splice of real traffic, never by forging a MAC or signature",
			"'never wedges' is decided as bounded progress after the attack stops (a signed ping is answered, peers are released, handler goroutines end); a watchdog that fires without a goroutine-dump witness is reported inconclusive",
			"discovery expiration is kept more than 30 s clear of the clock (constant far-future or far-past timestamps)",
			"sender identity is checked by ECDSA verification with the standard library over secp256k1 parameters (no public-key recovery code shared with the node); hashes with x/crypto legacy Keccak-256; RLP with internal/ref/refrlp",
			"strictness of the RLP codec itself (non-canonical encodings accepted inside a packet) is property C11 and only counted here",
		},
	})
}

func run(c *fw.Ctx) {
	silenceLogs()
	switch c.Leg {
	case "disc-decode":
		runDiscDecode(c)
	case "disc-udp":
		runDiscUDP(c)
	case "rlpx", "rlpx-race":
		runRLPX(c)
	case "aqua":
		runAqua(c)
	case "server", "server-race":
		runServer(c)
	}
}

// filterLegs: development aid, VERIF_C17_LEGS=a,b runs only those legs (the
// registered commands never set it).
func filterLegs(legs []fw.Leg) []fw.Leg {
	want := os.Getenv("VERIF_C17_LEGS")
	if want == "" {
		return legs
	}
	var out []fw.Leg
	for _, l := range legs {
		for _, w := range strings.Split(want, ",") {
			if w == l.Name {
				out = append(out, l)
			}
		}
	}
	return out
}

func gate(tier string) map[string]int {
	if os.Getenv("VERIF_C17_LEGS") != "" {
		return map[string]int{}
	}
	return map[string]int{
		// discovery
		"decode_calls":                           100000,
		"decode_accepted":                        2000,
		"decode_rejected":                        50000,
		"accepted_id_verified":                   2000,
		"accepted_fields_match_signed_payload":   2000,
		"accepted_ping":                          100,
		"accepted_pong":                          100,
		"accepted_findnode":                      100,
		"accepted_neighbors":                     100,
		"tampered_datagrams_presented":           10000,
		"signed_body_shorter_than_tag_presented": 100,
		"encoder_compared":                       500,
		"udp_listener_started":                   8,
		"udp_datagrams_sent":                     10000,
		"udp_liveness_probe_answered":            100,
		// rlpx
		"rlpx_honest_sessions_complete":             300,
		"rlpx_messages_delivered_equal":             3000,
		"rlpx_messages_over_1MiB_delivered":         6,
		"rlpx_oversize_write_refused":               6,
		"rlpx_limit_sessions":                       6,
		"rlpx_sweep_positions":                      3000,
		"rlpx_frame_tamper_detected":                3000,
		"rlpx_handshake_tamper_detected":            150,
		"rlpx_fault_flip_frames":                    500,
		"rlpx_fault_drop_frames":                    500,
		"rlpx_fault_replay_frames":                  50,
		"rlpx_fault_swap_frames":                    30,
		"hostile_auth_presented":                    2000,
		"hostile_auth_accepted":                     16,
		"hostile_ack_presented":                     2000,
		"hostile_frames_presented":                  500,
		"hostile_frame_bad_header_mac_claims_16MiB": 16,
		"hostile_frame_delivered_equal":             800,
		// aqua
		"aqua_sessions_established":       5000,
		"aqua_messages_sent":              10000,
		"aqua_malformed_rejected":         5000,
		"aqua_wellformed_accepted":        1000,
		"aqua_reply_checked":              300,
		"aqua_block_imported_via_fetcher": 4,
		"aqua_hostile_status_presented":   500,
		"aqua_node_serving_after_attack":  12,
		// server
		"server_raw_clients":                400,
		"server_hostile_hellos":             40,
		"server_hostile_frames":             100,
		"server_bad_frame_ended_connection": 50,
		"server_aqua_messages":              200,
		"server_malformed_dropped":          80,
		"server_peers_released":             6,
		"server_handlers_released":          6,
		"server_serving_after_attack":       6,
		// devp2p disconnect reasons (in and out of the reason table, odd payloads)
		"disc_reason_victim_started":                     6,
		"disc_reason_lattice_sent":                       300,
		"disc_established_disc_reason_out_of_table":      40,
		"disc_instead_of_hello_disc_reason_out_of_table": 40,
		"disc_established_disc_odd_payload":              60,
		// acceptable hellos with hostile client names
		"server_hello_name_over_80_bytes": 40,
		"server_hello_name_multibyte":     40,
		"server_hello_name_invalid_utf8":  8,
		"server_hello_name_admitted":      40,
		"disc_reason_prehello_presented":  400,
	}
}

// setupCase runs a set-up step as a logged case; under a replay filter for
// another case it still runs (unlogged), so the replayed case finds its
// environment.
func setupCase(c *fw.Ctx, id string, input interface{}, fn func()) {
	if c.OnlyCase != "" && c.OnlyCase != id {
		fn()
		return
	}
	c.Case(id, input, fn)
}
