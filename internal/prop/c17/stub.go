package c17

import "verif/internal/fw"

func runRLPX(c *fw.Ctx)   {}
func runAqua(c *fw.Ctx)   {}
func runServer(c *fw.Ctx) {}
