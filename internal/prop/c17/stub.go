package c17

import "verif/internal/fw"

func runServer(c *fw.Ctx) {}
