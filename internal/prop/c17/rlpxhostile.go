package c17

// The harness as a hostile RLPx peer: before the handshake (raw bytes, cut and
// mutated recordings, size prefixes, correctly encrypted but malformed
// handshake packets) and after a legitimate handshake (frames with valid MACs
// and hostile content).

import (
	"bytes"
	"crypto/aes"
	"crypto/cipher"
	"encoding/binary"
	"fmt"
	"hash"
	"io"
	"net"
	"time"

	"github.com/btcsuite/btcd/btcec/v2"
	"github.com/golang/snappy"
	"gitlab.com/aquachain/aquachain/crypto/ecies"
	"gitlab.com/aquachain/aquachain/p2p"
	"gitlab.com/aquachain/aquachain/p2p/discover"
	"verif/internal/fw"
	"verif/internal/ref/refrlp"
)

// prngReader makes the attacker's "randomness" reproducible.
type prngReader struct{ r *fw.Rand }

func (p prngReader) Read(b []byte) (int, error) {
	copy(b, p.r.Bytes(len(b)))
	return len(b), nil
}

func eciesPub(k *btcec.PrivateKey) *ecies.PublicKey {
	return ecies.ImportECDSAPublic(k.PubKey().ToECDSA())
}

// sealEIP8 encrypts plaintext to pub the way an EIP-8 handshake packet is
// framed: 2-byte size prefix (authenticated as shared MAC data) || ECIES.
func sealEIP8(r *fw.Rand, pub *ecies.PublicKey, plain []byte) []byte {
	prefix := make([]byte, 2)
	binary.BigEndian.PutUint16(prefix, uint16(len(plain)+65+16+32))
	enc, err := ecies.Encrypt(prngReader{r}, pub, plain, nil, prefix)
	if err != nil {
		return append(prefix, plain...)
	}
	return append(prefix, enc...)
}

func sealPlain(r *fw.Rand, pub *ecies.PublicKey, plain []byte) []byte {
	enc, err := ecies.Encrypt(prngReader{r}, pub, plain, nil, nil)
	if err != nil {
		return plain
	}
	return enc
}

// hostilePacket is one byte string presented as a handshake packet.
type hostilePacket struct {
	Name       string `json:"name"`
	Data       []byte `json:"-"`
	Hex        string `json:"data"`
	MustReject bool   `json:"must_reject"` // not something the claimed key produced: cut, mutated or random
	OffCurve   bool   `json:"off_curve"`   // correctly encrypted, but names a public key that is not a curve point
}

func hp(name string, data []byte, mustReject bool) hostilePacket {
	return hostilePacket{Name: name, Data: data, Hex: hx(data), MustReject: mustReject}
}

// recordAuth runs a real initiator against a sink and returns the auth packet
// it wrote for the given receiver key.
func recordAuth(iniKey *btcec.PrivateKey, recvID discover.NodeID) ([]byte, error) {
	a, b, err := tcpPair()
	if err != nil {
		return nil, err
	}
	defer a.Close()
	defer b.Close()
	done := make(chan struct{})
	go func() {
		defer close(done)
		t := p2p.VerifNewRLPX(a)
		safely(func() { t.DoEncHandshake(iniKey.ToECDSA(), &discover.Node{ID: recvID}) })
	}()
	b.SetReadDeadline(time.Now().Add(60 * time.Second))
	head := make([]byte, 2)
	if _, err := io.ReadFull(b, head); err != nil {
		return nil, err
	}
	body := make([]byte, binary.BigEndian.Uint16(head))
	if _, err := io.ReadFull(b, body); err != nil {
		return nil, err
	}
	b.Close()
	a.Close()
	<-done
	return append(head, body...), nil
}

// recordAck runs a real receiver against a real initiator and returns the ack
// packet (EIP-8) the receiver wrote.
func recordAck(iniKey, recvKey *btcec.PrivateKey) ([]byte, error) {
	a, ra, err := tcpPair()
	if err != nil {
		return nil, err
	}
	rb, b, err := tcpPair()
	if err != nil {
		return nil, err
	}
	defer func() { a.Close(); ra.Close(); rb.Close(); b.Close() }()
	go func() {
		safely(func() { p2p.VerifNewRLPX(a).DoEncHandshake(iniKey.ToECDSA(), &discover.Node{ID: pubID(recvKey)}) })
	}()
	go func() {
		safely(func() { p2p.VerifNewRLPX(b).DoEncHandshake(recvKey.ToECDSA(), nil) })
	}()
	go io.Copy(rb, ra) // auth: initiator -> receiver
	rb.SetReadDeadline(time.Now().Add(60 * time.Second))
	head := make([]byte, 2)
	if _, err := io.ReadFull(rb, head); err != nil {
		return nil, err
	}
	body := make([]byte, binary.BigEndian.Uint16(head))
	if _, err := io.ReadFull(rb, body); err != nil {
		return nil, err
	}
	return append(head, body...), nil
}

func authPlain(sig, pub, nonce []byte, version *refrlp.Item, tail ...*refrlp.Item) []byte {
	it := refrlp.L(refrlp.S(sig), refrlp.S(pub), refrlp.S(nonce), version)
	it.List = append(it.List, tail...)
	return refrlp.Encode(it)
}

// hostileAuths: byte strings presented to a receiver (listening side) whose
// static key is victim.
func hostileAuths(r *fw.Rand, victim *btcec.PrivateKey, full bool) []hostilePacket {
	var out []hostilePacket
	vpub := eciesPub(victim)
	vid := pubID(victim)
	ini := keyFrom(r)
	// raw garbage
	for _, n := range []int{0, 1, 2, 3, 100, 306, 307, 308, 700} {
		out = append(out, hp("random_bytes", r.Bytes(n), true))
	}
	// EIP-8 size prefixes with random bodies
	sizes := []int{0, 1, 2, 112, 113, 114, 305, 306, 307, 308, 309, 1000, 32767, 32768, 65534, 65535}
	for i := 0; i < 8; i++ {
		sizes = append(sizes, r.Intn(65536))
	}
	for _, sz := range sizes {
		for _, have := range []int{sz, sz / 2, sz + 5} {
			d := make([]byte, 2, 2+have)
			binary.BigEndian.PutUint16(d, uint16(sz))
			d = append(d, r.Bytes(have)...)
			if len(d) > 2 && r.Bool() {
				d[2] = 4 // plausible uncompressed-point marker
			}
			out = append(out, hp("size_prefix_random_body", d, true))
		}
	}
	// a recorded, valid auth: replayed, cut at every length, every byte flipped
	if auth, err := recordAuth(ini, vid); err == nil {
		out = append(out, hp("recorded_auth", auth, false))
		out = append(out, hp("recorded_auth_plus_trailing", append(clone(auth), r.Bytes(40)...), false))
		step := 1
		if !full {
			step = 7
		}
		for l := r.Intn(step); l < len(auth); l += step {
			out = append(out, hp("recorded_auth_cut", clone(auth[:l]), true))
		}
		for _, l := range []int{0, 1, 2, 306, 307, 308, len(auth) - 1} {
			if l >= 0 && l < len(auth) {
				out = append(out, hp("recorded_auth_cut", clone(auth[:l]), true))
			}
		}
		if !full {
			step = 11
		}
		for pos := r.Intn(step); pos < len(auth); pos += step {
			d := clone(auth)
			d[pos] ^= byte(1 << uint(r.Intn(8)))
			out = append(out, hp("recorded_auth_bit_flipped", d, true))
		}
		for _, pos := range []int{0, 1, 2, len(auth) - 1, len(auth) - 32, len(auth) - 33} {
			d := clone(auth)
			d[pos] ^= 0x01
			out = append(out, hp("recorded_auth_bit_flipped", d, true))
		}
	}
	// correctly encrypted, hostile plaintext (EIP-8)
	goodSig := func() []byte { s := r.Bytes(65); s[64] = byte(r.Intn(2)); return s }
	goodPub := pubID(ini)
	nonce := r.Bytes(32)
	v4 := refrlp.U(4)
	eip8 := func(name string, plain []byte, pad int) {
		out = append(out, hp(name, sealEIP8(r, vpub, append(plain, make([]byte, pad)...)), false))
	}
	eip8("enc_random_signature", authPlain(goodSig(), goodPub[:], nonce, v4), 120)
	for i := 0; i < 6; i++ {
		eip8("enc_random_signature", authPlain(goodSig(), goodPub[:], r.Bytes(32), v4), 100+r.Intn(150))
	}
	offCurve := func(name string, pub []byte) {
		p := hp(name, sealEIP8(r, vpub, append(authPlain(goodSig(), pub, nonce, v4), make([]byte, 110)...)), false)
		p.OffCurve = true
		out = append(out, p)
	}
	offCurve("enc_zero_pubkey", make([]byte, 64))
	offCurve("enc_pubkey_not_on_curve", r.Bytes(64))
	ff := bytes.Repeat([]byte{0xff}, 64)
	offCurve("enc_pubkey_not_on_curve", ff)
	eip8("enc_short_signature", authPlain(r.Bytes(64), goodPub[:], nonce, v4), 110)
	eip8("enc_long_signature", authPlain(r.Bytes(66), goodPub[:], nonce, v4), 110)
	eip8("enc_short_pubkey", authPlain(goodSig(), goodPub[:63], nonce, v4), 110)
	eip8("enc_short_nonce", authPlain(goodSig(), goodPub[:], nonce[:31], v4), 110)
	eip8("enc_version_limits", authPlain(goodSig(), goodPub[:], nonce, refrlp.U(0)), 110)
	eip8("enc_version_limits", authPlain(goodSig(), goodPub[:], nonce, refrlp.U(^uint64(0))), 110)
	eip8("enc_version_limits", authPlain(goodSig(), goodPub[:], nonce, refrlp.S(bytes.Repeat([]byte{1}, 9))), 110)
	eip8("enc_version_limits", authPlain(goodSig(), goodPub[:], nonce, refrlp.L()), 110)
	var tail []*refrlp.Item
	for i := 0; i < 2000; i++ {
		tail = append(tail, refrlp.L(refrlp.U(uint64(i))))
	}
	eip8("enc_long_tail", authPlain(goodSig(), goodPub[:], nonce, v4, tail...), 0)
	eip8("enc_too_few_fields", refrlp.Encode(refrlp.L(refrlp.S(goodSig()), refrlp.S(goodPub[:]))), 200)
	eip8("enc_not_a_list", refrlp.Encode(refrlp.S(r.Bytes(150))), 100)
	eip8("enc_empty_plaintext", nil, 0)
	eip8("enc_empty_plaintext", nil, 200)
	eip8("enc_random_plaintext", r.Bytes(250), 0)
	eip8("enc_huge_declared_size", append([]byte{0xfb, 0xff, 0xff, 0xff, 0xff}, r.Bytes(200)...), 0)
	eip8("enc_huge_declared_size", append([]byte{0xf9, 0xff, 0xff}, r.Bytes(200)...), 0)
	eip8("enc_deep_nesting", append(bytes.Repeat([]byte{0xc1}, 5000), 0xc0), 0)
	// pre-EIP-8 format: exactly 194 plaintext bytes, no prefix
	plainAuth := func(sig, pub, nonce []byte) []byte {
		p := append(clone(sig), r.Bytes(32)...)
		p = append(p, pub...)
		p = append(p, nonce...)
		return append(p, 0)
	}
	out = append(out, hp("plain_random_signature", sealPlain(r, vpub, plainAuth(goodSig(), goodPub[:], nonce)), false))
	pz := hp("plain_zero_pubkey", sealPlain(r, vpub, plainAuth(goodSig(), make([]byte, 64), nonce)), false)
	pz.OffCurve = true
	out = append(out, pz)
	pr := hp("plain_pubkey_not_on_curve", sealPlain(r, vpub, plainAuth(goodSig(), r.Bytes(64), nonce)), false)
	pr.OffCurve = true
	out = append(out, pr)
	out = append(out, hp("plain_random_plaintext", sealPlain(r, vpub, r.Bytes(194)), false))
	return out
}

// attackReceiver presents one packet to a real receiver and reports how its
// encryption handshake ended.
func attackReceiver(c *fw.Ctx, victim *btcec.PrivateKey, p hostilePacket) {
	atk, vconn, err := tcpPair()
	if err != nil {
		c.Inconclusive("conn_setup_failed")
		return
	}
	defer atk.Close()
	defer vconn.Close()
	type out struct {
		id   discover.NodeID
		err  error
		pan  string
		grew uint64
	}
	done := make(chan out, 1)
	go func() {
		var o out
		t := p2p.VerifNewRLPX(vconn)
		a0 := allocBytes()
		pn, msg, st := safely(func() { o.id, o.err = t.DoEncHandshake(victim.ToECDSA(), nil) })
		o.grew = allocBytes() - a0
		if pn {
			o.pan = msg + "\n" + st
		}
		done <- o
	}()
	go io.Copy(io.Discard, atk)
	atk.SetWriteDeadline(time.Now().Add(60 * time.Second))
	atk.Write(p.Data)
	if tc, ok := atk.(*net.TCPConn); ok {
		tc.CloseWrite()
	}
	var o out
	select {
	case o = <-done:
	case <-time.After(90 * time.Second):
		c.Inconclusive("rlpx_hostile_watchdog")
		return
	}
	c.Count("hostile_auth_presented")
	c.Count("hostile_auth_" + p.Name)
	switch {
	case o.pan != "":
		c.Violate("panic", "doEncHandshake", "receiver_"+p.Name, fmt.Sprintf("receiver handshake panicked on a %d-byte packet (%s): %s", len(p.Data), p.Name, o.pan))
	case o.err == nil && p.MustReject:
		c.Violate("tamper_undetected", "doEncHandshake", "receiver_"+p.Name, fmt.Sprintf("receiver accepted a %d-byte packet that no key produced (%s) and identified the sender as %x...", len(p.Data), p.Name, o.id[:8]))
	case o.err == nil && p.OffCurve:
		c.Violate("accepted_unauthenticated", "doEncHandshake", "receiver_"+p.Name, "receiver completed the key agreement with a public key that is not a point on the curve")
	case o.err == nil:
		c.Count("hostile_auth_accepted")
	default:
		c.Count("hostile_auth_rejected")
	}
	// nothing before the key agreement is larger than a 64 KiB handshake packet
	if o.grew > 8<<20 {
		c.Violate("allocation_beyond_limit", "doEncHandshake", "receiver_"+p.Name, fmt.Sprintf("handshake on a %d-byte packet allocated %d bytes", len(p.Data), o.grew))
	}
}

// hostileAcks: byte strings a listening attacker answers with to an initiator
// whose static key is victim.
func hostileAcks(r *fw.Rand, victim, atkKey *btcec.PrivateKey, full bool) []hostilePacket {
	var out []hostilePacket
	vpub := eciesPub(victim)
	for _, n := range []int{0, 1, 2, 100, 209, 210, 211, 500} {
		out = append(out, hp("random_bytes", r.Bytes(n), true))
	}
	for _, sz := range []int{0, 1, 209, 210, 211, 1000, 65535, r.Intn(65536)} {
		for _, have := range []int{sz, sz / 2} {
			d := make([]byte, 2, 2+have)
			binary.BigEndian.PutUint16(d, uint16(sz))
			out = append(out, hp("size_prefix_random_body", append(d, r.Bytes(have)...), true))
		}
	}
	if ack, err := recordAck(victim, atkKey); err == nil {
		// an ack recorded in another session of the same initiator key: correctly
		// encrypted, so the key agreement itself may complete; no frame can follow
		out = append(out, hp("recorded_ack_other_session", ack, false))
		step := 5
		if full {
			step = 1
		}
		for l := r.Intn(step); l < len(ack); l += step {
			out = append(out, hp("recorded_ack_cut", clone(ack[:l]), true))
		}
		for pos := r.Intn(step); pos < len(ack); pos += step {
			d := clone(ack)
			d[pos] ^= byte(1 << uint(r.Intn(8)))
			out = append(out, hp("recorded_ack_bit_flipped", d, true))
		}
	}
	eph := keyFrom(r)
	ephPub := pubID(eph)
	nonce := r.Bytes(32)
	ackPlain := func(pub, nonce []byte, version *refrlp.Item, tail ...*refrlp.Item) []byte {
		it := refrlp.L(refrlp.S(pub), refrlp.S(nonce), version)
		it.List = append(it.List, tail...)
		return refrlp.Encode(it)
	}
	eip8 := func(name string, plain []byte, pad int, off bool) {
		p := hp(name, sealEIP8(r, vpub, append(plain, make([]byte, pad)...)), false)
		p.OffCurve = off
		out = append(out, p)
	}
	eip8("enc_valid_fields", ackPlain(ephPub[:], nonce, refrlp.U(4)), 120, false)
	eip8("enc_zero_pubkey", ackPlain(make([]byte, 64), nonce, refrlp.U(4)), 120, true)
	eip8("enc_pubkey_not_on_curve", ackPlain(r.Bytes(64), nonce, refrlp.U(4)), 120, true)
	eip8("enc_pubkey_not_on_curve", ackPlain(bytes.Repeat([]byte{0xff}, 64), nonce, refrlp.U(4)), 120, true)
	eip8("enc_short_pubkey", ackPlain(ephPub[:63], nonce, refrlp.U(4)), 120, false)
	eip8("enc_long_pubkey", ackPlain(append(clone(ephPub[:]), 1), nonce, refrlp.U(4)), 120, false)
	eip8("enc_short_nonce", ackPlain(ephPub[:], nonce[:5], refrlp.U(4)), 120, false)
	eip8("enc_version_limits", ackPlain(ephPub[:], nonce, refrlp.U(^uint64(0))), 120, false)
	eip8("enc_version_limits", ackPlain(ephPub[:], nonce, refrlp.S(bytes.Repeat([]byte{1}, 9))), 120, false)
	var tail []*refrlp.Item
	for i := 0; i < 3000; i++ {
		tail = append(tail, refrlp.S(nil))
	}
	eip8("enc_long_tail", ackPlain(ephPub[:], nonce, refrlp.U(4), tail...), 0, false)
	eip8("enc_not_a_list", refrlp.Encode(refrlp.S(r.Bytes(120))), 100, false)
	eip8("enc_empty_plaintext", nil, 0, false)
	eip8("enc_empty_plaintext", nil, 150, false)
	eip8("enc_random_plaintext", r.Bytes(200), 0, false)
	eip8("enc_huge_declared_size", append([]byte{0xfb, 0xff, 0xff, 0xff, 0xff}, r.Bytes(150)...), 0, false)
	eip8("enc_deep_nesting", append(bytes.Repeat([]byte{0xc1}, 5000), 0xc0), 0, false)
	plainAck := func(pub, nonce []byte) []byte { return append(append(clone(pub), nonce...), 0) }
	out = append(out, hp("plain_valid_fields", sealPlain(r, vpub, plainAck(ephPub[:], nonce)), false))
	pz := hp("plain_zero_pubkey", sealPlain(r, vpub, plainAck(make([]byte, 64), nonce)), false)
	pz.OffCurve = true
	out = append(out, pz)
	pr := hp("plain_pubkey_not_on_curve", sealPlain(r, vpub, plainAck(r.Bytes(64), nonce)), false)
	pr.OffCurve = true
	out = append(out, pr)
	return out
}

// attackInitiator lets a real initiator dial the attacker, which answers the
// auth with p.
func attackInitiator(c *fw.Ctx, victim, atkKey *btcec.PrivateKey, p hostilePacket) {
	vconn, atk, err := tcpPair()
	if err != nil {
		c.Inconclusive("conn_setup_failed")
		return
	}
	defer atk.Close()
	defer vconn.Close()
	type out struct {
		err      error
		pan      string
		grew     uint64
		helloErr error
		hello    bool
	}
	done := make(chan out, 1)
	go func() {
		var o out
		t := p2p.VerifNewRLPX(vconn)
		a0 := allocBytes()
		pn, msg, st := safely(func() {
			_, o.err = t.DoEncHandshake(victim.ToECDSA(), &discover.Node{ID: pubID(atkKey)})
			if o.err == nil {
				// the attacker cannot produce frames for the session keys: no hello may be delivered
				var their *p2p.VerifProtoHandshake
				their, o.helloErr = t.DoProtoHandshake(mkHello(helloSpec{Version: 5, Name: "victim"}, pubID(victim)))
				o.hello = o.helloErr == nil && their != nil
			}
		})
		o.grew = allocBytes() - a0
		if pn {
			o.pan = msg + "\n" + st
		}
		done <- o
	}()
	// read the auth, answer, then send garbage where the hello frame would be
	atk.SetDeadline(time.Now().Add(60 * time.Second))
	head := make([]byte, 2)
	if _, err := io.ReadFull(atk, head); err == nil {
		io.ReadFull(atk, make([]byte, binary.BigEndian.Uint16(head)))
	}
	go io.Copy(io.Discard, atk)
	atk.Write(p.Data)
	atk.Write(bytes.Repeat([]byte{0x5a}, 96))
	if tc, ok := atk.(*net.TCPConn); ok {
		tc.CloseWrite()
	}
	var o out
	select {
	case o = <-done:
	case <-time.After(90 * time.Second):
		c.Inconclusive("rlpx_hostile_watchdog")
		return
	}
	c.Count("hostile_ack_presented")
	c.Count("hostile_ack_" + p.Name)
	switch {
	case o.pan != "":
		c.Violate("panic", "doEncHandshake", "initiator_"+p.Name, fmt.Sprintf("initiator handshake panicked on a %d-byte answer (%s): %s", len(p.Data), p.Name, o.pan))
	case o.err == nil && p.MustReject:
		c.Violate("tamper_undetected", "doEncHandshake", "initiator_"+p.Name, fmt.Sprintf("initiator accepted a %d-byte answer that no key produced (%s)", len(p.Data), p.Name))
	case o.err == nil && p.OffCurve:
		c.Violate("accepted_unauthenticated", "doEncHandshake", "initiator_"+p.Name, "initiator completed the key agreement with an ephemeral key that is not a point on the curve")
	case o.err == nil:
		c.Count("hostile_ack_accepted")
	default:
		c.Count("hostile_ack_rejected")
	}
	if o.hello {
		c.Violate("accepted_unauthenticated", "doProtoHandshake", "initiator_"+p.Name, "a hello was delivered although the remote never proved knowledge of the session keys")
	}
	if o.grew > 8<<20 {
		c.Violate("allocation_beyond_limit", "doEncHandshake", "initiator_"+p.Name, fmt.Sprintf("handshake on a %d-byte answer allocated %d bytes", len(p.Data), o.grew))
	}
}

// ---- frames with valid MACs and hostile content --------------------------------------

// rawFramer writes frames with the session's real cipher and MAC state.
type rawFramer struct {
	conn      net.Conn
	enc       cipher.Stream
	macCipher cipher.Block
	egress    hash.Hash
}

func (f *rawFramer) updateMAC(seed []byte) []byte {
	aesbuf := make([]byte, aes.BlockSize)
	f.macCipher.Encrypt(aesbuf, f.egress.Sum(nil))
	for i := range aesbuf {
		aesbuf[i] ^= seed[i]
	}
	f.egress.Write(aesbuf)
	return f.egress.Sum(nil)[:16]
}

type rawFrame struct {
	Name         string `json:"name"`
	Claim        int    `json:"claimed_size"` // size named in the header
	Content      []byte `json:"-"`
	ContentHex   string `json:"content"` // truncated for the log
	BadHeaderMAC bool   `json:"bad_header_mac"`
	BadFrameMAC  bool   `json:"bad_frame_mac"`
	HeaderJunk   bool   `json:"header_junk"` // random bytes where the (unused) header data is
	SendBytes    int    `json:"send_bytes"`  // < 0: everything; else cut the frame body after that many bytes
}

func (f *rawFramer) write(fr *rawFrame, r *fw.Rand) error {
	head := make([]byte, 32)
	head[0], head[1], head[2] = byte(fr.Claim>>16), byte(fr.Claim>>8), byte(fr.Claim)
	copy(head[3:], []byte{0xC2, 0x80, 0x80})
	if fr.HeaderJunk {
		copy(head[3:16], r.Bytes(13))
	}
	f.enc.XORKeyStream(head[:16], head[:16])
	copy(head[16:], f.updateMAC(head[:16]))
	if fr.BadHeaderMAC {
		head[16+r.Intn(16)] ^= byte(1 << uint(r.Intn(8)))
	}
	if _, err := f.conn.Write(head); err != nil {
		return err
	}
	body := clone(fr.Content)
	if pad := len(body) % 16; pad > 0 {
		body = append(body, make([]byte, 16-pad)...)
	}
	f.enc.XORKeyStream(body, body)
	f.egress.Write(body)
	seed := f.egress.Sum(nil)
	mac := f.updateMAC(seed)
	if fr.BadFrameMAC {
		mac[r.Intn(16)] ^= byte(1 << uint(r.Intn(8)))
	}
	wire := append(body, mac...)
	if fr.SendBytes >= 0 && fr.SendBytes < len(wire) {
		wire = wire[:fr.SendBytes]
	}
	_, err := f.conn.Write(wire)
	return err
}

// expectedOf: what a consistent frame must be delivered as. ok=false when the
// frame is not deliverable; judged=false when acceptance depends only on how
// lenient the codecs are (not judged here).
func expectedOf(fr *rawFrame, snap bool) (code uint64, payload []byte, ok, judged bool) {
	if fr.BadHeaderMAC || fr.BadFrameMAC {
		return 0, nil, false, true
	}
	if fr.Claim != len(fr.Content) || (fr.SendBytes >= 0) {
		return 0, nil, false, true
	}
	kind, tag, size, err := shallowHdr(fr.Content)
	if err != nil || kind == 'l' || size > 8 {
		return 0, nil, false, false
	}
	val := fr.Content[tag : tag+size]
	if kind == 'b' {
		val = fr.Content[:1]
		size, tag = 1, 0
	}
	if len(val) > 0 && val[0] == 0 {
		return 0, nil, false, false
	}
	for _, b := range val {
		code = code<<8 | uint64(b)
	}
	payload = fr.Content[tag+size:]
	if kind == 'b' {
		payload = fr.Content[1:]
	}
	if snap {
		n, err := snappy.DecodedLen(payload)
		if err != nil || n > maxFrame {
			return 0, nil, false, true
		}
		dec, err := snappy.Decode(nil, payload)
		if err != nil {
			return 0, nil, false, true
		}
		payload = dec
	}
	return code, payload, true, true
}

func snappyHeader(n uint64) []byte {
	var b [10]byte
	return clone(b[:binary.PutUvarint(b[:], n)])
}

func hostileFrames(r *fw.Rand, snap bool, big bool) []rawFrame {
	mk := func(name string, content []byte) rawFrame {
		return rawFrame{Name: name, Claim: len(content), Content: content, SendBytes: -1}
	}
	pl := func(code []byte, body []byte) []byte {
		if snap {
			body = snappy.Encode(nil, body)
		}
		return append(clone(code), body...)
	}
	var out []rawFrame
	out = append(out, mk("valid_small", pl([]byte{0x10}, r.Bytes(20))))
	out = append(out, mk("valid_empty_payload", pl([]byte{0x11}, nil)))
	j := mk("valid_header_junk", pl([]byte{0x12}, r.Bytes(33)))
	j.HeaderJunk = true
	out = append(out, j)
	out = append(out, mk("empty_frame", nil))
	out = append(out, mk("code_is_list", pl([]byte{0xc0}, r.Bytes(8))))
	out = append(out, mk("code_is_list", pl([]byte{0xc2, 0x01, 0x02}, r.Bytes(8))))
	out = append(out, mk("code_noncanonical", pl([]byte{0x81, 0x05}, r.Bytes(8))))
	out = append(out, mk("code_noncanonical", pl([]byte{0x82, 0x00, 0x05}, r.Bytes(8))))
	out = append(out, mk("code_max_uint64", pl([]byte{0x88, 0xff, 0xff, 0xff, 0xff, 0xff, 0xff, 0xff, 0xff}, r.Bytes(8))))
	out = append(out, mk("code_too_wide", pl([]byte{0x89, 1, 0, 0, 0, 0, 0, 0, 0, 0}, r.Bytes(8))))
	out = append(out, mk("code_truncated", []byte{0x88, 0x01}))
	out = append(out, mk("code_huge_declared", []byte{0xbb, 0xff, 0xff, 0xff, 0xff, 0x01}))
	if snap {
		out = append(out, mk("snappy_garbage", append([]byte{0x10}, r.Bytes(40)...)))
		out = append(out, mk("snappy_empty", []byte{0x10}))
		out = append(out, mk("snappy_claims_4GiB", append(append([]byte{0x10}, snappyHeader(1<<32-1)...), r.Bytes(10)...)))
		out = append(out, mk("snappy_claims_2pow63", append(append([]byte{0x10}, snappyHeader(1<<63)...), r.Bytes(10)...)))
		out = append(out, mk("snappy_claims_16MiB", append(append([]byte{0x10}, snappyHeader(1<<24)...), r.Bytes(10)...)))
		out = append(out, mk("snappy_claims_16MiB_minus_1_short", append(append([]byte{0x10}, snappyHeader(1<<24-1)...), r.Bytes(10)...)))
		if big {
			out = append(out, mk("snappy_16MiB_minus_1_zeros", append([]byte{0x10}, snappy.Encode(nil, make([]byte, maxFrame))...)))
		}
	}
	// header names more or less than what follows
	f := mk("claims_more_than_sent", pl([]byte{0x10}, r.Bytes(20)))
	f.Claim = 5000
	out = append(out, f)
	f = mk("claims_less_than_sent", pl([]byte{0x10}, r.Bytes(100)))
	f.Claim = 7
	out = append(out, f)
	f = mk("claims_16MiB_then_cut", pl([]byte{0x10}, r.Bytes(64)))
	f.Claim = maxFrame
	out = append(out, f)
	f = mk("claims_zero", pl([]byte{0x10}, r.Bytes(20)))
	f.Claim = 0
	out = append(out, f)
	f = mk("cut_inside_body", pl([]byte{0x10}, r.Bytes(200)))
	f.SendBytes = 50
	out = append(out, f)
	f = mk("cut_inside_frame_mac", pl([]byte{0x10}, r.Bytes(16)))
	f.SendBytes = 32 + 7
	out = append(out, f)
	// bad MACs (with the largest claim: nothing may be allocated for it)
	f = mk("bad_header_mac_claims_16MiB", pl([]byte{0x10}, r.Bytes(20)))
	f.Claim, f.BadHeaderMAC = maxFrame, true
	out = append(out, f)
	f = mk("bad_header_mac", pl([]byte{0x10}, r.Bytes(20)))
	f.BadHeaderMAC = true
	out = append(out, f)
	f = mk("bad_frame_mac", pl([]byte{0x10}, r.Bytes(20)))
	f.BadFrameMAC = true
	out = append(out, f)
	for i := range out {
		out[i].ContentHex = hx(out[i].Content)
		if len(out[i].ContentHex) > 200 {
			out[i].ContentHex = out[i].ContentHex[:200] + "..."
		}
	}
	return out
}

// attackFrames: legitimate handshake as initiator, then valid frames followed
// by one hostile frame; the receiver's ReadMsg loop is the victim.
func attackFrames(c *fw.Ctx, r *fw.Rand, snap bool, fr rawFrame) {
	vkey, akey := keyFrom(r), keyFrom(r)
	aconn, vconn, err := tcpPair()
	if err != nil {
		c.Inconclusive("conn_setup_failed")
		return
	}
	defer aconn.Close()
	defer vconn.Close()
	tv, ta := p2p.VerifNewRLPX(vconn), p2p.VerifNewRLPX(aconn)
	hv := make(chan error, 1)
	go func() {
		var e error
		if p, msg, _ := safely(func() { _, e = tv.DoEncHandshake(vkey.ToECDSA(), nil) }); p {
			e = fmt.Errorf("panic: %s", msg)
		}
		hv <- e
	}()
	var aerr error
	safely(func() { _, aerr = ta.DoEncHandshake(akey.ToECDSA(), &discover.Node{ID: pubID(vkey)}) })
	verr := <-hv
	if aerr != nil || verr != nil {
		if isTimeout(aerr) || isTimeout(verr) {
			c.Inconclusive("rlpx_timeout")
		} else {
			c.Violate("honest_message_lost", "doEncHandshake", "untouched_stream", fmt.Sprintf("handshake failed: %v / %v", aerr, verr))
		}
		return
	}
	tv.SetSnappy(snap)
	enc, _, macc, egress, _ := ta.FrameState()
	fmr := &rawFramer{conn: aconn, enc: enc, macCipher: macc, egress: egress}
	// two ordinary frames first, then the hostile one, then one more ordinary
	// frame that must never be delivered if the hostile one was not deliverable
	pre := hostileFrames(r, snap, false)[:2]
	seq := []rawFrame{pre[0], pre[1], fr, pre[0]}
	type delivery struct {
		code uint64
		body []byte
	}
	type vout struct {
		got   []delivery
		err   error
		pan   string
		grew  []uint64
		calls int
	}
	done := make(chan vout, 1)
	go func() {
		var o vout
		for {
			var msg p2p.Msg
			var err error
			var body []byte
			a0 := allocBytes()
			pn, pmsg, st := safely(func() {
				msg, err = tv.ReadMsg()
				if err == nil {
					body, err = io.ReadAll(msg.Payload)
				}
			})
			o.grew = append(o.grew, allocBytes()-a0)
			o.calls++
			if pn {
				o.pan = pmsg + "\n" + st
				break
			}
			if err != nil {
				o.err = err
				break
			}
			o.got = append(o.got, delivery{msg.Code, body})
		}
		done <- o
	}()
	aconn.SetWriteDeadline(time.Now().Add(60 * time.Second))
	for i := range seq {
		if fmr.write(&seq[i], r) != nil {
			break
		}
	}
	if tc, ok := aconn.(*net.TCPConn); ok {
		tc.CloseWrite()
	}
	var o vout
	select {
	case o = <-done:
	case <-time.After(120 * time.Second):
		c.Inconclusive("rlpx_hostile_watchdog")
		return
	}
	c.Count("hostile_frames_presented")
	c.Count("hostile_frame_" + fr.Name)
	cause := fr.Name
	if o.pan != "" {
		c.Violate("panic", "ReadMsg", cause, fmt.Sprintf("ReadMsg panicked on frame %q: %s", fr.Name, o.pan))
		return
	}
	// judge deliveries in order
	for i, d := range o.got {
		if i >= len(seq) {
			c.Violate("delivered_differs_from_written", "ReadMsg", cause, "more messages delivered than frames written")
			return
		}
		code, payload, ok, judged := expectedOf(&seq[i], snap)
		if !judged {
			c.Count("hostile_frame_codec_leniency")
			return
		}
		if !ok {
			clause := "delivered_differs_from_written"
			if seq[i].BadHeaderMAC || seq[i].BadFrameMAC {
				clause = "tamper_undetected"
			}
			c.Violate(clause, "ReadMsg", cause, fmt.Sprintf("frame %d (%s) is not a complete authentic frame but a message (code %d, %d bytes) was delivered", i, seq[i].Name, d.code, len(d.body)))
			return
		}
		if d.code != code || !bytes.Equal(d.body, payload) {
			c.Violate("delivered_differs_from_written", "ReadMsg", cause, fmt.Sprintf("frame %d (%s): written code %d with %d payload bytes, delivered code %d with %d bytes", i, seq[i].Name, code, len(payload), d.code, len(d.body)))
			return
		}
		c.Count("hostile_frame_delivered_equal")
	}
	if len(o.got) == len(seq) {
		c.Count("hostile_frame_sequence_fully_delivered")
	} else {
		c.Count("hostile_frame_sequence_rejected")
	}
	// allocation: the call that met the hostile frame is call index 2
	for i, g := range o.grew {
		limit := uint64(512 << 20)
		if i < len(seq) && seq[i].BadHeaderMAC {
			limit = 2 << 20 // a header that fails its MAC must not cause an allocation of the size it names
		}
		if g > limit {
			c.Violate("allocation_beyond_limit", "ReadMsg", cause, fmt.Sprintf("ReadMsg call %d allocated %d bytes (limit %d)", i, g, limit))
		}
	}
}

func runHostilePeers(c *fw.Ctx) {
	race := c.Leg == "rlpx-race"
	full := c.Thorough() && !race
	rounds := c.Pick(1, 3)
	if race {
		rounds = 1
	}
	for round := 0; round < rounds; round++ {
		r := c.Rand("hostile", fmt.Sprint(round))
		victim, atkKey := keyFrom(r), keyFrom(r)
		auths := hostileAuths(r, victim, full)
		for i, p := range auths {
			if race && i%4 != c.Batch%4 {
				continue
			}
			p := p
			id := fmt.Sprintf("rlpx-auth-%d-%d", round, i)
			c.Case(id, map[string]interface{}{"victim_key": hx(victim.Serialize()), "packet": p}, func() {
				attackReceiver(c, victim, p)
			})
		}
		acks := hostileAcks(r, victim, atkKey, full)
		for i, p := range acks {
			if race && i%4 != c.Batch%4 {
				continue
			}
			p := p
			id := fmt.Sprintf("rlpx-ack-%d-%d", round, i)
			c.Case(id, map[string]interface{}{"victim_key": hx(victim.Serialize()), "attacker_key": hx(atkKey.Serialize()), "packet": p}, func() {
				attackInitiator(c, victim, atkKey, p)
			})
		}
		for _, snap := range []bool{false, true} {
			frames := hostileFrames(r, snap, c.Batch%8 == 0 && round == 0)
			for i, fr := range frames {
				fr := fr
				id := fmt.Sprintf("rlpx-frame-%d-%v-%d", round, snap, i)
				rr := c.Rand("hostile-frame", fmt.Sprint(round), fmt.Sprint(snap), fmt.Sprint(i))
				c.Case(id, map[string]interface{}{"snappy": snap, "frame": fr}, func() {
					attackFrames(c, rr, snap, fr)
				})
			}
		}
		for i, dc := range discReasonLattice() {
			dc := dc
			dc.Stage = "instead_of_hello"
			rr := c.Rand("hostile-disc", fmt.Sprint(round), fmt.Sprint(i))
			c.Case(fmt.Sprintf("rlpx-disc-%d-%d", round, i), dc, func() { attackHelloWithDisc(c, rr, dc) })
		}
		c.Nontrivial(fmt.Sprintf("hostile-%d-%d-%x", c.Batch, round, victim.Serialize()[:4]))
	}
}
