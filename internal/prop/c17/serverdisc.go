package c17

// devp2p disconnect messages (code 0x01) with every kind of reason, sent by an
// established peer (and, before the hello, in place of it) to a real p2p.Server
// that runs in a process of its own.

import (
	"bufio"
	"bytes"
	"fmt"
	"os"
	"os/exec"
	"strconv"
	"strings"
	"time"
	"unicode/utf8"

	"gitlab.com/aquachain/aquachain/p2p"
	"gitlab.com/aquachain/aquachain/p2p/discover"
	"verif/internal/fw"
	"verif/internal/ref/refrlp"
)

// discTable: reasons 0..discTable-1 have a slot in the node's reason table.
const discTable = 17

type discCase struct {
	Name    string `json:"name"`
	Reason  string `json:"reason,omitempty"`
	Payload string `json:"payload"`
	Class   string `json:"class"` // disc_reason_in_table | disc_reason_out_of_table | disc_odd_payload
	Stage   string `json:"stage"` // established | instead_of_hello
	payload []byte
}

func discReasonLattice() []discCase {
	var out []discCase
	reasons := []uint64{}
	for r := uint64(0); r <= 18; r++ {
		reasons = append(reasons, r)
	}
	reasons = append(reasons, 255, 256, 1<<31, 1<<63-1, 1<<63, 1<<64-1)
	for _, r := range reasons {
		class := "disc_reason_in_table"
		if r >= discTable {
			class = "disc_reason_out_of_table"
		}
		p := refrlp.Encode(refrlp.L(refrlp.U(r)))
		out = append(out, discCase{Name: "disc_reason_lattice", Reason: strconv.FormatUint(r, 10), Class: class, payload: p})
	}
	odd := map[string][]byte{
		"empty_list":        {0xc0},
		"two_elements":      refrlp.Encode(refrlp.L(refrlp.U(3), refrlp.U(17))),
		"string_for_list":   refrlp.Encode(refrlp.S([]byte{17})),
		"bare_byte":         {0x11},
		"nested_list":       refrlp.Encode(refrlp.L(refrlp.L(refrlp.U(17)))),
		"noncanonical_int":  {0xc2, 0x81, 0x11},
		"nine_byte_int":     refrlp.Encode(refrlp.L(refrlp.S([]byte{1, 0, 0, 0, 0, 0, 0, 0, 0}))),
		"leading_zero_int":  {0xc3, 0x82, 0x00, 0x11},
		"empty_payload":     {},
		"truncated_list":    {0xc5, 0x11},
		"long_string_first": refrlp.Encode(refrlp.L(refrlp.S(bytes.Repeat([]byte{0xff}, 40)))),
	}
	for _, k := range []string{"empty_list", "two_elements", "string_for_list", "bare_byte", "nested_list", "noncanonical_int", "nine_byte_int", "leading_zero_int", "empty_payload", "truncated_list", "long_string_first"} {
		out = append(out, discCase{Name: "disc_odd_payload_" + k, Class: "disc_odd_payload", payload: odd[k]})
	}
	for i := range out {
		out[i].Payload = hx(out[i].payload)
	}
	return out
}

// ---- the server in its own process -----------------------------------------------------

func serverVictimMain() {
	silenceLogs()
	seed, _ := strconv.ParseUint(os.Getenv("VERIF_C17_VSEED"), 10, 64)
	e, err := newSrvEnv(fw.NewRand(seed, "victim-server"))
	if err != nil {
		fmt.Println("ERROR", err)
		os.Exit(3)
	}
	p := e.probeMsg()
	fmt.Printf("READY %s %x %x %x %x\n", e.addr, e.id[:], e.statusPayload(), p.payload, p.reply)
	bufio.NewReader(os.Stdin).ReadString(0)
	os.Exit(0)
}

type serverVictim struct {
	cmd    *exec.Cmd
	stdin  interface{ Close() error }
	stderr *bytes.Buffer
	exited chan error
	env    *srvEnv
}

func spawnServerVictim(c *fw.Ctx, seed uint64) *serverVictim {
	exe, err := os.Executable()
	if err != nil {
		return nil
	}
	cmd := exec.Command(exe)
	cmd.Env = append(os.Environ(), victimEnv+"=server", fmt.Sprintf("VERIF_C17_VSEED=%d", seed))
	stdin, _ := cmd.StdinPipe()
	stdout, _ := cmd.StdoutPipe()
	v := &serverVictim{cmd: cmd, stdin: stdin, stderr: &bytes.Buffer{}, exited: make(chan error, 1)}
	cmd.Stderr = v.stderr
	if err := cmd.Start(); err != nil {
		return nil
	}
	ready := make(chan string, 1)
	go func() {
		line, _ := bufio.NewReaderSize(stdout, 1<<20).ReadString('\n')
		ready <- line
		v.exited <- cmd.Wait()
	}()
	var line string
	select {
	case line = <-ready:
	case <-time.After(5 * time.Minute):
		cmd.Process.Kill()
		return nil
	}
	var addr, idhex, st, pp, pr string
	if _, err := fmt.Sscanf(line, "READY %s %s %s %s %s", &addr, &idhex, &st, &pp, &pr); err != nil {
		cmd.Process.Kill()
		return nil
	}
	env := &srvEnv{addr: addr}
	copy(env.id[:], unhx(idhex))
	status, probe, reply := unhx(st), unhx(pp), unhx(pr)
	env.statusPayload = func() []byte { return status }
	env.probeMsg = func() amsg {
		m := mk(aquaGetHeaders, "probe", "accept", probe)
		m.reply = reply
		return m
	}
	v.env = env
	return v
}

func (v *serverVictim) stop() {
	v.stdin.Close()
	select {
	case <-v.exited:
	case <-time.After(20 * time.Second):
		v.cmd.Process.Kill()
	}
}

// died reports (without blocking longer than d) whether the process has ended.
func (v *serverVictim) died(d time.Duration) (bool, error) {
	select {
	case err := <-v.exited:
		v.exited <- err
		return true, err
	case <-time.After(d):
		return false, nil
	}
}

// sepItem is one attack on the separate server.
type sepItem struct {
	id     string
	input  interface{}
	note   string
	cause  string // stable class for a death signature
	what   string // prose for the violation text
	attack func(e *srvEnv, r *fw.Rand) (inconclusive bool)
	counts []string
}

// runOnSeparateServer: for each item, the server (a process of its own,
// respawned after a death) must serve a peer before the attack, be alive after
// it, and admit and serve a fresh peer.
func runOnSeparateServer(c *fw.Ctx, label string, items []sepItem) {
	r := c.Rand(label)
	seed := r.Uint64()
	var v *serverVictim
	respawns := 0
	ensure := func() bool {
		if v != nil {
			return true
		}
		if respawns > 40 {
			return false
		}
		respawns++
		v = spawnServerVictim(c, seed)
		if v == nil {
			c.Inconclusive("server_victim_not_ready")
			return false
		}
		c.Count(label + "_victim_started")
		return true
	}
	defer func() {
		if v != nil {
			v.stop()
		}
	}()
	drop := func() {
		v.stop()
		v = nil
	}
	for _, it := range items {
		it := it
		c.Case(it.id, it.input, func() {
			if !ensure() {
				return
			}
			e := v.env
			w0, stage := e.fullPeer(c, r, 5)
			if stage != "" {
				c.Note("separate server not serving before the attack: %s", stage)
				c.Inconclusive("server_victim_not_serving")
				drop()
				return
			}
			ok0, _ := e.wireAlive(w0, false)
			w0.conn.Close()
			if !ok0 {
				c.Inconclusive("server_victim_not_serving")
				drop()
				return
			}
			c.Note("%s -> separate server %s", it.note, e.addr)
			if it.attack(e, r) {
				c.Inconclusive("server_victim_not_serving")
				return
			}
			for _, k := range it.counts {
				c.Count(k)
			}
			death := func(werr error) {
				c.Count(label + "_server_died")
				c.Violate("process_died", "Server", it.cause,
					fmt.Sprintf("%s ended the process running p2p.Server (%v):\n%s", it.what, werr, truncateStr(v.stderr.String(), 3500)))
				v = nil
			}
			if dead, werr := v.died(300 * time.Millisecond); dead {
				death(werr)
				return
			}
			w1, stage := e.fullPeer(c, r, 5)
			alive := false
			if stage == "" {
				alive, _ = e.wireAlive(w1, false)
				w1.conn.Close()
			}
			if alive {
				c.Count(label + "_server_survived")
				return
			}
			if dead, werr := v.died(20 * time.Second); dead {
				death(werr)
				return
			}
			c.Note("separate server alive but not serving after the attack: %s", stage)
			c.Inconclusive("server_victim_silent_after_attack")
			drop()
		})
	}
}

func runDiscReasonLattice(c *fw.Ctx) {
	var items []sepItem
	i := 0
	for _, stage := range []string{"established", "instead_of_hello"} {
		for _, dc := range discReasonLattice() {
			dc := dc
			dc.Stage = stage
			hv := uint64(4 + i%2)
			items = append(items, sepItem{
				id: fmt.Sprintf("server-disc-%d", i), input: dc, cause: dc.Class,
				note:   fmt.Sprintf("discMsg payload %s (%s, %s)", dc.Payload, dc.Name, dc.Stage),
				what:   fmt.Sprintf("a devp2p disconnect message (code 0x01, payload %s, %s, %s peer)", dc.Payload, dc.Name, dc.Stage),
				counts: []string{"disc_reason_lattice_sent", "disc_" + dc.Stage + "_" + dc.Class},
				attack: func(e *srvEnv, r *fw.Rand) bool {
					if dc.Stage == "established" {
						w, stage := e.fullPeer(c, r, hv)
						if stage != "" {
							return true
						}
						w.send(p2p.VerifDiscMsg, dc.payload)
						w.readUntil(func(uint64, []byte) bool { return false }, 50) // until the server ends the connection
						w.conn.Close()
						return false
					}
					w, stage := e.connect(r)
					if stage != "" {
						return true
					}
					w.send(p2p.VerifDiscMsg, dc.payload) // in place of the hello
					w.readUntil(func(uint64, []byte) bool { return false }, 5)
					w.conn.Close()
					return false
				},
			})
			i++
		}
	}
	runOnSeparateServer(c, "disc_reason", items)
}

// ---- acceptable hellos with hostile client names ----------------------------------------------

type helloName struct {
	Label string `json:"label"`
	Hex   string `json:"name_hex"`
	Bytes int    `json:"bytes"`
	Runes int    `json:"runes"`
	name  string
}

func mkName(label, name string) helloName {
	return helloName{Label: label, Hex: hx([]byte(name)), Bytes: len(name), Runes: utf8.RuneCountInString(name), name: name}
}

func isASCII(s string) bool {
	for i := 0; i < len(s); i++ {
		if s[i] >= 0x80 {
			return false
		}
	}
	return true
}

func helloNames(r *fw.Rand) []helloName {
	rep := strings.Repeat
	out := []helloName{
		mkName("ascii_100", rep("a", 100)),
		mkName("2byte_runes_82B", rep("\u0416", 41)+"/v1.2.3/linux-amd64/go1.24"),
		mkName("2byte_runes_82B_bare", rep("\u0416", 41)),
		mkName("3byte_runes_81B", rep("\u4e16", 27)),
		mkName("4byte_runes_84B", rep("\U0001d11e", 21)),
		mkName("ascii_80B", rep("b", 80)),
		mkName("ascii_81B", rep("b", 81)),
		mkName("boundary_81B", rep("c", 79)+"\u0416"),
		mkName("rune_split_at_80", rep("c", 79)+"\u4e16"),
		mkName("rune_split_at_80_4byte", rep("c", 78)+"\U0001d11e"+"tail"),
		mkName("invalid_utf8_120B", rep("\xff\xc0\x80\xfe", 30)),
		mkName("lone_continuation_bytes_90B", rep("\x80\xbf", 45)),
		mkName("long_word_then_space", rep("\u0416", 45)+" rest of the name"),
		mkName("space_first", " "+rep("\u4e16", 40)),
		mkName("empty", ""),
		mkName("multibyte_1900B", rep("\u4e16", 633)),
		mkName("multibyte_73_runes_over_80B", rep("\u0416", 73)),
		mkName("multibyte_80_runes", rep("\u0416", 80)),
		mkName("multibyte_81_runes", rep("\u0416", 81)),
	}
	elems := []string{"a", "Z", "/", "-", "\u0416", "\u00e9", "\u4e16", "\u20ac", "\U0001d11e", "\U0001f600", "\x80", "\xff", " "}
	for i := 0; i < 8; i++ {
		want := r.Range(60, 300)
		var b strings.Builder
		bias := r.Intn(3) // 0: mostly ASCII, 1: mostly multi-byte, 2: mixed
		for b.Len() < want {
			var e string
			switch {
			case bias == 0 && r.Chance(4, 5):
				e = elems[r.Intn(4)]
			case bias == 1 && r.Chance(4, 5):
				e = elems[4+r.Intn(6)]
			default:
				e = elems[r.Intn(len(elems))]
			}
			if e == " " && r.Chance(3, 4) {
				continue // spaces end the "first word": keep them rare
			}
			b.WriteString(e)
		}
		out = append(out, mkName("random_mixed_width", b.String()))
	}
	return out
}

func runHelloNames(c *fw.Ctx) {
	rounds := c.Pick(1, 4)
	var items []sepItem
	n := 0
	for round := 0; round < rounds; round++ {
		rn := c.Rand("hello-names", fmt.Sprint(round))
		for _, hn := range helloNames(rn) {
			hn := hn
			class := "hello_name_short"
			switch {
			case hn.Bytes > 80 && !isASCII(hn.name):
				class = "hello_name_multibyte_over_80_bytes"
			case hn.Bytes > 80:
				class = "hello_name_ascii_over_80_bytes"
			case !isASCII(hn.name):
				class = "hello_name_multibyte"
			}
			counts := []string{"server_hello_names_presented"}
			if hn.Bytes > 80 {
				counts = append(counts, "server_hello_name_over_80_bytes")
			}
			if !isASCII(hn.name) {
				counts = append(counts, "server_hello_name_multibyte")
			}
			if !utf8.ValidString(hn.name) {
				counts = append(counts, "server_hello_name_invalid_utf8")
			}
			items = append(items, sepItem{
				id: fmt.Sprintf("server-hello-name-%d", n), input: hn, cause: class,
				note:   fmt.Sprintf("hello with client name %s (%s, %d bytes, %d runes)", hn.Hex, hn.Label, hn.Bytes, hn.Runes),
				what:   fmt.Sprintf("an otherwise acceptable devp2p hello (version 5, capability aqua/64, own node id) whose client name is %q (%s: %d bytes, %d runes)", hn.name, hn.Label, hn.Bytes, hn.Runes),
				counts: counts,
				attack: func(e *srvEnv, r *fw.Rand) bool {
					w, stage := e.connect(r)
					if stage != "" {
						return true
					}
					defer w.conn.Close()
					_, err := w.hello(&p2p.VerifProtoHandshake{Version: 5, Name: hn.name, Caps: []p2p.Cap{{Name: "aqua", Version: 64}}, ID: pubID(w.key)})
					if err != nil {
						c.Count("server_hello_name_refused")
						return false
					}
					// admitted peers get the aqua status; refused ones a disconnect or the end of the stream
					if ok, _ := w.readUntil(func(code uint64, _ []byte) bool { return code == baseLen+aquaStatus }, 10); ok {
						c.Count("server_hello_name_admitted")
					} else {
						c.Count("server_hello_name_refused")
					}
					return false
				},
			})
			n++
		}
	}
	runOnSeparateServer(c, "hello_name", items)
}

// ---- in process: a disconnect in place of the hello ------------------------------------------

// attackHelloWithDisc: after the key agreement the remote sends a disconnect
// message instead of its hello; doProtoHandshake must return an error, and that
// error must be usable (the node formats it when it logs the failed set-up).
func attackHelloWithDisc(c *fw.Ctx, r *fw.Rand, dc discCase) {
	vkey, akey := keyFrom(r), keyFrom(r)
	aconn, vconn, err := tcpPair()
	if err != nil {
		c.Inconclusive("conn_setup_failed")
		return
	}
	defer aconn.Close()
	defer vconn.Close()
	tv, ta := p2p.VerifNewRLPX(vconn), p2p.VerifNewRLPX(aconn)
	hv := make(chan error, 1)
	go func() {
		var e error
		safely(func() { _, e = tv.DoEncHandshake(vkey.ToECDSA(), nil) })
		hv <- e
	}()
	var aerr error
	safely(func() { _, aerr = ta.DoEncHandshake(akey.ToECDSA(), &discover.Node{ID: pubID(vkey)}) })
	if verr := <-hv; aerr != nil || verr != nil {
		c.Inconclusive("rlpx_timeout")
		return
	}
	go func() {
		ta.WriteMsg(p2p.Msg{Code: p2p.VerifDiscMsg, Size: uint32(len(dc.payload)), Payload: bytes.NewReader(dc.payload)})
	}()
	var their *p2p.VerifProtoHandshake
	var herr error
	pn, pmsg, st := safely(func() { their, herr = tv.DoProtoHandshake(mkHello(helloSpec{Version: 5, Name: "victim"}, pubID(vkey))) })
	c.Count("disc_reason_prehello_presented")
	switch {
	case pn:
		c.Violate("panic", "doProtoHandshake", dc.Class, "doProtoHandshake panicked on a disconnect message: "+pmsg+"\n"+st)
	case herr == nil:
		c.Violate("delivered_differs_from_written", "doProtoHandshake", dc.Class, fmt.Sprintf("a disconnect message was delivered as hello %+v", their))
	default:
		if pn, pmsg, st := safely(func() { _ = herr.Error() }); pn {
			c.Violate("panic", "doProtoHandshake", dc.Class,
				fmt.Sprintf("the error returned for disconnect payload %s panics when it is formatted (%T): %s\n%s", dc.Payload, herr, pmsg, st))
		} else {
			c.Count("disc_reason_prehello_error_usable")
		}
	}
}
