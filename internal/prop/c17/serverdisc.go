package c17

// devp2p disconnect messages (code 0x01) with every kind of reason, sent by an
// established peer (and, before the hello, in place of it) to a real p2p.Server
// that runs in a process of its own.

import (
	"bufio"
	"bytes"
	"fmt"
	"os"
	"os/exec"
	"strconv"
	"time"

	"gitlab.com/aquachain/aquachain/p2p"
	"gitlab.com/aquachain/aquachain/p2p/discover"
	"verif/internal/fw"
	"verif/internal/ref/refrlp"
)

// discTable: reasons 0..discTable-1 have a slot in the node's reason table.
const discTable = 17

type discCase struct {
	Name    string `json:"name"`
	Reason  string `json:"reason,omitempty"`
	Payload string `json:"payload"`
	Class   string `json:"class"` // disc_reason_in_table | disc_reason_out_of_table | disc_odd_payload
	Stage   string `json:"stage"` // established | instead_of_hello
	payload []byte
}

func discReasonLattice() []discCase {
	var out []discCase
	reasons := []uint64{}
	for r := uint64(0); r <= 18; r++ {
		reasons = append(reasons, r)
	}
	reasons = append(reasons, 255, 256, 1<<31, 1<<63-1, 1<<63, 1<<64-1)
	for _, r := range reasons {
		class := "disc_reason_in_table"
		if r >= discTable {
			class = "disc_reason_out_of_table"
		}
		p := refrlp.Encode(refrlp.L(refrlp.U(r)))
		out = append(out, discCase{Name: "disc_reason_lattice", Reason: strconv.FormatUint(r, 10), Class: class, payload: p})
	}
	odd := map[string][]byte{
		"empty_list":        {0xc0},
		"two_elements":      refrlp.Encode(refrlp.L(refrlp.U(3), refrlp.U(17))),
		"string_for_list":   refrlp.Encode(refrlp.S([]byte{17})),
		"bare_byte":         {0x11},
		"nested_list":       refrlp.Encode(refrlp.L(refrlp.L(refrlp.U(17)))),
		"noncanonical_int":  {0xc2, 0x81, 0x11},
		"nine_byte_int":     refrlp.Encode(refrlp.L(refrlp.S([]byte{1, 0, 0, 0, 0, 0, 0, 0, 0}))),
		"leading_zero_int":  {0xc3, 0x82, 0x00, 0x11},
		"empty_payload":     {},
		"truncated_list":    {0xc5, 0x11},
		"long_string_first": refrlp.Encode(refrlp.L(refrlp.S(bytes.Repeat([]byte{0xff}, 40)))),
	}
	for _, k := range []string{"empty_list", "two_elements", "string_for_list", "bare_byte", "nested_list", "noncanonical_int", "nine_byte_int", "leading_zero_int", "empty_payload", "truncated_list", "long_string_first"} {
		out = append(out, discCase{Name: "disc_odd_payload_" + k, Class: "disc_odd_payload", payload: odd[k]})
	}
	for i := range out {
		out[i].Payload = hx(out[i].payload)
	}
	return out
}

// ---- the server in its own process -----------------------------------------------------

func serverVictimMain() {
	silenceLogs()
	seed, _ := strconv.ParseUint(os.Getenv("VERIF_C17_VSEED"), 10, 64)
	e, err := newSrvEnv(fw.NewRand(seed, "victim-server"))
	if err != nil {
		fmt.Println("ERROR", err)
		os.Exit(3)
	}
	p := e.probeMsg()
	fmt.Printf("READY %s %x %x %x %x\n", e.addr, e.id[:], e.statusPayload(), p.payload, p.reply)
	bufio.NewReader(os.Stdin).ReadString(0)
	os.Exit(0)
}

type serverVictim struct {
	cmd    *exec.Cmd
	stdin  interface{ Close() error }
	stderr *bytes.Buffer
	exited chan error
	env    *srvEnv
}

func spawnServerVictim(c *fw.Ctx, seed uint64) *serverVictim {
	exe, err := os.Executable()
	if err != nil {
		return nil
	}
	cmd := exec.Command(exe)
	cmd.Env = append(os.Environ(), victimEnv+"=server", fmt.Sprintf("VERIF_C17_VSEED=%d", seed))
	stdin, _ := cmd.StdinPipe()
	stdout, _ := cmd.StdoutPipe()
	v := &serverVictim{cmd: cmd, stdin: stdin, stderr: &bytes.Buffer{}, exited: make(chan error, 1)}
	cmd.Stderr = v.stderr
	if err := cmd.Start(); err != nil {
		return nil
	}
	ready := make(chan string, 1)
	go func() {
		line, _ := bufio.NewReaderSize(stdout, 1<<20).ReadString('\n')
		ready <- line
		v.exited <- cmd.Wait()
	}()
	var line string
	select {
	case line = <-ready:
	case <-time.After(5 * time.Minute):
		cmd.Process.Kill()
		return nil
	}
	var addr, idhex, st, pp, pr string
	if _, err := fmt.Sscanf(line, "READY %s %s %s %s %s", &addr, &idhex, &st, &pp, &pr); err != nil {
		cmd.Process.Kill()
		return nil
	}
	env := &srvEnv{addr: addr}
	copy(env.id[:], unhx(idhex))
	status, probe, reply := unhx(st), unhx(pp), unhx(pr)
	env.statusPayload = func() []byte { return status }
	env.probeMsg = func() amsg {
		m := mk(aquaGetHeaders, "probe", "accept", probe)
		m.reply = reply
		return m
	}
	v.env = env
	return v
}

func (v *serverVictim) stop() {
	v.stdin.Close()
	select {
	case <-v.exited:
	case <-time.After(20 * time.Second):
		v.cmd.Process.Kill()
	}
}

// died reports (without blocking longer than d) whether the process has ended.
func (v *serverVictim) died(d time.Duration) (bool, error) {
	select {
	case err := <-v.exited:
		v.exited <- err
		return true, err
	case <-time.After(d):
		return false, nil
	}
}

func runDiscReasonLattice(c *fw.Ctx) {
	r := c.Rand("disc-reason")
	seed := r.Uint64()
	var v *serverVictim
	respawns := 0
	ensure := func() bool {
		if v != nil {
			return true
		}
		if respawns > 12 {
			return false
		}
		respawns++
		v = spawnServerVictim(c, seed)
		if v == nil {
			c.Inconclusive("server_victim_not_ready")
			return false
		}
		c.Count("disc_reason_victim_started")
		return true
	}
	defer func() {
		if v != nil {
			v.stop()
		}
	}()
	cases := discReasonLattice()
	var all []discCase
	for _, stage := range []string{"established", "instead_of_hello"} {
		for _, dc := range cases {
			dc.Stage = stage
			all = append(all, dc)
		}
	}
	for i, dc := range all {
		dc := dc
		c.Case(fmt.Sprintf("server-disc-%d", i), dc, func() {
			if !ensure() {
				return
			}
			e := v.env
			// the server must be serving before the message is sent
			w0, stage := e.fullPeer(c, r, 5)
			if stage != "" {
				c.Note("separate server not serving before the message: %s", stage)
				c.Inconclusive("server_victim_not_serving")
				v.stop()
				v = nil
				return
			}
			ok0, _ := e.wireAlive(w0, false)
			w0.conn.Close()
			if !ok0 {
				c.Inconclusive("server_victim_not_serving")
				v.stop()
				v = nil
				return
			}
			hv := uint64(4 + i%2)
			c.Note("discMsg payload %s (%s, %s) to separate server %s", dc.Payload, dc.Name, dc.Stage, e.addr)
			if dc.Stage == "established" {
				w, stage := e.fullPeer(c, r, hv)
				if stage != "" {
					c.Inconclusive("server_victim_not_serving")
					return
				}
				w.send(p2p.VerifDiscMsg, dc.payload)
				w.readUntil(func(uint64, []byte) bool { return false }, 50) // until the server ends the connection
				w.conn.Close()
			} else {
				w, stage := e.connect(r)
				if stage != "" {
					c.Inconclusive("server_victim_not_serving")
					return
				}
				// in place of the hello
				w.send(p2p.VerifDiscMsg, dc.payload)
				w.readUntil(func(uint64, []byte) bool { return false }, 5)
				w.conn.Close()
			}
			c.Count("disc_reason_lattice_sent")
			c.Count("disc_" + dc.Stage + "_" + dc.Class)
			// process alive, peer released (a fresh peer with a new key is admitted
			// and served: MaxPeers would not be the limit, a dead run loop would)
			if dead, werr := v.died(300 * time.Millisecond); dead {
				reportServerDeath(c, v, dc, werr)
				v = nil
				return
			}
			w1, stage := e.fullPeer(c, r, 5)
			alive := false
			if stage == "" {
				alive, _ = e.wireAlive(w1, false)
				w1.conn.Close()
			}
			if alive {
				c.Count("disc_reason_server_survived")
				return
			}
			if dead, werr := v.died(20 * time.Second); dead {
				reportServerDeath(c, v, dc, werr)
				v = nil
				return
			}
			c.Note("separate server alive but not serving after the message: %s", stage)
			c.Inconclusive("server_victim_silent_after_disc")
			v.stop()
			v = nil
		})
	}
}

func reportServerDeath(c *fw.Ctx, v *serverVictim, dc discCase, werr error) {
	c.Count("disc_reason_server_died")
	c.Violate("process_died", "Server", dc.Class,
		fmt.Sprintf("a devp2p disconnect message (code 0x01, payload %s, %s, %s peer) ended the process running p2p.Server (%v):\n%s",
			dc.Payload, dc.Name, dc.Stage, werr, truncateStr(v.stderr.String(), 3500)))
}

// ---- in process: a disconnect in place of the hello ------------------------------------------

// attackHelloWithDisc: after the key agreement the remote sends a disconnect
// message instead of its hello; doProtoHandshake must return an error, and that
// error must be usable (the node formats it when it logs the failed set-up).
func attackHelloWithDisc(c *fw.Ctx, r *fw.Rand, dc discCase) {
	vkey, akey := keyFrom(r), keyFrom(r)
	aconn, vconn, err := tcpPair()
	if err != nil {
		c.Inconclusive("conn_setup_failed")
		return
	}
	defer aconn.Close()
	defer vconn.Close()
	tv, ta := p2p.VerifNewRLPX(vconn), p2p.VerifNewRLPX(aconn)
	hv := make(chan error, 1)
	go func() {
		var e error
		safely(func() { _, e = tv.DoEncHandshake(vkey.ToECDSA(), nil) })
		hv <- e
	}()
	var aerr error
	safely(func() { _, aerr = ta.DoEncHandshake(akey.ToECDSA(), &discover.Node{ID: pubID(vkey)}) })
	if verr := <-hv; aerr != nil || verr != nil {
		c.Inconclusive("rlpx_timeout")
		return
	}
	go func() {
		ta.WriteMsg(p2p.Msg{Code: p2p.VerifDiscMsg, Size: uint32(len(dc.payload)), Payload: bytes.NewReader(dc.payload)})
	}()
	var their *p2p.VerifProtoHandshake
	var herr error
	pn, pmsg, st := safely(func() { their, herr = tv.DoProtoHandshake(mkHello(helloSpec{Version: 5, Name: "victim"}, pubID(vkey))) })
	c.Count("disc_reason_prehello_presented")
	switch {
	case pn:
		c.Violate("panic", "doProtoHandshake", dc.Class, "doProtoHandshake panicked on a disconnect message: "+pmsg+"\n"+st)
	case herr == nil:
		c.Violate("delivered_differs_from_written", "doProtoHandshake", dc.Class, fmt.Sprintf("a disconnect message was delivered as hello %+v", their))
	default:
		if pn, pmsg, st := safely(func() { _ = herr.Error() }); pn {
			c.Violate("panic", "doProtoHandshake", dc.Class,
				fmt.Sprintf("the error returned for disconnect payload %s panics when it is formatted (%T): %s\n%s", dc.Payload, herr, pmsg, st))
		} else {
			c.Count("disc_reason_prehello_error_usable")
		}
	}
}
