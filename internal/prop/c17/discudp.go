package c17

// Discovery over a real UDP socket: a discover.ListenUDP listener (the victim)
// runs in this child process; the corpus of disc.go is fired at it over
// loopback and a signed ping must still be answered afterwards.

import (
	"bufio"
	"bytes"
	"fmt"
	"net"
	"os"
	"os/exec"
	"strings"
	"time"

	"github.com/btcsuite/btcd/btcec/v2"
	"gitlab.com/aquachain/aquachain/p2p/discover"
	"verif/internal/fw"
	"verif/internal/ref/refrlp"
)

type udpVictim struct {
	netcompat bool
	id        discover.NodeID
	addr      *net.UDPAddr
	tab       *discover.Table
	conn      *net.UDPConn
}

func chainIDFor(netcompat bool) uint64 {
	if netcompat {
		return 1 // chain id 1 makes the listener speak the plain discv4 framing
	}
	return 61717561
}

func startUDPVictim(key *btcec.PrivateKey, netcompat bool) (*udpVictim, error) {
	conn, err := net.ListenUDP("udp4", &net.UDPAddr{IP: net.IPv4(127, 0, 0, 1)})
	if err != nil {
		return nil, err
	}
	conn.SetReadBuffer(4 << 20)
	tab, err := discover.ListenUDP(conn, discover.Config{PrivateKey: key, ChainId: chainIDFor(netcompat)})
	if err != nil {
		conn.Close()
		return nil, err
	}
	return &udpVictim{netcompat: netcompat, id: pubID(key), addr: conn.LocalAddr().(*net.UDPAddr), tab: tab, conn: conn}, nil
}

// attacker is the harness's own socket plus a reader that queues whatever the
// victim sends back.
type attacker struct {
	conn *net.UDPConn
	in   chan []byte
}

func newAttacker() (*attacker, error) {
	conn, err := net.ListenUDP("udp4", &net.UDPAddr{IP: net.IPv4(127, 0, 0, 1)})
	if err != nil {
		return nil, err
	}
	conn.SetReadBuffer(4 << 20)
	a := &attacker{conn: conn, in: make(chan []byte, 4096)}
	go func() {
		buf := make([]byte, 2048)
		for {
			n, _, err := conn.ReadFromUDP(buf)
			if err != nil {
				close(a.in)
				return
			}
			select {
			case a.in <- clone(buf[:n]):
			default: // queue full: drop, like the network would
			}
		}
	}()
	return a, nil
}

func (a *attacker) close() { a.conn.Close() }

func (a *attacker) drain() {
	for {
		select {
		case _, ok := <-a.in:
			if !ok {
				return
			}
		default:
			return
		}
	}
}

// probe sends one well-formed signed ping and waits for the matching pong,
// judged by the harness's own codec. It returns ok, or why not.
func (a *attacker) probe(c *fw.Ctx, v *udpVictimRef, key *btcec.PrivateKey, tries int, wait time.Duration) (ok bool, why string) {
	local := a.conn.LocalAddr().(*net.UDPAddr)
	ep := func(ad *net.UDPAddr) *refrlp.Item {
		return refrlp.L(refrlp.S(ad.IP.To4()), refrlp.U(uint64(ad.Port)), refrlp.U(uint64(ad.Port)))
	}
	body := refrlp.Encode(refrlp.L(refrlp.U(4), ep(local), ep(v.addr), refrlp.U(farFuture)))
	ping := seal(key, sigdataOf(v.netcompat, typeByteFor(v.netcompat, "ping"), body))
	why = "no datagram came back"
	for t := 0; t < tries; t++ {
		a.drain()
		if _, err := a.conn.WriteToUDP(ping, v.addr); err != nil {
			why = "send: " + err.Error()
			time.Sleep(50 * time.Millisecond)
			continue
		}
		deadline := time.After(wait)
	recv:
		for {
			select {
			case d, open := <-a.in:
				if !open {
					return false, "attacker socket closed"
				}
				good, problem := isPongFor(v, d, ping[:dMacSize])
				if good {
					c.Count("probe_pong_verified")
					return true, ""
				}
				if problem != "" {
					why = problem
				}
			case <-deadline:
				break recv
			}
		}
	}
	return false, why
}

type udpVictimRef struct {
	netcompat bool
	id        discover.NodeID
	addr      *net.UDPAddr
}

// isPongFor checks, with the reference codec only, that d is a pong written by
// the victim for the ping whose hash is tok. problem is non-empty when d claims
// to be that pong but is not what the victim's key authenticated.
func isPongFor(v *udpVictimRef, d, tok []byte) (good bool, problem string) {
	if len(d) < dHeadSize+1 {
		return false, ""
	}
	sigdata := d[dHeadSize:]
	if effType(v.netcompat, sigdata[0]) != 135 {
		return false, ""
	}
	off := 1
	if !v.netcompat {
		off = 5
		if len(sigdata) < 5 || !bytes.Equal(sigdata[1:5], aquaTag) {
			return false, ""
		}
	}
	it, err := refrlp.Decode(sigdata[off:])
	if err != nil || !it.IsList || len(it.List) < 3 || it.List[1].IsList {
		return false, ""
	}
	if !bytes.Equal(it.List[1].Str, tok) {
		return false, "" // a pong for some other ping of the corpus
	}
	if !bytes.Equal(d[:dMacSize], keccak(d[dMacSize:])) {
		return false, "pong with wrong leading hash"
	}
	if !sigVerifies(v.id, keccak(sigdata), d[dMacSize:dHeadSize]) {
		return false, "pong not signed by the listener's key"
	}
	return true, ""
}

// diagnose decides what an unanswered probe means from goroutine dumps.
func diagnoseUDP(c *fw.Ctx, sent int) {
	d1 := allStacks()
	rl := goroutinesWith(d1, "discover.(*udp).readLoop")
	if len(rl) == 0 {
		c.Violate("handler_wedged", "readLoop", "listener_goroutine_gone",
			fmt.Sprintf("after %d datagrams no goroutine is in discover.(*udp).readLoop any more and pings go unanswered\n%s", sent, truncateStr(d1, 6000)))
		return
	}
	if !strings.Contains(rl[0].text, "ReadFromUDP") {
		time.Sleep(5 * time.Second)
		d2 := allStacks()
		for _, g := range goroutinesWith(d2, "discover.(*udp).readLoop") {
			if g.id == rl[0].id && !strings.Contains(g.text, "ReadFromUDP") && firstFrame(g.text) == firstFrame(rl[0].text) {
				c.Violate("handler_wedged", "readLoop", "blocked_in_"+firstFrame(g.text),
					fmt.Sprintf("after %d datagrams the read loop is blocked outside the socket read in two dumps 5 s apart\n%s", sent, g.text))
				return
			}
		}
	}
	c.Inconclusive("udp_probe_unanswered")
}

func firstFrame(gtext string) string {
	lines := strings.Split(gtext, "\n")
	if len(lines) < 2 {
		return "?"
	}
	f := strings.TrimSpace(lines[1])
	if i := strings.LastIndex(f, "("); i > 0 {
		f = f[:i]
	}
	return f
}

func truncateStr(s string, n int) string {
	if len(s) > n {
		return s[:n] + "...[truncated]"
	}
	return s
}

func runDiscUDP(c *fw.Ctx) {
	nc := c.Batch%2 == 1
	rounds := c.Pick(1, 12)
	r0 := c.Rand("udp-setup")
	vkey, probeKey := keyFrom(r0), keyFrom(r0)
	var fatal [][]byte
	c.Case("udp-corpus", map[string]interface{}{"netcompat": nc, "victim_key": hx(vkey.Serialize()), "rounds": rounds}, func() {
		vic, err := startUDPVictim(vkey, nc)
		if err != nil {
			c.Inconclusive("udp_listen_failed")
			return
		}
		defer vic.tab.Close()
		atk, err := newAttacker()
		if err != nil {
			c.Inconclusive("udp_listen_failed")
			return
		}
		defer atk.close()
		ref := &udpVictimRef{netcompat: nc, id: vic.id, addr: vic.addr}
		if ok, why := atk.probe(c, ref, probeKey, 30, 2*time.Second); !ok {
			c.Note("initial probe failed: %s", why)
			c.Inconclusive("udp_initial_probe_unanswered")
			return
		}
		c.Count("udp_listener_started")
		hw := startHeapWatch(20 * time.Millisecond)
		sent := 0
		alive := true
		sync := func() {
			if !alive {
				return
			}
			ok, why := atk.probe(c, ref, probeKey, 20, 2*time.Second)
			if ok {
				c.Count("udp_liveness_probe_answered")
				return
			}
			alive = false
			if strings.HasPrefix(why, "pong") {
				c.Violate("written_differs_from_message", "pong", strings.ReplaceAll(why, " ", "_"), why)
				return
			}
			diagnoseUDP(c, sent)
		}
		for round := 0; round < rounds && alive; round++ {
			for gi, g := range groupNames {
				r := c.Rand("udp", fmt.Sprint(round), g)
				key, akey := keyFrom(r), keyFrom(r)
				if round > 0 || gi > 0 {
					akey = probeKey // few distinct sender ids: keeps the listener's bonding queue short
				}
				base := genBase(r, nc, discKinds[(round+gi)%4], key)
				genGroup(r, g, base, akey, func(d dgram) {
					if !alive {
						return
					}
					dd := d.d
					if len(dd) > 1400 { // larger than any discovery packet; keep below the loopback MTU
						dd = dd[:1400]
					}
					// a datagram that makes decodePacket panic in this process is not
					// sent to the in-process listener (it would end the batch): it is
					// reported here and replayed against a listener in a process of
					// its own further down
					var st discStats
					if checkDecode(c, nc, dd, expAny, nil, d.what, &st) {
						if len(fatal) < 2 {
							fatal = append(fatal, clone(dd))
						}
						c.Count("udp_datagrams_withheld_as_fatal")
						return
					}
					c.Note("udp datagram %s %s", d.what, hx(dd))
					if _, err := atk.conn.WriteToUDP(dd, vic.addr); err == nil {
						sent++
						c.Count("udp_datagrams_sent")
					}
					if sent%48 == 0 {
						sync()
					}
				})
			}
			sync()
		}
		high := hw.Stop()
		c.Extra("udp_heap_high_water", fmt.Sprintf("batch %d: %d bytes (baseline %d)", c.Batch, high, hw.base))
		// nothing in the discovery protocol is larger than a 1280-byte packet;
		// per-sender state is one table/database entry
		if high > hw.base+256<<20 {
			c.Violate("allocation_beyond_limit", "ListenUDP", "heap_high_water", fmt.Sprintf("heap grew from %d to %d bytes under %d datagrams", hw.base, high, sent))
		}
		if alive {
			c.Nontrivial(fmt.Sprintf("udp-%v-%d-%d", nc, c.Batch, sent))
			c.Sample(map[string]interface{}{"case": "udp-corpus", "netcompat": nc, "datagrams_sent": sent, "listener": vic.addr.String(), "heap_high_water": high})
		}
	})
	for i, d := range fatal {
		d := d
		c.Case(fmt.Sprintf("udp-fatal-%d", i), map[string]interface{}{"netcompat": nc, "datagram": hx(d)}, func() {
			confirmFatalUDP(c, nc, d, probeKey)
		})
	}
}

// ---- a listener in a process of its own -------------------------------------------

const victimEnv = "VERIF_C17_VICTIM"

// victimMain is entered from init() when this binary is started as a victim.
func victimMain(mode string) {
	switch mode {
	case "udp", "udp-netcompat":
		silenceLogs()
		key, _ := btcec.NewPrivateKey()
		v, err := startUDPVictim(key, mode == "udp-netcompat")
		if err != nil {
			fmt.Println("ERROR", err)
			os.Exit(3)
		}
		fmt.Printf("READY %d %x\n", v.addr.Port, v.id[:])
		// live until the parent closes stdin
		bufio.NewReader(os.Stdin).ReadString(0)
		os.Exit(0)
	case "server":
		serverVictimMain()
	}
	os.Exit(4)
}

// confirmFatalUDP sends one datagram (that made decodePacket panic in-process)
// to a real listener in a separate process and reports whether that process
// died.
func confirmFatalUDP(c *fw.Ctx, nc bool, d []byte, probeKey *btcec.PrivateKey) {
	exe, err := os.Executable()
	if err != nil {
		c.Inconclusive("victim_spawn_failed")
		return
	}
	mode := "udp"
	if nc {
		mode = "udp-netcompat"
	}
	cmd := exec.Command(exe)
	cmd.Env = append(os.Environ(), victimEnv+"="+mode)
	stdin, _ := cmd.StdinPipe()
	stdout, _ := cmd.StdoutPipe()
	var stderr bytes.Buffer
	cmd.Stderr = &stderr
	if err := cmd.Start(); err != nil {
		c.Inconclusive("victim_spawn_failed")
		return
	}
	exited := make(chan error, 1)
	ready := make(chan string, 1)
	go func() {
		line, _ := bufio.NewReader(stdout).ReadString('\n')
		ready <- line
		exited <- cmd.Wait()
	}()
	defer func() {
		stdin.Close()
		select {
		case <-exited:
		case <-time.After(10 * time.Second):
			cmd.Process.Kill()
		}
	}()
	var line string
	select {
	case line = <-ready:
	case <-time.After(120 * time.Second):
		c.Inconclusive("victim_not_ready")
		return
	}
	var port int
	var idhex string
	if _, err := fmt.Sscanf(line, "READY %d %s", &port, &idhex); err != nil {
		c.Inconclusive("victim_not_ready")
		return
	}
	ref := &udpVictimRef{netcompat: nc, addr: &net.UDPAddr{IP: net.IPv4(127, 0, 0, 1), Port: port}}
	copy(ref.id[:], unhx(idhex))
	atk, err := newAttacker()
	if err != nil {
		c.Inconclusive("udp_listen_failed")
		return
	}
	defer atk.close()
	if ok, _ := atk.probe(c, ref, probeKey, 30, 2*time.Second); !ok {
		c.Inconclusive("victim_not_answering_before_attack")
		return
	}
	c.Count("separate_listener_alive_before_datagram")
	c.Note("sending to separate listener 127.0.0.1:%d: %s", port, hx(d))
	atk.conn.WriteToUDP(d, ref.addr)
	select {
	case werr := <-exited:
		exited <- werr
		c.Count("separate_listener_died")
		c.Violate("process_died", "decodePacket", classify(nc, d),
			fmt.Sprintf("one %d-byte datagram (%s) sent over loopback UDP ended the process running discover.ListenUDP (%v):\n%s",
				len(d), classify(nc, d), werr, truncateStr(stderr.String(), 3000)))
	case <-time.After(15 * time.Second):
		if ok, _ := atk.probe(c, ref, probeKey, 10, 2*time.Second); ok {
			c.Count("separate_listener_survived")
		} else {
			c.Inconclusive("separate_listener_silent")
		}
	}
}
