package c17

// Discovery datagrams: generator, independent codec, and the decode oracle.

import (
	"bytes"
	"fmt"
	"net"

	"github.com/btcsuite/btcd/btcec/v2"
	"gitlab.com/aquachain/aquachain/p2p/discover"
	"verif/internal/fw"
	"verif/internal/ref/refrlp"
)

const (
	dMacSize  = 32
	dSigSize  = 65
	dHeadSize = dMacSize + dSigSize
	// far-future expiration (2100-01-01): more than 30 s clear of the clock in
	// every run, and independent of the time the case list is generated
	farFuture = 4102444800
)

var aquaTag = []byte("aqua")

// packet kinds by (aqua) type byte
var kindOfType = map[byte]string{134: "ping", 135: "pong", 136: "findnode", 137: "neighbors"}

// effType: the type byte as decodePacket interprets it.
func effType(netcompat bool, tb byte) byte {
	if netcompat && tb < 133 {
		return tb + 133
	}
	return tb
}

func typeByteFor(netcompat bool, kind string) byte {
	var t byte
	switch kind {
	case "ping":
		t = 134
	case "pong":
		t = 135
	case "findnode":
		t = 136
	default:
		t = 137
	}
	if netcompat {
		return t - 133
	}
	return t
}

// seal builds a datagram: hash || sig || sigdata, signed with key.
func seal(key *btcec.PrivateKey, sigdata []byte) []byte {
	sig := signCompact(key, keccak(sigdata))
	return sealWithSig(sig, sigdata)
}

func sealWithSig(sig, sigdata []byte) []byte {
	out := make([]byte, 0, dHeadSize+len(sigdata))
	out = append(out, keccak(sig, sigdata)...)
	out = append(out, sig...)
	out = append(out, sigdata...)
	return out
}

// rehash recomputes the leading hash of a datagram in place (len >= 32).
func rehash(d []byte) {
	if len(d) >= dMacSize {
		copy(d, keccak(d[dMacSize:]))
	}
}

func sigdataOf(netcompat bool, tb byte, payload []byte) []byte {
	sd := []byte{tb}
	if !netcompat {
		sd = append(sd, aquaTag...)
	}
	return append(sd, payload...)
}

// ---- generators of well-formed packet bodies (as reference item trees) ------

func genIP(r *fw.Rand) []byte {
	if r.Chance(1, 3) {
		return r.Bytes(16)
	}
	return r.Bytes(4)
}

func genEndpoint(r *fw.Rand) *refrlp.Item {
	return refrlp.L(refrlp.S(genIP(r)), refrlp.U(uint64(r.Intn(65536))), refrlp.U(uint64(r.Intn(65536))))
}

func genRest(r *fw.Rand) []*refrlp.Item {
	var out []*refrlp.Item
	if r.Chance(1, 3) {
		for n := r.Range(1, 3); n > 0; n-- {
			switch r.Intn(3) {
			case 0:
				out = append(out, refrlp.S(r.Bytes(r.Range(0, 40))))
			case 1:
				out = append(out, refrlp.L(refrlp.U(r.Uint64()), refrlp.S(r.Bytes(r.Range(0, 5)))))
			default:
				out = append(out, refrlp.L())
			}
		}
	}
	return out
}

func genBody(r *fw.Rand, kind string) *refrlp.Item {
	var it *refrlp.Item
	switch kind {
	case "ping":
		it = refrlp.L(refrlp.U(uint64(r.Range(0, 6))), genEndpoint(r), genEndpoint(r), refrlp.U(farFuture))
	case "pong":
		it = refrlp.L(genEndpoint(r), refrlp.S(r.Bytes(32)), refrlp.U(farFuture))
	case "findnode":
		it = refrlp.L(refrlp.S(r.Bytes(64)), refrlp.U(farFuture))
	default:
		nodes := refrlp.L()
		for n := r.Range(0, 12); n > 0; n-- {
			nodes.List = append(nodes.List, refrlp.L(refrlp.S(genIP(r)), refrlp.U(uint64(r.Intn(65536))), refrlp.U(uint64(r.Intn(65536))), refrlp.S(r.Bytes(64))))
		}
		it = refrlp.L(nodes, refrlp.U(farFuture))
	}
	it.List = append(it.List, genRest(r)...)
	return it
}

var discKinds = []string{"ping", "pong", "findnode", "neighbors"}

// ---- struct -> reference item (to compare a decoded packet to its payload) ---

func itemOfEndpoint(e discover.VerifRPCEndpoint) *refrlp.Item {
	return refrlp.L(refrlp.S(e.IP), refrlp.U(uint64(e.UDP)), refrlp.U(uint64(e.TCP)))
}

// fieldsOfPacket maps a decoded packet to the item trees of its defined fields
// (in wire order) and the raw tail elements it kept.
func fieldsOfPacket(p interface{}) (fields []*refrlp.Item, rest [][]byte, kind string) {
	switch v := p.(type) {
	case *discover.VerifPing:
		fields = []*refrlp.Item{refrlp.U(uint64(v.Version)), itemOfEndpoint(v.From), itemOfEndpoint(v.To), refrlp.U(v.Expiration)}
		kind = "ping"
		for _, x := range v.Rest {
			rest = append(rest, x)
		}
	case *discover.VerifPong:
		fields = []*refrlp.Item{itemOfEndpoint(v.To), refrlp.S(v.ReplyTok), refrlp.U(v.Expiration)}
		kind = "pong"
		for _, x := range v.Rest {
			rest = append(rest, x)
		}
	case *discover.VerifFindnode:
		fields = []*refrlp.Item{refrlp.S(v.Target[:]), refrlp.U(v.Expiration)}
		kind = "findnode"
		for _, x := range v.Rest {
			rest = append(rest, x)
		}
	case *discover.VerifNeighbors:
		nodes := refrlp.L()
		for _, n := range v.Nodes {
			nodes.List = append(nodes.List, refrlp.L(refrlp.S(n.IP), refrlp.U(uint64(n.UDP)), refrlp.U(uint64(n.TCP)), refrlp.S(n.ID[:])))
		}
		fields = []*refrlp.Item{nodes, refrlp.U(v.Expiration)}
		kind = "neighbors"
		for _, x := range v.Rest {
			rest = append(rest, x)
		}
	default:
		kind = fmt.Sprintf("%T", p)
	}
	return
}

// itemOfPacket is the whole packet body as one item (tail elements must be
// canonical RLP for ok).
func itemOfPacket(p interface{}) (it *refrlp.Item, kind string, ok bool) {
	fields, rest, kind := fieldsOfPacket(p)
	it = refrlp.L(fields...)
	for _, raw := range rest {
		ri, err := refrlp.Decode(raw)
		if err != nil {
			return it, kind, false
		}
		it.List = append(it.List, ri)
	}
	return it, kind, true
}

var (
	errShTrunc    = fmt.Errorf("value larger than its container")
	errShNonCanon = fmt.Errorf("non-canonical size")
)

// shallowHdr reads the header of the first RLP value in b (RLP definition,
// yellow paper appendix B): kind 'b' single byte, 's' string, 'l' list; tag =
// header length, size = content length. The content is not inspected.
func shallowHdr(b []byte) (kind byte, tag, size int, err error) {
	if len(b) == 0 {
		return 0, 0, 0, errShTrunc
	}
	t := b[0]
	long := func(base byte) (int, int, error) {
		ll := int(t - base)
		if len(b) < 1+ll {
			return 0, 0, errShTrunc
		}
		if b[1] == 0 || ll > 4 {
			if b[1] == 0 {
				return 0, 0, errShNonCanon
			}
			return 0, 0, errShTrunc // > 4 GiB: cannot fit any datagram
		}
		n := 0
		for _, x := range b[1 : 1+ll] {
			n = n<<8 | int(x)
		}
		if n < 56 {
			return 0, 0, errShNonCanon
		}
		return 1 + ll, n, nil
	}
	switch {
	case t < 0x80:
		return 'b', 0, 1, nil
	case t < 0xb8:
		kind, tag, size = 's', 1, int(t-0x80)
	case t < 0xc0:
		kind = 's'
		tag, size, err = long(0xb7)
	case t < 0xf8:
		kind, tag, size = 'l', 1, int(t-0xc0)
	default:
		kind = 'l'
		tag, size, err = long(0xf7)
	}
	if err != nil {
		return 0, 0, 0, err
	}
	if tag+size > len(b) {
		return 0, 0, 0, errShTrunc
	}
	if kind == 's' && size == 1 && tag == 1 && b[1] < 0x80 {
		return 0, 0, 0, errShNonCanon
	}
	return kind, tag, size, nil
}

// shallowList cuts the first value of b, which must be a list, into the
// encodings of its top-level elements. used = bytes of b the list occupies.
func shallowList(b []byte) (elems [][]byte, used int, err error) {
	kind, tag, size, err := shallowHdr(b)
	if err != nil {
		return nil, 0, err
	}
	if kind != 'l' {
		return nil, 0, fmt.Errorf("not a list")
	}
	content := b[tag : tag+size]
	for len(content) > 0 {
		_, t, s, err := shallowHdr(content)
		if err != nil {
			return nil, 0, err
		}
		elems = append(elems, content[:t+s])
		content = content[t+s:]
	}
	return elems, tag + size, nil
}

// ---- the oracle ---------------------------------------------------------------

type expect int

const (
	expAny      expect = iota // hostile input: error or a faithful decode
	expAccept                 // honest, untouched packet: must decode
	expTampered               // bytes changed after signing/hashing: must be rejected
)

// classify gives the stable input class used in violation signatures.
func classify(netcompat bool, d []byte) string {
	if len(d) < dHeadSize+1 {
		return "datagram_shorter_than_header"
	}
	if !bytes.Equal(d[:dMacSize], keccak(d[dMacSize:])) {
		return "bad_hash"
	}
	sigdata := d[dHeadSize:]
	kind, known := kindOfType[effType(netcompat, sigdata[0])]
	if !known {
		return "signed_packet_unknown_type"
	}
	if !netcompat && len(sigdata) < 1+len(aquaTag) {
		return "signed_packet_body_shorter_than_tag"
	}
	return "signed_" + kind + "_packet"
}

type discStats struct {
	accepted, rejected int
}

// checkDecode hands one datagram to the real decodePacket and judges the
// outcome. what names the mutation class (stable), signer is the key that
// signed the datagram if the harness knows it.
func checkDecode(c *fw.Ctx, netcompat bool, d []byte, exp expect, signer *discover.NodeID, what string, st *discStats) (panicked bool) {
	orig := clone(d)
	buf := clone(d) // decodePacket rewrites the type byte in netcompat mode
	var (
		pkt  interface{}
		id   discover.NodeID
		hash []byte
		err  error
	)
	a0 := allocBytes()
	pan, pmsg, pstack := safely(func() { pkt, id, hash, err = discover.VerifDecodePacket(netcompat, buf) })
	grew := allocBytes() - a0
	c.Count("decode_calls")
	in := map[string]interface{}{"netcompat": netcompat, "datagram": hx(orig), "class": what}
	if pan {
		c.Count("decode_panics")
		c.ViolateInput("panic", "decodePacket", classify(netcompat, orig),
			fmt.Sprintf("decodePacket panicked on a %d-byte datagram (%s, %s): %s\n%s", len(orig), what, classify(netcompat, orig), pmsg, pstack), in)
		return true
	}
	if grew > 2<<20 {
		c.ViolateInput("allocation_beyond_limit", "decodePacket", classify(netcompat, orig),
			fmt.Sprintf("decoding a %d-byte datagram allocated %d bytes", len(orig), grew), in)
	}
	if err != nil {
		st.rejected++
		c.Count("decode_rejected")
		if exp == expAccept {
			c.ViolateInput("honest_packet_rejected", "decodePacket", what, fmt.Sprintf("untouched signed packet rejected: %v", err), in)
		}
		return false
	}
	st.accepted++
	c.Count("decode_accepted")
	if exp == expTampered {
		c.ViolateInput("tampered_datagram_delivered", "decodePacket", what,
			fmt.Sprintf("a datagram altered after it was hashed and signed was decoded without error (packet %T from %x...)", pkt, id[:8]), in)
		return false
	}
	if len(orig) < dHeadSize+1 {
		c.ViolateInput("accepted_unauthenticated", "decodePacket", "shorter_than_header", "datagram without room for hash+signature+type accepted", in)
		return false
	}
	sig, sigdata := orig[dMacSize:dHeadSize], orig[dHeadSize:]
	if !bytes.Equal(orig[:dMacSize], keccak(orig[dMacSize:])) {
		c.ViolateInput("accepted_unauthenticated", "decodePacket", "bad_hash", "datagram whose leading hash does not cover the rest was accepted", in)
		return false
	}
	if !bytes.Equal(hash, orig[:dMacSize]) {
		c.ViolateInput("delivered_differs_from_signed", "decodePacket", "hash", fmt.Sprintf("returned hash %x, datagram hash %x", hash, orig[:dMacSize]), in)
	}
	digest := keccak(sigdata)
	if !sigVerifies(id, digest, sig) {
		c.ViolateInput("accepted_unauthenticated", "decodePacket", "id_not_signer",
			fmt.Sprintf("returned sender id %x... is not a key under which the signature verifies", id[:8]), in)
		return false
	}
	if signer != nil && id != *signer {
		c.ViolateInput("accepted_unauthenticated", "decodePacket", "id_not_signer",
			fmt.Sprintf("returned sender id %x..., datagram was signed by %x...", id[:8], (*signer)[:8]), in)
		return false
	}
	c.Count("accepted_id_verified")
	et := effType(netcompat, sigdata[0])
	wantKind, known := kindOfType[et]
	fields, restRaw, gotKind := fieldsOfPacket(pkt)
	if !known || gotKind != wantKind {
		c.ViolateInput("delivered_differs_from_signed", "decodePacket", "packet_type",
			fmt.Sprintf("type byte %d (effective %d, %q) decoded as %q", sigdata[0], et, wantKind, gotKind), in)
		return false
	}
	off := 1
	if !netcompat {
		off += len(aquaTag)
		if len(sigdata) >= off && !bytes.Equal(sigdata[1:off], aquaTag) {
			c.Count("accepted_with_foreign_tag") // observation: the 4 tag bytes are skipped, not compared
		}
	}
	if len(sigdata) < off {
		c.ViolateInput("delivered_differs_from_signed", "decodePacket", "payload_missing", "packet without payload accepted", in)
		return false
	}
	payload := sigdata[off:]
	// The packet body is a list: its leading elements are the defined fields
	// (interpreted, so compared as values), the remaining ones are kept as raw
	// bytes for forward compatibility (never interpreted, so compared as bytes).
	elems, used, serr := shallowList(payload)
	switch {
	case serr == errShNonCanon:
		c.Count("accepted_noncanonical_rlp") // strictness of the RLP codec is property C11, not judged here
		return false
	case serr != nil:
		c.ViolateInput("delivered_differs_from_signed", "decodePacket", "undecodable_payload_accepted",
			fmt.Sprintf("payload is not a complete RLP list (%v) but a %s packet was delivered", serr, gotKind), in)
		return false
	}
	if used < len(payload) {
		c.Count("accepted_with_trailing_bytes")
	}
	if len(elems) != len(fields)+len(restRaw) {
		c.ViolateInput("delivered_differs_from_signed", "decodePacket", gotKind+"_fields",
			fmt.Sprintf("signed list has %d elements, decoded packet has %d fields + %d tail elements", len(elems), len(fields), len(restRaw)), in)
		return false
	}
	for i, f := range fields {
		if _, derr := refrlp.Decode(elems[i]); derr != nil {
			if derr == refrlp.ErrTruncated || derr == refrlp.ErrEmpty {
				c.ViolateInput("delivered_differs_from_signed", "decodePacket", "undecodable_payload_accepted",
					fmt.Sprintf("field %d of the signed %s body is not decodable (%v) but the packet was delivered", i, gotKind, derr), in)
				return false
			}
			c.Count("accepted_noncanonical_rlp")
			return false
		}
		if re := refrlp.Encode(f); !bytes.Equal(re, elems[i]) {
			c.ViolateInput("delivered_differs_from_signed", "decodePacket", gotKind+"_fields",
				fmt.Sprintf("field %d of the decoded %s packet re-encodes to %x, the signed bytes are %x", i, gotKind, re, elems[i]), in)
			return false
		}
	}
	for i, raw := range restRaw {
		if !bytes.Equal(raw, elems[len(fields)+i]) {
			c.ViolateInput("delivered_differs_from_signed", "decodePacket", gotKind+"_fields",
				fmt.Sprintf("tail element %d kept as %x, the signed bytes are %x", i, raw, elems[len(fields)+i]), in)
			return false
		}
	}
	c.Count("accepted_fields_match_signed_payload")
	c.Count("accepted_" + gotKind)
	return false
}

// ---- corpus --------------------------------------------------------------------

// dgram is one generated datagram with its expectation.
type dgram struct {
	d      []byte
	exp    expect
	signer *discover.NodeID
	what   string
}

type basePacket struct {
	netcompat bool
	kind      string
	key       *btcec.PrivateKey
	id        discover.NodeID
	tb        byte
	payload   []byte
	sigdata   []byte
	datagram  []byte
}

func genBase(r *fw.Rand, netcompat bool, kind string, key *btcec.PrivateKey) *basePacket {
	b := &basePacket{netcompat: netcompat, kind: kind, key: key, id: pubID(key)}
	b.tb = typeByteFor(netcompat, kind)
	if netcompat && r.Chance(1, 4) {
		b.tb += 133 // aqua type bytes are accepted in netcompat mode as well
	}
	b.payload = refrlp.Encode(genBody(r, kind))
	b.sigdata = sigdataOf(netcompat, b.tb, b.payload)
	b.datagram = seal(key, b.sigdata)
	return b
}

// hostile type bytes: around 0, the eth range, the boundary 133 and the aqua range
var hostileTypes = []byte{0, 1, 2, 3, 4, 5, 6, 127, 128, 132, 133, 134, 135, 136, 137, 138, 139, 200, 254, 255}

// groupNames lists the corpus groups; every batch runs each of them.
var groupNames = []string{"valid", "random", "trunc", "mutraw", "mutsigned", "mutsig", "typelen", "hostile_rlp"}

// genGroup produces the datagrams of one group derived from base.
func genGroup(r *fw.Rand, group string, base *basePacket, atk *btcec.PrivateKey, emit func(dgram)) {
	nc := base.netcompat
	atkID := pubID(atk)
	signed := func(sigdata []byte, what string) {
		emit(dgram{d: seal(atk, sigdata), exp: expAny, signer: &atkID, what: what})
	}
	switch group {
	case "valid":
		for i := 0; i < 48; i++ {
			k := base.key
			if i%4 == 3 {
				k = atk
			}
			b := genBase(r, nc, discKinds[i%4], k)
			id := pubID(k)
			emit(dgram{d: b.datagram, exp: expAccept, signer: &id, what: "valid_" + b.kind})
		}
	case "random":
		for i := 0; i < 160; i++ {
			var n int
			switch i % 4 {
			case 0:
				n = r.Range(0, 120)
			case 1:
				n = r.Range(90, 110)
			default:
				n = r.Range(0, 1400)
			}
			emit(dgram{d: r.Bytes(n), exp: expAny, what: "random_bytes"})
		}
		for i := 0; i < 120; i++ { // valid hash over random signature + body
			d := r.Bytes(r.Range(dHeadSize, dHeadSize+200))
			if i%3 == 0 {
				d[dHeadSize-1] = byte(r.Intn(4)) // plausible recovery id
			}
			if len(d) > dHeadSize && i%2 == 0 {
				d[dHeadSize] = hostileTypes[r.Intn(len(hostileTypes))]
			}
			rehash(d)
			emit(dgram{d: d, exp: expAny, what: "random_with_valid_hash"})
		}
		for i := 0; i < 160; i++ { // correctly signed random body
			tb := byte(134 + r.Intn(4))
			if nc && r.Bool() {
				tb -= 133
			}
			body := r.Bytes(r.Range(0, 120))
			sd := append([]byte{tb}, body...)
			if !nc && r.Bool() {
				sd = sigdataOf(nc, tb, body)
			}
			signed(sd, "signed_random_body")
		}
	case "trunc":
		for l := 0; l < len(base.datagram); l++ {
			emit(dgram{d: clone(base.datagram[:l]), exp: expTampered, what: "truncated_datagram"})
		}
		// truncated, then hashed and signed by the sender itself
		for l := 0; l < len(base.sigdata); l++ {
			signed(base.sigdata[:l], "signed_truncated_body")
		}
		// truncated and re-hashed only (signature now over other data)
		for l := dHeadSize; l < len(base.datagram); l += 1 + r.Intn(3) {
			d := clone(base.datagram[:l])
			rehash(d)
			emit(dgram{d: d, exp: expAny, what: "truncated_rehashed"})
		}
	case "mutraw":
		for pos := 0; pos < len(base.datagram); pos++ {
			for _, x := range []byte{0x01, 0x80} {
				d := clone(base.datagram)
				d[pos] ^= x
				emit(dgram{d: d, exp: expTampered, what: "byte_flipped_on_wire"})
			}
		}
		// a byte appended / dropped / duplicated on the wire
		for i := 0; i < 24; i++ {
			pos := r.Intn(len(base.datagram))
			d := clone(base.datagram)
			switch i % 3 {
			case 0:
				d = append(d[:pos], d[pos+1:]...)
			case 1:
				d = append(d[:pos+1], d[pos:]...)
			default:
				d = append(d, byte(r.Intn(256)))
			}
			emit(dgram{d: d, exp: expTampered, what: "byte_dropped_or_inserted_on_wire"})
		}
	case "mutsigned":
		for pos := 0; pos < len(base.sigdata); pos++ {
			for v := 0; v < 4; v++ {
				sd := clone(base.sigdata)
				switch v {
				case 0:
					sd[pos] ^= 0x01
				case 1:
					sd[pos] ^= 0x80
				case 2:
					sd[pos]++
				default:
					sd[pos] = byte(r.Intn(256))
				}
				signed(sd, "signed_mutated_body")
			}
		}
	case "mutsig":
		for pos := dMacSize; pos < dHeadSize; pos++ {
			for _, x := range []byte{0x01, 0x80, 0xff} {
				d := clone(base.datagram)
				d[pos] ^= x
				rehash(d)
				emit(dgram{d: d, exp: expAny, what: "signature_mutated_rehashed"})
			}
		}
		for v := 0; v < 256; v += 1 { // every recovery id value
			d := clone(base.datagram)
			d[dHeadSize-1] = byte(v)
			rehash(d)
			emit(dgram{d: d, exp: expAny, what: "signature_mutated_rehashed"})
		}
	case "typelen":
		for _, tb := range hostileTypes {
			for l := 0; l <= 8; l++ {
				for v := 0; v < 3; v++ {
					body := make([]byte, l)
					switch v {
					case 1:
						body = r.Bytes(l)
					case 2:
						for i := range body {
							body[i] = 0xc0
						}
					}
					signed(append([]byte{tb}, body...), "signed_type_and_short_body")
				}
			}
		}
	case "hostile_rlp":
		tb := base.tb
		pay := func(p []byte, what string) { signed(sigdataOf(nc, tb, p), what) }
		// declared sizes far beyond the datagram
		for _, ll := range []int{1, 2, 3, 4, 7, 8} {
			for _, first := range []byte{0xb7, 0xf7} {
				p := []byte{first + byte(ll)}
				for i := 0; i < ll; i++ {
					p = append(p, 0xff)
				}
				pay(append(p, r.Bytes(r.Range(0, 40))...), "signed_huge_declared_size")
				q := []byte{first + byte(ll)}
				for i := 0; i < ll; i++ {
					q = append(q, 0x7f)
				}
				pay(append(q, r.Bytes(r.Range(0, 40))...), "signed_huge_declared_size")
			}
		}
		// deep nesting
		for _, depth := range []int{10, 100, 600, 1100} {
			p := bytes.Repeat([]byte{0xc1}, depth)
			p = append(p, 0xc0)
			pay(p, "signed_deep_nesting")
		}
		// neighbors with many / malformed nodes
		for _, n := range []int{0, 1, 12, 13, 16, 40, 200} {
			nodes := refrlp.L()
			for i := 0; i < n; i++ {
				nodes.List = append(nodes.List, refrlp.L(refrlp.S(r.Bytes(4)), refrlp.U(30303), refrlp.U(30303), refrlp.S(r.Bytes(64))))
			}
			signed(sigdataOf(nc, typeByteFor(nc, "neighbors"), refrlp.Encode(refrlp.L(nodes, refrlp.U(farFuture)))), "signed_neighbors_many_nodes")
		}
		for _, iplen := range []int{0, 1, 3, 5, 15, 17, 64, 300} {
			ep := refrlp.L(refrlp.S(r.Bytes(iplen)), refrlp.U(1), refrlp.U(2))
			signed(sigdataOf(nc, typeByteFor(nc, "ping"), refrlp.Encode(refrlp.L(refrlp.U(4), ep, ep, refrlp.U(farFuture)))), "signed_odd_ip_length")
			nd := refrlp.L(refrlp.S(r.Bytes(iplen)), refrlp.U(1), refrlp.U(2), refrlp.S(r.Bytes(64)))
			signed(sigdataOf(nc, typeByteFor(nc, "neighbors"), refrlp.Encode(refrlp.L(refrlp.L(nd), refrlp.U(farFuture)))), "signed_odd_ip_length")
		}
		// integers at and beyond their field width, with and without leading zeros
		for _, ib := range [][]byte{{}, {0}, {0, 1}, {0xff, 0xff}, {1, 0, 0}, {0xff, 0xff, 0xff, 0xff, 0xff, 0xff, 0xff, 0xff}, {1, 0, 0, 0, 0, 0, 0, 0, 0}} {
			ep := refrlp.L(refrlp.S([]byte{127, 0, 0, 1}), refrlp.S(ib), refrlp.S(ib))
			signed(sigdataOf(nc, typeByteFor(nc, "ping"), refrlp.Encode(refrlp.L(refrlp.S(ib), ep, ep, refrlp.S(ib)))), "signed_integer_limits")
			signed(sigdataOf(nc, typeByteFor(nc, "findnode"), refrlp.Encode(refrlp.L(refrlp.S(r.Bytes(64)), refrlp.S(ib)))), "signed_integer_limits")
		}
		// wrong arity / wrong kinds
		for i := 0; i < 24; i++ {
			it := genBody(r, discKinds[i%4])
			switch i % 6 {
			case 0:
				it.List = it.List[:r.Intn(len(it.List))]
			case 1:
				it.List[r.Intn(len(it.List))] = refrlp.L()
			case 2:
				it.List[r.Intn(len(it.List))] = refrlp.S(nil)
			case 3:
				it = refrlp.S(refrlp.Encode(it))
			case 4:
				it.List[0] = refrlp.L(it.List[0], it.List[0])
			default:
				it.List = append([]*refrlp.Item{refrlp.S(r.Bytes(3))}, it.List...)
			}
			signed(sigdataOf(nc, typeByteFor(nc, discKinds[i%4]), refrlp.Encode(it)), "signed_wrong_shape")
		}
		// valid packet followed by trailing bytes; oversize datagrams
		for _, extra := range []int{1, 16, 300, 1100, 1300, 4000} {
			pay(append(clone(base.payload), r.Bytes(extra)...), "signed_trailing_bytes")
		}
		// foreign / missing tag
		if !nc {
			signed(append(append([]byte{tb}, []byte("AQUA")...), base.payload...), "signed_foreign_tag")
			signed(append([]byte{tb}, base.payload...), "signed_missing_tag")
		} else {
			signed(append(append([]byte{tb}, aquaTag...), base.payload...), "signed_unexpected_tag")
		}
		// expired / zero / maximal expiration
		for _, exp := range []uint64{0, 1, 1500000000, ^uint64(0)} {
			ep := refrlp.L(refrlp.S([]byte{127, 0, 0, 1}), refrlp.U(30303), refrlp.U(30303))
			signed(sigdataOf(nc, typeByteFor(nc, "ping"), refrlp.Encode(refrlp.L(refrlp.U(4), ep, ep, refrlp.U(exp)))), "signed_expiration_limits")
			signed(sigdataOf(nc, typeByteFor(nc, "findnode"), refrlp.Encode(refrlp.L(refrlp.S(r.Bytes(64)), refrlp.U(exp)))), "signed_expiration_limits")
		}
	}
}

// ---- in-process leg ---------------------------------------------------------------

type groupInput struct {
	Group     string `json:"group"`
	Netcompat bool   `json:"netcompat"`
	Kind      string `json:"base_kind"`
	Base      string `json:"base_datagram"`
	BaseKey   string `json:"base_key"`
	AtkKey    string `json:"attacker_key"`
	Round     int    `json:"round"`
}

func runDiscDecode(c *fw.Ctx) {
	rounds := c.Pick(3, 60)
	checkEncoderAgainstReference(c)
	for round := 0; round < rounds; round++ {
		for _, nc := range []bool{false, true} {
			for gi, g := range groupNames {
				r := c.Rand("disc", fmt.Sprint(round), fmt.Sprint(nc), g)
				key, atk := keyFrom(r), keyFrom(r)
				base := genBase(r, nc, discKinds[(round+gi)%4], key)
				in := groupInput{Group: g, Netcompat: nc, Kind: base.kind, Base: hx(base.datagram), BaseKey: hx(key.Serialize()), AtkKey: hx(atk.Serialize()), Round: round}
				id := fmt.Sprintf("disc-%d-%v-%s", round, nc, g)
				c.Case(id, in, func() {
					var st discStats
					n := 0
					genGroup(r, g, base, atk, func(d dgram) {
						n++
						if n%64 == 1 {
							c.Note("%s datagram #%d %s", id, n, d.what)
						}
						checkDecode(c, nc, d.d, d.exp, d.signer, d.what, &st)
						if d.exp == expTampered {
							c.Count("tampered_datagrams_presented")
						}
						if classify(nc, d.d) == "signed_packet_body_shorter_than_tag" {
							c.Count("signed_body_shorter_than_tag_presented")
						}
					})
					c.Count("group_" + g)
					if st.accepted > 0 && st.rejected > 0 {
						c.Nontrivial(id + in.Base)
					}
					if round == 0 && !nc && (g == "mutsigned" || g == "typelen") {
						c.Sample(map[string]interface{}{"case": id, "group": g, "base_datagram": in.Base, "datagrams": n, "accepted": st.accepted, "rejected": st.rejected})
					}
				})
			}
		}
	}
}

// checkEncoderAgainstReference: what the node writes (encodePacket) is what the
// independent codec of this harness produces for the same fields and key, and
// it decodes back to the same fields.
func checkEncoderAgainstReference(c *fw.Ctx) {
	r := c.Rand("encoder")
	c.Case("disc-encoder", map[string]string{"what": "encodePacket vs reference codec, 4 kinds x 2 modes"}, func() {
		for i := 0; i < 64; i++ {
			nc := i%2 == 1
			key := keyFrom(r)
			kind := discKinds[(i/2)%4]
			ep := func() discover.VerifRPCEndpoint {
				return discover.VerifMakeEndpoint(&net.UDPAddr{IP: net.IP(genIP(r)), Port: r.Intn(65536)}, uint16(r.Intn(65536)))
			}
			var req interface{}
			switch kind {
			case "ping":
				req = &discover.VerifPing{Version: 4, From: ep(), To: ep(), Expiration: farFuture}
			case "pong":
				req = &discover.VerifPong{To: ep(), ReplyTok: r.Bytes(32), Expiration: farFuture}
			case "findnode":
				var t discover.NodeID
				copy(t[:], r.Bytes(64))
				req = &discover.VerifFindnode{Target: t, Expiration: farFuture}
			default:
				nb := &discover.VerifNeighbors{Expiration: farFuture}
				for n := r.Range(0, discover.VerifMaxNeighbors()); n > 0; n-- {
					var t discover.NodeID
					copy(t[:], r.Bytes(64))
					nb.Nodes = append(nb.Nodes, discover.VerifRPCNode{IP: genIP(r), UDP: uint16(r.Intn(65536)), TCP: uint16(r.Intn(65536)), ID: t})
				}
				req = nb
			}
			tb := typeByteFor(nc, kind)
			got, hash, err := discover.VerifEncodePacket(nc, key, tb, req)
			if err != nil {
				c.Violate("honest_packet_rejected", "encodePacket", kind, err.Error())
				continue
			}
			it, _, _ := itemOfPacket(req)
			want := seal(key, sigdataOf(nc, tb, refrlp.Encode(it)))
			c.Count("encoder_compared")
			if !bytes.Equal(got, want) || !bytes.Equal(hash, want[:dMacSize]) {
				c.Violate("written_differs_from_message", "encodePacket", kind, fmt.Sprintf("encodePacket wrote %x, reference encoding of the same fields and key is %x", got, want))
				continue
			}
			id := pubID(key)
			var st discStats
			checkDecode(c, nc, got, expAccept, &id, "valid_"+kind, &st)
		}
	})
}
