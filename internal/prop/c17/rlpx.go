package c17

// RLPx sessions between two real endpoints (hook H6): what one side writes is
// what the other side reads; a fault injected on the wire is detected before
// the affected message (or anything after it) is delivered.

import (
	"bytes"
	"fmt"
	"io"
	"net"
	"time"

	"github.com/btcsuite/btcd/btcec/v2"
	"github.com/golang/snappy"
	"gitlab.com/aquachain/aquachain/p2p"
	"gitlab.com/aquachain/aquachain/p2p/discover"
	"verif/internal/fw"
	"verif/internal/ref/refrlp"
)

const maxFrame = 1<<24 - 1 // largest frame content the 24-bit header can name

type wireMsg struct {
	Code    uint64 `json:"code"`
	Size    int    `json:"size"`
	Fill    string `json:"fill"` // "rand" | "zero" | "text": how the payload is produced from Seed
	Seed    uint64 `json:"seed"`
	payload []byte
}

func (m *wireMsg) bytes() []byte {
	if m.payload != nil || m.Size == 0 {
		return m.payload
	}
	switch m.Fill {
	case "zero":
		m.payload = make([]byte, m.Size)
	case "text":
		m.payload = bytes.Repeat([]byte("aquachain-frame "), m.Size/16+1)[:m.Size]
	default:
		m.payload = fw.NewRand(m.Seed, "payload").Bytes(m.Size)
	}
	return m.payload
}

type helloSpec struct {
	Version uint64 `json:"version"`
	Name    string `json:"name"`
	Caps    []p2p.Cap
	Port    uint64 `json:"port"`
}

type sessionSpec struct {
	Transport string    `json:"transport"` // pipe | tcp
	Relay     bool      `json:"relay"`
	KeyA      string    `json:"key_initiator"`
	KeyB      string    `json:"key_receiver"`
	Snappy    bool      `json:"snappy"`
	HelloA    helloSpec `json:"hello_initiator"`
	HelloB    helloSpec `json:"hello_receiver"`
	AtoB      []wireMsg `json:"a_to_b"`
	BtoA      []wireMsg `json:"b_to_a"`
	Fault     *fault    `json:"fault,omitempty"`
}

type sessionResult struct {
	hsErrA, hsErrB       error
	helloErrA, helloErrB error
	deliveredAB          int // messages B read from A (after hello)
	deliveredBA          int
	helloAB, helloBA     bool // hello of A delivered to B / of B delivered to A
	readErrAB, readErrBA error
	refusedWrites        int
	timeout              bool
	faultApplied         bool
	faultOff             int64
	hsLen                int64
}

func helloItem(h helloSpec, id discover.NodeID) *refrlp.Item {
	caps := refrlp.L()
	for _, cp := range h.Caps {
		caps.List = append(caps.List, refrlp.L(refrlp.S([]byte(cp.Name)), refrlp.U(uint64(cp.Version))))
	}
	return refrlp.L(refrlp.U(h.Version), refrlp.S([]byte(h.Name)), caps, refrlp.U(h.Port), refrlp.S(id[:]))
}

func frameLen(content int) int {
	n := content
	if n%16 != 0 {
		n += 16 - n%16
	}
	return 32 + n + 16
}

// wireContent is the frame content length of a message as the writer will put
// it on the wire; ok=false if the writer must refuse it.
func wireContent(m *wireMsg, snap bool) (n int, ok bool) {
	cl := len(refrlp.Encode(refrlp.U(m.Code)))
	if snap {
		if m.Size > maxFrame {
			return 0, false
		}
		n = cl + len(snappy.Encode(nil, m.bytes()))
	} else {
		n = cl + m.Size
	}
	return n, n <= maxFrame
}

func mkHello(h helloSpec, id discover.NodeID) *p2p.VerifProtoHandshake {
	return &p2p.VerifProtoHandshake{Version: h.Version, Name: h.Name, Caps: h.Caps, ListenPort: h.Port, ID: id}
}

func helloEqual(got *p2p.VerifProtoHandshake, want helloSpec, id discover.NodeID) bool {
	if got == nil || got.Version != want.Version || got.Name != want.Name || got.ListenPort != want.Port || got.ID != id || len(got.Caps) != len(want.Caps) || len(got.Rest) != 0 {
		return false
	}
	for i := range got.Caps {
		if got.Caps[i] != want.Caps[i] {
			return false
		}
	}
	return true
}

// runSession executes one session and returns what happened; violations of
// "what is delivered is what was written" are reported directly.
func runSession(c *fw.Ctx, sp *sessionSpec) *sessionResult {
	res := &sessionResult{}
	// payloads are produced lazily from their seeds: do it before any goroutine
	// of the session exists
	for i := range sp.AtoB {
		sp.AtoB[i].bytes()
	}
	for i := range sp.BtoA {
		sp.BtoA[i].bytes()
	}
	keyA, _ := btcec.PrivKeyFromBytes(unhx(sp.KeyA))
	keyB, _ := btcec.PrivKeyFromBytes(unhx(sp.KeyB))
	idA, idB := pubID(keyA), pubID(keyB)
	idle := time.Duration(0)
	if sp.Fault != nil && sp.Fault.Region == "hs" {
		idle = 1500 * time.Millisecond
	}
	connA, connB, rl, err := linkedPair(sp.Transport, sp.Relay, sp.Fault, idle)
	if err != nil {
		c.Inconclusive("conn_setup_failed")
		res.timeout = true
		return res
	}
	closeAll := func() {
		connA.Close()
		connB.Close()
		if rl != nil {
			rl.closeBoth()
		}
	}
	defer func() {
		closeAll()
		if rl != nil {
			rl.Wait()
			res.faultApplied = rl.Applied()
			res.faultOff = rl.absOff
			res.hsLen = rl.hsLen
		}
	}()
	tA, tB := p2p.VerifNewRLPX(connA), p2p.VerifNewRLPX(connB)

	type hsOut struct {
		id  discover.NodeID
		err error
		pan string
	}
	chA, chB := make(chan hsOut, 1), make(chan hsOut, 1)
	go func() {
		var o hsOut
		p, msg, st := safely(func() { o.id, o.err = tA.DoEncHandshake(keyA.ToECDSA(), &discover.Node{ID: idB}) })
		if p {
			o.pan = msg + "\n" + st
		}
		chA <- o
	}()
	go func() {
		var o hsOut
		p, msg, st := safely(func() { o.id, o.err = tB.DoEncHandshake(keyB.ToECDSA(), nil) })
		if p {
			o.pan = msg + "\n" + st
		}
		chB <- o
	}()
	var oA, oB hsOut
	gotA, gotB := false, false
	for !gotA || !gotB {
		select {
		case oA = <-chA:
			gotA = true
			if oA.err != nil || oA.pan != "" {
				closeAll()
			}
		case oB = <-chB:
			gotB = true
			if oB.err != nil || oB.pan != "" {
				closeAll()
			}
		}
	}
	fcause := "no_fault"
	if sp.Fault != nil {
		fcause = sp.Fault.Kind + "_in_" + sp.Fault.Region
	}
	for side, o := range map[string]hsOut{"initiator": oA, "receiver": oB} {
		if o.pan != "" {
			c.Violate("panic", "doEncHandshake", side+"_"+fcause, "encryption handshake panicked: "+o.pan)
		}
	}
	res.hsErrA, res.hsErrB = oA.err, oB.err
	if oA.pan != "" || oB.pan != "" {
		return res
	}
	if isTimeout(oA.err) || isTimeout(oB.err) {
		res.timeout = true
	}
	if oA.err != nil || oB.err != nil {
		return res
	}
	// both sides completed the key agreement: each must have identified the other
	if oA.id != idB {
		c.Violate("accepted_unauthenticated", "doEncHandshake", "initiator_remote_id", fmt.Sprintf("initiator identified the remote as %x..., it is %x...", oA.id[:8], idB[:8]))
	}
	if oB.id != idA {
		c.Violate("accepted_unauthenticated", "doEncHandshake", "receiver_remote_id", fmt.Sprintf("receiver identified the remote as %x..., it is %x...", oB.id[:8], idA[:8]))
	}
	c.Count("rlpx_enc_handshakes_completed")

	// protocol handshake (hello), both directions at once
	type phOut struct {
		their *p2p.VerifProtoHandshake
		err   error
		pan   string
	}
	pA, pB := make(chan phOut, 1), make(chan phOut, 1)
	go func() {
		var o phOut
		p, msg, st := safely(func() { o.their, o.err = tA.DoProtoHandshake(mkHello(sp.HelloA, idA)) })
		if p {
			o.pan = msg + "\n" + st
		}
		pA <- o
	}()
	go func() {
		var o phOut
		p, msg, st := safely(func() { o.their, o.err = tB.DoProtoHandshake(mkHello(sp.HelloB, idB)) })
		if p {
			o.pan = msg + "\n" + st
		}
		pB <- o
	}()
	var hA, hB phOut
	gotA, gotB = false, false
	for !gotA || !gotB {
		select {
		case hA = <-pA:
			gotA = true
			if hA.err != nil || hA.pan != "" {
				closeAll()
			}
		case hB = <-pB:
			gotB = true
			if hB.err != nil || hB.pan != "" {
				closeAll()
			}
		}
	}
	for side, o := range map[string]phOut{"initiator": hA, "receiver": hB} {
		if o.pan != "" {
			c.Violate("panic", "doProtoHandshake", side+"_"+fcause, "protocol handshake panicked: "+o.pan)
		}
	}
	res.helloErrA, res.helloErrB = hA.err, hB.err
	if isTimeout(hA.err) || isTimeout(hB.err) {
		res.timeout = true
	}
	// a hello that was read (even if our own write failed afterwards) was delivered
	if hA.err == nil && hA.their != nil {
		res.helloBA = true
		if !helloEqual(hA.their, sp.HelloB, idB) {
			c.Violate("delivered_differs_from_written", "doProtoHandshake", "hello_"+fcause, fmt.Sprintf("initiator read hello %+v, receiver wrote %+v", hA.their, sp.HelloB))
		}
	}
	if hB.err == nil && hB.their != nil {
		res.helloAB = true
		if !helloEqual(hB.their, sp.HelloA, idA) {
			c.Violate("delivered_differs_from_written", "doProtoHandshake", "hello_"+fcause, fmt.Sprintf("receiver read hello %+v, initiator wrote %+v", hB.their, sp.HelloA))
		}
	}
	if hA.err != nil || hB.err != nil || hA.pan != "" || hB.pan != "" {
		return res
	}
	c.Count("rlpx_hello_exchanged")
	// An endpoint that announces a version below 5 stands for a legacy node,
	// which never compresses; compression is in use iff both announce >= 5.
	if sp.HelloA.Version < p2p.VerifSnappyProtocolVersion {
		tA.SetSnappy(false)
	}
	if sp.HelloB.Version < p2p.VerifSnappyProtocolVersion {
		tB.SetSnappy(false)
	}
	if sp.Snappy != (sp.HelloA.Version >= p2p.VerifSnappyProtocolVersion && sp.HelloB.Version >= p2p.VerifSnappyProtocolVersion) {
		c.Inconclusive("spec_snappy_mismatch")
	}
	if sp.HelloA.Version != sp.HelloB.Version {
		c.Count("rlpx_mixed_version_sessions")
	}

	// message phases
	phase := func(w, r *p2p.VerifRLPX, msgs []wireMsg, dirName string, closeWriterAfter net.Conn) (delivered int, rerr error) {
		if len(msgs) == 0 {
			return 0, nil
		}
		wdone := make(chan struct{})
		go func() {
			defer close(wdone)
			for i := range msgs {
				m := &msgs[i]
				_, fits := wireContent(m, sp.Snappy)
				var werr error
				p, pmsg, st := safely(func() {
					werr = w.WriteMsg(p2p.Msg{Code: m.Code, Size: uint32(m.Size), Payload: bytes.NewReader(m.bytes())})
				})
				if p {
					c.Violate("panic", "WriteMsg", dirName, "WriteMsg panicked: "+pmsg+"\n"+st)
					return
				}
				if !fits {
					if werr == nil {
						c.Violate("allocation_beyond_limit", "WriteMsg", "frame_larger_than_24_bits", fmt.Sprintf("message of %d bytes (code %d) does not fit a frame but was written without error", m.Size, m.Code))
					} else {
						c.Count("rlpx_oversize_write_refused")
						res.refusedWrites++
					}
					continue
				}
				if werr != nil {
					if isTimeout(werr) {
						res.timeout = true
					}
					return
				}
			}
			if closeWriterAfter != nil {
				closeWriterAfter.Close()
			}
		}()
		want := 0
		for i := range msgs {
			if _, fits := wireContent(&msgs[i], sp.Snappy); fits {
				want++
			}
		}
		idx := 0 // index into msgs of the next message expected to be delivered
		next := func() int {
			for idx < len(msgs) {
				if _, fits := wireContent(&msgs[idx], sp.Snappy); fits {
					return idx
				}
				idx++
			}
			return -1
		}
		for delivered < want {
			var msg p2p.Msg
			var err error
			var body []byte
			a0 := allocBytes()
			p, pmsg, st := safely(func() {
				msg, err = r.ReadMsg()
				if err == nil {
					body, err = io.ReadAll(msg.Payload)
				}
			})
			grew := allocBytes() - a0
			if p {
				c.Violate("panic", "ReadMsg", dirName+"_"+fcause, "ReadMsg panicked: "+pmsg+"\n"+st)
				rerr = fmt.Errorf("panic")
				break
			}
			if grew > 512<<20 {
				c.Violate("allocation_beyond_limit", "ReadMsg", dirName+"_"+fcause, fmt.Sprintf("reading one message allocated %d bytes", grew))
			}
			if err != nil {
				rerr = err
				break
			}
			j := next()
			if j < 0 {
				c.Violate("delivered_differs_from_written", "ReadMsg", dirName+"_"+fcause, fmt.Sprintf("a message (code %d, %d bytes) was delivered that was never written", msg.Code, len(body)))
				break
			}
			m := &msgs[j]
			if msg.Code != m.Code || int(msg.Size) != m.Size || !bytes.Equal(body, m.bytes()) {
				c.Violate("delivered_differs_from_written", "ReadMsg", dirName+"_"+fcause,
					fmt.Sprintf("message %d: written code %d size %d, delivered code %d size %d (payload equal: %v)", j, m.Code, m.Size, msg.Code, msg.Size, bytes.Equal(body, m.bytes())))
				break
			}
			delivered++
			idx++
			c.Count("rlpx_messages_delivered_equal")
			if m.Size >= 1<<20 {
				c.Count("rlpx_messages_over_1MiB_delivered")
			}
		}
		if rerr != nil || delivered < want {
			closeAll()
		}
		<-wdone
		return delivered, rerr
	}
	var closeA, closeB net.Conn
	if sp.Fault != nil {
		// in a fault session the stream ends after the writer is done, so a
		// reader that lost bytes sees the end of the stream instead of waiting
		closeA, closeB = connA, connB
	}
	res.deliveredAB, res.readErrAB = phase(tA, tB, sp.AtoB, "initiator_to_receiver", closeA)
	if res.readErrAB == nil {
		res.deliveredBA, res.readErrBA = phase(tB, tA, sp.BtoA, "receiver_to_initiator", closeB)
	}
	if isTimeout(res.readErrAB) || isTimeout(res.readErrBA) {
		res.timeout = true
	}
	return res
}

// ---- generators -----------------------------------------------------------------------

var codeLattice = []uint64{0, 1, 2, 3, 15, 16, 17, 0x7f, 0x80, 0xff, 0x100, 0xffff, 1 << 16, 1<<32 - 1, 1 << 32, 1<<63 - 1, 1 << 63, 1<<64 - 1}

func genHello(r *fw.Rand, snap bool) helloSpec {
	h := helloSpec{Version: 4, Name: fmt.Sprintf("verif/%x", r.Bytes(r.Range(0, 20))), Port: uint64(r.Intn(65536))}
	if snap {
		h.Version = 5
	}
	for n := r.Range(0, 3); n > 0; n-- {
		h.Caps = append(h.Caps, p2p.Cap{Name: []string{"aqua", "eth", "x"}[r.Intn(3)], Version: uint(r.Range(0, 70))})
	}
	return h
}

func genMsgs(r *fw.Rand, n int, maxSize int) []wireMsg {
	var out []wireMsg
	for i := 0; i < n; i++ {
		m := wireMsg{Seed: r.Uint64(), Fill: []string{"rand", "zero", "text"}[r.Intn(3)]}
		if r.Chance(1, 2) {
			m.Code = codeLattice[r.Intn(len(codeLattice))]
		} else {
			m.Code = r.Uint64() >> uint(r.Intn(64))
		}
		switch r.Intn(8) {
		case 0:
			m.Size = 0
		case 1:
			m.Size = r.Range(1, 17)
		case 2:
			m.Size = []int{14, 15, 16, 31, 32, 33, 255, 256, 1023, 1024, 65535, 65536}[r.Intn(12)]
		case 3:
			m.Size = r.Range(0, maxSize)
		default:
			m.Size = r.Range(0, 2000)
		}
		if m.Size > maxSize {
			m.Size = maxSize
		}
		out = append(out, m)
	}
	return out
}

func newSpec(r *fw.Rand, transport string, relay, snap bool) *sessionSpec {
	return &sessionSpec{Transport: transport, Relay: relay, Snappy: snap,
		KeyA: hx(keyFrom(r).Serialize()), KeyB: hx(keyFrom(r).Serialize()),
		HelloA: genHello(r, snap), HelloB: genHello(r, snap)}
}

// frameOffsets returns, for a message list, the start offset of every frame
// relative to the end of the handshake packet (frame 0 is the hello) and the
// total length.
func frameOffsets(hello helloSpec, id discover.NodeID, msgs []wireMsg, snap bool) (starts []int, total int) {
	starts = append(starts, 0)
	total = frameLen(1 + len(refrlp.Encode(helloItem(hello, id))))
	for i := range msgs {
		n, ok := wireContent(&msgs[i], snap)
		if !ok {
			continue
		}
		starts = append(starts, total)
		total += frameLen(n)
	}
	return
}

// judgeFault applies the detection rule of a fault session. frames: starts of
// the frames of the faulted direction; delivered counts include nothing but
// post-hello messages; helloDelivered is for the faulted direction.
func judgeFault(c *fw.Ctx, sp *sessionSpec, res *sessionResult) {
	f := sp.Fault
	if !res.faultApplied {
		c.Count("rlpx_fault_not_reached")
		return
	}
	c.Count("rlpx_fault_applied")
	c.Count("rlpx_fault_" + f.Kind + "_" + f.Region)
	cause := f.Kind + "_in_" + f.Region
	dirName := []string{"initiator_to_receiver", "receiver_to_initiator"}[f.Dir]
	keyA, _ := btcec.PrivKeyFromBytes(unhx(sp.KeyA))
	keyB, _ := btcec.PrivKeyFromBytes(unhx(sp.KeyB))
	hello, id, msgs := sp.HelloA, pubID(keyA), sp.AtoB
	helloDelivered, delivered := res.helloAB, res.deliveredAB
	if f.Dir == 1 {
		hello, id, msgs = sp.HelloB, pubID(keyB), sp.BtoA
		helloDelivered, delivered = res.helloBA, res.deliveredBA
	}
	if f.Region == "hs" {
		// the handshake packet of this direction was altered: the key agreement
		// must not complete into a session that delivers anything in either direction
		hAB, hBA := res.helloAB, res.helloBA
		if f.Kind != "flip" && f.Kind != "cut" && res.faultOff >= res.hsLen-3 {
			// a byte dropped, doubled or inserted at the very end of the packet can,
			// when neighbouring ciphertext bytes are equal, leave the packet intact and
			// shift the frames behind it instead: then only this direction is judged
			if f.Dir == 0 {
				hBA = false
			} else {
				hAB = false
			}
		}
		if hAB || hBA || res.deliveredAB > 0 || res.deliveredBA > 0 {
			c.Violate("tamper_undetected", "doEncHandshake", cause+"_"+dirName,
				fmt.Sprintf("handshake packet altered at offset %d (%s) yet messages were delivered (hello A->B %v, B->A %v, msgs %d/%d)", res.faultOff, f.Kind, res.helloAB, res.helloBA, res.deliveredAB, res.deliveredBA))
		} else {
			c.Count("rlpx_handshake_tamper_detected")
		}
		return
	}
	starts, total := frameOffsets(hello, id, msgs, sp.Snappy)
	off := f.Off
	if off >= total {
		return
	}
	// index of the frame holding the first altered byte (frame 0 = hello)
	fi := 0
	for i := range starts {
		if starts[i] <= off {
			fi = i
		}
	}
	// frames before fi may be delivered; frame fi and everything after must not.
	// replay: the window is frame fi itself, which is delivered once; its copy
	// must not be.
	allowed := fi // number of frames (incl. hello) that may be delivered
	if f.Kind == "replay" {
		allowed = fi + 1
	}
	// a byte dropped, doubled or inserted changes the stream from the first
	// position where the shifted bytes differ, which is later than the fault
	// offset when neighbouring ciphertext bytes happen to be equal; at the very
	// end of a frame that can leave the frame itself intact (doubling its last
	// byte always does). Such faults are charged to the next frame.
	if f.Kind == "drop" && f.Len == 1 || f.Kind == "dup" || f.Kind == "insert" {
		end := total
		if fi+1 < len(starts) {
			end = starts[fi+1]
		}
		if off >= end-3 {
			allowed = fi + 1
		}
	}
	got := delivered
	if helloDelivered {
		got++
	}
	if got > allowed {
		c.Violate("tamper_undetected", "ReadMsg", cause+"_"+dirName,
			fmt.Sprintf("stream altered at frame %d (offset %d after the handshake, %s): %d frames were delivered, at most %d are untouched", fi, off, f.Kind, got, allowed))
		return
	}
	c.Count("rlpx_frame_tamper_detected")
}

func judgeHonest(c *fw.Ctx, sp *sessionSpec, res *sessionResult, id string) {
	if res.timeout {
		c.Inconclusive("rlpx_timeout")
		return
	}
	wantAB, wantBA := 0, 0
	for i := range sp.AtoB {
		if _, ok := wireContent(&sp.AtoB[i], sp.Snappy); ok {
			wantAB++
		}
	}
	for i := range sp.BtoA {
		if _, ok := wireContent(&sp.BtoA[i], sp.Snappy); ok {
			wantBA++
		}
	}
	switch {
	case res.hsErrA != nil || res.hsErrB != nil:
		c.Violate("honest_message_lost", "doEncHandshake", "untouched_stream", fmt.Sprintf("handshake between two honest endpoints failed: initiator %v, receiver %v", res.hsErrA, res.hsErrB))
	case res.helloErrA != nil || res.helloErrB != nil:
		c.Violate("honest_message_lost", "doProtoHandshake", "untouched_stream", fmt.Sprintf("hello exchange between two honest endpoints failed: initiator %v, receiver %v", res.helloErrA, res.helloErrB))
	case res.deliveredAB != wantAB || res.deliveredBA != wantBA:
		c.Violate("honest_message_lost", "ReadMsg", "untouched_stream", fmt.Sprintf("delivered %d/%d and %d/%d messages over an untouched stream (read errors: %v, %v)", res.deliveredAB, wantAB, res.deliveredBA, wantBA, res.readErrAB, res.readErrBA))
	default:
		c.Count("rlpx_honest_sessions_complete")
		if wantAB+wantBA >= 2 {
			c.Nontrivial(id + sp.KeyA)
		}
	}
}

func runRLPX(c *fw.Ctx) {
	race := c.Leg == "rlpx-race"
	// 1. honest sessions
	nHonest := c.Pick(24, 400)
	if race {
		nHonest = 24
	}
	for i := 0; i < nHonest; i++ {
		r := c.Rand("honest", fmt.Sprint(i))
		transport := []string{"pipe", "tcp"}[i%2]
		sp := newSpec(r, transport, i%4 >= 2, i%3 != 0)
		if i%6 == 1 || i%6 == 4 {
			// the two ends announce different versions (4 vs 5): no compression
			sp.HelloA.Version, sp.HelloB.Version, sp.Snappy = 5, 4, false
			if i%6 == 4 {
				sp.HelloA.Version, sp.HelloB.Version = 4, 5
			}
		}
		sp.AtoB = genMsgs(r, r.Range(1, 6), 70000)
		sp.BtoA = genMsgs(r, r.Range(0, 5), 70000)
		id := fmt.Sprintf("rlpx-honest-%d", i)
		c.Case(id, sp, func() {
			res := runSession(c, sp)
			judgeHonest(c, sp, res, id)
			if i < 2 {
				c.Sample(map[string]interface{}{"case": id, "transport": sp.Transport, "snappy": sp.Snappy, "a_to_b": len(sp.AtoB), "b_to_a": len(sp.BtoA), "delivered": res.deliveredAB + res.deliveredBA})
			}
		})
	}
	// 2. size limits: messages at the 24-bit frame boundary (one batch in four)
	if c.Batch%4 == 0 {
		for i, snap := range []bool{false, true} {
			r := c.Rand("big", fmt.Sprint(i))
			sp := newSpec(r, "pipe", false, snap)
			sp.AtoB = []wireMsg{
				{Code: 16, Size: maxFrame - 1, Fill: "text", Seed: 1}, // largest that fits (1-byte code)
				{Code: 16, Size: maxFrame, Fill: "zero", Seed: 2},     // one too many without compression
				{Code: 1 << 40, Size: maxFrame - 6, Fill: "zero", Seed: 3},
				{Code: 3, Size: 1 << 24, Fill: "zero", Seed: 4}, // 16 MiB: never fits
				{Code: 3, Size: 5, Fill: "rand", Seed: 5},
			}
			if snap {
				sp.AtoB = append(sp.AtoB, wireMsg{Code: 17, Size: maxFrame, Fill: "rand", Seed: 6}) // incompressible: compressed form too long
			}
			id := fmt.Sprintf("rlpx-limits-%v", snap)
			c.Case(id, sp, func() {
				res := runSession(c, sp)
				judgeHonest(c, sp, res, id)
				c.Count("rlpx_limit_sessions")
			})
		}
	}
	// 3. one fault at every byte offset of a short stream
	nSweep := c.Pick(1, 8)
	if race {
		nSweep = 0
	}
	for s := 0; s < nSweep; s++ {
		r := c.Rand("sweep", fmt.Sprint(s))
		dir := (c.Batch + s) % 2
		snap := (c.Batch/2+s)%2 == 0
		proto := newSpec(r, []string{"pipe", "tcp"}[(c.Batch/4+s)%2], true, snap)
		msgs := []wireMsg{{Code: 16, Size: r.Range(0, 15), Fill: "rand", Seed: r.Uint64()}, {Code: uint64(r.Range(17, 300)), Size: r.Range(16, 40), Fill: "rand", Seed: r.Uint64()}, {Code: 1 << 33, Size: r.Range(1, 20), Fill: "text", Seed: r.Uint64()}}
		keyA, _ := btcec.PrivKeyFromBytes(unhx(proto.KeyA))
		keyB, _ := btcec.PrivKeyFromBytes(unhx(proto.KeyB))
		hello, hid := proto.HelloA, pubID(keyA)
		if dir == 1 {
			hello, hid = proto.HelloB, pubID(keyB)
		}
		_, total := frameOffsets(hello, hid, msgs, snap)
		kinds := []string{"flip", "drop", "dup", "insert"}
		for off := 0; off < total; off++ {
			kind := kinds[(off+s)%len(kinds)]
			if off%16 == 15 || off%16 == 0 {
				kind = "flip" // always flip the first and last byte of every 16-byte unit (MAC ends)
			}
			sp := *proto
			sp.AtoB, sp.BtoA = nil, nil
			if dir == 0 {
				sp.AtoB = append([]wireMsg(nil), msgs...)
			} else {
				sp.BtoA = append([]wireMsg(nil), msgs...)
			}
			f := &fault{Dir: dir, Region: "frames", Off: off, Len: 1, Kind: kind, Bit: byte(1 << uint(r.Intn(8)))}
			if kind == "insert" {
				f.Len = 0
			}
			sp.Fault = f
			id := fmt.Sprintf("rlpx-sweep-%d-%d", s, off)
			c.Case(id, &sp, func() {
				res := runSession(c, &sp)
				judgeFault(c, &sp, res)
				c.Count("rlpx_sweep_positions")
				if res.faultApplied && (res.deliveredAB+res.deliveredBA > 0 || res.helloAB || res.helloBA) {
					c.Nontrivial(id + sp.KeyA)
				}
			})
		}
	}
	// 4. PRNG faults: handshake region, long streams, frame-aligned replay/swap/drop, cut
	nFault := c.Pick(60, 1600)
	if race {
		nFault = 40
	}
	for i := 0; i < nFault; i++ {
		r := c.Rand("fault", fmt.Sprint(i))
		snap := r.Bool()
		sp := newSpec(r, []string{"pipe", "tcp"}[i%2], true, snap)
		dir := r.Intn(2)
		msgs := genMsgs(r, r.Range(2, 6), 3000)
		// distinct consecutive messages, so a replayed frame can never pass for the next one
		for j := range msgs {
			msgs[j].Code = uint64(16 + j)
		}
		if dir == 0 {
			sp.AtoB = msgs
		} else {
			sp.BtoA = msgs
		}
		keyA, _ := btcec.PrivKeyFromBytes(unhx(sp.KeyA))
		keyB, _ := btcec.PrivKeyFromBytes(unhx(sp.KeyB))
		hello, hid := sp.HelloA, pubID(keyA)
		if dir == 1 {
			hello, hid = sp.HelloB, pubID(keyB)
		}
		starts, total := frameOffsets(hello, hid, msgs, snap)
		f := &fault{Dir: dir, Bit: byte(1 << uint(r.Intn(8)))}
		switch i % 6 {
		case 0, 1: // handshake packet
			f.Region, f.Off, f.Len = "hs", r.Intn(1<<16), 1
			f.Kind = []string{"flip", "flip", "drop", "dup", "insert", "cut"}[r.Intn(6)]
			if i%12 == 0 {
				f.Off = r.Intn(3) // size prefix and first ciphertext byte
			}
		case 2: // byte fault somewhere in the frames
			f.Region, f.Off, f.Len = "frames", r.Intn(total), 1
			f.Kind = []string{"flip", "drop", "dup", "insert", "cut"}[r.Intn(5)]
		default: // whole-frame faults
			fi := r.Intn(len(starts))
			end := total
			if fi+1 < len(starts) {
				end = starts[fi+1]
			}
			f.Region, f.Off, f.Len = "frames", starts[fi], end-starts[fi]
			switch i % 6 {
			case 3:
				f.Kind = "replay"
			case 4:
				f.Kind = "drop"
			default:
				if fi+1 < len(starts) {
					end2 := total
					if fi+2 < len(starts) {
						end2 = starts[fi+2]
					}
					f.Kind, f.Split, f.Len = "swap", end-starts[fi], end2-starts[fi]
				} else {
					f.Kind = "replay"
				}
			}
		}
		if f.Kind == "insert" {
			f.Len = 0
		}
		sp.Fault = f
		id := fmt.Sprintf("rlpx-fault-%d", i)
		c.Case(id, sp, func() {
			res := runSession(c, sp)
			judgeFault(c, sp, res)
			if res.faultApplied && (res.helloAB || res.helloBA) {
				c.Nontrivial(id + sp.KeyA)
			}
			if i == 3 {
				c.Sample(map[string]interface{}{"case": id, "fault": f, "delivered_a_to_b": res.deliveredAB, "delivered_b_to_a": res.deliveredBA, "read_error": fmt.Sprint(res.readErrAB, res.readErrBA)})
			}
		})
	}
	// 5. the harness as a hostile peer
	runHostilePeers(c)
}
