package c17

// Byte-level man-in-the-middle between two endpoints: forwards both directions
// and applies at most one fault to one direction of the stream.

import (
	"encoding/binary"
	"net"
	"sync"
	"sync/atomic"
	"time"
)

type fault struct {
	Dir    int    `json:"dir"`    // 0: initiator->receiver stream, 1: receiver->initiator
	Region string `json:"region"` // "hs": offset inside the handshake packet (mod its length); "frames": offset after it
	Off    int    `json:"off"`
	Len    int    `json:"len"`   // window length: 1 for byte faults, 0 for insert, frame length(s) for frame faults
	Split  int    `json:"split"` // swap: length of the first part
	Kind   string `json:"kind"`  // flip | drop | dup | insert | cut | replay | swap
	Bit    byte   `json:"bit"`   // flip mask / inserted byte
}

func (f *fault) transform(win []byte) []byte {
	switch f.Kind {
	case "flip":
		out := clone(win)
		if len(out) > 0 {
			out[0] ^= f.Bit
		}
		return out
	case "drop":
		return nil
	case "dup", "replay":
		return append(clone(win), win...)
	case "insert":
		return append([]byte{f.Bit}, win...)
	case "swap":
		if f.Split <= len(win) {
			return append(clone(win[f.Split:]), win[:f.Split]...)
		}
	}
	return win
}

type relay struct {
	a, b     net.Conn // relay-side ends facing the initiator (a) and the receiver (b)
	f        *fault
	applied  int32
	absOff   int64 // resolved absolute offset of the fault (valid once applied)
	hsLen    int64 // length of the handshake packet of the faulted direction
	last     int64 // unix nano of last forwarded byte
	wg       sync.WaitGroup
	closeOne sync.Once
	stop     chan struct{}
}

func (rl *relay) Applied() bool { return atomic.LoadInt32(&rl.applied) == 1 }

func (rl *relay) closeBoth() {
	rl.closeOne.Do(func() {
		close(rl.stop)
		rl.a.Close()
		rl.b.Close()
	})
}

// startRelay forwards a<->b. idleClose > 0: once the fault has been applied
// and nothing has moved for that long, both sides are closed (so that a dropped
// byte does not leave both honest ends waiting for their own timeouts).
func startRelay(a, b net.Conn, f *fault, idleClose time.Duration) *relay {
	rl := &relay{a: a, b: b, f: f, stop: make(chan struct{})}
	atomic.StoreInt64(&rl.last, time.Now().UnixNano())
	rl.wg.Add(2)
	go rl.pump(b, a, 0)
	go rl.pump(a, b, 1)
	if idleClose > 0 && f != nil {
		go func() {
			t := time.NewTicker(idleClose / 4)
			defer t.Stop()
			for {
				select {
				case <-rl.stop:
					return
				case <-t.C:
					if rl.Applied() && time.Since(time.Unix(0, atomic.LoadInt64(&rl.last))) > idleClose {
						rl.closeBoth()
						return
					}
				}
			}
		}()
	}
	return rl
}

func (rl *relay) Wait() { rl.wg.Wait() }

func (rl *relay) pump(dst, src net.Conn, dir int) {
	defer rl.wg.Done()
	defer dst.Close() // propagate end of stream
	var f *fault
	if rl.f != nil && rl.f.Dir == dir {
		f = rl.f
	}
	buf := make([]byte, 64*1024)
	var (
		held     []byte // bytes read before the window could be resolved
		resolved = f == nil
		a, c     int
		pos      int
		win      []byte
		applied  bool
		hsEnd    = -1 // for a byte dropped from the handshake packet: where the packet ends
		consumed int
	)
	out := func(b []byte) bool {
		if len(b) == 0 {
			return true
		}
		atomic.StoreInt64(&rl.last, time.Now().UnixNano())
		_, err := dst.Write(b)
		return err == nil
	}
	process := func(data []byte) bool {
		for len(data) > 0 {
			if f == nil || applied {
				if hsEnd >= 0 && consumed+len(data) >= hsEnd {
					// The packet is now one byte short: its reader waits for a byte that
					// only the next message could bring, which the sender will not write
					// before it has an answer. Nothing can move any more; end the
					// connection instead of letting both ends run into their timeouts.
					k := hsEnd - consumed
					if k > 0 {
						out(data[:k])
					}
					rl.closeBoth()
					return false
				}
				consumed += len(data)
				return out(data)
			}
			if pos < a {
				k := a - pos
				if k > len(data) {
					k = len(data)
				}
				if !out(data[:k]) {
					return false
				}
				pos += k
				consumed += k
				data = data[k:]
				continue
			}
			if f.Kind == "cut" {
				atomic.StoreInt64(&rl.absOff, int64(a))
				atomic.StoreInt32(&rl.applied, 1)
				rl.closeBoth()
				return false
			}
			k := c - pos
			if k > len(data) {
				k = len(data)
			}
			win = append(win, data[:k]...)
			pos += k
			consumed += k
			data = data[k:]
			if pos == c {
				atomic.StoreInt64(&rl.absOff, int64(a))
				atomic.StoreInt32(&rl.applied, 1)
				applied = true
				if !out(f.transform(win)) {
					return false
				}
				win = nil
			}
		}
		return true
	}
	for {
		n, err := src.Read(buf)
		data := buf[:n]
		if !resolved && n > 0 {
			held = append(held, data...)
			data = nil
			if len(held) >= 2 {
				hsLen := 2 + int(binary.BigEndian.Uint16(held))
				atomic.StoreInt64(&rl.hsLen, int64(hsLen))
				if f.Region == "hs" && f.Kind == "drop" {
					hsEnd = hsLen
				}
				if f.Region == "hs" {
					a = f.Off % hsLen
					if f.Kind == "dup" && a == hsLen-1 && a > 0 {
						a-- // doubling the last byte would leave the packet itself intact
					}
					if f.Len > hsLen-a {
						c = hsLen
					} else {
						c = a + f.Len
					}
				} else {
					a = hsLen + f.Off
					c = a + f.Len
				}
				resolved = true
				data, held = held, nil
			}
		}
		if len(data) > 0 && !process(data) {
			return
		}
		if err != nil {
			if !applied && len(win) > 0 {
				out(win) // stream ended inside the window: forward untouched
			}
			if len(held) > 0 {
				out(held)
			}
			return
		}
	}
}

// ---- connection pairs --------------------------------------------------------------

func pipePair() (net.Conn, net.Conn, error) {
	a, b := net.Pipe()
	return a, b, nil
}

func tcpPair() (net.Conn, net.Conn, error) {
	ln, err := net.Listen("tcp4", "127.0.0.1:0")
	if err != nil {
		return nil, nil, err
	}
	defer ln.Close()
	type res struct {
		c   net.Conn
		err error
	}
	ch := make(chan res, 1)
	go func() {
		c, err := ln.Accept()
		ch <- res{c, err}
	}()
	a, err := net.DialTimeout("tcp4", ln.Addr().String(), 30*time.Second)
	if err != nil {
		return nil, nil, err
	}
	r := <-ch
	if r.err != nil {
		a.Close()
		return nil, nil, r.err
	}
	return a, r.c, nil
}

// linkedPair returns the two endpoint connections of a session, optionally
// with a relay between them.
func linkedPair(transport string, withRelay bool, f *fault, idleClose time.Duration) (ini, rec net.Conn, rl *relay, err error) {
	mk := pipePair
	if transport == "tcp" {
		mk = tcpPair
	}
	if !withRelay {
		ini, rec, err = mk()
		return ini, rec, nil, err
	}
	ini, ra, err := mk()
	if err != nil {
		return nil, nil, nil, err
	}
	rb, rec, err := mk()
	if err != nil {
		ini.Close()
		ra.Close()
		return nil, nil, nil, err
	}
	return ini, rec, startRelay(ra, rb, f, idleClose), nil
}
