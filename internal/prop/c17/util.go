package c17

import (
	"crypto/ecdsa"
	"encoding/hex"
	"fmt"
	"math/big"
	"regexp"
	"runtime"
	"runtime/metrics"
	"strings"
	"sync"
	"sync/atomic"
	"time"

	"github.com/btcsuite/btcd/btcec/v2"
	becdsa "github.com/btcsuite/btcd/btcec/v2/ecdsa"
	"gitlab.com/aquachain/aquachain/p2p/discover"
	"verif/internal/fw"
	"verif/internal/ref/refhash"
)

func hx(b []byte) string { return hex.EncodeToString(b) }

func unhx(s string) []byte {
	b, _ := hex.DecodeString(s)
	return b
}

func clone(b []byte) []byte { return append([]byte(nil), b...) }

// keyFrom derives a deterministic secp256k1 key from the PRNG.
func keyFrom(r *fw.Rand) *btcec.PrivateKey {
	for {
		b := r.Bytes(32)
		var s btcec.ModNScalar
		if overflow := s.SetByteSlice(b); overflow || s.IsZero() {
			continue
		}
		k, _ := btcec.PrivKeyFromBytes(b)
		return k
	}
}

// pubID is the 64-byte node id of a key, computed from the btcec key directly.
func pubID(k *btcec.PrivateKey) discover.NodeID {
	var id discover.NodeID
	copy(id[:], k.PubKey().SerializeUncompressed()[1:])
	return id
}

// signCompact signs a 32-byte digest; result is R||S||V with V in {0,1}
// (the devp2p wire format). Uses btcec directly, not the repo's crypto.Sign.
func signCompact(k *btcec.PrivateKey, digest []byte) []byte {
	sig := becdsa.SignCompact(k, digest, false)
	out := make([]byte, 65)
	copy(out, sig[1:])
	out[64] = sig[0] - 27
	return out
}

// sigVerifies reports whether (r,s) of the 65-byte wire signature is a valid
// ECDSA signature over digest for the public key encoded in id. It is a pure
// verification with the standard library over the curve parameters and does not
// use any public-key recovery code.
func sigVerifies(id discover.NodeID, digest, sig []byte) bool {
	if len(sig) < 64 {
		return false
	}
	x := new(big.Int).SetBytes(id[:32])
	y := new(big.Int).SetBytes(id[32:])
	curve := btcec.S256()
	if !curve.IsOnCurve(x, y) {
		return false
	}
	r := new(big.Int).SetBytes(sig[:32])
	s := new(big.Int).SetBytes(sig[32:64])
	if r.Sign() <= 0 || s.Sign() <= 0 || r.Cmp(curve.N) >= 0 || s.Cmp(curve.N) >= 0 {
		return false
	}
	return ecdsa.Verify(&ecdsa.PublicKey{Curve: curve, X: x, Y: y}, digest, r, s)
}

func keccak(b ...[]byte) []byte { return refhash.Keccak256(b...) }

// ---------------------------------------------------------------------------
// allocation meter: cumulative bytes allocated on the heap by the process.

var allocSample = []metrics.Sample{{Name: "/gc/heap/allocs:bytes"}}
var allocMu sync.Mutex

func allocBytes() uint64 {
	allocMu.Lock()
	defer allocMu.Unlock()
	metrics.Read(allocSample)
	if allocSample[0].Value.Kind() != metrics.KindUint64 {
		return 0
	}
	return allocSample[0].Value.Uint64()
}

// heapWatch samples runtime.MemStats.HeapAlloc in the background and keeps the
// high-water mark.
type heapWatch struct {
	stop chan struct{}
	done chan struct{}
	high uint64
	base uint64
}

func startHeapWatch(every time.Duration) *heapWatch {
	runtime.GC()
	var ms runtime.MemStats
	runtime.ReadMemStats(&ms)
	h := &heapWatch{stop: make(chan struct{}), done: make(chan struct{}), base: ms.HeapAlloc, high: ms.HeapAlloc}
	go func() {
		defer close(h.done)
		t := time.NewTicker(every)
		defer t.Stop()
		for {
			select {
			case <-h.stop:
				return
			case <-t.C:
				var m runtime.MemStats
				runtime.ReadMemStats(&m)
				for {
					old := atomic.LoadUint64(&h.high)
					if m.HeapAlloc <= old || atomic.CompareAndSwapUint64(&h.high, old, m.HeapAlloc) {
						break
					}
				}
			}
		}
	}()
	return h
}

func (h *heapWatch) High() uint64 { return atomic.LoadUint64(&h.high) }

func (h *heapWatch) Stop() uint64 {
	close(h.stop)
	<-h.done
	var m runtime.MemStats
	runtime.ReadMemStats(&m)
	if m.HeapAlloc > h.high {
		h.high = m.HeapAlloc
	}
	return h.high
}

// ---------------------------------------------------------------------------
// goroutine dumps

func allStacks() string {
	buf := make([]byte, 1<<20)
	for {
		n := runtime.Stack(buf, true)
		if n < len(buf) {
			return string(buf[:n])
		}
		buf = make([]byte, 2*len(buf))
	}
}

var reGoroutineHdr = regexp.MustCompile(`^goroutine (\d+) \[([^\]]*)\]:`)

type gor struct {
	id    string
	state string
	text  string
}

func parseStacks(dump string) []gor {
	var out []gor
	for _, blk := range strings.Split(dump, "\n\n") {
		blk = strings.TrimSpace(blk)
		m := reGoroutineHdr.FindStringSubmatch(blk)
		if m == nil {
			continue
		}
		out = append(out, gor{id: m[1], state: m[2], text: blk})
	}
	return out
}

// goroutinesWith returns the goroutines whose stack contains all the fragments.
func goroutinesWith(dump string, frags ...string) []gor {
	var out []gor
	for _, g := range parseStacks(dump) {
		ok := true
		for _, f := range frags {
			if !strings.Contains(g.text, f) {
				ok = false
				break
			}
		}
		if ok {
			out = append(out, g)
		}
	}
	return out
}

// safely runs fn, converting a panic into (true, message, stack).
func safely(fn func()) (panicked bool, msg string, stack string) {
	defer func() {
		if r := recover(); r != nil {
			panicked = true
			msg = fmt.Sprint(r)
			buf := make([]byte, 8192)
			stack = string(buf[:runtime.Stack(buf, false)])
		}
	}()
	fn()
	return
}

// stablePanic strips indices and addresses from a panic message.
func stablePanic(s string) string {
	if i := strings.IndexByte(s, '\n'); i >= 0 {
		s = s[:i]
	}
	s = regexp.MustCompile(`0x[0-9a-f]+`).ReplaceAllString(s, "0x?")
	s = regexp.MustCompile(`[0-9]+`).ReplaceAllString(s, "N")
	if len(s) > 100 {
		s = s[:100]
	}
	return s
}

func isTimeout(err error) bool {
	if err == nil {
		return false
	}
	type to interface{ Timeout() bool }
	if t, ok := err.(to); ok && t.Timeout() {
		return true
	}
	return strings.Contains(err.Error(), "i/o timeout") || strings.Contains(err.Error(), "deadline exceeded")
}
