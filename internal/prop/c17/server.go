package c17

// A real p2p.Server running the aqua protocol on loopback TCP, attacked by raw
// TCP clients; afterwards it must have released every peer and connection
// handler, kept its heap within the protocol's limits, and still serve a
// well-behaved peer.

import (
	"bytes"
	"context"
	"fmt"
	"io"
	"net"
	"strings"
	"time"

	"github.com/btcsuite/btcd/btcec/v2"
	"gitlab.com/aquachain/aquachain/p2p"
	"gitlab.com/aquachain/aquachain/p2p/discover"
	"verif/internal/fw"
	"verif/internal/ref/refrlp"
)

const baseLen = 16 // devp2p base protocol message codes

type srvEnv struct {
	aq   *aquaEnv
	srv  *p2p.Server
	key  *btcec.PrivateKey
	id   discover.NodeID
	addr string
	// what a well-behaved client needs (a server in another process provides
	// them as fixed bytes)
	statusPayload func() []byte
	probeMsg      func() amsg
}

func newSrvEnv(r *fw.Rand) (*srvEnv, error) {
	aq, err := newAquaEnv(r, 16, 2)
	if err != nil {
		return nil, err
	}
	p2p.NoCountdown = true
	key := keyFrom(r)
	srv := &p2p.Server{Config: &p2p.Config{
		PrivateKey: key, MaxPeers: 40, MaxPendingPeers: 40, NoDiscovery: true, NoDial: true,
		Name: "verif-victim", ListenAddr: "127.0.0.1:0", Protocols: aq.pm.SubProtocols, ChainId: aquaNetworkID,
	}}
	if err := srv.Start(context.Background()); err != nil {
		return nil, err
	}
	return &srvEnv{aq: aq, srv: srv, key: key, id: pubID(key), addr: srv.ListenAddr,
		statusPayload: func() []byte { return aq.goodStatus(64).payload }, probeMsg: aq.probe}, nil
}

func (e *srvEnv) dial() (net.Conn, error) {
	return net.DialTimeout("tcp4", e.addr, 60*time.Second)
}

// rawClient: write bytes, half-close, wait until the server closes.
func (e *srvEnv) rawClient(c *fw.Ctx, data []byte) {
	conn, err := e.dial()
	if err != nil {
		c.Inconclusive("server_dial_failed")
		return
	}
	defer conn.Close()
	conn.SetDeadline(time.Now().Add(90 * time.Second))
	conn.Write(data)
	if tc, ok := conn.(*net.TCPConn); ok {
		tc.CloseWrite()
	}
	io.Copy(io.Discard, conn)
	c.Count("server_raw_clients")
}

type wireClient struct {
	conn net.Conn
	t    *p2p.VerifRLPX
	key  *btcec.PrivateKey
	snap bool
	vers uint
}

// connect performs the encryption handshake; stage "" on success.
func (e *srvEnv) connect(r *fw.Rand) (*wireClient, string) {
	conn, err := e.dial()
	if err != nil {
		return nil, "dial"
	}
	w := &wireClient{conn: conn, t: p2p.VerifNewRLPX(conn), key: keyFrom(r)}
	var herr error
	if p, _, _ := safely(func() { _, herr = w.t.DoEncHandshake(w.key.ToECDSA(), &discover.Node{ID: e.id}) }); p || herr != nil {
		conn.Close()
		if isTimeout(herr) {
			return nil, "timeout"
		}
		return nil, "enc"
	}
	return w, ""
}

func (w *wireClient) hello(h *p2p.VerifProtoHandshake) (*p2p.VerifProtoHandshake, error) {
	var their *p2p.VerifProtoHandshake
	var err error
	safely(func() { their, err = w.t.DoProtoHandshake(h) })
	if err == nil {
		// a peer that announces a version without compression does not compress
		w.snap = their.Version >= 5 && h.Version >= 5
		w.t.SetSnappy(w.snap)
	}
	return their, err
}

func (w *wireClient) send(code uint64, payload []byte) error {
	return w.t.WriteMsg(p2p.Msg{Code: code, Size: uint32(len(payload)), Payload: bytes.NewReader(payload)})
}

// readUntil reads messages until match, the connection ends, or max messages.
func (w *wireClient) readUntil(match func(code uint64, body []byte) bool, max int) (bool, error) {
	for i := 0; i < max; i++ {
		msg, err := w.t.ReadMsg()
		if err != nil {
			return false, err
		}
		body, err := io.ReadAll(msg.Payload)
		if err != nil {
			return false, err
		}
		if msg.Code == p2p.VerifDiscMsg {
			return false, fmt.Errorf("disconnect requested by server")
		}
		if msg.Code == p2p.VerifPingMsg {
			w.send(p2p.VerifPongMsg, []byte{0xc0})
			continue
		}
		if match(msg.Code, body) {
			return true, nil
		}
	}
	return false, fmt.Errorf("no match in %d messages", max)
}

// fullPeer connects, says hello offering aqua/64 and exchanges status.
func (e *srvEnv) fullPeer(c *fw.Ctx, r *fw.Rand, helloVersion uint64) (*wireClient, string) {
	w, stage := e.connect(r)
	if stage != "" {
		return nil, stage
	}
	their, err := w.hello(&p2p.VerifProtoHandshake{Version: helloVersion, Name: "verif-client", Caps: []p2p.Cap{{Name: "aqua", Version: 64}}, ID: pubID(w.key)})
	if err != nil {
		w.conn.Close()
		if isTimeout(err) {
			return nil, "timeout"
		}
		return nil, "hello: " + err.Error()
	}
	if their.ID != e.id {
		c.Violate("delivered_differs_from_written", "doProtoHandshake", "server_hello_id", "server hello names another node id than the one it authenticated as")
	}
	w.vers = 64
	ok, err := w.readUntil(func(code uint64, _ []byte) bool { return code == baseLen+aquaStatus }, 20)
	if !ok {
		w.conn.Close()
		if isTimeout(err) {
			return nil, "timeout"
		}
		return nil, fmt.Sprintf("status: %v", err)
	}
	if err := w.send(baseLen+aquaStatus, e.statusPayload()); err != nil {
		w.conn.Close()
		return nil, "status send: " + err.Error()
	}
	return w, ""
}

// wireAlive: a header query for a known block over the wire. endWrite: close
// the sending direction after the query (the server then sees the end of the
// stream instead of waiting for bytes a hostile frame promised).
func (e *srvEnv) wireAlive(w *wireClient, endWrite bool) (bool, error) {
	p := e.probeMsg()
	if err := w.send(baseLen+p.Code, p.payload); err != nil {
		return false, err
	}
	if tc, ok := w.conn.(*net.TCPConn); ok && endWrite {
		tc.CloseWrite()
	}
	// earlier replies the caller never collected may come first
	return w.readUntil(func(code uint64, body []byte) bool { return code == baseLen+aquaHeaders && bytes.Equal(body, p.reply) }, 200)
}

func runServer(c *fw.Ctx) {
	race := c.Leg == "server-race"
	r0 := c.Rand("server-env")
	var e *srvEnv
	setupCase(c, "server-setup", map[string]string{"what": "p2p.Server + aqua protocol manager on loopback"}, func() {
		var err error
		e, err = newSrvEnv(r0)
		if err != nil {
			c.Inconclusive("server_env_failed")
			c.Note("server env: %v", err)
			e = nil
		}
	})
	if e == nil {
		return
	}
	defer func() {
		// Stop waits for every peer to be released; a leaked peer (judged in
		// server-after) would block it forever, so it gets a bounded wait
		done := make(chan struct{})
		go func() { e.srv.Stop(); close(done) }()
		select {
		case <-done:
		case <-time.After(30 * time.Second):
		}
	}()
	// warm-up with one honest peer, then take the baselines
	warm := false
	setupCase(c, "server-warmup", map[string]string{"what": "one well-behaved peer"}, func() {
		w, stage := e.fullPeer(c, r0, 5)
		if stage != "" {
			c.Note("warm-up failed at %s", stage)
			c.Inconclusive("server_warmup_failed")
			return
		}
		if ok, err := e.wireAlive(w, false); ok {
			c.Count("server_honest_peer_served")
			warm = true
		} else if isTimeout(err) {
			c.Inconclusive("server_timeout")
		} else {
			c.Violate("honest_message_rejected", "Server", "honest_peer", fmt.Sprintf("a well-behaved peer gets no answer to a header query: %v", err))
		}
		w.conn.Close()
	})
	if !warm {
		return
	}
	waitPeers(e, 0, 60*time.Second)
	hw := startHeapWatch(20 * time.Millisecond)
	conns := 0

	rounds := c.Pick(1, 4)
	if race {
		rounds = 1
	}
	for round := 0; round < rounds; round++ {
		r := c.Rand("server", fmt.Sprint(round))
		// A. hostile bytes before any handshake
		auths := hostileAuths(r, e.key, false)
		for i, p := range auths {
			if (race || c.Quick()) && i%3 != (c.Batch+round)%3 {
				continue
			}
			p := p
			c.Case(fmt.Sprintf("server-auth-%d-%d", round, i), map[string]interface{}{"packet": p}, func() {
				c.Note("raw client sends %s", p.Hex)
				e.rawClient(c, p.Data)
				conns++
			})
		}
		// B. legitimate key agreement, hostile hello
		cid := func(k *btcec.PrivateKey) discover.NodeID { return pubID(k) }
		type helloCase struct {
			name string
			mk   func(k *btcec.PrivateKey) *p2p.VerifProtoHandshake
			ok   bool // the server may add this peer
		}
		manyCaps := make([]p2p.Cap, 900)
		for i := range manyCaps {
			manyCaps[i] = p2p.Cap{Name: fmt.Sprintf("p%d", i%10), Version: uint(i)}
		}
		hellos := []helloCase{
			{"hello_wrong_id", func(k *btcec.PrivateKey) *p2p.VerifProtoHandshake {
				return &p2p.VerifProtoHandshake{Version: 5, Name: "x", Caps: []p2p.Cap{{Name: "aqua", Version: 64}}, ID: pubID(keyFrom(r))}
			}, false},
			{"hello_zero_id", func(k *btcec.PrivateKey) *p2p.VerifProtoHandshake {
				return &p2p.VerifProtoHandshake{Version: 5, Name: "x", Caps: []p2p.Cap{{Name: "aqua", Version: 64}}}
			}, false},
			{"hello_no_common_protocol", func(k *btcec.PrivateKey) *p2p.VerifProtoHandshake {
				return &p2p.VerifProtoHandshake{Version: 5, Name: "x", Caps: []p2p.Cap{{Name: "eth", Version: 63}}, ID: cid(k)}
			}, false},
			{"hello_no_caps", func(k *btcec.PrivateKey) *p2p.VerifProtoHandshake {
				return &p2p.VerifProtoHandshake{Version: 5, Name: "x", ID: cid(k)}
			}, false},
			{"hello_over_size_limit", func(k *btcec.PrivateKey) *p2p.VerifProtoHandshake {
				return &p2p.VerifProtoHandshake{Version: 5, Name: strings.Repeat("n", 3000), Caps: []p2p.Cap{{Name: "aqua", Version: 64}}, ID: cid(k)}
			}, false},
			{"hello_many_caps", func(k *btcec.PrivateKey) *p2p.VerifProtoHandshake {
				return &p2p.VerifProtoHandshake{Version: 5, Name: "x", Caps: manyCaps, ID: cid(k)}
			}, false},
			{"hello_version_zero", func(k *btcec.PrivateKey) *p2p.VerifProtoHandshake {
				return &p2p.VerifProtoHandshake{Version: 0, Name: "x", Caps: []p2p.Cap{{Name: "aqua", Version: 64}}, ID: cid(k)}
			}, true},
			{"hello_version_max", func(k *btcec.PrivateKey) *p2p.VerifProtoHandshake {
				return &p2p.VerifProtoHandshake{Version: 1<<64 - 1, Name: "x", Caps: []p2p.Cap{{Name: "aqua", Version: 65}, {Name: "aqua", Version: 64}, {Name: "aqua", Version: 1 << 31}}, ID: cid(k)}
			}, true},
		}
		for i, hc := range hellos {
			hc := hc
			c.Case(fmt.Sprintf("server-hello-%d-%d", round, i), map[string]string{"hello": hc.name}, func() {
				w, stage := e.connect(r)
				if stage != "" {
					if stage == "timeout" || stage == "dial" {
						c.Inconclusive("server_connect_" + stage)
					} else {
						c.Violate("honest_message_rejected", "Server", "enc_handshake", "legitimate key agreement with the server failed")
					}
					return
				}
				defer w.conn.Close()
				conns++
				c.Count("server_hostile_hellos")
				_, err := w.hello(hc.mk(w.key))
				// whatever the hello, the server must either add the peer or end the connection
				if err == nil {
					w.readUntil(func(uint64, []byte) bool { return false }, 1)
				}
			})
		}
		// C. fully established peers sending hostile frames and messages
		for _, snap := range []bool{false, true} {
			frames := hostileFrames(r, snap, false)
			for i, fr := range frames {
				if (race || c.Quick()) && i%2 != (c.Batch+round)%2 {
					continue
				}
				fr := fr
				hv := uint64(4)
				if snap {
					hv = 5
				}
				c.Case(fmt.Sprintf("server-frame-%d-%v-%d", round, snap, i), map[string]interface{}{"snappy": snap, "frame": fr}, func() {
					w, stage := e.fullPeer(c, r, hv)
					if stage != "" {
						noteStage(c, stage)
						return
					}
					defer w.conn.Close()
					conns++
					enc, _, macc, egress, _ := w.t.FrameState()
					fmr := &rawFramer{conn: w.conn, enc: enc, macCipher: macc, egress: egress}
					c.Note("established peer sends frame %s", fr.Name)
					w.conn.SetWriteDeadline(time.Now().Add(60 * time.Second))
					fmr.write(&fr, r)
					c.Count("server_hostile_frames")
					// a deliverable frame carries code 0x10/0x11/0x12 = aqua status.. : the
					// peer is dropped for it or not; either way the connection must end or
					// keep answering
					if _, _, ok, judged := expectedOf(&fr, snap); judged && !ok {
						// not a complete authentic frame: the server must end the connection
						alive, _ := e.wireAlive(w, true)
						if alive {
							c.Violate("tamper_undetected", "Server", fr.Name, "the server kept serving a connection after a frame that is not authentic")
						} else {
							c.Count("server_bad_frame_ended_connection")
						}
					}
				})
			}
		}
		// base-protocol and aqua messages over the wire
		msgs := e.aq.undefinedCodes(r)
		msgs = append(msgs, e.aq.integerLimitQueries(r)...)
		valid := e.aq.validMessages(r)
		for _, v := range valid {
			hv := e.aq.hostileVariants(r, v, false)
			for i := 0; i < len(hv); i += 9 {
				msgs = append(msgs, hv[(i+c.Batch+round)%len(hv)])
			}
		}
		msgs = append(msgs, valid...)
		for i, m := range msgs {
			if (race || c.Quick()) && i%4 != (c.Batch+round)%4 {
				continue
			}
			if m.Lazy {
				continue // larger than a frame can carry
			}
			m := m
			c.Case(fmt.Sprintf("server-msg-%d-%d", round, i), map[string]interface{}{"message": m}, func() {
				w, stage := e.fullPeer(c, r, uint64(4+i%2))
				if stage != "" {
					noteStage(c, stage)
					return
				}
				defer w.conn.Close()
				conns++
				if ok, err := e.wireAlive(w, false); !ok {
					if isTimeout(err) {
						c.Inconclusive("server_timeout")
					} else {
						c.Violate("honest_message_rejected", "Server", "honest_peer", fmt.Sprintf("established peer gets no answer to a header query: %v", err))
					}
					return
				}
				// base protocol: ping must be answered, unknown base codes ignored
				w.send(p2p.VerifPingMsg, []byte{0xc0})
				w.send(uint64(4+i%12), []byte{0xc0})
				if ok, _ := w.readUntil(func(code uint64, _ []byte) bool { return code == p2p.VerifPongMsg }, 50); ok {
					c.Count("server_ping_answered")
				}
				code := m.Code
				if code < 1<<62 {
					code += baseLen
				}
				w.send(code, m.payload)
				c.Count("server_aqua_messages")
				live, lerr := e.wireAlive(w, false)
				switch {
				case !live && isTimeout(lerr):
					c.Inconclusive("server_timeout")
				case m.Expect == "reject" && live:
					c.Violate("malformed_message_accepted", "Server", m.Name, fmt.Sprintf("%s over an established connection, yet the peer is still served", m.Name))
				case m.Expect == "reject":
					c.Count("server_malformed_dropped")
				case m.Expect == "accept" && !live:
					c.Violate("honest_message_rejected", "Server", m.Name, "well-formed message ended the connection")
				case live:
					c.Count("server_message_tolerated")
				}
			})
		}
	}

	// disconnect messages with every kind of reason, against a server in a
	// process of its own (a crash there is observed, not suffered)
	if !race {
		runDiscReasonLattice(c)
		runHelloNames(c)
	}

	// ---- after the attack -----------------------------------------------------------
	c.Case("server-after", map[string]interface{}{"connections_made": conns}, func() {
		high := hw.Stop()
		c.Extra("server_heap_high_water", fmt.Sprintf("batch %d: %d bytes (baseline %d)", c.Batch, high, hw.base))
		// one connection at a time: at most one 16 MiB frame (plus its decompressed
		// form) is in flight; generous slack for garbage not yet collected
		if high > hw.base+768<<20 {
			c.Violate("allocation_beyond_limit", "Server", "heap_high_water", fmt.Sprintf("heap grew from %d to %d bytes over %d hostile connections", hw.base, high, conns))
		}
		if n := waitPeers(e, 0, 90*time.Second); n != 0 {
			judgeLeak(c, e, fmt.Sprintf("PeerCount is %d although every client connection is closed", n))
		} else {
			c.Count("server_peers_released")
		}
		if g := waitHandlers(120 * time.Second); len(g) > 0 {
			judgeLeak(c, e, fmt.Sprintf("%d connection-handler goroutines remain although every client connection is closed", len(g)))
		} else {
			c.Count("server_handlers_released")
		}
		r := c.Rand("server-final")
		w, stage := e.fullPeer(c, r, 5)
		if stage != "" {
			if stage == "timeout" || stage == "dial" {
				c.Inconclusive("server_final_" + stage)
			} else {
				c.Violate("handler_wedged", "Server", "fresh_peer_after_attack", "a well-behaved peer cannot connect after the attack: "+stage)
			}
			return
		}
		defer w.conn.Close()
		if ok, _ := e.wireAlive(w, false); ok {
			c.Count("server_serving_after_attack")
			c.Nontrivial(fmt.Sprintf("server-%d-%d", c.Batch, conns))
			c.Sample(map[string]interface{}{"case": "server-after", "hostile_connections": conns, "heap_high_water": high, "peers_after": 0})
		} else {
			c.Violate("handler_wedged", "Server", "fresh_peer_after_attack", "a well-behaved peer gets no answer after the attack")
		}
	})
}

func noteStage(c *fw.Ctx, stage string) {
	switch {
	case stage == "timeout" || stage == "dial":
		c.Inconclusive("server_connect_" + stage)
	case strings.Contains(stage, "too many peers"):
		c.Inconclusive("server_peer_slots_busy")
	default:
		c.Violate("honest_message_rejected", "Server", "honest_peer_setup", "a well-behaved peer could not be established: "+stage)
	}
}

func waitPeers(e *srvEnv, want int, d time.Duration) int {
	deadline := time.Now().Add(d)
	n := e.srv.PeerCount()
	for n != want && time.Now().Before(deadline) {
		time.Sleep(50 * time.Millisecond)
		n = e.srv.PeerCount()
	}
	return n
}

// handlerGoroutines: goroutines that exist only on behalf of one connection.
func handlerGoroutines() []gor {
	dump := allStacks()
	var out []gor
	for _, g := range parseStacks(dump) {
		t := g.text
		if strings.Contains(t, "p2p.(*Peer).run") || strings.Contains(t, "p2p.(*Peer).readLoop") || strings.Contains(t, "p2p.(*Peer).pingLoop") ||
			strings.Contains(t, "p2p.(*Server).SetupConn") || strings.Contains(t, "p2p.(*Server).runPeer") || strings.Contains(t, "p2p.(*Peer).startProtocols") ||
			strings.Contains(t, "aqua.(*ProtocolManager).handle(") {
			out = append(out, g)
		}
	}
	return out
}

func waitHandlers(d time.Duration) []gor {
	deadline := time.Now().Add(d)
	g := handlerGoroutines()
	for len(g) > 0 && time.Now().Before(deadline) {
		time.Sleep(200 * time.Millisecond)
		g = handlerGoroutines()
	}
	return g
}

// judgeLeak: a handler goroutine that is still in the same place in two dumps
// 10 s apart, with no connection left to serve, is the witness of a wedge;
// without such a witness the observation is inconclusive.
func judgeLeak(c *fw.Ctx, e *srvEnv, what string) {
	g1 := handlerGoroutines()
	time.Sleep(10 * time.Second)
	g2 := handlerGoroutines()
	for _, a := range g1 {
		for _, b := range g2 {
			if a.id == b.id && firstFrame(a.text) == firstFrame(b.text) {
				where := "other"
				switch {
				case strings.Contains(b.text, "sync.(*WaitGroup).Wait"):
					where = "peer_run_waiting_for_protocol_goroutine"
				case strings.Contains(b.text, "p2p.(*Peer).handle"):
					where = "read_loop_blocked_delivering_to_protocol"
				case strings.Contains(b.text, "p2p.(*Peer).pingLoop"):
					where = "ping_loop"
				}
				c.Violate("handler_wedged", "Server", where, what+"; a connection handler is parked in the same place in two dumps 10 s apart:\n"+truncateStr(b.text, 3000))
				return
			}
		}
	}
	c.Inconclusive("server_slow_release")
}

var _ = refrlp.Encode
