// Package c18: no RPC endpoint can make the node sign unless explicitly opted in.
//
// Monitor: the keystore's "signature produced" counter (hook H1, build tag
// verif) is read before and after every RPC call made through a client attached
// to each transport of a full in-process node started with one combination of
// the UNSAFE_* opt-in variables (one child process per combination: the
// variables are read once at package init). Every callback the transport's
// server has registered (hook H7) is invoked with arguments synthesised from
// its signature, naming a locked / unlocked / unknown keystore account with
// right / wrong / empty passphrases. A counter increase on a transport that is
// not opted in refutes the property.
package c18

import (
	"context"
	"encoding/json"
	"fmt"
	"math/big"
	"os"
	"path/filepath"
	"reflect"
	"sort"
	"strings"
	"time"

	"gitlab.com/aquachain/aquachain/aqua/accounts/keystore"
	"gitlab.com/aquachain/aquachain/common"
	"gitlab.com/aquachain/aquachain/common/log"
	"gitlab.com/aquachain/aquachain/rpc"
	"verif/internal/fw"
)

var optVars = []string{"UNSAFE_RPC_SIGNING", "UNSAFE_ALLOW_SIGN_IPC", "UNSAFE_RPC_SIGNING_HTTP", "UNSAFE_RPC_SIGNING_WS", "UNSAFE_ALLOW_SIGN_INPROC"}

// transportVar maps a transport to its own opt-in variable.
var transportVar = map[string]string{"ipc": "UNSAFE_ALLOW_SIGN_IPC", "http": "UNSAFE_RPC_SIGNING_HTTP", "ws": "UNSAFE_RPC_SIGNING_WS", "inproc": "UNSAFE_ALLOW_SIGN_INPROC"}

var transports = []string{"inproc", "ipc", "http", "ws"}

// envCombos: quick = default + each single variable + two pairs; thorough = all 32.
func envCombos(tier string) [][]string {
	var out [][]string
	if tier == "thorough" {
		for m := 0; m < 32; m++ {
			var set []string
			for i, v := range optVars {
				if m&(1<<uint(i)) != 0 {
					set = append(set, v)
				}
			}
			out = append(out, set)
		}
		return out
	}
	out = append(out, nil)
	for _, v := range optVars {
		out = append(out, []string{v})
	}
	out = append(out, []string{"UNSAFE_ALLOW_SIGN_IPC", "UNSAFE_RPC_SIGNING_WS"}, []string{"UNSAFE_RPC_SIGNING_HTTP", "UNSAFE_ALLOW_SIGN_INPROC"})
	return out
}

func init() {
	fw.Register(&fw.Prop{
		ID:    "C18",
		Title: "No RPC endpoint can make the node sign unless explicitly opted in",
		Level: "exploration",
		Rule: "one child process per combination of the five UNSAFE_* variables (quick: default, 5 singles, 2 pairs; thorough: all 32 = exhaustive over configurations); " +
			"in each, every callback registered on each of the four transports (as listed by the server itself) is called with 6 account/passphrase variants; " +
			"a case = (environment, transport, method, variant); non-trivial = the call reached a keystore signing entry point (attempt counter moved) or the method takes an account/passphrase/transaction argument; distinct by (env, transport, method, variant)",
		Legs: func(tier string) []fw.Leg {
			combos := envCombos(tier)
			return []fw.Leg{{Name: "env", Variant: "plain", Batches: len(combos), Parallel: 8, Timeout: 45 * time.Minute,
				EnvFor: func(b int) []string {
					var env []string
					for _, v := range combos[b] {
						env = append(env, v+"=1")
					}
					return env
				}}}
		},
		Run: run,
		Gate: func(tier string) map[string]int {
			return map[string]int{
				"node_started": 1, "pending_tx_seeded": 2, "calls_made": 2000, "transport_exercised:inproc": 1, "transport_exercised:ipc": 1,
				"transport_exercised:http": 1, "transport_exercised:ws": 1,
				"positive_control_signed": 4, // each single-transport opt-in must really sign on its transport
				"default_env_checked":     1,
				"endpoint_reopened":       6, // ws is rebuilt in every child

			}
		},
		Exhaustive:  func(tier string, counters map[string]int) bool { return tier == "thorough" },
		AnchorFiles: []string{"/rpc/", "/node/", "/internal/aquaapi/", "/aqua/accounts/keystore/"},
		Assumptions: []string{
			"a signature made with a keystore key always passes through one of the six KeyStore signing methods instrumented by hook H1 (the only callers of crypto.Sign/types.SignTx with keystore keys)",
			"every method a client can invoke is a callback registered in the transport's rpc.Server (hook H7 lists them); subscriptions do not sign",
			"UNSAFE_RPC_SIGNING (the general variable) is not a per-transport opt-in; the property says nothing about environments where only it is set, so no verdict is drawn for a transport whose own variable is unset while the general one is set",
			"methods that stop the transport under test, block for caller-chosen durations or start mining are not invoked (listed under skipped_methods)",
		},
	})
}

// Methods that would stop the harness rather than exercise signing: they tear
// down the endpoint being tested, sleep/profile for a caller-chosen time, or
// start CPU-bound mining. They take no account argument.
var skipMethods = map[string]bool{
	"admin_stopRPC": true, "admin_stopWS": true, "admin_startRPC": true, "admin_startWS": true,
	"admin_sleep": true, "admin_sleepBlocks": true, "admin_exportChain": true, "admin_importChain": true,
	"debug_cpuProfile": true, "debug_blockProfile": true, "debug_mutexProfile": true, "debug_goTrace": true,
	"debug_startCPUProfile": true, "debug_stopCPUProfile": true, "debug_startGoTrace": true, "debug_stopGoTrace": true,
	// getWork / getBlockTemplate start the miner as a side effect (same as
	// miner_start; with mining on, worker.pending() copies a state that the sealing
	// result loop commits concurrently - "concurrent map iteration and map write" -
	// a node defect outside the 20 properties that killed the harness once): with the
	// harness's fake PoW that mines blocks back to back, empties the seeded pool
	// and burns the CPU
	"aqua_getWork": true, "eth_getWork": true, "testing_getBlockTemplate": true,
	"miner_start": true, "admin_shutdown": true, "testing_shutdown": true, "admin_stop": true,
	// these dereference the CLI's glog handler, which only cmd setup installs
	// (internal/debug.Setup); an embedded node has none, so calling them crashes
	// the harness for a reason unrelated to signing. They take no account argument.
	"debug_verbosity": true, "debug_vmodule": true, "debug_backtraceAt": true,
}

type variant struct {
	Name string
	Acct common.Address
	Pass string
}

func (tn *testNode) variants() []variant {
	return []variant{
		{"locked_right_pass", tn.locked.Address, passLocked},
		{"locked_wrong_pass", tn.locked.Address, "not-the-passphrase"},
		{"locked_empty_pass", tn.locked.Address, ""},
		{"unlocked_right_pass", tn.unlocked.Address, passUnlocked},
		{"unlocked_empty_pass", tn.unlocked.Address, ""},
		{"unknown_account", tn.unknown, passLocked},
	}
}

var (
	typAddress = reflect.TypeOf(common.Address{})
	typHash    = reflect.TypeOf(common.Hash{})
	typBig     = reflect.TypeOf(big.Int{})
)

// fill synthesises a value of type t for a call naming variant v.
func fill(t reflect.Type, v variant, field string, depth int) reflect.Value {
	val := reflect.New(t).Elem()
	if depth > 6 {
		return val
	}
	switch {
	case t == typAddress:
		a := v.Acct
		if field == "To" {
			a = common.HexToAddress(fillTo)
		}
		val.Set(reflect.ValueOf(a))
		return val
	case t == typHash:
		val.Set(reflect.ValueOf(common.HexToHash("0x1122334455667788990011223344556677889900112233445566778899001122")))
		return val
	case t == typBig || t.String() == "hexutil.Big":
		n := big.NewInt(1)
		if field == "GasPrice" {
			n = big.NewInt(1e9)
		}
		reflect.NewAt(typBig, val.Addr().UnsafePointer()).Elem().Set(reflect.ValueOf(*n))
		return val
	case t.String() == "rpc.BlockNumber":
		val.SetInt(-1)
		return val
	}
	switch t.Kind() {
	case reflect.Ptr:
		if field == "Input" {
			return val // nil: Data is set instead
		}
		p := reflect.New(t.Elem())
		p.Elem().Set(fill(t.Elem(), v, field, depth+1))
		return p
	case reflect.String:
		val.SetString(v.Pass)
	case reflect.Bool:
		val.SetBool(false)
	case reflect.Int, reflect.Int8, reflect.Int16, reflect.Int32, reflect.Int64:
		val.SetInt(1)
	case reflect.Uint, reflect.Uint8, reflect.Uint16, reflect.Uint32, reflect.Uint64:
		n := uint64(1)
		switch field {
		case "Gas":
			n = 100000
		case "Nonce":
			n = 0
		}
		val.SetUint(n)
	case reflect.Float32, reflect.Float64:
		val.SetFloat(1)
	case reflect.Slice:
		if t.Elem().Kind() == reflect.Uint8 {
			b := make([]byte, 32)
			for i := range b {
				b[i] = byte(i + 1)
			}
			if field == "Data" {
				b = nil
			}
			val.Set(reflect.ValueOf(b).Convert(t))
		} else {
			s := reflect.MakeSlice(t, 1, 1)
			s.Index(0).Set(fill(t.Elem(), v, field, depth+1))
			val.Set(s)
		}
	case reflect.Array:
		for i := 0; i < t.Len(); i++ {
			val.Index(i).Set(fill(t.Elem(), v, field, depth+1))
		}
	case reflect.Struct:
		for i := 0; i < t.NumField(); i++ {
			f := t.Field(i)
			if f.PkgPath != "" {
				continue
			}
			val.Field(i).Set(fill(f.Type, v, f.Name, depth+1))
		}
	}
	return val
}

func marshalArg(t reflect.Type, v variant) (out json.RawMessage) {
	defer func() {
		if r := recover(); r != nil {
			out = json.RawMessage("null")
		}
	}()
	if t.String() == "rpc.BlockNumber" || t.String() == "*rpc.BlockNumber" {
		return json.RawMessage(`"latest"`)
	}
	val := fill(t, v, "", 0)
	b, err := json.Marshal(val.Interface())
	if err != nil {
		return json.RawMessage("null")
	}
	return b
}

type callRecord struct {
	Env       []string `json:"env"`
	Transport string   `json:"transport"`
	Method    string   `json:"method"`
	Variant   string   `json:"variant"`
	Args      []string `json:"args"`
}

func involvesAccount(m rpc.VerifMethod) bool {
	for _, t := range m.ArgTypes {
		s := t.String()
		if t == typAddress || t.Kind() == reflect.String || strings.Contains(s, "SendTxArgs") || strings.Contains(s, "Address") {
			return true
		}
	}
	return false
}

func run(c *fw.Ctx) {
	log.Root().SetHandler(log.LvlFilterHandler(log.LvlError, log.StreamHandler(os.Stderr, log.LogfmtFormat())))
	os.Chdir(c.Dir) // methods that take file names write under the scratch dir
	// the node locks <HOME>/.aquachain/<chain name>/LOCK whatever its DataDir is:
	// give every child its own HOME so parallel nodes do not collide
	os.Setenv("HOME", c.Dir)
	var env []string
	for _, v := range optVars {
		if os.Getenv(v) != "" {
			env = append(env, v)
		}
	}
	envSet := map[string]bool{}
	for _, v := range env {
		envSet[v] = true
	}
	var tn *testNode
	ok := c.Case("start-node", map[string]interface{}{"env": env}, func() {
		var err error
		for attempt := 0; attempt < 4; attempt++ {
			tn, err = startNode(filepath.Join(c.Dir, fmt.Sprintf("n%d", attempt)))
			if err == nil {
				break
			}
			c.Count("node_start_retry")
			c.Note("node start attempt %d failed: %v", attempt, err)
			fmt.Fprintf(os.Stderr, "node start attempt %d failed: %v\n", attempt, err)
		}
		if err != nil {
			tn = nil
			c.Inconclusive("node_start_failed")
			c.Note("node start failed: %v", err)
			return
		}
		c.Count("node_started")
	})
	if !ok || tn == nil {
		return
	}
	// The node is deliberately NOT stopped at the end: some invoked methods start
	// block production, and the node's own shutdown races its worker against the
	// closing database (log.Crit -> os.Exit(1)), which would turn a finished child
	// into a dead one for a reason unrelated to signing. The process exits right
	// after the results are written.
	defer func() {
		var ok bool
		tn.clients["inproc"].Call(&ok, "miner_stop")
	}()
	if n, err := tn.seedPending(); err != nil {
		c.Note("seeding pending transactions failed: %v", err)
		c.Inconclusive("pending_seed_failed")
	} else {
		c.CountN("pending_tx_seeded", n)
	}
	exposed := map[string][]string{}
	skipped := map[string]bool{}
	general := envSet["UNSAFE_RPC_SIGNING"]
	if len(env) == 0 {
		c.Count("default_env_checked")
	}
	sweep := func(tr, phase string) {
		h := tn.stack.VerifHandlers()[tr]
		if h == nil {
			c.Inconclusive("transport_not_running:" + tr)
			return
		}
		optedIn := envSet[transportVar[tr]]
		methods := h.VerifMethods()
		signedHere := 0
		for _, m := range methods {
			full := m.Service + "_" + m.Method
			if phase == "" {
				exposed[tr] = append(exposed[tr], full)
			}
			if skipMethods[full] {
				skipped[full] = true
				continue
			}
			if phase != "" && !involvesAccount(m) {
				continue // reopened endpoints: only the account-naming methods again
			}
			vs := tn.variants()
			if !involvesAccount(m) {
				vs = vs[:1] // no account-naming argument: one call is enough
			}
			for _, v := range vs {
				args := make([]interface{}, len(m.ArgTypes))
				argStr := make([]string, len(m.ArgTypes))
				for i, t := range m.ArgTypes {
					raw := marshalArg(t, v)
					args[i] = raw
					argStr[i] = string(raw)
				}
				rec := callRecord{Env: env, Transport: tr, Method: full, Variant: v.Name, Args: argStr}
				id := fmt.Sprintf("%s%s/%s/%s", phase, tr, full, v.Name)
				c.Case(id, rec, func() {
					att0, prod0 := keystore.VerifSignCounters()
					ctx, cancel := context.WithTimeout(context.Background(), 8*time.Second)
					var result json.RawMessage
					t0 := time.Now()
					err := tn.clients[tr].CallContext(ctx, &result, full, args...)
					cancel()
					if d := time.Since(t0); d > time.Second {
						c.Count("slow_call_over_1s")
						c.Note("slow call %s: %v err=%v", id, d, err)
					}
					att1, prod1 := keystore.VerifSignCounters()
					c.Count("calls_made")
					if involvesAccount(m) {
						c.Note("result %s: err=%v result=%s attempts+%d produced+%d", id, err, truncate(string(result), 120), att1-att0, prod1-prod0)
					}
					c.Count("transport_exercised:" + tr)
					if err == context.DeadlineExceeded {
						c.Count("call_timed_out")
					}
					if err == nil {
						c.Count("calls_returned_result")
					}
					if att1 > att0 || involvesAccount(m) {
						c.Nontrivial(strings.Join(env, ",") + "|" + id)
					}
					if att1 > att0 {
						c.Count("reached_keystore_signing_entry")
					}
					if prod1 > prod0 {
						signedHere++
						c.Count("signatures_produced")
						switch {
						case optedIn:
							c.Count("signed_on_opted_in_transport")
						case general:
							// no verdict: see Assumptions
							c.Count("signed_with_only_general_variable_set")
						default:
							c.Violate("signature_produced_without_optin", full, tr,
								fmt.Sprintf("transport %s (its variable %s unset; environment: %v): %s with variant %s produced %d keystore signature(s); result=%s err=%v",
									tr, transportVar[tr], env, full, v.Name, prod1-prod0, truncate(string(result), 200), err))
						}
					}
					if c.WantSample() && involvesAccount(m) {
						c.Sample(map[string]interface{}{"call": rec, "error": fmt.Sprint(err), "attempt_delta": att1 - att0, "produced_delta": prod1 - prod0})
					}
					tn.resetAccounts()
				})
			}
		}
		if optedIn && signedHere > 0 {
			c.Count("positive_control_signed")
		}
		if optedIn && signedHere == 0 {
			// the monitor would be blind if an opted-in transport could not sign
			c.Count("positive_control_failed:" + tr)
			c.Inconclusive("positive_control_failed:" + tr)
		}
	}
	for _, tr := range transports {
		sweep(tr, "")
	}
	// Lifecycle phase: an endpoint that is torn down and built again in the same
	// process goes through rpc.Server.RegisterName a second time; the per-transport
	// filter must hold for that registration too (admin_stopWS/admin_startWS are
	// reachable over the default IPC endpoint). The rebuilt server's account-naming
	// methods are swept again.
	if tn.reopen(c, "ws") {
		c.Count("endpoint_reopened")
		sweep("ws", "reopened/")
	}
	if tn.reopen(c, "http") {
		c.Count("endpoint_reopened")
		sweep("http", "reopened/")
	}
	for tr := range exposed {
		sort.Strings(exposed[tr])
	}
	if c.Batch == 0 {
		var sk []string
		for k := range skipped {
			sk = append(sk, k)
		}
		sort.Strings(sk)
		c.Extra("exposed_methods_default_env", exposed)
		c.Extra("skipped_methods", sk)
	}
}

func truncate(s string, n int) string {
	if len(s) > n {
		return s[:n] + "..."
	}
	return s
}
