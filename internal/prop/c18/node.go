package c18

import (
	"context"
	"fmt"
	"math/big"
	"net"
	"os"
	"path/filepath"
	"strings"

	"gitlab.com/aquachain/aquachain/aqua"
	"gitlab.com/aquachain/aquachain/aqua/accounts"
	"gitlab.com/aquachain/aquachain/aqua/accounts/keystore"
	"gitlab.com/aquachain/aquachain/common"
	"gitlab.com/aquachain/aquachain/common/hexutil"
	"gitlab.com/aquachain/aquachain/consensus/aquahash"
	"gitlab.com/aquachain/aquachain/core"
	"gitlab.com/aquachain/aquachain/core/types"
	"gitlab.com/aquachain/aquachain/node"
	"gitlab.com/aquachain/aquachain/p2p"
	"gitlab.com/aquachain/aquachain/params"
	"gitlab.com/aquachain/aquachain/rlp"
	rpcclient "gitlab.com/aquachain/aquachain/rpc/rpcclient"
)

const (
	fillTo       = "0x00000000000000000000000000000000000000aa"
	passLocked   = "pw-locked-account"
	passUnlocked = "pw-unlocked-account"
)

var allModules = []string{"personal", "admin", "debug", "miner", "txpool", "aqua", "eth", "net", "web3", "rpc", "testing"}

var chaincfg *params.ChainConfig

type testNode struct {
	httpPort, wsPort int
	ctx              context.Context
	stack            *node.Node
	ks               *keystore.KeyStore
	locked           accounts.Account
	unlocked         accounts.Account
	unknown          common.Address
	clients          map[string]*rpcclient.Client
	cancel           context.CancelFunc
	chainID          uint64
}

func freePort() int {
	l, err := net.Listen("tcp", "127.0.0.1:0")
	if err != nil {
		panic(err)
	}
	defer l.Close()
	return l.Addr().(*net.TCPAddr).Port
}

// startNode brings up a full in-process node with every namespace enabled on
// in-proc, IPC, HTTP and WS: the operator-worst-case the property quantifies over.
func startNode(dir string) (*testNode, error) {
	ctx, cancel := context.WithCancel(context.Background())
	const chainID = 777018
	if chaincfg == nil {
		chaincfg = &params.ChainConfig{}
		*chaincfg = *params.TestChainConfig
		chaincfg.ChainId = new(big.Int).SetUint64(chainID)
		params.AddChainConfig("verif-c18", chaincfg)
	}

	httpPort, wsPort := freePort(), freePort()
	stack, err := node.New(&node.Config{
		Context:           ctx,
		CloseMain:         func(err error) {},
		DataDir:           dir,
		UseLightweightKDF: true,
		Name:              "test-verif-c18",
		P2P:               &p2p.Config{ChainId: chainID, NoDiscovery: true, NoDial: true, ListenAddr: "127.0.0.1:0", MaxPeers: 0, Offline: true},
		RPCAllowIP:        []string{"127.0.0.1/32"},
		IPCPath:           "v.ipc",
		HTTPHost:          "127.0.0.1",
		HTTPPort:          httpPort,
		HTTPModules:       allModules,
		HTTPVirtualHosts:  []string{"*"},
		HTTPCors:          []string{"*"},
		WSHost:            "127.0.0.1",
		WSPort:            wsPort,
		WSModules:         allModules,
		WSOrigins:         []string{"*"},
		WSExposeAll:       true,
		NoCountdown:       true,
	})
	if err != nil {
		cancel()
		return nil, fmt.Errorf("node.New: %w", err)
	}
	tn := &testNode{httpPort: httpPort, wsPort: wsPort, ctx: ctx, stack: stack, cancel: cancel, clients: map[string]*rpcclient.Client{}, chainID: chainID}
	backs := stack.AccountManager().Backends(keystore.KeyStoreType)
	if len(backs) == 0 {
		cancel()
		return nil, fmt.Errorf("no keystore backend")
	}
	tn.ks = backs[0].(*keystore.KeyStore)
	if tn.locked, err = tn.ks.NewAccount(passLocked); err != nil {
		return nil, err
	}
	if tn.unlocked, err = tn.ks.NewAccount(passUnlocked); err != nil {
		return nil, err
	}
	tn.unknown = common.HexToAddress("0x00000000000000000000000000000000deadbeef")

	genesis := core.DeveloperGenesisBlock(15, common.Address{})
	genesis.Config = chaincfg
	rich := new(big.Int).Mul(big.NewInt(1e18), big.NewInt(1000))
	genesis.Alloc[tn.locked.Address] = core.GenesisAccount{Balance: rich}
	genesis.Alloc[tn.unlocked.Address] = core.GenesisAccount{Balance: rich}
	acfg := aqua.NewDefaultConfig()
	acfg.Genesis = genesis
	acfg.Aquabase = tn.unlocked.Address
	acfg.Aquahash = &aquahash.Config{PowMode: aquahash.ModeFake}
	acfg.ChainId = chainID
	acfg.DatabaseCache = 16
	acfg.TrieCache = 16
	def := node.NewDefaultConfig()
	def.Name = "test-verif-c18"
	nodename := def.NodeName()
	if err = stack.Register(func(nodectx *node.ServiceContext) (node.Service, error) {
		return aqua.New(ctx, nodectx, acfg, nodename)
	}); err != nil {
		return nil, fmt.Errorf("register: %w", err)
	}
	if err = stack.Start(ctx); err != nil {
		return nil, fmt.Errorf("start: %w", err)
	}
	if err := tn.resetAccounts(); err != nil {
		return nil, err
	}
	if c, err := stack.Attach(ctx, "verif"); err == nil {
		tn.clients["inproc"] = c
	} else {
		return nil, fmt.Errorf("attach: %w", err)
	}
	ipc := stack.IPCEndpoint()
	if !filepath.IsAbs(ipc) {
		ipc = filepath.Join(dir, ipc)
	}
	for name, url := range map[string]string{"ipc": ipc, "http": fmt.Sprintf("http://127.0.0.1:%d", httpPort), "ws": fmt.Sprintf("ws://127.0.0.1:%d", wsPort)} {
		c, err := rpcclient.DialContext(ctx, url)
		if err != nil {
			return nil, fmt.Errorf("dial %s %s: %w", name, url, err)
		}
		tn.clients[name] = c
	}
	return tn, nil
}

// seedPending puts one pending transaction per keystore account into the pool,
// signed OFFLINE with the key decrypted by the harness itself (no keystore
// signing method is involved, so the counters do not move). Its fields are
// exactly what fill() synthesises for a transaction-arguments struct, so methods
// that act on "the pending transaction matching these arguments" (re-send,
// re-sign, speed-up) find one.
func (tn *testNode) seedPending() (int, error) {
	n := 0
	for _, a := range []struct {
		acct accounts.Account
		pass string
	}{{tn.locked, passLocked}, {tn.unlocked, passUnlocked}} {
		blob, err := os.ReadFile(a.acct.URL.Path)
		if err != nil {
			return n, err
		}
		key, err := keystore.DecryptKey(blob, a.pass)
		if err != nil {
			return n, err
		}
		to := common.HexToAddress(fillTo)
		tx := types.NewTransaction(0, to, big.NewInt(1), 100000, big.NewInt(1e9), nil)
		signed, err := types.SignTx(tx, types.NewEIP155Signer(new(big.Int).SetUint64(tn.chainID)), key.PrivateKey)
		if err != nil {
			return n, err
		}
		raw, err := rlp.EncodeToBytes(signed)
		if err != nil {
			return n, err
		}
		var h common.Hash
		if err := tn.clients["inproc"].Call(&h, "aqua_sendRawTransaction", hexutil.Bytes(raw)); err != nil {
			return n, fmt.Errorf("sendRawTransaction: %w", err)
		}
		n++
	}
	return n, nil
}

// resetAccounts restores the account states the cases assume: first account
// locked, second unlocked.
func (tn *testNode) resetAccounts() error {
	tn.ks.Lock(tn.locked.Address)
	return tn.ks.Unlock(tn.unlocked, passUnlocked)
}

func (tn *testNode) stop() {
	for _, c := range tn.clients {
		c.Close()
	}
	tn.stack.Stop()
	tn.cancel()
}

// reopen stops and restarts one endpoint through the admin API (as an operator
// or any IPC client can) and re-dials it. Returns false if the node refuses.
func (tn *testNode) reopen(c interface{ Note(string, ...interface{}) }, tr string) bool {
	in := tn.clients["inproc"]
	var ok bool
	host, mods, star := "127.0.0.1", strings.Join(allModules, ","), "*"
	switch tr {
	case "ws":
		if err := in.Call(&ok, "admin_stopWS"); err != nil {
			c.Note("admin_stopWS: %v", err)
			return false
		}
		if err := in.Call(&ok, "admin_startWS", host, tn.wsPort, star, []net.IPNet{{IP: net.IPv4(127, 0, 0, 0).To4(), Mask: net.CIDRMask(8, 32)}}, mods); err != nil {
			c.Note("admin_startWS: %v", err)
			return false
		}
	case "http":
		os.Setenv("AQUA_ALLOW_RPC", "true") // operator permission for admin_startRPC; not an UNSAFE_* signing opt-in
		if err := in.Call(&ok, "admin_stopRPC"); err != nil {
			c.Note("admin_stopRPC: %v", err)
			return false
		}
		if err := in.Call(&ok, "admin_startRPC", host, tn.httpPort, star, mods, star); err != nil {
			c.Note("admin_startRPC: %v", err)
			return false
		}
	default:
		return false
	}
	url := fmt.Sprintf("ws://127.0.0.1:%d", tn.wsPort)
	if tr == "http" {
		url = fmt.Sprintf("http://127.0.0.1:%d", tn.httpPort)
	}
	if old := tn.clients[tr]; old != nil {
		old.Close()
	}
	cl, err := rpcclient.DialContext(tn.ctx, url)
	if err != nil {
		c.Note("re-dial %s: %v", tr, err)
		return false
	}
	tn.clients[tr] = cl
	return true
}
