package c11

// Leg "arr1": decoding targets that contain one-byte arrays ([1]byte) as
// repeated elements. They live in their own leg because a decode that does not
// terminate ends the batch: the runaway goroutine cannot be stopped, so the
// violation is recorded and the child returns at once.
//
// Termination oracle without a clock in the verdict: the decode of an input of
// a few bytes runs in its own goroutine; if the live heap passes 64 MiB while
// it is still running, the decode is allocating without consuming input and is
// reported (the input is < 100 bytes; nothing bounded by the input gets there).
// A decode that merely takes long (30 min) is inconclusive, not a violation.

import (
	"bytes"
	"fmt"
	"os"
	"reflect"
	"runtime/metrics"
	"time"

	"gitlab.com/aquachain/aquachain/rlp"
	"verif/internal/fw"
	"verif/internal/ref/refrlp"
)

type arr1Tail struct {
	A    uint
	Rest [][1]byte `rlp:"tail"`
}

type arr1Fields struct {
	A [1]byte
	B [1]byte
	C []byte
}

var arr1Targets = []target{
	{"arr1fields", tOf(new(arr1Fields))},
	{"arr1fixed", tOf(new([3][1]byte))},
	{"arr1s", tOf(new([][1]byte))},
	{"arr1tail", tOf(new(arr1Tail))},
}

func heapBytes() uint64 {
	s := []metrics.Sample{{Name: "/memory/classes/heap/objects:bytes"}}
	metrics.Read(s)
	if s[0].Value.Kind() == metrics.KindUint64 {
		return s[0].Value.Uint64()
	}
	return 0
}

const runawayHeap = 64 << 20

// bounded runs f in its own goroutine. Returns "" when f returned, "runaway"
// when the heap passed runawayHeap while f was still running, "slow" when f
// did not return within 30 minutes.
func bounded(f func()) string {
	done := make(chan struct{})
	go func() {
		defer close(done)
		f()
	}()
	tick := time.NewTicker(5 * time.Millisecond)
	defer tick.Stop()
	deadline := time.After(30 * time.Minute)
	for {
		select {
		case <-done:
			return ""
		case <-tick.C:
			if heapBytes() > runawayHeap {
				return "runaway"
			}
		case <-deadline:
			return "slow"
		}
	}
}

// ---------------------------------------------------------------------------
// process-wide safety net for every other leg: a decode that allocates without
// bound must not take the machine down. The monitor names the input in flight
// in a "panic:" line (the driver builds the signature of a dead child from it).

func startHeapGuard(limit uint64) {
	go func() {
		for {
			time.Sleep(50 * time.Millisecond)
			if heapBytes() > limit {
				fmt.Fprintf(os.Stderr, "panic: c11 heap guard: live heap passed the limit during a decode (unbounded allocation); the input is the last one logged\n")
				os.Exit(2)
			}
		}
	}()
}

// ---------------------------------------------------------------------------

func runArr1(c *fw.Ctx) {
	n := c.Pick(40, 2000)
	aborted := false
	// order: every target that can be checked to the end first; within a target
	// generated values, then the forced templates with a zero byte
	for ti, tg := range arr1Targets {
		for i := 0; i < n && !aborted; i++ {
			if (ti*n+i)%c.NBatch != c.Batch {
				continue
			}
			r := c.Rand("arr1", tg.name, fmt.Sprint(i))
			g := &gen{r: r}
			ptr := reflect.New(tg.typ)
			g.fill(ptr.Elem(), ftags{})
			if i%4 == 0 {
				forceZeroByte(ptr.Elem())
			}
			it, terr := refrlp.ToItem(ptr.Interface(), refOpts)
			if terr != nil {
				harnessFault("ToItem(%s): %v", tg.name, terr)
				continue
			}
			ref := refrlp.Encode(it)
			c.Case(fmt.Sprintf("arr1-%s-%d", tg.name, i), valueInput{Type: tg.name, Ref: hx(ref)}, func() {
				enc, ok := encodeAll(c, ptr.Interface(), tg.name)
				if !ok {
					return
				}
				if !bytes.Equal(enc, ref) {
					c.Violate("encoding_differs_from_reference", "EncodeToBytes", tg.name, fmt.Sprintf("real %s, reference %s", hx(enc), hx(ref)))
					return
				}
				c.Count("arr1_encodings")
				c.NontrivialBytes(enc)
				for _, api := range []string{apiDecodeBytes, apiStream} {
					out := reflect.New(tg.typ)
					var err error
					var p interface{}
					c.Note("decoding %s into %s via %s", hx(enc), tg.name, api)
					state := bounded(func() {
						p = guarded(func() {
							if api == apiDecodeBytes {
								err = rlp.DecodeBytes(enc, out.Interface())
							} else {
								err = rlp.NewStream(bytes.NewReader(enc), 0).Decode(out.Interface())
							}
						})
					})
					switch {
					case state == "runaway":
						c.Violate("decode_does_not_terminate", api, tg.name+":allocates_without_consuming_input",
							fmt.Sprintf("%s of the %d-byte canonical encoding %s of a %v did not return; the live heap passed %d MiB (the decoder keeps appending elements without reading input)", api, len(enc), hx(enc), tg.typ, runawayHeap>>20))
						aborted = true
						return
					case state == "slow":
						c.Inconclusive("decode_watchdog")
						aborted = true
						return
					case p != nil:
						c.Violate("panic", api, tg.name+":"+panicClass(p), fmt.Sprintf("decoding own encoding %s of a %v panicked: %v", hx(enc), tg.typ, p))
					case err != nil:
						c.Violate("own_encoding_rejected", api, tg.name+":"+errClass(err), fmt.Sprintf("value %+v of %v encodes to %s, decoding that fails: %v", ptr.Elem().Interface(), tg.typ, hx(enc), err))
					case !equalValues(ptr.Elem(), out.Elem()):
						c.Violate("roundtrip_value_differs", api, tg.name, fmt.Sprintf("value %+v of %v encodes to %s, which decodes to %+v", ptr.Elem().Interface(), tg.typ, hx(enc), out.Elem().Interface()))
					default:
						c.Count("arr1_roundtrips")
					}
				}
			})
		}
	}
}

// forceZeroByte sets the first one-byte array found in v to {0}.
func forceZeroByte(v reflect.Value) bool {
	t := v.Type()
	switch t.Kind() {
	case reflect.Array:
		if t.Len() == 1 && t.Elem().Kind() == reflect.Uint8 {
			v.Index(0).SetUint(0)
			return true
		}
		for i := 0; i < v.Len(); i++ {
			if forceZeroByte(v.Index(i)) {
				return true
			}
		}
	case reflect.Slice:
		if v.Len() == 0 && t.Elem().Kind() == reflect.Array {
			v.Set(reflect.MakeSlice(t, 2, 2))
		}
		for i := 0; i < v.Len(); i++ {
			if forceZeroByte(v.Index(i)) {
				return true
			}
		}
	case reflect.Struct:
		for i := 0; i < t.NumField(); i++ {
			if t.Field(i).PkgPath == "" && forceZeroByte(v.Field(i)) {
				return true
			}
		}
	}
	return false
}
