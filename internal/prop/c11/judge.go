package c11

import (
	"bytes"
	"fmt"
	"io"
	"reflect"

	"gitlab.com/aquachain/aquachain/rlp"
	"verif/internal/fw"
	"verif/internal/ref/refrlp"
)

// byteSrc is a ByteReader that is neither *bytes.Reader nor *strings.Reader:
// a Stream over it has no input limit unless one is given.
type byteSrc struct {
	b []byte
	i int
}

func (s *byteSrc) Read(p []byte) (int, error) {
	if s.i >= len(s.b) {
		return 0, io.EOF
	}
	n := copy(p, s.b[s.i:])
	s.i += n
	return n, nil
}

func (s *byteSrc) ReadByte() (byte, error) {
	if s.i >= len(s.b) {
		return 0, io.EOF
	}
	x := s.b[s.i]
	s.i++
	return x, nil
}

// plainSrc is only an io.Reader: the Stream wraps it in a bufio.Reader.
type plainSrc struct{ r *bytes.Reader }

func (p plainSrc) Read(b []byte) (int, error) { return p.r.Read(b) }

// guarded runs f and returns the recovered panic value, if any.
func guarded(f func()) (p interface{}) {
	defer func() {
		if r := recover(); r != nil {
			p = r
		}
	}()
	f()
	return nil
}

const (
	apiDecodeBytes   = "DecodeBytes"
	apiStream        = "Stream.Decode"         // over *bytes.Reader (limit discovered)
	apiStreamLimit   = "Stream.Decode/limit"   // plain reader + explicit limit
	apiStreamNoLimit = "Stream.Decode/nolimit" // ByteReader without limit
)

type witness struct {
	Input  string `json:"input"`
	Target string `json:"target,omitempty"`
	API    string `json:"api"`
	Note   string `json:"note,omitempty"`
}

type judge struct {
	c *fw.Ctx
	// per-input results of the last judged input
	accepted int
}

func (j *judge) vio(clause, api, cause, detail string, b []byte, tg string) {
	j.c.ViolateInput(clause, api, cause, detail, witness{Input: hxShort(b), Target: tg, API: api})
}

// announcesHuge: some position of b, read as a long-form header, announces a
// size in [lo, 2^48). Used to keep such inputs away from unlimited streams.
func announcesHuge(b []byte, lo uint64) bool {
	for i := range b {
		t := b[i]
		if (t >= 0xb8 && t < 0xc0) || t >= 0xf8 {
			if n := refrlp.DeclaredSize(b[i:]); n >= lo && n < 1<<48 {
				return true
			}
		}
	}
	return false
}

// typed runs one decode of b into a fresh value of tg through api and applies
// the oracles. prefixOK: the api reads one value and may leave a rest.
// Returns whether the real code accepted.
func (j *judge) typed(api string, b []byte, tg target) bool {
	ptr := reflect.New(tg.typ)
	var err error
	consumed := -1
	prefix := api != apiDecodeBytes
	p := guarded(func() {
		switch api {
		case apiDecodeBytes:
			err = rlp.DecodeBytes(b, ptr.Interface())
		case apiStream:
			r := bytes.NewReader(b)
			err = rlp.NewStream(r, 0).Decode(ptr.Interface())
			consumed = len(b) - r.Len()
		case apiStreamLimit:
			if len(b) == 0 {
				// a limit of 0 means "no limit"; an empty input has no known-length form here
				err = io.EOF
				return
			}
			err = rlp.NewStream(plainSrc{bytes.NewReader(b)}, uint64(len(b))).Decode(ptr.Interface())
		case apiStreamNoLimit:
			r := &byteSrc{b: b}
			err = rlp.NewStream(r, 0).Decode(ptr.Interface())
			consumed = r.i
		}
	})
	if p != nil {
		j.vio("panic", api, tg.name+":"+panicClass(p), fmt.Sprintf("decoding %s into %v panicked: %v", hxShort(b), tg.typ, p), b, tg.name)
		return false
	}
	// reference verdict
	var rerr error
	n := len(b)
	if prefix {
		n, rerr = refrlp.AcceptsPrefix(b, tg.typ, refOpts)
	} else {
		rerr = refrlp.AcceptsEnc(b, tg.typ, refOpts)
	}
	switch {
	case err == nil && rerr != nil:
		clause := "illtyped_accepted"
		switch rerr {
		case refrlp.ErrNonCanonByte, refrlp.ErrNonCanonSize, refrlp.ErrLeadingZero:
			clause = "noncanonical_accepted"
		case refrlp.ErrTruncated, refrlp.ErrEmpty:
			clause = "truncated_accepted"
		case refrlp.ErrTrailing:
			clause = "trailing_bytes_accepted"
		case refrlp.ErrWantList, refrlp.ErrWantString:
			clause = "wrong_kind_accepted"
		}
		got, _ := rlp.EncodeToBytes(ptr.Interface())
		cause := refrlp.Class(rerr)
		// attribution: does the input pass once exactly one rule is relaxed?
		if retry := func(o *refrlp.Opts) error {
			if prefix {
				_, e := refrlp.AcceptsPrefix(b, tg.typ, o)
				return e
			}
			return refrlp.AcceptsEnc(b, tg.typ, o)
		}; rerr == refrlp.ErrNonCanonByte && retry(optsLenientRaw) == nil {
			cause = "wrapped_single_byte_in_raw_value_position"
		} else if (rerr == refrlp.ErrWantList || rerr == refrlp.ErrWantString) && retry(optsLenientNil) == nil {
			cause = "nil_tag_takes_empty_value_of_wrong_kind"
		}
		j.vio(clause, api, tg.name+":"+cause,
			fmt.Sprintf("%s accepted %s into %v although it is not the canonical encoding of any value of that type (reference: %v); decoded value re-encodes to %s",
				api, hxShort(b), tg.typ, rerr, hxShort(got)), b, tg.name)
		return true
	case err != nil && rerr == nil:
		j.vio("canonical_encoding_rejected", api, tg.name+":"+errClass(err),
			fmt.Sprintf("%s rejected %s for %v with %q although it is the canonical encoding of a value of that type", api, hxShort(b[:n]), tg.typ, err), b, tg.name)
		return false
	case err != nil:
		return false
	}
	// both accept
	if consumed >= 0 && consumed != n {
		j.vio("wrong_extent_consumed", api, tg.name, fmt.Sprintf("%s consumed %d bytes of %s, the first value is %d bytes long", api, consumed, hxShort(b), n), b, tg.name)
	}
	var enc []byte
	var eerr error
	if p := guarded(func() { enc, eerr = rlp.EncodeToBytes(ptr.Interface()) }); p != nil {
		j.vio("panic", "EncodeToBytes", tg.name+":"+panicClass(p), fmt.Sprintf("re-encoding the value decoded from %s panicked: %v", hxShort(b), p), b, tg.name)
		return true
	}
	if eerr != nil || !bytes.Equal(enc, b[:n]) {
		j.vio("reencode_differs", api, tg.name, fmt.Sprintf("%s into %v decodes; the value encodes to %s (err %v): two byte strings for one value", hxShort(b[:n]), tg.typ, hxShort(enc), eerr), b, tg.name)
		return true
	}
	// the decoded value, abstracted by the reference, must denote the input
	if it, terr := refrlp.ToItem(ptr.Interface(), refOpts); terr == nil {
		if ref := refrlp.EncodeLinear(it); !bytes.Equal(ref, b[:n]) {
			j.vio("decoded_value_differs", api, tg.name, fmt.Sprintf("%s into %v: decoded value %+v denotes %s by the reference", hxShort(b[:n]), tg.typ, ptr.Elem().Interface(), hxShort(ref)), b, tg.name)
		}
	} else {
		j.c.Count("value_check_skipped_opaque_raw")
	}
	return true
}

// ---------------------------------------------------------------------------
// Stream API walker

// walkStream reads one value through the piecemeal API. mode chooses the leaf
// operation: 'b' Bytes, 'r' Raw, 'u' Uint for strings of <= 8 bytes else Bytes.
// Returns the canonical re-encoding of what was read.
func walkStream(s *rlp.Stream, mode byte, depth int) ([]byte, error) {
	kind, size, err := s.Kind()
	if err != nil {
		return nil, err
	}
	if kind == rlp.List {
		if _, err := s.List(); err != nil {
			return nil, err
		}
		var kids []*refrlp.Item
		for {
			enc, err := walkStream(s, mode, depth+1)
			if err == rlp.EOL {
				break
			}
			if err != nil {
				return nil, err
			}
			// keep as opaque pre-encoded child
			kids = append(kids, &refrlp.Item{Str: enc})
		}
		if err := s.ListEnd(); err != nil {
			return nil, err
		}
		var payload []byte
		for _, k := range kids {
			payload = append(payload, k.Str...)
		}
		return append(listHeader(len(payload)), payload...), nil
	}
	switch {
	case mode == 'r':
		return s.Raw()
	case mode == 'u' && (kind == rlp.Byte || size <= 8):
		v, err := s.Uint()
		if err != nil {
			return nil, err
		}
		return refrlp.Encode(refrlp.U(v)), nil
	default:
		b, err := s.Bytes()
		if err != nil {
			return nil, err
		}
		return refrlp.Encode(refrlp.S(b)), nil
	}
}

func listHeader(n int) []byte {
	// header of the reference encoder for a list with n payload bytes
	if n < 56 {
		return []byte{0xc0 + byte(n)}
	}
	var lb []byte
	for m := n; m > 0; m >>= 8 {
		lb = append([]byte{byte(m)}, lb...)
	}
	return append([]byte{0xf7 + byte(len(lb))}, lb...)
}

// allUints: every string leaf of the item is a canonical integer of <= 8 bytes
// or longer than 8 bytes (the 'u' walker reads only the short ones as integers).
func leafIntsCanonical(it *refrlp.Item) bool {
	if !it.IsList {
		return len(it.Str) > 8 || len(it.Str) == 0 || it.Str[0] != 0
	}
	for _, c := range it.List {
		if !leafIntsCanonical(c) {
			return false
		}
	}
	return true
}

func (j *judge) streamWalk(b []byte) {
	it, rest, rerr := refrlp.DecodeOne(b)
	n := len(b) - len(rest)
	for _, mode := range []byte{'b', 'r', 'u'} {
		api := map[byte]string{'b': "Stream.walk/Bytes", 'r': "Stream.walk/Raw", 'u': "Stream.walk/Uint"}[mode]
		var got []byte
		var err error
		r := bytes.NewReader(b)
		p := guarded(func() { got, err = walkStream(rlp.NewStream(r, 0), mode, 0) })
		if p != nil {
			j.vio("panic", api, panicClass(p), fmt.Sprintf("walking %s panicked: %v", hxShort(b), p), b, "")
			continue
		}
		j.c.Count("walk_stream_compared")
		want := rerr == nil
		if mode == 'u' && want && !leafIntsCanonical(it) {
			want = false
		}
		switch {
		case err == nil && !want:
			cause := refrlp.Class(rerr)
			if rerr == nil {
				cause = "leading_zero_int"
			}
			j.vio("noncanonical_accepted", api, cause, fmt.Sprintf("the Stream API read %s without error (reference: %v); what it returned re-encodes to %s", hxShort(b), rerr, hxShort(got)), b, "")
		case err != nil && want:
			j.vio("canonical_encoding_rejected", api, errClass(err), fmt.Sprintf("the Stream API rejected canonical %s: %v", hxShort(b[:n]), err), b, "")
		case err == nil:
			if !bytes.Equal(got, b[:n]) {
				j.vio("walk_content_differs", api, "", fmt.Sprintf("the Stream API read %s as a value that encodes to %s", hxShort(b[:n]), hxShort(got)), b, "")
			}
			if c := len(b) - r.Len(); c != n {
				j.vio("wrong_extent_consumed", api, "", fmt.Sprintf("consumed %d of %s, first value is %d bytes", c, hxShort(b), n), b, "")
			}
		}
	}
}

// ---------------------------------------------------------------------------
// raw-bytes API walker (Split / SplitString / SplitList / CountValues)

func walkSplit(b []byte) (enc []byte, rest []byte, err error) {
	k, content, rest, err := rlp.Split(b)
	if err != nil {
		return nil, nil, err
	}
	if k != rlp.List {
		c2, r2, err2 := rlp.SplitString(b)
		if err2 != nil || !bytes.Equal(c2, content) || len(r2) != len(rest) {
			return nil, nil, fmt.Errorf("SplitString disagrees with Split: %v", err2)
		}
		if _, _, err3 := rlp.SplitList(b); err3 == nil {
			return nil, nil, fmt.Errorf("SplitList accepted a string")
		}
		if k == rlp.Byte && len(content) != 1 {
			return nil, nil, fmt.Errorf("Split returned kind Byte with %d content bytes", len(content))
		}
		return refrlp.Encode(refrlp.S(content)), rest, nil
	}
	c2, r2, err2 := rlp.SplitList(b)
	if err2 != nil || !bytes.Equal(c2, content) || len(r2) != len(rest) {
		return nil, nil, fmt.Errorf("SplitList disagrees with Split: %v", err2)
	}
	if _, _, err3 := rlp.SplitString(b); err3 == nil {
		return nil, nil, fmt.Errorf("SplitString accepted a list")
	}
	var payload []byte
	for c := content; len(c) > 0; {
		e, r, err := walkSplit(c)
		if err != nil {
			return nil, nil, err
		}
		payload = append(payload, e...)
		c = r
	}
	return append(listHeader(len(payload)), payload...), rest, nil
}

func (j *judge) splitWalk(b []byte) {
	_, rest, rerr := refrlp.DecodeOne(b)
	n := len(b) - len(rest)
	const api = "Split.walk"
	var got, grest []byte
	var err error
	if p := guarded(func() { got, grest, err = walkSplit(b) }); p != nil {
		j.vio("panic", api, panicClass(p), fmt.Sprintf("splitting %s panicked: %v", hxShort(b), p), b, "")
		return
	}
	j.c.Count("walk_split_compared")
	switch {
	case err == nil && rerr != nil:
		j.vio("noncanonical_accepted", api, refrlp.Class(rerr), fmt.Sprintf("Split/SplitList/CountValues walked %s without error (reference: %v)", hxShort(b), rerr), b, "")
	case err != nil && rerr == nil:
		j.vio("canonical_encoding_rejected", api, errClass(err), fmt.Sprintf("raw-bytes API failed on canonical %s: %v", hxShort(b[:n]), err), b, "")
	case err == nil:
		if !bytes.Equal(got, b[:n]) || len(grest) != len(b)-n {
			j.vio("walk_content_differs", api, "", fmt.Sprintf("Split walked %s as %s with %d rest bytes", hxShort(b), hxShort(got), len(grest)), b, "")
		}
	}
	// shallow header agreement (Split alone), also where the deep walk fails
	h, herr := refrlp.Header(b)
	var k rlp.Kind
	var content, srest []byte
	var serr error
	if p := guarded(func() { k, content, srest, serr = rlp.Split(b) }); p != nil {
		j.vio("panic", "Split", panicClass(p), fmt.Sprintf("Split(%s) panicked: %v", hxShort(b), p), b, "")
		return
	}
	switch {
	case serr == nil && herr != nil:
		j.vio("noncanonical_accepted", "Split", refrlp.Class(herr), fmt.Sprintf("Split accepted the header of %s (reference: %v)", hxShort(b), herr), b, "")
	case serr != nil && herr == nil:
		j.vio("canonical_encoding_rejected", "Split", errClass(serr), fmt.Sprintf("Split rejected the canonical header of %s: %v", hxShort(b), serr), b, "")
	case serr == nil:
		wantK := map[byte]rlp.Kind{'b': rlp.Byte, 's': rlp.String, 'l': rlp.List}[h.Kind]
		if k != wantK || uint64(len(content)) != h.Size || uint64(len(srest)) != uint64(len(b))-h.Tag-h.Size {
			j.vio("split_header_differs", "Split", "", fmt.Sprintf("Split(%s) = kind %v, %d content, %d rest; reference header %c tag %d size %d", hxShort(b), k, len(content), len(srest), h.Kind, h.Tag, h.Size), b, "")
		}
	}
	// CountValues over b taken as a sequence of values (shallow)
	var cnt int
	var cerr error
	if p := guarded(func() { cnt, cerr = rlp.CountValues(b) }); p != nil {
		j.vio("panic", "CountValues", panicClass(p), fmt.Sprintf("CountValues(%s) panicked: %v", hxShort(b), p), b, "")
		return
	}
	rcnt, rcerr := refrlp.Count(b)
	switch {
	case cerr == nil && rcerr != nil:
		j.vio("noncanonical_accepted", "CountValues", refrlp.Class(rcerr), fmt.Sprintf("CountValues(%s) = %d (reference: %v)", hxShort(b), cnt, rcerr), b, "")
	case cerr != nil && rcerr == nil:
		j.vio("canonical_encoding_rejected", "CountValues", errClass(cerr), fmt.Sprintf("CountValues rejected %s, a sequence of %d canonical headers: %v", hxShort(b), rcnt, cerr), b, "")
	case cerr == nil && cnt != rcnt:
		j.vio("count_differs", "CountValues", "", fmt.Sprintf("CountValues(%s) = %d, reference %d", hxShort(b), cnt, rcnt), b, "")
	}
}
