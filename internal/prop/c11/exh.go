package c11

import (
	"fmt"

	"verif/internal/fw"
	"verif/internal/ref/refrlp"
)

var streamAlways = []string{"iface", "raw"}
var streamRotating = []string{"bytes", "simple", "uints", "u64", "struct_raw", "nilptrs", "tail_raw", "arr3", "big", "ifslice"}

// judgeInput applies every oracle of the bytes legs to one input: DecodeBytes
// into every target; with full also Stream.Decode in its three input-limit
// modes (into interface{} and RawValue always, into two further targets chosen
// by the input's content) and the Stream / Split API walkers.
func (j *judge) judgeInput(b []byte, targets []target, full bool) (accepted int) {
	c := j.c
	for _, tg := range targets {
		if j.typed(apiDecodeBytes, b, tg) {
			accepted++
		}
	}
	if full {
		h := 0
		for _, x := range b {
			h = (h*31 + int(x)) & 0xffffff
		}
		names := append([]string{}, streamAlways...)
		names = append(names, streamRotating[h%len(streamRotating)], streamRotating[(h/len(streamRotating)+1+h)%len(streamRotating)])
		huge := announcesHuge(b, 4<<20)
		for _, name := range names {
			tg := targetByName(name)
			j.typed(apiStream, b, tg)
			j.typed(apiStreamLimit, b, tg)
			if huge {
				c.Count("nolimit_skipped_huge_announcement")
			} else {
				j.typed(apiStreamNoLimit, b, tg)
			}
		}
		j.streamWalk(b)
		j.splitWalk(b)
	}
	return accepted
}

func runExh(c *fw.Ctx) {
	exhScope(c, "a", alphabet, exhLen(c.Tier))
	exhScope(c, "b", alphabetB, exhLen(c.Tier))
}

func exhScope(c *fw.Ctx, scope string, alphabet []byte, L int) {
	A := len(alphabet)
	j := &judge{c: c}
	process := func(b []byte) {
		c.Count("exh_inputs")
		acc := j.judgeInput(b, smallTargets, true)
		if acc > 0 {
			c.CountN("exh_accepted_and_reencoded", acc)
			c.NontrivialBytes(b)
		}
		if _, err := refrlp.Decode(b); err == refrlp.ErrNonCanonByte || err == refrlp.ErrNonCanonSize {
			c.Count("exh_rejected_noncanonical") // offered; any acceptance above is a violation
		}
	}
	// strings shorter than 2 symbols: batch 0
	if c.Batch == 0 {
		c.Case("exh-"+scope+"-short", map[string]interface{}{"lengths": "0..1"}, func() {
			process([]byte{})
			for _, a := range alphabet {
				process([]byte{a})
			}
		})
	}
	// every 2-symbol prefix is one case: the prefix itself and all extensions
	for p := 0; p < A*A; p++ {
		if p%c.NBatch != c.Batch {
			continue
		}
		pre := []byte{alphabet[p/A], alphabet[p%A]}
		c.Case(fmt.Sprintf("exh-%s-%02x%02x", scope, pre[0], pre[1]), map[string]interface{}{"scope": scope, "prefix": hx(pre), "max_len": L}, func() {
			buf := make([]byte, L)
			copy(buf, pre)
			var rec func(n int)
			rec = func(n int) {
				process(buf[:n])
				if n == L {
					return
				}
				for _, a := range alphabet {
					buf[n] = a
					rec(n + 1)
				}
			}
			rec(2)
			if p == 0 && scope == "a" {
				c.Sample(map[string]interface{}{"case": "exhaustive", "prefix": hx(pre), "scope": scope, "strings_under_prefix": scopeTotal(A, L-2), "targets": len(smallTargets)})
			}
		})
	}
}
