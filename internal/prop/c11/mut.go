package c11

import (
	"fmt"
	"reflect"

	"verif/internal/fw"
	"verif/internal/ref/refrlp"
)

// ---------------------------------------------------------------------------
// by-construction non-canonical encodings of an item tree

// encodeWith encodes the tree canonically except at the node `at`, where
// variant v is applied:
//
//	1 long-form size although the payload is < 56 bytes          (b8 nn / f8 nn)
//	2 size with a leading zero byte                               (b9 00 nn / f9 00 nn, ba 00 ..)
//	3 single byte < 0x80 wrapped in a one-byte string header       (81 xx)
//
// applied reports whether the node admitted the variant.
func encodeWith(it, at *refrlp.Item, v int, applied *bool) []byte {
	var payload []byte
	base := byte(0x80)
	if it.IsList {
		base = 0xc0
		for _, c := range it.List {
			payload = append(payload, encodeWith(c, at, v, applied)...)
		}
	} else {
		payload = it.Str
	}
	if it != at {
		if !it.IsList && len(payload) == 1 && payload[0] < 0x80 {
			return []byte{payload[0]}
		}
		return append(canonHeader(base, len(payload)), payload...)
	}
	n := len(payload)
	switch v {
	case 1:
		if n < 56 && !(!it.IsList && n == 1 && payload[0] < 0x80) {
			*applied = true
			return append([]byte{base + 55 + 1, byte(n)}, payload...)
		}
	case 2:
		if !(!it.IsList && n == 1 && payload[0] < 0x80) {
			*applied = true
			var lb []byte
			for m := n; m > 0; m >>= 8 {
				lb = append([]byte{byte(m)}, lb...)
			}
			lb = append([]byte{0}, lb...)
			return append(append([]byte{base + 55 + byte(len(lb))}, lb...), payload...)
		}
	case 3:
		if !it.IsList && n == 1 && payload[0] < 0x80 {
			*applied = true
			return []byte{0x81, payload[0]}
		}
	}
	if !it.IsList && n == 1 && payload[0] < 0x80 {
		return []byte{payload[0]}
	}
	return append(canonHeader(base, n), payload...)
}

func canonHeader(base byte, n int) []byte {
	if n < 56 {
		return []byte{base + byte(n)}
	}
	var lb []byte
	for m := n; m > 0; m >>= 8 {
		lb = append([]byte{byte(m)}, lb...)
	}
	return append([]byte{base + 55 + byte(len(lb))}, lb...)
}

func allNodes(it *refrlp.Item, out *[]*refrlp.Item) {
	*out = append(*out, it)
	if it.IsList {
		for _, c := range it.List {
			allNodes(c, out)
		}
	}
}

// ---------------------------------------------------------------------------
// header positions of a canonical encoding (for size edits)

type hdrPos struct {
	off  int // offset of the header's first byte
	tag  int // header length
	size int // payload length
	list bool
}

func headerPositions(b []byte, base int, out *[]hdrPos) {
	for off := 0; off < len(b); {
		h, err := refrlp.Header(b[off:])
		if err != nil {
			return
		}
		if h.Kind != 'b' {
			*out = append(*out, hdrPos{base + off, int(h.Tag), int(h.Size), h.Kind == 'l'})
		}
		if h.Kind == 'l' {
			headerPositions(b[off+int(h.Tag):off+int(h.Tag+h.Size)], base+off+int(h.Tag), out)
		}
		off += int(h.Tag + h.Size)
	}
}

// withSize rewrites the header at p to announce newSize (canonical form of that
// number), leaving the payload bytes as they are.
func withSize(b []byte, p hdrPos, newSize int) []byte {
	base := byte(0x80)
	if p.list {
		base = 0xc0
	}
	out := append([]byte{}, b[:p.off]...)
	out = append(out, canonHeader(base, newSize)...)
	return append(out, b[p.off+p.tag:]...)
}

// ---------------------------------------------------------------------------

type mutInput struct {
	Type string `json:"type"`
	Base string `json:"base_encoding"`
}

// base produces the i-th base encoding: a value of a generic or consensus type.
func mutBase(c *fw.Ctx, i int) (name string, tg target, enc []byte, it *refrlp.Item, ok bool) {
	r := c.Rand("base", fmt.Sprint(i))
	g := &gen{r: r}
	if i%3 == 2 {
		kind := consensusKinds[(i/3)%len(consensusKinds)]
		cc := g.consensus(kind)
		it, err := refrlp.ToItem(cc.shadow, nil)
		if err != nil {
			harnessFault("ToItem(shadow %s): %v", kind, err)
			return "", target{}, nil, nil, false
		}
		return kind, targetByName(kind), refrlp.Encode(it), it, true
	}
	vt := valueTypes[(i/3*2+i%3)%len(valueTypes)]
	if vt.name == "namedbytes" {
		vt = valueTypes[0]
	}
	ptr := reflect.New(vt.typ)
	g.fill(ptr.Elem(), ftags{})
	it, err := refrlp.ToItem(ptr.Interface(), refOpts)
	if err != nil {
		harnessFault("ToItem(%s): %v", vt.name, err)
		return "", target{}, nil, nil, false
	}
	return vt.name, vt, refrlp.Encode(it), it, true
}

func runMut(c *fw.Ctx) {
	nBases := c.Pick(60, 3000)
	nRand := c.Pick(600, 40000)
	j := &judge{c: c}
	ifaceTg, rawTg := targetByName("iface"), targetByName("raw")

	for i := 0; i < nBases; i++ {
		name, own, enc, it, ok := mutBase(c, i)
		if !ok {
			continue
		}
		if len(enc) > 6000 {
			// keep per-base work bounded; huge payloads are covered by the alloc leg
			c.Count("mut_base_skipped_large")
			continue
		}
		r := c.Rand("mut", fmt.Sprint(i))
		others := []target{smallTargets[r.Intn(len(smallTargets))], smallTargets[r.Intn(len(smallTargets))]}
		targets := append([]target{own, ifaceTg, rawTg}, others...)
		c.Case(fmt.Sprintf("mut-%s-%d", name, i), mutInput{Type: name, Base: hxShort(enc)}, func() {
			c.Count("mut_bases")
			c.NontrivialBytes(enc)
			if refrlp.AcceptsEnc(enc, own.typ, refOpts) != nil {
				harnessFault("reference rejects base encoding %s of %s", hxShort(enc), name)
				return
			}
			offer := func(m []byte, full bool) int {
				acc := j.judgeInput(m, targets, full)
				if acc > 0 {
					c.CountN("mut_accepted_and_reencoded", acc)
				}
				return acc
			}
			offer(enc, true)

			// (1) by-construction non-canonical re-encodings of the same tree
			var nodes []*refrlp.Item
			allNodes(it, &nodes)
			pick := nodes
			if len(pick) > 40 {
				pick = nil
				for k := 0; k < 40; k++ {
					pick = append(pick, nodes[r.Intn(len(nodes))])
				}
			}
			for _, at := range pick {
				for v := 1; v <= 3; v++ {
					applied := false
					m := encodeWith(it, at, v, &applied)
					if !applied {
						continue
					}
					if _, err := refrlp.Decode(m); err == nil {
						harnessFault("reference accepts by-construction non-canonical %s (variant %d)", hxShort(m), v)
						continue
					}
					// own type and interface{} must reject; raw and unrelated targets are judged by the reference
					offer(m, v == 3)
					c.Count("mut_noncanonical_by_construction_rejected")
				}
			}
			// (2) integers with a leading zero byte: canonical RLP, not a canonical integer
			for k := 0; k < 12; k++ {
				at := nodes[r.Intn(len(nodes))]
				if at.IsList || len(at.Str) > 33 {
					continue
				}
				saved := at.Str
				at.Str = append([]byte{0}, saved...)
				m := refrlp.Encode(it)
				at.Str = saved
				offer(m, false)
				c.Count("mut_zero_prefixed_integer")
			}
			// (3) bit flips
			if len(enc) <= 48 {
				for pos := 0; pos < len(enc)*8; pos++ {
					m := append([]byte{}, enc...)
					m[pos/8] ^= 1 << uint(pos%8)
					offer(m, false)
				}
				c.CountN("mut_bitflips", len(enc)*8)
			} else {
				for k := 0; k < 128; k++ {
					pos := r.Intn(len(enc) * 8)
					m := append([]byte{}, enc...)
					m[pos/8] ^= 1 << uint(pos%8)
					offer(m, false)
				}
				c.CountN("mut_bitflips", 128)
			}
			// (4) truncation at every offset (first 96) and a few random ones, extension
			for cut := 0; cut < len(enc) && cut < 96; cut++ {
				offer(enc[:cut], cut < 8)
				c.Count("mut_truncations")
			}
			for k := 0; k < 8 && len(enc) > 96; k++ {
				offer(enc[:r.Range(96, len(enc)-1)], false)
				c.Count("mut_truncations")
			}
			for _, x := range []byte{0x00, 0x80, 0xc0} {
				offer(append(append([]byte{}, enc...), x), true)
				c.Count("mut_extensions")
			}
			// (5) size edits and kind swaps at header positions
			var hp []hdrPos
			headerPositions(enc, 0, &hp)
			if len(hp) > 24 {
				sel := make([]hdrPos, 24)
				for k := range sel {
					sel[k] = hp[r.Intn(len(hp))]
				}
				hp = sel
			}
			for _, p := range hp {
				offer(withSize(enc, p, p.size+1), false)
				if p.size > 0 {
					offer(withSize(enc, p, p.size-1), false)
				}
				m := append([]byte{}, enc...)
				if p.list {
					m[p.off] -= 0x40
				} else {
					m[p.off] += 0x40
				}
				offer(m, false)
				c.Count("mut_header_edits")
			}
			// (6) empty string <-> empty list at every position holding one
			swaps := 0
			for pos := range enc {
				if enc[pos] != 0x80 && enc[pos] != 0xc0 {
					continue
				}
				if swaps >= 40 {
					break
				}
				m := append([]byte{}, enc...)
				m[pos] ^= 0x40
				offer(m, false)
				swaps++
			}
			c.CountN("mut_nil_kind_swaps", swaps)
			if i < 1 && c.Batch == 0 {
				c.Sample(map[string]interface{}{"case": "mutation", "type": name, "base_bytes": len(enc), "tree_nodes": len(nodes), "headers": len(hp)})
			}
		})
	}

	// grammar-random strings
	for i := 0; i < nRand; i += 50 {
		c.Case(fmt.Sprintf("rand-%d", i), map[string]interface{}{"first": i, "count": 50}, func() {
			for k := i; k < i+50 && k < nRand; k++ {
				r := c.Rand("rand", fmt.Sprint(k))
				b := randomRLPish(r, 3)
				if len(b) > 300 {
					b = b[:300]
				}
				c.Count("rand_inputs")
				targets := []target{ifaceTg, rawTg, smallTargets[r.Intn(len(smallTargets))], smallTargets[r.Intn(len(smallTargets))], consensusTargets[r.Intn(len(consensusTargets))]}
				if j.judgeInput(b, targets, k%4 == 0) > 0 {
					c.NontrivialBytes(b)
					c.Count("rand_accepted")
				}
			}
		})
	}
}

// randomRLPish writes something that looks like RLP: headers that are mostly,
// but not always, consistent with what follows.
func randomRLPish(r *fw.Rand, depth int) []byte {
	var payload []byte
	list := depth > 0 && r.Chance(1, 2)
	if list {
		for n := r.Range(0, 4); n > 0; n-- {
			payload = append(payload, randomRLPish(r, depth-1)...)
		}
	} else {
		switch r.Intn(4) {
		case 0:
			payload = []byte{alphabet[r.Intn(len(alphabet))]}
		case 1:
			payload = r.Bytes(r.Range(0, 9))
		case 2:
			payload = r.Bytes([]int{54, 55, 56, 57, 60}[r.Intn(5)])
		default:
			payload = r.Bytes(r.Range(0, 3))
		}
	}
	base := byte(0x80)
	if list {
		base = 0xc0
	}
	n := len(payload)
	switch r.Intn(12) {
	case 0: // lie about the size
		n += r.Range(-2, 2)
		if n < 0 {
			n = 0
		}
	case 1: // long form where short is due
		if n < 56 {
			return append([]byte{base + 56, byte(n)}, payload...)
		}
	case 2: // zero-prefixed size
		return append([]byte{base + 57, 0, byte(n)}, payload...)
	case 3: // raw noise
		return r.Bytes(r.Range(1, 6))
	case 4: // huge announced size
		hd := []byte{base + 55 + 8}
		hd = append(hd, r.Bytes(8)...)
		return append(hd, payload...)
	}
	if !list && n == 1 && len(payload) == 1 && payload[0] < 0x80 && r.Chance(9, 10) {
		return payload
	}
	return append(canonHeader(base, n), payload...)
}
