// Package c11: RLP is a canonical, total and bounded codec.
//
// Monitors (all run the real /repo/rlp and /repo/core/types code):
//
//	values  generated Go values of every supported kind and every consensus type:
//	        real encoding == encoding of the same abstract value by the independent
//	        reference (refrlp.ToItem + refrlp.Encode); decoding the encoding returns
//	        an equal value (DecodeBytes, Stream, Stream over concatenations); the three
//	        encoder entry points agree; Split/CountValues see the reference header.
//	exh     every byte string of length <= 5 (quick) / 6 (thorough) over a 17-symbol
//	        boundary alphabet, into ~30 typed targets through DecodeBytes, Stream.Decode
//	        (limited and unlimited), a Stream API walker (List/Bytes/Raw/Uint/ListEnd)
//	        and a Split/SplitList/CountValues walker: no panic; accepted iff the strict
//	        type-directed reference accepts; accepted input re-encodes to itself.
//	mut     mutants of valid encodings (bit flips, truncation, extension, header edits,
//	        by-construction non-canonical re-encodings of the same tree, empty-string /
//	        empty-list swaps) and grammar-random strings, same oracles.
//	alloc   single goroutine, GC off: bytes allocated by one decode of a known-length
//	        input <= c0 + c1*len(input), including inputs whose headers announce up to
//	        2^64-1 bytes and nestings 10 000+ deep.
package c11

import (
	"bytes"
	"encoding/hex"
	"fmt"
	"os"
	"reflect"
	"regexp"
	"time"

	"gitlab.com/aquachain/aquachain/common/log"
	"verif/internal/fw"
	"verif/internal/ref/refrlp"
)

var alphabet = []byte{0x00, 0x01, 0x37, 0x38, 0x7f, 0x80, 0x81, 0xb7, 0xb8, 0xb9, 0xbf, 0xc0, 0xc1, 0xf7, 0xf8, 0xf9, 0xff}

func exhLen(tier string) int {
	if tier == "thorough" {
		return 6
	}
	return 5
}

// alphabetB: a second, complementary exhaustive scope. The boundary alphabet
// has no short list headers other than c0/c1, so within 5 bytes it contains no
// list of two or more elements; this one has them (and two/three byte strings).
var alphabetB = []byte{0x00, 0x01, 0x7f, 0x80, 0x81, 0x82, 0x83, 0xc0, 0xc1, 0xc2, 0xc3, 0xc4}

func scopeTotal(A, L int) int {
	n, p := 0, 1
	for k := 0; k <= L; k++ {
		n += p
		p *= A
	}
	return n
}

func exhTotal(L int) int { return scopeTotal(len(alphabet), L) + scopeTotal(len(alphabetB), L) }

func init() {
	fw.Register(&fw.Prop{
		ID:    "C11",
		Title: "RLP is a canonical, total and bounded codec",
		Level: "exploration",
		Rule: "values: PRNG values of reflect-generated Go types (all uint widths, big.Int, bool, string, byte slices/arrays, named byte types, slices, arrays, structs with nil/tail/- tags, " +
			"pointers, interfaces, RawValue, a custom Encoder/Decoder) and of Header, Transaction, Block, Body, Receipt, ReceiptForStorage, Log, LogForStorage, Account, Transactions, Receipts; " +
			"exh: ALL byte strings of length <= 5 (quick) / 6 (thorough) over {00,01,37,38,7f,80,81,b7,b8,b9,bf,c0,c1,f7,f8,f9,ff} and over {00,01,7f,80,81,82,83,c0,c1,c2,c3,c4} " +
			"x 29 typed targets through DecodeBytes, x {interface{}, RawValue, 2 content-chosen targets} through the three Stream limit modes, x the Stream and Split API walkers (exhaustive for those two scopes only); " +
			"mut: per base encoding all single-bit flips (<=48 bytes) or 128 sampled, truncation at every offset (<=96), one-byte extensions, size +-1, string/list header swaps, 80<->c0 swaps, " +
			"and by-construction non-canonical re-encodings (long-form size for a short value, zero-prefixed size, wrapped single byte, zero-prefixed integer), plus grammar-random strings; " +
			"alloc: announced sizes 56..2^64-1 at top level / in lists / in struct fields, valid large payloads, nestings to depth 10k (quick) / 200k (thorough). " +
			"A case is non-trivial when at least one target accepted its input or a canonical input was offered; distinct = hash of the input bytes.",
		Legs: func(tier string) []fw.Leg {
			// watchdog only (firing = inconclusive): generous, the machine is shared
			wd := 60 * time.Minute
			if tier == "thorough" {
				wd = 4 * time.Hour
			}
			return []fw.Leg{
				{Name: "values", Variant: "plain", Batches: 16, Timeout: wd},
				{Name: "exh", Variant: "plain", Batches: 16, Timeout: wd},
				{Name: "mut", Variant: "plain", Batches: 16, Timeout: wd},
				{Name: "alloc", Variant: "plain", Batches: 8, Timeout: wd, Env: []string{"GOMAXPROCS=1", "GOGC=off"}},
				// last: a non-terminating decode ends its batch (see arr1.go)
				{Name: "arr1", Variant: "plain", Batches: 4, Timeout: wd},
			}
		},
		Run: run,
		Gate: func(tier string) map[string]int {
			g := map[string]int{
				"value_roundtrips":                          2000,
				"value_consensus_roundtrips":                500,
				"value_loose_encodings":                     300,
				"encoding_matches_reference":                3000,
				"stream_sequence_roundtrips":                100,
				"exh_inputs":                                exhTotal(exhLen(tier)),
				"exh_accepted_and_reencoded":                10000,
				"exh_rejected_noncanonical":                 10000,
				"walk_stream_compared":                      100000,
				"walk_split_compared":                       100000,
				"mut_bases":                                 500,
				"mut_noncanonical_by_construction_rejected": 5000,
				"mut_accepted_and_reencoded":                1000,
				"mut_nil_kind_swaps":                        200,
				"rand_inputs":                               5000,
				"alloc_measured":                            5000,
				"alloc_huge_announced":                      300,
				"alloc_valid_large":                         20,
				"alloc_deep_nesting":                        8,
				"arr1_encodings":                            40,
			}
			return g
		},
		Exhaustive: func(tier string, counters map[string]int) bool {
			return counters["exh_inputs"] == exhTotal(exhLen(tier))
		},
		AnchorFiles: []string{"/rlp/"},
		Assumptions: []string{
			"reference = internal/ref/refrlp (yellow-paper appendix B item grammar, strict decoder, type-directed acceptance written from the doc comments of rlp.Encode/rlp.Decode); it shares no code with /repo/rlp and is self-tested against vectors of rlp/encode_test.go at start-up",
			"rlp.RawValue positions are opaque beyond their own header: the package documents that raw content is not examined, so only the header of a raw value is held to the canonical rules",
			"a nil pointer and a pointer to the empty value are the same abstract value under an rlp:\"nil\" tag; nil and empty slices are the same value; values are compared as data (big.Int by numeric value)",
			"allocation bound: TotalAlloc delta of one decode <= 4096 + 512*len(input) bytes for generic targets (8192 + 512*len for consensus targets); measured worst cases on valid inputs: ~160 bytes per input byte (interface{} target, list of one-byte items), ~2 KiB fixed; 'known length' = DecodeBytes, Stream over bytes.Reader/strings.Reader, Stream with an explicit limit",
			"unlimited Streams (NewStream(r, 0) over a plain reader) are exercised for the no-panic and canonicity clauses only; inputs that announce between 4 MiB and 2^48 bytes are not offered to them (the allocation clause does not cover unknown-length inputs and the run must not exhaust the machine)",
		},
	})
}

func run(c *fw.Ctx) {
	log.Root().SetHandler(log.DiscardHandler())
	lenientOpts()
	selfTest()
	if c.Leg != "arr1" {
		startHeapGuard(3 << 30)
	}
	switch c.Leg {
	case "arr1":
		runArr1(c)
	case "values":
		runValues(c)
	case "exh":
		runExh(c)
	case "mut":
		runMut(c)
	case "alloc":
		runAlloc(c)
	}
	if harnessFaults > 0 {
		fmt.Fprintf(os.Stderr, "c11: %d harness self-check failures, first: %s\n", harnessFaults, firstHarnessFault)
		os.Exit(3)
	}
}

var (
	harnessFaults     int
	firstHarnessFault string
)

// harnessFault records a disagreement inside the harness itself (the reference
// accepting a by-construction non-canonical string and the like). It is never a
// property violation: the child exits non-zero outside any case and the driver
// reports a broken harness.
func harnessFault(format string, a ...interface{}) {
	harnessFaults++
	if firstHarnessFault == "" {
		firstHarnessFault = fmt.Sprintf(format, a...)
	}
}

func hx(b []byte) string { return hex.EncodeToString(b) }

func hxShort(b []byte) string {
	if len(b) > 2048 {
		return hex.EncodeToString(b[:1024]) + fmt.Sprintf("...[%d bytes]...", len(b)) + hex.EncodeToString(b[len(b)-64:])
	}
	return hex.EncodeToString(b)
}

var reDigits = regexp.MustCompile(`[0-9]+`)
var reHex = regexp.MustCompile(`0x[0-9a-f]+`)

func errClass(err error) string {
	if err == nil {
		return "nil"
	}
	s := reHex.ReplaceAllString(err.Error(), "0x?")
	s = reDigits.ReplaceAllString(s, "N")
	if len(s) > 110 {
		s = s[:110]
	}
	return s
}

func panicClass(p interface{}) string {
	s := reHex.ReplaceAllString(fmt.Sprint(p), "0x?")
	s = reDigits.ReplaceAllString(s, "N")
	if i := bytes.IndexByte([]byte(s), '\n'); i >= 0 {
		s = s[:i]
	}
	if len(s) > 110 {
		s = s[:110]
	}
	return s
}

// selfTest: the reference must reproduce vectors of rlp/encode_test.go and
// reject the classic non-canonical forms, otherwise nothing below means anything.
func selfTest() {
	type vec struct {
		it  *refrlp.Item
		hex string
	}
	S, L, U := refrlp.S, refrlp.L, refrlp.U
	lorem := []byte("Lorem ipsum dolor sit amet, consectetur adipisicing elit")
	vecs := []vec{
		{U(0), "80"}, {U(127), "7f"}, {U(128), "8180"}, {U(256), "820100"}, {U(1024), "820400"},
		{U(0xFFFFFFFFFFFFFF), "87ffffffffffffff"}, {U(0xFFFFFFFFFFFFFFFF), "88ffffffffffffffff"},
		{S(nil), "80"}, {S([]byte{0x7e}), "7e"}, {S([]byte{0x80}), "8180"}, {S([]byte("dog")), "83646f67"},
		{S(lorem), "b8384c6f72656d20697073756d20646f6c6f722073697420616d65742c20636f6e7365637465747572206164697069736963696e6720656c6974"},
		{L(), "c0"}, {L(S([]byte("cat")), S([]byte("dog"))), "c88363617483646f67"},
		{L(L(), L(L()), L(L(), L(L()))), "c7c0c1c0c3c0c1c0"},
		{L(U(1), U(2), U(3)), "c3010203"},
	}
	for _, v := range vecs {
		if got := hx(refrlp.EncodeLinear(v.it)); got != v.hex {
			fmt.Fprintf(os.Stderr, "c11 self-test: reference (linear encoder) encodes %s, vector says %s\n", got, v.hex)
			os.Exit(3)
		}
		if got := hx(refrlp.Encode(v.it)); got != v.hex {
			fmt.Fprintf(os.Stderr, "c11 self-test: reference encodes %s, vector says %s\n", got, v.hex)
			os.Exit(3)
		}
		b, _ := hex.DecodeString(v.hex)
		it, err := refrlp.Decode(b)
		if err != nil || !bytes.Equal(refrlp.Encode(it), b) {
			fmt.Fprintf(os.Stderr, "c11 self-test: reference cannot decode vector %s: %v\n", v.hex, err)
			os.Exit(3)
		}
	}
	for _, bad := range []string{"8100", "817f", "b800", "b80100", "b90001", "b83700", "f800", "f90001", "f83700", "c180", "81", "b8", "c2c0", ""} {
		b, _ := hex.DecodeString(bad)
		if bad == "c180" {
			if _, err := refrlp.Decode(b); err != nil {
				fmt.Fprintf(os.Stderr, "c11 self-test: reference rejects canonical %s\n", bad)
				os.Exit(3)
			}
			continue
		}
		if _, err := refrlp.Decode(b); err == nil {
			fmt.Fprintf(os.Stderr, "c11 self-test: reference accepts malformed %q\n", bad)
			os.Exit(3)
		}
	}
	// typed rules, spot checks
	type tc struct {
		hex string
		typ reflect.Type
		ok  bool
	}
	for _, x := range []tc{
		{"05", tOf(new(uint8)), true}, {"00", tOf(new(uint8)), false}, {"820001", tOf(new(uint16)), false},
		{"820100", tOf(new(uint8)), false}, {"820100", tOf(new(uint16)), true}, {"c0", tOf(new(uint8)), false},
		{"80", tOf(new(bool)), true}, {"01", tOf(new(bool)), true}, {"02", tOf(new(bool)), false},
		{"83010203", tOf(new([3]byte)), true}, {"820102", tOf(new([3]byte)), false},
		{"c20102", tOf(new([2]uint)), true}, {"c3010203", tOf(new([2]uint)), false}, {"c101", tOf(new([2]uint)), false},
		{"c20580", tOf(new(simple)), true}, {"c105", tOf(new(simple)), false}, {"c3058080", tOf(new(simple)), false},
		{"c4808080c0", tOf(new(nilPtrs)), false}, {"c480c080c0", tOf(new(nilPtrs)), true}, {"c4c0c080c0", tOf(new(nilPtrs)), false},
		{"c3058105", tOf(new(rawPair)), false}, {"c405c28105", tOf(new(rawPair)), true}, {"8105", rawT, false}, {"c28105", rawT, true},
		{"c28105", ifaceT, false}, {"c3010203", tOf(new(rawTail)), true}, {"c20005", tOf(new(arr1Pair)), true},
	} {
		b, _ := hex.DecodeString(x.hex)
		err := refrlp.AcceptsEnc(b, x.typ, refOpts)
		if (err == nil) != x.ok {
			fmt.Fprintf(os.Stderr, "c11 self-test: typed reference says %v for %s into %v, expected ok=%v\n", err, x.hex, x.typ, x.ok)
			os.Exit(3)
		}
	}
}
