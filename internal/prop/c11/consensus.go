package c11

// Consensus types: header, transaction, block, body, receipt (consensus and
// storage form), log (both forms), state account. Each has a plain "shadow"
// struct that states its documented wire shape; the reference works on shadows,
// the real code on the real types, and conversion between the two uses only
// public constructors and accessors (never the codec).

import (
	"fmt"
	"math/big"
	"reflect"

	"gitlab.com/aquachain/aquachain/common"
	"gitlab.com/aquachain/aquachain/core/state"
	"gitlab.com/aquachain/aquachain/core/types"
	"verif/internal/ref/refrlp"
)

type shHeader struct {
	ParentHash  [32]byte
	UncleHash   [32]byte
	Coinbase    [20]byte
	Root        [32]byte
	TxHash      [32]byte
	ReceiptHash [32]byte
	Bloom       [256]byte
	Difficulty  *big.Int
	Number      *big.Int
	GasLimit    uint64
	GasUsed     uint64
	Time        *big.Int
	Extra       []byte
	MixDigest   [32]byte
	Nonce       [8]byte
}

type shTx struct {
	Nonce    uint64
	Price    *big.Int
	GasLimit uint64
	To       *[20]byte `rlp:"nil"`
	Amount   *big.Int
	Payload  []byte
	V, R, S  *big.Int
}

type shBlock struct {
	Header *shHeader
	Txs    []*shTx
	Uncles []*shHeader
}

type shBody struct {
	Txs    []*shTx
	Uncles []*shHeader
}

type shLog struct {
	Address [20]byte
	Topics  [][32]byte
	Data    []byte
}

type shReceipt struct {
	PostStateOrStatus []byte
	CumulativeGasUsed uint64
	Bloom             [256]byte
	Logs              []*shLog
}

type shStorageLog struct {
	Address     [20]byte
	Topics      [][32]byte
	Data        []byte
	BlockNumber uint64
	TxHash      [32]byte
	TxIndex     uint
	BlockHash   [32]byte
	Index       uint
}

type shStorageReceipt struct {
	PostStateOrStatus []byte
	CumulativeGasUsed uint64
	Bloom             [256]byte
	TxHash            [32]byte
	ContractAddress   [20]byte
	Logs              []*shStorageLog
	GasUsed           uint64
}

type shAccount struct {
	Nonce    uint64
	Balance  *big.Int
	Root     [32]byte
	CodeHash []byte
}

var (
	headerT  = reflect.TypeOf(types.Header{})
	txT      = reflect.TypeOf(types.Transaction{})
	blockT   = reflect.TypeOf(types.Block{})
	bodyT    = reflect.TypeOf(types.Body{})
	receiptT = reflect.TypeOf(types.Receipt{})
	rfsT     = reflect.TypeOf(types.ReceiptForStorage{})
	logT     = reflect.TypeOf(types.Log{})
	lfsT     = reflect.TypeOf(types.LogForStorage{})
	accountT = reflect.TypeOf(state.Account{})
)

var consensusTargets = []target{
	{"header", headerT},
	{"tx", txT},
	{"block", blockT},
	{"body", bodyT},
	{"receipt", receiptT},
	{"receipt_storage", rfsT},
	{"log", logT},
	{"log_storage", lfsT},
	{"account", accountT},
	{"txs", reflect.TypeOf(types.Transactions{})},
	{"receipts", reflect.TypeOf(types.Receipts{})},
}

func statusRule(it *refrlp.Item) error {
	if !it.IsList || len(it.List) == 0 || it.List[0].IsList {
		return refrlp.ErrExtra
	}
	s := it.List[0].Str
	if len(s) == 0 || len(s) == 32 || (len(s) == 1 && s[0] == 1) {
		return nil
	}
	return refrlp.ErrExtra
}

func init() {
	w := refOpts.Wire
	w[headerT] = reflect.TypeOf(shHeader{})
	w[txT] = reflect.TypeOf(shTx{})
	w[blockT] = reflect.TypeOf(shBlock{})
	w[bodyT] = reflect.TypeOf(shBody{})
	w[receiptT] = reflect.TypeOf(shReceipt{})
	w[rfsT] = reflect.TypeOf(shStorageReceipt{})
	w[logT] = reflect.TypeOf(shLog{})
	w[lfsT] = reflect.TypeOf(shStorageLog{})
	w[accountT] = reflect.TypeOf(shAccount{})
	refOpts.Extra[receiptT] = statusRule
	refOpts.Extra[rfsT] = statusRule
	// real value -> shadow (public accessors only), so that the reference can say
	// which item a decoded consensus value denotes
	addr := func(v reflect.Value) reflect.Value {
		if v.CanAddr() {
			return v.Addr()
		}
		p := reflect.New(v.Type())
		p.Elem().Set(v)
		return p
	}
	cv := refOpts.Conv
	cv[headerT] = func(v reflect.Value) (reflect.Value, error) {
		return reflect.ValueOf(shadowHeader(addr(v).Interface().(*types.Header))), nil
	}
	cv[txT] = func(v reflect.Value) (reflect.Value, error) {
		return reflect.ValueOf(shadowTx(addr(v).Interface().(*types.Transaction))), nil
	}
	cv[blockT] = func(v reflect.Value) (reflect.Value, error) {
		blk := addr(v).Interface().(*types.Block)
		bb := shadowBody(blk.Transactions(), blk.Uncles())
		return reflect.ValueOf(&shBlock{Header: shadowHeader(blk.Header()), Txs: bb.Txs, Uncles: bb.Uncles}), nil
	}
	cv[bodyT] = func(v reflect.Value) (reflect.Value, error) {
		b := addr(v).Interface().(*types.Body)
		return reflect.ValueOf(shadowBody(b.Transactions, b.Uncles)), nil
	}
	cv[receiptT] = func(v reflect.Value) (reflect.Value, error) {
		return reflect.ValueOf(shadowReceipt(addr(v).Interface().(*types.Receipt))), nil
	}
	cv[rfsT] = func(v reflect.Value) (reflect.Value, error) {
		return reflect.ValueOf(shadowStorageReceipt(addr(v).Interface().(*types.ReceiptForStorage))), nil
	}
	cv[logT] = func(v reflect.Value) (reflect.Value, error) {
		return reflect.ValueOf(shadowLog(addr(v).Interface().(*types.Log))), nil
	}
	cv[lfsT] = func(v reflect.Value) (reflect.Value, error) {
		return reflect.ValueOf(shadowStorageLog((*types.Log)(addr(v).Interface().(*types.LogForStorage)))), nil
	}
}

// ---------------------------------------------------------------------------
// shadow generators

func (g *gen) fixed(n int) []byte {
	b := g.r.Bytes(n)
	switch g.r.Intn(6) {
	case 0:
		for i := range b {
			b[i] = 0
		}
	case 1:
		b[0] = 0 // leading zero byte in a fixed-size field is legal
	}
	return b
}

func a32(b []byte) (a [32]byte) { copy(a[:], b); return }
func a20(b []byte) (a [20]byte) { copy(a[:], b); return }

func (g *gen) shHeader() *shHeader {
	h := &shHeader{
		ParentHash: a32(g.fixed(32)), UncleHash: a32(g.fixed(32)), Coinbase: a20(g.fixed(20)),
		Root: a32(g.fixed(32)), TxHash: a32(g.fixed(32)), ReceiptHash: a32(g.fixed(32)),
		Difficulty: g.big(), Number: g.big(), GasLimit: g.u64(), GasUsed: g.u64(), Time: g.big(),
		Extra: g.r.Bytes(g.r.Range(0, 40)), MixDigest: a32(g.fixed(32)),
	}
	if h.Extra == nil {
		h.Extra = []byte{}
	}
	if g.r.Chance(1, 2) {
		copy(h.Bloom[:], g.r.Bytes(256))
	}
	copy(h.Nonce[:], g.fixed(8))
	return h
}

func (g *gen) shTx() *shTx {
	t := &shTx{Nonce: g.u64(), Price: g.big(), GasLimit: g.u64(), Amount: g.big(), Payload: g.bytes(),
		V: g.big(), R: g.big(), S: g.big()}
	if g.r.Chance(2, 3) {
		a := a20(g.fixed(20))
		t.To = &a
	}
	return t
}

func (g *gen) shLog() *shLog {
	l := &shLog{Address: a20(g.fixed(20)), Topics: [][32]byte{}, Data: g.bytes()}
	for i, n := 0, g.r.Range(0, 4); i < n; i++ {
		l.Topics = append(l.Topics, a32(g.fixed(32)))
	}
	return l
}

func (g *gen) status() []byte {
	switch g.r.Intn(3) {
	case 0:
		return []byte{}
	case 1:
		return []byte{1}
	}
	return g.fixed(32)
}

func (g *gen) shReceipt() *shReceipt {
	r := &shReceipt{PostStateOrStatus: g.status(), CumulativeGasUsed: g.u64(), Logs: []*shLog{}}
	if g.r.Chance(1, 2) {
		copy(r.Bloom[:], g.r.Bytes(256))
	}
	for i, n := 0, g.r.Range(0, 3); i < n; i++ {
		r.Logs = append(r.Logs, g.shLog())
	}
	return r
}

func (g *gen) shStorageLog() *shStorageLog {
	l := g.shLog()
	return &shStorageLog{Address: l.Address, Topics: l.Topics, Data: l.Data, BlockNumber: g.u64(), TxHash: a32(g.fixed(32)),
		TxIndex: uint(g.u64()), BlockHash: a32(g.fixed(32)), Index: uint(g.u64())}
}

func (g *gen) shStorageReceipt() *shStorageReceipt {
	r := &shStorageReceipt{PostStateOrStatus: g.status(), CumulativeGasUsed: g.u64(), TxHash: a32(g.fixed(32)),
		ContractAddress: a20(g.fixed(20)), Logs: []*shStorageLog{}, GasUsed: g.u64()}
	if g.r.Chance(1, 2) {
		copy(r.Bloom[:], g.r.Bytes(256))
	}
	for i, n := 0, g.r.Range(0, 3); i < n; i++ {
		r.Logs = append(r.Logs, g.shStorageLog())
	}
	return r
}

func (g *gen) shBody() *shBody {
	b := &shBody{Txs: []*shTx{}, Uncles: []*shHeader{}}
	for i, n := 0, g.r.Range(0, 4); i < n; i++ {
		b.Txs = append(b.Txs, g.shTx())
	}
	for i, n := 0, g.r.Range(0, 2); i < n; i++ {
		b.Uncles = append(b.Uncles, g.shHeader())
	}
	return b
}

func (g *gen) shAccount() *shAccount {
	a := &shAccount{Nonce: g.u64(), Balance: g.big(), Root: a32(g.fixed(32)), CodeHash: g.fixed(32)}
	if g.r.Chance(1, 5) {
		a.CodeHash = []byte{}
	}
	return a
}

// ---------------------------------------------------------------------------
// shadow -> real (public constructors only) and real -> shadow (accessors only)

// valueSigner hands the given V, R, S to Transaction.WithSignature.
type valueSigner struct{ v, r, s *big.Int }

func (x valueSigner) Sender(*types.Transaction) (common.Address, error) { return common.Address{}, nil }
func (x valueSigner) SignatureValues(*types.Transaction, []byte) (r, s, v *big.Int, err error) {
	return new(big.Int).Set(x.r), new(big.Int).Set(x.s), new(big.Int).Set(x.v), nil
}
func (x valueSigner) Hash(*types.Transaction) common.Hash { return common.Hash{} }
func (x valueSigner) Equal(types.Signer) bool             { return false }

func realHeader(s *shHeader) *types.Header {
	return &types.Header{ParentHash: s.ParentHash, UncleHash: s.UncleHash, Coinbase: s.Coinbase, Root: s.Root,
		TxHash: s.TxHash, ReceiptHash: s.ReceiptHash, Bloom: s.Bloom, Difficulty: new(big.Int).Set(s.Difficulty),
		Number: new(big.Int).Set(s.Number), GasLimit: s.GasLimit, GasUsed: s.GasUsed, Time: new(big.Int).Set(s.Time),
		Extra: append([]byte{}, s.Extra...), MixDigest: s.MixDigest, Nonce: s.Nonce}
}

func shadowHeader(h *types.Header) *shHeader {
	if h == nil {
		return nil
	}
	return &shHeader{ParentHash: h.ParentHash, UncleHash: h.UncleHash, Coinbase: h.Coinbase, Root: h.Root,
		TxHash: h.TxHash, ReceiptHash: h.ReceiptHash, Bloom: h.Bloom, Difficulty: h.Difficulty, Number: h.Number,
		GasLimit: h.GasLimit, GasUsed: h.GasUsed, Time: h.Time, Extra: h.Extra, MixDigest: h.MixDigest, Nonce: h.Nonce}
}

func realTx(s *shTx) *types.Transaction {
	var tx *types.Transaction
	if s.To != nil {
		tx = types.NewTransaction(s.Nonce, common.Address(*s.To), s.Amount, s.GasLimit, s.Price, s.Payload)
	} else {
		tx = types.NewContractCreation(s.Nonce, s.Amount, s.GasLimit, s.Price, s.Payload)
	}
	out, err := tx.WithSignature(valueSigner{s.V, s.R, s.S}, nil)
	if err != nil {
		panic(err)
	}
	return out
}

func shadowTx(tx *types.Transaction) *shTx {
	if tx == nil {
		return nil
	}
	v, r, s := tx.RawSignatureValues()
	out := &shTx{Nonce: tx.Nonce(), Price: tx.GasPrice(), GasLimit: tx.Gas(), Amount: tx.Value(), Payload: tx.Data(), V: v, R: r, S: s}
	if to := tx.To(); to != nil {
		a := [20]byte(*to)
		out.To = &a
	}
	return out
}

func realLog(s *shLog) *types.Log {
	l := &types.Log{Address: s.Address, Topics: []common.Hash{}, Data: append([]byte{}, s.Data...)}
	for _, t := range s.Topics {
		l.Topics = append(l.Topics, t)
	}
	return l
}

func shadowLog(l *types.Log) *shLog {
	if l == nil {
		return nil
	}
	s := &shLog{Address: l.Address, Topics: [][32]byte{}, Data: l.Data}
	for _, t := range l.Topics {
		s.Topics = append(s.Topics, t)
	}
	return s
}

func setStatus(r *types.Receipt, st []byte) {
	switch len(st) {
	case 0:
		r.Status = types.ReceiptStatusFailed
	case 1:
		r.Status = types.ReceiptStatusSuccessful
	default:
		r.PostState = append([]byte{}, st...)
	}
}

func getStatus(r *types.Receipt) []byte {
	if len(r.PostState) > 0 {
		return r.PostState
	}
	if r.Status == types.ReceiptStatusSuccessful {
		return []byte{1}
	}
	return []byte{}
}

func realReceipt(s *shReceipt) *types.Receipt {
	r := &types.Receipt{CumulativeGasUsed: s.CumulativeGasUsed, Bloom: s.Bloom, Logs: []*types.Log{}}
	setStatus(r, s.PostStateOrStatus)
	for _, l := range s.Logs {
		r.Logs = append(r.Logs, realLog(l))
	}
	return r
}

func shadowReceipt(r *types.Receipt) *shReceipt {
	s := &shReceipt{PostStateOrStatus: getStatus(r), CumulativeGasUsed: r.CumulativeGasUsed, Bloom: r.Bloom, Logs: []*shLog{}}
	for _, l := range r.Logs {
		s.Logs = append(s.Logs, shadowLog(l))
	}
	return s
}

func realStorageLog(s *shStorageLog) *types.Log {
	l := realLog(&shLog{Address: s.Address, Topics: s.Topics, Data: s.Data})
	l.BlockNumber, l.TxHash, l.TxIndex, l.BlockHash, l.Index = s.BlockNumber, s.TxHash, s.TxIndex, s.BlockHash, s.Index
	return l
}

func shadowStorageLog(l *types.Log) *shStorageLog {
	b := shadowLog(l)
	return &shStorageLog{Address: b.Address, Topics: b.Topics, Data: b.Data, BlockNumber: l.BlockNumber, TxHash: l.TxHash,
		TxIndex: l.TxIndex, BlockHash: l.BlockHash, Index: l.Index}
}

func realStorageReceipt(s *shStorageReceipt) *types.ReceiptForStorage {
	r := &types.Receipt{CumulativeGasUsed: s.CumulativeGasUsed, Bloom: s.Bloom, Logs: []*types.Log{}, TxHash: s.TxHash,
		ContractAddress: s.ContractAddress, GasUsed: s.GasUsed}
	setStatus(r, s.PostStateOrStatus)
	for _, l := range s.Logs {
		r.Logs = append(r.Logs, realStorageLog(l))
	}
	return (*types.ReceiptForStorage)(r)
}

func shadowStorageReceipt(x *types.ReceiptForStorage) *shStorageReceipt {
	r := (*types.Receipt)(x)
	s := &shStorageReceipt{PostStateOrStatus: getStatus(r), CumulativeGasUsed: r.CumulativeGasUsed, Bloom: r.Bloom, TxHash: r.TxHash,
		ContractAddress: r.ContractAddress, Logs: []*shStorageLog{}, GasUsed: r.GasUsed}
	for _, l := range r.Logs {
		s.Logs = append(s.Logs, shadowStorageLog(l))
	}
	return s
}

func realBody(s *shBody) ([]*types.Transaction, []*types.Header) {
	txs, uncles := []*types.Transaction{}, []*types.Header{}
	for _, t := range s.Txs {
		txs = append(txs, realTx(t))
	}
	for _, u := range s.Uncles {
		uncles = append(uncles, realHeader(u))
	}
	return txs, uncles
}

func shadowBody(txs []*types.Transaction, uncles []*types.Header) *shBody {
	b := &shBody{Txs: []*shTx{}, Uncles: []*shHeader{}}
	for _, t := range txs {
		b.Txs = append(b.Txs, shadowTx(t))
	}
	for _, u := range uncles {
		b.Uncles = append(b.Uncles, shadowHeader(u))
	}
	return b
}

// consensusCase is one generated consensus value: its shadow, the real value
// built from it, a fresh decoding target and the extractor for decoded values.
type consensusCase struct {
	kind   string
	shadow interface{}
	real   interface{}                   // pointer passed to EncodeToBytes
	fresh  func() interface{}            // new decoding target
	back   func(interface{}) interface{} // decoded real -> shadow
}

var consensusKinds = []string{"header", "tx", "block", "body", "receipt", "receipt_storage", "log", "log_storage", "account", "txs", "receipts"}

func (g *gen) consensus(kind string) consensusCase {
	switch kind {
	case "header":
		s := g.shHeader()
		return consensusCase{kind, s, realHeader(s), func() interface{} { return new(types.Header) },
			func(v interface{}) interface{} { return shadowHeader(v.(*types.Header)) }}
	case "tx":
		s := g.shTx()
		return consensusCase{kind, s, realTx(s), func() interface{} { return new(types.Transaction) },
			func(v interface{}) interface{} { return shadowTx(v.(*types.Transaction)) }}
	case "block":
		b := g.shBody()
		s := &shBlock{Header: g.shHeader(), Txs: b.Txs, Uncles: b.Uncles}
		txs, uncles := realBody(b)
		real := types.NewBlockWithHeader(realHeader(s.Header)).WithBody(txs, uncles)
		return consensusCase{kind, s, real, func() interface{} { return new(types.Block) },
			func(v interface{}) interface{} {
				blk := v.(*types.Block)
				bb := shadowBody(blk.Transactions(), blk.Uncles())
				return &shBlock{Header: shadowHeader(blk.Header()), Txs: bb.Txs, Uncles: bb.Uncles}
			}}
	case "body":
		s := g.shBody()
		txs, uncles := realBody(s)
		return consensusCase{kind, s, &types.Body{Transactions: txs, Uncles: uncles}, func() interface{} { return new(types.Body) },
			func(v interface{}) interface{} { b := v.(*types.Body); return shadowBody(b.Transactions, b.Uncles) }}
	case "receipt":
		s := g.shReceipt()
		return consensusCase{kind, s, realReceipt(s), func() interface{} { return new(types.Receipt) },
			func(v interface{}) interface{} { return shadowReceipt(v.(*types.Receipt)) }}
	case "receipt_storage":
		s := g.shStorageReceipt()
		return consensusCase{kind, s, realStorageReceipt(s), func() interface{} { return new(types.ReceiptForStorage) },
			func(v interface{}) interface{} { return shadowStorageReceipt(v.(*types.ReceiptForStorage)) }}
	case "log":
		s := g.shLog()
		return consensusCase{kind, s, realLog(s), func() interface{} { return new(types.Log) },
			func(v interface{}) interface{} { return shadowLog(v.(*types.Log)) }}
	case "log_storage":
		s := g.shStorageLog()
		return consensusCase{kind, s, (*types.LogForStorage)(realStorageLog(s)), func() interface{} { return new(types.LogForStorage) },
			func(v interface{}) interface{} { return shadowStorageLog((*types.Log)(v.(*types.LogForStorage))) }}
	case "account":
		s := g.shAccount()
		return consensusCase{kind, s, &state.Account{Nonce: s.Nonce, Balance: new(big.Int).Set(s.Balance), Root: s.Root, CodeHash: append([]byte{}, s.CodeHash...)},
			func() interface{} { return new(state.Account) },
			func(v interface{}) interface{} {
				a := v.(*state.Account)
				return &shAccount{Nonce: a.Nonce, Balance: a.Balance, Root: a.Root, CodeHash: a.CodeHash}
			}}
	case "txs":
		s := []*shTx{}
		real := types.Transactions{}
		for i, n := 0, g.r.Range(0, 5); i < n; i++ {
			t := g.shTx()
			s = append(s, t)
			real = append(real, realTx(t))
		}
		return consensusCase{kind, s, real, func() interface{} { return new(types.Transactions) },
			func(v interface{}) interface{} {
				out := []*shTx{}
				for _, t := range *v.(*types.Transactions) {
					out = append(out, shadowTx(t))
				}
				return out
			}}
	case "receipts":
		s := []*shReceipt{}
		real := types.Receipts{}
		for i, n := 0, g.r.Range(0, 4); i < n; i++ {
			t := g.shReceipt()
			s = append(s, t)
			real = append(real, realReceipt(t))
		}
		return consensusCase{kind, s, real, func() interface{} { return new(types.Receipts) },
			func(v interface{}) interface{} {
				out := []*shReceipt{}
				for _, t := range *v.(*types.Receipts) {
					out = append(out, shadowReceipt(t))
				}
				return out
			}}
	}
	panic(fmt.Sprintf("c11: unknown consensus kind %q", kind))
}

func targetByName(name string) target {
	for _, l := range [][]target{smallTargets, richTargets, consensusTargets} {
		for _, t := range l {
			if t.name == name {
				return t
			}
		}
	}
	panic("c11: unknown target " + name)
}
