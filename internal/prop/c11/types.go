package c11

import (
	"fmt"
	"io"
	"math/big"
	"reflect"
	"strings"

	"gitlab.com/aquachain/aquachain/rlp"
	"verif/internal/fw"
	"verif/internal/ref/refrlp"
)

// ---------------------------------------------------------------------------
// Go types that stand for "every supported kind".

type myByte byte

type simple struct {
	A uint
	B []byte
}

type uints struct {
	A uint8
	B uint16
	C uint32
	D uint64
	E uint
	F uintptr
}

type rec struct {
	V     uint8
	Child *rec `rlp:"nil"`
}

type tagged struct {
	A    uint64
	Skip uint32   `rlp:"-"`
	hid  uint32   // unexported: not part of the encoding
	P    *[3]byte `rlp:"nil"`
	Q    *uint    `rlp:"nil"`
	L    *[]uint  `rlp:"nil"`
	S    *simple  `rlp:"nil"`
	G    *big.Int `rlp:"nil"`
	Rest []uint   `rlp:"tail"`
}

type rawPair struct {
	A uint
	R rlp.RawValue
}

type rawTail struct {
	A    uint
	Rest []rlp.RawValue `rlp:"tail"`
}

type arr1Pair struct {
	A [1]byte
	B uint
}

type nilPtrs struct {
	A *uint    `rlp:"nil"`
	B *[]uint  `rlp:"nil"`
	C *[2]byte `rlp:"nil"`
	D *simple  `rlp:"nil"`
}

// custom has a hand-written codec: it travels as the list [B, A] (fields
// swapped relative to the struct), with pointer receivers.
type custom struct {
	A uint32
	B []byte
}

type customWire struct {
	B []byte
	A uint32
}

func (c *custom) EncodeRLP(w io.Writer) error {
	if c == nil {
		return rlp.Encode(w, customWire{B: []byte{}})
	}
	return rlp.Encode(w, customWire{B: c.B, A: c.A})
}

func (c *custom) DecodeRLP(s *rlp.Stream) error {
	var w customWire
	if err := s.Decode(&w); err != nil {
		return err
	}
	c.A, c.B = w.A, w.B
	return nil
}

type everything struct {
	U   uints
	X   [2]simple
	Y   []simple
	Z   [][]byte
	W   []string
	B   bool
	I   *big.Int
	J   big.Int
	R   rlp.RawValue
	Any interface{}
	PP  **uint16
	PS  *simple
	C   custom
	CP  *custom
	T   tagged
}

var (
	rawT    = reflect.TypeOf(rlp.RawValue{})
	customT = reflect.TypeOf(custom{})
	bigPtrT = reflect.TypeOf((*big.Int)(nil))
	bigT    = reflect.TypeOf(big.Int{})
	ifaceT  = reflect.TypeOf((*interface{})(nil)).Elem()
)

// target: a decoding target of the bytes legs.
type target struct {
	name string
	typ  reflect.Type
}

func tOf(v interface{}) reflect.Type { return reflect.TypeOf(v).Elem() }

var smallTargets = []target{
	{"iface", ifaceT},
	{"bytes", tOf(new([]byte))},
	{"string", tOf(new(string))},
	{"u8", tOf(new(uint8))},
	{"u16", tOf(new(uint16))},
	{"u32", tOf(new(uint32))},
	{"u64", tOf(new(uint64))},
	{"uint", tOf(new(uint))},
	{"big", bigPtrT},
	{"bigval", bigT},
	{"bool", tOf(new(bool))},
	{"arr0", tOf(new([0]byte))},
	{"arr1", tOf(new([1]byte))},
	{"arr3", tOf(new([3]byte))},
	{"simple", tOf(new(simple))},
	{"uints", tOf(new([]uint))},
	{"arru2", tOf(new([2]uint))},
	{"raw", rawT},
	{"struct_raw", tOf(new(rawPair))},
	{"tail_raw", tOf(new(rawTail))},
	{"nilptrs", tOf(new(nilPtrs))},
	{"ifslice", tOf(new([]interface{}))},
	{"byteslices", tOf(new([][]byte))},
	{"arr1pair", tOf(new(arr1Pair))},
	{"custom", customT},
	{"rec", tOf(new(rec))},
	{"nested", tOf(new([][]uint16))},
	{"ptrptr", tOf(new(**uint16))},
	{"bools", tOf(new([]bool))},
}

var richTargets = []target{
	{"everything", tOf(new(everything))},
	{"tagged", tOf(new(tagged))},
	{"uintstruct", tOf(new(uints))},
}

// ---------------------------------------------------------------------------
// Value generator (reflection driven, normal form unless loose is set).

type gen struct {
	r     *fw.Rand
	loose bool // allow nil slices / nil pointers / nil big.Int / typed values in interfaces
	depth int
}

var boundaryLens = []int{0, 1, 1, 2, 3, 20, 32, 54, 55, 56, 57, 255, 256, 257}

func (g *gen) blen() int {
	if g.r.Chance(1, 200) {
		return []int{65535, 65536, 65537, 70000}[g.r.Intn(4)]
	}
	if g.r.Chance(1, 3) {
		return boundaryLens[g.r.Intn(len(boundaryLens))]
	}
	return g.r.Range(0, 12)
}

func (g *gen) bytes() []byte {
	n := g.blen()
	b := g.r.Bytes(n)
	if n >= 1 && g.r.Chance(1, 2) {
		b[0] = []byte{0x00, 0x01, 0x7f, 0x80, 0x81, 0xff}[g.r.Intn(6)]
	}
	return b
}

func (g *gen) u64() uint64 {
	switch g.r.Intn(4) {
	case 0:
		return []uint64{0, 1, 0x7f, 0x80, 0xff, 0x100, 0xffff, 0x10000, 0xffffff, 0x1000000, 0xffffffff, 0x100000000,
			1<<40 - 1, 1 << 40, 1<<48 - 1, 1 << 48, 1<<56 - 1, 1 << 56, 1<<63 - 1, 1 << 63, 1<<64 - 1}[g.r.Intn(21)]
	case 1:
		return g.r.Uint64() >> uint(g.r.Intn(64))
	case 2:
		return uint64(g.r.Intn(300))
	}
	return g.r.Uint64()
}

func (g *gen) big() *big.Int {
	switch g.r.Intn(5) {
	case 0:
		return new(big.Int).SetUint64(g.u64())
	case 1:
		return new(big.Int)
	case 2:
		// powers of 256 and neighbours
		n := new(big.Int).Lsh(big.NewInt(1), uint(8*g.r.Range(1, 40)))
		return n.Add(n, big.NewInt(int64(g.r.Intn(3)-1)))
	}
	return new(big.Int).SetBytes(g.r.Bytes(g.r.Range(0, 40)))
}

// item generates a random canonical item tree.
func (g *gen) item(depth int) *refrlp.Item {
	if depth <= 0 || g.r.Chance(3, 5) {
		return refrlp.S(g.bytes())
	}
	n := g.r.Range(0, 4)
	kids := make([]*refrlp.Item, n)
	for i := range kids {
		kids[i] = g.item(depth - 1)
	}
	return refrlp.L(kids...)
}

func (g *gen) ifaceValue(depth int) interface{} {
	if g.loose && g.r.Chance(1, 3) {
		switch g.r.Intn(7) {
		case 0:
			return g.u64()
		case 1:
			return string(g.bytes())
		case 2:
			return g.big()
		case 3:
			return simple{A: uint(g.u64()), B: g.bytes()}
		case 4:
			return uint8(g.u64())
		case 5:
			return g.r.Bool()
		default:
			return [2]byte{byte(g.r.Intn(256)), 1}
		}
	}
	if depth <= 0 || g.r.Chance(3, 5) {
		return g.bytes()
	}
	n := g.r.Range(0, 4)
	l := make([]interface{}, n)
	for i := range l {
		l[i] = g.ifaceValue(depth - 1)
	}
	return l
}

func isEmptyItem(it *refrlp.Item) bool {
	if it.IsList {
		return len(it.List) == 0
	}
	return len(it.Str) == 0
}

type ftags struct{ nilOK, tail, ignored bool }

func parseTags(f reflect.StructField) ftags {
	var t ftags
	for _, s := range strings.Split(f.Tag.Get("rlp"), ",") {
		switch strings.TrimSpace(s) {
		case "-":
			t.ignored = true
		case "nil":
			t.nilOK = true
		case "tail":
			t.tail = true
		}
	}
	return t
}

// fill sets v (addressable) to a generated value of its type.
func (g *gen) fill(v reflect.Value, tg ftags) {
	t := v.Type()
	switch {
	case t == rawT:
		v.SetBytes(refrlp.Encode(g.item(2)))
		return
	case t == bigPtrT:
		if g.loose && g.r.Chance(1, 6) {
			v.Set(reflect.Zero(t))
			return
		}
		v.Set(reflect.ValueOf(g.big()))
		return
	case t == bigT:
		v.Set(reflect.ValueOf(*g.big()))
		return
	case t == customT:
		v.Set(reflect.ValueOf(custom{A: uint32(g.u64()), B: g.bytes()}))
		return
	}
	k := t.Kind()
	switch {
	case k >= reflect.Uint && k <= reflect.Uintptr:
		x := g.u64()
		if bits := uint(t.Bits()); bits < 64 {
			x &= 1<<bits - 1
		}
		v.SetUint(x)
	case k == reflect.Bool:
		v.SetBool(g.r.Bool())
	case k == reflect.String:
		v.SetString(string(g.bytes()))
	case k == reflect.Slice && t.Elem().Kind() == reflect.Uint8:
		if g.loose && g.r.Chance(1, 6) {
			v.Set(reflect.Zero(t))
			return
		}
		b := g.bytes()
		s := reflect.MakeSlice(t, len(b), len(b))
		for i := range b {
			s.Index(i).SetUint(uint64(b[i]))
		}
		v.Set(s)
	case k == reflect.Array && t.Elem().Kind() == reflect.Uint8:
		b := g.r.Bytes(t.Len())
		if t.Len() > 0 && g.r.Chance(1, 2) {
			b[0] = []byte{0x00, 0x01, 0x7f, 0x80, 0x81, 0xff}[g.r.Intn(6)]
		}
		if g.r.Chance(1, 8) {
			for i := range b {
				b[i] = 0
			}
		}
		for i := range b {
			v.Index(i).SetUint(uint64(b[i]))
		}
	case k == reflect.Slice:
		if g.loose && g.r.Chance(1, 6) {
			v.Set(reflect.Zero(t))
			return
		}
		n := g.r.Range(0, 4)
		if g.depth > 3 {
			n = g.r.Range(0, 1)
		}
		s := reflect.MakeSlice(t, n, n)
		g.depth++
		for i := 0; i < n; i++ {
			g.fill(s.Index(i), ftags{})
		}
		g.depth--
		v.Set(s)
	case k == reflect.Array:
		g.depth++
		for i := 0; i < t.Len(); i++ {
			g.fill(v.Index(i), ftags{})
		}
		g.depth--
	case k == reflect.Struct:
		for i := 0; i < t.NumField(); i++ {
			f := t.Field(i)
			if f.PkgPath != "" {
				continue
			}
			ft := parseTags(f)
			if ft.ignored {
				continue // stays zero: the decoded value has zero there too
			}
			g.fill(v.Field(i), ft)
		}
	case k == reflect.Ptr:
		if tg.nilOK {
			// normal form: nil exactly when the element would encode as empty
			if g.r.Chance(1, 3) || g.depth > 6 {
				v.Set(reflect.Zero(t))
				return
			}
			for try := 0; try < 6; try++ {
				p := reflect.New(t.Elem())
				g.depth++
				g.fill(p.Elem(), ftags{})
				g.depth--
				it, err := refrlp.ToItem(p.Interface(), refOpts)
				if err == nil && !isEmptyItem(it) {
					v.Set(p)
					return
				}
				if g.loose {
					v.Set(p)
					return
				}
			}
			v.Set(reflect.Zero(t))
			return
		}
		if g.loose && g.r.Chance(1, 6) && t.Elem() != rawT && t.Elem() != customT && t.Elem().Kind() != reflect.Ptr {
			v.Set(reflect.Zero(t))
			return
		}
		p := reflect.New(t.Elem())
		g.fill(p.Elem(), ftags{})
		v.Set(p)
	case k == reflect.Interface:
		if g.loose && g.r.Chance(1, 8) {
			v.Set(reflect.Zero(t))
			return
		}
		v.Set(reflect.ValueOf(g.ifaceValue(2)))
	default:
		panic(fmt.Sprintf("c11: no generator for %v", t))
	}
}

// ---------------------------------------------------------------------------
// Equality of Go values as data (nil slice == empty slice, big.Int by value).

func equalValues(a, b reflect.Value) bool {
	if a.IsValid() != b.IsValid() {
		return false
	}
	if !a.IsValid() {
		return true
	}
	if a.Type() != b.Type() {
		return false
	}
	t := a.Type()
	switch {
	case t == bigPtrT:
		if a.IsNil() || b.IsNil() {
			return a.IsNil() == b.IsNil()
		}
		return a.Interface().(*big.Int).Cmp(b.Interface().(*big.Int)) == 0
	case t == bigT:
		x, y := a.Interface().(big.Int), b.Interface().(big.Int)
		return x.Cmp(&y) == 0
	}
	switch t.Kind() {
	case reflect.Bool:
		return a.Bool() == b.Bool()
	case reflect.Uint, reflect.Uint8, reflect.Uint16, reflect.Uint32, reflect.Uint64, reflect.Uintptr:
		return a.Uint() == b.Uint()
	case reflect.String:
		return a.String() == b.String()
	case reflect.Slice, reflect.Array:
		if a.Len() != b.Len() {
			return false
		}
		for i := 0; i < a.Len(); i++ {
			if !equalValues(a.Index(i), b.Index(i)) {
				return false
			}
		}
		return true
	case reflect.Struct:
		for i := 0; i < t.NumField(); i++ {
			f := t.Field(i)
			if f.PkgPath != "" || parseTags(f).ignored {
				continue
			}
			if !equalValues(a.Field(i), b.Field(i)) {
				return false
			}
		}
		return true
	case reflect.Ptr, reflect.Interface:
		if a.IsNil() || b.IsNil() {
			return a.IsNil() == b.IsNil()
		}
		return equalValues(a.Elem(), b.Elem())
	}
	return false
}

// ---------------------------------------------------------------------------
// Reference options shared by all legs (filled in consensus.go's init as well).

var refOpts = &refrlp.Opts{
	Raw:   map[reflect.Type]bool{rawT: true},
	Wire:  map[reflect.Type]reflect.Type{customT: reflect.TypeOf(customWire{})},
	Extra: map[reflect.Type]func(*refrlp.Item) error{},
	Conv: map[reflect.Type]func(reflect.Value) (reflect.Value, error){
		customT: func(v reflect.Value) (reflect.Value, error) {
			c := v.Interface().(custom)
			b := c.B
			if b == nil {
				b = []byte{}
			}
			return reflect.ValueOf(customWire{B: b, A: c.A}), nil
		},
	},
}

// diagnosis variants of refOpts (see refrlp.Opts); they share the maps.
var optsLenientRaw, optsLenientNil *refrlp.Opts

func lenientOpts() {
	a, b := *refOpts, *refOpts
	a.LenientRawByte = true
	b.LenientNilKind = true
	optsLenientRaw, optsLenientNil = &a, &b
}
