package c11

import (
	"bytes"
	"encoding/binary"
	"fmt"
	"reflect"
	"runtime"
	"runtime/debug"
	"strings"

	"gitlab.com/aquachain/aquachain/rlp"
	"verif/internal/fw"
	"verif/internal/ref/refrlp"
)

// Allocation bound for one decode of a known-length input of n bytes.
const (
	allocC0Generic   = 4096
	allocC0Consensus = 8192
	allocC1          = 512
)

func allocBound(tg target, n int) uint64 {
	c0 := uint64(allocC0Generic)
	for _, t := range consensusTargets {
		if t.name == tg.name {
			c0 = allocC0Consensus
		}
	}
	if tg.name == "everything" || tg.name == "tagged" {
		c0 = allocC0Consensus
	}
	return c0 + allocC1*uint64(n)
}

var ms0, ms1 runtime.MemStats

// allocOf returns the bytes allocated while f runs (single goroutine, GC off).
func allocOf(f func()) uint64 {
	runtime.ReadMemStats(&ms0)
	f()
	runtime.ReadMemStats(&ms1)
	return ms1.TotalAlloc - ms0.TotalAlloc
}

type allocStats struct {
	maxRatioNum uint64 // largest observed (alloc - c0 share) per input byte, in bytes*1000
	maxAlloc    uint64
	maxAllocLen int
	maxAllocTg  string
	maxSmall    uint64 // largest allocation of a decode of an input shorter than 64 bytes
	maxSmallTg  string
}

type allocJudge struct {
	c     *fw.Ctx
	base  uint64 // allocation of an empty measured function
	stats allocStats
	since int
}

const (
	allocDecodeBytes = "DecodeBytes"
	allocStream      = "Stream.Decode"
	allocStreamLimit = "Stream.Decode/limit"
)

func (a *allocJudge) boundFor(tg target, api string, n int) uint64 {
	bound := allocBound(tg, n)
	if api == allocStreamLimit {
		bound += 4096 + 512 // the Stream's own bufio.Reader
	}
	return bound
}

// measure decodes b into tg through api under the allocation meter.
func (a *allocJudge) measure(api string, b []byte, tg target, class string) {
	c := a.c
	if refrlp.DeclaredSize(b) >= 1<<20 || announcesHuge(b, 1<<20) {
		// leave a trace before touching an input that announces a huge value:
		// if the process dies the log names it
		c.Note("alloc %s target=%s input=%s", api, tg.name, hxShort(b))
	}
	var err error
	var p interface{}
	var ptr reflect.Value
	var iface interface{}
	once := func() uint64 {
		ptr = reflect.New(tg.typ)
		iface = ptr.Interface()
		var rd *bytes.Reader
		if api != allocDecodeBytes {
			rd = bytes.NewReader(b)
		}
		got := allocOf(func() {
			p = guarded(func() {
				switch api {
				case allocDecodeBytes:
					err = rlp.DecodeBytes(b, iface)
				case allocStream:
					err = rlp.NewStream(rd, 0).Decode(iface)
				case allocStreamLimit:
					err = rlp.NewStream(plainSrc{rd}, uint64(len(b))).Decode(iface)
				}
			})
		})
		if got >= a.base {
			got -= a.base
		}
		return got
	}
	got := once()
	// The meter is the process-wide TotalAlloc: a runtime or harness goroutine
	// that allocates during the window (timers, the child's log writer, a pool
	// refilled after a GC) is charged to the decode. What the decoder allocates
	// for one input is deterministic, so an excess of noise size is re-measured
	// and the smallest reading is judged; a real over-allocation shows in every
	// reading. Excesses beyond 64 KiB are judged at once (never repeat a huge
	// allocation with the GC off).
	if bd := a.boundFor(tg, api, len(b)); got > bd && got-bd < 64<<10 && p == nil {
		c.Count("alloc_remeasured")
		for i := 0; i < 4 && got > bd; i++ {
			if g := once(); g < got {
				got = g
			}
		}
		if got <= bd {
			c.Count("alloc_first_reading_was_noise")
		}
	}
	c.Count("alloc_measured")
	if class != "" {
		c.Count(class)
	}
	if p != nil {
		c.ViolateInput("panic", api, tg.name+":"+panicClass(p), fmt.Sprintf("decoding %s into %v panicked: %v", hxShort(b), tg.typ, p), witness{Input: hxShort(b), Target: tg.name, API: api})
	}
	bound := a.boundFor(tg, api, len(b))
	if got > a.stats.maxAlloc {
		a.stats.maxAlloc, a.stats.maxAllocLen, a.stats.maxAllocTg = got, len(b), tg.name
	}
	if len(b) < 64 && got > a.stats.maxSmall {
		a.stats.maxSmall, a.stats.maxSmallTg = got, tg.name+"/"+api
	}
	if len(b) >= 64 && got > allocC0Generic/4 {
		if r := (got - allocC0Generic/4) * 1000 / uint64(len(b)); r > a.stats.maxRatioNum {
			a.stats.maxRatioNum = r
		}
	}
	if got > bound {
		cause := "proportional_to_announced_size"
		if d := refrlp.DeclaredSize(b); !announcesHuge(b, uint64(len(b))+1) && d <= uint64(len(b)) {
			cause = "superlinear_in_input_length"
		}
		c.ViolateInput("allocation_exceeds_input_bound", api, tg.name+":"+cause,
			fmt.Sprintf("one %s of the %d-byte input %s into %v allocated %d bytes (bound %d = c0 + %d*len); err=%v", api, len(b), hxShort(b), tg.typ, got, bound, allocC1, err),
			witness{Input: hxShort(b), Target: tg.name, API: api})
		// give the memory back before going on (GC is off)
		iface, ptr = nil, reflect.Value{}
		runtime.GC()
		debug.FreeOSMemory()
		a.since = 0
	}
	a.since++
	if a.since >= 2000 {
		runtime.GC()
		a.since = 0
	}
}

func be(n uint64, width int) []byte {
	var b [8]byte
	binary.BigEndian.PutUint64(b[:], n)
	return b[8-width:]
}

func minWidth(n uint64) int {
	w := 1
	for n >>= 8; n > 0; n >>= 8 {
		w++
	}
	return w
}

// announce returns a header of the given base (0x80 string / 0xc0 list) that
// announces size n in canonical form.
func announce(base byte, n uint64) []byte {
	if n < 56 {
		return []byte{base + byte(n)}
	}
	w := minWidth(n)
	return append([]byte{base + 55 + byte(w)}, be(n, w)...)
}

func nest(depth int, inner []byte) []byte {
	// depth list headers around inner, built inside out
	cur := append([]byte{}, inner...)
	for d := 0; d < depth; d++ {
		h := announce(0xc0, uint64(len(cur)))
		nb := make([]byte, 0, len(h)+len(cur))
		nb = append(nb, h...)
		cur = append(nb, cur...)
	}
	return cur
}

// nestFast builds a deep nesting without quadratic copying: the headers are
// computed from the inside out and written into one buffer back to front.
func nestFast(depth int, inner []byte, perLevel []byte) []byte {
	// each level: header + perLevel bytes (items preceding the nested list) + child
	sizes := make([]int, depth+1)
	sizes[0] = len(inner)
	total := len(inner)
	hdrs := make([][]byte, depth)
	for d := 0; d < depth; d++ {
		payload := len(perLevel) + total
		h := announce(0xc0, uint64(payload))
		hdrs[d] = h
		total = len(h) + payload
	}
	out := make([]byte, 0, total)
	for d := depth - 1; d >= 0; d-- {
		out = append(out, hdrs[d]...)
		out = append(out, perLevel...)
	}
	return append(out, inner...)
}

func runAlloc(c *fw.Ctx) {
	runtime.GOMAXPROCS(1)
	debug.SetGCPercent(-1)
	a := &allocJudge{c: c}
	// calibrate the meter itself
	a.base = ^uint64(0)
	for i := 0; i < 20; i++ {
		if x := allocOf(func() { guarded(func() {}) }); x < a.base {
			a.base = x
		}
	}
	apis := []string{allocDecodeBytes, allocStream, allocStreamLimit}
	generic := []string{"iface", "bytes", "string", "u64", "big", "arr3", "simple", "uints", "raw", "struct_raw", "tail_raw", "nilptrs", "ifslice", "byteslices", "custom", "rec", "nested", "bools"}
	var gts []target
	for _, n := range generic {
		gts = append(gts, targetByName(n))
	}
	all := append(append([]target{}, gts...), consensusTargets...)
	all = append(all, richTargets...)

	// one-time costs (type-info cache of every target, reflect caches, the
	// encoder pool) are not per-input allocations: pay them before metering
	warm := [][]byte{{0xc0}, {0x80}, {0x01}, {0xc2, 0x01, 0x80}, {0x83, 1, 2, 3}, {0xf9, 0x01, 0x00, 0xb9, 0x01, 0x00, 0x82}}
	for _, tg := range append(append([]target{}, all...), smallTargets...) {
		for _, w := range warm {
			for _, api := range apis {
				ptr := reflect.New(tg.typ)
				guarded(func() {
					switch api {
					case allocDecodeBytes:
						rlp.DecodeBytes(w, ptr.Interface())
					case allocStream:
						rlp.NewStream(bytes.NewReader(w), 0).Decode(ptr.Interface())
					default:
						rlp.NewStream(plainSrc{bytes.NewReader(w)}, uint64(len(w))).Decode(ptr.Interface())
					}
				})
			}
		}
	}
	for i := 0; i < 40; i++ {
		g := &gen{r: c.Rand("warm", fmt.Sprint(i))}
		cc := g.consensus(consensusKinds[i%len(consensusKinds)])
		if enc, err := rlp.EncodeToBytes(cc.real); err == nil {
			rlp.DecodeBytes(enc, cc.fresh())
		}
	}
	runtime.GC()

	// --- (1) announced sizes ------------------------------------------------
	sizes := []uint64{56, 255, 256, 1 << 12, 1<<16 - 1, 1 << 16, 1 << 20, 1<<24 - 1, 1 << 24, 1<<31 - 1, 1 << 31, 1<<32 - 1, 1 << 32,
		1 << 40, 1<<48 - 1, 1 << 48, 1 << 56, 1<<63 - 1, 1 << 63, 1<<64 - 1}
	tails := []int{0, 1, 9, 200}
	idx := 0
	for _, base := range []byte{0x80, 0xc0} {
		for _, sz := range sizes {
			for _, tl := range tails {
				for wrap := 0; wrap < 5; wrap++ {
					idx++
					if idx%c.NBatch != c.Batch {
						continue
					}
					r := c.Rand("announce", fmt.Sprint(idx))
					body := append(announce(base, sz), r.Bytes(tl)...)
					var b []byte
					switch wrap {
					case 0: // top level
						b = body
					case 1: // inside a list whose own size is honest
						b = append(announce(0xc0, uint64(len(body))), body...)
					case 2: // inside a list that announces the same huge size
						b = append(announce(0xc0, sz), body...)
					case 3: // second field of a struct-shaped list
						in := append([]byte{0x05}, body...)
						b = append(announce(0xc0, uint64(len(in))), in...)
					case 4: // three levels down
						b = nest(3, body)
					}
					id := fmt.Sprintf("announce-%02x-%d-%d-%d", base, sz, tl, wrap)
					c.Case(id, map[string]interface{}{"input": hx(b), "announced": fmt.Sprint(sz)}, func() {
						for _, tg := range all {
							for _, api := range apis {
								a.measure(api, b, tg, "")
							}
						}
						c.Count("alloc_huge_announced")
						c.NontrivialBytes(b)
					})
				}
			}
		}
	}

	// --- (2) valid inputs, small to large: the bound must not be vacuous --------
	nValid := c.Pick(64, 1200)
	for i := 0; i < nValid; i++ {
		if i%c.NBatch != c.Batch {
			continue
		}
		r := c.Rand("valid", fmt.Sprint(i))
		g := &gen{r: r}
		var enc []byte
		var tg target
		var class string
		switch i % 8 {
		case 0: // large byte string
			n := []int{1 << 10, 1 << 14, 1 << 16, 1 << 18, 1 << 20}[r.Intn(5)]
			enc = refrlp.Encode(refrlp.S(r.Bytes(n)))
			tg = targetByName([]string{"bytes", "iface", "raw", "string"}[r.Intn(4)])
			class = "alloc_valid_large"
		case 1: // long list of one-byte items: worst case of per-element overhead
			n := []int{100, 1000, 20000, 200000}[r.Intn(4)]
			payload := bytes.Repeat([]byte{[]byte{0x01, 0x80, 0xc0}[r.Intn(3)]}, n)
			enc = append(announce(0xc0, uint64(n)), payload...)
			tg = targetByName([]string{"iface", "ifslice", "uints", "raw", "byteslices", "bools"}[r.Intn(6)])
			class = "alloc_valid_large"
		case 2: // long list of empty lists into nested slices
			n := []int{100, 5000, 100000}[r.Intn(3)]
			enc = append(announce(0xc0, uint64(n)), bytes.Repeat([]byte{0xc0}, n)...)
			tg = targetByName([]string{"iface", "nested", "ifslice"}[r.Intn(3)])
			class = "alloc_valid_large"
		case 3, 4: // consensus values
			kind := consensusKinds[r.Intn(len(consensusKinds))]
			cc := g.consensus(kind)
			it, err := refrlp.ToItem(cc.shadow, nil)
			if err != nil {
				harnessFault("ToItem(shadow %s): %v", kind, err)
				continue
			}
			enc, tg = refrlp.Encode(it), targetByName(kind)
		default:
			vt := valueTypes[r.Intn(len(valueTypes))]
			if vt.name == "namedbytes" {
				vt = valueTypes[0]
			}
			ptr := reflect.New(vt.typ)
			g.fill(ptr.Elem(), ftags{})
			it, err := refrlp.ToItem(ptr.Interface(), refOpts)
			if err != nil {
				harnessFault("ToItem(%s): %v", vt.name, err)
				continue
			}
			enc, tg = refrlp.Encode(it), vt
		}
		c.Case(fmt.Sprintf("valid-%d", i), map[string]interface{}{"target": tg.name, "bytes": len(enc), "input": hxShort(enc)}, func() {
			for _, api := range apis {
				a.measure(api, enc, tg, "")
			}
			if class != "" {
				c.Count(class)
			}
			c.NontrivialBytes(enc)
			// the same bytes cut short: announced > available at every level
			for _, cut := range []int{len(enc) / 2, len(enc) - 1} {
				if cut > 0 {
					a.measure(allocDecodeBytes, enc[:cut], tg, "")
				}
			}
		})
	}

	// --- (3) deep nesting ------------------------------------------------------
	depths := []int{100, 1000, 10000}
	if c.Thorough() {
		depths = append(depths, 50000, 200000)
	}
	di := 0
	for _, d := range depths {
		for shape := 0; shape < 4; shape++ {
			di++
			if di%c.NBatch != c.Batch {
				continue
			}
			var b []byte
			var tgs []target
			switch shape {
			case 0: // [[[[...]]]]
				b = nestFast(d, nil, nil)
				tgs = []target{targetByName("iface"), targetByName("ifslice"), targetByName("raw"), targetByName("nested"), targetByName("rec")}
			case 1: // rec{V, Child}: [1,[1,[1,...[1,[]]]]]
				b = nestFast(d, []byte{0xc0}, []byte{0x01})
				// innermost child must be the empty list = nil pointer; wrap once more
				tgs = []target{targetByName("rec"), targetByName("iface"), targetByName("raw")}
			case 2: // a non-canonical byte at the bottom of the nest
				b = nestFast(d, []byte{0x81, 0x05}, nil)
				tgs = []target{targetByName("iface"), targetByName("ifslice")}
			case 3: // nest cut in the middle
				full := nestFast(d, nil, nil)
				b = full[:len(full)/2]
				tgs = []target{targetByName("iface"), targetByName("raw"), targetByName("rec")}
			}
			c.Case(fmt.Sprintf("deep-%d-%d", d, shape), map[string]interface{}{"depth": d, "shape": shape, "bytes": len(b)}, func() {
				for _, tg := range tgs {
					for _, api := range apis[:2] {
						a.measure(api, b, tg, "")
					}
				}
				// the canonicity oracles on the same input (reference is iterative enough: Go stacks grow)
				j := &judge{c: c}
				if d <= 10000 {
					for _, tg := range tgs {
						j.typed(apiDecodeBytes, b, tg)
					}
				}
				c.Count("alloc_deep_nesting")
				c.NontrivialBytes(b)
			})
		}
	}

	// --- (4) every short string over the alphabet --------------------------------
	L := c.Pick(3, 4)
	var rec func(buf []byte)
	count := 0
	small := []target{targetByName("iface"), targetByName("bytes"), targetByName("raw"), targetByName("simple"), targetByName("uints"), targetByName("big"), targetByName("tx")}
	c.Case("alloc-exh", map[string]interface{}{"max_len": L}, func() {
		rec = func(buf []byte) {
			count++
			if count%c.NBatch == c.Batch {
				for _, tg := range small {
					a.measure(allocDecodeBytes, buf, tg, "")
				}
			}
			if len(buf) == L {
				return
			}
			for _, x := range alphabet {
				rec(append(buf, x))
			}
		}
		rec(make([]byte, 0, L))
	})
	if c.Batch == 1 {
		c.Sample(map[string]interface{}{"case": "allocation", "largest_single_decode_bytes": a.stats.maxAlloc, "its_input_len": a.stats.maxAllocLen, "its_target": a.stats.maxAllocTg,
			"max_bytes_allocated_per_input_byte_x1000": a.stats.maxRatioNum, "bound": fmt.Sprintf("c0(%d|%d) + %d*len", allocC0Generic, allocC0Consensus, allocC1), "meter_overhead": a.base,
			"largest_decode_of_input_under_64_bytes": a.stats.maxSmall, "its_target_api": a.stats.maxSmallTg})
	}
	_ = strings.Repeat
}
