package c11

import (
	"bytes"
	"fmt"
	"io"
	"reflect"

	"gitlab.com/aquachain/aquachain/rlp"
	"verif/internal/fw"
	"verif/internal/ref/refrlp"
)

type namedBytes struct {
	N [4]myByte
	M []myByte
}

// generic value types cycled through by the values leg
var valueTypes = []target{
	{"everything", tOf(new(everything))},
	{"tagged", tOf(new(tagged))},
	{"uintstruct", tOf(new(uints))},
	{"rec", tOf(new(rec))},
	{"simple", tOf(new(simple))},
	{"nilptrs", tOf(new(nilPtrs))},
	{"struct_raw", tOf(new(rawPair))},
	{"tail_raw", tOf(new(rawTail))},
	{"arr1pair", tOf(new(arr1Pair))},
	{"custom", customT},
	{"iface", ifaceT},
	{"ifslice", tOf(new([]interface{}))},
	{"big", bigPtrT},
	{"u64", tOf(new(uint64))},
	{"bytes", tOf(new([]byte))},
	{"string", tOf(new(string))},
	{"arr3", tOf(new([3]byte))},
	{"arr1", tOf(new([1]byte))},
	{"bools", tOf(new([]bool))},
	{"nested", tOf(new([][]uint16))},
	{"ptrptr", tOf(new(**uint16))},
	{"namedbytes", tOf(new(namedBytes))},
	{"structs", tOf(new([]simple))},
}

type valueInput struct {
	Type  string `json:"type"`
	Loose bool   `json:"loose,omitempty"`
	Ref   string `json:"reference_encoding"`
}

// encodeAll runs the three encoder entry points; all must agree.
func encodeAll(c *fw.Ctx, v interface{}, tname string) ([]byte, bool) {
	var enc []byte
	var err error
	if p := guarded(func() { enc, err = rlp.EncodeToBytes(v) }); p != nil {
		c.Violate("panic", "EncodeToBytes", tname+":"+panicClass(p), fmt.Sprintf("encoding a %s panicked: %v", tname, p))
		return nil, false
	}
	if err != nil {
		c.Violate("supported_value_not_encodable", "EncodeToBytes", tname+":"+errClass(err), fmt.Sprintf("EncodeToBytes(%s): %v", tname, err))
		return nil, false
	}
	var buf bytes.Buffer
	if p := guarded(func() { err = rlp.Encode(&buf, v) }); p != nil || err != nil {
		c.Violate("encoders_disagree", "Encode", tname, fmt.Sprintf("Encode(w): panic %v err %v", p, err))
	} else if !bytes.Equal(buf.Bytes(), enc) {
		c.Violate("encoders_disagree", "Encode", tname, fmt.Sprintf("Encode(w) wrote %s, EncodeToBytes returned %s", hxShort(buf.Bytes()), hxShort(enc)))
	}
	var size int
	var rd io.Reader
	if p := guarded(func() { size, rd, err = rlp.EncodeToReader(v) }); p != nil || err != nil {
		c.Violate("encoders_disagree", "EncodeToReader", tname, fmt.Sprintf("EncodeToReader: panic %v err %v", p, err))
	} else {
		// drain in small odd-sized pieces so that every piece boundary of the reader is crossed
		var got []byte
		chunk := make([]byte, 3)
		for {
			n, e := rd.Read(chunk)
			got = append(got, chunk[:n]...)
			if e != nil {
				break
			}
			if len(got) > len(enc)+16 {
				break
			}
		}
		if size != len(enc) || !bytes.Equal(got, enc) {
			c.Violate("encoders_disagree", "EncodeToReader", tname, fmt.Sprintf("EncodeToReader gave size %d and %s, EncodeToBytes %d bytes %s", size, hxShort(got), len(enc), hxShort(enc)))
		}
	}
	return enc, true
}

// checkHeaderAPIs: Split/CountValues must see the reference header of enc.
func checkHeaderAPIs(c *fw.Ctx, enc []byte, it *refrlp.Item, tname string) {
	k, content, rest, err := rlp.Split(enc)
	if err != nil || len(rest) != 0 {
		c.Violate("canonical_encoding_rejected", "Split", tname+":"+errClass(err), fmt.Sprintf("Split of own encoding %s: err %v, %d rest bytes", hxShort(enc), err, len(rest)))
		return
	}
	if (k == rlp.List) != it.IsList {
		c.Violate("split_header_differs", "Split", tname, fmt.Sprintf("Split(%s) kind %v, reference list=%v", hxShort(enc), k, it.IsList))
		return
	}
	if it.IsList {
		n, err := rlp.CountValues(content)
		if err != nil || n != len(it.List) {
			c.Violate("count_differs", "CountValues", tname, fmt.Sprintf("CountValues(content of %s) = %d, %v; reference has %d elements", hxShort(enc), n, err, len(it.List)))
		}
	} else if !bytes.Equal(content, it.Str) {
		c.Violate("split_header_differs", "Split", tname, fmt.Sprintf("Split(%s) content %s, reference %s", hxShort(enc), hxShort(content), hxShort(it.Str)))
	}
}

func runValues(c *fw.Ctx) {
	nGeneric := c.Pick(260, 26000)
	nCons := c.Pick(110, 9000)
	nSeq := c.Pick(12, 800)

	// --- generic Go values -------------------------------------------------
	for i := 0; i < nGeneric; i++ {
		vt := valueTypes[i%len(valueTypes)]
		loose := i%5 == 4
		r := c.Rand("generic", fmt.Sprint(i))
		g := &gen{r: r, loose: loose}
		ptr := reflect.New(vt.typ)
		g.fill(ptr.Elem(), ftags{})
		it, terr := refrlp.ToItem(ptr.Interface(), refOpts)
		if terr != nil {
			harnessFault("ToItem(%s): %v", vt.name, terr)
			continue
		}
		ref := refrlp.Encode(it)
		c.Case(fmt.Sprintf("val-%s-%d", vt.name, i), valueInput{Type: vt.name, Loose: loose, Ref: hxShort(ref)}, func() {
			enc, ok := encodeAll(c, ptr.Interface(), vt.name)
			if !ok {
				return
			}
			if !bytes.Equal(enc, ref) {
				c.Violate("encoding_differs_from_reference", "EncodeToBytes", vt.name, fmt.Sprintf("value %+v of %v: real %s, reference %s", ptr.Elem().Interface(), vt.typ, hxShort(enc), hxShort(ref)))
				return
			}
			c.Count("encoding_matches_reference")
			checkHeaderAPIs(c, enc, it, vt.name)
			c.NontrivialBytes(enc)
			if loose {
				// non-normal Go values: the encoding must still be accepted and canonical
				c.Count("value_loose_encodings")
				j := &judge{c: c}
				j.typed(apiDecodeBytes, enc, vt)
				return
			}
			for _, api := range []string{apiDecodeBytes, apiStream, apiStreamLimit, apiStreamNoLimit} {
				out := reflect.New(vt.typ)
				var err error
				p := guarded(func() {
					switch api {
					case apiDecodeBytes:
						err = rlp.DecodeBytes(enc, out.Interface())
					case apiStream:
						err = rlp.NewStream(bytes.NewReader(enc), 0).Decode(out.Interface())
					case apiStreamLimit:
						err = rlp.NewStream(plainSrc{bytes.NewReader(enc)}, uint64(len(enc))).Decode(out.Interface())
					case apiStreamNoLimit:
						err = rlp.NewStream(&byteSrc{b: enc}, 0).Decode(out.Interface())
					}
				})
				switch {
				case p != nil:
					c.Violate("panic", api, vt.name+":"+panicClass(p), fmt.Sprintf("decoding own encoding %s of a %v panicked: %v", hxShort(enc), vt.typ, p))
				case err != nil:
					c.Violate("own_encoding_rejected", api, vt.name+":"+errClass(err), fmt.Sprintf("value %+v of %v encodes to %s, decoding that fails: %v", ptr.Elem().Interface(), vt.typ, hxShort(enc), err))
				case !equalValues(ptr.Elem(), out.Elem()):
					c.Violate("roundtrip_value_differs", api, vt.name, fmt.Sprintf("value %+v of %v encodes to %s, which decodes to %+v", ptr.Elem().Interface(), vt.typ, hxShort(enc), out.Elem().Interface()))
				default:
					c.Count("value_roundtrips")
				}
			}
			if i < 3 {
				c.Sample(map[string]interface{}{"case": "value", "type": vt.name, "encoding": hxShort(enc), "bytes": len(enc)})
			}
		})
	}

	// --- consensus types ---------------------------------------------------
	for i := 0; i < nCons; i++ {
		kind := consensusKinds[i%len(consensusKinds)]
		r := c.Rand("consensus", fmt.Sprint(i))
		g := &gen{r: r}
		cc := g.consensus(kind)
		it, terr := refrlp.ToItem(cc.shadow, nil)
		if terr != nil {
			harnessFault("ToItem(shadow %s): %v", kind, terr)
			continue
		}
		ref := refrlp.Encode(it)
		tg := targetByName(kind)
		c.Case(fmt.Sprintf("cons-%s-%d", kind, i), valueInput{Type: kind, Ref: hxShort(ref)}, func() {
			enc, ok := encodeAll(c, cc.real, kind)
			if !ok {
				return
			}
			if !bytes.Equal(enc, ref) {
				c.Violate("encoding_differs_from_reference", "EncodeToBytes", kind, fmt.Sprintf("%s: real %s, reference (from the documented wire shape) %s", kind, hxShort(enc), hxShort(ref)))
				return
			}
			c.Count("encoding_matches_reference")
			checkHeaderAPIs(c, enc, it, kind)
			c.NontrivialBytes(enc)
			for _, api := range []string{apiDecodeBytes, apiStream} {
				out := cc.fresh()
				var err error
				p := guarded(func() {
					if api == apiDecodeBytes {
						err = rlp.DecodeBytes(enc, out)
					} else {
						err = rlp.NewStream(bytes.NewReader(enc), 0).Decode(out)
					}
				})
				if p != nil {
					c.Violate("panic", api, kind+":"+panicClass(p), fmt.Sprintf("decoding own encoding of a %s panicked: %v", kind, p))
					continue
				}
				if err != nil {
					c.Violate("own_encoding_rejected", api, kind+":"+errClass(err), fmt.Sprintf("%s encodes to %s, decoding that fails: %v", kind, hxShort(enc), err))
					continue
				}
				back := cc.back(out)
				if !equalValues(reflect.ValueOf(back), reflect.ValueOf(cc.shadow)) {
					c.Violate("roundtrip_value_differs", api, kind, fmt.Sprintf("%s %+v decodes (from %s) to %+v", kind, cc.shadow, hxShort(enc), back))
					continue
				}
				// and the decoded value must encode to the same bytes again (hashes depend on it)
				enc2, err := rlp.EncodeToBytes(out)
				if err != nil || !bytes.Equal(enc2, enc) {
					c.Violate("reencode_differs", api, kind, fmt.Sprintf("%s: %s decodes and re-encodes to %s (%v)", kind, hxShort(enc), hxShort(enc2), err))
					continue
				}
				c.Count("value_consensus_roundtrips")
			}
			// the type-directed reference must agree that this is a valid encoding
			j := &judge{c: c}
			j.typed(apiDecodeBytes, enc, tg)
			if i < len(consensusKinds) && c.WantSample() {
				c.Sample(map[string]interface{}{"case": "consensus", "type": kind, "bytes": len(enc), "encoding_prefix": hxShort(enc[:min(len(enc), 48)])})
			}
		})
	}

	// --- sequences of values through one Stream ------------------------------
	for i := 0; i < nSeq; i++ {
		r := c.Rand("seq", fmt.Sprint(i))
		g := &gen{r: r}
		k := r.Range(2, 5)
		var vals []reflect.Value
		var all []byte
		var names []string
		for x := 0; x < k; x++ {
			vt := valueTypes[r.Intn(len(valueTypes))]
			if vt.name == "namedbytes" {
				vt = valueTypes[0]
			}
			ptr := reflect.New(vt.typ)
			g.fill(ptr.Elem(), ftags{})
			it, terr := refrlp.ToItem(ptr.Interface(), refOpts)
			if terr != nil {
				harnessFault("ToItem(%s): %v", vt.name, terr)
				continue
			}
			vals = append(vals, ptr)
			all = append(all, refrlp.Encode(it)...)
			names = append(names, vt.name)
		}
		c.Case(fmt.Sprintf("seq-%d", i), map[string]interface{}{"types": names, "stream": hxShort(all)}, func() {
			for _, limited := range []bool{true, false} {
				api := "Stream.Decode/sequence"
				var s *rlp.Stream
				if limited {
					s = rlp.NewStream(bytes.NewReader(all), 0)
				} else {
					api = "Stream.Decode/sequence/nolimit"
					s = rlp.NewStream(&byteSrc{b: all}, 0)
				}
				ok := true
				for x, want := range vals {
					out := reflect.New(want.Type().Elem())
					var err error
					if p := guarded(func() { err = s.Decode(out.Interface()) }); p != nil {
						c.Violate("panic", api, panicClass(p), fmt.Sprintf("value %d of the sequence: %v", x, p))
						ok = false
						break
					}
					if err != nil {
						c.Violate("own_encoding_rejected", api, names[x]+":"+errClass(err), fmt.Sprintf("value %d (%s) of the concatenation %s: %v", x, names[x], hxShort(all), err))
						ok = false
						break
					}
					if !equalValues(want.Elem(), out.Elem()) {
						c.Violate("roundtrip_value_differs", api, names[x], fmt.Sprintf("value %d (%s) of the concatenation decoded to %+v, want %+v", x, names[x], out.Elem().Interface(), want.Elem().Interface()))
						ok = false
						break
					}
				}
				if ok {
					var extra interface{}
					err := s.Decode(&extra)
					if err != io.EOF {
						c.Violate("end_of_input_not_reported", api, errClass(err), fmt.Sprintf("after the last value of %s the stream returned %v, not io.EOF", hxShort(all), err))
					} else {
						c.Count("stream_sequence_roundtrips")
					}
				}
			}
		})
	}
}
