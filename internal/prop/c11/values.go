package c11

import (
	"bytes"
	"fmt"
	"io"
	"reflect"

	"gitlab.com/aquachain/aquachain/rlp"
	"verif/internal/fw"
	"verif/internal/ref/refrlp"
)

type namedBytes struct {
	N [4]myByte
	M []myByte
}

// generic value types cycled through by the values leg
var valueTypes = []target{
	{"everything", tOf(new(everything))},
	{"tagged", tOf(new(tagged))},
	{"uintstruct", tOf(new(uints))},
	{"rec", tOf(new(rec))},
	{"simple", tOf(new(simple))},
	{"nilptrs", tOf(new(nilPtrs))},
	{"struct_raw", tOf(new(rawPair))},
	{"tail_raw", tOf(new(rawTail))},
	{"arr1pair", tOf(new(arr1Pair))},
	{"custom", customT},
	{"iface", ifaceT},
	{"ifslice", tOf(new([]interface{}))},
	{"big", bigPtrT},
	{"u64", tOf(new(uint64))},
	{"bytes", tOf(new([]byte))},
	{"string", tOf(new(string))},
	{"arr3", tOf(new([3]byte))},
	{"arr1", tOf(new([1]byte))},
	{"bools", tOf(new([]bool))},
	{"nested", tOf(new([][]uint16))},
	{"ptrptr", tOf(new(**uint16))},
	{"namedbytes", tOf(new(namedBytes))},
	{"structs", tOf(new([]simple))},
}

type valueInput struct {
	Type  string `json:"type"`
	Loose bool   `json:"loose,omitempty"`
	Ref   string `json:"reference_encoding"`
}

// encodeAll runs the three encoder entry points; all must agree.
func encodeAll(c *fw.Ctx, v interface{}, tname string) ([]byte, bool) {
	var enc []byte
	var err error
	if p := guarded(func() { enc, err = rlp.EncodeToBytes(v) }); p != nil {
		c.Violate("panic", "EncodeToBytes", tname+":"+panicClass(p), fmt.Sprintf("encoding a %s panicked: %v", tname, p))
		return nil, false
	}
	if err != nil {
		c.Violate("supported_value_not_encodable", "EncodeToBytes", tname+":"+errClass(err), fmt.Sprintf("EncodeToBytes(%s): %v", tname, err))
		return nil, false
	}
	var buf bytes.Buffer
	if p := guarded(func() { err = rlp.Encode(&buf, v) }); p != nil || err != nil {
		c.Violate("encoders_disagree", "Encode", tname, fmt.Sprintf("Encode(w): panic %v err %v", p, err))
	} else if !bytes.Equal(buf.Bytes(), enc) {
		c.Violate("encoders_disagree", "Encode", tname, fmt.Sprintf("Encode(w) wrote %s, EncodeToBytes returned %s", hxShort(buf.Bytes()), hxShort(enc)))
	}
	var size int
	var rd io.Reader
	if p := guarded(func() { size, rd, err = rlp.EncodeToReader(v) }); p != nil || err != nil {
		c.Violate("encoders_disagree", "EncodeToReader", tname, fmt.Sprintf("EncodeToReader: panic %v err %v", p, err))
	} else {
		// drain in small odd-sized pieces so that every piece boundary of the reader is crossed
		var got []byte
		chunk := make([]byte, 3)
		for {
			n, e := rd.Read(chunk)
			got = append(got, chunk[:n]...)
			if e != nil {
				break
			}
			if len(got) > len(enc)+16 {
				break
			}
		}
		if size != len(enc) || !bytes.Equal(got, enc) {
			c.Violate("encoders_disagree", "EncodeToReader", tname, fmt.Sprintf("EncodeToReader gave size %d and %s, EncodeToBytes %d bytes %s", size, hxShort(got), len(enc), hxShort(enc)))
		}
	}
	return enc, true
}

// checkHeaderAPIs: Split/CountValues must see the reference header of enc.
func checkHeaderAPIs(c *fw.Ctx, enc []byte, it *refrlp.Item, tname string) {
	k, content, rest, err := rlp.Split(enc)
	if err != nil || len(rest) != 0 {
		c.Violate("canonical_encoding_rejected", "Split", tname+":"+errClass(err), fmt.Sprintf("Split of own encoding %s: err %v, %d rest bytes", hxShort(enc), err, len(rest)))
		return
	}
	if (k == rlp.List) != it.IsList {
		c.Violate("split_header_differs", "Split", tname, fmt.Sprintf("Split(%s) kind %v, reference list=%v", hxShort(enc), k, it.IsList))
		return
	}
	if it.IsList {
		n, err := rlp.CountValues(content)
		if err != nil || n != len(it.List) {
			c.Violate("count_differs", "CountValues", tname, fmt.Sprintf("CountValues(content of %s) = %d, %v; reference has %d elements", hxShort(enc), n, err, len(it.List)))
		}
	} else if !bytes.Equal(content, it.Str) {
		c.Violate("split_header_differs", "Split", tname, fmt.Sprintf("Split(%s) content %s, reference %s", hxShort(enc), hxShort(content), hxShort(it.Str)))
	}
}

func runValues(c *fw.Ctx) {
	nGeneric := c.Pick(260, 26000)
	nCons := c.Pick(110, 9000)
	nSeq := c.Pick(12, 800)

	// --- generic Go values -------------------------------------------------
	for i := 0; i < nGeneric; i++ {
		vt := valueTypes[i%len(valueTypes)]
		loose := i%5 == 4
		r := c.Rand("generic", fmt.Sprint(i))
		g := &gen{r: r, loose: loose}
		ptr := reflect.New(vt.typ)
		g.fill(ptr.Elem(), ftags{})
		it, terr := refrlp.ToItem(ptr.Interface(), refOpts)
		if terr != nil {
			harnessFault("ToItem(%s): %v", vt.name, terr)
			continue
		}
		ref := refrlp.Encode(it)
		c.Case(fmt.Sprintf("val-%s-%d", vt.name, i), valueInput{Type: vt.name, Loose: loose, Ref: hxShort(ref)}, func() {
			enc, ok := encodeAll(c, ptr.Interface(), vt.name)
			if !ok {
				return
			}
			if !bytes.Equal(enc, ref) {
				c.Violate("encoding_differs_from_reference", "EncodeToBytes", vt.name, fmt.Sprintf("value %+v of %v: real %s, reference %s", ptr.Elem().Interface(), vt.typ, hxShort(enc), hxShort(ref)))
				return
			}
			c.Count("encoding_matches_reference")
			checkHeaderAPIs(c, enc, it, vt.name)
			c.NontrivialBytes(enc)
			if loose {
				// non-normal Go values: the encoding must still be accepted and canonical
				c.Count("value_loose_encodings")
				j := &judge{c: c}
				j.typed(apiDecodeBytes, enc, vt)
				return
			}
			for _, api := range []string{apiDecodeBytes, apiStream, apiStreamLimit, apiStreamNoLimit} {
				out := reflect.New(vt.typ)
				var err error
				p := guarded(func() {
					switch api {
					case apiDecodeBytes:
						err = rlp.DecodeBytes(enc, out.Interface())
					case apiStream:
						err = rlp.NewStream(bytes.NewReader(enc), 0).Decode(out.Interface())
					case apiStreamLimit:
						err = rlp.NewStream(plainSrc{bytes.NewReader(enc)}, uint64(len(enc))).Decode(out.Interface())
					case apiStreamNoLimit:
						err = rlp.NewStream(&byteSrc{b: enc}, 0).Decode(out.Interface())
					}
				})
				switch {
				case p != nil:
					c.Violate("panic", api, vt.name+":"+panicClass(p), fmt.Sprintf("decoding own encoding %s of a %v panicked: %v", hxShort(enc), vt.typ, p))
				case err != nil:
					c.Violate("own_encoding_rejected", api, vt.name+":"+errClass(err), fmt.Sprintf("value %+v of %v encodes to %s, decoding that fails: %v", ptr.Elem().Interface(), vt.typ, hxShort(enc), err))
				case !equalValues(ptr.Elem(), out.Elem()):
					c.Violate("roundtrip_value_differs", api, vt.name, fmt.Sprintf("value %+v of %v encodes to %s, which decodes to %+v", ptr.Elem().Interface(), vt.typ, hxShort(enc), out.Elem().Interface()))
				default:
					c.Count("value_roundtrips")
				}
			}
			if i < 1 && c.Batch == 0 {
				c.Sample(map[string]interface{}{"case": "value", "type": vt.name, "encoding": hxShort(enc), "bytes": len(enc)})
			}
		})
	}

	// --- list payloads on the header-form boundaries (forced templates) -------
	// payload of exactly 55/56/57, 255/256/257, 65535/65536/65537 bytes, at the top
	// level, one and two levels down, and as the last element of a longer list
	bi := 0
	for _, P := range []int{54, 55, 56, 57, 58, 255, 256, 257, 65535, 65536, 65537} {
		for shape := 0; shape < 5; shape++ {
			bi++
			if bi%c.NBatch != c.Batch {
				continue
			}
			r := c.Rand("boundary", fmt.Sprint(P), fmt.Sprint(shape))
			// simple{A: 1, B: n bytes}: payload = 1 + header(n) + n
			// (A occupies 1, 2 or 3 bytes: 01 / 81 80 / 82 01 00)
			n, aVal := -1, uint(1)
		search:
			for ai, av := range []uint{1, 0x80, 0x100} {
				for k := P - 2; k > 1; k-- {
					if ai+1+len(canonHeader(0x80, k))+k == P {
						n, aVal = k, av
						break search
					}
				}
			}
			if n < 0 {
				harnessFault("no simple{A,B} with a %d-byte payload", P)
				continue
			}
			inner := simple{A: aVal, B: r.Bytes(n)}
			inner.B[0] |= 0x80
			var v interface{}
			var tname string
			switch shape {
			case 0:
				v, tname = &inner, "simple"
			case 1:
				v, tname = &[]simple{inner}, "structs"
			case 2:
				v, tname = &[][]simple{{inner}, {}}, "structs2"
			case 3:
				v, tname = &[]interface{}{[]byte{1}, []interface{}{uint64(inner.A), inner.B}}, "ifslice"
			default:
				// a list of P one-byte items
				l := make([]uint, P)
				for k := range l {
					l[k] = uint(1 + r.Intn(127))
				}
				v, tname = &l, "uints"
			}
			it, terr := refrlp.ToItem(v, refOpts)
			if terr != nil {
				harnessFault("ToItem(boundary %s): %v", tname, terr)
				continue
			}
			ref := refrlp.Encode(it)
			c.Case(fmt.Sprintf("boundary-%d-%d", P, shape), valueInput{Type: tname, Ref: hxShort(ref)}, func() {
				enc, ok := encodeAll(c, v, tname)
				if !ok {
					return
				}
				if !bytes.Equal(enc, ref) {
					c.Violate("encoding_differs_from_reference", "EncodeToBytes", tname, fmt.Sprintf("a list with a %d-byte payload (shape %d): real %s, reference %s", P, shape, hxShort(enc), hxShort(ref)))
					return
				}
				c.Count("encoding_matches_reference")
				c.Count("value_list_payload_boundary")
				checkHeaderAPIs(c, enc, it, tname)
				out := reflect.New(reflect.TypeOf(v).Elem())
				var err error
				if p := guarded(func() { err = rlp.DecodeBytes(enc, out.Interface()) }); p != nil {
					c.Violate("panic", apiDecodeBytes, tname+":"+panicClass(p), fmt.Sprintf("decoding own encoding %s panicked: %v", hxShort(enc), p))
					return
				}
				if err != nil {
					c.Violate("own_encoding_rejected", apiDecodeBytes, tname+":"+errClass(err), fmt.Sprintf("a list with a %d-byte payload encodes to %s, decoding that fails: %v", P, hxShort(enc), err))
					return
				}
				enc2, err := rlp.EncodeToBytes(out.Interface())
				if err != nil || !bytes.Equal(enc2, enc) {
					c.Violate("reencode_differs", apiDecodeBytes, tname, fmt.Sprintf("%s decodes and re-encodes to %s (%v)", hxShort(enc), hxShort(enc2), err))
					return
				}
				c.Count("value_roundtrips")
			})
		}
	}
	// a log with one topic and no data: the smallest consensus value with a 56-byte payload
	if c.Batch == 0 {
		l := &shLog{Topics: [][32]byte{a32(c.Rand("log56").Bytes(32))}, Data: []byte{}}
		it, _ := refrlp.ToItem(l, nil)
		ref := refrlp.Encode(it)
		c.Case("boundary-log56", valueInput{Type: "log", Ref: hx(ref)}, func() {
			enc, ok := encodeAll(c, realLog(l), "log")
			if ok && !bytes.Equal(enc, ref) {
				c.Violate("encoding_differs_from_reference", "EncodeToBytes", "log", fmt.Sprintf("log with one topic and no data: real %s, reference %s", hx(enc), hx(ref)))
			} else if ok {
				c.Count("value_list_payload_boundary")
				j := &judge{c: c}
				j.typed(apiDecodeBytes, enc, targetByName("log"))
			}
		})
	}

	// --- consensus types ---------------------------------------------------
	for i := 0; i < nCons; i++ {
		kind := consensusKinds[i%len(consensusKinds)]
		r := c.Rand("consensus", fmt.Sprint(i))
		g := &gen{r: r}
		cc := g.consensus(kind)
		it, terr := refrlp.ToItem(cc.shadow, nil)
		if terr != nil {
			harnessFault("ToItem(shadow %s): %v", kind, terr)
			continue
		}
		ref := refrlp.Encode(it)
		tg := targetByName(kind)
		c.Case(fmt.Sprintf("cons-%s-%d", kind, i), valueInput{Type: kind, Ref: hxShort(ref)}, func() {
			enc, ok := encodeAll(c, cc.real, kind)
			if !ok {
				return
			}
			if !bytes.Equal(enc, ref) {
				c.Violate("encoding_differs_from_reference", "EncodeToBytes", kind, fmt.Sprintf("%s: real %s, reference (from the documented wire shape) %s", kind, hxShort(enc), hxShort(ref)))
				return
			}
			c.Count("encoding_matches_reference")
			checkHeaderAPIs(c, enc, it, kind)
			c.NontrivialBytes(enc)
			for _, api := range []string{apiDecodeBytes, apiStream} {
				out := cc.fresh()
				var err error
				p := guarded(func() {
					if api == apiDecodeBytes {
						err = rlp.DecodeBytes(enc, out)
					} else {
						err = rlp.NewStream(bytes.NewReader(enc), 0).Decode(out)
					}
				})
				if p != nil {
					c.Violate("panic", api, kind+":"+panicClass(p), fmt.Sprintf("decoding own encoding of a %s panicked: %v", kind, p))
					continue
				}
				if err != nil {
					c.Violate("own_encoding_rejected", api, kind+":"+errClass(err), fmt.Sprintf("%s encodes to %s, decoding that fails: %v", kind, hxShort(enc), err))
					continue
				}
				back := cc.back(out)
				if !equalValues(reflect.ValueOf(back), reflect.ValueOf(cc.shadow)) {
					c.Violate("roundtrip_value_differs", api, kind, fmt.Sprintf("%s %+v decodes (from %s) to %+v", kind, cc.shadow, hxShort(enc), back))
					continue
				}
				// and the decoded value must encode to the same bytes again (hashes depend on it)
				enc2, err := rlp.EncodeToBytes(out)
				if err != nil || !bytes.Equal(enc2, enc) {
					c.Violate("reencode_differs", api, kind, fmt.Sprintf("%s: %s decodes and re-encodes to %s (%v)", kind, hxShort(enc), hxShort(enc2), err))
					continue
				}
				c.Count("value_consensus_roundtrips")
			}
			// the type-directed reference must agree that this is a valid encoding
			j := &judge{c: c}
			j.typed(apiDecodeBytes, enc, tg)
			if i == 1 && c.Batch == 0 {
				c.Sample(map[string]interface{}{"case": "consensus", "type": kind, "bytes": len(enc), "encoding_prefix": hxShort(enc[:min(len(enc), 48)])})
			}
		})
	}

	// --- sequences of values through one Stream ------------------------------
	for i := 0; i < nSeq; i++ {
		r := c.Rand("seq", fmt.Sprint(i))
		g := &gen{r: r}
		k := r.Range(2, 5)
		var vals []reflect.Value
		var all []byte
		var names []string
		for x := 0; x < k; x++ {
			vt := valueTypes[r.Intn(len(valueTypes))]
			if vt.name == "namedbytes" {
				vt = valueTypes[0]
			}
			ptr := reflect.New(vt.typ)
			g.fill(ptr.Elem(), ftags{})
			it, terr := refrlp.ToItem(ptr.Interface(), refOpts)
			if terr != nil {
				harnessFault("ToItem(%s): %v", vt.name, terr)
				continue
			}
			vals = append(vals, ptr)
			all = append(all, refrlp.Encode(it)...)
			names = append(names, vt.name)
		}
		c.Case(fmt.Sprintf("seq-%d", i), map[string]interface{}{"types": names, "stream": hxShort(all)}, func() {
			for _, limited := range []bool{true, false} {
				api := "Stream.Decode/sequence"
				var s *rlp.Stream
				if limited {
					s = rlp.NewStream(bytes.NewReader(all), 0)
				} else {
					api = "Stream.Decode/sequence/nolimit"
					s = rlp.NewStream(&byteSrc{b: all}, 0)
				}
				ok := true
				for x, want := range vals {
					out := reflect.New(want.Type().Elem())
					var err error
					if p := guarded(func() { err = s.Decode(out.Interface()) }); p != nil {
						c.Violate("panic", api, panicClass(p), fmt.Sprintf("value %d of the sequence: %v", x, p))
						ok = false
						break
					}
					if err != nil {
						prev := "start"
						if x > 0 {
							prev = names[x-1]
						}
						c.Violate("own_encoding_rejected", api, "after_"+prev+":"+names[x]+":"+errClass(err), fmt.Sprintf("value %d (%s, preceded by %s) of the concatenation %s: %v", x, names[x], prev, hxShort(all), err))
						ok = false
						break
					}
					if !equalValues(want.Elem(), out.Elem()) {
						prev := "start"
						if x > 0 {
							prev = names[x-1]
						}
						c.Violate("roundtrip_value_differs", api, "after_"+prev+":"+names[x], fmt.Sprintf("value %d (%s) of the concatenation decoded to %+v, want %+v", x, names[x], out.Elem().Interface(), want.Elem().Interface()))
						ok = false
						break
					}
				}
				if ok {
					var extra interface{}
					err := s.Decode(&extra)
					if err != io.EOF {
						c.Violate("end_of_input_not_reported", api, "after_"+names[len(names)-1]+":"+errClass(err), fmt.Sprintf("after the last value (a %s) of %s the stream returned %v, not io.EOF", names[len(names)-1], hxShort(all), err))
					} else {
						c.Count("stream_sequence_roundtrips")
					}
				}
			}
		})
	}
}
