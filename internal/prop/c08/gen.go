package c08

import (
	"fmt"
	"math/big"

	"verif/internal/fw"
	"verif/internal/ref/refevm"
)

// ---------------------------------------------------------------------------
// boundary lattice

func pow2(n uint) *big.Int { return new(big.Int).Lsh(big.NewInt(1), n) }

func lattice() []*big.Int {
	var l []*big.Int
	for _, v := range []int64{0, 1, 2, 31, 32, 33, 55, 56, 255, 256, 257, 1023, 1024} {
		l = append(l, big.NewInt(v))
	}
	pm := func(n uint) {
		l = append(l, new(big.Int).Sub(pow2(n), big.NewInt(1)), new(big.Int).Add(pow2(n), big.NewInt(1)))
	}
	pm(16)
	pm(32)
	pm(63)
	pm(64)
	l = append(l, pow2(128))
	l = append(l, new(big.Int).Sub(pow2(255), big.NewInt(1)), pow2(255), new(big.Int).Add(pow2(255), big.NewInt(1)))
	l = append(l, new(big.Int).Sub(pow2(256), big.NewInt(2)), new(big.Int).Sub(pow2(256), big.NewInt(1)))
	return l
}

// ---------------------------------------------------------------------------
// program assembly

type asm struct{ b []byte }

func (a *asm) op(ops ...byte) *asm { a.b = append(a.b, ops...); return a }

// push emits the shortest PUSHn holding x (PUSH1 0 for zero).
func (a *asm) push(x *big.Int) *asm {
	bs := x.Bytes()
	if len(bs) == 0 {
		bs = []byte{0}
	}
	a.b = append(a.b, byte(0x5f+len(bs)))
	a.b = append(a.b, bs...)
	return a
}

// pushN emits PUSHn with x left-padded to n bytes.
func (a *asm) pushN(n int, x *big.Int) *asm {
	buf := make([]byte, n)
	x.FillBytes(buf)
	a.b = append(a.b, byte(0x5f+n))
	a.b = append(a.b, buf...)
	return a
}

func (a *asm) pushInt(v int64) *asm { return a.push(big.NewInt(v)) }

const (
	opSTOP, opADD, opMUL, opSUB, opDIV, opSDIV, opMOD, opSMOD, opADDMOD, opMULMOD, opEXP, opSIGNEXTEND = 0x00, 0x01, 0x02, 0x03, 0x04, 0x05, 0x06, 0x07, 0x08, 0x09, 0x0a, 0x0b
	opLT, opGT, opSLT, opSGT, opEQ, opISZERO, opAND, opOR, opXOR, opNOT, opBYTE, opSHL, opSHR, opSAR      = 0x10, 0x11, 0x12, 0x13, 0x14, 0x15, 0x16, 0x17, 0x18, 0x19, 0x1a, 0x1b, 0x1c, 0x1d
	opSHA3                                                                                                = 0x20
	opCALLDATALOAD, opCALLDATASIZE, opCALLDATACOPY, opCODESIZE, opCODECOPY, opRETURNDATASIZE, opRETURNDATACOPY = 0x35, 0x36, 0x37, 0x38, 0x39, 0x3d, 0x3e
	opPOP, opMLOAD, opMSTORE, opMSTORE8, opJUMP, opJUMPI, opPC, opMSIZE, opGAS, opJUMPDEST                 = 0x50, 0x51, 0x52, 0x53, 0x56, 0x57, 0x58, 0x59, 0x5a, 0x5b
	opPUSH1, opPUSH2, opPUSH32, opDUP1, opSWAP1                                                           = 0x60, 0x61, 0x7f, 0x80, 0x90
	opRETURN, opREVERT, opINVALID                                                                         = 0xf3, 0xfd, 0xfe
)

// singleOp builds "push operands; op; observe": args[0] ends up on top. The
// suffix returns the result word, or the whole memory for instructions without
// a result, so the effect is also visible in the return data of Call.
func singleOp(op byte, args []*big.Int) []byte {
	var a asm
	for i := len(args) - 1; i >= 0; i-- {
		a.push(args[i])
	}
	a.op(op)
	info := refevm.Table[op]
	switch {
	case op == opRETURN || op == opREVERT || op == opSTOP || op == opJUMP || op == opJUMPI:
	case info.Pushes > info.Pops || (info.Pushes == 1 && info.Pops >= 1):
		// result on top: MSTORE it at 0 and return the word
		a.pushInt(0).op(opMSTORE).pushInt(32).pushInt(0).op(opRETURN)
	default:
		a.op(opMSIZE).pushInt(0).op(opRETURN)
	}
	return a.b
}

// jumpProgram: PUSH32 cond; PUSH32 dest; JUMP|JUMPI at 66, followed by a field
// of JUMPDESTs up to 1100 with holes: 255 is a PUSH1 whose data byte (256) is
// 0x5b, 1024 a PUSH2; 257 and 1023 are real destinations; everything in
// 0..66 is PUSH data or an opcode.
func jumpProgram(op byte, dest, cond *big.Int) []byte {
	var a asm
	a.pushN(32, cond).pushN(32, dest).op(op)
	if op == opJUMP {
		// JUMP takes only the destination: drop the condition first would change
		// the layout; instead the condition stays below and is ignored
	}
	for len(a.b) < 1100 {
		a.op(opJUMPDEST)
	}
	a.b[255], a.b[256] = opPUSH1, 0x5b
	a.b[1024], a.b[1025], a.b[1026] = opPUSH2, 0x5b, 0x5b
	return a.b
}

type latticeCase struct {
	op   byte
	args []*big.Int
	code []byte
	data []byte
	gas  uint64
}

func callData57() []byte {
	d := make([]byte, 57)
	for i := range d {
		d[i] = byte(0xa0 + i)
	}
	return d
}

var (
	binaryOps  = []byte{opADD, opMUL, opSUB, opDIV, opSDIV, opMOD, opSMOD, opEXP, opSIGNEXTEND, opLT, opGT, opSLT, opSGT, opEQ, opAND, opOR, opXOR, opBYTE, opSHL, opSHR, opSAR}
	unaryOps   = []byte{opISZERO, opNOT, opPOP, opMLOAD, opCALLDATALOAD, opJUMP}
	twoArgOps  = []byte{opMSTORE, opMSTORE8, opSHA3, opRETURN, opREVERT, opJUMPI}
	ternaryOps = []byte{opADDMOD, opMULMOD, opCALLDATACOPY, opCODECOPY, opRETURNDATACOPY}
	nullaryOps = []byte{opSTOP, opPC, opMSIZE, opGAS, opCALLDATASIZE, opCODESIZE, opRETURNDATASIZE, opJUMPDEST, opINVALID}
)

// forEachLattice enumerates the lattice sub-space for one spec. full=false
// leaves out the 27^3 triples and the long shift sweeps.
func forEachLattice(full bool, f func(lc latticeCase)) {
	L := lattice()
	data := callData57()
	const gas = 1000000
	emit := func(op byte, args ...*big.Int) {
		var code []byte
		switch op {
		case opJUMP:
			code = jumpProgram(op, args[0], big.NewInt(0))
		case opJUMPI:
			code = jumpProgram(op, args[0], args[1])
		default:
			code = singleOp(op, args)
		}
		g := uint64(gas)
		if op == opJUMP || op == opJUMPI {
			g = 3000 // a jump back into the prologue loops until the gas is gone
		}
		f(latticeCase{op: op, args: args, code: code, data: data, gas: g})
	}
	for _, op := range nullaryOps {
		emit(op)
	}
	for _, op := range unaryOps {
		for _, a := range L {
			emit(op, a)
		}
	}
	for _, op := range append(append([]byte{}, binaryOps...), twoArgOps...) {
		for _, a := range L {
			for _, b := range L {
				emit(op, a, b)
			}
		}
	}
	// index sweeps
	for _, op := range []byte{opBYTE, opSIGNEXTEND} {
		for i := int64(0); i <= 33; i++ {
			for _, v := range L {
				emit(op, big.NewInt(i), v)
			}
		}
	}
	if !full {
		return
	}
	for _, op := range []byte{opSHL, opSHR, opSAR} {
		for i := int64(0); i <= 258; i++ {
			for _, v := range L {
				emit(op, big.NewInt(i), v)
			}
		}
	}
	for _, op := range ternaryOps {
		for _, a := range L {
			for _, b := range L {
				for _, c := range L {
					emit(op, a, b, c)
				}
			}
		}
	}
}

func runLattice(c *fw.Ctx) {
	specs := mainSpecs()
	if c.Leg == "lattice-ip" {
		// the pool-checking build: the pool does not depend on the epoch
		specs = specs[:1]
	}
	idx, space := 0, 0
	for si, sp := range specs {
		forEachLattice(si == 0, func(lc latticeCase) {
			idx++
			space++
			if idx%c.NBatch != c.Batch {
				return
			}
			id := fmt.Sprintf("lat-%s-%s-%d", sp.Name, refevm.Name(lc.op), idx)
			// every 8th tuple is also re-run at the exact gas boundary
			st := runCase(c, id, sp, lc.code, lc.data, lc.gas, idx%8 == 0)
			c.Count("lattice_tuple_executed")
			if c.Leg == "lattice" && c.Batch == 0 && idx == 65584 && st.compared {
				c.Sample(map[string]interface{}{"case": id, "spec": sp.Name, "height": sp.Num, "op": refevm.Name(lc.op), "operands_top_first": fmtArgs(lc.args),
					"code": fmt.Sprintf("%x", truncCode(lc.code)), "gas": lc.gas, "steps_compared": st.steps, "halt": st.state.String(), "gas_left": st.gasLeft})
			}
		})
	}
	if c.Batch == 0 {
		c.CountN("lattice_tuple_space", space)
	}
}

func truncCode(b []byte) []byte {
	if len(b) > 120 {
		return b[:120]
	}
	return b
}

// ---------------------------------------------------------------------------
// random operand tuples

func randWord(r *fw.Rand, L []*big.Int) *big.Int {
	switch r.Intn(10) {
	case 0, 1, 2:
		return new(big.Int).SetBytes(r.Bytes(32))
	case 3, 4:
		// random bit length
		n := r.Range(1, 256)
		x := new(big.Int).SetBytes(r.Bytes(32))
		x.Rsh(x, uint(256-n))
		return x.SetBit(x, n-1, 1)
	case 5:
		// near a lattice point
		x := new(big.Int).Set(L[r.Intn(len(L))])
		x.Add(x, big.NewInt(int64(r.Range(-3, 3))))
		return x.Mod(x, pow2(256))
	case 6:
		return big.NewInt(int64(r.Intn(300)))
	case 7:
		// small negative
		x := big.NewInt(int64(-1 - r.Intn(300)))
		return x.Mod(x, pow2(256))
	case 8:
		// sparse: one or two bits
		x := pow2(uint(r.Intn(256)))
		if r.Bool() {
			x.SetBit(x, r.Intn(256), 1)
		}
		return x
	default:
		// dense: all ones with one or two holes, or a run of ones
		x := new(big.Int).Sub(pow2(uint(r.Range(1, 256))), big.NewInt(1))
		return x.SetBit(x, r.Intn(256), 0)
	}
}

// smallOff: offsets/sizes that memory can afford, for the memory-touching ops.
func smallOff(r *fw.Rand) *big.Int {
	switch r.Intn(8) {
	case 0:
		return big.NewInt(0)
	case 1:
		return big.NewInt(int64(r.Range(1, 33)))
	case 2:
		return big.NewInt(int64(r.Range(30, 70)))
	case 3:
		return big.NewInt(int64(32 * r.Range(1, 40)))
	case 4:
		return big.NewInt(int64(r.Range(0, 70000)))
	default:
		return big.NewInt(int64(r.Range(0, 2000)))
	}
}

func runRandom(c *fw.Ctx) {
	specs := mainSpecs()
	L := lattice()
	per := c.Pick(60, 10000) // tuples per opcode per batch
	all := append(append(append(append([]byte{}, binaryOps...), unaryOps...), twoArgOps...), ternaryOps...)
	n := 0
	for _, op := range all {
		info := refevm.Table[op]
		mem := op == opMLOAD || op == opMSTORE || op == opMSTORE8 || op == opSHA3 || op == opRETURN || op == opREVERT ||
			op == opCALLDATACOPY || op == opCODECOPY || op == opRETURNDATACOPY || op == opCALLDATALOAD
		for i := 0; i < per; i++ {
			r := c.Rand("random", refevm.Name(op), fmt.Sprint(i))
			sp := specs[0]
			if i%4 == 3 {
				sp = specs[r.Intn(len(specs))]
			}
			args := make([]*big.Int, info.Pops)
			for j := range args {
				if mem && r.Chance(4, 5) && !(op == opMSTORE && j == 1) && !(op == opMSTORE8 && j == 1) {
					args[j] = smallOff(r)
				} else {
					args[j] = randWord(r, L)
				}
			}
			var code []byte
			gas := uint64(1000000)
			switch op {
			case opJUMP:
				code, gas = jumpProgram(op, args[0], big.NewInt(0)), 3000
			case opJUMPI:
				code, gas = jumpProgram(op, args[0], args[1]), 3000
			default:
				code = singleOp(op, args)
			}
			data := r.Bytes(r.Intn(100))
			n++
			id := fmt.Sprintf("rnd-%s-%s-%d", sp.Name, refevm.Name(op), i)
			st := runCase(c, id, sp, code, data, gas, i%8 == 0)
			if c.Batch == 0 && i == 7 && op == opSMOD {
				c.Sample(map[string]interface{}{"case": id, "spec": sp.Name, "op": refevm.Name(op), "operands_top_first": fmtArgs(args),
					"steps_compared": st.steps, "halt": st.state.String(), "gas_left": st.gasLeft})
			}
		}
	}
	c.CountN("random_tuples_executed", n)
}

// ---------------------------------------------------------------------------
// opcode validity per height

func runValidity(c *fw.Ctx) {
	specs := heightSpecs()
	for si, sp := range specs {
		if si%c.NBatch != c.Batch {
			continue
		}
		for b := 0; b < 256; b++ {
			op := byte(b)
			want := refevm.Valid(op, sp.Ref.Feat)
			// form 1: the bare byte on an empty stack; form 2: seven zero words
			// below it so that every instruction has its operands
			for form := 0; form < 2; form++ {
				var a asm
				if form == 1 {
					for i := 0; i < 7; i++ {
						a.pushInt(0)
					}
				}
				a.op(op)
				id := fmt.Sprintf("val-%s-%02x-%d", sp.Name, b, form)
				in := caseInput{Spec: sp.Name, Num: sp.Num, Code: fmt.Sprintf("%x", a.b), Gas: 100000}
				c.Case(id, in, func() {
					got := realValidity(c, sp, a.b)
					c.Count("validity_checked")
					if want {
						c.Count("validity_valid_seen")
					} else {
						c.Count("validity_invalid_seen")
					}
					if got != want {
						cause := "real_valid_spec_invalid_in_" + epochName(sp.Ref.Feat)
						if want {
							cause = "real_invalid_spec_valid_in_" + epochName(sp.Ref.Feat)
						}
						c.Violate("opcode_validity_mismatch", refevm.Name(op), cause,
							fmt.Sprintf("byte 0x%02x at %s (height %d): interpreter treats it as valid=%v, the fork schedule (%s set) says valid=%v", b, sp.Name, sp.Num, got, epochName(sp.Ref.Feat), want))
					}
					c.Nontrivial(fmt.Sprintf("val|%s|%d|%d", sp.Name, b, form))
				})
				// and the same program in full lock-step (stack arity, gas, result)
				runCase(c, id+"-ls", sp, a.b, nil, 100000, false)
			}
		}
		if c.Batch == 0 && si == 6 {
			n := 0
			for b := 0; b < 256; b++ {
				if refevm.Valid(byte(b), sp.Ref.Feat) {
					n++
				}
			}
			c.Sample(map[string]interface{}{"spec": sp.Name, "height": sp.Num, "epoch": epochName(sp.Ref.Feat), "exp_byte_gas": sp.Ref.ExpByte, "valid_opcodes": n, "bytes_checked": 256})
		}
	}
}
