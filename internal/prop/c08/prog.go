package c08

import (
	"fmt"
	"math/big"

	"verif/internal/fw"
	"verif/internal/ref/refevm"
)

// ---------------------------------------------------------------------------
// random structured programs

type pgen struct {
	r       *fw.Rand
	L       []*big.Int
	feat    refevm.Features
	a       asm
	depth   int
	labels  []int // code position of each block's JUMPDEST
	patches [][2]int
	nblocks int
}

func (g *pgen) pushVal() {
	r := g.r
	var x *big.Int
	switch r.Intn(4) {
	case 0:
		x = g.L[r.Intn(len(g.L))]
	case 1:
		x = big.NewInt(int64(r.Intn(70)))
	default:
		x = randWord(r, g.L)
	}
	min := len(x.Bytes())
	if min == 0 {
		min = 1
	}
	if r.Chance(1, 4) {
		g.a.pushN(r.Range(min, 32), x) // wider than necessary
	} else {
		g.a.push(x)
	}
	g.depth++
}

func (g *pgen) pushSmall() {
	g.a.push(smallOff(g.r))
	g.depth++
}

// need makes sure n items are on the (tracked) stack, except in 1 of 25 cases.
func (g *pgen) need(n int) {
	if g.r.Chance(1, 25) {
		return
	}
	for g.depth < n {
		g.pushVal()
	}
}

func (g *pgen) emit(op byte) {
	info := refevm.Table[op]
	g.a.op(op)
	if op >= 0x80 && op <= 0x8f {
		g.depth++
		return
	}
	if op >= 0x90 && op <= 0x9f {
		return
	}
	g.depth += info.Pushes - info.Pops
	if g.depth < 0 {
		g.depth = 0
	}
}

func (g *pgen) jumpTo() {
	// PUSH2 <label>, patched after layout
	l := g.r.Intn(g.nblocks)
	g.a.op(opPUSH2, 0, 0)
	g.patches = append(g.patches, [2]int{len(g.a.b) - 2, l})
	g.depth++
}

func (g *pgen) instr() {
	r := g.r
	allowed := func(op byte) bool { return refevm.Valid(op, g.feat) || r.Chance(1, 12) }
	switch x := r.Intn(100); {
	case x < 22:
		g.pushVal()
	case x < 44:
		op := binaryOps[r.Intn(len(binaryOps))]
		if !allowed(op) {
			return
		}
		g.need(2)
		if (op == opBYTE || op == opSIGNEXTEND || op == opSHL || op == opSHR || op == opSAR) && r.Chance(2, 3) {
			g.a.pushInt(int64(r.Intn(40) * r.Range(1, 8)))
			g.depth++
		}
		g.emit(op)
	case x < 49:
		g.need(1)
		g.emit([]byte{opISZERO, opNOT}[r.Intn(2)])
	case x < 53:
		g.need(3)
		g.emit([]byte{opADDMOD, opMULMOD}[r.Intn(2)])
	case x < 60:
		n := r.Range(1, 16)
		if g.depth >= 1 && r.Chance(9, 10) {
			n = r.Range(1, minInt(16, g.depth))
		}
		g.emit(byte(0x7f + n))
	case x < 65:
		n := r.Range(1, 16)
		if g.depth >= 2 && r.Chance(9, 10) {
			n = r.Range(1, minInt(16, g.depth-1))
		}
		g.emit(byte(0x8f + n))
	case x < 69:
		g.need(1)
		g.emit(opPOP)
	case x < 80:
		// memory
		op := []byte{opMLOAD, opMSTORE, opMSTORE8, opMSTORE, opMLOAD}[r.Intn(5)]
		explicit := r.Chance(4, 5)
		switch op {
		case opMLOAD:
			if explicit {
				g.pushSmall()
			} else {
				g.need(1)
			}
		default:
			g.need(1)
			if explicit {
				g.pushSmall()
			} else {
				g.need(2)
			}
		}
		g.emit(op)
	case x < 83:
		if r.Chance(4, 5) {
			g.a.push(big.NewInt(int64(r.Intn(200))))
			g.depth++
			g.pushSmall()
		} else {
			g.need(2)
		}
		g.emit(opSHA3)
	case x < 89:
		switch r.Intn(5) {
		case 0:
			if r.Chance(2, 3) {
				g.a.pushInt(int64(r.Intn(120)))
				g.depth++
			} else {
				g.need(1)
			}
			g.emit(opCALLDATALOAD)
		case 1, 2, 3:
			op := []byte{opCALLDATACOPY, opCODECOPY, opRETURNDATACOPY}[r.Intn(3)]
			if op == opRETURNDATACOPY && (!allowed(op) || r.Chance(2, 3)) {
				return
			}
			if r.Chance(4, 5) {
				g.a.pushInt(int64(r.Intn(150))) // size
				g.a.pushInt(int64(r.Intn(150))) // source offset
				g.depth += 2
				g.pushSmall() // memory offset
			} else {
				g.need(3)
			}
			g.emit(op)
		default:
			g.emit([]byte{opCALLDATASIZE, opCODESIZE}[r.Intn(2)])
		}
	case x < 94:
		op := []byte{opPC, opMSIZE, opGAS, opPC, opMSIZE, opRETURNDATASIZE}[r.Intn(6)]
		if !allowed(op) {
			return
		}
		g.emit(op)
	case x < 99:
		// control flow
		switch r.Intn(6) {
		case 0:
			g.jumpTo()
			g.emit(opJUMP)
		case 1, 2, 3:
			// JUMPI on a computed condition
			if r.Chance(1, 2) {
				g.need(1)
			} else {
				g.a.pushInt(int64(r.Intn(2)))
				g.depth++
			}
			g.jumpTo()
			g.emit(opJUMPI)
		case 4:
			// arbitrary destination
			g.pushVal()
			if r.Bool() {
				g.emit(opJUMP)
			} else {
				g.need(2)
				g.emit(opJUMPI)
			}
		default:
			g.emit(opJUMPDEST)
		}
	default:
		// a byte that is not an instruction, or one of another epoch
		if r.Chance(1, 3) {
			g.a.op([]byte{opINVALID, 0x0c, 0x1e, 0x21, 0x46, 0x5c, 0xa5, 0xf5, 0xfb, opREVERT, opSHL}[r.Intn(11)])
		}
	}
}

func nn(x int) int64 {
	if x < 0 {
		return 0
	}
	return int64(x)
}

func minInt(a, b int) int {
	if a < b {
		return a
	}
	return b
}

func genProgram(r *fw.Rand, L []*big.Int, feat refevm.Features) []byte {
	g := &pgen{r: r, L: L, feat: feat, nblocks: r.Range(1, 6)}
	for b := 0; b < g.nblocks; b++ {
		g.labels = append(g.labels, len(g.a.b))
		g.a.op(opJUMPDEST)
		for i, n := 0, r.Range(2, 22); i < n; i++ {
			g.instr()
		}
	}
	// terminator
	switch r.Intn(8) {
	case 0:
		g.emit(opSTOP)
	case 1, 2, 3:
		g.a.pushInt(int64(r.Intn(100)))
		g.pushSmall()
		g.emit(opRETURN)
	case 4:
		g.a.pushInt(int64(r.Intn(100)))
		g.pushSmall()
		g.emit(opREVERT)
	case 5:
		g.a.op(byte(0x60+r.Intn(32)), 0x5b) // a PUSH cut short by the end of the code
	case 6:
		g.emit(opINVALID)
	}
	for _, p := range g.patches {
		pos := g.labels[p[1]]
		g.a.b[p[0]], g.a.b[p[0]+1] = byte(pos>>8), byte(pos)
	}
	return g.a.b
}

func pickGas(r *fw.Rand) uint64 {
	switch r.Intn(10) {
	case 0, 1:
		return uint64(r.Range(0, 200))
	case 2, 3, 4, 5:
		return uint64(r.Range(200, 3000))
	case 6, 7:
		return 21000
	default:
		return 100000
	}
}

// ---------------------------------------------------------------------------
// adversarial templates

type tcase struct {
	name string
	sp   *spec
	code []byte
	data []byte
	gas  uint64
}

func templates(c *fw.Ctx, specs []*spec, L []*big.Int, emit func(tcase)) {
	rep := c.Pick(1, 12)
	anySpec := func(r *fw.Rand) *spec { return specs[r.Intn(len(specs))] }
	modern := specs[0]

	// truncated PUSHn: k of the n immediate bytes are present
	for n := 1; n <= 32; n++ {
		for k := 0; k < n; k++ {
			if (n*31+k)%c.NBatch != c.Batch {
				continue
			}
			r := c.Rand("tpl-trunc", fmt.Sprint(n), fmt.Sprint(k))
			var a asm
			for i, m := 0, r.Intn(3); i < m; i++ {
				a.push(randWord(r, L))
			}
			a.op(byte(0x5f + n))
			a.op(r.Bytes(k)...)
			emit(tcase{"trunc", anySpec(r), a.b, nil, 1000})
		}
	}

	// jump-destination map: JUMPDEST bytes inside and outside PUSH data
	for it := 0; it < 3*rep; it++ {
		r := c.Rand("tpl-jumpmap", fmt.Sprint(it))
		var body asm
		for i, m := 0, r.Intn(8); i < m; i++ {
			body.op(opJUMPDEST)
		}
		for len(body.b) < r.Range(30, 110) {
			switch r.Intn(5) {
			case 0:
				body.op(opJUMPDEST)
			case 1:
				body.op(opPC, opPOP)
			default:
				n := r.Range(1, 32)
				body.op(byte(0x5f + n))
				for j := 0; j < n; j++ {
					if r.Chance(3, 4) {
						body.op(0x5b)
					} else {
						body.op(byte(r.Intn(256)))
					}
				}
			}
		}
		if r.Bool() {
			// the code ends inside a PUSH whose present bytes are JUMPDEST bytes
			n := r.Range(9, 32)
			body.op(byte(0x5f + n))
			for j, m := 0, r.Range(1, n-1); j < m; j++ {
				body.op(0x5b)
			}
		}
		sp := anySpec(r)
		for p := 0; p <= len(body.b)+1; p++ {
			if p < len(body.b) && body.b[p] != 0x5b && !r.Chance(1, 6) {
				continue
			}
			var a asm
			if r.Bool() {
				a.pushN(2, big.NewInt(int64(p+4))).op(opJUMP) // 4-byte prologue
			} else {
				a.op(opPUSH1, byte(r.Range(1, 255)), opPUSH1, byte(p+5), opJUMPI) // 5-byte prologue
			}
			code := append(a.b, body.b...)
			emit(tcase{"jumpmap", sp, code, nil, 2000})
		}
	}

	// stack height 1022..1024 followed by one instruction
	edgeOps := []byte{opPUSH1, opDUP1, 0x8f, opPC, opMSIZE, opGAS, opCALLDATASIZE, opCODESIZE, 0x9f, opADD, opJUMPDEST, opPOP, opCALLDATALOAD, opMLOAD, opSWAP1, opISZERO}
	for it := 0; it < 2*rep; it++ {
		r := c.Rand("tpl-stack", fmt.Sprint(it))
		n := []int{1023, 1024, 1024, 1022}[r.Intn(4)]
		var a asm
		for i := 0; i < n; i++ {
			a.op(opPUSH1, byte(i))
		}
		op := edgeOps[r.Intn(len(edgeOps))]
		a.op(op)
		if op == opPUSH1 {
			a.op(0x77)
		}
		a.op(edgeOps[r.Intn(len(edgeOps))], 0x01)
		emit(tcase{"stackedge", anySpec(r), a.b, []byte{1, 2, 3}, 20000})
	}
	// a loop that pushes until the limit
	{
		r := c.Rand("tpl-stackloop")
		var a asm
		a.op(opJUMPDEST, opPC, opPUSH1, 0, opJUMP)
		emit(tcase{"stackloop", anySpec(r), a.b, nil, 30000})
	}

	// DUPn / SWAPn at the arity edge
	for n := 1; n <= 16; n++ {
		if n%c.NBatch != c.Batch%16 && c.Quick() {
			continue
		}
		for _, kind := range []int{0, 1} { // DUP, SWAP
			req := n
			op := byte(0x7f + n)
			if kind == 1 {
				req, op = n+1, byte(0x8f+n)
			}
			for _, d := range []int{req - 1, req, req + 1} {
				r := c.Rand("tpl-arity", fmt.Sprint(n), fmt.Sprint(kind), fmt.Sprint(d))
				var a asm
				for i := 0; i < d; i++ {
					a.push(randWord(r, L))
				}
				a.op(op, opPC)
				emit(tcase{"arity", anySpec(r), a.b, nil, 5000})
			}
		}
	}

	// zero-size access at an unaffordable offset (no expansion, no charge), and
	// the same with size 1 (out of gas)
	huge := []*big.Int{pow2(64), new(big.Int).Add(pow2(64), big.NewInt(1)), pow2(128), pow2(255), new(big.Int).Sub(pow2(256), big.NewInt(1)), new(big.Int).Sub(pow2(64), big.NewInt(1)), pow2(40)}
	for it := 0; it < 2*rep; it++ {
		for _, op := range []byte{opSHA3, opCALLDATACOPY, opCODECOPY, opRETURN, opREVERT, opRETURNDATACOPY} {
			r := c.Rand("tpl-zerosize", fmt.Sprint(it), fmt.Sprint(op))
			off := huge[r.Intn(len(huge))]
			size := big.NewInt(int64(r.Intn(2)))
			var args []*big.Int
			switch op {
			case opSHA3, opRETURN, opREVERT:
				args = []*big.Int{off, size}
			default:
				src := big.NewInt(0)
				if op != opRETURNDATACOPY && r.Bool() {
					src = huge[r.Intn(len(huge))]
				}
				args = []*big.Int{off, src, size}
			}
			sp := modern
			if r.Chance(1, 3) {
				sp = anySpec(r)
			}
			emit(tcase{"zerosize", sp, singleOp(op, args), callData57(), 100000})
		}
	}
	// RETURNDATACOPY against the empty buffer
	for it := 0; it < 2*rep; it++ {
		r := c.Rand("tpl-retdata", fmt.Sprint(it))
		src := []*big.Int{big.NewInt(0), big.NewInt(1), pow2(64), new(big.Int).Sub(pow2(256), big.NewInt(1)), big.NewInt(0)}[r.Intn(5)]
		size := []*big.Int{big.NewInt(0), big.NewInt(1), big.NewInt(32), new(big.Int).Sub(pow2(256), big.NewInt(1))}[r.Intn(4)]
		emit(tcase{"retdata", []*spec{specs[0], specs[1], specs[2], specs[3], specs[7]}[r.Intn(5)], singleOp(opRETURNDATACOPY, []*big.Int{smallOff(r), src, size}), nil, 100000})
	}

	// MSIZE after byte/word accesses around word boundaries
	for it := 0; it < rep; it++ {
		r := c.Rand("tpl-msize", fmt.Sprint(it))
		var a asm
		for i, m := 0, r.Range(3, 12); i < m; i++ {
			off := int64(32*r.Intn(6) + []int{0, 1, 31, 30, 0, 31}[r.Intn(6)])
			switch r.Intn(3) {
			case 0:
				a.push(randWord(r, L)).pushInt(off).op(opMSTORE8)
			case 1:
				a.pushInt(off).op(opMLOAD)
			default:
				a.push(randWord(r, L)).pushInt(off).op(opMSTORE)
			}
			a.op(opMSIZE)
		}
		a.op(opMSIZE).pushInt(0).op(opRETURN)
		emit(tcase{"msize", anySpec(r), a.b, nil, pickGas(r)})
	}

	// large gas, straight-line arithmetic with GAS and PC as data
	for it := 0; it < rep; it++ {
		r := c.Rand("tpl-biggas", fmt.Sprint(it))
		var a asm
		a.op(opGAS, opPC)
		for i, m := 0, r.Range(5, 30); i < m; i++ {
			switch r.Intn(4) {
			case 0:
				a.op(opGAS)
			case 1:
				a.push(randWord(r, L))
			case 2:
				a.op(opPC)
			default:
				a.op(opDUP1)
			}
			a.op(binaryOps[r.Intn(len(binaryOps))])
		}
		a.pushInt(0).op(opMSTORE).pushInt(32).pushInt(0).op(opRETURN)
		emit(tcase{"biggas", modern, a.b, nil, uint64(1)<<32 - uint64(r.Intn(1000))})
	}

	// jumps to the last byte / one past the end; JUMPI falling off the end
	for it := 0; it < 2*rep; it++ {
		r := c.Rand("tpl-codeend", fmt.Sprint(it))
		var a asm
		delta := r.Range(-1, 1)
		lastIsDest := r.Bool()
		cond := int64(r.Intn(2))
		// layout: PUSH1 cond PUSH1 dest JUMPI <filler> <last>
		filler := r.Range(0, 5)
		end := 5 + filler + 1 // code length
		a.pushN(1, big.NewInt(cond)).pushN(1, big.NewInt(int64(end-1+delta))).op(opJUMPI)
		for i := 0; i < filler; i++ {
			a.op(opPC)
		}
		if lastIsDest {
			a.op(opJUMPDEST)
		} else {
			a.op(opPC)
		}
		emit(tcase{"codeend", anySpec(r), a.b, nil, 1000})
	}

	// EXP with every exponent length, on both gas tables
	for nb := 0; nb <= 32; nb++ {
		if nb%c.NBatch != c.Batch%16 && c.Quick() {
			continue
		}
		for _, sp := range specs {
			r := c.Rand("tpl-exp", fmt.Sprint(nb), sp.Name)
			e := new(big.Int)
			if nb > 0 {
				bs := r.Bytes(nb)
				if bs[0] == 0 {
					bs[0] = byte(r.Range(1, 255))
				}
				e.SetBytes(bs)
			}
			emit(tcase{"exp", sp, singleOp(opEXP, []*big.Int{randWord(r, L), e}), nil, 50000})
		}
	}

	// SHA3 over lengths around the Keccak rate
	for it := 0; it < rep; it++ {
		for _, ln := range []int64{0, 1, 31, 32, 33, 135, 136, 137, 200, 271, 272, 273, 1000} {
			if (int(ln)+it)%c.NBatch != c.Batch%16 && c.Quick() {
				continue
			}
			r := c.Rand("tpl-sha3", fmt.Sprint(it), fmt.Sprint(ln))
			var a asm
			data := r.Bytes(1100)
			a.pushInt(1100).pushInt(0).pushInt(int64(r.Intn(40))).op(opCALLDATACOPY)
			a.pushInt(ln).pushInt(int64(r.Intn(100))).op(opSHA3)
			a.pushInt(0).op(opMSTORE).pushInt(32).pushInt(0).op(opRETURN)
			emit(tcase{"sha3len", anySpec(r), a.b, data, 100000})
		}
	}

	// call data / code reads across the end of the source
	for it := 0; it < 3*rep; it++ {
		r := c.Rand("tpl-dataend", fmt.Sprint(it))
		dl := r.Range(0, 70)
		data := r.Bytes(dl)
		var a asm
		a.pushInt(nn(dl + r.Range(-34, 2))).op(opCALLDATALOAD)
		a.pushInt(int64(r.Range(0, 80))).pushInt(nn(dl + r.Range(-40, 3))).pushInt(int64(r.Intn(70))).op(opCALLDATACOPY)
		a.pushInt(int64(r.Range(0, 80))).pushInt(nn(40 + r.Range(-40, 10))).pushInt(int64(r.Intn(70))).op(opCODECOPY)
		a.op(opCALLDATASIZE, opCODESIZE, opMSIZE).pushInt(0).op(opRETURN)
		emit(tcase{"dataend", anySpec(r), a.b, data, 50000})
	}

	// REVERT with data on every epoch (an invalid opcode before Byzantium)
	for _, sp := range specs {
		r := c.Rand("tpl-revert", sp.Name)
		var a asm
		a.push(randWord(r, L)).pushInt(int64(r.Intn(40))).op(opMSTORE)
		a.pushInt(int64(r.Intn(80))).pushInt(int64(r.Intn(40))).op(opREVERT)
		emit(tcase{"revert", sp, a.b, nil, pickGas(r) + 50})
	}
}

func runProg(c *fw.Ctx) {
	specs := mainSpecs()
	L := lattice()
	n := c.Pick(700, 60000)
	sampled := 0
	for i := 0; i < n; i++ {
		r := c.Rand("prog", fmt.Sprint(i))
		sp := specs[0]
		if i%3 != 0 {
			sp = specs[r.Intn(len(specs))]
		}
		code := genProgram(r, L, sp.Ref.Feat)
		data := r.Bytes(r.Intn(100))
		gas := pickGas(r)
		id := fmt.Sprintf("prog-%d", i)
		st := runCase(c, id, sp, code, data, gas, i%4 == 0)
		if st.steps >= 8 && st.compared {
			c.Count("programs_8_steps_or_more")
		}
		if c.Leg == "prog" && c.Batch == 0 && sampled < 2 && i < 60 && st.steps >= 12 && st.compared && st.state != refevm.Exceptional {
			c.Sample(map[string]interface{}{"case": id, "spec": sp.Name, "height": sp.Num, "code": fmt.Sprintf("%x", truncCode(code)), "code_len": len(code),
				"gas": gas, "steps_compared": st.steps, "halt": st.state.String(), "gas_left": st.gasLeft})
			sampled++
		}
	}
	k := 0
	templates(c, specs, L, func(t tcase) {
		k++
		runCase(c, fmt.Sprintf("tpl-%s-%d", t.name, k), t.sp, t.code, t.data, t.gas, k%2 == 0)
		c.Count("template_" + t.name)
	})
}
