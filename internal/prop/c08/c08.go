// Package c08: EVM instructions compute what the specification defines.
//
// Monitor: every generated program runs on the real interpreter (vm.EVM.Call on
// a real state.StateDB) with a vm.Tracer that drives the independent evaluator
// internal/ref/refevm in lock-step. Before every instruction the tracer
// compares pc, opcode, gas left, gas cost, memory size and content and the whole
// operand stack with what the specification prescribes, at an exceptional halt
// the class of the halt, and at the end return data, leftover gas and halt kind.
// A separate leg decides, for each of the 256 byte values at each height of the
// fork schedule, whether the byte is an instruction exactly when the schedule
// says so.
package c08

import (
	"bytes"
	"encoding/hex"
	"fmt"
	"math/big"
	"os"
	"runtime/debug"
	"runtime/pprof"
	"strings"
	"time"

	"gitlab.com/aquachain/aquachain/aquadb"
	"gitlab.com/aquachain/aquachain/common"
	"gitlab.com/aquachain/aquachain/common/log"
	"gitlab.com/aquachain/aquachain/core/state"
	"gitlab.com/aquachain/aquachain/core/vm"
	"gitlab.com/aquachain/aquachain/params"
	"verif/internal/fw"
	"verif/internal/ref/refevm"
)

func init() {
	fw.Register(&fw.Prop{
		ID:    "C08",
		Title: "EVM instructions compute what the specification defines",
		Level: "exploration",
		Rule: "one case = one program (code, call data, gas, chain config, height) run on vm.EVM.Call in lock-step with the reference evaluator. " +
			"Legs: lattice = every operand tuple over a 27-value boundary lattice {0,1,2,31,32,33,55,56,255,256,257,1023,1024,2^16+-1,2^32+-1,2^63+-1,2^64+-1,2^128,2^255-1,2^255,2^255+1,2^256-2,2^256-1} " +
			"for every covered opcode with operands (pairs for binary ops, triples for ADDMOD/MULMOD/CALLDATACOPY/CODECOPY/RETURNDATACOPY, index sweeps 0..33 for BYTE/SIGNEXTEND and 0..258 for SHL/SHR/SAR), " +
			"'exhaustive' refers to this lattice sub-space only; random = PRNG 256-bit tuples per opcode (mixed bit lengths, near-lattice values); " +
			"prog = PRNG straight-line and branching programs over the covered opcodes plus forced adversarial templates (truncated PUSH, jumps into PUSH data, stack at 1023/1024, DUP/SWAP arity edges, zero-size huge-offset memory ops, exact-gas and gas-1 reruns); " +
			"validity = all 256 byte values x every height class of the fork schedule. A subset of every leg is re-run with exactly the gas the reference says is needed, and with one less. " +
			"A case is non-trivial when at least one covered instruction executed and its effect was compared; distinct = hash of (config, height, code, data, gas).",
		Legs: func(tier string) []fw.Leg {
			// each child is one sequential workload; two Ps leave room for the GC
			env := []string{"GOMAXPROCS=2"}
			// generous watchdog: a child needs 1-2 min of CPU in the thorough tier,
			// but the machine may be shared
			to := 4 * time.Hour
			return []fw.Leg{
				{Name: "lattice", Variant: "plain", Batches: 16, Env: env, Timeout: to},
				{Name: "random", Variant: "plain", Batches: 16, Env: env, Timeout: to},
				{Name: "prog", Variant: "plain", Batches: 16, Env: env, Timeout: to},
				{Name: "validity", Variant: "plain", Batches: 2, Env: env, Timeout: to},
				{Name: "lattice-ip", Variant: "intpool", Batches: 16, Env: env, Timeout: to},
				{Name: "prog-ip", Variant: "intpool", Batches: 16, Env: env, Timeout: to},
			}
		},
		Run: run,
		Gate: func(tier string) map[string]int {
			return map[string]int{
				"steps_compared": 100000, "programs_compared_to_end": 10000, "lattice_tuple_executed": 50000,
				"halt_stop": 100, "halt_return": 1000, "halt_revert": 100,
				"halt_invalid_opcode": 100, "halt_stack_underflow": 100, "halt_stack_overflow": 20,
				"halt_out_of_gas": 100, "halt_bad_jump": 100, "halt_return_data_out_of_bounds": 20,
				"jump_taken": 100, "jumpi_not_taken": 100, "memory_expanded": 1000,
				"zero_size_huge_offset": 50, "truncated_push": 50, "jump_into_push_data": 50,
				"exact_gas_ok": 500, "exact_gas_minus_one_oog": 500,
				"validity_checked": 256 * 10, "validity_invalid_seen": 500, "validity_valid_seen": 500,
				"epoch_frontier": 100, "epoch_homestead": 100, "epoch_byzantium": 100, "epoch_constantinople": 100,
				"exp_byte_gas_10": 100, "exp_byte_gas_50": 100,
				"shift_ge_256": 100, "sar_negative": 100, "sdiv_min_by_minus_one": 1, "intpool_build_programs": 10000,
			}
		},
		Exhaustive: func(tier string, k map[string]int) bool {
			return k["lattice_tuple_space"] > 0 && k["lattice_tuple_executed"] == k["lattice_tuple_space"]
		},
		AnchorFiles: []string{"/core/vm/"},
		Assumptions: []string{
			"reference = internal/ref/refevm: yellow-paper appendix H semantics with math/big mod 2^256, EIP-145 shifts, EIP-140 REVERT, EIP-211 return-data bounds, EIP-160 EXP repricing; x/crypto legacy Keccak-256; self-tested at start-up against the SHL/SHR/SAR/SLT/SGT/BYTE tables of core/vm/instructions_test.go and the memory-fee formula",
			"fork schedule: DELEGATECALL from Homestead; REVERT, RETURNDATASIZE, RETURNDATACOPY, STATICCALL from Byzantium; SHL, SHR, SAR (together with the Byzantium opcodes) from HF5 or Constantinople; EXP byte cost 10 before HF1 and 50 from HF1 on; the reference derives these from the raw config fields, not from the node's accessor methods",
			"all exceptional halts are equivalent for consensus (all gas consumed, no output); when several conditions hold at once the node may report any of them, but it must not report a condition that does not hold",
			"gas supplied to a run is below 2^33, so that a memory expansion the reference prices above the supplied gas is out of gas under both the exact fee and the node's uint64 fee arithmetic (the two differ only above 2^32 words)",
			"the return-data buffer is empty in every program (no calls are made), so RETURNDATACOPY is only exercised against an empty buffer",
		},
	})
}

// ---------------------------------------------------------------------------
// chain configurations / heights

type spec struct {
	Name string
	Cfg  *params.ChainConfig
	Num  uint64
	Ref  refevm.Config
}

func active(b *big.Int, n uint64) bool {
	return b != nil && b.Cmp(new(big.Int).SetUint64(n)) <= 0
}

// refConfigOf derives the instruction set and the EXP byte price the fork
// schedule prescribes at a height, from the raw fields of the config.
func refConfigOf(cfg *params.ChainConfig, n uint64) refevm.Config {
	hf := func(i int) bool { return cfg.HF != nil && active(cfg.HF[i], n) }
	var f refevm.Features
	consta := hf(5) || active(cfg.ConstantinopleBlock, n)
	f.Shifts = consta
	f.Byzantium = consta || active(cfg.ByzantiumBlock, n)
	f.DelegateCall = f.Byzantium || active(cfg.HomesteadBlock, n)
	rc := refevm.Config{Feat: f, ExpByte: 10}
	if hf(1) {
		rc.ExpByte = 50
	}
	return rc
}

func epochName(f refevm.Features) string {
	switch {
	case f.Shifts:
		return "constantinople"
	case f.Byzantium:
		return "byzantium"
	case f.DelegateCall:
		return "homestead"
	}
	return "frontier"
}

func bi(n int64) *big.Int { return big.NewInt(n) }

func mkSpec(name string, cfg *params.ChainConfig, num uint64) *spec {
	return &spec{Name: name, Cfg: cfg, Num: num, Ref: refConfigOf(cfg, num)}
}

var (
	cfgFrontier  = &params.ChainConfig{ChainId: bi(77)}
	cfgHomestead = &params.ChainConfig{ChainId: bi(77), HomesteadBlock: bi(0), EIP150Block: bi(0)}
	cfgByz       = &params.ChainConfig{ChainId: bi(77), HomesteadBlock: bi(0), EIP150Block: bi(0), EIP155Block: bi(0), EIP158Block: bi(0), ByzantiumBlock: bi(0)}
	cfgConst     = &params.ChainConfig{ChainId: bi(77), HomesteadBlock: bi(0), EIP150Block: bi(0), EIP155Block: bi(0), EIP158Block: bi(0), ByzantiumBlock: bi(0), ConstantinopleBlock: bi(0)}
	// a schedule whose forks lie at separate heights, to see the switch happen
	cfgStaged = &params.ChainConfig{ChainId: bi(77), HomesteadBlock: bi(10), EIP150Block: bi(10), EIP155Block: bi(30), EIP158Block: bi(30),
		ByzantiumBlock: bi(30), ConstantinopleBlock: bi(50), HF: params.ForkMap{1: bi(20), 5: bi(40)}}
)

// mainSpecs: one per instruction-set epoch / gas table combination.
func mainSpecs() []*spec {
	return []*spec{
		mkSpec("spring", params.MainnetChainConfig, 40000),      // HF1..7, Byzantium: full set, EXP byte 50
		mkSpec("window", params.MainnetChainConfig, 30000),      // HF1..5 active, Byzantium not yet
		mkSpec("byzantium_hf", params.TestChainConfig, 4),       // Byzantium, HF1..4, no shifts
		mkSpec("byzantium", cfgByz, 9),                          // Byzantium, no HF: EXP byte 10
		mkSpec("homestead_hf1", params.MainnetChainConfig, 5000), // mainnet 3600..22799
		mkSpec("homestead", cfgHomestead, 9),
		mkSpec("frontier", cfgFrontier, 9),
		mkSpec("constantinople", cfgConst, 9), // shifts without any HF: EXP byte 10
	}
}

// heightSpecs: every height class of the schedules, for the validity leg.
func heightSpecs() []*spec {
	var out []*spec
	for _, n := range []uint64{0, 1, 3599, 3600, 22799, 22800, 36049, 36050, 1 << 40} {
		out = append(out, mkSpec(fmt.Sprintf("mainnet@%d", n), params.MainnetChainConfig, n))
	}
	for n := uint64(0); n <= 8; n++ {
		out = append(out, mkSpec(fmt.Sprintf("test@%d", n), params.TestChainConfig, n))
	}
	for _, n := range []uint64{0, 9, 10, 19, 20, 29, 30, 39, 40, 49, 50} {
		out = append(out, mkSpec(fmt.Sprintf("staged@%d", n), cfgStaged, n))
	}
	for _, n := range []uint64{0, 5, 8, 19} {
		out = append(out, mkSpec(fmt.Sprintf("testnet2@%d", n), params.Testnet2ChainConfig, n))
	}
	out = append(out, mkSpec("testnet@24", params.TestnetChainConfig, 24), mkSpec("testnet@4", params.TestnetChainConfig, 4),
		mkSpec("dev@0", params.AllAquahashProtocolChanges, 0))
	out = append(out, mainSpecs()...)
	return out
}

// ---------------------------------------------------------------------------
// running one program on the real interpreter with the lock-step tracer

type caseInput struct {
	Spec string `json:"spec"`
	Num  uint64 `json:"height"`
	Code string `json:"code"`
	Data string `json:"data,omitempty"`
	Gas  uint64 `json:"gas"`
}

var (
	contractAddr = common.HexToAddress("0xc0de00000000000000000000000000000000c0de")
	callerAddr   = common.HexToAddress("0xca11e7000000000000000000000000000000beef")
)

// realErrKind classifies the error of the node's interpreter.
func realErrKind(err error) string {
	if err == nil {
		return "none"
	}
	if err == vm.ErrOutOfGas {
		return "out_of_gas"
	}
	s := err.Error()
	switch {
	case s == "evm: execution reverted":
		return "revert"
	case s == "gas uint64 overflow":
		return "out_of_gas"
	case strings.HasPrefix(s, "invalid opcode"):
		return "invalid_opcode"
	case strings.HasPrefix(s, "stack underflow"):
		return "stack_underflow"
	case strings.HasPrefix(s, "stack limit reached"):
		return "stack_overflow"
	case strings.HasPrefix(s, "invalid jump destination"):
		return "bad_jump"
	case s == "evm: return data out of bounds":
		return "return_data_out_of_bounds"
	}
	return "other"
}

var kindCond = map[string]refevm.Cond{
	"out_of_gas": refevm.CondOOG, "invalid_opcode": refevm.CondInvalid, "stack_underflow": refevm.CondUnderflow,
	"stack_overflow": refevm.CondOverflow, "bad_jump": refevm.CondBadJump, "return_data_out_of_bounds": refevm.CondReturnData,
}

func signClass(x *big.Int) string {
	switch {
	case x.Sign() == 0:
		return "zero"
	case x.BitLen() == 256:
		return "negative"
	}
	return "positive"
}

// causeOf gives a stable operand-class description for a mismatch signature.
func causeOf(op byte, args []*big.Int) string {
	if len(args) == 0 {
		return "no_operands"
	}
	switch op {
	case 0x1b, 0x1c, 0x1d: // shifts: (shift, value)
		sh := "shift_lt_256"
		if args[0].Cmp(big.NewInt(256)) >= 0 {
			sh = "shift_ge_256"
		}
		return "value_" + signClass(args[1]) + "_" + sh
	case 0x1a, 0x0b:
		idx := "index_lt_31"
		switch c := args[0].Cmp(big.NewInt(31)); {
		case c == 0:
			idx = "index_eq_31"
		case c > 0:
			idx = "index_gt_31"
		}
		return idx + "_value_" + signClass(args[1])
	case 0x0a:
		return "base_" + signClass(args[0]) + "_exponent_" + signClass(args[1])
	}
	names := []string{"a", "b", "c"}
	var parts []string
	for i, a := range args {
		if i >= len(names) {
			break
		}
		parts = append(parts, names[i]+"_"+signClass(a))
	}
	return strings.Join(parts, "_")
}

type lockstep struct {
	c    *fw.Ctx
	m    *refevm.Machine
	dead bool // stop comparing: a mismatch was reported or the model was left
	left bool // the run left the model (valid but unmodelled instruction)
	bad  bool // a mismatch was reported

	haveLast bool
	lastOp   byte
	lastArgs []*big.Int
	steps    int
	execd    bool // last CaptureState was an executing step (a fault may follow)
	preHalt  bool // the run ended with an exceptional halt before an instruction
}

func (l *lockstep) report(clause string, op byte, cause, detail string) {
	l.dead, l.bad = true, true
	l.c.Violate(clause, refevm.Name(op), cause, detail)
}

func (l *lockstep) lastCause() (byte, string) {
	if !l.haveLast {
		return 0, "first_instruction"
	}
	return l.lastOp, causeOf(l.lastOp, l.lastArgs)
}

func fmtArgs(a []*big.Int) string {
	var s []string
	for _, x := range a {
		s = append(s, fmt.Sprintf("0x%x", x))
	}
	return "[" + strings.Join(s, ", ") + "]"
}

func fmtTop(st []*big.Int, n int) string {
	if len(st) > n {
		st = st[len(st)-n:]
	}
	var s []string
	for i := len(st) - 1; i >= 0; i-- {
		if st[i] == nil {
			s = append(s, "<nil>")
		} else {
			s = append(s, fmt.Sprintf("0x%x", st[i]))
		}
	}
	return "[" + strings.Join(s, ", ") + "] (top first)"
}

func (l *lockstep) CaptureStart(from common.Address, to common.Address, call bool, input []byte, gas uint64, value *big.Int) error {
	return nil
}

func (l *lockstep) CaptureState(env *vm.EVM, pc uint64, op vm.OpCode, gas, cost uint64, memory *vm.Memory, stack *vm.Stack, contract *vm.Contract, depth int, err error) error {
	if l.dead || depth != 1 {
		return nil
	}
	m := l.m
	args := m.Operands()
	e := m.Begin()
	lop, lcause := l.lastCause()
	if e.Halted {
		l.report("halt_mismatch", lop, "spec_"+m.State.String()+"_real_continues",
			fmt.Sprintf("the specification halts (%v, condition %v) after %s%s at step %d, the interpreter goes on with pc=%d op=0x%02x",
				m.State, m.ExecCond, refevm.Name(lop), fmtArgs(l.lastArgs), l.steps, pc, byte(op)))
		return nil
	}
	if pc != e.PC || byte(op) != e.Op {
		l.report("control_flow_mismatch", lop, lcause,
			fmt.Sprintf("after %s%s: interpreter at pc=%d op=0x%02x, specification at pc=%d op=0x%02x", refevm.Name(lop), fmtArgs(l.lastArgs), pc, byte(op), e.PC, e.Op))
		return nil
	}
	// operand stack as left by the previous instruction
	real := stack.Data()
	if len(real) != len(m.Stack) {
		l.report("result_mismatch", lop, lcause+"_stack_height",
			fmt.Sprintf("after %s%s: stack height %d, specification %d", refevm.Name(lop), fmtArgs(l.lastArgs), len(real), len(m.Stack)))
		return nil
	}
	for i := len(real) - 1; i >= 0; i-- {
		if real[i].Cmp(m.Stack[i]) != 0 {
			clause, cause := "result_mismatch", lcause
			if i < len(real)-17 {
				// no instruction reaches below the 17th item: a live entry was corrupted
				clause, cause = "stack_entry_corrupted", lcause+"_deep_entry"
			}
			l.report(clause, lop, cause,
				fmt.Sprintf("after %s%s (step %d): stack item %d from top is 0x%x, specification 0x%x; interpreter top %s, specification top %s",
					refevm.Name(lop), fmtArgs(l.lastArgs), l.steps, len(real)-1-i, real[i], m.Stack[i], fmtTop(real, 4), fmtTop(m.Stack, 4)))
			return nil
		}
	}
	if gas != e.GasBefore {
		l.report("gas_left_mismatch", lop, lcause,
			fmt.Sprintf("after %s%s: gas left %d, specification %d", refevm.Name(lop), fmtArgs(l.lastArgs), gas, e.GasBefore))
		return nil
	}
	cur := byte(op)
	ccause := causeOf(cur, args)
	if e.Uncovered {
		// a valid instruction outside the model: only validity and stack arity
		// are decided, then the run is no longer followed
		kind := realErrKind(err)
		switch {
		case e.Pre != 0 && err == nil:
			l.report("halt_mismatch", cur, "spec_"+e.Pre.String()+"_real_executes",
				fmt.Sprintf("%s at pc=%d with %d stack items: the specification halts exceptionally (%v), the interpreter executes it", refevm.Name(cur), pc, len(real), e.Pre))
		case e.Pre != 0 && kindCond[kind]&(e.Pre|refevm.CondOOG) == 0:
			l.report("halt_class_mismatch", cur, "spec_"+e.Pre.String()+"_real_"+kind,
				fmt.Sprintf("%s at pc=%d with %d stack items: interpreter reports %q, but the condition that holds is %v", refevm.Name(cur), pc, len(real), err, e.Pre))
		case e.Pre == 0 && (kind == "invalid_opcode" || kind == "stack_underflow" || kind == "stack_overflow"):
			l.report("halt_mismatch", cur, "spec_executes_real_"+kind,
				fmt.Sprintf("%s at pc=%d with %d stack items: interpreter halts with %q, but the instruction is valid and its stack requirements are met", refevm.Name(cur), pc, len(real), err))
		default:
			if err != nil && e.Pre != 0 {
				l.c.Count("halt_" + kind)
			}
		}
		m.Finish()
		l.dead, l.left = true, true
		return nil
	}
	if err != nil {
		// the interpreter halts before executing this instruction
		kind := realErrKind(err)
		if e.Pre == 0 {
			l.report("halt_mismatch", cur, "spec_executes_real_"+kind+"_"+ccause,
				fmt.Sprintf("%s%s at pc=%d with gas %d: interpreter halts with %q, the specification executes it (cost %d)", refevm.Name(cur), fmtArgs(args), pc, gas, err, e.Cost))
			return nil
		}
		if kindCond[kind]&e.Pre == 0 {
			l.report("halt_class_mismatch", cur, "spec_"+e.Pre.String()+"_real_"+kind,
				fmt.Sprintf("%s%s at pc=%d with gas %d: interpreter reports %q, but the conditions that hold are %v", refevm.Name(cur), fmtArgs(args), pc, gas, err, e.Pre))
			return nil
		}
		l.c.Count("halt_" + kind)
		m.Finish()
		l.execd = false
		l.preHalt = true
		return nil
	}
	if e.Pre != 0 {
		l.report("halt_mismatch", cur, "spec_"+e.Pre.String()+"_real_executes_"+ccause,
			fmt.Sprintf("%s%s at pc=%d with gas %d: the specification halts exceptionally (%v), the interpreter executes it (cost %d)", refevm.Name(cur), fmtArgs(args), pc, gas, e.Pre, cost))
		return nil
	}
	if cost != e.Cost {
		if cur == 0x0a {
			ccause += fmt.Sprintf("_expbyte_%d", m.Cfg.ExpByte) // which gas table the schedule selects
		}
		l.report("gas_cost_mismatch", cur, ccause,
			fmt.Sprintf("%s%s at pc=%d: interpreter charges %d, specification %d (memory %d -> %d bytes)", refevm.Name(cur), fmtArgs(args), pc, cost, e.Cost, memory.Len(), e.MemBytes))
		return nil
	}
	md := memory.Data()
	if uint64(len(md)) != e.MemBytes {
		l.report("memory_size_mismatch", cur, ccause,
			fmt.Sprintf("%s%s at pc=%d: memory is %d bytes after expansion, specification %d", refevm.Name(cur), fmtArgs(args), pc, len(md), e.MemBytes))
		return nil
	}
	if !bytes.Equal(md, m.Mem) {
		at := 0
		for at < len(md) && md[at] == m.Mem[at] {
			at++
		}
		l.report("memory_content_mismatch", lop, lcause,
			fmt.Sprintf("after %s%s: memory byte %d is 0x%02x, specification 0x%02x", refevm.Name(lop), fmtArgs(l.lastArgs), at, md[at], m.Mem[at]))
		return nil
	}
	m.Finish()
	l.steps++
	l.execd = true
	l.haveLast, l.lastOp, l.lastArgs = true, cur, args
	l.observe(cur, args)
	return nil
}

var (
	minInt256 = new(big.Int).Lsh(big.NewInt(1), 255)
	maxWord   = new(big.Int).Sub(new(big.Int).Lsh(big.NewInt(1), 256), big.NewInt(1))
)

// observe counts the operand classes the gates ask for.
func (l *lockstep) observe(op byte, a []*big.Int) {
	switch op {
	case 0x1b, 0x1c, 0x1d:
		if a[0].Cmp(big.NewInt(256)) >= 0 {
			l.c.Count("shift_ge_256")
		}
		if op == 0x1d && a[1].BitLen() == 256 {
			l.c.Count("sar_negative")
		}
	case 0x05:
		if a[0].Cmp(minInt256) == 0 && a[1].Cmp(maxWord) == 0 {
			l.c.Count("sdiv_min_by_minus_one")
		}
	case 0x0a:
		if a[1].Sign() != 0 {
			l.c.Count(fmt.Sprintf("exp_byte_gas_%d", l.m.Cfg.ExpByte))
		}
	case 0x56, 0x57:
		if l.m.ExecCond == refevm.CondBadJump && a[0].IsUint64() && a[0].Uint64() < uint64(len(l.m.Code)) && l.m.Code[a[0].Uint64()] == 0x5b {
			l.c.Count("jump_into_push_data")
		}
	}
}

func (l *lockstep) CaptureFault(env *vm.EVM, pc uint64, op vm.OpCode, gas, cost uint64, memory *vm.Memory, stack *vm.Stack, contract *vm.Contract, depth int, err error) error {
	if l.dead || depth != 1 {
		return nil
	}
	kind := realErrKind(err)
	if kind == "revert" {
		return nil // REVERT is reported through the fault hook; not an exceptional halt
	}
	m := l.m
	lop, lcause := l.lastCause()
	if m.ExecCond == 0 {
		l.report("halt_mismatch", lop, "spec_"+m.State.String()+"_real_"+kind+"_"+lcause,
			fmt.Sprintf("%s%s at pc=%d: interpreter fails while executing with %q, the specification does not (state %v)", refevm.Name(lop), fmtArgs(l.lastArgs), pc, err, m.State))
		return nil
	}
	if kindCond[kind]&m.ExecCond == 0 {
		l.report("halt_class_mismatch", lop, "spec_"+m.ExecCond.String()+"_real_"+kind,
			fmt.Sprintf("%s%s at pc=%d: interpreter reports %q, the specification %v", refevm.Name(lop), fmtArgs(l.lastArgs), pc, err, m.ExecCond))
		return nil
	}
	l.c.Count("halt_" + kind)
	return nil
}

func (l *lockstep) CaptureEnd(output []byte, gasUsed uint64, t time.Duration, err error) error {
	return nil
}

type runStats struct {
	steps    int
	state    refevm.Halt
	gasLeft  uint64 // as the specification has it
	bad      bool
	left     bool
	compared bool // compared to the end
}

// The node builds one EVM per transaction; building one per program costs
// more than running the program (two 1024-slot stacks and a copy of the jump
// table). The harness therefore keeps one EVM (and its state) per spec for 64
// consecutive programs; the tracer it was built with forwards to the lock-step
// observer of the current program.
type fwdTracer struct{ t vm.Tracer }

func (f *fwdTracer) CaptureStart(from common.Address, to common.Address, call bool, input []byte, gas uint64, value *big.Int) error {
	return f.t.CaptureStart(from, to, call, input, gas, value)
}
func (f *fwdTracer) CaptureState(env *vm.EVM, pc uint64, op vm.OpCode, gas, cost uint64, memory *vm.Memory, stack *vm.Stack, contract *vm.Contract, depth int, err error) error {
	return f.t.CaptureState(env, pc, op, gas, cost, memory, stack, contract, depth, err)
}
func (f *fwdTracer) CaptureFault(env *vm.EVM, pc uint64, op vm.OpCode, gas, cost uint64, memory *vm.Memory, stack *vm.Stack, contract *vm.Contract, depth int, err error) error {
	return f.t.CaptureFault(env, pc, op, gas, cost, memory, stack, contract, depth, err)
}
func (f *fwdTracer) CaptureEnd(output []byte, gasUsed uint64, t time.Duration, err error) error {
	return f.t.CaptureEnd(output, gasUsed, t, err)
}

type evmCache struct {
	sp  *spec
	db  *state.StateDB
	evm *vm.EVM
	fwd *fwdTracer
	n   int
}

var ec evmCache

func newState() *state.StateDB {
	db, err := state.New(common.Hash{}, state.NewDatabase(aquadb.NewMemDatabase()))
	if err != nil {
		panic(err)
	}
	db.CreateAccount(contractAddr)
	return db
}

func vmContext(sp *spec) vm.Context {
	return vm.Context{
		CanTransfer: func(vm.StateDB, common.Address, *big.Int) bool { return true },
		Transfer:    func(vm.StateDB, common.Address, common.Address, *big.Int) {},
		GetHash:     func(uint64) common.Hash { return common.Hash{} },
		Origin:      callerAddr, GasPrice: big.NewInt(1), Coinbase: common.HexToAddress("0xc01bba5e"),
		GasLimit: 8000000, BlockNumber: new(big.Int).SetUint64(sp.Num), Time: big.NewInt(1500000000), Difficulty: big.NewInt(131072),
	}
}

// evmFor returns the EVM to run the next program of a spec on.
func evmFor(sp *spec, fresh bool) (*vm.EVM, *state.StateDB, *fwdTracer) {
	if fresh || ec.evm == nil || ec.sp != sp || ec.n >= 64 {
		db := newState()
		fwd := &fwdTracer{}
		ec = evmCache{sp: sp, db: db, fwd: fwd, evm: vm.NewEVM(vmContext(sp), db, sp.Cfg, vm.Config{Debug: true, Tracer: fwd})}
	}
	ec.n++
	if fresh {
		ec.n = 64
	}
	return ec.evm, ec.db, ec.fwd
}

// realValidity runs the program without any observer on a fresh state and
// reports whether the interpreter accepted the last byte as an instruction.
func realValidity(c *fw.Ctx, sp *spec, code []byte) bool {
	db := newState()
	db.SetCode(contractAddr, code)
	evm := vm.NewEVM(vmContext(sp), db, sp.Cfg, vm.Config{})
	_, _, err := evm.Call(vm.AccountRef(callerAddr), contractAddr, nil, 100000, new(big.Int))
	return realErrKind(err) != "invalid_opcode"
}

// execute runs one program on the node's interpreter, observed in lock-step.
func execute(c *fw.Ctx, sp *spec, code, data []byte, gas uint64) runStats {
	// programs that may touch the state (validity leg) get an EVM of their own
	evm, db, fwd := evmFor(sp, c.Leg == "validity")
	db.SetCode(contractAddr, code)
	m := refevm.New(sp.Ref, code, data, gas)
	ls := &lockstep{c: c, m: m}
	fwd.t = ls
	ret, left, err := evm.Call(vm.AccountRef(callerAddr), contractAddr, data, gas, new(big.Int))
	st := runStats{steps: ls.steps, state: m.State, bad: ls.bad, left: ls.left}
	c.CountN("steps_compared", ls.steps)
	if ls.dead {
		return st
	}
	kind := realErrKind(err)
	lop, lcause := ls.lastCause()
	// end of run
	var want string
	switch m.State {
	case refevm.Running:
		ls.report("halt_mismatch", lop, "spec_running_real_"+kind+"_"+lcause,
			fmt.Sprintf("interpreter ended (%v) after %s%s, the specification continues at pc=%d", err, refevm.Name(lop), fmtArgs(ls.lastArgs), m.PC))
		st.bad = true
		return st
	case refevm.Stop, refevm.Return:
		want = "none"
	case refevm.Revert:
		want = "revert"
	case refevm.Exceptional:
		want = "exceptional"
	}
	isExc := kind != "none" && kind != "revert"
	if (want == "exceptional") != isExc || (!isExc && want != kind) {
		ls.report("halt_mismatch", lop, "spec_"+m.State.String()+"_real_"+kind+"_"+lcause,
			fmt.Sprintf("end of run: interpreter error %v, specification halt %v (after %s%s)", err, m.State, refevm.Name(lop), fmtArgs(ls.lastArgs)))
		st.bad = true
		return st
	}
	if !bytes.Equal(ret, m.Ret) {
		ls.report("return_data_mismatch", lop, lcause,
			fmt.Sprintf("return data %x, specification %x", trunc(ret), trunc(m.Ret)))
		st.bad = true
		return st
	}
	if left != m.GasLeft() {
		ls.report("leftover_gas_mismatch", lop, lcause+"_halt_"+m.State.String(),
			fmt.Sprintf("leftover gas %d, specification %d (halt %v)", left, m.GasLeft(), m.State))
		st.bad = true
		return st
	}
	st.compared = true
	st.gasLeft = m.GasLeft()
	c.Count("programs_compared_to_end")
	c.Count("halt_" + m.State.String())
	if m.MemGrew {
		c.Count("memory_expanded")
	}
	if m.JumpTaken {
		c.Count("jump_taken")
	}
	if m.JumpiNotTaken {
		c.Count("jumpi_not_taken")
	}
	if m.ZeroSizeHugeOffset {
		c.Count("zero_size_huge_offset")
	}
	if m.TruncatedPush {
		c.Count("truncated_push")
	}
	c.Count("epoch_" + epochName(sp.Ref.Feat))
	return st
}

func trunc(b []byte) []byte {
	if len(b) > 96 {
		return b[:96]
	}
	return b
}

// runCase wraps execute in a logged case and does the evidence bookkeeping.
// boundary: also re-run with exactly the gas used and with one less.
func runCase(c *fw.Ctx, id string, sp *spec, code, data []byte, gas uint64, boundary bool) runStats {
	in := caseInput{Spec: sp.Name, Num: sp.Num, Code: hex.EncodeToString(code), Data: hex.EncodeToString(data), Gas: gas}
	var st runStats
	c.Case(id, in, func() {
		st = execute(c, sp, code, data, gas)
		if st.steps > 0 && !st.bad {
			c.Nontrivial(fmt.Sprintf("%s|%d|%x|%x|%d", sp.Name, sp.Num, code, data, gas))
		}
		if strings.HasSuffix(c.Leg, "-ip") {
			c.Count("intpool_build_programs")
		}
	})
	if boundary && st.compared && (st.state == refevm.Stop || st.state == refevm.Return) && gas > st.gasLeft {
		need := gas - st.gasLeft
		// GAS makes the run depend on the gas supplied; the rerun is still a valid
		// lock-step case of its own, only "need" is then not exact.
		exact := !bytes.Contains(code, []byte{0x5a})
		var s2, s3 runStats
		in.Gas = need
		c.Case(id+"/exact", in, func() { s2 = execute(c, sp, code, data, need) })
		if exact && s2.compared {
			if s2.state == st.state && s2.gasLeft == 0 {
				c.Count("exact_gas_ok")
			} else {
				c.Inconclusive("reference_not_deterministic_in_gas")
			}
		}
		if need > 0 {
			in.Gas = need - 1
			c.Case(id+"/minus1", in, func() { s3 = execute(c, sp, code, data, need-1) })
			if exact && s3.compared {
				if s3.state == refevm.Exceptional {
					c.Count("exact_gas_minus_one_oog")
				} else {
					c.Inconclusive("reference_not_monotone_in_gas")
				}
			}
		}
	}
	return st
}

func run(c *fw.Ctx) {
	log.Root().SetHandler(log.DiscardHandler())
	// thousands of short-lived 8 KiB stacks per second: collect less often
	debug.SetGCPercent(800)
	if pf := os.Getenv("VERIF_C08_PROF"); pf != "" {
		// development aid: CPU profile of one child
		if f, err := os.Create(pf); err == nil {
			pprof.StartCPUProfile(f)
			defer pprof.StopCPUProfile()
		}
	}
	if err := refevm.SelfTest(); err != nil {
		// the model does not reproduce the published vectors: nothing it says
		// may be trusted; dying outside a case makes the driver exit 2
		panic("refevm self-test failed: " + err.Error())
	}
	switch c.Leg {
	case "lattice", "lattice-ip":
		runLattice(c)
	case "random":
		runRandom(c)
	case "prog", "prog-ip":
		runProg(c)
	case "validity":
		runValidity(c)
	}
}
