package c07

import (
	"fmt"
	"math/big"
	"time"

	"gitlab.com/aquachain/aquachain/common"
	"gitlab.com/aquachain/aquachain/core/state"
	"gitlab.com/aquachain/aquachain/core/types"
	"gitlab.com/aquachain/aquachain/core/vm"
)

// ---------------------------------------------------------------------------
// The observer of one execution. Two halves that share a record:
//
//   proxy   a vm.StateDB that forwards every call to the real *state.StateDB and,
//           before every mutation, reads the cell's current value through the real
//           getters ("observed-before"). Nothing is modelled: the undo information
//           is only ever compared with later reads of the real state.
//   tracer  a vm.Tracer that follows frames (depth, gas, memory), knows from the
//           stack top after a CALL*/CREATE whether the callee frame failed, and
//           then asks the proxy whether every cell mutated since the frame was
//           entered reads back its observed-before value.

type cellKind uint8

const (
	cellBalance cellKind = iota
	cellNonce
	cellCode
	cellStorage
	cellSuicided
	cellExist
	cellLogs
)

var cellNames = [...]string{"balance", "nonce", "code", "storage", "selfdestruct_mark", "account_existence", "log"}

type mutation struct {
	kind    cellKind
	addr    common.Address
	key     common.Hash
	prevBig *big.Int
	prevU   uint64
	prevH   common.Hash
	prevB   bool
}

type cellKey struct {
	kind cellKind
	addr common.Address
	key  common.Hash
}

type viol struct{ clause, op, cause, detail string }

type observer struct {
	e    *epoch
	real *state.StateDB

	// proxy side
	mlog        []mutation
	slots       map[common.Address]map[common.Hash]struct{}
	staticDepth int
	snapshots   int
	reverts     int

	// tracer side
	frames   []*frame
	steps    uint64
	stepCap  uint64
	capHit   bool
	watchdog int32
	maxDepth int
	curOp    byte
	gasGiven uint64
	evm      *vm.EVM

	viols  []viol
	vseen  map[string]int
	counts map[string]int
	seen   map[cellKey]struct{}

	cellsChecked int

	// features for the non-triviality rule
	memGrew, sawCall, sawCreate, sawJump bool
	failedFramesChecked               int
	failedFramesWithEffects           int
}

type frame struct {
	gas0         uint64
	lastGasAfter uint64
	haveLast     bool
	lastWasCall  bool
	lastOp       byte
	pending      *pendingCall
	memWords     uint64
}

type pendingCall struct {
	op        byte
	mark      int
	logMark   int
	gasAfter  uint64
	cost      uint64
	withValue bool
	childGas0 uint64
	childSeen bool
	static    bool
	creator   common.Address
	target    common.Address
	atDepth   int
}

func newObserver(e *epoch, real *state.StateDB, gas uint64) *observer {
	o := &observer{e: e, real: real, gasGiven: gas, slots: map[common.Address]map[common.Hash]struct{}{},
		vseen: map[string]int{}, counts: map[string]int{}}
	// every non-halting instruction costs at least 1 gas; a value-bearing call adds a
	// 2300 stipend for >= 9000 paid: steps <= 2*gas. The absolute cap is a watchdog.
	o.stepCap = 40000000
	return o
}

func (o *observer) violate(clause, op, cause, detail string) {
	k := clause + "|" + op + "|" + cause
	o.vseen[k]++
	if o.vseen[k] <= 2 {
		o.viols = append(o.viols, viol{clause, op, cause, detail})
	}
}

func (o *observer) count(k string) { o.counts[k]++ }

func opName(op byte) string {
	s := vm.OpCode(op).String()
	if len(s) > 7 && s[:7] == "Missing" {
		return fmt.Sprintf("op_0x%02x", op)
	}
	return s
}

// ---------------------------------------------------------------------------
// proxy: vm.StateDB

var zeroHash common.Hash

func (o *observer) noteSlot(a common.Address, k common.Hash) {
	m := o.slots[a]
	if m == nil {
		m = map[common.Hash]struct{}{}
		o.slots[a] = m
	}
	m[k] = struct{}{}
}

func (o *observer) recExist(a common.Address) {
	o.mlog = append(o.mlog, mutation{kind: cellExist, addr: a, prevB: o.real.Exist(a)})
}

func (o *observer) inStatic() bool { return o.staticDepth > 0 && o.e.byz }

func (o *observer) staticViolation(mutator string, detail string) {
	o.violate("static_context_changed_state", mutator, opName(o.curOp), detail)
}

func (o *observer) CreateAccount(a common.Address) {
	exists := o.real.Exist(a)
	o.mlog = append(o.mlog, mutation{kind: cellExist, addr: a, prevB: exists})
	nonce, bal, ch := o.real.GetNonce(a), new(big.Int).Set(o.real.GetBalance(a)), o.real.GetCodeHash(a)
	o.mlog = append(o.mlog, mutation{kind: cellNonce, addr: a, prevU: nonce},
		mutation{kind: cellBalance, addr: a, prevBig: bal}, mutation{kind: cellCode, addr: a, prevH: ch},
		mutation{kind: cellSuicided, addr: a, prevB: o.real.HasSuicided(a)})
	wipes := false
	if exists {
		// the slots every contract of the fixed world starts with
		for k := range presetSlots {
			o.noteSlot(a, common.BigToHash(new(big.Int).SetUint64(k)))
		}
	}
	for k := range o.slots[a] {
		v := o.real.GetState(a, k)
		o.mlog = append(o.mlog, mutation{kind: cellStorage, addr: a, key: k, prevH: v})
		if v != zeroHash {
			wipes = true
		}
	}
	if o.staticDepth > 0 {
		if o.e.byz && exists && (nonce != 0 || (ch != zeroHash && ch != emptyCodeHash) || wipes) {
			o.staticViolation("CreateAccount", fmt.Sprintf("account %x (nonce %d) re-created inside a static call", a, nonce))
		} else if !exists {
			o.count("static_empty_account_created")
		}
	}
	o.real.CreateAccount(a)
}

func (o *observer) SubBalance(a common.Address, amt *big.Int) {
	o.recExist(a)
	o.mlog = append(o.mlog, mutation{kind: cellBalance, addr: a, prevBig: new(big.Int).Set(o.real.GetBalance(a))})
	if amt.Sign() != 0 && o.staticDepth > 0 {
		if o.e.byz {
			o.staticViolation("SubBalance", fmt.Sprintf("balance of %x reduced by %v inside a static call", a, amt))
		} else {
			o.count("prebyzantium_static_frame_wrote")
		}
	}
	o.real.SubBalance(a, amt)
}

func (o *observer) AddBalance(a common.Address, amt *big.Int) {
	o.recExist(a)
	o.mlog = append(o.mlog, mutation{kind: cellBalance, addr: a, prevBig: new(big.Int).Set(o.real.GetBalance(a))})
	if amt.Sign() != 0 && o.staticDepth > 0 {
		if o.e.byz {
			o.staticViolation("AddBalance", fmt.Sprintf("balance of %x raised by %v inside a static call", a, amt))
		} else {
			o.count("prebyzantium_static_frame_wrote")
		}
	}
	o.real.AddBalance(a, amt)
}

func (o *observer) GetBalance(a common.Address) *big.Int { return o.real.GetBalance(a) }
func (o *observer) GetNonce(a common.Address) uint64     { return o.real.GetNonce(a) }

func (o *observer) SetNonce(a common.Address, n uint64) {
	o.recExist(a)
	prev := o.real.GetNonce(a)
	o.mlog = append(o.mlog, mutation{kind: cellNonce, addr: a, prevU: prev})
	if prev != n && o.staticDepth > 0 {
		if o.e.byz {
			o.staticViolation("SetNonce", fmt.Sprintf("nonce of %x set %d -> %d inside a static call", a, prev, n))
		} else {
			o.count("prebyzantium_static_frame_wrote")
		}
	}
	o.real.SetNonce(a, n)
}

func (o *observer) GetCodeHash(a common.Address) common.Hash { return o.real.GetCodeHash(a) }
func (o *observer) GetCode(a common.Address) []byte          { return o.real.GetCode(a) }
func (o *observer) GetCodeSize(a common.Address) int         { return o.real.GetCodeSize(a) }

func (o *observer) SetCode(a common.Address, code []byte) {
	o.recExist(a)
	o.mlog = append(o.mlog, mutation{kind: cellCode, addr: a, prevH: o.real.GetCodeHash(a)})
	if o.staticDepth > 0 {
		if o.e.byz {
			o.staticViolation("SetCode", fmt.Sprintf("code of %x set inside a static call", a))
		} else {
			o.count("prebyzantium_static_frame_wrote")
		}
	}
	o.real.SetCode(a, code)
}

func (o *observer) AddRefund(g uint64)  { o.real.AddRefund(g) }
func (o *observer) GetRefund() uint64   { return o.real.GetRefund() }
func (o *observer) GetState(a common.Address, k common.Hash) common.Hash {
	return o.real.GetState(a, k)
}

func (o *observer) SetState(a common.Address, k, v common.Hash) {
	o.recExist(a)
	prev := o.real.GetState(a, k)
	o.noteSlot(a, k)
	o.mlog = append(o.mlog, mutation{kind: cellStorage, addr: a, key: k, prevH: prev})
	if prev != v && o.staticDepth > 0 {
		if o.e.byz {
			o.staticViolation("SetState", fmt.Sprintf("storage of %x slot %x set %x -> %x inside a static call", a, k, prev, v))
		} else {
			o.count("prebyzantium_static_frame_wrote")
		}
	}
	o.real.SetState(a, k, v)
}

func (o *observer) Suicide(a common.Address) bool {
	o.mlog = append(o.mlog, mutation{kind: cellSuicided, addr: a, prevB: o.real.HasSuicided(a)},
		mutation{kind: cellBalance, addr: a, prevBig: new(big.Int).Set(o.real.GetBalance(a))})
	if o.staticDepth > 0 {
		if o.e.byz {
			o.staticViolation("Suicide", fmt.Sprintf("account %x marked self-destructed inside a static call", a))
		} else {
			o.count("prebyzantium_static_frame_wrote")
		}
	}
	return o.real.Suicide(a)
}

func (o *observer) HasSuicided(a common.Address) bool { return o.real.HasSuicided(a) }
func (o *observer) Exist(a common.Address) bool       { return o.real.Exist(a) }
func (o *observer) Empty(a common.Address) bool       { return o.real.Empty(a) }

func (o *observer) RevertToSnapshot(id int) { o.reverts++; o.real.RevertToSnapshot(id) }
func (o *observer) Snapshot() int           { o.snapshots++; return o.real.Snapshot() }

func (o *observer) nLogs() uint64 { return uint64(len(o.real.GetLogs(zeroHash))) }

func (o *observer) AddLog(l *types.Log) {
	o.mlog = append(o.mlog, mutation{kind: cellLogs, prevU: o.nLogs()})
	if o.staticDepth > 0 {
		if o.e.byz {
			o.staticViolation("AddLog", fmt.Sprintf("log with %d topics emitted by %x inside a static call", len(l.Topics), l.Address))
		} else {
			o.count("prebyzantium_static_frame_wrote")
		}
	}
	o.real.AddLog(l)
}

func (o *observer) AddPreimage(h common.Hash, b []byte) { o.real.AddPreimage(h, b) }
func (o *observer) ForEachStorage(a common.Address, f func(common.Hash, common.Hash) bool) {
	o.real.ForEachStorage(a, f)
}

var emptyCodeHash = common.BytesToHash(keccakEmpty())

// checkRestored: every cell mutated since mark must read back the value it had
// when it was first touched after mark. nonceKeeper (CREATE) may keep nonce+1.
// Returns the number of distinct cells the frame had touched.
//
// When everything reads back, the records since mark are dropped: the cells are
// provably where they were at mark, so an enclosing frame that fails later has
// nothing to learn from them (and nested failures stay linear). A kept creator
// nonce stays on record for the enclosing frames.
func (o *observer) checkRestored(mark int, op string, nonceKeeper *common.Address) int {
	if mark >= len(o.mlog) {
		return 0
	}
	if o.seen == nil || len(o.seen) > 4096 {
		o.seen = map[cellKey]struct{}{}
	} else {
		clear(o.seen)
	}
	seen := o.seen
	effects, mismatches := 0, 0
	var kept *mutation
	for i := mark; i < len(o.mlog); i++ {
		m := &o.mlog[i]
		k := cellKey{m.kind, m.addr, m.key}
		if m.kind == cellLogs {
			k = cellKey{kind: cellLogs}
		}
		if _, dup := seen[k]; dup {
			continue
		}
		seen[k] = struct{}{}
		effects++
		bad := ""
		switch m.kind {
		case cellBalance:
			if now := o.real.GetBalance(m.addr); now.Cmp(m.prevBig) != 0 {
				bad = fmt.Sprintf("balance of %x was %v at frame entry, is %v after the frame failed", m.addr, m.prevBig, now)
			}
		case cellNonce:
			now := o.real.GetNonce(m.addr)
			if now != m.prevU {
				if nonceKeeper != nil && *nonceKeeper == m.addr && now == m.prevU+1 {
					cp := *m
					kept = &cp
				} else {
					bad = fmt.Sprintf("nonce of %x was %d at frame entry, is %d after the frame failed", m.addr, m.prevU, now)
				}
			}
		case cellCode:
			if now := o.real.GetCodeHash(m.addr); now != m.prevH {
				bad = fmt.Sprintf("code hash of %x was %x at frame entry, is %x after the frame failed", m.addr, m.prevH, now)
			}
		case cellStorage:
			if now := o.real.GetState(m.addr, m.key); now != m.prevH {
				bad = fmt.Sprintf("storage of %x slot %x was %x at frame entry, is %x after the frame failed", m.addr, m.key, m.prevH, now)
			}
		case cellSuicided:
			if now := o.real.HasSuicided(m.addr); now != m.prevB {
				bad = fmt.Sprintf("self-destruct mark of %x was %v at frame entry, is %v after the frame failed", m.addr, m.prevB, now)
			}
		case cellExist:
			if now := o.real.Exist(m.addr); now != m.prevB {
				bad = fmt.Sprintf("existence of %x was %v at frame entry, is %v after the frame failed", m.addr, m.prevB, now)
			}
		case cellLogs:
			if now := o.nLogs(); now != m.prevU {
				bad = fmt.Sprintf("%d logs at frame entry, %d after the frame failed", m.prevU, now)
			}
		}
		if bad != "" {
			mismatches++
			o.violate("failed_frame_state_not_restored", op, cellNames[m.kind], bad)
		}
	}
	o.cellsChecked += effects
	if mismatches == 0 {
		o.mlog = o.mlog[:mark]
		if kept != nil {
			o.mlog = append(o.mlog, *kept)
		}
	}
	return effects
}

// ---------------------------------------------------------------------------
// tracer: vm.Tracer

func (o *observer) CaptureStart(from, to common.Address, create bool, input []byte, gas uint64, value *big.Int) error {
	return nil
}
func (o *observer) CaptureEnd(output []byte, gasUsed uint64, t time.Duration, err error) error {
	return nil
}

func isCallLike(op byte) bool {
	return op == opCALL || op == opCALLCODE || op == opDELEGATECALL || op == opSTATICCALL || op == opCREATE
}

// memFee: yellow-paper memory cost of w words.
func memFee(w uint64) uint64 { return 3*w + w*w/512 }

func (o *observer) enter(depth int, gas uint64) *frame {
	for len(o.frames) > depth {
		o.frames = o.frames[:len(o.frames)-1]
	}
	for len(o.frames) < depth {
		f := &frame{gas0: gas}
		d := len(o.frames) + 1 // depth of the new frame
		if d == 1 {
			if gas > o.gasGiven {
				o.violate("gas_exceeds_given", "toplevel", "frame_started_with_more_gas_than_given", fmt.Sprintf("first step has %d gas, %d were given", gas, o.gasGiven))
			}
		} else if p := o.frames[d-2].pending; p != nil {
			p.childGas0, p.childSeen = gas, true
			if d > 1025 {
				// depth 1 is the outermost frame (yellow-paper depth 0): 1025 <=> 1024
				o.violate("call_depth_exceeds_1024", opName(p.op), "", fmt.Sprintf("%s entered a frame at call depth %d (outermost = 0)", opName(p.op), d-1))
			}
			// the callee may not be handed more than the caller paid with that
			// instruction (plus the 2300 stipend of a value-bearing call); a creation
			// may not be handed more than the creator had left
			if p.op == opCREATE {
				if gas > p.gasAfter {
					o.violate("gas_exceeds_given", opName(p.op), "callee_started_with_more_gas_than_caller_had", fmt.Sprintf("init code starts with %d gas, creator had %d", gas, p.gasAfter))
				}
			} else {
				lim := p.cost
				if p.withValue {
					lim += 2300
				}
				if gas > lim {
					o.violate("gas_exceeds_given", opName(p.op), "callee_started_with_more_gas_than_caller_paid", fmt.Sprintf("callee starts with %d gas, the call instruction cost %d", gas, p.cost))
				}
			}
		}
		o.frames = append(o.frames, f)
	}
	return o.frames[depth-1]
}

func (o *observer) resolve(f *frame, depth int, gasNow uint64, stack *vm.Stack) {
	p := f.pending
	f.pending = nil
	if p.static {
		o.staticDepth--
	}
	st := stack.Data()
	if len(st) == 0 {
		return // cannot happen: every call-like instruction pushes its result
	}
	failed := st[len(st)-1].Sign() == 0
	name := opName(p.op)
	if p.op == opCREATE {
		// the creator pays the forwarded gas after the instruction cost; whatever comes
		// back can only be part of it
		if gasNow > p.gasAfter {
			o.violate("gas_exceeds_given", name, "gas_rises_across_callee", fmt.Sprintf("creator had %d gas after paying for CREATE, has %d after it returned", p.gasAfter, gasNow))
		}
		if p.childSeen && p.gasAfter-minU(p.gasAfter, p.childGas0) > gasNow {
			o.violate("gas_exceeds_given", name, "callee_used_more_than_given", fmt.Sprintf("creator had %d, init code was given %d, creator has %d afterwards", p.gasAfter, p.childGas0, gasNow))
		}
	} else {
		if gasNow < p.gasAfter {
			o.violate("gas_exceeds_given", name, "callee_used_more_than_given", fmt.Sprintf("caller had %d gas after paying for the call, has %d after it returned", p.gasAfter, gasNow))
		} else {
			ret := gasNow - p.gasAfter
			lim := p.cost
			if p.withValue {
				lim += 2300
			}
			if p.childSeen {
				lim = p.childGas0
			}
			if ret > lim {
				o.violate("gas_exceeds_given", name, "callee_returned_more_than_given", fmt.Sprintf("callee returned %d gas, was given at most %d", ret, lim))
			}
		}
	}
	if gasNow <= f.gas0 && memFee(f.memWords) > f.gas0-gasNow {
		// the forwarded gas has come back: what the frame really consumed must still cover its memory
		o.violate("memory_exceeds_gas_paid", name, "after_callee_returned", fmt.Sprintf("frame holds %d words of memory (fee %d) having consumed only %d gas once %s returned", f.memWords, memFee(f.memWords), f.gas0-gasNow, name))
	}
	if gasNow > f.gas0 {
		o.violate("gas_exceeds_given", name, "frame_gas_above_initial", fmt.Sprintf("frame started with %d gas, has %d after %s returned", f.gas0, gasNow, name))
	}
	// reach counters
	if p.op != opCREATE {
		var pre [20]byte
		copy(pre[:], p.target[:])
		n := pre[19]
		pre[19] = 0
		if pre == ([20]byte{}) && n >= 1 && n <= 8 && (n <= 4 || o.e.byz) {
			o.count(fmt.Sprintf("precompile_%d_called", n))
			if failed {
				o.count("precompile_call_failed")
			}
		}
	}
	if p.atDepth == 1025 && failed && !p.childSeen {
		o.count("call_refused_at_depth_limit")
	}
	if p.static {
		o.count("static_frame_completed")
	}
	if failed {
		var keeper *common.Address
		if p.op == opCREATE {
			keeper = &p.creator
		}
		eff := o.checkRestored(p.mark, name, keeper)
		if o.nLogs() != uint64(p.logMark) {
			o.violate("failed_frame_state_not_restored", name, "log", fmt.Sprintf("%d logs at frame entry, %d after the frame failed", p.logMark, o.nLogs()))
		}
		o.failedFramesChecked++
		o.count("failed_frame_checked_" + name)
		if eff > 0 && p.childSeen {
			o.failedFramesWithEffects++
			o.count("failed_nested_frame_with_prior_effects")
		}
	}
}

func minU(a, b uint64) uint64 {
	if a < b {
		return a
	}
	return b
}

func (o *observer) CaptureState(env *vm.EVM, pc uint64, opc vm.OpCode, gas, cost uint64, memory *vm.Memory, stack *vm.Stack, contract *vm.Contract, depth int, err error) error {
	op := byte(opc)
	o.steps++
	if o.steps > o.stepCap && !o.capHit {
		o.capHit = true
		env.Cancel()
	}
	if o.gasGiven < (1<<62) && o.steps > 2*o.gasGiven+4096 && o.vseen["termination|steps|more_steps_than_gas"] == 0 {
		o.violate("termination", "steps", "more_steps_than_gas", fmt.Sprintf("%d steps executed with %d gas: some steps are free, a loop over them never ends", o.steps, o.gasGiven))
		env.Cancel()
	}
	if depth > o.maxDepth {
		o.maxDepth = depth
	}
	if depth < 1 {
		return nil
	}
	f := o.enter(depth, gas)
	if f.pending != nil {
		o.resolve(f, depth, gas, stack)
	} else if f.haveLast && gas > f.lastGasAfter {
		o.violate("gas_exceeds_given", opName(f.lastOp), "gas_rises_within_frame", fmt.Sprintf("gas was %d after %s, is %d at the next instruction of the same frame", f.lastGasAfter, opName(f.lastOp), gas))
	}
	o.curOp = op
	words := uint64(memory.Len()+31) / 32
	grew := words > f.memWords
	if grew {
		f.memWords = words
		o.memGrew = true
	}
	if err != nil {
		// the instruction did not execute (stack, gas, validity, write protection): the frame ends
		f.haveLast = false
		if grew && gas <= f.gas0 && memFee(words) > f.gas0-gas {
			o.violate("memory_exceeds_gas_paid", opName(op), "", fmt.Sprintf("frame holds %d bytes of memory (fee %d) having consumed only %d gas", memory.Len(), memFee(words), f.gas0-gas))
		}
		if err.Error() == "evm: write protection" {
			o.count("static_write_attempt_blocked")
			o.count("static_write_attempt_blocked_" + opName(op))
		}
		return nil
	}
	if cost > gas {
		// UseGas succeeded, so this cannot be; guard the subtraction
		cost = gas
	}
	after := gas - cost
	if grew && after <= f.gas0 && memFee(words) > f.gas0-after {
		o.violate("memory_exceeds_gas_paid", opName(op), "", fmt.Sprintf("frame holds %d bytes of memory (fee %d) having consumed only %d gas", memory.Len(), memFee(words), f.gas0-after))
	}
	f.lastGasAfter, f.haveLast, f.lastOp, f.lastWasCall = after, true, op, false
	switch op {
	case opJUMP, opJUMPI:
		o.sawJump = true
	}
	if isCallLike(op) {
		st := stack.Data()
		p := &pendingCall{op: op, mark: len(o.mlog), logMark: int(o.nLogs()), gasAfter: after, cost: cost, creator: contract.Address(), atDepth: depth}
		if op == opCREATE {
			o.sawCreate = true
		} else {
			o.sawCall = true
			if len(st) >= 3 {
				p.target = common.BigToAddress(st[len(st)-2])
				if op == opCALL || op == opCALLCODE {
					p.withValue = st[len(st)-3].Sign() != 0
				}
			}
		}
		if op == opSTATICCALL {
			p.static = true
			o.staticDepth++
		}
		f.pending = p
		f.lastWasCall = true
	}
	return nil
}

func (o *observer) CaptureFault(env *vm.EVM, pc uint64, opc vm.OpCode, gas, cost uint64, memory *vm.Memory, stack *vm.Stack, contract *vm.Contract, depth int, err error) error {
	if depth >= 1 && depth <= len(o.frames) {
		o.frames[depth-1].haveLast = false
	}
	return nil
}
