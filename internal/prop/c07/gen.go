package c07

import (
	"encoding/hex"
	"math/big"

	"verif/internal/fw"
	"verif/internal/ref/refhash"
)

func keccakEmpty() []byte { return refhash.Keccak256(nil) }

// spec is one execution: everything needed to rebuild it is in here (the
// library contracts and funded accounts are a fixed function of Epoch).
type spec struct {
	Tmpl       string `json:"tmpl"`
	Epoch      string `json:"epoch"`
	Kind       string `json:"kind"` // call | create | static
	To         string `json:"to,omitempty"`
	Gas        uint64 `json:"gas"`
	Value      string `json:"value"`
	Input      string `json:"input"`
	Code       string `json:"code"` // code of T (call/static) or init code (create)
	Aux        string `json:"aux,omitempty"`
	Block      uint64 `json:"block"`
	Time       uint64 `json:"time"`
	Difficulty string `json:"difficulty"`
	GasLimit   uint64 `json:"gaslimit"`
	Coinbase   string `json:"coinbase"`
	GasPrice   string `json:"gasprice"`
	Preimages  bool   `json:"preimages,omitempty"`
}

func hx(b []byte) string { return hex.EncodeToString(b) }
func unhx(s string) []byte {
	b, _ := hex.DecodeString(s)
	return b
}

const blockGasLimit = 4712388 // params.GenesisGasLimit == TargetGasLimit

var gasLadder = []uint64{0, 1, 2, 20999, 21000, 100000, 1000000, blockGasLimit}

// ---------------------------------------------------------------------------
// operand pickers

type gen struct {
	r  *fw.Rand
	e  *epoch
	p  *prog
	ls *labels
	sd int // simulated stack depth (lower bound is what matters; approximate)
	// pending forward labels
	fwd []int
	u   [][20]byte
}

func newGen(r *fw.Rand, e *epoch) *gen {
	return &gen{r: r, e: e, p: &prog{}, ls: &labels{}, u: universeAddrs(e)}
}

func (g *gen) lat() *big.Int { return lattice[g.r.Intn(len(lattice))] }

func (g *gen) offset() *big.Int {
	switch x := g.r.Intn(100); {
	case x < 55:
		return big.NewInt(int64([]int{0, 0, 1, 31, 32, 33, 64, 96, 128, 1000}[g.r.Intn(10)]))
	case x < 70:
		return big.NewInt(int64(g.r.Intn(4096)))
	case x < 85:
		return big.NewInt(int64(g.r.Intn(300000)))
	default:
		return g.lat()
	}
}

func (g *gen) size() *big.Int {
	switch x := g.r.Intn(100); {
	case x < 10:
		return big.NewInt(0)
	case x < 60:
		return big.NewInt(int64(g.r.Intn(130)))
	case x < 72:
		return big.NewInt(int64(g.r.Intn(5000)))
	case x < 84:
		return big.NewInt(int64(g.r.Intn(200000)))
	default:
		return g.lat()
	}
}

func (g *gen) word() *big.Int {
	switch g.r.Intn(4) {
	case 0:
		return g.lat()
	case 1:
		return new(big.Int).SetBytes(g.r.Bytes(32))
	case 2:
		return big.NewInt(int64(g.r.Intn(256)))
	default:
		return new(big.Int).SetBytes(g.r.Bytes(g.r.Range(1, 32)))
	}
}

func (g *gen) addr() *big.Int {
	switch x := g.r.Intn(100); {
	case x < 88:
		a := g.u[g.r.Intn(len(g.u))]
		return new(big.Int).SetBytes(a[:])
	case x < 94:
		return new(big.Int).SetBytes(g.r.Bytes(20))
	default:
		return g.word() // more than 160 bits: must be truncated by the machine
	}
}

func (g *gen) gasArg() {
	switch x := g.r.Intn(100); {
	case x < 45:
		g.p.op(opGAS)
	case x < 55:
		g.p.push(0)
	case x < 65:
		g.p.push(uint64(g.r.Intn(3000)))
	case x < 85:
		g.p.push(uint64(g.r.Intn(400000)))
	default:
		g.p.pushBig(g.lat())
	}
}

func (g *gen) value() *big.Int {
	switch x := g.r.Intn(100); {
	case x < 60:
		return big.NewInt(0)
	case x < 80:
		return big.NewInt(1)
	case x < 88:
		return big.NewInt(int64(g.r.Intn(2000000)))
	case x < 94:
		return new(big.Int).Set(balCtr)
	default:
		return g.lat()
	}
}

// ---------------------------------------------------------------------------
// statements. Every statement pushes its own operands; `keep` says whether its
// result (if any) stays on the stack.

var binOps = []byte{opADD, opMUL, opSUB, opDIV, opSDIV, opMOD, opSMOD, opEXP, opSIGNEXTEND, opLT, opGT, opSLT, opSGT, opEQ, opAND, opOR, opXOR, opBYTE, opSHL, opSHR, opSAR}

func (g *gen) result(keep bool) {
	if keep && g.sd < 1000 {
		g.sd++
	} else {
		g.p.op(opPOP)
	}
}

func (g *gen) callKinds() []byte {
	if g.e.hasSC {
		return []byte{opCALL, opCALLCODE, opDELEGATECALL, opSTATICCALL}
	}
	return []byte{opCALL, opCALLCODE, opDELEGATECALL, opCALL}
}

func (g *gen) stmtCall(keep bool) {
	kinds := g.callKinds()
	kind := kinds[g.r.Intn(len(kinds))]
	// optional input preparation
	if g.r.Chance(1, 3) {
		g.p.pushBig(g.addr()).push(0).op(opMSTORE)
	}
	g.p.pushBig(g.size()).pushBig(g.offset()).pushBig(g.size()).pushBig(g.offset())
	if kind == opCALL || kind == opCALLCODE {
		g.p.pushBig(g.value())
	}
	g.p.pushBig(g.addr())
	g.gasArg()
	g.p.op(kind)
	g.result(keep)
}

// initBlob returns init code of a random kind.
func (g *gen) initBlob() []byte {
	q, ls := &prog{}, &labels{}
	switch g.r.Intn(10) {
	case 0:
		return append([]byte{}, tinyInit...)
	case 1:
		emitEffects(q)
		q.push(0).push(0).op(opREVERT)
	case 2:
		emitEffects(q)
		q.op(opINVALID)
	case 3:
		emitEffects(q)
		q.push(1).push(0).op(opRETURN)
	case 4: // code too large where the limit exists, too expensive elsewhere
		q.push(24577).push(0).op(opRETURN)
	case 5:
		q.push(uint64(g.r.Range(24000, 24600))).push(0).op(opRETURN)
	case 6:
		l := ls.new()
		q.place(ls, l).pushLabel(ls, l).op(opJUMP)
	case 7:
		return g.r.Bytes(g.r.Range(0, 40))
	case 8:
		return nil
	default:
		return createChain()
	}
	return q.bytes(ls)
}

func (g *gen) stmtCreate(keep bool) {
	blob := g.initBlob()
	off := len(g.p.data)
	g.p.data = append(g.p.data, blob...)
	mem := uint64(g.r.Intn(64))
	g.p.push(uint64(len(blob))).pushDataOff(off).push(mem).op(opCODECOPY)
	sz := big.NewInt(int64(len(blob)))
	mo := new(big.Int).SetUint64(mem)
	if g.r.Chance(1, 8) {
		sz = g.size()
	}
	if g.r.Chance(1, 10) {
		mo = g.offset()
	}
	g.p.pushBig(sz).pushBig(mo).pushBig(g.value()).op(opCREATE)
	g.result(keep)
}

func (g *gen) stmt(neutral bool) {
	keep := !neutral && g.r.Chance(1, 3)
	p := g.p
	x := g.r.Intn(100)
	if neutral && x >= 80 {
		x = g.r.Intn(80) // loop bodies: only statements that leave the stack as they found it
	}
	switch {
	case x < 12: // arithmetic / comparison / bitwise
		op := binOps[g.r.Intn(len(binOps))]
		p.pushBig(g.word()).pushBig(g.word()).op(op)
		g.result(keep)
	case x < 15:
		p.pushBig(g.word()).pushBig(g.word()).pushBig(g.word()).op([]byte{opADDMOD, opMULMOD}[g.r.Intn(2)])
		g.result(keep)
	case x < 17:
		p.pushBig(g.word()).op([]byte{opISZERO, opNOT}[g.r.Intn(2)])
		g.result(keep)
	case x < 21:
		p.pushBig(g.size()).pushBig(g.offset()).op(opSHA3)
		g.result(keep)
	case x < 25: // nullary environment
		p.op([]byte{opADDRESS, opORIGIN, opCALLER, opCALLVALUE, opCALLDATASIZE, opCODESIZE, opGASPRICE, opRETURNDATASIZE, opCOINBASE, opTIMESTAMP, opNUMBER, opDIFFICULTY, opGASLIMIT, opPC, opMSIZE, opGAS}[g.r.Intn(16)])
		g.result(keep)
	case x < 28:
		p.pushBig(g.addr()).op([]byte{opBALANCE, opEXTCODESIZE}[g.r.Intn(2)])
		g.result(keep)
	case x < 30:
		p.pushBig(g.offset()).op([]byte{opCALLDATALOAD, opBLOCKHASH}[g.r.Intn(2)])
		g.result(keep)
	case x < 35: // copies: mem, src, len
		op := []byte{opCALLDATACOPY, opCODECOPY, opRETURNDATACOPY}[g.r.Intn(3)]
		src := g.offset()
		if op == opRETURNDATACOPY && g.r.Chance(2, 3) {
			src = big.NewInt(0)
		}
		p.pushBig(g.size()).pushBig(src).pushBig(g.offset()).op(op)
	case x < 37:
		p.pushBig(g.size()).pushBig(g.offset()).pushBig(g.offset()).pushBig(g.addr()).op(opEXTCODECOPY)
	case x < 42:
		p.pushBig(g.offset()).op(opMLOAD)
		g.result(keep)
	case x < 48:
		p.pushBig(g.word()).pushBig(g.offset()).op([]byte{opMSTORE, opMSTORE8}[g.r.Intn(2)])
	case x < 51:
		p.push(uint64(g.r.Intn(8))).op(opSLOAD)
		g.result(keep)
	case x < 58:
		v := uint64(0)
		if g.r.Bool() {
			v = uint64(g.r.Intn(1000)) + 1
		}
		p.push(v).push(uint64(g.r.Intn(8))).op(opSSTORE)
	case x < 62: // logs
		n := g.r.Intn(5)
		for i := 0; i < n; i++ {
			p.pushBig(g.word())
		}
		p.pushBig(g.size()).pushBig(g.offset()).op(byte(opLOG0 + n))
	case x < 76:
		g.stmtCall(keep)
	case x < 80:
		g.stmtCreate(keep)
	case x < 84: // forward jump over a little dead code
		l := g.ls.new()
		if g.r.Bool() {
			p.pushLabel(g.ls, l).op(opJUMP)
		} else {
			p.pushBig(g.word()).pushLabel(g.ls, l).op(opJUMPI)
		}
		p.raw(g.r.Bytes(g.r.Intn(6)))
		p.place(g.ls, l)
	case x < 87: // bounded loop with a stack-neutral body
		if !neutral {
			n := uint64(g.r.Range(1, 40))
			p.push(n)
			top := g.ls.new()
			p.place(g.ls, top)
			for i, k := 0, g.r.Range(1, 4); i < k; i++ {
				g.stmt(true)
			}
			p.push(1).op(opSWAP1).op(opSUB).op(opDUP1).pushLabel(g.ls, top).op(opJUMPI).op(opPOP)
		}
	case x < 90: // stack shuffling on whatever is there
		if g.sd >= 2 {
			k := g.r.Range(1, minI(g.sd, 16))
			if g.r.Bool() {
				p.op(byte(opDUP1 + k - 1))
				g.sd++
			} else if k < g.sd {
				p.op(byte(opSWAP1 + k - 1))
			}
		} else {
			p.pushBig(g.word())
			g.sd++
		}
	case x < 92: // raw opcode on whatever is on the stack (may underflow)
		p.op(byte(g.r.Intn(256)))
	case x < 94: // a PUSHn with random data
		n := g.r.Range(1, 32)
		p.pushN(n, g.r.Bytes(n))
		g.result(keep)
	case x < 96: // adversarial jump
		switch g.r.Intn(3) {
		case 0:
			p.pushBig(g.lat()).op(opJUMP)
		case 1:
			p.pushBig(g.word()).pushBig(g.lat()).op(opJUMPI)
		default:
			p.push(uint64(g.r.Intn(len(p.b) + 8))).op(opJUMP)
		}
	default: // self-destruct / early terminators are rare inside the body
		if g.r.Chance(1, 4) {
			g.terminator()
		} else {
			p.pushBig(g.word())
			g.result(keep)
		}
	}
}

func minI(a, b int) int {
	if a < b {
		return a
	}
	return b
}

func (g *gen) terminator() {
	p := g.p
	switch x := g.r.Intn(100); {
	case x < 25:
		p.op(opSTOP)
	case x < 45:
		p.pushBig(g.size()).pushBig(g.offset()).op(opRETURN)
	case x < 65:
		p.pushBig(g.size()).pushBig(g.offset()).op(opREVERT)
	case x < 78:
		p.op(opINVALID)
	case x < 90:
		p.pushBig(g.addr()).op(opSELFDESTRUCT)
	case x < 95:
		p.op(opPOP, opPOP, opPOP, opPOP, opPOP, opPOP, opPOP, opPOP, opPOP, opPOP, opPOP, opPOP, opPOP, opPOP, opPOP, opPOP, opPOP) // underflow eventually
	default:
		// fall off the end
	}
}

// structured returns a structured random program of n statements.
func structured(r *fw.Rand, e *epoch, n int) []byte {
	g := newGen(r, e)
	for i := 0; i < n; i++ {
		g.stmt(false)
	}
	g.terminator()
	return g.p.bytes(g.ls)
}

// randomBytes: uniformly random bytes, or random bytes biased to defined opcodes.
func randomBytes(r *fw.Rand, e *epoch) []byte {
	n := r.Range(1, 220)
	b := r.Bytes(n)
	if r.Bool() {
		// bias: replace a share of bytes by PUSH1 x / DUP / common ops so programs live longer
		common := []byte{opPUSH1, opPUSH1, opPUSH2, opDUP1, opDUP1 + 1, opSWAP1, opMSTORE, opMLOAD, opADD, opJUMPDEST, opGAS, opCALLDATALOAD, opCALL, opSSTORE, opSLOAD, opPOP, opCALLDATASIZE, opSHA3, opCODECOPY}
		for i := range b {
			if r.Chance(3, 5) {
				b[i] = common[r.Intn(len(common))]
			}
		}
	}
	return b
}
