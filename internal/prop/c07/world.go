package c07

import (
	"fmt"
	"math/big"

	"gitlab.com/aquachain/aquachain/aquadb"
	"gitlab.com/aquachain/aquachain/common"
	"gitlab.com/aquachain/aquachain/core/state"
	"gitlab.com/aquachain/aquachain/params"
)

// ---------------------------------------------------------------------------
// Epochs: chain configuration + block-number window.

type epoch struct {
	name     string
	chain    *params.ChainConfig
	loBlock  uint64 // block numbers are drawn from [loBlock, hiBlock]
	hiBlock  uint64
	byz      bool // Byzantium rules (static sandbox enforced, REVERT, precompiles 5-8)
	eip158   bool
	eip150   bool // CREATE keeps 1/64
	hasSC    bool // STATICCALL/REVERT/RETURNDATA* opcodes exist
	hasShift bool
}

var epochs = map[string]*epoch{}
var epochNames = []string{"homestead", "mainnet-early", "mainnet-window", "byzantium", "spring"}

func init() {
	z := func() *big.Int { return big.NewInt(0) }
	epochs["homestead"] = &epoch{name: "homestead",
		chain:   &params.ChainConfig{ChainId: big.NewInt(7707), HomesteadBlock: z(), Aquahash: new(params.AquahashConfig)},
		loBlock: 1, hiBlock: 5000000}
	// the real main-network schedule at three heights
	epochs["mainnet-early"] = &epoch{name: "mainnet-early", chain: params.MainnetChainConfig, loBlock: 1, hiBlock: 3599, eip150: true}
	epochs["mainnet-window"] = &epoch{name: "mainnet-window", chain: params.MainnetChainConfig, loBlock: 22800, hiBlock: 36049, eip150: true, hasSC: true, hasShift: true}
	epochs["spring"] = &epoch{name: "spring", chain: params.MainnetChainConfig, loBlock: 36050, hiBlock: 9000000, eip150: true, eip158: true, byz: true, hasSC: true, hasShift: true}
	epochs["byzantium"] = &epoch{name: "byzantium",
		chain: &params.ChainConfig{ChainId: big.NewInt(7708), HomesteadBlock: z(), EIP150Block: z(), EIP155Block: z(), EIP158Block: z(), ByzantiumBlock: z(),
			Aquahash: new(params.AquahashConfig), HF: params.ForkMap{1: z(), 2: z(), 3: z(), 4: z()}},
		loBlock: 1, hiBlock: 5000000, eip150: true, eip158: true, byz: true, hasSC: true}
}

// selfCheckEpochs verifies that the flags above are what the chain configs say
// (a harness self-test: a mismatch is a broken harness, not a finding).
func selfCheckEpochs() error {
	for _, n := range epochNames {
		e := epochs[n]
		for _, b := range []uint64{e.loBlock, e.hiBlock} {
			num := new(big.Int).SetUint64(b)
			if e.chain.IsByzantium(num) != e.byz || e.chain.IsEIP158(num) != e.eip158 || e.chain.IsEIP150(num) != e.eip150 ||
				!e.chain.IsHomestead(num) || e.chain.IsHF(5, num) != e.hasShift || (e.chain.IsHF(5, num) || e.chain.IsByzantium(num)) != e.hasSC {
				return fmt.Errorf("epoch %s block %d: flags do not match chain config", n, b)
			}
		}
	}
	return nil
}

// ---------------------------------------------------------------------------
// Address universe (fixed).

func addrN(hi byte, n byte) (a [20]byte) {
	a[0], a[18], a[19] = 0xc7, hi, n
	return
}

var (
	addrOrigin = addrN(0x01, 0x01) // funded EOA, sender of every top-level message
	addrEOA    = addrN(0x01, 0x02) // funded EOA
	addrEmpty  = addrN(0x01, 0x03) // existing empty account (only where empty accounts can exist: !EIP158)
	addrNonex  = addrN(0x01, 0x04) // never exists in the pre-state
	addrT      = addrN(0x02, 0x01) // main generated program
	addrAux    = addrN(0x02, 0x02) // second generated program
)

// library contract indices
const (
	libOKW = iota // effects, then RETURN
	libREV        // effects, then REVERT (an invalid opcode before Byzantium)
	libINV        // effects, then INVALID
	libOOG        // effects, then spin
	libUFL        // effects, then stack underflow
	libBADJ       // effects, then jump to a non-JUMPDEST
	libSUI        // SELFDESTRUCT(calldata[0:32])
	libECHO       // returns its calldata
	libBIGRET     // RETURN(0, calldata[0:32])
	libRecCALL
	libRecCALLCODE
	libRecDELEGATE
	libRecSTATIC
	libCreateChain
	libW_SSTORE // the writers: each attempts exactly one kind of write, then returns
	libW_LOG0
	libW_LOG4
	libW_CREATE
	libW_SUICIDE
	libW_CALLVALUE
	libW_CALLOKW
	libW_DELEGATEOKW
	libW_CALLCODEVALUE
	libW_CALLCODEOKW
	libCount
)

var libNames = [libCount]string{"okw", "rev", "inv", "oog", "ufl", "badj", "sui", "echo", "bigret", "rec_call", "rec_callcode", "rec_delegate", "rec_static",
	"create_chain", "w_sstore", "w_log0", "w_log4", "w_create", "w_suicide", "w_callvalue", "w_callokw", "w_delegateokw", "w_callcodevalue", "w_callcodeokw"}

func addrLib(i int) [20]byte { return addrN(0x03, byte(i+1)) }

func addrPre(n byte) (a [20]byte) { a[19] = n; return }

// tiny init code: MSTORE8(0,1); RETURN(0,1)  -> runtime code 0x01
var tinyInit = []byte{0x60, 0x01, 0x60, 0x00, 0x53, 0x60, 0x01, 0x60, 0x00, 0xf3}

// emitCreateTiny: CREATE(value, tinyInit) leaving the result on the stack.
func emitCreateTiny(p *prog, value uint64) {
	p.pushN(10, tinyInit).push(0).op(opMSTORE)
	p.push(10).push(22).push(value).op(opCREATE)
}

// emitCall emits a call of the given kind with constant arguments, leaving the flag.
func emitCall(p *prog, kind byte, gas *big.Int, to [20]byte, value uint64, inOff, inSize, outOff, outSize uint64) {
	p.push(outSize).push(outOff).push(inSize).push(inOff)
	if kind == opCALL || kind == opCALLCODE {
		p.push(value)
	}
	p.pushAddr(to)
	if gas == nil {
		p.op(opGAS)
	} else {
		p.pushBig(gas)
	}
	p.op(kind)
}

// emitEffects: one of every kind of state effect, in the current context.
func emitEffects(p *prog) {
	p.push(0).push(1).op(opSSTORE)          // clear a set slot
	p.push(0x1234).push(2).op(opSSTORE)     // set a clear slot
	p.op(opCALLER).push(3).op(opSSTORE)     // overwrite
	p.push(0x77).push(0).op(opMSTORE)       //
	p.push(7).push(32).push(0).op(opLOG1)   // log
	emitCall(p, opCALL, big.NewInt(0), addrEOA, 1, 0, 0, 0, 0) // value to an existing account
	p.op(opPOP)
	emitCall(p, opCALL, big.NewInt(0), addrNonex, 1, 0, 0, 0, 0) // value to a new account
	p.op(opPOP)
	emitCreateTiny(p, 0) // creation (nonce + new account with code)
	p.op(opPOP)
	// make the self-destructor library contract destroy itself towards the EOA
	p.pushAddr(addrEOA).push(0).op(opMSTORE)
	emitCall(p, opCALL, nil, addrLib(libSUI), 0, 0, 32, 0, 0)
	p.op(opPOP)
}

// recursion body: [effect]; forward calldata to itself by <kind>; POP;
// if calldata[0] != 0 then INVALID else STOP.
func recursor(kind byte, self [20]byte, withEffect bool) []byte {
	p, ls := &prog{}, &labels{}
	if withEffect {
		p.op(opGAS).push(9).op(opSSTORE)
	}
	p.op(opCALLDATASIZE).push(0).push(0).op(opCALLDATACOPY)
	p.push(0).push(0).op(opCALLDATASIZE).push(0)
	if kind == opCALL || kind == opCALLCODE {
		p.push(0)
	}
	p.pushAddr(self).op(opGAS).op(kind).op(opPOP)
	ok := ls.new()
	p.push(0).op(opCALLDATALOAD).op(opISZERO).pushLabel(ls, ok).op(opJUMPI).op(opINVALID)
	p.place(ls, ok).op(opSTOP)
	return p.bytes(ls)
}

// createChain: copies its own code to memory and CREATEs it (the init code is
// the same program, so creation recurses); calldata is unavailable in init code,
// so the tail behaviour is fixed: STOP (creates an empty contract).
func createChain() []byte {
	p := &prog{}
	p.op(opCODESIZE).push(0).push(0).op(opCODECOPY)
	p.op(opCODESIZE).push(0).push(0).op(opCREATE).op(opPOP).op(opSTOP)
	return p.bytes(nil)
}

func libCode(i int) []byte {
	p, ls := &prog{}, &labels{}
	switch i {
	case libOKW:
		emitEffects(p)
		p.push(32).push(0).op(opRETURN)
	case libREV:
		emitEffects(p)
		p.push(32).push(0).op(opREVERT)
	case libINV:
		emitEffects(p)
		p.op(opINVALID)
	case libOOG:
		emitEffects(p)
		l := ls.new()
		p.place(ls, l).pushLabel(ls, l).op(opJUMP)
	case libUFL:
		emitEffects(p)
		p.op(opPOP)
	case libBADJ:
		emitEffects(p)
		p.push(1).op(opJUMP)
	case libSUI:
		p.push(0).op(opCALLDATALOAD).op(opSELFDESTRUCT)
	case libECHO:
		p.op(opCALLDATASIZE).push(0).push(0).op(opCALLDATACOPY).op(opCALLDATASIZE).push(0).op(opRETURN)
	case libBIGRET:
		p.push(0).op(opCALLDATALOAD).push(0).op(opRETURN)
	case libRecCALL:
		return recursor(opCALL, addrLib(i), true)
	case libRecCALLCODE:
		return recursor(opCALLCODE, addrLib(i), true)
	case libRecDELEGATE:
		return recursor(opDELEGATECALL, addrLib(i), true)
	case libRecSTATIC:
		return recursor(opSTATICCALL, addrLib(i), false)
	case libCreateChain:
		return createChain()
	case libW_SSTORE:
		p.push(0x55).push(4).op(opSSTORE).op(opSTOP)
	case libW_LOG0:
		p.push(32).push(0).op(opLOG0).op(opSTOP)
	case libW_LOG4:
		p.push(1).push(2).push(3).push(4).push(32).push(0).op(opLOG4).op(opSTOP)
	case libW_CREATE:
		emitCreateTiny(p, 0)
		p.op(opSTOP)
	case libW_SUICIDE:
		p.pushAddr(addrEOA).op(opSELFDESTRUCT)
	case libW_CALLVALUE:
		emitCall(p, opCALL, big.NewInt(0), addrEOA, 1, 0, 0, 0, 0)
		p.op(opSTOP)
	case libW_CALLOKW:
		emitCall(p, opCALL, nil, addrLib(libOKW), 0, 0, 0, 0, 0)
		p.op(opSTOP)
	case libW_DELEGATEOKW:
		emitCall(p, opDELEGATECALL, nil, addrLib(libOKW), 0, 0, 0, 0, 0)
		p.op(opSTOP)
	case libW_CALLCODEVALUE:
		emitCall(p, opCALLCODE, nil, addrLib(libW_SSTORE), 1, 0, 0, 0, 0)
		p.op(opSTOP)
	case libW_CALLCODEOKW:
		emitCall(p, opCALLCODE, nil, addrLib(libOKW), 0, 0, 0, 0, 0)
		p.op(opSTOP)
	}
	return p.bytes(ls)
}

var libCodes = func() (c [libCount][]byte) {
	for i := range c {
		c[i] = libCode(i)
	}
	return
}()

// ---------------------------------------------------------------------------
// Pre-state.

var (
	balRich = new(big.Int).Lsh(big.NewInt(1), 100)
	balCtr  = big.NewInt(1000000)
)

// presetSlots are set (non-zero) in every contract of the universe so that
// clears, overwrites and refunds happen in whatever context code runs.
var presetSlots = map[uint64]uint64{1: 0xaa, 3: 0xbb, 5: 0xcc}

// universeAddrs lists every address the generators hand to programs.
func universeAddrs(e *epoch) [][20]byte {
	u := [][20]byte{addrOrigin, addrEOA, addrEmpty, addrNonex, addrT, addrAux}
	for i := 0; i < libCount; i++ {
		u = append(u, addrLib(i))
	}
	for n := byte(1); n <= 9; n++ {
		u = append(u, addrPre(n))
	}
	u = append(u, [20]byte{}) // the zero address
	return u
}

type baseWorld struct {
	e    *epoch
	db   state.Database
	root common.Hash
}

func newBaseWorld(e *epoch) (*baseWorld, error) {
	db := state.NewDatabase(aquadb.NewMemDatabase())
	s, err := state.New(common.Hash{}, db)
	if err != nil {
		return nil, err
	}
	s.SetBalance(common.Address(addrOrigin), balRich)
	s.SetNonce(common.Address(addrOrigin), 5)
	s.SetBalance(common.Address(addrEOA), balCtr)
	if !e.eip158 {
		s.CreateAccount(common.Address(addrEmpty))
	}
	contracts := [][20]byte{addrT, addrAux}
	for i := 0; i < libCount; i++ {
		contracts = append(contracts, addrLib(i))
	}
	for i, a := range contracts {
		ca := common.Address(a)
		s.SetBalance(ca, balCtr)
		s.SetNonce(ca, 1)
		if i >= 2 {
			s.SetCode(ca, libCodes[i-2])
		}
		for k, v := range presetSlots {
			s.SetState(ca, common.BigToHash(new(big.Int).SetUint64(k)), common.BigToHash(new(big.Int).SetUint64(v)))
		}
	}
	root, err := s.Commit(false)
	if err != nil {
		return nil, err
	}
	return &baseWorld{e: e, db: db, root: root}, nil
}

// open returns a fresh state on top of the base world with the case's programs
// installed, and its root.
func (b *baseWorld) open(codeT, codeAux []byte) (*state.StateDB, common.Hash, error) {
	s, err := state.New(b.root, b.db)
	if err != nil {
		return nil, common.Hash{}, err
	}
	if len(codeT) > 0 {
		s.SetCode(common.Address(addrT), codeT)
	}
	if len(codeAux) > 0 {
		s.SetCode(common.Address(addrAux), codeAux)
	}
	return s, s.IntermediateRoot(false), nil
}
