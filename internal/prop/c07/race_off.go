//go:build !race

package c07

const raceEnabled = false
