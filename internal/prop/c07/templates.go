package c07

import (
	"math/big"

	"verif/internal/fw"
)

// Every template returns a partially filled spec (Tmpl, Kind, Code, Aux, Input,
// Gas, Value, To); finish() adds the block context.

// k is the index of the case among those of the same template and epoch: forced
// sub-classes (which precompile, ...) rotate on it instead of on the PRNG.
type tmplFunc func(r *fw.Rand, e *epoch, k int) *spec

type tmpl struct {
	name  string
	f     tmplFunc
	needs func(e *epoch) bool // nil = every epoch
	cut   bool                // follow up with a second run whose gas is cut somewhere inside the first
}

var templates = []tmpl{
	{name: "structured", f: tStructured, cut: true},
	{name: "random_bytes", f: tRandomBytes},
	{name: "trunc_push", f: tTruncPush},
	{name: "jump_adversarial", f: tJump},
	{name: "mem_lattice", f: tMemLattice},
	{name: "recursion", f: tRecursion},
	{name: "precompile", f: tPrecompile},
	{name: "value_calls", f: tValueCalls, cut: true},
	{name: "selfdestruct", f: tSelfdestruct, cut: true},
	{name: "static_sandbox", f: tStatic, needs: func(e *epoch) bool { return e.hasSC }, cut: true},
	{name: "frame_revert", f: tFrameRevert, cut: true},
	{name: "stack_limits", f: tStack},
	{name: "returndata", f: tReturnData, needs: func(e *epoch) bool { return e.hasSC }},
	{name: "create_toplevel", f: tCreateTop, cut: true},
}

func pickGas(r *fw.Rand, typical uint64) uint64 {
	switch x := r.Intn(100); {
	case x < 50:
		return typical
	case x < 70:
		return gasLadder[r.Intn(len(gasLadder))]
	case x < 80:
		return blockGasLimit
	default:
		if typical == 0 {
			return 0
		}
		return r.Uint64() % (typical + 1)
	}
}

func finish(sp *spec, r *fw.Rand, e *epoch) *spec {
	sp.Epoch = e.name
	sp.Block = e.loBlock + r.Uint64()%(e.hiBlock-e.loBlock+1)
	sp.Time = r.Uint64() % (1 << 33)
	sp.Difficulty = lattice[r.Intn(len(lattice))].String()
	sp.GasLimit = blockGasLimit
	if sp.Gas > sp.GasLimit {
		sp.GasLimit = sp.Gas
	}
	u := universeAddrs(e)
	cb := u[r.Intn(len(u))]
	sp.Coinbase = hx(cb[:])
	if r.Bool() {
		sp.GasPrice = big.NewInt(int64(r.Intn(100))).String()
	} else {
		sp.GasPrice = lattice[r.Intn(len(lattice))].String()
	}
	sp.Preimages = r.Chance(1, 8)
	if sp.Value == "" {
		sp.Value = "0"
	}
	if sp.Kind == "" {
		sp.Kind = "call"
	}
	return sp
}

func word32(v *big.Int) []byte {
	b := new(big.Int).And(v, u256max).Bytes()
	out := make([]byte, 32)
	copy(out[32-len(b):], b)
	return out
}

func randInput(r *fw.Rand) []byte {
	switch r.Intn(4) {
	case 0:
		return nil
	case 1:
		return r.Bytes(r.Range(1, 100))
	case 2:
		var in []byte
		for i, n := 0, r.Range(1, 4); i < n; i++ {
			in = append(in, word32(lattice[r.Intn(len(lattice))])...)
		}
		return in
	default:
		return r.Bytes(r.Range(100, 1200))
	}
}

func topValue(r *fw.Rand) string {
	switch x := r.Intn(100); {
	case x < 70:
		return "0"
	case x < 85:
		return big.NewInt(int64(r.Intn(1000)) + 1).String()
	case x < 93:
		return new(big.Int).Add(balRich, big.NewInt(1)).String() // more than the sender has
	default:
		return balRich.String()
	}
}

func auxProgram(r *fw.Rand, e *epoch) []byte {
	switch r.Intn(4) {
	case 0:
		return randomBytes(r, e)
	case 1:
		return append([]byte{}, libCodes[[]int{libREV, libINV, libUFL, libBADJ, libOKW}[r.Intn(5)]]...)
	default:
		return structured(r, e, r.Range(3, 25))
	}
}

// --- generic ---------------------------------------------------------------

func tStructured(r *fw.Rand, e *epoch, k int) *spec {
	sp := &spec{Code: hx(structured(r, e, r.Range(4, 45))), Aux: hx(auxProgram(r, e)), Input: hx(randInput(r)), Value: topValue(r)}
	sp.Gas = pickGas(r, []uint64{100000, 1000000, 1000000, blockGasLimit}[r.Intn(4)])
	if r.Chance(1, 10) && e.byz {
		sp.Kind = "static"
		sp.Value = "0"
	}
	return sp
}

func tRandomBytes(r *fw.Rand, e *epoch, k int) *spec {
	sp := &spec{Code: hx(randomBytes(r, e)), Aux: hx(randomBytes(r, e)), Input: hx(randInput(r)), Value: topValue(r)}
	sp.Gas = pickGas(r, []uint64{100000, 1000000}[r.Intn(2)])
	if r.Chance(1, 6) {
		sp.Kind = "create"
	}
	return sp
}

// --- truncated PUSH ----------------------------------------------------------

// pushTail is the directed family: PUSH1 3; JUMP; JUMPDEST; <JUMPDEST padding>;
// PUSHn with only `have` of its n operand bytes present, total length `total`.
// The leading in-range jump forces the (lazy) JUMPDEST analysis to walk over the
// truncated tail.
func pushTail(total, n, have int) []byte {
	code := []byte{opPUSH1, 3, opJUMP, opJUMPDEST}
	for len(code)+1+have < total {
		code = append(code, opJUMPDEST)
	}
	code = append(code, byte(opPUSH1+n-1))
	for i := 0; i < have; i++ {
		code = append(code, byte(0x5b))
	}
	return code
}

var pushTailNs = []int{32, 31, 25, 24, 17, 16, 9, 8, 1}

func tTruncPush(r *fw.Rand, e *epoch, k int) *spec {
	if k%2 == 0 {
		// directed sub-class, rotating on the case index: every length residue mod 8,
		// n over the bitmap-word boundaries, no operand byte or all but one
		j := k / 2
		n := pushTailNs[(j/8)%len(pushTailNs)]
		have := []int{0, n - 1}[(j/72)%2]
		total := 8*(1+(j/144+j/8)%8) + j%8 // 8..71, residue j%8
		if total < 5+have {
			total += 8 * ((5 + have - total + 7) / 8)
		}
		return &spec{Code: hx(pushTail(total, n, have)), Input: hx(randInput(r)), Gas: 100000}
	}
	g := newGen(r, e)
	for i, n := 0, r.Intn(4); i < n; i++ {
		g.stmt(false)
	}
	n := r.Range(1, 32)
	have := r.Intn(n) // fewer operand bytes than the instruction wants
	switch r.Intn(3) {
	case 0: // fall into it
	case 1: // jump to the PUSH opcode itself (in range, not a JUMPDEST: must fail cleanly)
		at := len(g.p.b)
		if at+3 < 256 {
			g.p.push(uint64(at + 3)).op(opJUMP)
		} else {
			g.p.pushN(2, []byte{byte((at + 4) >> 8), byte(at + 4)}).op(opJUMP)
		}
	default: // a JUMPDEST right before it
		g.p.op(opJUMPDEST)
	}
	code := g.p.bytes(g.ls)
	code = append(code, byte(opPUSH1+n-1))
	code = append(code, r.Bytes(have)...)
	sp := &spec{Code: hx(code), Input: hx(randInput(r)), Gas: pickGas(r, 100000)}
	if r.Chance(1, 4) {
		sp.Kind = "create"
	}
	return sp
}

// --- jumps -------------------------------------------------------------------

func tJump(r *fw.Rand, e *epoch, k int) *spec {
	p, ls := &prog{}, &labels{}
	good := ls.new()
	switch r.Intn(8) {
	case 0: // into the data of a PUSH32 that contains JUMPDEST bytes
		p.push(uint64(4 + r.Intn(32))).op(opJUMP)
		p.op(opPUSH32).raw(repeat(opJUMPDEST, 32)).op(opSTOP)
	case 1: // to len(code), len(code)-1, len(code)+1
		d := int64(r.Intn(3)) - 1
		p.push(uint64(int64(5) + d)).op(opJUMP).op(opJUMPDEST).op(opSTOP)
		// code is: PUSH1 x JUMP JUMPDEST STOP = 5 bytes
	case 2: // 2^64 + valid destination, 2^63 + valid, 2^256 - x: must not wrap to a valid one
		base := []*big.Int{pow2(64), pow2(63), pow2(32), pow2(128), pow2(255)}[r.Intn(5)]
		// layout: PUSHn <dest> JUMP JUMPDEST STOP ; the JUMPDEST is at len(push)+1
		bs := new(big.Int).Add(base, big.NewInt(0)).Bytes()
		jd := int64(1 + len(bs) + 1)
		p.pushBig(new(big.Int).Add(base, big.NewInt(jd))).op(opJUMP).op(opJUMPDEST).op(opSTOP)
	case 3: // JUMPI, false condition, absurd destination
		p.push(0).pushBig(lattice[r.Intn(len(lattice))]).op(opJUMPI).op(opSTOP)
	case 4: // JUMPI, true condition, lattice destination
		p.pushBig(lattice[1+r.Intn(len(lattice)-1)]).pushBig(lattice[r.Intn(len(lattice))]).op(opJUMPI).op(opSTOP)
	case 5: // JUMPDEST as the last operand byte of a PUSHn and the byte after it
		n := r.Range(1, 32)
		p.push(uint64(3 + n + r.Intn(2))).op(opJUMP)
		p.op(byte(opPUSH1 + n - 1)).raw(repeat(opJUMPDEST, n)).op(opJUMPDEST).op(opSTOP)
	case 6: // a legitimate jump, then a computed one from calldata
		p.pushLabel(ls, good).op(opJUMP).raw(r.Bytes(r.Intn(8)))
		p.place(ls, good)
		p.push(0).op(opCALLDATALOAD).op(opJUMP).op(opJUMPDEST).op(opSTOP)
	default: // jump table walk: destinations from PC arithmetic
		p.op(opPC).pushBig(lattice[r.Intn(len(lattice))]).op(opADD).op(opJUMP).op(opJUMPDEST).op(opSTOP)
	}
	sp := &spec{Code: hx(p.bytes(ls)), Input: hx(randInput(r)), Gas: pickGas(r, 50000)}
	return sp
}

func repeat(b byte, n int) []byte {
	out := make([]byte, n)
	for i := range out {
		out[i] = b
	}
	return out
}

// --- memory operands from the boundary lattice -------------------------------

func tMemLattice(r *fw.Rand, e *epoch, k int) *spec {
	g := newGen(r, e)
	p := g.p
	for i, n := 0, r.Intn(3); i < n; i++ {
		g.stmt(false)
	}
	lat := func() *big.Int {
		if r.Chance(1, 4) {
			return big.NewInt(int64(r.Intn(100000)))
		}
		return lattice[r.Intn(len(lattice))]
	}
	switch r.Intn(14) {
	case 0:
		p.pushBig(lat()).op(opMLOAD).op(opPOP)
	case 1:
		p.pushBig(g.word()).pushBig(lat()).op(opMSTORE)
	case 2:
		p.pushBig(g.word()).pushBig(lat()).op(opMSTORE8)
	case 3:
		p.pushBig(lat()).pushBig(lat()).op(opSHA3).op(opPOP)
	case 4:
		p.pushBig(lat()).pushBig(lat()).pushBig(lat()).op(opCALLDATACOPY)
	case 5:
		p.pushBig(lat()).pushBig(lat()).pushBig(lat()).op(opCODECOPY)
	case 6:
		p.pushBig(lat()).pushBig(lat()).pushBig(lat()).pushBig(g.addr()).op(opEXTCODECOPY)
	case 7:
		if e.hasSC {
			emitCall(p, opCALL, nil, addrLib(libECHO), 0, 0, 64, 0, 0)
			p.op(opPOP)
		}
		p.pushBig(lat()).pushBig(lat()).pushBig(lat()).op(opRETURNDATACOPY)
	case 8:
		n := r.Intn(5)
		for i := 0; i < n; i++ {
			p.pushBig(g.word())
		}
		p.pushBig(lat()).pushBig(lat()).op(byte(opLOG0 + n))
	case 9:
		p.pushBig(lat()).pushBig(lat()).op(opRETURN)
	case 10:
		p.pushBig(lat()).pushBig(lat()).op(opREVERT)
	case 11:
		p.pushBig(lat()).pushBig(lat()).pushBig(g.value()).op(opCREATE).op(opPOP)
	default:
		kinds := g.callKinds()
		kind := kinds[r.Intn(len(kinds))]
		p.pushBig(lat()).pushBig(lat()).pushBig(lat()).pushBig(lat())
		if kind == opCALL || kind == opCALLCODE {
			p.pushBig(g.value())
		}
		p.pushBig(g.addr())
		g.gasArg()
		p.op(kind).op(opPOP)
	}
	for i, n := 0, r.Intn(3); i < n; i++ {
		g.stmt(false)
	}
	g.terminator()
	sp := &spec{Code: hx(p.bytes(g.ls)), Aux: hx(auxProgram(r, e)), Input: hx(randInput(r)), Gas: pickGas(r, []uint64{100000, blockGasLimit, 30000000}[r.Intn(3)])}
	return sp
}

// --- recursion to the depth limit --------------------------------------------

func tRecursion(r *fw.Rand, e *epoch, k int) *spec {
	p := &prog{}
	flag := uint64(r.Intn(2)) // 1: every level fails after its callee returned
	var tgt int
	switch x := r.Intn(5); {
	case x == 0:
		tgt = libRecCALL
	case x == 1:
		tgt = libRecCALLCODE
	case x == 2:
		tgt = libRecDELEGATE
	case x == 3 && e.hasSC:
		tgt = libRecSTATIC
	case x == 3:
		tgt = libRecCALL
	default:
		tgt = libCreateChain
	}
	sp := &spec{Tmpl: "recursion"}
	if tgt == libCreateChain && r.Chance(1, 3) {
		sp.Kind = "create"
		sp.Code = hx(createChain())
	} else {
		p.push(flag).push(0).op(opMSTORE)
		kinds := []byte{opCALL, opCALL, opCALLCODE, opDELEGATECALL}
		if e.hasSC && tgt == libRecSTATIC {
			kinds = append(kinds, opSTATICCALL)
		}
		emitCall(p, kinds[r.Intn(len(kinds))], nil, addrLib(tgt), 0, 0, 32, 0, 0)
		p.op(opPOP)
		if r.Chance(1, 3) {
			p.op(opINVALID)
		} else {
			p.op(opSTOP)
		}
		sp.Code = hx(p.bytes(nil))
	}
	// enough to reach the limit with 1/64 retained per level, or (sometimes) not
	// (1/64 retained per level: with c gas spent per level the limit needs about 64*c*(64/63)^1024 = c * 6.5e8)
	switch r.Intn(4) {
	case 0:
		sp.Gas = 1 << 40
	case 1:
		sp.Gas = uint64(r.Range(100000, 40000000))
	default:
		sp.Gas = 1 << 46
	}
	return sp
}

// --- precompiles -------------------------------------------------------------

var secpN, _ = new(big.Int).SetString("fffffffffffffffffffffffffffffffebaaedce6af48a03bbfd25e8cd0364141", 16)
var secpP, _ = new(big.Int).SetString("fffffffffffffffffffffffffffffffffffffffffffffffffffffffefffffc2f", 16)

func precompileInput(r *fw.Rand, n int) []byte {
	switch n {
	case 1:
		sc := func() *big.Int {
			c := []*big.Int{big.NewInt(0), big.NewInt(1), bigAdd(secpN, -1), secpN, bigAdd(secpN, 1), secpP, bigAdd(secpP, -1), u256max,
				new(big.Int).Rsh(secpN, 1), bigAdd(new(big.Int).Rsh(secpN, 1), 1)}
			if r.Bool() {
				return new(big.Int).SetBytes(r.Bytes(32))
			}
			return c[r.Intn(len(c))]
		}
		v := []*big.Int{big.NewInt(27), big.NewInt(28), big.NewInt(0), big.NewInt(1), big.NewInt(26), big.NewInt(29), big.NewInt(255), big.NewInt(256 + 27), bigAdd(pow2(255), 27), u256max}[r.Intn(10)]
		if r.Chance(1, 2) {
			v = big.NewInt(int64(27 + r.Intn(2)))
		}
		in := append(append(append(r.Bytes(32), word32(v)...), word32(sc())...), word32(sc())...)
		switch r.Intn(6) {
		case 0:
			return in[:r.Intn(len(in))]
		case 1:
			return append(in, r.Bytes(r.Range(1, 70))...)
		}
		return in
	case 5:
		lens := []*big.Int{big.NewInt(0), big.NewInt(1), big.NewInt(2), big.NewInt(31), big.NewInt(32), big.NewInt(33), big.NewInt(64), big.NewInt(65), big.NewInt(96), big.NewInt(1024), big.NewInt(1025),
			big.NewInt(100000), pow2(32), bigAdd(pow2(64), -1), pow2(64), bigAdd(pow2(64), 1), pow2(128), u256max}
		pl := func() *big.Int {
			if r.Chance(3, 5) {
				return lens[r.Intn(11)] // affordable
			}
			return lens[r.Intn(len(lens))]
		}
		in := append(append(word32(pl()), word32(pl())...), word32(pl())...)
		switch r.Intn(5) {
		case 0:
			return in[:r.Intn(len(in)+1)]
		case 1:
			return in
		default:
			return append(in, r.Bytes(r.Range(0, 300))...)
		}
	case 8:
		k := r.Intn(4)
		if r.Chance(1, 3) {
			return r.Bytes(192*k + r.Intn(191))
		}
		return r.Bytes(192 * k)
	default:
		switch r.Intn(4) {
		case 0:
			return nil
		case 1:
			return r.Bytes(r.Range(1, 200))
		case 2:
			return r.Bytes(128)
		default:
			return r.Bytes(r.Range(200, 3000))
		}
	}
}

func tPrecompile(r *fw.Rand, e *epoch, k int) *spec {
	// which precompile is forced by the rotation (9 = the first address that is none)
	n := []int{1, 2, 3, 4, 1, 2, 3, 4, 9, 5}[k%10]
	if e.byz {
		n = []int{5, 6, 7, 8, 1, 5, 6, 7, 8, 2, 5, 6, 7, 8, 3, 4, 9}[k%17]
	}
	in := precompileInput(r, n)
	sp := &spec{Input: hx(in), Value: topValue(r)}
	if r.Chance(1, 5) {
		// the message goes straight to the precompile
		a := addrPre(byte(n))
		sp.To = hx(a[:])
		sp.Gas = pickGas(r, []uint64{3000, 100000, blockGasLimit}[r.Intn(3)])
		return sp
	}
	g := newGen(r, e)
	p := g.p
	p.op(opCALLDATASIZE).push(0).push(0).op(opCALLDATACOPY)
	kinds := g.callKinds()
	kind := kinds[r.Intn(len(kinds))]
	// out region, in region
	p.pushBig([]*big.Int{big.NewInt(0), big.NewInt(32), big.NewInt(64), g.size()}[r.Intn(4)]).pushBig(big.NewInt(int64(r.Intn(200))))
	if r.Chance(1, 6) {
		p.pushBig(g.size())
	} else {
		p.op(opCALLDATASIZE)
	}
	p.push(0)
	if kind == opCALL || kind == opCALLCODE {
		p.pushBig(g.value())
	}
	p.pushAddr(addrPre(byte(n)))
	switch r.Intn(4) {
	case 0:
		p.op(opGAS)
	case 1:
		p.push([]uint64{0, 14, 15, 59, 60, 71, 72, 599, 600, 2999, 3000, 39999, 40000, 99999, 100000, 179999, 180000}[r.Intn(17)])
	case 2:
		p.push(uint64(r.Intn(200000)))
	default:
		p.pushBig(lattice[r.Intn(len(lattice))])
	}
	p.op(kind)
	if e.hasSC {
		p.op(opRETURNDATASIZE).push(0).push(0).op(opRETURNDATACOPY)
	}
	p.push(0).op(opMSTORE)
	if r.Chance(1, 4) {
		p.op(opINVALID)
	} else {
		p.push(32).push(0).op(opRETURN)
	}
	sp.Code = hx(p.bytes(nil))
	sp.Gas = pickGas(r, []uint64{100000, 1000000, blockGasLimit}[r.Intn(3)])
	return sp
}

// --- value-bearing calls -------------------------------------------------------

func tValueCalls(r *fw.Rand, e *epoch, k int) *spec {
	g := newGen(r, e)
	p := g.p
	if r.Bool() {
		emitEffects(p)
	}
	tgts := [][20]byte{addrEOA, addrNonex, addrEmpty, addrPre(1), addrPre(3), addrPre(9), addrT, addrAux, addrLib(libOKW), addrLib(libINV), addrLib(libREV), addrOrigin, {}}
	vals := []*big.Int{big.NewInt(1), balCtr, bigAdd(balCtr, 1), bigAdd(balCtr, -1), u256max, pow2(255), big.NewInt(0)}
	for i, n := 0, r.Range(1, 4); i < n; i++ {
		kind := []byte{opCALL, opCALL, opCALLCODE}[r.Intn(3)]
		p.push(0).push(0).push(0).push(0).pushBig(vals[r.Intn(len(vals))]).pushAddr(tgts[r.Intn(len(tgts))])
		if r.Bool() {
			p.op(opGAS)
		} else {
			p.push(uint64(r.Intn(50000)))
		}
		p.op(kind).op(opPOP)
	}
	g.terminator()
	sp := &spec{Code: hx(p.bytes(g.ls)), Aux: hx(auxProgram(r, e)), Input: hx(randInput(r)), Value: topValue(r), Gas: pickGas(r, 1000000)}
	if r.Chance(1, 8) && e.byz {
		sp.Kind, sp.Value = "static", "0"
	}
	return sp
}

// --- SELFDESTRUCT ----------------------------------------------------------------

func tSelfdestruct(r *fw.Rand, e *epoch, k int) *spec {
	ben := [][20]byte{addrT, addrAux, addrNonex, addrEOA, addrEmpty, addrPre(1), addrPre(2), addrPre(3), addrPre(4), addrOrigin, {}, addrLib(libOKW)}
	pick := func() [20]byte { return ben[r.Intn(len(ben))] }
	aux := &prog{}
	if r.Bool() {
		emitEffects(aux)
	}
	aux.pushAddr(pick()).op(opSELFDESTRUCT)
	p := &prog{}
	if r.Bool() {
		emitEffects(p)
	}
	kinds := []byte{opCALL, opCALLCODE, opDELEGATECALL}
	if e.hasSC {
		kinds = append(kinds, opSTATICCALL)
	}
	for i, n := 0, r.Range(0, 3); i < n; i++ {
		emitCall(p, kinds[r.Intn(len(kinds))], nil, addrAux, uint64(r.Intn(2)), 0, 0, 0, 0)
		p.op(opPOP)
	}
	switch r.Intn(4) {
	case 0:
		p.pushAddr(pick()).op(opSELFDESTRUCT)
	case 1:
		p.op(opINVALID)
	case 2:
		p.push(0).push(0).op(opREVERT)
	default:
		p.op(opSTOP)
	}
	return &spec{Code: hx(p.bytes(nil)), Aux: hx(aux.bytes(nil)), Input: hx(randInput(r)), Value: topValue(r), Gas: pickGas(r, 1500000)}
}

// --- the static sandbox ------------------------------------------------------------

func tStatic(r *fw.Rand, e *epoch, k int) *spec {
	sp := &spec{Input: hx(randInput(r))}
	writers := []int{libW_SSTORE, libW_LOG0, libW_LOG4, libW_CREATE, libW_SUICIDE, libW_CALLVALUE, libW_CALLOKW, libW_DELEGATEOKW, libW_CALLCODEVALUE, libW_CALLCODEOKW, libOKW, libREV, libINV}
	w := addrLib(writers[r.Intn(len(writers))])
	p := &prog{}
	switch r.Intn(6) {
	case 0: // the message itself is static
		sp.Kind = "static"
		if r.Bool() {
			sp.To = hx(w[:])
		} else {
			sp.Code = hx(structured(r, e, r.Range(3, 30)))
		}
		sp.Aux = hx(auxProgram(r, e))
	case 1: // STATICCALL -> structured program that tries everything
		sp.Aux = hx(structured(r, e, r.Range(3, 30)))
		emitCall(p, opSTATICCALL, nil, addrAux, 0, 0, 0, 0, 32)
		p.push(0).op(opMSTORE)
		emitEffects(p) // writing is allowed again once the static call has returned
		p.push(32).push(0).op(opRETURN)
	case 2: // STATICCALL -> intermediary -> writer
		aux := &prog{}
		kinds := []byte{opCALL, opCALLCODE, opDELEGATECALL, opSTATICCALL}
		emitCall(aux, kinds[r.Intn(len(kinds))], nil, w, 0, 0, 0, 0, 0)
		aux.push(0).op(opMSTORE).push(32).push(0).op(opRETURN)
		sp.Aux = hx(aux.bytes(nil))
		emitCall(p, opSTATICCALL, nil, addrAux, 0, 0, 0, 0, 32)
		p.push(0).op(opMSTORE).push(32).push(0).op(opRETURN)
	case 3: // own effects, then a static call, then fail: everything must be rolled back
		emitEffects(p)
		emitCall(p, opSTATICCALL, nil, w, 0, 0, 0, 0, 0)
		p.op(opPOP).op(opINVALID)
	default: // STATICCALL -> writer
		emitCall(p, opSTATICCALL, nil, w, 0, 0, 0, 0, 0)
		p.push(0).op(opMSTORE)
		if r.Bool() {
			emitEffects(p)
		}
		p.push(32).push(0).op(opRETURN)
	}
	if sp.Code == "" && sp.To == "" {
		sp.Code = hx(p.bytes(nil))
	}
	sp.Gas = pickGas(r, 1500000)
	return sp
}

// --- failing frames with prior effects ------------------------------------------------

func tFrameRevert(r *fw.Rand, e *epoch, k int) *spec {
	g := newGen(r, e)
	p := g.p
	if r.Bool() {
		emitEffects(p)
	}
	tgts := []int{libOKW, libREV, libINV, libOOG, libUFL, libBADJ}
	kinds := g.callKinds()
	for i, n := 0, r.Range(1, 3); i < n; i++ {
		if r.Chance(1, 4) {
			g.stmtCreate(false)
			continue
		}
		t := tgts[r.Intn(len(tgts))]
		to := addrLib(t)
		if r.Chance(1, 5) {
			to = addrAux
		}
		var gas *big.Int
		if t == libOOG || r.Chance(1, 4) {
			gas = big.NewInt(int64(r.Range(0, 400000)))
		}
		emitCall(p, kinds[r.Intn(len(kinds))], gas, to, uint64(r.Intn(2)), 0, uint64(r.Intn(64)), 0, uint64(r.Intn(64)))
		if r.Bool() {
			p.push(uint64(6 + i)).op(opSSTORE)
		} else {
			p.op(opPOP)
		}
	}
	if r.Bool() {
		emitEffects(p)
	}
	switch r.Intn(5) {
	case 0:
		p.op(opINVALID)
	case 1:
		p.push(0).push(0).op(opREVERT)
	case 2:
		p.push(32).push(0).op(opRETURN)
	default:
		p.op(opSTOP)
	}
	sp := &spec{Code: hx(p.bytes(g.ls)), Aux: hx(auxProgram(r, e)), Input: hx(randInput(r)), Value: topValue(r)}
	sp.Gas = pickGas(r, []uint64{1000000, 2000000, blockGasLimit}[r.Intn(3)])
	return sp
}

// --- stack limits ------------------------------------------------------------------

func tStack(r *fw.Rand, e *epoch, k int) *spec {
	p := &prog{}
	fill := func(n int) {
		for i := 0; i < n; i++ {
			p.push(uint64(i & 0xff))
		}
	}
	switch r.Intn(6) {
	case 0:
		fill(1024)
		p.push(1).op(opSTOP) // 1025th item
	case 1:
		fill(1023)
		p.op(opDUP1).op(opDUP1).op(opSTOP)
	case 2:
		n := r.Range(0, 17)
		fill(n)
		p.op(byte(opDUP1 + r.Intn(16))).op(opSTOP)
	case 3:
		n := r.Range(0, 18)
		fill(n)
		p.op(byte(opSWAP1 + r.Intn(16))).op(opSTOP)
	case 4: // full stack, then instructions that pop many and push one
		fill(1024)
		p.op([]byte{opCALL, opCALLCODE, opDELEGATECALL, opCREATE, opADDMOD, opLOG4, opEXTCODECOPY, opGAS, opPC, opMSIZE, opADDRESS}[r.Intn(11)]).op(opSTOP)
	default: // every opcode on an empty or nearly empty stack
		fill(r.Intn(3))
		p.op(byte(r.Intn(256))).op(opSTOP)
	}
	return &spec{Code: hx(p.bytes(nil)), Input: hx(randInput(r)), Gas: pickGas(r, 200000)}
}

// --- return data ----------------------------------------------------------------------

func tReturnData(r *fw.Rand, e *epoch, k int) *spec {
	g := newGen(r, e)
	p := g.p
	lat := func() *big.Int {
		if r.Bool() {
			return big.NewInt(int64(r.Intn(100)))
		}
		return lattice[r.Intn(len(lattice))]
	}
	switch r.Intn(4) {
	case 0: // echo
		p.pushBig(g.word()).push(0).op(opMSTORE)
		emitCall(p, opCALL, nil, addrLib(libECHO), 0, 0, uint64(r.Intn(100)), 0, uint64(r.Intn(100)))
	case 1: // large return
		p.push(uint64(r.Intn(70000))).push(0).op(opMSTORE)
		emitCall(p, opCALL, nil, addrLib(libBIGRET), 0, 0, 32, 0, uint64(r.Intn(100)))
	case 2: // failed call: return data must be empty or the revert payload
		emitCall(p, opCALL, nil, addrLib([]int{libREV, libINV}[r.Intn(2)]), 0, 0, 0, 0, 32)
	default: // creation
		emitCreateTiny(p, 0)
	}
	p.op(opPOP)
	p.pushBig(lat()).pushBig(lat()).pushBig(lat()).op(opRETURNDATACOPY)
	p.op(opRETURNDATASIZE).push(0).push(0).op(opRETURNDATACOPY)
	p.op(opRETURNDATASIZE).push(0).op(opRETURN)
	return &spec{Code: hx(p.bytes(nil)), Input: hx(randInput(r)), Gas: pickGas(r, 1000000)}
}

// --- top-level creation -------------------------------------------------------------------

func tCreateTop(r *fw.Rand, e *epoch, k int) *spec {
	g := newGen(r, e)
	var code []byte
	switch r.Intn(4) {
	case 0:
		code = structured(r, e, r.Range(3, 30))
	case 1:
		code = randomBytes(r, e)
	default:
		code = g.initBlob()
	}
	sp := &spec{Kind: "create", Code: hx(code), Aux: hx(auxProgram(r, e)), Value: topValue(r)}
	sp.Gas = pickGas(r, []uint64{100000, 1000000, blockGasLimit, 6000000}[r.Intn(4)])
	return sp
}
