package c07

import (
	"math/big"
)

// Opcode bytes (yellow paper numbering; deliberately not the vm package's
// constants so that the generators do not depend on the table under test).
const (
	opSTOP, opADD, opMUL, opSUB, opDIV, opSDIV, opMOD, opSMOD, opADDMOD, opMULMOD, opEXP, opSIGNEXTEND = 0x00, 0x01, 0x02, 0x03, 0x04, 0x05, 0x06, 0x07, 0x08, 0x09, 0x0a, 0x0b
	opLT, opGT, opSLT, opSGT, opEQ, opISZERO, opAND, opOR, opXOR, opNOT, opBYTE, opSHL, opSHR, opSAR           = 0x10, 0x11, 0x12, 0x13, 0x14, 0x15, 0x16, 0x17, 0x18, 0x19, 0x1a, 0x1b, 0x1c, 0x1d
	opSHA3                                                                                                     = 0x20
	opADDRESS, opBALANCE, opORIGIN, opCALLER, opCALLVALUE, opCALLDATALOAD, opCALLDATASIZE, opCALLDATACOPY      = 0x30, 0x31, 0x32, 0x33, 0x34, 0x35, 0x36, 0x37
	opCODESIZE, opCODECOPY, opGASPRICE, opEXTCODESIZE, opEXTCODECOPY, opRETURNDATASIZE, opRETURNDATACOPY       = 0x38, 0x39, 0x3a, 0x3b, 0x3c, 0x3d, 0x3e
	opBLOCKHASH, opCOINBASE, opTIMESTAMP, opNUMBER, opDIFFICULTY, opGASLIMIT                                   = 0x40, 0x41, 0x42, 0x43, 0x44, 0x45
	opPOP, opMLOAD, opMSTORE, opMSTORE8, opSLOAD, opSSTORE, opJUMP, opJUMPI, opPC, opMSIZE, opGAS, opJUMPDEST  = 0x50, 0x51, 0x52, 0x53, 0x54, 0x55, 0x56, 0x57, 0x58, 0x59, 0x5a, 0x5b
	opPUSH1, opPUSH2, opPUSH20, opPUSH32                                                                       = 0x60, 0x61, 0x73, 0x7f
	opDUP1, opDUP16, opSWAP1, opSWAP16                                                                         = 0x80, 0x8f, 0x90, 0x9f
	opLOG0, opLOG1, opLOG4                                                                                     = 0xa0, 0xa1, 0xa4
	opCREATE, opCALL, opCALLCODE, opRETURN, opDELEGATECALL, opSTATICCALL, opREVERT, opINVALID, opSELFDESTRUCT  = 0xf0, 0xf1, 0xf2, 0xf3, 0xf4, 0xfa, 0xfd, 0xfe, 0xff
)

// prog is a tiny assembler.
type prog struct {
	b     []byte
	fixes []fix // forward references to labels / the data section
	data  []byte
}

type fix struct {
	at    int // position of the 2 operand bytes of a PUSH2
	label int // index in labels, or -1 for the data section start (+off)
	off   int
}

func (p *prog) op(ops ...byte) *prog {
	p.b = append(p.b, ops...)
	return p
}

func (p *prog) raw(bs []byte) *prog {
	p.b = append(p.b, bs...)
	return p
}

// pushBig pushes v mod 2^256 with the shortest PUSHn (PUSH1 0 for zero).
func (p *prog) pushBig(v *big.Int) *prog {
	bs := new(big.Int).And(v, u256max).Bytes()
	if len(bs) == 0 {
		bs = []byte{0}
	}
	p.b = append(p.b, byte(opPUSH1+len(bs)-1))
	p.b = append(p.b, bs...)
	return p
}

func (p *prog) push(u uint64) *prog { return p.pushBig(new(big.Int).SetUint64(u)) }

// pushN pushes exactly n bytes (left-padded / truncated on the left).
func (p *prog) pushN(n int, bs []byte) *prog {
	if n < 1 {
		n = 1
	}
	if n > 32 {
		n = 32
	}
	d := make([]byte, n)
	if len(bs) > n {
		bs = bs[len(bs)-n:]
	}
	copy(d[n-len(bs):], bs)
	p.b = append(p.b, byte(opPUSH1+n-1))
	p.b = append(p.b, d...)
	return p
}

func (p *prog) pushAddr(a [20]byte) *prog { return p.pushN(20, a[:]) }

// here returns the current offset.
func (p *prog) here() int { return len(p.b) }

// label handling: newLabel reserves, place fixes the position (emits JUMPDEST),
// pushLabel emits PUSH2 <pos>.
type labels struct{ pos []int }

func (p *prog) pushLabel(ls *labels, l int) *prog {
	p.b = append(p.b, opPUSH2, 0, 0)
	p.fixes = append(p.fixes, fix{at: len(p.b) - 2, label: l})
	return p
}

func (ls *labels) new() int { ls.pos = append(ls.pos, -1); return len(ls.pos) - 1 }

func (p *prog) place(ls *labels, l int) *prog {
	ls.pos[l] = len(p.b)
	p.b = append(p.b, opJUMPDEST)
	return p
}

// pushDataOff emits PUSH2 <offset of data section + off>.
func (p *prog) pushDataOff(off int) *prog {
	p.b = append(p.b, opPUSH2, 0, 0)
	p.fixes = append(p.fixes, fix{at: len(p.b) - 2, label: -1, off: off})
	return p
}

// bytes finalises: patches labels and appends the data section.
func (p *prog) bytes(ls *labels) []byte {
	out := append([]byte{}, p.b...)
	dstart := len(out)
	for _, f := range p.fixes {
		v := 0
		if f.label < 0 {
			v = dstart + f.off
		} else if ls != nil && f.label < len(ls.pos) && ls.pos[f.label] >= 0 {
			v = ls.pos[f.label]
		} else {
			v = 0xffff // unplaced label: an invalid destination
		}
		out[f.at] = byte(v >> 8)
		out[f.at+1] = byte(v)
	}
	return append(out, p.data...)
}

var (
	u256max = new(big.Int).Sub(new(big.Int).Lsh(big.NewInt(1), 256), big.NewInt(1))
)

func pow2(n uint) *big.Int { return new(big.Int).Lsh(big.NewInt(1), n) }

func bigAdd(a *big.Int, d int64) *big.Int { return new(big.Int).Add(a, big.NewInt(d)) }

// lattice is the boundary lattice of DESIGN.md §3.
var lattice = func() []*big.Int {
	var l []*big.Int
	for _, u := range []uint64{0, 1, 2, 31, 32, 33, 55, 56, 255, 256, 257, 1023, 1024, 65535, 65536, 65537} {
		l = append(l, new(big.Int).SetUint64(u))
	}
	for _, n := range []uint{32, 63, 64} {
		l = append(l, bigAdd(pow2(n), -1), pow2(n), bigAdd(pow2(n), 1))
	}
	l = append(l, pow2(128), bigAdd(pow2(255), -1), pow2(255), bigAdd(pow2(255), 1), bigAdd(pow2(256), -2), bigAdd(pow2(256), -1))
	// sizes around the memory-gas overflow constants of the implementation family
	l = append(l, new(big.Int).SetUint64(0xffffffffe0), new(big.Int).SetUint64(0xffffffffe1), new(big.Int).SetUint64(0x1fffffffe0),
		new(big.Int).SetUint64(0xffffffffffffffe0), new(big.Int).SetUint64(0x7fffffffffffffff), new(big.Int).SetUint64(0x8000000000000000))
	return l
}()
