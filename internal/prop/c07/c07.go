// Package c07: EVM execution is total, gas-bounded and sandboxed for every program.
//
// Monitor: generated hostile programs (random bytes, grammar walks over the
// boundary lattice, adversarial templates) run through the real vm.EVM entry
// points under every instruction-set epoch while an observer watches from the
// two public seams of the machine: a vm.Tracer (per step: depth, gas, cost,
// memory, stack top) and a forwarding vm.StateDB (per mutation: the value the
// cell had before). Decided per execution: no panic / process death; leftover
// gas <= gas given; gas never rises inside a frame and a callee never returns
// more than it was handed; memory held <= what the yellow-paper memory fee of
// the gas consumed by that frame buys; depth <= 1024; every frame that failed
// (at any nesting level) left every cell it had touched exactly as first seen,
// creations keeping only the creator's nonce increment; no value-changing
// mutation and no log reaches the state while a STATICCALL is open under
// Byzantium rules; and for failed or static outermost frames the state root is
// the one computed before the message.
package c07

import (
	"fmt"
	"math/big"
	"os"
	"regexp"
	"runtime/debug"
	"runtime/pprof"
	"strings"
	"sync/atomic"
	"syscall"
	"time"

	"gitlab.com/aquachain/aquachain/common"
	"gitlab.com/aquachain/aquachain/common/log"
	"gitlab.com/aquachain/aquachain/core"
	"gitlab.com/aquachain/aquachain/core/vm"
	"verif/internal/fw"
)

func init() {
	fw.Register(&fw.Prop{
		ID:    "C07",
		Title: "EVM execution is total, gas-bounded and sandboxed for every program",
		Level: "exploration",
		Rule: "one case = one message (call / create / static call) executed by the real vm.EVM on a fixed 30-account world under one of five epochs " +
			"(homestead without EIP-150, main-net schedule before HF1, main-net HF5 window without Byzantium, Byzantium without HF5, main-net after HF7); " +
			"programs come from 14 generators cycled in fixed order (grammar walk with boundary-lattice operands, random bytes, truncated PUSH, adversarial jumps, " +
			"lattice memory operands, recursion to the depth limit, precompiles 1-9, value calls, SELFDESTRUCT, static sandbox, failing frames with prior effects, " +
			"stack limits, return data, top-level creation; the truncated-PUSH generator alternates with a directed family PUSH1 3;JUMP;JUMPDEST..;PUSHn rotating on the case index over every code-length residue mod 8, n in {32,31,25,24,17,16,9,8,1} and 0 or n-1 operand bytes), plus a leg that runs that family completely for lengths 5..72 x n 1..32 in every epoch as message and as init code; gas from {0,1,2,20999,21000,1e5,1e6,block limit 4712388}, template-typical, uniformly below typical, " +
			"2^40/2^46 for depth recursion, and for effectful templates a second run with the gas cut uniformly inside the first run's consumption. " +
			"non-trivial = at least 8 instructions executed and at least one of {memory grew, call, create, jump}; distinct = hash of (epoch, kind, code, aux code, input, gas, value).",
		Legs: func(tier string) []fw.Leg {
			legs := []fw.Leg{
				{Name: "pushtail", Variant: "intpool", Batches: 1, Timeout: 2 * time.Hour},
				{Name: "evm", Variant: "intpool", Batches: 16, Timeout: 4 * time.Hour},
				{Name: "evm-race", Variant: "race", Batches: 4, Timeout: 4 * time.Hour},
			}
			if os.Getenv("VERIF_C07_LEGS") == "evm" {
				// development only (seeded-break runs): skip the race build
				legs = legs[:2]
			}
			return legs
		},
		Run: run,
		Gate: func(tier string) map[string]int {
			g := map[string]int{
				"executions": 20000, "steps": 1000000,
				"depth_limit_reached": 100, "call_refused_at_depth_limit": 100,
				"static_write_attempt_blocked": 100, "static_frame_completed": 100,
				"failed_nested_frame_with_prior_effects": 100, "failed_toplevel_frame_with_prior_effects": 100,
				"failed_frame_checked_CALL": 100, "failed_frame_checked_CALLCODE": 100, "failed_frame_checked_DELEGATECALL": 100,
				"failed_frame_checked_STATICCALL": 100, "failed_frame_checked_CREATE": 100,
				"toplevel_root_compared": 1000, "memory_bound_checked_large": 100, "gas_cut_rerun": 1000,
				"push32_tail_at_len_multiple_of_8_analysed": 40, "pushtail_programs": 37880,
				"kind_call": 1000, "kind_create": 500, "kind_static": 100, "out_of_gas_exit": 1000,
			}
			for n := 1; n <= 8; n++ {
				g[fmt.Sprintf("precompile_%d_called", n)] = 100
			}
			for _, e := range epochNames {
				g["epoch_"+e] = 1000
			}
			for _, t := range templates {
				g["tmpl_"+t.name] = 100
			}
			return g
		},
		AnchorFiles: []string{"/core/vm/"},
		Assumptions: []string{
			"the machine touches world state only through the vm.StateDB it is given and the Context.Transfer function (core.Transfer); the observer is that StateDB and forwards every call unchanged to a real *state.StateDB",
			"memory fee of w words = 3w + floor(w*w/512) (yellow paper, G_memory = 3); a frame's memory is paid from the gas that frame consumed",
			"tracer depth 1 is the outermost frame, so depth 1025 is call depth 1024; the stack top after CALL/CALLCODE/DELEGATECALL/STATICCALL (0) or CREATE (0) says the callee frame failed",
			"pre-states contain no empty account at the RIPEMD-160 precompile address: core/state deliberately keeps a reverted touch of that address (the main-net block 2675119 exception); a failed creation may keep the creator's nonce increment or not (both accepted)",
			"block gas limit = params.GenesisGasLimit = TargetGasLimit = 4712388; the depth limit is only reachable with far more gas under the 63/64 rule, so recursion templates also run with 2^40 and 2^46 gas",
			"the static-sandbox clause is decided only where the chain config enables Byzantium; in the main-net HF5..HF7 window STATICCALL exists without write protection and writes there are only counted (prebyzantium_static_frame_wrote)",
			"wall-clock is used only by a 30 min per-execution watchdog; it and the deterministic 40M-step cap are reported as inconclusive, never as a verdict",
		},
	})
}

// ---------------------------------------------------------------------------

type worker struct {
	c      *fw.Ctx
	worlds map[string]*baseWorld
}

// sink receives what an execution observed; the nil sink (a replay that needs
// the first run of a pair only for its gas consumption) drops everything.
type sink struct{ c *fw.Ctx }

func (s sink) Count(k string) {
	if s.c != nil {
		s.c.Count(k)
	}
}
func (s sink) CountN(k string, n int) {
	if s.c != nil {
		s.c.CountN(k, n)
	}
}
func (s sink) Violate(a, b, d, e string) {
	if s.c != nil {
		s.c.Violate(a, b, d, e)
	}
}
func (s sink) Inconclusive(why string) {
	if s.c != nil {
		s.c.Inconclusive(why)
	}
}
func (s sink) Nontrivial(k string) {
	if s.c != nil {
		s.c.Nontrivial(k)
	}
}
func (s sink) WantSample() bool { return s.c != nil && s.c.WantSample() }
func (s sink) Sample(v interface{}) {
	if s.c != nil {
		s.c.Sample(v)
	}
}


func (w *worker) world(e *epoch) *baseWorld {
	if b := w.worlds[e.name]; b != nil {
		return b
	}
	b, err := newBaseWorld(e)
	if err != nil {
		panic(err)
	}
	w.worlds[e.name] = b
	return b
}

var profT map[string]time.Duration

type outcome struct {
	ran      bool
	gasUsed  uint64
	steps    uint64
	err      error
	panicked bool
}

var reNum = regexp.MustCompile(`0x[0-9a-fA-F]+|[0-9]+`)

func normPanic(s string) string {
	if i := strings.IndexByte(s, '\n'); i >= 0 {
		s = s[:i]
	}
	s = reNum.ReplaceAllString(s, "N")
	if len(s) > 140 {
		s = s[:140]
	}
	return s
}

func bigOf(s string) *big.Int {
	v, ok := new(big.Int).SetString(s, 10)
	if !ok {
		return new(big.Int)
	}
	return v
}

func addrOf(hexs string) common.Address { return common.BytesToAddress(unhx(hexs)) }

// exec runs one spec and applies every oracle.
func (w *worker) exec(sp *spec, quiet bool) (out outcome) {
	c := sink{w.c}
	if quiet {
		c = sink{}
	}
	e := epochs[sp.Epoch]
	bw := w.world(e)
	code, aux := unhx(sp.Code), unhx(sp.Aux)
	codeT := code
	if sp.Kind == "create" {
		codeT = nil
	}
	sdb, root0, err := bw.open(codeT, aux)
	if err != nil {
		panic(err)
	}
	o := newObserver(e, sdb, sp.Gas)
	if sp.Kind == "static" {
		o.staticDepth = 1
	}
	ctx := vm.Context{
		CanTransfer: core.CanTransfer,
		Transfer:    core.Transfer,
		GetHash: func(n uint64) common.Hash {
			var h common.Hash
			h[0], h[31] = 0xb1, byte(n)
			return h
		},
		Origin:      common.Address(addrOrigin),
		GasPrice:    bigOf(sp.GasPrice),
		Coinbase:    addrOf(sp.Coinbase),
		GasLimit:    sp.GasLimit,
		BlockNumber: new(big.Int).SetUint64(sp.Block),
		Time:        new(big.Int).SetUint64(sp.Time),
		Difficulty:  bigOf(sp.Difficulty),
	}
	evm := vm.NewEVM(ctx, o, e.chain, vm.Config{Debug: true, Tracer: o, EnablePreimageRecording: sp.Preimages})
	o.evm = evm
	to := common.Address(addrT)
	if sp.To != "" {
		to = addrOf(sp.To)
	}
	caller := vm.AccountRef(common.Address(addrOrigin))
	input, value := unhx(sp.Input), bigOf(sp.Value)
	nonce0 := sdb.GetNonce(common.Address(addrOrigin))

	var (
		left     uint64
		rerr     error
		pmsg     string
		pstack   string
		watchdog = time.AfterFunc(30*time.Minute, func() { atomic.StoreInt32(&o.watchdog, 1); evm.Cancel() })
	)
	func() {
		defer func() {
			if r := recover(); r != nil {
				pmsg, pstack = fmt.Sprint(r), string(debug.Stack())
			}
		}()
		switch sp.Kind {
		case "create":
			_, _, left, rerr = evm.Create(caller, code, sp.Gas, value)
		case "static":
			_, left, rerr = evm.StaticCall(caller, to, input, sp.Gas)
		default:
			_, left, rerr = evm.Call(caller, to, input, sp.Gas, value)
		}
	}()
	watchdog.Stop()
	out.ran, out.steps, out.err = true, o.steps, rerr
	c.Count("executions")
	c.CountN("steps", int(o.steps))
	c.Count("kind_" + sp.Kind)
	c.Count("epoch_" + e.name)
	c.Count("tmpl_" + sp.Tmpl)
	if n := len(code); n >= 8 && n%8 == 0 && code[n-1] == 0x7f && o.sawJump && strings.HasPrefix(sp.Code, "6003565b") {
		// the bit-vector boundary of the JUMPDEST analysis: code length a multiple of 8,
		// last byte a PUSH32 without any operand byte, analysed because a jump ran
		c.Count("push32_tail_at_len_multiple_of_8_analysed")
	}
	if b := to.Bytes(); sp.Kind != "create" && pmsg == "" && new(big.Int).SetBytes(b).IsUint64() {
		if n := new(big.Int).SetBytes(b).Uint64(); n >= 1 && n <= 8 && (n <= 4 || e.byz) {
			c.Count(fmt.Sprintf("precompile_%d_called", n))
		}
	}

	flush := func() {
		for k, n := range o.counts {
			c.CountN(k, n)
		}
		for _, v := range o.viols {
			c.Violate(v.clause, v.op, v.cause, v.detail)
		}
	}
	if pmsg != "" {
		out.panicked = true
		c.Violate("crash", opName(o.curOp), normPanic(pmsg), fmt.Sprintf("panic while executing %s at depth %d after %d steps: %s\n%s", opName(o.curOp), len(o.frames), o.steps, pmsg, trim(pstack, 5000)))
		flush()
		return
	}
	if o.capHit || atomic.LoadInt32(&o.watchdog) != 0 {
		c.Inconclusive("step_cap_or_watchdog")
		flush()
		return
	}
	// --- gas ---
	if left > sp.Gas {
		o.violate("gas_exceeds_given", "toplevel_"+sp.Kind, "leftover_exceeds_gas_given", fmt.Sprintf("given %d, returned %d", sp.Gas, left))
	} else {
		out.gasUsed = sp.Gas - left
	}
	if len(o.frames) > 0 {
		if f := o.frames[0]; f.haveLast && f.pending == nil && left > f.lastGasAfter {
			o.violate("gas_exceeds_given", "toplevel_"+sp.Kind, "leftover_exceeds_last_seen_gas", fmt.Sprintf("outermost frame had %d gas after its last instruction, message returned %d", f.lastGasAfter, left))
		}
	}
	if rerr != nil && rerr.Error() != "evm: execution reverted" && left != 0 && !isEarlyRefusal(rerr) {
		// only gas is consumed: a failing frame that is not a REVERT consumes all of it; nothing to demand here beyond <= given
		c.Count("failed_with_gas_left")
	}
	if rerr == vm.ErrOutOfGas {
		c.Count("out_of_gas_exit")
	}
	// --- depth ---
	if o.maxDepth >= 1025 {
		c.Count("depth_limit_reached")
	}
	if o.maxDepth >= 64 {
		c.Count("deep_recursion_64")
	}
	for _, f := range o.frames {
		if f.memWords >= 1024 {
			c.Count("memory_bound_checked_large")
			break
		}
	}
	// --- frames ---
	if rerr != nil {
		// the outermost frame failed: every cell it touched reads as before the message
		var keeper *common.Address
		op := "toplevel_" + sp.Kind
		if sp.Kind == "create" {
			ca := common.Address(addrOrigin)
			keeper = &ca
		}
		eff := o.checkRestored(0, op, keeper)
		if n := o.nLogs(); n != 0 {
			o.violate("failed_frame_state_not_restored", op, "log", fmt.Sprintf("%d logs survive a failed message", n))
		}
		c.Count("failed_toplevel_frame")
		if eff > 0 && o.steps > 0 {
			c.Count("failed_toplevel_frame_with_prior_effects")
		}
	}
	staticTop := sp.Kind == "static" && e.byz
	if staticTop {
		if n := o.nLogs(); n != 0 {
			o.violate("static_context_changed_state", "AddLog", "toplevel_static", fmt.Sprintf("%d logs after a static message", n))
		}
	}
	if rerr != nil || staticTop {
		// catch-all for anything that did not go through the observed seam: the
		// state root after the message (with the chain's own end-of-transaction
		// clean-up rule) is the root computed before it
		want := root0
		nonceNow := sdb.GetNonce(common.Address(addrOrigin))
		if sp.Kind == "create" && rerr != nil && nonceNow == nonce0+1 {
			ref, _, err := bw.open(nil, aux)
			if err != nil {
				panic(err)
			}
			ref.SetNonce(common.Address(addrOrigin), nonce0+1)
			want = ref.IntermediateRoot(false)
		}
		got := sdb.IntermediateRoot(e.eip158)
		c.Count("toplevel_root_compared")
		if got != want && len(o.viols) == 0 {
			clause, op := "failed_frame_state_not_restored", "toplevel_"+sp.Kind
			if rerr == nil {
				clause = "static_context_changed_state"
			}
			o.violate(clause, op, "state_root", fmt.Sprintf("state root before the message %x, after %x (err=%v), although every observed cell reads as before", want, got, rerr))
		}
	}
	flush()
	// --- evidence ---
	if o.steps >= 8 && (o.memGrew || o.sawCall || o.sawCreate || o.sawJump) {
		c.Nontrivial(sp.Epoch + "|" + sp.Kind + "|" + sp.To + "|" + sp.Code + "|" + sp.Aux + "|" + sp.Input + "|" + fmt.Sprint(sp.Gas) + "|" + sp.Value)
	}
	if c.WantSample() && o.steps >= 20 && (o.failedFramesWithEffects > 0 || o.maxDepth > 2) {
		es := ""
		if rerr != nil {
			es = rerr.Error()
		}
		c.Sample(map[string]interface{}{"template": sp.Tmpl, "epoch": sp.Epoch, "kind": sp.Kind, "gas": sp.Gas, "code": clip(sp.Code, 400), "input": clip(sp.Input, 128),
			"steps": o.steps, "max_depth": o.maxDepth, "gas_left": left, "error": es, "failed_frames_checked": o.failedFramesChecked,
			"state_mutations_observed": len(o.mlog), "snapshots": o.snapshots, "reverts": o.reverts})
	}
	return
}

func isEarlyRefusal(err error) bool {
	return err == vm.ErrDepth || err == vm.ErrInsufficientBalance
}

func clip(s string, n int) string {
	if len(s) > n {
		return s[:n] + fmt.Sprintf("...(%d hex chars)", len(s))
	}
	return s
}

func trim(s string, n int) string {
	if len(s) > n {
		return s[:n] + "\n...[truncated]"
	}
	return s
}

// ---------------------------------------------------------------------------

func run(c *fw.Ctx) {
	log.Root().SetHandler(log.DiscardHandler())
	if err := selfCheckEpochs(); err != nil {
		// broken harness: die outside any case
		panic(err)
	}
	if !raceEnabled {
		// an allocation bomb must end this child, not the machine
		lim := uint64(12) << 30
		syscall.Setrlimit(syscall.RLIMIT_AS, &syscall.Rlimit{Cur: lim, Max: lim})
	}
	if pf := os.Getenv("VERIF_C07_PPROF"); pf != "" {
		if f, err := os.Create(pf); err == nil {
			pprof.StartCPUProfile(f)
			defer pprof.StopCPUProfile()
		}
	}
	// frames allocate 8 KiB stacks and programs grow memory in large steps: collect less often
	debug.SetGCPercent(400)
	w := &worker{c: c, worlds: map[string]*baseWorld{}}
	if os.Getenv("VERIF_C07_PPROF") != "" {
		profT = map[string]time.Duration{}
		defer func() {
			for k, v := range profT {
				fmt.Fprintf(os.Stderr, "time %-20s %v\n", k, v)
			}
		}()
	}
	var n int
	switch c.Leg {
	case "pushtail":
		runPushTail(c, w)
		return
	case "evm-race":
		n = c.Pick(250, 6000)
	default:
		n = c.Pick(2600, 120000)
	}
	for i := 0; i < n; i++ {
		r := c.Rand("case", fmt.Sprint(i))
		// forced rotation: template and epoch are a function of the index, the PRNG
		// only varies parameters, so every (template, epoch) pair recurs regularly
		t := templates[i%len(templates)]
		cycle := i / len(templates)
		if t.name == "recursion" && cycle%8 != 0 {
			// 1025 nested frames cost as much as hundreds of ordinary cases
			t = templates[0]
		}
		e := epochs[epochNames[cycle%len(epochNames)]]
		if t.needs != nil && !t.needs(e) {
			e = epochs[[]string{"spring", "byzantium", "mainnet-window"}[cycle%3]]
		}
		// rotation index of this (template, epoch) pair, interleaved over the batches
		sp := t.f(r, e, (cycle/len(epochNames))*c.NBatch+c.Batch)
		sp.Tmpl = t.name
		finish(sp, r, e)
		id := fmt.Sprintf("%s-%d", t.name, i)
		var res outcome
		t0 := time.Now()
		if !c.Case(id, sp, func() { res = w.exec(sp, false) }) && c.OnlyCase == id+"-cut" {
			res = w.exec(sp, true)
		}
		if t.cut && res.ran && !res.panicked && res.gasUsed > 0 && res.steps > 0 && sp.Gas < (1<<32) {
			// the same message again, out of gas somewhere inside the first run
			cp := *sp
			cp.Gas = r.Uint64() % res.gasUsed
			if cp.Gas > 2 && r.Chance(1, 4) {
				cp.Gas = res.gasUsed - uint64(r.Intn(3)) // exactly enough, or one or two short
			}
			c.Count("gas_cut_rerun")
			c.Case(id+"-cut", &cp, func() { w.exec(&cp, false) })
		}
		if profT != nil {
			profT[t.name] += time.Since(t0)
		}
	}
}

// runPushTail: the whole family PUSH1 3; JUMP; JUMPDEST...; PUSHn for every code
// length 5..72, every n 1..32, with no operand byte and with all but one, in
// every epoch, as a message and as init code.
func runPushTail(c *fw.Ctx, w *worker) {
	for _, en := range epochNames {
		e := epochs[en]
		for total := 5; total <= 72; total++ {
			for n := 1; n <= 32; n++ {
				haves := []int{0, n - 1}
				if n == 1 {
					haves = haves[:1]
				}
				for _, have := range haves {
					if total < 5+have {
						continue
					}
					for _, kind := range []string{"call", "create"} {
						r := c.Rand("pushtail", en, fmt.Sprint(total, n, have, kind))
						sp := &spec{Tmpl: "pushtail", Kind: kind, Code: hx(pushTail(total, n, have)), Gas: 100000}
						finish(sp, r, e)
						c.Count("pushtail_programs")
						c.Case(fmt.Sprintf("pushtail-%s-%d-%d-%d-%s", en, total, n, have, kind), sp, func() { w.exec(sp, false) })
					}
				}
			}
		}
	}
}
