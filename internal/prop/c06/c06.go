// Package c06: every included transaction is charged, nonced and rolled back
// exactly.
//
// Monitor. Blocks are built one step at a time with the exported functions the
// node's own processor uses (core.ApplyTransaction with a vm.Tracer installed,
// Engine.Finalize) on top of a real BlockChain, and every finished block is then
// imported by that chain's InsertChain (which executes it again, untraced, and
// validates every header commitment). Around each ApplyTransaction the whole
// state is dumped (commit of a copy + RawDump) and the property's equations are
// evaluated on the two dumps, the receipt and the tracer's observations:
// nonce + 1; sender pays gasUsed x price (+ value only on success); coinbase gets
// gasUsed x price; intrinsic <= gasUsed <= limit with the intrinsic cost computed
// here; refund = consumed - gasUsed <= consumed/2, zero without a refund-earning
// operation, and equal to min(cap, counter) for a refund counter modelled
// independently from the trace (yellow-paper substate with reverts); cumulative
// gas = running sum <= block limit; receipt format per epoch (state root before
// Byzantium, compared with a reference-trie root of the dump; status after);
// after a failed execution the dump differs in the sender and the coinbase only
// and the receipt has no logs. Before each position, transactions that miss
// validity by one unit (nonce +-1, value + 1, gas limit = intrinsic - 1, gas limit
// = rest of block + 1, prepayment one wei short) are run on copies and must be
// refused; a separate leg assembles such transactions into blocks whose header
// commitments are those of the boundary-valid twin block with only the
// transaction root recomputed (reference trie) and demands that InsertChain
// fails at that block for a transaction-level reason while the twin is accepted.
package c06

import (
	"fmt"
	"time"

	"gitlab.com/aquachain/aquachain/common"
	"gitlab.com/aquachain/aquachain/common/log"
	"verif/internal/fw"
	"verif/internal/gen"
)

func init() {
	fw.Register(&fw.Prop{
		ID:    "C06",
		Title: "Every included transaction is charged, nonced and rolled back exactly",
		Level: "exploration",
		Rule: "leg eq: a case is one generated world (funded keys of five classes, the shared contract library plus effect-then-fail, storage-clearing, touching and self-destructing contracts) and a chain of 8-18 blocks " +
			"crossing the Byzantium/EIP-158 boundary (config prebyz), HF1..7 (config test) or header versions 2->3->4 (config versions); each block has a drawn coinbase (fresh, persistent, a sender, a contract, an existing empty account) and 0-7 transactions drawn from 34 templates x " +
			"gas-limit modes (ample, = intrinsic, intrinsic + few, = consumption of a rehearsal, a little less, = rest of block, = balance at price 1) x prices (0, 1, small, gwei, large, > 2^64) x value modes (0, 1, drawn, everything left after prepaying) x data of every zero/non-zero mix; " +
			"every transaction is judged from state dumps before/after, receipt and trace; one-unit-invalid variants are run on copies at a third of the positions. " +
			"leg inv: a case is a world, a prefix chain of drawn height, a funding block that gives reserved keys exactly gas x price (-1) and gas x price + value, and a scenario block with the boundary transaction at a drawn position between other transactions; " +
			"each invalid variant is assembled into the twin block (transaction root recomputed with the reference trie) and given to InsertChain of a second node, alone or behind the funding block; then the twin's honest body under headers whose gas used is the sum over the receipts +1, -1, +n and = the block gas limit (each must be refused); then the twin. " +
			"Every imported block and its receipts are read back from the node: header gas used == last cumulative gas == sum of receipt gas. " +
			"A transaction is non-trivial when it was executed and judged; distinct = (template, modes, price, value, gas limit, status, data).",
		Legs: func(tier string) []fw.Leg {
			return []fw.Leg{
				{Name: "eq", Variant: "plain", Batches: 16, Timeout: 2 * time.Hour},
				{Name: "inv", Variant: "plain", Batches: 16, Timeout: 2 * time.Hour},
			}
		},
		Run: run,
		Gate: func(tier string) map[string]int {
			return map[string]int{
				"tx_judged": 4000, "tx_judged_pre_byzantium": 800, "tx_judged_byzantium": 1500,
				"refund_at_cap": 100, "refund_below_cap": 60, "exactly_enough_balance": 100, "exactly_enough_balance_for_gas_only": 10,
				"failure_after_partial_effects": 300, "failed_with_value": 200, "failed_without_frame": 10, "inner_frame_failed_outer_succeeded": 50,
				"gas_limit_equals_intrinsic": 100, "gas_limit_equals_block_rest": 50, "fits_only_through_returned_gas": 50, "price_zero": 100, "price_above_64_bits": 20,
				"aliased_roles_exact": 100, "callee_pays_role_conservation": 50, "intermediate_root_compared": 800,
				"block_imported": 1000, "block_commitments_compared": 500, "block_state_root_compared": 1000,
				"invalid_apply_nonce_too_high": 100, "invalid_apply_nonce_too_low": 50, "invalid_apply_cannot_prepay_gas": 100,
				"invalid_apply_cannot_pay_value_after_gas": 100, "invalid_apply_gas_limit_below_intrinsic": 100, "invalid_apply_gas_limit_above_block_rest": 100,
				"invalid_block_rejected_nonce_too_high": 30, "invalid_block_rejected_nonce_too_low": 30, "invalid_block_rejected_cannot_prepay_gas": 30,
				"invalid_block_rejected_cannot_pay_value_after_gas": 30, "invalid_block_rejected_gas_limit_below_intrinsic": 30, "invalid_block_rejected_gas_limit_above_block_rest": 30,
				"twin_block_accepted": 100, "twin_exactly_enough_for_gas": 10, "twin_exactly_enough_for_gas_and_value": 10, "twin_gas_equals_intrinsic": 10, "twin_gas_equals_block_rest": 10,
				"invalid_block_behind_valid_block": 30, "forged_gas_used_rejected": 30, "forged_gas_used_rejected_gas_used_plus_1": 10, "stored_block_gas_compared": 1000, "empty_sender_touched_then_sends": 20, "existing_empty_account_touched_in_reverted_frame": 50,
			}
		},
		AnchorFiles: []string{"core/state_transition.go", "core/state_processor.go", "core/gaspool.go", "core/vm/evm.go", "core/types/receipt.go", "core/block_validator.go"},
		Assumptions: []string{
			"'intrinsic gas <= gasUsed' is demanded of the gas consumed before the refund, and of the reported gasUsed whenever no refund was earned: with a refund at the cap the reported figure is consumed - floor(consumed/2), which the yellow paper allows to lie below the intrinsic cost (e.g. one SSTORE-clear: consumed 26701, reported 13351, intrinsic 21576); such cases are counted (gas_used_below_intrinsic_after_refund), not judged",
			"state is observed as the committed content of a copy of the live StateDB (Copy + Commit + RawDump); an account absent from the dump is the all-zero account",
			"execution gas of the outermost frame is what the EVM reports to the tracer (CaptureEnd); when the EVM refuses before starting a frame, a failed receipt means all gas was consumed and a successful one means none was",
			"the refund counter is modelled from the trace: 15000 per SSTORE turning non-zero into zero, 24000 per first SELFDESTRUCT of an address, contributions of failed frames discarded",
			"success of a template is asserted only with ample gas; elsewhere the receipt status is taken as given and checked for consistency with the EVM error and with the state effects",
			"when the callee is told to pay the sender or coinbase (or is random code that made calls) and execution succeeded, only conservation of the sum of balances is checked; on failure the exact equations apply again",
			"the deletion of an empty RIPEMD-160 account (0x03) touched in a reverted frame is the one consensus exception to rollback and is not judged",
			"an invalid block is judged rejected for the right reason when InsertChain returns an error at its index that is not one of ValidateState's (gas used / bloom / receipt root / state root), which could only arise after executing the whole transaction list",
		},
	})
}

func run(c *fw.Ctx) {
	log.Root().SetHandler(log.DiscardHandler())
	switch c.Leg {
	case "eq":
		runEq(c)
	case "inv":
		runInv(c)
	}
}

var cfgRotation = []string{"prebyz", "test", "prebyz", "versions"}

// chooseCoinbase draws the coinbase of the next block.
func (e *env) chooseCoinbase(r *fw.Rand, num uint64) common.Address {
	switch x := r.Intn(10); {
	case x < 3:
		return e.freshAddr()
	case x < 5:
		return e.w.Coinbases[r.Intn(len(e.w.Coinbases))]
	case x < 7:
		for i := 0; i < 10; i++ {
			s := e.w.Senders[r.Intn(len(e.w.Senders))]
			if s.Kind != "inv" && !e.reserved[s.Addr] {
				return s.Addr
			}
		}
		return e.freshAddr()
	case x < 8:
		return gen.AddrSink
	default:
		var em []common.Address
		for a, x := range e.model {
			if x.empty() && !isPrecompileAddr(a) {
				em = append(em, a)
			}
		}
		if len(em) == 0 {
			return e.freshAddr()
		}
		sortAddrs(em)
		return em[r.Intn(len(em))]
	}
}

func indexOf(l []*sender, s *sender) int {
	for i, x := range l {
		if x == s {
			return i
		}
	}
	return 0
}

// forcedTemplates are executed in every case so that the observation classes
// the gates require exist by construction.
type forcedT struct {
	name string
	f    force
	mk   func(b *blk, r *fw.Rand, s *sender) (tmpl, bool)
}

func clearTmpl(count, burn uint64) func(b *blk, r *fw.Rand, s *sender) (tmpl, bool) {
	return func(b *blk, r *fw.Rand, s *sender) (tmpl, bool) {
		// find count consecutive non-zero slots
		st := b.cur.get(addrClear).Storage
		for start := 0; start+int(count) <= clearSlots; start++ {
			ok := true
			for i := 0; i < int(count); i++ {
				if _, has := st[common.BigToHash(bigU(uint64(start + i))).Hex()[2:]]; !has {
					ok = false
				}
			}
			if ok {
				return tmpl{kind: "clear_n", to: addrp(addrClear), data: gen.Cat(word(uint64(start)), word(count), word(0), word(burn)),
					ample: 100000 + count*25000 + burn*50, expect: expectOK}, true
			}
		}
		return tmpl{}, false
	}
}

func named(name string) func(b *blk, r *fw.Rand, s *sender) (tmpl, bool) {
	return func(b *blk, r *fw.Rand, s *sender) (tmpl, bool) { return b.template(r, name, s) }
}

var forcedList = []forcedT{
	{"clear_at_cap", force{gasMode: "ample", noFund: true}, clearTmpl(1, 0)},
	{"clear_below_cap", force{gasMode: "ample", noFund: true}, clearTmpl(1, 200)},
	{"clear_many", force{gasMode: "ample", noFund: true}, clearTmpl(3, 0)},
	{"effects_with_value", force{gasMode: "ample", valMode: "rand", noFund: true}, named("effects")},
	{"create_effects_with_value", force{gasMode: "ample", valMode: "rand", noFund: true}, named("create_effects")},
	{"selfdestruct", force{gasMode: "ample", noFund: true}, named("selfdestruct")},
	{"nested", force{gasMode: "ample", noFund: true}, named("nested")},
	{"transfer_intrinsic", force{gasMode: "intrinsic", noFund: true}, named("transfer_existing")},
	{"transfer_block_rest", force{gasMode: "block_rest", noFund: true}, named("transfer_fresh")},
	{"pay_role", force{gasMode: "ample", valMode: "rand", noFund: true}, named("forward_pay_role")},
	{"alias_self", force{noFund: true}, named("transfer_self")},
	{"alias_coinbase", force{noFund: true}, named("transfer_to_coinbase")},
}

func (b *blk) forcedPlan(r *fw.Rand, ft forcedT) *plan {
	for try := 0; try < 20; try++ {
		s := b.e.w.Senders[r.Intn(8)] // rich or whale
		if b.e.reserved[s.Addr] {
			continue
		}
		t, ok := ft.mk(b, r, s)
		if !ok {
			return nil
		}
		if p := b.lattice(r, s, t, ft.f); p != nil {
			return p
		}
	}
	return nil
}

// step: one position of a block — possibly the one-unit-invalid variants on
// copies, then the valid plan for real.
func (b *blk) step(r *fw.Rand, p *plan, withInvalid bool) bool {
	if withInvalid {
		for _, q := range b.invalidVariants(r, p) {
			b.tryInvalid(q)
		}
	}
	return b.apply(p)
}

type eqInput struct {
	Config string `json:"config"`
	Index  int    `json:"index"`
	Blocks int    `json:"blocks"`
}

func runEq(c *fw.Ctx) {
	n := c.Pick(12, 420)
	for i := 0; i < n; i++ {
		cfgName := cfgRotation[i%len(cfgRotation)]
		r := c.Rand("eq", fmt.Sprint(i))
		nBlocks := r.Range(8, 12)
		if cfgName == "prebyz" {
			nBlocks = r.Range(15, 19)
		}
		id := fmt.Sprintf("eq-%d", i)
		c.Case(id, eqInput{cfgName, i, nBlocks}, func() {
			e := newEnv(c, r, cfgName)
			defer e.close()
			// the forced templates are spread over the blocks of the case; in the
			// prebyz config half land before the fork, half after
			forcedAt := map[int][]forcedT{}
			for k, ft := range forcedList {
				bn := 1 + r.Intn(nBlocks)
				if cfgName == "prebyz" {
					if k%2 == 0 {
						bn = r.Range(1, 11)
					} else {
						bn = r.Range(12, nBlocks)
					}
				}
				forcedAt[bn] = append(forcedAt[bn], ft)
			}
			// prebyz only: a key-holding address Z is made an existing empty account
			// before EIP-158; in a later block a failing frame touches it and then Z
			// itself sends a transaction (price 0: it owns nothing)
			var Z *sender
			zBlock := 0
			if cfgName == "prebyz" {
				for _, s := range e.w.Senders {
					if s.Kind == "zero" {
						Z = s
						break
					}
				}
				e.reserved[Z.Addr] = true
				zBlock = r.Range(2, nBlocks)
			}
			for bn := 1; bn <= nBlocks && !e.broken; bn++ {
				coinbase := e.chooseCoinbase(r, uint64(bn))
				b := e.begin(coinbase, int64(r.Range(-3000, 3000)))
				ntx := r.Intn(8)
				if r.Intn(6) == 0 {
					ntx = 0
				}
				var queue []*plan
				alive := true
				// an empty account is made early so that later blocks can have an
				// existing empty coinbase (only possible before EIP-158)
				if bn == 1 && !b.eip158 {
					s := e.w.Senders[r.Intn(6)]
					t := tmpl{kind: "transfer_fresh", to: addrp(e.freshAddr()), expect: expectOK, noVal: true}
					if p := b.lattice(r, s, t, force{gasMode: "ample", noFund: true}); p != nil {
						queue = append(queue, p)
					}
					if Z != nil {
						s2 := e.w.Senders[(r.Intn(5)+1+indexOf(e.w.Senders, s))%6]
						t2 := tmpl{kind: "transfer_existing", to: addrp(Z.Addr), expect: expectOK, noVal: true}
						if p := b.lattice(r, s2, t2, force{gasMode: "ample", noFund: true}); p != nil {
							queue = append(queue, p)
						}
					}
				}
				if Z != nil && bn == zBlock {
					if x, ok := b.cur[Z.Addr]; ok && x.empty() && coinbase != Z.Addr {
						s := e.w.Senders[r.Intn(6)]
						t1 := tmpl{kind: "touch_fail_empty_key", to: addrp(addrTouch), data: gen.Cat(wordA(Z.Addr), word(0)), ample: 120000, expect: expectFail}
						t2 := tmpl{kind: "empty_key_sends", to: addrp(e.freshAddr()), expect: expectOK, noVal: true}
						if p1 := b.lattice(r, s, t1, force{gasMode: "ample", noFund: true}); p1 != nil {
							queue = append(queue, p1)
							// the second plan is drawn after the first ran (nonce/balance are read then)
							queue = append(queue, &plan{Kind: "\x00z", S: Z, To: t2.to})
							c.Count("empty_sender_touched_then_sends")
						}
					}
					delete(e.reserved, Z.Addr)
				}
				for _, p := range queue {
					if p.Kind == "\x00z" {
						t2 := tmpl{kind: "empty_key_sends", to: p.To, expect: expectOK, noVal: true}
						if p = b.lattice(r, Z, t2, force{gasMode: "ample", noFund: true}); p == nil {
							continue
						}
					}
					if alive = b.step(r, p, false); !alive {
						break
					}
				}
				// when the coinbase exists and is empty, a frame that touches it and fails
				if alive && b.cur[coinbase] != nil && b.cur[coinbase].empty() {
					s := e.w.Senders[r.Intn(6)]
					if t, ok := b.template(r, "touch_coinbase_fail", s); ok {
						if p := b.lattice(r, s, t, force{gasMode: "ample", noFund: true, price: bigU(uint64(r.Range(1, 50)) * 1e9)}); p != nil {
							p.Kind = "touch_empty_coinbase_fail"
							c.Count("empty_coinbase_touched_in_failed_frame")
							alive = b.step(r, p, false)
						}
					}
				}
				fl := forcedAt[bn]
				for j := 0; alive && (j < ntx || len(fl) > 0); j++ {
					var p *plan
					if len(fl) > 0 && (j >= ntx || r.Intn(3) == 0) {
						p = b.forcedPlan(r, fl[0])
						fl = fl[1:]
						if p == nil {
							continue
						}
					} else {
						p = b.nextPlan(r, force{})
					}
					if p == nil {
						break
					}
					alive = b.step(r, p, r.Intn(3) == 0)
				}
				if !alive || e.broken {
					break
				}
				b.finish()
			}
			c.CountN("tx_applied", e.txCount)
		})
	}
}
