package c06

import (
	"context"
	"encoding/hex"
	"fmt"
	"math/big"
	"strings"

	"gitlab.com/aquachain/aquachain/common"
	"gitlab.com/aquachain/aquachain/consensus/aquahash"
	"gitlab.com/aquachain/aquachain/core"
	"gitlab.com/aquachain/aquachain/core/types"
	"gitlab.com/aquachain/aquachain/core/vm"
	"gitlab.com/aquachain/aquachain/rlp"
	"verif/internal/fw"
	"verif/internal/gen"
)

func bigU(v uint64) *big.Int { return new(big.Int).SetUint64(v) }

// invalidBlock: the twin block with one transaction replaced (or one inserted)
// and only the transaction root recomputed, by the reference trie.
type invalidBlock struct {
	why   string // reference predicate's reason
	label string // variant name
	exact bool
	block *types.Block
	tx    *types.Transaction
	pos   int
}

func assemble(twin *types.Block, txs []*types.Transaction) *types.Block {
	h := types.CopyHeader(twin.Header())
	h.TxHash = common.BytesToHash(refTxRoot(txs))
	return types.NewBlockWithHeader(h).WithBody(txs, nil)
}

// forgeHeader: the twin's body under a header changed by mod (everything else,
// including every root, stays the honest one).
func forgeHeader(twin *types.Block, mod func(h *types.Header)) *types.Block {
	h := types.CopyHeader(twin.Header())
	mod(h)
	return types.NewBlockWithHeader(h).WithBody(twin.Transactions(), nil)
}

// storedGasConsistent reads an imported block and its receipts back from the
// node and compares header gas used, the last receipt's cumulative gas and the
// sum of the receipts' own gas. ok == false comes with a description.
func storedGasConsistent(bc *core.BlockChain, hash common.Hash) (string, bool) {
	blk := bc.GetBlockByHash(hash)
	if blk == nil {
		return "block not stored", false
	}
	rs := bc.GetReceiptsByHash(hash)
	if len(rs) != len(blk.Transactions()) {
		return fmt.Sprintf("%d receipts stored for %d transactions", len(rs), len(blk.Transactions())), false
	}
	sum, last := uint64(0), uint64(0)
	for _, rc := range rs {
		sum += rc.GasUsed
		last = rc.CumulativeGasUsed
	}
	if blk.GasUsed() != sum || last != sum {
		return fmt.Sprintf("stored header gas used %d, last receipt cumulative gas %d, sum of receipt gas %d", blk.GasUsed(), last, sum), false
	}
	if blk.GasUsed() > blk.GasLimit() {
		return fmt.Sprintf("stored header gas used %d above the block gas limit %d", blk.GasUsed(), blk.GasLimit()), false
	}
	return "", true
}

var scenarioClasses = []string{"nonce", "prepay", "value", "intrinsic", "block_rest"}

type invInput struct {
	Config string `json:"config"`
	Index  int    `json:"index"`
	Class  string `json:"class"`
	Height int    `json:"prefix_height"`
}

// stateErr: the errors BlockValidator.ValidateState produces — reaching it means
// the whole transaction list was executed without objection.
func stateErr(err error) bool {
	s := err.Error()
	for _, p := range []string{"invalid gas used", "invalid bloom", "invalid receipt root hash", "invalid merkle root"} {
		if strings.HasPrefix(s, p) {
			return true
		}
	}
	return false
}

func errClass(err error) string {
	s := err.Error()
	switch {
	case strings.Contains(s, "nonce too high"):
		return "nonce_too_high"
	case strings.Contains(s, "nonce too low"):
		return "nonce_too_low"
	case strings.Contains(s, "insufficient balance to pay for gas"):
		return "insufficient_balance_for_gas"
	case strings.Contains(s, "insufficient balance for transfer"):
		return "insufficient_balance_for_transfer"
	case strings.Contains(s, "gas limit reached"):
		return "gas_limit_reached"
	case strings.Contains(s, "out of fuel"), strings.Contains(s, "out of gas"):
		return "out_of_gas"
	}
	return "other"
}

func runInv(c *fw.Ctx) {
	n := c.Pick(10, 130)
	for i := 0; i < n; i++ {
		k := i + 3*c.Batch
		cfgName := cfgRotation[k%len(cfgRotation)]
		class := scenarioClasses[k%len(scenarioClasses)]
		r := c.Rand("inv", fmt.Sprint(i))
		height := r.Intn(7)
		if cfgName == "prebyz" {
			height = r.Intn(17)
		}
		id := fmt.Sprintf("inv-%d", i)
		c.Case(id, invInput{cfgName, i, class, height}, func() { scenario(c, r, cfgName, class, height) })
	}
}

func scenario(c *fw.Ctx, r *fw.Rand, cfgName, class string, height int) {
	e := newEnv(c, r, cfgName)
	defer e.close()
	w := e.w
	var inv []*sender
	for _, s := range w.Senders {
		if s.Kind == "inv" {
			inv = append(inv, s)
		}
	}
	Q := w.Senders[r.Intn(6)] // the rich sender of the nonce / intrinsic / block-rest classes
	e.reserved[Q.Addr] = true

	// --- prefix chain
	for bn := 1; bn <= height && !e.broken; bn++ {
		b := e.begin(e.chooseCoinbase(r, uint64(bn)), 0)
		for j, ntx := 0, r.Intn(3); j < ntx; j++ {
			p := b.nextPlan(r, force{})
			if p == nil || !b.step(r, p, false) {
				break
			}
		}
		if e.broken {
			return
		}
		b.finish()
	}
	if e.broken {
		return
	}

	// --- the boundary transaction's fields (fixed before the funding block)
	var to *common.Address
	var data []byte
	kind := "x_transfer"
	switch r.Intn(5) {
	case 0:
		to, data = addrp(e.freshAddr()), mixBytes(r, dataLen(r))
	case 1:
		to, data = addrp(gen.AddrSink), mixBytes(r, dataLen(r))
		kind = "x_sink"
	case 2:
		to, data = addrp(addrEffects), effectsData(uint64([]int{modeStop, modeInvalid, modeRevert}[r.Intn(3)]), e.freshAddr())
		kind = "x_effects"
	case 3:
		to, data = nil, gen.InitOK()
		kind = "x_create"
	default:
		to, data = addrp(w.Senders[6].Addr), mixBytes(r, dataLen(r))
	}
	intr := refIntrinsic(data, to == nil)
	gas := intr + uint64(r.Intn(3))*uint64(r.Range(1, 120000))
	price := drawPrice(r, w.Senders[0])
	if price.Sign() == 0 {
		price = big.NewInt(int64(r.Range(1, 9)))
	}
	value := new(big.Int)
	if r.Intn(4) != 0 {
		value = new(big.Int).Mul(big.NewInt(int64(r.Range(1, 1e6))), big.NewInt(int64(r.Range(1, 1e9))))
	}
	gp := new(big.Int).Mul(bigU(gas), price)

	// --- funding block: exact balances for the reserved keys; Q sends once so that its nonce is >= 1
	coin := e.chooseCoinbase(r, uint64(height+1))
	fb := e.begin(coin, 0)
	fund := func(to *sender, amount *big.Int) bool {
		// a whale (or whoever can still afford it: the drawn history may have emptied one)
		var from *sender
		need := new(big.Int).Add(amount, big.NewInt(21000*50e9))
		for _, k := range []int{6 + r.Intn(2), 6, 7, 0, 1, 2, 3, 4, 5} {
			if s := w.Senders[k]; s != Q && fb.cur.get(s.Addr).Bal.Cmp(need) >= 0 {
				from = s
				break
			}
		}
		if from == nil {
			c.Count("scenario_skipped_no_funder")
			return false
		}
		p := &plan{Kind: "fund_exact", S: from, Nonce: fb.cur.get(from.Addr).Nonce, To: addrp(to.Addr), Value: amount, Price: big.NewInt(int64(r.Range(1, 50)) * 1e9),
			Gas: 21000, GasMode: "intrinsic", ValMode: "planned", Expect: expectOK, Data: nil}
		return fb.step(r, p, false)
	}
	okF := fund(inv[0], new(big.Int).Sub(gp, big1)) && // one wei short of the prepayment
		fund(inv[1], gp) && // exactly the prepayment
		fund(inv[2], new(big.Int).Add(gp, value)) // exactly prepayment + value
	if okF {
		p := fb.lattice(r, Q, tmpl{kind: "transfer_fresh", to: addrp(e.freshAddr()), expect: expectOK}, force{gasMode: "ample", valMode: "one", noFund: true, price: big.NewInt(int64(r.Range(1, 50)) * 1e9)})
		okF = p != nil && fb.step(r, p, false)
	}
	if !okF || e.broken {
		return
	}
	fundBlock := fb.finish()
	if fundBlock == nil {
		return
	}

	// --- scenario block: prefix transactions, the boundary transaction, suffix
	b := e.begin(e.chooseCoinbase(r, uint64(height+2)), 0)
	for _, s := range inv {
		e.reserved[s.Addr] = true
	}
	nPre, nPost := r.Intn(4), r.Intn(3)
	if class == "block_rest" && nPre == 0 {
		nPre = 1
	}
	for j := 0; j < nPre; j++ {
		var p *plan
		if j == 0 && r.Bool() {
			p = b.forcedPlan(r, forcedList[r.Intn(3)]) // a refund-earning transaction whose limit is far above its use
		}
		if p == nil {
			p = b.nextPlan(r, force{noFund: true})
		}
		if p == nil || p.GasMode == "block_rest" {
			continue
		}
		if !b.step(r, p, false) {
			return
		}
	}
	pos := len(b.txs)
	// the twin
	x := &plan{Kind: kind, To: to, Data: data, Value: new(big.Int), Price: price, Gas: gas, GasMode: "planned", ValMode: "planned"}
	var variants []*plan
	mk := func(label string, exact bool, mod func(q *plan)) {
		q := x.clone()
		mod(q)
		q.Kind, q.Exactly = label, exact
		variants = append(variants, q)
	}
	switch class {
	case "nonce":
		x.S, x.Nonce = Q, b.cur.get(Q.Addr).Nonce
		x.Value = value
		mk("nonce_plus_1", true, func(q *plan) { q.Nonce++ })
		mk("nonce_minus_1", true, func(q *plan) { q.Nonce-- })
		mk("nonce_far_ahead", false, func(q *plan) { q.Nonce += uint64(r.Range(2, 1000)) })
	case "prepay":
		x.S, x.Nonce = inv[1], 0
		mk("balance_one_below_prepayment", true, func(q *plan) { q.S = inv[0] })
		mk("price_plus_1", false, func(q *plan) { q.Price = new(big.Int).Add(q.Price, big1) })
		mk("gas_plus_1", x.Price.Cmp(big1) == 0, func(q *plan) { q.Gas++ })
		c.Count("twin_exactly_enough_for_gas")
	case "value":
		x.S, x.Nonce, x.Value = inv[2], 0, value
		mk("value_plus_1", true, func(q *plan) { q.Value = new(big.Int).Add(q.Value, big1) })
		mk("price_plus_1", false, func(q *plan) { q.Price = new(big.Int).Add(q.Price, big1) })
		c.Count("twin_exactly_enough_for_gas_and_value")
	case "intrinsic":
		x.S, x.Nonce, x.Gas = Q, b.cur.get(Q.Addr).Nonce, intr
		x.Value = value
		mk("gas_intrinsic_minus_1", true, func(q *plan) { q.Gas = intr - 1 })
		mk("gas_transfer_cost_only", false, func(q *plan) { q.Gas = 21000 })
		c.Count("twin_gas_equals_intrinsic")
	case "block_rest":
		left := b.gasLeft()
		x.S, x.Nonce, x.Gas = Q, b.cur.get(Q.Addr).Nonce, left
		x.Value = value
		if mx := new(big.Int).Div(b.cur.get(Q.Addr).Bal, bigU(left+1)); x.Price.Cmp(mx) > 0 {
			x.Price = mx
		}
		if to != nil && *to == addrEffects {
			// an exceptional halt would burn the whole block
			x.To, x.Data, x.Kind = addrp(gen.AddrSink), nil, "x_sink"
		}
		mk("gas_block_rest_plus_1", true, func(q *plan) { q.Gas = left + 1 })
		mk("gas_block_limit_plus_1", false, func(q *plan) { q.Gas = b.header.GasLimit + 1 })
		c.Count("twin_gas_equals_block_rest")
	}
	if ok, why := b.refValid(x); !ok {
		panic("twin invalid by construction: " + why + " " + x.describe())
	}
	// general one-unit variants of the twin as well
	for _, q := range b.invalidVariants(r, x) {
		variants = append(variants, q)
	}
	var bad []*invalidBlock
	seen := map[common.Hash]bool{}
	for _, q := range variants {
		ok, why := b.refValid(q)
		if ok {
			continue // e.g. gas_transfer_cost_only when there is no data
		}
		tx := b.sign(q)
		if seen[tx.Hash()] {
			continue
		}
		seen[tx.Hash()] = true
		b.tryInvalid(q)
		bad = append(bad, &invalidBlock{why: why, label: q.Kind, exact: q.Exactly, tx: tx, pos: pos})
	}
	if !b.step(r, x, false) {
		return
	}
	for j := 0; j < nPost && b.gasLeft() >= 21000; j++ {
		p := b.nextPlan(r, force{noFund: true})
		if p == nil {
			break
		}
		if !b.step(r, p, false) {
			return
		}
	}
	twin := b.finish()
	if twin == nil {
		return
	}
	for _, ib := range bad {
		txs := append([]*types.Transaction{}, twin.Transactions()...)
		txs[ib.pos] = ib.tx
		ib.block = assemble(twin, txs)
	}
	// replay: an earlier transaction of the block included a second time
	if len(twin.Transactions()) > 0 {
		j := r.Intn(len(twin.Transactions()))
		txs := append([]*types.Transaction{}, twin.Transactions()...)
		at := r.Range(j+1, len(txs))
		txs = append(txs[:at], append([]*types.Transaction{twin.Transactions()[j]}, txs[at:]...)...)
		bad = append(bad, &invalidBlock{why: "nonce_too_low", label: "transaction_included_twice", exact: true, tx: twin.Transactions()[j], pos: at, block: assemble(twin, txs)})
	}

	// --- the judge: a second node that is given the same chain
	jdb, _ := w.NewDB()
	judge, err := core.NewBlockChain(context.Background(), jdb, &core.CacheConfig{Disabled: r.Bool()}, e.cfg, aquahash.NewFaker(), vm.Config{})
	if err != nil {
		panic(err)
	}
	defer judge.Stop()
	prefix := e.built[:len(e.built)-2]
	if len(prefix) > 0 {
		if i, err := judge.InsertChain(append(types.Blocks{}, prefix...)); err != nil {
			c.ViolateInput("valid_block_rejected", "InsertChain", "second_node", fmt.Sprintf("%s: the second node refused prefix block %d that the first accepted: %v", cfgName, i, err), nil)
			return
		}
	}
	fundKnown := false
	for k, ib := range bad {
		in := map[string]interface{}{"config": cfgName, "class": class, "variant": ib.label, "reference_reason": ib.why, "block": twin.NumberU64(), "position": ib.pos,
			"tx_rlp": hex.EncodeToString(mustRLP(ib.tx)), "twin_tx": x.describe(), "twin_kinds": b.kinds, "byzantium": b.byz}
		where := fmt.Sprintf("%s block %d position %d of %d, variant %s of twin %s", cfgName, twin.NumberU64(), ib.pos, len(ib.block.Transactions()), ib.label, x.describe())
		chain := types.Blocks{ib.block}
		wantIdx := 0
		if !fundKnown && (k > 0 || r.Bool()) {
			chain = types.Blocks{fundBlock, ib.block}
			wantIdx = 1
			c.Count("invalid_block_behind_valid_block")
		} else if !fundKnown {
			if _, err := judge.InsertChain(types.Blocks{fundBlock}); err != nil {
				c.ViolateInput("valid_block_rejected", "InsertChain", "second_node", fmt.Sprintf("%s: funding block refused: %v", cfgName, err), in)
				return
			}
		}
		fundKnown = true
		idx, err := judge.InsertChain(chain)
		head := judge.CurrentBlock()
		switch {
		case err == nil:
			c.ViolateInput("invalid_block_accepted", "InsertChain", ib.why, where+fmt.Sprintf(": a block whose transaction %s was imported (head %d)", strings.ReplaceAll(ib.why, "_", " "), head.NumberU64()), in)
			return // the judge chain is spoilt
		case stateErr(err):
			c.ViolateInput("invalid_tx_executed_in_block", "InsertChain", ib.why, where+fmt.Sprintf(": the transaction list was executed to the end; only the header commitments stopped the block: %v", err), in)
		case idx != wantIdx:
			c.ViolateInput("invalid_block_failed_at_wrong_index", "InsertChain", ib.why, where+fmt.Sprintf(": InsertChain failed at index %d, expected %d: %v", idx, wantIdx, err), in)
		case strings.Contains(err.Error(), "root hash mismatch") || errClass(err) == "other":
			c.Inconclusive("invalid_block_refused_before_execution")
			c.Note("%s: refused with %v", where, err)
		default:
			c.Count("invalid_block_rejected_" + ib.why)
			c.Count("invalid_block_error_" + errClass(err))
			if ib.exact {
				c.Count("invalid_block_off_by_one_" + ib.why)
			}
			c.Nontrivial(fmt.Sprintf("inv|%s|%s|%s|%x", cfgName, class, ib.label, ib.tx.Hash()))
		}
		if head.Hash() != fundBlock.Hash() {
			c.ViolateInput("invalid_block_changed_head", "InsertChain", ib.why, where+fmt.Sprintf(": head is block %d %x after the refusal, expected the funding block", head.NumberU64(), head.Hash()), in)
			return
		}
		if judge.GetBlockByHash(ib.block.Hash()) != nil && judge.HasBlockAndState(ib.block.Hash(), ib.block.NumberU64()) {
			c.ViolateInput("invalid_block_accepted", "InsertChain", ib.why, where+": the refused block and its state are stored", in)
		}
	}
	if !fundKnown {
		if _, err := judge.InsertChain(types.Blocks{fundBlock}); err != nil {
			c.ViolateInput("valid_block_rejected", "InsertChain", "second_node", fmt.Sprintf("%s: funding block refused: %v", cfgName, err), nil)
			return
		}
	}
	// --- forged header commitment: the twin's honest body, roots and bloom under
	// a header whose gas used is not the sum over the receipts
	cum, limit := twin.GasUsed(), twin.GasLimit()
	type forged struct {
		label string
		gas   uint64
	}
	var fg []forged
	if cum+1 <= limit {
		fg = append(fg, forged{"gas_used_plus_1", cum + 1})
	}
	if cum > 0 {
		fg = append(fg, forged{"gas_used_minus_1", cum - 1})
	}
	if limit-cum >= 3 {
		fg = append(fg, forged{"gas_used_plus_n", cum + uint64(r.Range(2, int(min(limit-cum-1, 2000000))))})
	}
	if limit > cum+1 {
		fg = append(fg, forged{"gas_used_equals_limit", limit})
	}
	for _, f := range fg {
		fb := forgeHeader(twin, func(h *types.Header) { h.GasUsed = f.gas })
		in := map[string]interface{}{"config": cfgName, "class": class, "block": twin.NumberU64(), "variant": f.label, "header_gas_used": f.gas,
			"sum_of_receipt_gas": cum, "block_gas_limit": limit, "twin_kinds": b.kinds, "byzantium": b.byz}
		where := fmt.Sprintf("%s block %d (%d transactions %v): header gas used %d, the transactions use %d, block gas limit %d", cfgName, twin.NumberU64(), len(twin.Transactions()), b.kinds, f.gas, cum, limit)
		idx, err := judge.InsertChain(types.Blocks{fb})
		head := judge.CurrentBlock()
		if err == nil || head.Hash() != fundBlock.Hash() {
			detail := where + fmt.Sprintf(": InsertChain returned %v at %d, head is block %d", err, idx, head.NumberU64())
			if head.Hash() == fb.Hash() {
				if d, ok := storedGasConsistent(judge, fb.Hash()); !ok {
					detail += "; " + d
				}
			}
			c.ViolateInput("header_gas_used_not_enforced", "InsertChain", f.label, detail, in)
			return // the judge chain is spoilt
		}
		if idx != 0 {
			c.ViolateInput("invalid_block_failed_at_wrong_index", "InsertChain", f.label, where+fmt.Sprintf(": failed at index %d: %v", idx, err), in)
		}
		c.Count("forged_gas_used_rejected")
		c.Count("forged_gas_used_rejected_" + f.label)
		if !strings.HasPrefix(err.Error(), "invalid gas used") {
			c.Count("forged_gas_used_rejected_for_another_reason")
			c.Note("%s: refused with %v", where, err)
		}
		c.Nontrivial(fmt.Sprintf("forged|%s|%s|%x|%d", cfgName, f.label, twin.Hash(), f.gas))
	}

	in := map[string]interface{}{"config": cfgName, "class": class, "block": twin.NumberU64(), "position": pos, "twin_tx": x.describe(), "twin_kinds": b.kinds}
	if i, err := judge.InsertChain(types.Blocks{twin}); err != nil || judge.CurrentBlock().Hash() != twin.Hash() {
		c.ViolateInput("boundary_valid_twin_rejected", "InsertChain", class, fmt.Sprintf("%s block %d: the twin %s at position %d was refused by the second node (index %d): %v", cfgName, twin.NumberU64(), x.describe(), pos, i, err), in)
		return
	}
	if d, ok := storedGasConsistent(judge, twin.Hash()); !ok {
		c.ViolateInput("cumulative_gas_not_sum_of_receipts", "InsertChain", "stored_block", fmt.Sprintf("%s block %d on the second node: %s", cfgName, twin.NumberU64(), d), in)
	} else {
		c.Count("stored_block_gas_compared")
	}
	c.Count("twin_block_accepted")
	c.Count("twin_block_accepted_" + class)
	if c.WantSample() {
		var labels []string
		for _, ib := range bad {
			labels = append(labels, ib.label+":"+ib.why)
		}
		c.Sample(map[string]interface{}{"config": cfgName, "class": class, "block": twin.NumberU64(), "position": pos, "txs_in_block": len(twin.Transactions()),
			"twin": x.describe(), "invalid_variants_refused": labels})
	}
}

func mustRLP(v interface{}) []byte {
	b, err := rlp.EncodeToBytes(v)
	if err != nil {
		panic(err)
	}
	return b
}
