package c06

import (
	"math/big"
	"time"

	"gitlab.com/aquachain/aquachain/common"
	"gitlab.com/aquachain/aquachain/core/vm"
)

// tracer observes one transaction through vm.Config.Tracer. It records the
// execution gas the EVM reports for the outermost frame, whether it failed, which
// effect-bearing operations executed, and keeps an independent model of the
// refund counter: the yellow paper's accrued substate A_r — 15000 for every
// SSTORE that turns a non-zero slot into zero, 24000 for the first SELFDESTRUCT
// of an address — where the substate of a frame that fails is discarded.
type tracer struct {
	started, ended bool
	create         bool
	startGas       uint64
	execGas        uint64
	err            error

	frames    []*frame
	refund    uint64 // model refund counter at the end (0 if the outer frame failed)
	uncertain bool   // frame bookkeeping lost track: the exact refund clause is skipped

	earning    int // refund-earning operations executed (in any frame, reverted or not)
	sstores    int
	logs       int
	valueCalls int
	creates    int
	suicides   int
	calls      int // any CALL/CALLCODE/DELEGATECALL/STATICCALL
	steps      int
	innerFail  int // inner frames that failed
	// revTouched: addresses that received a zero-value transfer inside a frame
	// that was rolled back
	revTouched []common.Address
}

type frame struct {
	refund  uint64
	sd      []common.Address
	touched []common.Address // targets of zero-value transfers made in this frame
}

func newTracer() *tracer { return &tracer{} }

func (t *tracer) CaptureStart(from common.Address, to common.Address, create bool, input []byte, gas uint64, value *big.Int) error {
	t.started, t.create, t.startGas = true, create, gas
	return nil
}

func (t *tracer) suicided(a common.Address) bool {
	for _, f := range t.frames {
		for _, x := range f.sd {
			if x == a {
				return true
			}
		}
	}
	return false
}

func (t *tracer) sync(depth int, stack *vm.Stack) {
	for len(t.frames) > depth {
		child := t.frames[len(t.frames)-1]
		t.frames = t.frames[:len(t.frames)-1]
		if len(t.frames) == 0 {
			t.uncertain = true
			return
		}
		// the first step of the parent after the child returned: the top of its
		// stack is the success flag (CALL family) or the new address (CREATE)
		d := stack.Data()
		if len(d) == 0 {
			t.uncertain = true
			continue
		}
		if d[len(d)-1].Sign() != 0 {
			p := t.frames[len(t.frames)-1]
			p.refund += child.refund
			p.sd = append(p.sd, child.sd...)
			p.touched = append(p.touched, child.touched...)
		} else {
			t.innerFail++
			t.revTouched = append(t.revTouched, child.touched...)
		}
	}
	for len(t.frames) < depth {
		t.frames = append(t.frames, &frame{})
	}
}

func (t *tracer) CaptureState(env *vm.EVM, pc uint64, op vm.OpCode, gas, cost uint64, memory *vm.Memory, stack *vm.Stack, contract *vm.Contract, depth int, err error) error {
	t.steps++
	if depth != len(t.frames) {
		t.sync(depth, stack)
	}
	if err != nil || len(t.frames) == 0 {
		return nil
	}
	f := t.frames[len(t.frames)-1]
	switch op {
	case vm.SSTORE:
		t.sstores++
		d := stack.Data()
		if len(d) >= 2 {
			key := common.BigToHash(d[len(d)-1])
			val := d[len(d)-2]
			cur := env.StateDB.GetState(contract.Address(), key)
			if cur != (common.Hash{}) && val.Sign() == 0 {
				f.refund += 15000
				t.earning++
			}
		}
	case vm.SELFDESTRUCT:
		t.suicides++
		a := contract.Address()
		if d := stack.Data(); len(d) >= 1 && env.StateDB.GetBalance(a).Sign() == 0 {
			f.touched = append(f.touched, common.BigToAddress(d[len(d)-1]))
		}
		if !t.suicided(a) {
			f.refund += 24000
			f.sd = append(f.sd, a)
			t.earning++
		}
	case vm.LOG0, vm.LOG1, vm.LOG2, vm.LOG3, vm.LOG4:
		t.logs++
	case vm.CALL, vm.CALLCODE:
		t.calls++
		d := stack.Data()
		if len(d) >= 3 && d[len(d)-3].Sign() != 0 {
			t.valueCalls++
		} else if len(d) >= 3 && op == vm.CALL {
			f.touched = append(f.touched, common.BigToAddress(d[len(d)-2]))
		}
	case vm.DELEGATECALL, vm.STATICCALL:
		t.calls++
	case vm.CREATE:
		t.creates++
	}
	return nil
}

func (t *tracer) CaptureFault(env *vm.EVM, pc uint64, op vm.OpCode, gas, cost uint64, memory *vm.Memory, stack *vm.Stack, contract *vm.Contract, depth int, err error) error {
	return nil
}

func (t *tracer) CaptureEnd(output []byte, gasUsed uint64, d time.Duration, err error) error {
	t.ended, t.execGas, t.err = true, gasUsed, err
	if err != nil {
		for _, f := range t.frames {
			t.revTouched = append(t.revTouched, f.touched...)
		}
	}
	switch {
	case err != nil:
		t.refund = 0
	case len(t.frames) == 0:
		t.refund = 0
	case len(t.frames) == 1:
		t.refund = t.frames[0].refund
	default:
		t.uncertain = true
	}
	return nil
}

// effects: something that must be rolled back was executed before the end.
func (t *tracer) effects() bool { return t.sstores+t.logs+t.valueCalls+t.creates > 0 }
